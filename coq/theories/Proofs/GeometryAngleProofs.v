(* Proofs/GeometryAngleProofs.v — atan2, spherical coordinates, direct isometries (C17). *)
From Coq Require Import List Reals Lra Lia ZArith Bool Nsatz.
From Flocq Require Import Core.Raux.
From Arim Require Import Base.Num Base.NumR Model.Vec3 Model.Geometry Proofs.Vec3Proofs Proofs.GeometryProofs
  Proofs.GeometryGridProofs.
Import ListNotations.
Local Open Scope R_scope.

(* ---- atan2 ----------------------------------------------------------------------- *)
Lemma sqrt_1_sq_div x y : x <> 0 -> sqrt (1 + (y / x)²) = sqrt (x * x + y * y) / Rabs x.
Proof.
  intros Hx. assert (Hx2 : 0 < x * x) by (destruct (Rtotal_order x 0) as [H|[H|H]]; [nra | contradiction | nra]).
  replace (1 + (y / x)²) with ((x * x + y * y) / (x * x)) by (unfold Rsqr; field; exact Hx).
  rewrite sqrt_div by nra. f_equal. fold (Rsqr x). apply sqrt_Rsqr_abs.
Qed.

Lemma atan2_bound y x : - PI <= Ratan2 y x <= PI.
Proof.
  pose proof PI_RGT_0 as Hpi. unfold Ratan2.
  destruct (Rlt_bool_spec 0 x) as [Hx|Hx].
  - pose proof (atan_bound (y / x)). lra.
  - destruct (Rlt_bool_spec x 0) as [Hx'|Hx'].
    + destruct (Rle_bool_spec 0 y) as [Hy|Hy].
      * assert (y / x <= 0) by (unfold Rdiv; assert (/ x < 0) by (apply Rinv_lt_0_compat; exact Hx'); nra).
        assert (atan (y / x) <= 0).
        { destruct (Req_dec (y / x) 0) as [E|E]; [rewrite E, atan_0; lra|].
          left. rewrite <- atan_0. apply atan_increasing. lra. }
        pose proof (atan_bound (y / x)). lra.
      * assert (0 < y / x) by (unfold Rdiv; assert (/ x < 0) by (apply Rinv_lt_0_compat; exact Hx'); nra).
        assert (0 < atan (y / x)) by (rewrite <- atan_0; apply atan_increasing; assumption).
        pose proof (atan_bound (y / x)). lra.
    + destruct (Rlt_bool_spec 0 y); [lra|]. destruct (Rlt_bool_spec y 0); lra.
Qed.

(* cos and sin of atan2(y, x) are x/rho and y/rho *)
Lemma atan2_cos_sin y x : 0 < sqrt (x * x + y * y) ->
  cos (Ratan2 y x) = x / sqrt (x * x + y * y) /\ sin (Ratan2 y x) = y / sqrt (x * x + y * y).
Proof.
  intros Hrho. set (rho := sqrt (x * x + y * y)) in *. unfold Ratan2.
  destruct (Rlt_bool_spec 0 x) as [Hx|Hx].
  - rewrite cos_atan, sin_atan, sqrt_1_sq_div by lra. fold rho. rewrite Rabs_right by lra.
    split; field; split; lra.
  - destruct (Rlt_bool_spec x 0) as [Hx'|Hx'].
    + assert (Hc : cos (atan (y / x)) = - x / rho /\ sin (atan (y / x)) = - y / rho).
      { rewrite cos_atan, sin_atan, sqrt_1_sq_div by lra. fold rho. rewrite Rabs_left by lra.
        split; field; split; lra. }
      destruct Hc as [Hc Hs].
      destruct (Rle_bool_spec 0 y) as [Hy|Hy].
      * rewrite neg_cos, neg_sin.
        rewrite Hc, Hs. split; field; lra.
      * unfold Rminus. rewrite cos_plus, sin_plus, cos_neg, sin_neg, cos_PI, sin_PI, Hc, Hs. split; field; lra.
    + assert (x = 0) by lra. subst x.
      assert (Hrho2 : rho * rho = y * y) by (unfold rho; rewrite sqrt_sqrt by nra; ring).
      destruct (Rlt_bool_spec 0 y) as [Hy|Hy].
      * assert (rho = y) by nra. rewrite cos_PI2, sin_PI2. clearbody rho. subst rho. split; field; lra.
      * destruct (Rlt_bool_spec y 0) as [Hy'|Hy'].
        -- assert (rho = - y) by nra. rewrite cos_neg, sin_neg, cos_PI2, sin_PI2. clearbody rho. subst rho. split; field; lra.
        -- assert (y = 0) by lra. subst y. nra.
Qed.

(* ---- spherical coordinates ------------------------------------------------------------ *)
Lemma norm2_v_R (p : vec3 R) : norm2_v NumR p = sqrt (vx p * vx p + vy p * vy p + vz p * vz p).
Proof. unfold norm2_v, norm2_3. cbn [NumR nsqrt nadd nmul n0]. f_equal. ring. Qed.

Lemma spherical_ranges_R (p : vec3 R) :
  let '(r, theta, phi) := spherical_coordinates NumR p in
  0 <= r /\ 0 <= theta <= PI /\ - PI <= phi <= PI.
Proof.
  unfold spherical_coordinates, spherical_r, spherical_theta, spherical_phi. cbn [NumR nacos natan2 ndiv].
  split; [rewrite norm2_v_R; apply sqrt_pos|]. split; [apply acos_bound | apply atan2_bound].
Qed.

Lemma z_over_r_bound (x y z : R) : 0 < sqrt (x * x + y * y + z * z) ->
  -1 <= z / sqrt (x * x + y * y + z * z) <= 1.
Proof.
  intros Hr. set (r := sqrt (x * x + y * y + z * z)) in *.
  assert (Hr2 : r * r = x * x + y * y + z * z) by (unfold r; rewrite sqrt_sqrt by nra; ring).
  assert (- r <= z <= r) by (split; nra).
  split.
  - apply Rmult_le_reg_r with r; [exact Hr|]. replace (z / r * r) with z by (field; lra). lra.
  - apply Rmult_le_reg_r with r; [exact Hr|]. replace (z / r * r) with z by (field; lra). lra.
Qed.

Lemma spherical_inverse_z_R (p : vec3 R) :
  let '(r, theta, phi) := spherical_coordinates NumR p in 0 < r -> r * cos theta = vz p.
Proof.
  unfold spherical_coordinates, spherical_r, spherical_theta, spherical_phi. cbn [NumR nacos natan2 ndiv].
  rewrite norm2_v_R. intros Hr. rewrite cos_acos by (apply z_over_r_bound; exact Hr). field. lra.
Qed.

Lemma spherical_inverse_xy_R (p : vec3 R) :
  let '(r, theta, phi) := spherical_coordinates NumR p in
  r * sin theta * cos phi = vx p /\ r * sin theta * sin phi = vy p.
Proof.
  unfold spherical_coordinates, spherical_r, spherical_theta, spherical_phi. cbn [NumR nacos natan2 ndiv].
  rewrite norm2_v_R. destruct p as [[x y] z]. cbn [vx vy vz fst snd].
  set (r := sqrt (x * x + y * y + z * z)).
  assert (Hr0 : 0 <= r) by apply sqrt_pos.
  assert (Hr2 : r * r = x * x + y * y + z * z) by (unfold r; rewrite sqrt_sqrt by nra; ring).
  destruct (Req_dec r 0) as [E|E].
  - (* the origin: r = 0 *)
    rewrite E. assert (x = 0 /\ y = 0) as [-> ->] by (split; nra). split; ring.
  - assert (Hr : 0 < r) by lra.
    rewrite sin_acos by (apply z_over_r_bound; exact Hr). fold r.
    set (rho := sqrt (x * x + y * y)).
    assert (Hrs : r * sqrt (1 - (z / r)²) = rho).
    { rewrite <- (sqrt_square r) at 1 by exact Hr0. rewrite <- sqrt_mult_alt by nra. unfold rho. f_equal.
      unfold Rsqr. rewrite Hr2 at 1. replace (x * x + y * y) with (r * r - z * z) by lra. field. lra. }
    rewrite Hrs.
    assert (Hrho0 : 0 <= rho) by apply sqrt_pos.
    destruct (Req_dec rho 0) as [E0|E0].
    + rewrite E0. assert (Hrho2 : rho * rho = x * x + y * y) by (unfold rho; rewrite sqrt_sqrt by nra; ring).
      assert (x = 0 /\ y = 0) as [-> ->] by (split; nra). split; ring.
    + destruct (atan2_cos_sin y x) as [Hc Hs]; [fold rho; lra|]. fold rho in Hc, Hs.
      rewrite Hc, Hs. split; field; exact E0.
Qed.

(* ---- isclose over the reals ------------------------------------------------------------- *)
Lemma isclose_refl_R a : isclose NumR a a = true.
Proof.
  unfold isclose, atol_default, rtol_default. cbn [NumR nleb nadd nsub nmul ndiv n1 nofZ]. rewrite !nabs_Rabs.
  destruct (Rle_bool_spec (Rabs (a - a)) (1 / 100000000 + 1 / 100000 * Rabs a)) as [_|H]; [reflexivity|].
  exfalso. replace (a - a) with 0 in H by ring. rewrite Rabs_R0 in H. pose proof (Rabs_pos a). lra.
Qed.

(* ---- direct_isometry_2d ---------------------------------------------------------------- *)
(* whenever a result is returned it is a proper rotation of the plane that sends B to B';
   it sends A to A' when |AB| = |A'B'| (the assertion of the code, exactly) and A <> B *)
Lemma isometry2d_R (A B Ap Bp : vec2 R) :
  let AB := v2sub NumR B A in let ApBp := v2sub NumR Bp Ap in
  0 < fst AB * fst AB + snd AB * snd AB ->
  fst AB * fst AB + snd AB * snd AB = fst ApBp * fst ApBp + snd ApBp * snd ApBp ->
  exists c s P, direct_isometry_2d NumR A B Ap Bp = Some (rot2_cs NumR c s, P) /\
    c * c + s * s = 1 /\
    v2add NumR (m2vec NumR (rot2_cs NumR c s) A) P = Ap /\
    v2add NumR (m2vec NumR (rot2_cs NumR c s) B) P = Bp.
Proof.
  destruct A as [a0 a1], B as [b0 b1], Ap as [c0 c1], Bp as [d0 d1].
  unfold v2sub. cbn [fst snd NumR nsub]. intros Hpos Heq.
  unfold direct_isometry_2d, v2sub, norm2_2. cbn [fst snd NumR nsub nadd nmul nsqrt natan2 ncos nsin n0].
  replace (0 + (d0 - c0) * (d0 - c0) + (d1 - c1) * (d1 - c1)) with (0 + (b0 - a0) * (b0 - a0) + (b1 - a1) * (b1 - a1)) by lra.
  rewrite isclose_refl_R.
  set (x := b0 - a0) in *. set (y := b1 - a1) in *. set (x' := d0 - c0) in *. set (y' := d1 - c1) in *.
  assert (Hrho : 0 < sqrt (x * x + y * y)) by (apply sqrt_lt_R0; exact Hpos).
  destruct (atan2_cos_sin y x Hrho) as [Hc Hs].
  destruct (atan2_cos_sin y' x') as [Hc' Hs']; [rewrite <- Heq; exact Hrho|]. rewrite <- Heq in Hc', Hs'.
  set (rho := sqrt (x * x + y * y)) in *.
  assert (Hrho2 : rho * rho = x * x + y * y) by (unfold rho; rewrite sqrt_sqrt by nra; ring).
  eexists _, _, _. split; [reflexivity|].
  set (phi := Ratan2 y x) in *. set (psi := Ratan2 y' x') in *.
  split; [apply cos_sin_unit|].
  unfold v2add, m2vec, rot2_cs. cbn [fst snd NumR nadd nsub nmul nopp].
  rewrite cos_minus, sin_minus, Hc, Hs, Hc', Hs'.
  assert (Hx : x = b0 - a0) by reflexivity. assert (Hy : y = b1 - a1) by reflexivity.
  assert (Hx' : x' = d0 - c0) by reflexivity. assert (Hy' : y' = d1 - c1) by reflexivity.
  clearbody x y x' y' rho phi psi.
  assert (Hr : rho <> 0) by lra.
  assert (HC : x' / rho * (x / rho) + y' / rho * (y / rho) = (x' * x + y' * y) / (x * x + y * y))
    by (rewrite <- Hrho2; field; exact Hr).
  assert (HS : y' / rho * (x / rho) - x' / rho * (y / rho) = (y' * x - x' * y) / (x * x + y * y))
    by (rewrite <- Hrho2; field; exact Hr).
  rewrite HC, HS.
  set (C := (x' * x + y' * y) / (x * x + y * y)). set (S := (y' * x - x' * y) / (x * x + y * y)).
  assert (E1 : C * x - S * y = x') by (unfold C, S; field; lra).
  assert (E2 : S * x + C * y = y') by (unfold C, S; field; lra).
  clearbody C S. subst x y x' y'.
  split; apply (f_equal2 pair); lra.
Qed.

(* ---- direct_isometry_3d ------------------------------------------------------------------ *)
Lemma sqrt_unit x : x = 1 -> sqrt x = 1.
Proof. intros ->. apply sqrt_1. Qed.

Lemma iso3d_valid_R (i j u v : vec3 R) :
  vdot NumR i i = 1 -> vdot NumR j j = 1 -> vdot NumR i j = 0 ->
  vdot NumR u u = 1 -> vdot NumR v v = 1 -> vdot NumR u v = 0 ->
  iso3d_valid NumR i j u v = true.
Proof.
  intros Hi Hj Hij Hu Hv Huv. unfold iso3d_valid. rewrite Hij, Huv.
  assert (Hn : forall w, vdot NumR w w = 1 -> norm2_v NumR w = n1 NumR).
  { intros w Hw. rewrite norm2_v_R. apply sqrt_unit. rewrite <- Hw. v3_start. ring. }
  rewrite (Hn i Hi), (Hn j Hj), (Hn u Hu), (Hn v Hv). rewrite !isclose_refl_R. reflexivity.
Qed.

Section Iso3d.
  (* numpy.linalg.solve as an oracle *)
  Variable solve : mat3 R -> mat3 R -> mat3 R.
  Hypothesis solve_spec : forall a b, mdet NumR a <> 0 -> mmul NumR a (solve a b) = b.

  Lemma isometry3d_R (A i j B u v : vec3 R) :
    vdot NumR i i = 1 -> vdot NumR j j = 1 -> vdot NumR i j = 0 ->
    vdot NumR u u = 1 -> vdot NumR v v = 1 -> vdot NumR u v = 0 ->
    exists M P, direct_isometry_3d NumR solve A i j B u v = Some (M, P) /\
      proper_rotation NumR M /\
      mvec NumR M i = u /\ mvec NumR M j = v /\ mvec NumR M (vcross NumR i j) = vcross NumR u v /\
      vadd NumR (mvec NumR M A) P = B /\
      M = mmul NumR (mtrans (u, v, vcross NumR u v)) (i, j, vcross NumR i j).
  Proof.
    intros Hi Hj Hij Hu Hv Huv. unfold direct_isometry_3d.
    rewrite iso3d_valid_R by assumption.
    set (F := (i, j, vcross NumR i j)). set (G := (u, v, vcross NumR u v)).
    rewrite !mtrans_involutive.
    assert (HF : proper_rotation NumR F) by (apply cross_frame; assumption).
    assert (HG : proper_rotation NumR G) by (apply cross_frame; assumption).
    assert (HdF : mdet NumR F <> 0) by (destruct HF as [_ ->]; cbn [NumR n1]; lra).
    pose proof (solve_spec F G HdF) as HX. set (X := solve F G) in *.
    assert (EX : X = mmul NumR (mtrans F) G).
    { destruct HF as [[_ Hc] _]. unfold cols_orthonormal in Hc.
      rewrite <- HX, <- mmul_assoc, Hc, mmul_id_l. reflexivity. }
    assert (EM : mtrans X = mmul NumR (mtrans G) F) by (rewrite EX, mtrans_mmul, mtrans_involutive; reflexivity).
    eexists _, _. split; [reflexivity|]. rewrite EM.
    split; [apply mmul_proper; [apply mtrans_proper; exact HG | exact HF]|].
    assert (Hrows : rows_orthonormal NumR F) by (destruct HF as [[Hr _] _]; exact Hr).
    apply rows_orthonormal_iff in Hrows. destruct Hrows as (F1 & F2 & F3 & F4 & F5 & F6).
    rewrite !mvec_mmul.
    assert (Ei : mvec NumR F i = (1, 0, 0)).
    { unfold F, mvec. cbn [mrow0 mrow1 mrow2 fst snd]. apply (f_equal2 pair); [apply (f_equal2 pair)|].
      - exact F1. - rewrite <- F4. v3_start. ring. - rewrite <- F5. v3_start. ring. }
    assert (Ej : mvec NumR F j = (0, 1, 0)).
    { unfold F, mvec. cbn [mrow0 mrow1 mrow2 fst snd]. apply (f_equal2 pair); [apply (f_equal2 pair)|].
      - exact F4. - exact F2. - rewrite <- F6. v3_start. ring. }
    assert (Ek : mvec NumR F (vcross NumR i j) = (0, 0, 1)).
    { unfold F, mvec. cbn [mrow0 mrow1 mrow2 fst snd]. apply (f_equal2 pair); [apply (f_equal2 pair)|].
      - exact F5. - exact F6. - exact F3. }
    rewrite Ei, Ej, Ek.
    split; [unfold G; clear; v3_start; v3_split; ring|].
    split; [unfold G; clear; v3_start; v3_split; ring|].
    split; [unfold G; clear; v3_start; v3_split; ring|].
    split; [|reflexivity].
    rewrite <- mvec_mmul. set (M := mmul NumR (mtrans G) F). clearbody M. clear. v3_start. v3_split; ring.
  Qed.
End Iso3d.

(* Cramer's rule satisfies the specification of the oracle *)
Lemma minv_right (a : mat3 R) : mdet NumR a <> 0 -> mmul NumR a (minv NumR a) = mid3 NumR.
Proof. intros Hd. unfold minv. v3_start. v3_split; field; exact Hd. Qed.

Lemma solve_cramer_spec (a b : mat3 R) : mdet NumR a <> 0 -> mmul NumR a (solve_cramer NumR a b) = b.
Proof.
  intros Hd. unfold solve_cramer. rewrite <- mmul_assoc, minv_right by exact Hd. apply mmul_id_l.
Qed.

Lemma spherical_r_zero_R (p : vec3 R) :
  let '(r, theta, phi) := spherical_coordinates NumR p in r = 0 <-> p = (0, 0, 0).
Proof.
  unfold spherical_coordinates, spherical_r. rewrite norm2_v_R. destruct p as [[x y] z]. cbn [vx vy vz fst snd].
  split.
  - intros H. apply sqrt_eq_0 in H; [|nra].
    assert (x = 0) by nra. assert (y = 0) by nra. assert (z = 0) by nra. subst. reflexivity.
  - intros E. injection E as -> -> ->. replace (0 * 0 + 0 * 0 + 0 * 0) with 0 by ring. apply sqrt_0.
Qed.

(* whatever the input, a returned (M, P) is a proper plane rotation sending B to B' *)
Lemma isometry2d_result_R (A B Ap Bp : vec2 R) M P :
  direct_isometry_2d NumR A B Ap Bp = Some (M, P) ->
  exists c s, M = rot2_cs NumR c s /\ c * c + s * s = 1 /\ v2add NumR (m2vec NumR M B) P = Bp.
Proof.
  unfold direct_isometry_2d.
  destruct (isclose NumR _ _); [|discriminate]. intros E. injection E as <- <-.
  eexists _, _. split; [reflexivity|]. split; [cbn [NumR ncos nsin]; apply cos_sin_unit|].
  destruct B as [b0 b1], Bp as [d0 d1]. unfold v2add, v2sub, m2vec. cbn [fst snd NumR nadd nsub nmul].
  apply (f_equal2 pair); ring.
Qed.
