(* Proofs/FrameProofs.v — lemmas about Model/Frame.v, part 1: pairs, sets, fmc, hmc,
   infer_capture_method, default_timetrace_weights (C15; fmc/hmc reused by C12).
   Axiom-free. *)
From Coq Require Import Arith List Bool Lia Permutation.
From Arim Require Import Model.Frame.
Import ListNotations.

(* ---------- generic list facts ---------------------------------------- *)
Lemma fr_NoDup_app {A} (l1 l2 : list A) :
  NoDup l1 -> NoDup l2 -> (forall x, In x l1 -> ~ In x l2) -> NoDup (l1 ++ l2).
Proof.
  induction l1 as [|a l1 IH]; intros H1 H2 Hd; simpl; auto.
  inversion H1 as [|? ? Hna Hnd]; subst. constructor.
  - rewrite in_app_iff. intros [H|H]; [contradiction|]. apply (Hd a); simpl; auto.
  - apply IH; auto. intros x Hx. apply Hd. simpl; auto.
Qed.

Lemma fr_combine_app {A B} (l1 l2 : list A) (m1 m2 : list B) :
  length l1 = length m1 -> combine (l1 ++ l2) (m1 ++ m2) = combine l1 m1 ++ combine l2 m2.
Proof.
  revert m1. induction l1 as [|a l1 IH]; intros [|b m1] H; simpl in *; try discriminate; auto.
  f_equal. apply IH. lia.
Qed.

Lemma combine_flat_map {A B C} (f : A -> list B) (g : A -> list C) (l : list A) :
  (forall x, In x l -> length (f x) = length (g x)) ->
  combine (flat_map f l) (flat_map g l) = flat_map (fun x => combine (f x) (g x)) l.
Proof.
  induction l as [|a l IH]; intros H; simpl; auto.
  rewrite fr_combine_app by (apply H; simpl; auto). f_equal. apply IH. intros x Hx. apply H. simpl; auto.
Qed.

Lemma flat_map_ext_in {A B} (f g : A -> list B) (l : list A) :
  (forall x, In x l -> f x = g x) -> flat_map f l = flat_map g l.
Proof.
  induction l as [|a l IH]; intros H; simpl; auto.
  rewrite (H a) by (simpl; auto). f_equal. apply IH. intros x Hx. apply H. simpl; auto.
Qed.

Lemma flat_map_map {A B C} (h : A -> B) (g : B -> list C) (l : list A) :
  flat_map g (map h l) = flat_map (fun x => g (h x)) l.
Proof. induction l as [|a l IH]; simpl; auto. rewrite IH. reflexivity. Qed.

Lemma combine_map_r {A B} (f : A -> B) (l : list A) :
  combine l (map f l) = map (fun x => (x, f x)) l.
Proof. induction l as [|a l IH]; simpl; auto. rewrite IH. reflexivity. Qed.

Lemma combine_repeat {A B} (i : A) (l : list B) :
  combine (repeat i (length l)) l = map (pair i) l.
Proof. induction l as [|a l IH]; simpl; auto. rewrite IH. reflexivity. Qed.

Lemma concat_repeat_seq {A} (s : list A) (n a : nat) :
  concat (repeat s n) = flat_map (fun _ => s) (seq a n).
Proof. revert a. induction n as [|n IH]; intros a; simpl; auto. rewrite (IH (S a)). reflexivity. Qed.

Lemma list_prod_flat_map {A B} (l : list A) (l' : list B) :
  list_prod l l' = flat_map (fun x => map (pair x) l') l.
Proof. induction l as [|a l IH]; simpl; auto. rewrite IH. reflexivity. Qed.

Lemma fr_skipn_seq (k a n : nat) : skipn k (seq a n) = seq (a + k) (n - k).
Proof.
  revert a n. induction k as [|k IH]; intros a n.
  - simpl. rewrite Nat.add_0_r, Nat.sub_0_r. reflexivity.
  - destruct n as [|n]; simpl; auto. rewrite IH. f_equal. lia.
Qed.

Lemma NoDup_rows {A B} (g : A -> list B) (l : list A) :
  NoDup l -> (forall x, In x l -> NoDup (g x)) ->
  NoDup (flat_map (fun x => map (pair x) (g x)) l).
Proof.
  induction l as [|a l IH]; intros Hl Hg; simpl; [constructor|].
  inversion Hl as [|? ? Hna Hnd]; subst. apply fr_NoDup_app.
  - apply FinFun.Injective_map_NoDup; [intros x y E; congruence|]. apply Hg. simpl; auto.
  - apply IH; auto. intros x Hx. apply Hg. simpl; auto.
  - intros [x y] Hin Hin2. apply in_map_iff in Hin as (y' & E & _). inversion E; subst.
    apply in_flat_map in Hin2 as (x' & Hx' & Hin2). apply in_map_iff in Hin2 as (y'' & E2 & _).
    inversion E2; subst. contradiction.
Qed.

(* ---------- pairs and sets -------------------------------------------- *)
Lemma pair_eqb_eq a b : pair_eqb a b = true <-> a = b.
Proof.
  destruct a as [a1 a2], b as [b1 b2]. unfold pair_eqb. simpl.
  rewrite andb_true_iff, !Nat.eqb_eq. split; [intros [-> ->]; auto | intros E; inversion E; auto].
Qed.

Lemma pair_eqb_refl a : pair_eqb a a = true.
Proof. apply pair_eqb_eq. reflexivity. Qed.

Lemma pair_eqb_neq a b : pair_eqb a b = false <-> a <> b.
Proof.
  split; intros H.
  - intros E. apply pair_eqb_eq in E. congruence.
  - destruct (pair_eqb a b) eqn:E; auto. apply pair_eqb_eq in E. contradiction.
Qed.

Lemma pair_eqb_sym a b : pair_eqb a b = pair_eqb b a.
Proof.
  destruct (pair_eqb a b) eqn:E; symmetry.
  - apply pair_eqb_eq. apply pair_eqb_eq in E. auto.
  - apply pair_eqb_neq. apply pair_eqb_neq in E. auto.
Qed.

Lemma swap_swap p : swap (swap p) = p.
Proof. destruct p; reflexivity. Qed.

Lemma swap_inj p q : swap p = swap q -> p = q.
Proof. intros H. rewrite <- (swap_swap p), H. apply swap_swap. Qed.

Lemma in_map_swap p l : In p (map swap l) <-> In (swap p) l.
Proof.
  rewrite in_map_iff. split.
  - intros (q & <- & H). rewrite swap_swap. exact H.
  - intros H. exists (swap p). rewrite swap_swap. auto.
Qed.

Lemma memp_In p l : memp p l = true <-> In p l.
Proof.
  unfold memp. rewrite existsb_exists. split.
  - intros (x & Hx & E). apply pair_eqb_eq in E. subst. exact Hx.
  - intros H. exists p. split; auto. apply pair_eqb_refl.
Qed.

Lemma memp_false p l : memp p l = false <-> ~ In p l.
Proof.
  rewrite <- memp_In. destruct (memp p l); split; intros H; try congruence; try (exfalso; apply H; reflexivity).
Qed.

Lemma nodupb_NoDup l : nodupb l = true <-> NoDup l.
Proof.
  induction l as [|x l IH]; simpl.
  - split; auto. constructor.
  - rewrite andb_true_iff, negb_true_iff, memp_false, IH. split.
    + intros [H1 H2]. constructor; auto.
    + intros H. inversion H; subst. auto.
Qed.

Lemma subsetb_incl l1 l2 : subsetb l1 l2 = true <-> incl l1 l2.
Proof.
  unfold subsetb. rewrite forallb_forall. unfold incl. split; intros H p Hp.
  - apply memp_In. apply H. exact Hp.
  - apply memp_In. apply H. exact Hp.
Qed.

Lemma set_eqb_spec l1 l2 : set_eqb l1 l2 = true <-> (forall p, In p l1 <-> In p l2).
Proof.
  unfold set_eqb. rewrite andb_true_iff, !subsetb_incl. unfold incl. split.
  - intros [H1 H2] p. split; auto.
  - intros H. split; intros p Hp; apply H; exact Hp.
Qed.

Lemma set_eqb_perm_l l1 l1' l2 : Permutation l1 l1' -> set_eqb l1 l2 = set_eqb l1' l2.
Proof.
  intros Hp. destruct (set_eqb l1 l2) eqn:E; symmetry.
  - apply set_eqb_spec. intros p. rewrite set_eqb_spec in E. rewrite <- E.
    split; apply Permutation_in; [symmetry|]; exact Hp.
  - destruct (set_eqb l1' l2) eqn:E'; auto. rewrite set_eqb_spec in E'.
    assert (H : set_eqb l1 l2 = true).
    { apply set_eqb_spec. intros p. rewrite <- E'. split; apply Permutation_in; [|symmetry]; exact Hp. }
    congruence.
Qed.

(* a list with the length and the elements of a duplicate-free list is a permutation of it *)
Lemma set_eq_length_perm (l h : list (nat * nat)) :
  NoDup h -> length l = length h -> (forall p, In p l <-> In p h) -> Permutation l h.
Proof.
  intros Hn Hl Hs. symmetry. apply NoDup_Permutation_bis; auto.
  - lia.
  - intros p Hp. apply Hs. exact Hp.
Qed.

(* ---------- fmc -------------------------------------------------------- *)
Lemma fmc_list_prod n : fmc n = list_prod (seq 0 n) (seq 0 n).
Proof.
  unfold fmc, fmc_tx, fmc_rx. rewrite (concat_repeat_seq (seq 0 n) n 0).
  rewrite combine_flat_map by (intros x _; rewrite repeat_length, seq_length; reflexivity).
  rewrite list_prod_flat_map. apply flat_map_ext. intros i.
  rewrite <- (combine_repeat i (seq 0 n)). rewrite seq_length. reflexivity.
Qed.

Lemma fmc_In n a b : In (a, b) (fmc n) <-> a < n /\ b < n.
Proof. rewrite fmc_list_prod, in_prod_iff, !in_seq. lia. Qed.

Lemma fmc_NoDup n : NoDup (fmc n).
Proof.
  rewrite fmc_list_prod, list_prod_flat_map. apply NoDup_rows.
  - apply seq_NoDup.
  - intros x _. apply seq_NoDup.
Qed.

Lemma fmc_length n : length (fmc n) = n * n.
Proof. rewrite fmc_list_prod, prod_length, seq_length. reflexivity. Qed.

(* ---------- hmc -------------------------------------------------------- *)
Definition hmc_rows (n : nat) : list (nat * nat) :=
  flat_map (fun i => map (pair i) (seq i (n - i))) (seq 0 n).

Lemma countdown_map n : countdown n = map (fun i => n - i) (seq 0 n).
Proof.
  unfold countdown. induction n as [|n IH].
  - reflexivity.
  - rewrite seq_S, rev_app_distr. simpl rev. simpl app. rewrite IH.
    change (seq 0 (S n)) with (0 :: seq 1 n). simpl map. f_equal.
    rewrite <- seq_shift, map_map. apply map_ext. intros i. reflexivity.
Qed.

Lemma hmc_hmc_rows n : hmc n = hmc_rows n.
Proof.
  unfold hmc, hmc_tx, hmc_rx, hmc_rows. rewrite countdown_map.
  rewrite combine_map_r, !flat_map_map. cbn [fst snd].
  rewrite combine_flat_map.
  - apply flat_map_ext_in. intros i Hi. apply in_seq in Hi.
    unfold lastn. rewrite seq_length, fr_skipn_seq.
    replace (n - (n - i)) with i by lia. simpl.
    rewrite <- (combine_repeat i (seq i (n - i))). rewrite seq_length. reflexivity.
  - intros i Hi. apply in_seq in Hi. unfold lastn.
    rewrite repeat_length, skipn_length, seq_length. lia.
Qed.

Lemma hmc_In n a b : In (a, b) (hmc n) <-> a <= b /\ b < n.
Proof.
  rewrite hmc_hmc_rows. unfold hmc_rows. rewrite in_flat_map. split.
  - intros (i & Hi & H). apply in_seq in Hi. apply in_map_iff in H as (j & E & Hj).
    inversion E; subst. apply in_seq in Hj. lia.
  - intros [H1 H2]. exists a. split; [apply in_seq; lia|]. apply in_map_iff. exists b. split; auto.
    apply in_seq. lia.
Qed.

Lemma hmc_NoDup n : NoDup (hmc n).
Proof.
  rewrite hmc_hmc_rows. apply NoDup_rows.
  - apply seq_NoDup.
  - intros x _. apply seq_NoDup.
Qed.

Lemma hmc_rows_length_aux n k a : a + k = n ->
  2 * length (flat_map (fun i => map (pair i) (seq i (n - i))) (seq a k)) = k * (k + 1).
Proof.
  revert a. induction k as [|k IH]; intros a H; simpl; auto.
  rewrite app_length, map_length, seq_length. specialize (IH (S a) ltac:(lia)).
  replace (n - a) with (S k) by lia. nia.
Qed.

Lemma hmc_length n : 2 * length (hmc n) = n * (n + 1).
Proof. rewrite hmc_hmc_rows. apply hmc_rows_length_aux. reflexivity. Qed.

Lemma hmc_swap_NoDup n : NoDup (map swap (hmc n)).
Proof. apply FinFun.Injective_map_NoDup; [exact swap_inj | apply hmc_NoDup]. Qed.

(* ---------- default_timetrace_weights ---------------------------------- *)
Lemma weights_Forall2_aux l l0 :
  Forall2 (fun p w => (In (swap p) l -> w = 1) /\ (~ In (swap p) l -> w = 2))
          l0 (map (fun p => if memp (swap p) l then 1 else 2) l0).
Proof.
  induction l0 as [|p l0 IH]; simpl; constructor; auto.
  destruct (memp (swap p) l) eqn:E.
  - apply memp_In in E. split; auto. intros H. contradiction.
  - apply memp_false in E. split; auto. intros H. contradiction.
Qed.

Lemma weights_Forall2 l :
  Forall2 (fun p w => (In (swap p) l -> w = 1) /\ (~ In (swap p) l -> w = 2))
          l (default_timetrace_weights l).
Proof. apply weights_Forall2_aux. Qed.

Lemma weights_length l : length (default_timetrace_weights l) = length l.
Proof. unfold default_timetrace_weights. apply map_length. Qed.

Lemma list_sum_flat_map {A} (f : A -> list nat) (l : list A) :
  list_sum (flat_map f l) = list_sum (map (fun x => list_sum (f x)) l).
Proof. induction l as [|a l IH]; simpl; auto. rewrite list_sum_app, IH. reflexivity. Qed.

Lemma row_weight_sum i k :
  list_sum (map (fun j => if i =? j then 1 else 2) (seq (S i) k)) = 2 * k.
Proof.
  assert (H : forall a, i < a -> list_sum (map (fun j => if i =? j then 1 else 2) (seq a k)) = 2 * k).
  { induction k as [|k IH]; intros a Ha; simpl; auto.
    destruct (i =? a) eqn:E; [apply Nat.eqb_eq in E; lia|]. rewrite IH by lia. lia. }
  apply H. lia.
Qed.

Lemma odd_sum n k a : a + k = n ->
  list_sum (map (fun i => 2 * (n - i) - 1) (seq a k)) = k * k.
Proof.
  revert a. induction k as [|k IH]; intros a H; cbn [seq map list_sum fold_right]; auto.
  unfold list_sum in IH. rewrite (IH (S a)) by lia. nia.
Qed.

Lemma weights_hmc n : list_sum (default_timetrace_weights (hmc n)) = n * n.
Proof.
  unfold default_timetrace_weights.
  rewrite (map_ext_in _ (fun p => if fst p =? snd p then 1 else 2)).
  - rewrite hmc_hmc_rows. unfold hmc_rows.
    rewrite flat_map_concat_map, concat_map, map_map, <- flat_map_concat_map, list_sum_flat_map.
    rewrite (map_ext_in _ (fun i => 2 * (n - i) - 1)).
    + apply odd_sum. reflexivity.
    + intros i Hi. apply in_seq in Hi. rewrite map_map. cbn [fst snd].
      destruct (n - i) as [|k] eqn:E; [lia|]. simpl seq. simpl map. rewrite Nat.eqb_refl.
      simpl list_sum. rewrite row_weight_sum. lia.
  - intros [a b] Hin. apply hmc_In in Hin. cbn [fst snd].
    destruct (memp (swap (a, b)) (hmc n)) eqn:E.
    + apply memp_In in E. unfold swap in E. cbn [fst snd] in E. apply hmc_In in E.
      replace (a =? b) with true by (symmetry; apply Nat.eqb_eq; lia). reflexivity.
    + apply memp_false in E. unfold swap in E. cbn [fst snd] in E. rewrite hmc_In in E.
      replace (a =? b) with false; auto. symmetry. apply Nat.eqb_neq. lia.
Qed.

Lemma weights_fmc n : default_timetrace_weights (fmc n) = repeat 1 (n * n).
Proof.
  rewrite <- fmc_length. unfold default_timetrace_weights.
  rewrite (map_ext_in _ (fun _ => 1)).
  - induction (fmc n); simpl; auto. f_equal. auto.
  - intros [a b] Hin. apply fmc_In in Hin.
    replace (memp (swap (a, b)) (fmc n)) with true; auto. symmetry. apply memp_In.
    unfold swap. cbn [fst snd]. apply fmc_In. lia.
Qed.

(* ---------- infer_capture_method --------------------------------------- *)
Lemma list_max0_ge l x : In x l -> x <= list_max0 l.
Proof.
  induction l as [|a l IH]; simpl; [contradiction|]. intros [->|H]; [lia|]. specialize (IH H). lia.
Qed.

Lemma list_max0_le l m : (forall x, In x l -> x <= m) -> list_max0 l <= m.
Proof.
  induction l as [|a l IH]; simpl; intros H; [lia|].
  assert (a <= m) by (apply H; auto). assert (list_max0 l <= m) by (apply IH; intros x Hx; apply H; auto). lia.
Qed.

(* numelements of a list of pairs *)
Definition numel_of (l : list (nat * nat)) : nat :=
  Nat.max (list_max0 (map fst l)) (list_max0 (map snd l)) + 1.

Lemma numel_of_char l n : 1 <= n ->
  (forall a b, In (a, b) l -> a < n /\ b < n) -> (exists a, In (a, n - 1) l \/ In (n - 1, a) l) ->
  numel_of l = n.
Proof.
  intros Hn Hb (a & Ha). unfold numel_of.
  assert (H1 : list_max0 (map fst l) <= n - 1).
  { apply list_max0_le. intros x Hx. apply in_map_iff in Hx as ([u v] & <- & Hin). apply Hb in Hin. simpl. lia. }
  assert (H2 : list_max0 (map snd l) <= n - 1).
  { apply list_max0_le. intros x Hx. apply in_map_iff in Hx as ([u v] & <- & Hin). apply Hb in Hin. simpl. lia. }
  destruct Ha as [Ha|Ha].
  - assert (n - 1 <= list_max0 (map snd l)).
    { apply list_max0_ge. apply in_map_iff. exists (a, n - 1). auto. } lia.
  - assert (n - 1 <= list_max0 (map fst l)).
    { apply list_max0_ge. apply in_map_iff. exists (n - 1, a). auto. } lia.
Qed.

Lemma infer_unfold l : l <> [] ->
  infer_capture_method l =
    let n := numel_of l in
    if (length (hmc n) =? length l) && (set_eqb l (hmc n) || set_eqb l (map swap (hmc n))) then Some Hmc
    else if (length (fmc n) =? length l) && set_eqb l (fmc n) then Some Fmc else Some Unsupported.
Proof. destruct l; [congruence|]. intros _. reflexivity. Qed.

Lemma infer_perm l l' : Permutation l l' -> infer_capture_method l = infer_capture_method l'.
Proof.
  intros Hp. destruct l as [|p l].
  - apply Permutation_nil in Hp. subst. reflexivity.
  - assert (Hne : l' <> []) by (intros ->; symmetry in Hp; apply Permutation_nil in Hp; discriminate).
    rewrite !infer_unfold by (auto; discriminate).
    assert (Hn : numel_of (p :: l) = numel_of l').
    { unfold numel_of. f_equal. f_equal.
      - clear Hne. induction Hp; simpl in *; try lia.
      - clear Hne. induction Hp; simpl in *; try lia. }
    cbv zeta. rewrite Hn. rewrite (Permutation_length Hp).
    rewrite !(set_eqb_perm_l _ _ _ Hp). reflexivity.
Qed.

Lemma infer_hmc_self n : 1 <= n -> infer_capture_method (hmc n) = Some Hmc.
Proof.
  intros Hn. assert (Hne : hmc n <> []).
  { intros E. assert (H : In (0, 0) (hmc n)) by (apply hmc_In; lia). rewrite E in H. contradiction. }
  rewrite infer_unfold by exact Hne. cbv zeta.
  assert (Hnum : numel_of (hmc n) = n).
  { apply numel_of_char; auto.
    - intros a b H. apply hmc_In in H. lia.
    - exists (n - 1). left. apply hmc_In. lia. }
  rewrite Hnum, Nat.eqb_refl.
  replace (set_eqb (hmc n) (hmc n)) with true; auto.
  symmetry. apply set_eqb_spec. tauto.
Qed.

Lemma infer_hmc_swap_self n : 1 <= n -> infer_capture_method (map swap (hmc n)) = Some Hmc.
Proof.
  intros Hn. assert (Hin0 : In (0, 0) (map swap (hmc n))).
  { apply in_map_swap. apply hmc_In. simpl. lia. }
  assert (Hne : map swap (hmc n) <> []) by (intros E; rewrite E in Hin0; contradiction).
  rewrite infer_unfold by exact Hne. cbv zeta.
  assert (Hnum : numel_of (map swap (hmc n)) = n).
  { apply numel_of_char; auto.
    - intros a b H. apply in_map_swap in H. apply hmc_In in H. simpl in H. lia.
    - exists (n - 1). left. apply in_map_swap. apply hmc_In. simpl. lia. }
  rewrite Hnum, map_length, Nat.eqb_refl.
  replace (set_eqb (map swap (hmc n)) (map swap (hmc n))) with true.
  - rewrite orb_true_r. reflexivity.
  - symmetry. apply set_eqb_spec. tauto.
Qed.

Lemma infer_fmc_self n : 2 <= n -> infer_capture_method (fmc n) = Some Fmc.
Proof.
  intros Hn. assert (Hin0 : In (0, 0) (fmc n)) by (apply fmc_In; lia).
  assert (Hne : fmc n <> []) by (intros E; rewrite E in Hin0; contradiction).
  rewrite infer_unfold by exact Hne. cbv zeta.
  assert (Hnum : numel_of (fmc n) = n).
  { apply numel_of_char; try lia.
    - intros a b H. apply fmc_In in H. lia.
    - exists 0. left. apply fmc_In. lia. }
  rewrite Hnum.
  assert (Hlen : (length (hmc n) =? length (fmc n)) = false).
  { apply Nat.eqb_neq. pose proof (hmc_length n). rewrite fmc_length. nia. }
  rewrite Hlen. simpl. rewrite Nat.eqb_refl.
  replace (set_eqb (fmc n) (fmc n)) with true; auto. symmetry. apply set_eqb_spec. tauto.
Qed.

Lemma infer_recognises_hmc n l : 1 <= n ->
  Permutation l (hmc n) \/ Permutation l (map swap (hmc n)) -> infer_capture_method l = Some Hmc.
Proof.
  intros Hn [H|H]; rewrite (infer_perm _ _ H); [apply infer_hmc_self | apply infer_hmc_swap_self]; exact Hn.
Qed.

Lemma infer_recognises_fmc n l : 2 <= n -> Permutation l (fmc n) -> infer_capture_method l = Some Fmc.
Proof. intros Hn H. rewrite (infer_perm _ _ H). apply infer_fmc_self. exact Hn. Qed.

(* soundness: nothing else is reported as hmc / fmc (e.g. not a list with a missing or a
   repeated pair) *)
Lemma infer_hmc_sound l : infer_capture_method l = Some Hmc ->
  let n := numel_of l in Permutation l (hmc n) \/ Permutation l (map swap (hmc n)).
Proof.
  intros H. destruct l as [|p l]; [discriminate|].
  rewrite infer_unfold in H by discriminate. cbv zeta in *.
  set (n := numel_of (p :: l)) in *.
  destruct ((length (hmc n) =? length (p :: l)) && (set_eqb (p :: l) (hmc n) || set_eqb (p :: l) (map swap (hmc n)))) eqn:E.
  - apply andb_true_iff in E as [E1 E2]. apply Nat.eqb_eq in E1. apply orb_true_iff in E2 as [E2|E2].
    + left. apply set_eq_length_perm; [apply hmc_NoDup | auto | apply set_eqb_spec; exact E2].
    + right. apply set_eq_length_perm; [apply hmc_swap_NoDup | rewrite map_length; auto | apply set_eqb_spec; exact E2].
  - destruct ((length (fmc n) =? length (p :: l)) && set_eqb (p :: l) (fmc n)); discriminate.
Qed.

Lemma infer_fmc_sound l : infer_capture_method l = Some Fmc -> Permutation l (fmc (numel_of l)).
Proof.
  intros H. destruct l as [|p l]; [discriminate|].
  rewrite infer_unfold in H by discriminate. cbv zeta in *.
  set (n := numel_of (p :: l)) in *.
  destruct ((length (hmc n) =? length (p :: l)) && (set_eqb (p :: l) (hmc n) || set_eqb (p :: l) (map swap (hmc n)))); [discriminate|].
  destruct ((length (fmc n) =? length (p :: l)) && set_eqb (p :: l) (fmc n)) eqn:E; [|discriminate].
  apply andb_true_iff in E as [E1 E2]. apply Nat.eqb_eq in E1.
  apply set_eq_length_perm; [apply fmc_NoDup | auto | apply set_eqb_spec; exact E2].
Qed.
