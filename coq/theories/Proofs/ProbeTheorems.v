(* Proofs/ProbeTheorems.v — C16, part 3: the statements of Props/C16.v, assembled from
   ProbeProofs.v and ProbeHistoryProofs.v.  A state is `reachable` when it is obtained from
   make_matrix_probe (any sizes >= 1, any pitches, unit normals or none) by any list of
   operations whose rotations are proper and whose element indices are in range. *)
From Coq Require Import List Reals Lra Lia ZArith.
From Arim Require Import Base.Num Base.NumR Model.Vec3 Proofs.Vec3Proofs Model.Probe
  Proofs.ProbeProofs Proofs.ProbeHistoryProofs.
Import ListNotations.

Definition reachable (n : nat) (p0 p : probeR) : Prop :=
  exists (numx numy : Z) (px py : R) (a : ori_arg) (ops : list opR),
    (1 <= numx)%Z /\ (1 <= numy)%Z /\ n = (Z.to_nat numy * Z.to_nat numx)%nat /\
    ori_arg_ok n a /\ Forall (op_ok n) ops /\
    make_matrix_probe NumR numx px numy py a = Some p0 /\
    run_ops NumR ops p0 = Some p.

Lemma run_ops_app (ops1 ops2 : list opR) (p : probeR) :
  run_ops NumR (ops1 ++ ops2) p =
  match run_ops NumR ops1 p with None => None | Some q => run_ops NumR ops2 q end.
Proof.
  revert p. induction ops1 as [|o ops1 IH]; intros p; [reflexivity|].
  cbn [app run_ops]. destruct (apply_op NumR o p) as [q|]; [apply IH|reflexivity].
Qed.

(* no operation of an admissible history raises *)
Lemma history_total (numx numy : Z) (px py : R) (a : ori_arg) (ops : list opR) :
  (1 <= numx)%Z -> (1 <= numy)%Z ->
  let n := (Z.to_nat numy * Z.to_nat numx)%nat in
  ori_arg_ok n a -> Forall (op_ok n) ops ->
  exists p0 p, make_matrix_probe NumR numx px numy py a = Some p0 /\ run_ops NumR ops p0 = Some p /\
               reachable n p0 p.
Proof.
  intros Hx Hy n Ha Hops.
  destruct (history_from_matrix_probe numx numy px py a ops Hx Hy Ha Hops) as (p0 & p & E0 & E & _).
  exists p0, p. split; [exact E0|]. split; [exact E|].
  exists numx, numy, px, py, a, ops. repeat split; assumption.
Qed.

Lemma reachable_facts (n : nat) (p0 p : probeR) : reachable n p0 p ->
  good n p0 /\ good n p /\ (0 < n)%nat /\ p_pcs p0 = gcs NumR /\
  (forall (a b : nat) (d : vec), (a < n)%nat -> (b < n)%nat ->
     dist2 (List.nth a (p_locs p) d) (List.nth b (p_locs p) d) =
     dist2 (List.nth a (p_locs p0) d) (List.nth b (p_locs p0) d)) /\
  (exists d, locations_pcs NumR p = map (fun x => vsub NumR x d) (p_locs p0)) /\
  orientations_pcs NumR p = Some (p_oris p0).
Proof.
  intros (numx & numy & px & py & a & ops & Hx & Hy & Hn & Ha & Hops & E0 & E). subst n.
  destruct (history_from_matrix_probe numx numy px py a ops Hx Hy Ha Hops)
    as (q0 & q & F0 & F & Hg0 & Hg & Hr & (d & Hl & _) & Ho).
  rewrite E0 in F0. injection F0 as <-. rewrite E in F. injection F as <-.
  destruct (make_matrix_probe_R numx numy px py a Hx Hy Ha) as (q0 & F0 & _ & Hpos & Hpcs & _).
  rewrite E0 in F0. injection F0 as <-.
  split; [exact Hg0|]. split; [exact Hg|]. split; [exact Hpos|]. split; [exact Hpcs|].
  split; [exact Hr|]. split; [exists d; exact Hl|exact Ho].
Qed.

(* reachable states are closed under admissible operations, which never raise *)
Lemma reachable_step (n : nat) (p0 p : probeR) (o : opR) : reachable n p0 p -> op_ok n o ->
  exists p', apply_op NumR o p = Some p' /\ reachable n p0 p'.
Proof.
  intros Hre Hok. pose proof (reachable_facts n p0 p Hre) as (_ & Hg & _).
  destruct (step_props n o p Hg Hok) as (p' & E & _). exists p'. split; [exact E|].
  destruct Hre as (numx & numy & px & py & a & ops & Hx & Hy & Hn & Ha & Hops & E0 & Er).
  exists numx, numy, px, py, a, (ops ++ [o]). repeat split; try assumption.
  - apply Forall_app. split; [exact Hops|]. constructor; [exact Hok|constructor].
  - rewrite run_ops_app, Er. cbn [run_ops]. rewrite E. reflexivity.
Qed.

(* ---- the statements ------------------------------------------------------------------------------ *)
(* rigid *)
Lemma rigid_R (n : nat) (p0 p : probeR) : reachable n p0 p ->
  length (p_locs p) = n /\ length (p_locs p0) = n /\
  forall (a b : nat) (d : vec), (a < n)%nat -> (b < n)%nat ->
    dist2 (List.nth a (p_locs p) d) (List.nth b (p_locs p) d) =
    dist2 (List.nth a (p_locs p0) d) (List.nth b (p_locs p0) d).
Proof.
  intros H. destruct (reachable_facts n p0 p H) as ((_ & Hn0 & _) & (_ & Hn & _) & _ & _ & Hr & _).
  split; [exact Hn|]. split; [exact Hn0|exact Hr].
Qed.

(* pcs_attached: without set_reference_element in the history nothing changes ... *)
Lemma pcs_attached_R (numx numy : Z) (px py : R) (a : ori_arg) (ops : list opR) :
  (1 <= numx)%Z -> (1 <= numy)%Z ->
  let n := (Z.to_nat numy * Z.to_nat numx)%nat in
  ori_arg_ok n a -> Forall (op_ok n) ops ->
  forallb (fun o => negb (is_set_ref o)) ops = true ->
  exists p0 p, make_matrix_probe NumR numx px numy py a = Some p0 /\ run_ops NumR ops p0 = Some p /\
    locations_pcs NumR p = locations_pcs NumR p0 /\ locations_pcs NumR p0 = p_locs p0 /\
    orientations_pcs NumR p = orientations_pcs NumR p0 /\ orientations_pcs NumR p0 = Some (p_oris p0).
Proof.
  intros Hx Hy n Ha Hops Hno.
  destruct (make_matrix_probe_R numx numy px py a Hx Hy Ha) as (p0 & E0 & Hg0 & _ & Hpcs & Hlp & _).
  destruct (run_ops_props n ops p0 Hg0 Hops) as (p & E & _ & _ & (d & Hl & Hd) & Ho).
  exists p0, p. split; [exact E0|]. split; [exact E|]. split; [|split; [exact Hlp|split; [exact Ho|]]].
  - rewrite Hl, (Hd Hno). rewrite (map_ext _ (fun x => x) vsub_vzero). apply map_id.
  - rewrite orientations_pcs_R by apply Hg0. rewrite Hpcs. f_equal. apply option_map_map_id. exact gcs_axes_id.
Qed.

(* ... and in general the probe-frame locations differ from the initial ones by one common
   vector, the probe-frame normals not at all *)
Lemma pcs_attached_shift_R (n : nat) (p0 p : probeR) : reachable n p0 p ->
  (exists d, locations_pcs NumR p = map (fun x => vsub NumR x d) (p_locs p0)) /\
  orientations_pcs NumR p = Some (p_oris p0).
Proof. intros H. destruct (reachable_facts n p0 p H) as (_ & _ & _ & _ & _ & Hl & Ho). split; assumption. Qed.

(* one operation on a reachable state: only set_reference_element changes PCS coordinates *)
Lemma pcs_attached_step_R (n : nat) (p0 p : probeR) (o : opR) : reachable n p0 p -> op_ok n o ->
  is_set_ref o = false ->
  exists p', apply_op NumR o p = Some p' /\
    locations_pcs NumR p' = locations_pcs NumR p /\ orientations_pcs NumR p' = orientations_pcs NumR p.
Proof.
  intros Hre Hok Hs. pose proof (reachable_facts n p0 p Hre) as (_ & Hg & _).
  destruct (step_props n o p Hg Hok) as (p' & E & _ & _ & (d & Hl & Hd) & Ho).
  exists p'. split; [exact E|]. split; [|exact Ho].
  rewrite Hl, (Hd Hs). rewrite (map_ext _ (fun x => x) vsub_vzero). apply map_id.
Qed.

(* set_reference_element *)
Lemma set_reference_R (n : nat) (p0 p : probeR) (r : refelt) : reachable n p0 p -> op_ok n (OpSetRef r) ->
  exists q p', ref_point NumR r (p_locs p) = Some q /\ p_set_ref NumR r p = Some p' /\
    p_locs p' = p_locs p /\ p_oris p' = p_oris p /\
    cs_i (p_pcs p') = cs_i (p_pcs p) /\ cs_j (p_pcs p') = cs_j (p_pcs p) /\ cs_o (p_pcs p') = q /\
    locations_pcs NumR p' = map (fun x => vsub NumR x (cs_from_gcs NumR (p_pcs p) q)) (locations_pcs NumR p) /\
    orientations_pcs NumR p' = orientations_pcs NumR p /\
    match ref_elt r n with
    | Some e => (e < n)%nat /\ q = List.nth e (p_locs p) (vzero NumR) /\
                List.nth e (locations_pcs NumR p') (vzero NumR) = vzero NumR
    | None => q = vmean NumR (p_locs p) /\ vmean NumR (locations_pcs NumR p') = vzero NumR
    end.
Proof.
  intros Hre Hok. pose proof (reachable_facts n p0 p Hre) as (_ & Hg & Hpos & _).
  destruct (p_set_ref_R n r p Hg Hok) as (q & Hq & E & Hg' & Hl & Ho & Hz). cbn zeta in *.
  pose proof Hg as (_ & Hn & _).
  destruct (ref_point_R n r (p_locs p) Hn Hok) as (q' & Hq' & Hdesc). rewrite Hq in Hq'. injection Hq' as <-.
  eexists q, _. split; [exact Hq|]. split; [exact E|]. cbn [p_locs p_oris p_pcs cs_i cs_j cs_o].
  repeat (split; [reflexivity|]). split; [exact Hl|]. split; [exact Ho|].
  destruct (ref_elt r n) as [e|].
  - destruct Hdesc as [He Hqe]. split; [exact He|]. split; [exact Hqe|].
    unfold locations_pcs. cbn [p_locs p_pcs].
    rewrite (nth_indep _ (vzero NumR) (cs_from_gcs NumR (mkCS q (cs_i (p_pcs p)) (cs_j (p_pcs p))) (vzero NumR)))
      by (rewrite map_length, Hn; exact He).
    rewrite map_nth, <- Hqe. exact Hz.
  - split; [exact Hdesc|]. subst q. apply mean_reference_centred.
    destruct (p_locs p); [cbn in Hn; lia|discriminate].
Qed.

(* frame_orthonormal *)
Lemma frame_orthonormal_R (n : nat) (p0 p : probeR) : reachable n p0 p ->
  proper_rotation NumR (cs_i (p_pcs p), cs_j (p_pcs p), cs_k NumR (p_pcs p)) /\
  match p_oris p with
  | None => p_oris p0 = None
  | Some os => length os = n /\ Forall (fun v => vdot NumR v v = 1%R) os
  end.
Proof.
  intros H. destruct (reachable_facts n p0 p H) as (_ & (Hf & Hn & Hnorm) & _ & _ & _ & _ & Ho).
  split; [exact (frame_axes_proper _ Hf)|]. unfold normals_ok in Hnorm.
  rewrite orientations_pcs_R in Ho by exact Hf. injection Ho as Ho.
  destruct (p_oris p) as [os|].
  - destruct Hnorm as [Hu Hl]. split; [rewrite Hl; exact Hn|exact Hu].
  - cbn in Ho. symmetry. exact Ho.
Qed.

(* oriented_points_axes *)
Lemma oriented_points_axes_R (n : nat) (p0 p : probeR) : reachable n p0 p ->
  length (p_oriented NumR p) = n /\
  proper_rotation NumR (cs_i (p_pcs p), cs_j (p_pcs p), cs_k NumR (p_pcs p)) /\
  forall (e : nat) (d : vec * mat), (e < n)%nat ->
    List.nth e (p_oriented NumR p) d =
    (List.nth e (p_locs p) (fst d), (cs_i (p_pcs p), cs_j (p_pcs p), cs_k NumR (p_pcs p))).
Proof. intros H. apply oriented_points_R. apply (reachable_facts n p0 p H). Qed.

(* reset_restores *)
Lemma reset_restores_reachable (n : nat) (p0 p : probeR) : reachable n p0 p ->
  exists p', p_reset NumR p = Some p' /\
    p_pcs p' = gcs NumR /\
    p_locs p' = locations_pcs NumR p /\
    locations_pcs NumR p' = p_locs p' /\
    orientations_pcs NumR p = Some (p_oris p') /\
    orientations_pcs NumR p' = Some (p_oris p') /\
    p_oris p' = p_oris p0.
Proof.
  intros H. destruct (reachable_facts n p0 p H) as (_ & Hg & _ & _ & _ & _ & Ho).
  destruct (reset_restores_R n p Hg) as (p' & E & H1 & H2 & H3 & H4 & H5).
  exists p'. repeat (split; [assumption|]). rewrite Ho in H4. injection H4 as H4. symmetry. exact H4.
Qed.

(* make_matrix_probe *)
Lemma matrix_probe_layout_R (numx numy : Z) (px py : R) (a : ori_arg) :
  (1 <= numx)%Z -> (1 <= numy)%Z ->
  let n := (Z.to_nat numy * Z.to_nat numx)%nat in
  ori_arg_ok n a ->
  exists p0, make_matrix_probe NumR numx px numy py a = Some p0 /\
    length (p_locs p0) = n /\ p_pcs p0 = gcs NumR /\ locations_pcs NumR p0 = p_locs p0 /\
    (forall (ix iy : nat) (d : vec), (ix < Z.to_nat numx)%nat -> (iy < Z.to_nat numy)%nat ->
       List.nth (iy * Z.to_nat numx + ix) (p_locs p0) d =
       ((IZR (Z.of_nat ix) - (IZR numx - 1) / 2) * px, (IZR (Z.of_nat iy) - (IZR numy - 1) / 2) * py, 0))%R.
Proof.
  intros Hx Hy n Ha.
  destruct (make_matrix_probe_R numx numy px py a Hx Hy Ha) as (p0 & E0 & (_ & Hn & _) & _ & Hpcs & Hlp & Hnth).
  exists p0. repeat (split; [assumption|]). exact Hnth.
Qed.

(* the flip is the half-turn about Oz *)
Lemma flip_is_half_turn (p : probeR) :
  p_flip NumR p = p_rotate NumR ((-1, -0, 0), (0, -1, 0), (0, 0, 1))%R None p.
Proof. unfold p_flip. rewrite flip_matrix_R. reflexivity. Qed.
