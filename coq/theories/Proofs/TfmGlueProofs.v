(* Proofs/TfmGlueProofs.v — lemmas about Model/TfmGlue.v (C12) that hold for ANY numeric
   instance (no real-number axiom): N-d reshape / C-order enumeration, pixel independence
   (block-wise imaging), default weights on integer index values, memory order of the ray
   times, the explicit-weights broadcasting, the warning branches. *)
From Coq Require Import List Lia ZArith Bool Arith Permutation.
From Arim Require Import Base.Num Model.MinPlus Model.Fermat Model.Das Model.Frame Model.Tfm Model.TfmGlue.
From Arim Require Import Proofs.MinPlusProofs Proofs.FermatProofs Proofs.FrameProofs Proofs.FrameOpsProofs.
Import ListNotations.

(* ---- lists ---------------------------------------------------------------- *)
Lemma tg_skipn_skipn {A} a b (l : list A) : skipn a (skipn b l) = skipn (b + a) l.
Proof.
  revert l. induction b as [|b IH]; intros l; [reflexivity|].
  destruct l as [|x l]; [now rewrite !skipn_nil|]. cbn [plus skipn]. apply IH.
Qed.

Lemma tg_nth_error_firstn {A} n (l : list A) k : k < n -> nth_error (firstn n l) k = nth_error l k.
Proof.
  revert l k. induction n as [|n IH]; intros l k H; [lia|].
  destruct l as [|x l]; [reflexivity|]. destruct k as [|k]; [reflexivity|]. cbn. apply IH. lia.
Qed.

Lemma tg_nth_error_skipn {A} n (l : list A) k : nth_error (skipn n l) k = nth_error l (n + k).
Proof.
  revert l. induction n as [|n IH]; intros l; [reflexivity|].
  destruct l as [|x l]; [now destruct k|]. cbn. apply IH.
Qed.

Lemma tg_seq_add a P : map (fun r => a + r) (seq 0 P) = seq a P.
Proof.
  revert a. induction P as [|P IH]; intros a; [reflexivity|].
  cbn [seq map]. rewrite Nat.add_0_r. f_equal. rewrite <- seq_shift, map_map.
  rewrite <- (IH (S a)). apply map_ext. intros r. lia.
Qed.

(* ==========================================================================
   Part A: N-d arrays, reshape, C-order enumeration *)
Definition chunks {A} (P n : nat) (flat : list A) : list (list A) :=
  map (fun i => firstn P (skipn (i * P) flat)) (seq 0 n).

Lemma chunks_S {A} P n (flat : list A) :
  chunks P (S n) flat = firstn P flat :: chunks P n (skipn P flat).
Proof.
  unfold chunks. cbn [seq map]. f_equal. rewrite <- seq_shift, map_map. apply map_ext. intros i.
  f_equal. cbn [Nat.mul]. now rewrite tg_skipn_skipn.
Qed.

Lemma chunks_concat {A} P (cs : list (list A)) :
  Forall (fun c => length c = P) cs -> chunks P (length cs) (concat cs) = cs.
Proof.
  induction 1 as [|c cs Hc _ IH]; [reflexivity|].
  assert (H1 : firstn P c = c) by (rewrite <- Hc; apply firstn_all).
  assert (H2 : skipn P c = []) by (rewrite <- Hc; apply skipn_all).
  cbn [length concat]. rewrite chunks_S. f_equal.
  - now rewrite firstn_app, H1, Hc, Nat.sub_diag, firstn_O, app_nil_r.
  - now rewrite skipn_app, H2, Hc, Nat.sub_diag, skipn_O.
Qed.

Lemma concat_chunks {A} P n (flat : list A) : length flat = n * P -> concat (chunks P n flat) = flat.
Proof.
  revert flat. induction n as [|n IH]; intros flat H.
  - destruct flat; [reflexivity|discriminate].
  - rewrite chunks_S. cbn [concat]. rewrite IH.
    + apply firstn_skipn.
    + rewrite skipn_length, H. cbn [Nat.mul]. lia.
Qed.

Lemma chunks_length {A} P n (flat : list A) : length (chunks P n flat) = n.
Proof. unfold chunks. now rewrite map_length, seq_length. Qed.

Lemma chunks_each {A} P n (flat : list A) : length flat = n * P ->
  Forall (fun c => length c = P) (chunks P n flat).
Proof.
  revert flat. induction n as [|n IH]; intros flat H; [constructor|].
  rewrite chunks_S. constructor.
  - rewrite firstn_length, H. cbn [Nat.mul]. lia.
  - apply IH. rewrite skipn_length, H. cbn [Nat.mul]. lia.
Qed.

Lemma nd_reshape_cons {A} (dflt : A) n s flat :
  nd_reshape dflt (n :: s) flat = map (nd_reshape dflt s) (chunks (shape_size s) n flat).
Proof. cbn [nd_reshape]. unfold chunks. now rewrite map_map. Qed.

Lemma nd_flatten_S {A} d (l : ndt A (S d)) : nd_flatten (S d) l = concat (map (nd_flatten d) l).
Proof. cbn [nd_flatten]. apply flat_map_concat_map. Qed.

Lemma nd_okb_cons {A} n s (l : ndt A (length (n :: s))) :
  nd_okb (n :: s) l = (length l =? n) && forallb (nd_okb s) l.
Proof. reflexivity. Qed.

Lemma nd_okb_inv {A} n s (l : list (ndt A (length s))) :
  nd_okb (n :: s) (l : ndt A (length (n :: s))) = true ->
  @length (ndt A (length s)) l = n /\ (forall x : ndt A (length s), In x l -> nd_okb s x = true).
Proof.
  intros H. rewrite nd_okb_cons in H. apply andb_prop in H as [Hn Hall]. apply Nat.eqb_eq in Hn.
  rewrite forallb_forall in Hall. split; [exact Hn|exact Hall].
Qed.

Lemma nd_get_cons {A} d (l : list (ndt A d)) i idx :
  nd_get (S d) (l : ndt A (S d)) (i :: idx)
  = match @nth_error (ndt A d) l i with Some t => nd_get d t idx | None => None end.
Proof. reflexivity. Qed.

Lemma concat_map_length {A B} (f : A -> list B) P (t : list A) :
  (forall x, In x t -> length (f x) = P) -> length (concat (map f t)) = length t * P.
Proof.
  induction t as [|a t IH]; intros H; [reflexivity|].
  cbn [map concat length Nat.mul]. rewrite app_length, (H a) by now left.
  rewrite IH by (intros x Hx; apply H; now right). reflexivity.
Qed.

Lemma nd_flatten_length {A} s (t : ndt A (length s)) :
  nd_okb s t = true -> length (nd_flatten (length s) t) = shape_size s.
Proof.
  revert t. induction s as [|n s IH]; intros t H; [reflexivity|].
  apply nd_okb_inv in H as [Hn Hall].
  change (length (n :: s)) with (S (length s)). rewrite nd_flatten_S. cbn [shape_size fold_right].
  fold (shape_size s). rewrite (concat_map_length _ (shape_size s)).
  - f_equal. exact Hn.
  - intros x Hx. apply IH. now apply Hall.
Qed.

(* flattening a reshaped flat array gives the flat array back *)
Lemma flatten_reshape {A} (dflt : A) s flat :
  length flat = shape_size s -> nd_flatten (length s) (nd_reshape dflt s flat) = flat.
Proof.
  revert flat. induction s as [|n s IH]; intros flat H.
  - cbn in H. destruct flat as [|a [|b flat]]; try discriminate. reflexivity.
  - change (length (n :: s)) with (S (length s)). rewrite nd_flatten_S, nd_reshape_cons, map_map.
    cbn [shape_size fold_right] in H. fold (shape_size s) in H.
    rewrite (map_ext_in _ (fun c => c)).
    + rewrite map_id. now apply concat_chunks.
    + intros c Hc. apply IH. pose proof (chunks_each (shape_size s) n flat H) as HF.
      rewrite Forall_forall in HF. now apply HF.
Qed.

(* reshaping the flattened array to its own shape gives the array back *)
Lemma reshape_flatten {A} (dflt : A) s (t : ndt A (length s)) :
  nd_okb s t = true -> nd_reshape dflt s (nd_flatten (length s) t) = t.
Proof.
  revert t. induction s as [|n s IH]; intros t H; [reflexivity|].
  apply nd_okb_inv in H as [Hn Hall].
  change (length (n :: s)) with (S (length s)). rewrite nd_flatten_S, nd_reshape_cons.
  assert (HF : Forall (fun c => length c = shape_size s) (map (nd_flatten (length s)) t)).
  { apply Forall_forall. intros c Hc. apply in_map_iff in Hc as (a & <- & Ha).
    apply nd_flatten_length. now apply Hall. }
  pose proof (chunks_concat _ _ HF) as HC. rewrite map_length, Hn in HC. rewrite HC, map_map.
  rewrite <- (map_id t) at 2. apply map_ext_in. intros a Ha. apply IH. now apply Hall.
Qed.

Lemma reshape_ok {A} (dflt : A) s flat :
  length flat = shape_size s -> nd_okb s (nd_reshape dflt s flat) = true.
Proof.
  revert flat. induction s as [|n s IH]; intros flat H; [reflexivity|].
  rewrite nd_okb_cons, nd_reshape_cons, map_length, chunks_length, Nat.eqb_refl. cbn [andb].
  apply forallb_forall. intros x Hx. apply in_map_iff in Hx as (c & <- & Hc). apply IH.
  cbn [shape_size fold_right] in H. fold (shape_size s) in H.
  pose proof (chunks_each (shape_size s) n flat H) as HF. rewrite Forall_forall in HF. now apply HF.
Qed.

Lemma ravel_lt s idx k : ravel s idx = Some k -> k < shape_size s.
Proof.
  revert idx k. induction s as [|n s IH]; intros [|i idx] k H; cbn [ravel] in H; try discriminate.
  - injection H as <-. cbn. lia.
  - destruct (Nat.ltb_spec i n) as [Hi|]; [|discriminate].
    destruct (ravel s idx) as [r|] eqn:E; [|discriminate]. injection H as <-.
    specialize (IH idx r E). cbn [shape_size fold_right]. fold (shape_size s). nia.
Qed.

Lemma nth_error_chunk {A} P (flat : list A) i r : r < P ->
  nth_error (firstn P (skipn (i * P) flat)) r = nth_error flat (i * P + r).
Proof.
  intros Hr. rewrite tg_nth_error_firstn by exact Hr. apply tg_nth_error_skipn.
Qed.

(* reading a reshaped array at a multi-index = reading the flat array at the C-order position *)
Lemma get_reshape {A} (dflt : A) s flat idx k :
  length flat = shape_size s -> ravel s idx = Some k ->
  nd_get (length s) (nd_reshape dflt s flat) idx = nth_error flat k.
Proof.
  revert flat idx k. induction s as [|n s IH]; intros flat [|i idx] k H Hr; cbn [ravel] in Hr; try discriminate.
  - injection Hr as <-. cbn in H. destruct flat as [|a [|b flat]]; try discriminate. reflexivity.
  - destruct (Nat.ltb_spec i n) as [Hi|]; [|discriminate].
    destruct (ravel s idx) as [r|] eqn:E; [|discriminate]. injection Hr as <-.
    cbn [shape_size fold_right] in H. fold (shape_size s) in H.
    change (length (n :: s)) with (S (length s)). cbn [nd_get nd_reshape].
    rewrite nth_error_map, (nth_error_seq 0 n i Hi). cbn [option_map].
    rewrite (IH _ idx r).
    + apply nth_error_chunk. now apply ravel_lt in E.
    + rewrite firstn_length, skipn_length, H. nia.
    + exact E.
Qed.

(* an index outside the shape (or of the wrong number of dimensions) is an IndexError on both sides *)
Lemma get_out_of_shape {A} s (t : ndt A (length s)) idx :
  nd_okb s t = true -> ravel s idx = None -> nd_get (length s) t idx = None.
Proof.
  revert t idx. induction s as [|n s IH]; intros t [|i idx] H Hr; cbn [ravel] in Hr; try discriminate; try reflexivity.
  apply nd_okb_inv in H as [Hn Hall].
  change (length (n :: s)) with (S (length s)). rewrite (nd_get_cons (length s) t i idx).
  destruct (@nth_error (ndt A (length s)) t i) as [a|] eqn:Ea; [|reflexivity].
  assert (Hi : i < n) by (rewrite <- Hn; apply nth_error_Some; congruence).
  destruct (Nat.ltb_spec i n); [|lia].
  destruct (ravel s idx) eqn:E; [discriminate|]. apply IH; [|exact E].
  apply Hall. now apply nth_error_In in Ea.
Qed.

Lemma get_flatten {A} s (t : ndt A (length s)) idx k :
  nd_okb s t = true -> ravel s idx = Some k ->
  nd_get (length s) t idx = nth_error (nd_flatten (length s) t) k.
Proof.
  intros H Hr. assert (inhabited A) as [dflt].
  { pose proof (ravel_lt s idx k Hr) as Hk. rewrite <- (nd_flatten_length s t H) in Hk.
    destruct (nd_flatten (length s) t) as [|a l]; [cbn in Hk; lia|]. now constructor. }
  rewrite <- (reshape_flatten dflt s t H) at 1.
  apply get_reshape; [now apply nd_flatten_length|exact Hr].
Qed.

Lemma flat_map_seq_blocks P n : flat_map (fun i => seq (i * P) P) (seq 0 n) = seq 0 (n * P).
Proof.
  induction n as [|n IH]; [reflexivity|].
  rewrite seq_S, flat_map_app, IH. cbn [flat_map plus]. rewrite app_nil_r.
  replace (S n * P) with (n * P + P) by lia. now rewrite seq_app.
Qed.

Lemma map_flat_map {A B C} (f : B -> C) (g : A -> list B) l :
  map f (flat_map g l) = flat_map (fun x => map f (g x)) l.
Proof. induction l as [|a l IH]; cbn [flat_map map]; [reflexivity|]. now rewrite map_app, IH. Qed.

(* np.ndindex enumerates the multi-indices in C order: the k-th one ravels to k *)
Lemma ravel_ndindex s : map (ravel s) (ndindex s) = map Some (seq 0 (shape_size s)).
Proof.
  induction s as [|n s IH]; [reflexivity|].
  cbn [ndindex shape_size fold_right]. fold (shape_size s).
  rewrite map_flat_map, <- flat_map_seq_blocks, map_flat_map.
  apply FrameProofs.flat_map_ext_in. intros i Hi. apply in_seq in Hi.
  rewrite map_map. cbn [ravel]. destruct (Nat.ltb_spec i n); [|lia].
  rewrite <- (map_map (ravel s) (option_map (fun r => i * shape_size s + r))), IH, map_map. cbn [option_map].
  rewrite <- (map_map (fun r => i * shape_size s + r) Some). f_equal.
  apply tg_seq_add.
Qed.

(* ---- nd_map ------------------------------------------------------------------ *)
Lemma nd_map_flatten {A B} (f : A -> B) d (t : ndt A d) :
  nd_flatten d (nd_map f d t) = map f (nd_flatten d t).
Proof.
  induction d as [|d IH]; [reflexivity|].
  rewrite !nd_flatten_S. change (nd_map f (S d) t) with (map (nd_map f d) t).
  rewrite concat_map, !map_map. f_equal. apply map_ext. intros x. apply IH.
Qed.

Lemma nd_get_map {A B} (f : A -> B) d (t : ndt A d) idx :
  nd_get d (nd_map f d t) idx = option_map f (nd_get d t idx).
Proof.
  revert idx. induction d as [|d IH]; intros idx.
  - destruct idx; reflexivity.
  - destruct idx as [|i idx]; [reflexivity|].
    change (nd_map f (S d) t) with (map (nd_map f d) t).
    rewrite (nd_get_cons d (map (nd_map f d) t) i idx), (nd_get_cons d t i idx), nth_error_map.
    destruct (@nth_error (ndt A d) t i) as [a|]; [apply IH|reflexivity].
Qed.

Lemma tg_forallb_map {A B} (g : A -> B) (f : B -> bool) l : forallb f (map g l) = forallb (fun x => f (g x)) l.
Proof. induction l as [|a l IH]; cbn [map forallb]; [reflexivity|now rewrite IH]. Qed.

Lemma tg_forallb_ext {A} (f g : A -> bool) l : (forall x, f x = g x) -> forallb f l = forallb g l.
Proof. intros H. induction l as [|a l IH]; cbn [forallb]; [reflexivity|now rewrite H, IH]. Qed.

Lemma nd_map_okb {A B} (f : A -> B) s (t : ndt A (length s)) :
  nd_okb s (nd_map f (length s) t) = nd_okb s t.
Proof.
  revert t. induction s as [|n s IH]; intros t; [reflexivity|].
  rewrite (nd_okb_cons n s t). change (nd_map f (length (n :: s)) t) with (map (nd_map f (length s)) t).
  rewrite (nd_okb_cons n s (map (nd_map f (length s)) t)), map_length. f_equal.
  rewrite tg_forallb_map. apply tg_forallb_ext. intros x. apply IH.
Qed.

(* the composition to_1d_points ; per-point computation ; reshape(shape) is the point-wise map:
   the pixel at a multi-index receives the value computed for the point at THAT multi-index *)
Lemma reshape_map_flatten {A B} (dflt : B) (f : A -> B) s (t : ndt A (length s)) :
  nd_okb s t = true -> nd_reshape dflt s (map f (nd_flatten (length s) t)) = nd_map f (length s) t.
Proof.
  intros H. rewrite <- nd_map_flatten. apply reshape_flatten. now rewrite nd_map_okb.
Qed.

(* ==========================================================================
   Part B: a pixel only depends on its own rows of the focal-law tables *)
Lemma tg_nth_error_combine {A B} (a : list A) (b : list B) k :
  nth_error (combine a b) k
  = match nth_error a k, nth_error b k with Some x, Some y => Some (x, y) | _, _ => None end.
Proof.
  revert b k. induction a as [|x a IH]; intros [|y b] [|k]; cbn [combine nth_error]; try reflexivity.
  - now destruct (nth_error a k).
  - apply IH.
Qed.

Lemma take_idx_cons {A} i idx (l : list A) :
  take_idx (i :: idx) l
  = match nth_error l i, take_idx idx l with Some y, Some r => Some (y :: r) | _, _ => None end.
Proof. reflexivity. Qed.

Lemma take_idx_map {A B} (f : A -> B) idx (l : list A) :
  take_idx idx (map f l) = option_map (map f) (take_idx idx l).
Proof.
  induction idx as [|i idx IH]; [reflexivity|].
  rewrite !take_idx_cons, IH, nth_error_map.
  destruct (nth_error l i); [|reflexivity]. now destruct (take_idx idx l).
Qed.

Lemma take_idx_nth {A} idx (l r : list A) :
  take_idx idx l = Some r ->
  length r = length idx /\ forall j i, nth_error idx j = Some i -> nth_error r j = nth_error l i.
Proof.
  revert r. induction idx as [|i0 idx IH]; intros r H.
  - injection H as <-. split; [reflexivity|]. intros [|j] i Hj; discriminate.
  - rewrite take_idx_cons in H. destruct (nth_error l i0) as [y|] eqn:Ey; [|discriminate].
    destruct (take_idx idx l) as [r'|] eqn:Er; [|discriminate]. injection H as <-.
    destruct (IH r' eq_refl) as [Hl Hn]. split; [cbn [length]; now rewrite Hl|].
    intros [|j] i Hj; cbn [nth_error] in *.
    + injection Hj as <-. now rewrite Ey.
    + now apply Hn.
Qed.

Lemma take_idx_total {A} idx (l : list A) :
  (forall i, In i idx -> i < length l) -> exists r, take_idx idx l = Some r.
Proof.
  induction idx as [|i idx IH]; intros H; [now exists []|].
  destruct IH as [r Hr]; [intros j Hj; apply H; now right|].
  destruct (nth_error l i) as [y|] eqn:Ey.
  - exists (y :: r). now rewrite take_idx_cons, Ey, Hr.
  - apply nth_error_None in Ey. specialize (H i (or_introl eq_refl)). lia.
Qed.

Lemma tg_nth_error_ext {A} (l l' : list A) : (forall k, nth_error l k = nth_error l' k) -> l = l'.
Proof.
  revert l'. induction l as [|a l IH]; intros [|b l'] H; try reflexivity.
  - specialize (H 0). discriminate.
  - specialize (H 0). discriminate.
  - pose proof (H 0) as H0. injection H0 as <-. f_equal. apply IH. intros k. exact (H (S k)).
Qed.

Section Pixel.
  Context {T D : Type} (N : Num T) (V : Data T D).
  Local Notation pt := (T * T * T)%type.

  (* one pixel of delay_and_sum_numba_noamp: the loop body of `for point in prange(numpoints)` *)
  Definition pixel_noamp (sc : scheme) (ns : Z) (dt t0 : T) (fill : D) (wss : list (scan D)) (r : prow T D) : D :=
    let invdt := ndiv N (n1 N) dt in
    match sc with
    | Nearest => accumulate N V (term_noamp_nearest N V ns invdt t0 fill r) wss
    | Linear => accumulate N V (term_noamp_linear N V ns invdt t0 fill r) wss
    | Lanczos a => accumulate N V (term_noamp_lanczos N V a ns invdt t0 fill r) wss
    end.

  (* one pixel of delay_and_sum_numba (nearest / linear) *)
  Definition pixel_amp (sc : scheme) (ns : Z) (dt t0 : T) (fill : D) (wss : list (scan D)) (r : prow T D) : D :=
    match sc with
    | Linear => accumulate N V (term_amp_linear N V ns dt t0 fill r) wss
    | _ => accumulate N V (term_amp_nearest N V ns dt t0 fill r) wss
    end.

  Definition pixel (with_amp : bool) sc ns dt t0 fill wss r : D :=
    if with_amp then pixel_amp sc ns dt t0 fill wss r else pixel_noamp sc ns dt t0 fill wss r.

  Definition has_amps (amps : option (@amp_tables D)) : bool := match amps with Some _ => true | None => false end.

  Lemma das_noamp_map sc ns dt t0 fill w rows ss :
    das_noamp N V sc ns dt t0 fill w rows ss
    = option_map (fun wss => map (pixel_noamp sc ns dt t0 fill wss) rows) (weigh_timetraces V w ss).
  Proof. unfold das_noamp. destruct (weigh_timetraces V w ss); [|reflexivity]. now destruct sc. Qed.

  Lemma das_amp_map sc ns dt t0 fill w rows ss :
    das_amp N V sc ns dt t0 fill w rows ss
    = match weigh_timetraces V w ss with
      | None => None
      | Some wss => match sc with
                    | Lanczos _ => None
                    | _ => Some (map (pixel_amp sc ns dt t0 fill wss) rows)
                    end
      end.
  Proof. unfold das_amp. destruct (weigh_timetraces V w ss); [|reflexivity]. now destruct sc. Qed.

  (* the image is the map of ONE function over the rows of the focal law *)
  Lemma delay_and_sum_rows sc ns dt t0 fill w ltx lrx amps ss img :
    delay_and_sum N V sc ns dt t0 fill w ltx lrx amps ss = Some img ->
    exists rows wss,
      focal_rows ltx lrx amps = Some rows /\ weigh_timetraces V w ss = Some wss /\
      img = map (pixel (has_amps amps) sc ns dt t0 fill wss) rows.
  Proof.
    unfold delay_and_sum. destruct (focal_rows ltx lrx amps) as [rows|]; [|discriminate].
    destruct amps as [a|]; cbn [has_amps pixel].
    - rewrite das_amp_map. destruct (weigh_timetraces V w ss) as [wss|]; [|discriminate].
      intros H. exists rows, wss. split; [reflexivity|]. split; [reflexivity|].
      destruct sc; try discriminate; now injection H as <-.
    - rewrite das_noamp_map. destruct (weigh_timetraces V w ss) as [wss|]; [|discriminate].
      cbn [option_map]. intros H. injection H as <-. now exists rows, wss.
  Qed.

  (* row k of the focal law: row k of each of the (two or four) tables *)
  Definition row_at (ltx lrx : list (list T)) (amps : option (@amp_tables D)) (k : nat) : option (prow T D) :=
    match nth_error ltx k, nth_error lrx k with
    | Some a, Some b =>
        match amps with
        | None => Some (mkRow a b [] [])
        | Some (atx, arx) =>
            match nth_error atx k, nth_error arx k with
            | Some c, Some d => Some (mkRow a b c d)
            | _, _ => None
            end
        end
    | _, _ => None
    end.

  Lemma focal_rows_nth ltx lrx amps rows k :
    focal_rows ltx lrx amps = Some rows -> nth_error rows k = row_at ltx lrx amps k.
  Proof.
    unfold focal_rows, row_at. destruct (length ltx =? length lrx); [|discriminate].
    destruct amps as [[atx arx]|].
    - destruct (same_shape2 atx ltx && same_shape2 arx lrx); [|discriminate].
      intros H. injection H as <-. rewrite nth_error_map, !tg_nth_error_combine.
      destruct (nth_error ltx k), (nth_error lrx k), (nth_error atx k), (nth_error arx k); reflexivity.
    - intros H. injection H as <-. rewrite nth_error_map, tg_nth_error_combine.
      destruct (nth_error ltx k), (nth_error lrx k); reflexivity.
  Qed.

  Lemma delay_and_sum_pixel sc ns dt t0 fill w ltx lrx amps ss img k :
    delay_and_sum N V sc ns dt t0 fill w ltx lrx amps ss = Some img ->
    exists wss, weigh_timetraces V w ss = Some wss /\
      nth_error img k = option_map (pixel (has_amps amps) sc ns dt t0 fill wss) (row_at ltx lrx amps k).
  Proof.
    intros H. apply delay_and_sum_rows in H as (rows & wss & Hr & Hw & ->).
    exists wss. split; [exact Hw|]. now rewrite nth_error_map, (focal_rows_nth _ _ _ _ k Hr).
  Qed.

  (* pixel independence: two calls on the same frame, weights and options; a pixel of the one and
     a pixel of the other whose rows of the tables coincide have the same value, whatever the
     other rows (other pixels) of either call and whatever their positions *)
  Lemma pixel_independence sc ns dt t0 fill w ss ltx lrx amps img ltx' lrx' amps' img' k k' :
    delay_and_sum N V sc ns dt t0 fill w ltx lrx amps ss = Some img ->
    delay_and_sum N V sc ns dt t0 fill w ltx' lrx' amps' ss = Some img' ->
    has_amps amps = has_amps amps' ->
    row_at ltx lrx amps k = row_at ltx' lrx' amps' k' ->
    nth_error img k = nth_error img' k'.
  Proof.
    intros H H' Ha Hr.
    destruct (delay_and_sum_pixel _ _ _ _ _ _ _ _ _ _ _ k H) as (wss & Hw & ->).
    destruct (delay_and_sum_pixel _ _ _ _ _ _ _ _ _ _ _ k' H') as (wss' & Hw' & ->).
    rewrite Hw in Hw'. injection Hw' as <-. now rewrite Ha, Hr.
  Qed.

  (* ---- contact TFM without amplitudes ------------------------------------------- *)
  Definition contact_row_g (velocity : T) (probe : list pt) (g : pt) : prow T D :=
    let tau := map (fun e => ndiv N (dist N g e) velocity) probe in mkRow tau tau [] [].

  Lemma contact_lookup_rows_g grid probe v :
    contact_lookup_times N grid probe v = map (fun g => map (fun e => ndiv N (dist N g e) v) probe) grid.
  Proof.
    unfold contact_lookup_times, leg_times, distance_pairwise, pts. cbn [snd].
    rewrite map_map. apply map_ext. intros g. now rewrite map_map.
  Qed.

  Lemma tg_combine_same {A} (l : list A) : combine l l = map (fun x => (x, x)) l.
  Proof. induction l as [|a l IH]; cbn [combine map]; [reflexivity|now rewrite IH]. Qed.

  Definition contact_pixel sc ns dt t0 fill v probe wss (g : pt) : D :=
    pixel_noamp sc ns dt t0 fill wss (contact_row_g v probe g).

  Lemma contact_tfm_map sc ns dt t0 fill wa grid probe v ss :
    contact_tfm N V sc ns dt t0 fill wa grid probe v None ss
    = option_map (fun wss => map (contact_pixel sc ns dt t0 fill v probe wss) grid)
                 (weigh_timetraces V (resolve_weights N wa ss) ss).
  Proof.
    unfold contact_tfm, delay_and_sum, focal_rows. rewrite Nat.eqb_refl, tg_combine_same, map_map.
    rewrite das_noamp_map, contact_lookup_rows_g, map_map.
    destruct (weigh_timetraces V (resolve_weights N wa ss) ss); [|reflexivity]. cbn [option_map fst snd].
    f_equal. now rewrite map_map.
  Qed.

  (* block-wise imaging: the image of a concatenation is the concatenation of the images *)
  Lemma contact_tfm_app sc ns dt t0 fill wa g1 g2 probe v ss :
    contact_tfm N V sc ns dt t0 fill wa (g1 ++ g2) probe v None ss
    = match contact_tfm N V sc ns dt t0 fill wa g1 probe v None ss,
            contact_tfm N V sc ns dt t0 fill wa g2 probe v None ss with
      | Some a, Some b => Some (a ++ b)
      | _, _ => None
      end.
  Proof.
    rewrite !contact_tfm_map. destruct (weigh_timetraces V (resolve_weights N wa ss) ss); [|reflexivity].
    cbn [option_map]. now rewrite map_app.
  Qed.

  (* imaging a sub-list of the points gives the sub-list of the values *)
  Lemma contact_tfm_take sc ns dt t0 fill wa grid probe v ss img idx sub :
    contact_tfm N V sc ns dt t0 fill wa grid probe v None ss = Some img ->
    take_idx idx grid = Some sub ->
    contact_tfm N V sc ns dt t0 fill wa sub probe v None ss = take_idx idx img.
  Proof.
    rewrite !contact_tfm_map. destruct (weigh_timetraces V (resolve_weights N wa ss) ss) as [wss|]; [|discriminate].
    cbn [option_map]. intros H Hs. injection H as <-. now rewrite take_idx_map, Hs.
  Qed.

  Lemma contact_tfm_pixel sc ns dt t0 fill wa grid probe v ss img k g :
    contact_tfm N V sc ns dt t0 fill wa grid probe v None ss = Some img ->
    nth_error grid k = Some g ->
    option_map (fun one => [one]) (nth_error img k) = contact_tfm N V sc ns dt t0 fill wa [g] probe v None ss.
  Proof.
    rewrite !contact_tfm_map. destruct (weigh_timetraces V (resolve_weights N wa ss) ss) as [wss|]; [|discriminate].
    cbn [option_map map]. intros H Hg. injection H as <-. now rewrite nth_error_map, Hg.
  Qed.

  (* ---- tfm_for_view without amplitudes: pixel k reads column k of the two ray-time tables *)
  Lemma transpose_nth_error {A} p (t : list (list A)) k (d : A) :
    Forall (fun row => length row = p) t -> k < p ->
    nth_error (transpose p t) k = Some (map (fun row => nth k row d) t).
  Proof.
    intros Ht Hk. induction Ht as [|row t Hrow Ht IH]; cbn [transpose map].
    - apply nth_error_repeat. exact Hk.
    - rewrite nth_error_map, tg_nth_error_combine, IH.
      destruct (nth_error row k) as [x|] eqn:Ex.
      + cbn [option_map fst snd]. now rewrite (nth_error_nth _ _ d Ex).
      + apply nth_error_None in Ex. lia.
  Qed.

  Definition view_row_g (tx_times rx_times : list (list T)) (k : nat) : prow T D :=
    mkRow (map (fun row => nth k row (n0 N)) tx_times) (map (fun row => nth k row (n0 N)) rx_times) [] [].

  Lemma tg_transpose_length {A} p (t : list (list A)) :
    Forall (fun row => length row = p) t -> length (transpose p t) = p.
  Proof.
    induction 1 as [|row t Hrow _ IH]; cbn [transpose].
    - apply repeat_length.
    - rewrite map_length, combine_length, IH, Hrow. apply Nat.min_id.
  Qed.

  Lemma view_rows_g p ttx trx :
    Forall (fun row => length row = p) ttx -> Forall (fun row => length row = p) trx ->
    focal_rows (D:=D) (transpose p ttx) (transpose p trx) None = Some (map (view_row_g ttx trx) (seq 0 p)).
  Proof.
    intros Htx Hrx. unfold focal_rows. rewrite !tg_transpose_length, Nat.eqb_refl by assumption. f_equal.
    apply tg_nth_error_ext. intros k. rewrite !nth_error_map, tg_nth_error_combine.
    destruct (Nat.lt_ge_cases k p) as [Hk|Hk].
    - rewrite (transpose_nth_error p ttx k (n0 N) Htx Hk), (transpose_nth_error p trx k (n0 N) Hrx Hk).
      rewrite (nth_error_seq 0 p k Hk). reflexivity.
    - assert (E1 : nth_error (transpose p ttx) k = None)
        by (apply nth_error_None; now rewrite tg_transpose_length).
      assert (E2 : nth_error (seq 0 p) k = None) by (apply nth_error_None; now rewrite seq_length).
      now rewrite E1, E2.
  Qed.

  Definition view_pixel sc ns dt t0 fill ttx trx ss (k : nat) : D :=
    pixel_noamp sc ns dt t0 fill ss (view_row_g ttx trx k).

  Lemma tfm_for_view_map sc ns dt t0 fill p rtx rrx ss :
    Forall (fun row => length row = p) (r_times rtx) -> Forall (fun row => length row = p) (r_times rrx) ->
    tfm_for_view N V sc ns dt t0 fill p rtx rrx None ss
    = Some (map (view_pixel sc ns dt t0 fill (r_times rtx) (r_times rrx) ss) (seq 0 p)).
  Proof.
    intros Htx Hrx. unfold tfm_for_view, delay_and_sum. rewrite (view_rows_g p _ _ Htx Hrx), das_noamp_map.
    cbn [weigh_timetraces option_map]. now rewrite map_map.
  Qed.

  Lemma take_cols_rows {A} idx (t t' : list (list A)) (d : A) :
    take_cols idx t = Some t' ->
    Forall (fun row => length row = length idx) t' /\
    forall j i, nth_error idx j = Some i ->
      map (fun row => nth j row d) t' = map (fun row => nth i row d) t.
  Proof.
    unfold take_cols. revert t'. induction t as [|row t IH]; intros t' H.
    - injection H as <-. split; [constructor|reflexivity].
    - cbn [mapM] in H. destruct (take_idx idx row) as [row'|] eqn:Er; [|discriminate].
      destruct (mapM (take_idx idx) t) as [t''|] eqn:Et; [|discriminate]. injection H as <-.
      destruct (IH t'' eq_refl) as [HF Hn]. destruct (take_idx_nth idx row row' Er) as [Hl Hr].
      split; [constructor; assumption|]. intros j i Hj. cbn [map]. f_equal; [|now apply Hn].
      assert (Hjl : j < length idx) by (apply nth_error_Some; congruence).
      specialize (Hr j i Hj).
      destruct (nth_error row' j) as [x|] eqn:Ex.
      + rewrite (nth_error_nth _ _ d Ex). symmetry. apply nth_error_nth. now rewrite <- Hr.
      + apply nth_error_None in Ex. lia.
  Qed.

  (* imaging a subset of the columns of the ray times (a sub-list of the grid points of a view)
     gives the sub-list of the values *)
  Lemma tfm_for_view_take sc ns dt t0 fill p rtx rrx ss img idx ttx' trx' :
    Forall (fun row => length row = p) (r_times rtx) -> Forall (fun row => length row = p) (r_times rrx) ->
    tfm_for_view N V sc ns dt t0 fill p rtx rrx None ss = Some img ->
    take_cols idx (r_times rtx) = Some ttx' -> take_cols idx (r_times rrx) = Some trx' ->
    (forall i, In i idx -> i < p) ->
    tfm_for_view N V sc ns dt t0 fill (length idx) (mkRays ttx' []) (mkRays trx' []) None ss = take_idx idx img.
  Proof.
    intros Htx Hrx H Hctx Hcrx Hidx. rewrite (tfm_for_view_map _ _ _ _ _ p _ _ _ Htx Hrx) in H. injection H as <-.
    destruct (take_cols_rows idx _ _ (n0 N) Hctx) as [Htx' Hntx].
    destruct (take_cols_rows idx _ _ (n0 N) Hcrx) as [Hrx' Hnrx].
    rewrite (tfm_for_view_map _ _ _ _ _ (length idx) (mkRays ttx' []) (mkRays trx' []) _ Htx' Hrx').
    cbn [r_times]. rewrite take_idx_map.
    assert (Hs : take_idx idx (seq 0 p) = Some idx).
    { clear -Hidx. induction idx as [|i idx IH]; [reflexivity|].
      rewrite take_idx_cons, (nth_error_seq 0 p i) by (apply Hidx; now left).
      rewrite IH by (intros j Hj; apply Hidx; now right). reflexivity. }
    rewrite Hs. cbn [option_map]. f_equal.
    apply tg_nth_error_ext. intros j. rewrite !nth_error_map.
    destruct (nth_error idx j) as [i|] eqn:Ej.
    - rewrite (nth_error_seq 0 (length idx) j) by (apply nth_error_Some; congruence).
      cbn [option_map plus]. f_equal. unfold view_pixel, view_row_g. now rewrite (Hntx j i Ej), (Hnrx j i Ej).
    - assert (E : nth_error (seq 0 (length idx)) j = None)
        by (apply nth_error_None; rewrite seq_length; now apply nth_error_None).
      now rewrite E.
  Qed.
End Pixel.

(* ==========================================================================
   Part C: ut.default_timetrace_weights on integer index values, arbitrary frames *)
Lemma zpair_mem_In p l : zpair_mem p l = true <-> In p l.
Proof.
  unfold zpair_mem. rewrite existsb_exists. split.
  - intros (q & Hq & E). apply andb_prop in E as [E1 E2]. apply Z.eqb_eq in E1. apply Z.eqb_eq in E2.
    destruct p, q. cbn [fst snd] in *. now subst.
  - intros H. exists p. split; [exact H|]. now rewrite !Z.eqb_refl.
Qed.

(* the weight of the pair p in a frame whose set of pairs is l *)
Definition wz (l : list (Z * Z)) (p : Z * Z) : Z := if zpair_mem (snd p, fst p) l then 1%Z else 2%Z.

Lemma default_weights_z_unfold tx rx :
  default_weights_z tx rx
  = if length tx =? length rx then
      if length tx =? 0 then None else Some (map (wz (combine tx rx)) (combine tx rx))
    else None.
Proof. reflexivity. Qed.

(* REPAIRED (model made faithful): np.nditer raises ValueError on a zero-sized array, so two empty
   lists raise as well; before the repair the model answered Some [] there *)
Lemma default_weights_z_empty : default_weights_z [] [] = None.
Proof. reflexivity. Qed.

Lemma default_weights_z_raises tx rx :
  default_weights_z tx rx = None <-> length tx <> length rx \/ (tx = [] /\ rx = []).
Proof.
  rewrite default_weights_z_unfold. destruct (Nat.eqb_spec (length tx) (length rx)) as [E|E].
  - destruct tx as [|a tx].
    + destruct rx as [|b rx]; [|discriminate]. split; [intros _; right; now split|reflexivity].
    + cbn [length Nat.eqb]. split; [discriminate|]. intros [H|[H _]]; [now elim H|discriminate].
  - split; [intros _; now left|reflexivity].
Qed.

(* the call returns exactly on two non-empty lists of the same length *)
Lemma default_weights_z_defined tx rx :
  (exists w, default_weights_z tx rx = Some w) <-> length tx = length rx /\ tx <> [].
Proof.
  rewrite default_weights_z_unfold. destruct (Nat.eqb_spec (length tx) (length rx)) as [E|E].
  - destruct tx as [|a tx]; cbn [length Nat.eqb].
    + split; [intros [w H]; discriminate|intros [_ H]; now elim H].
    + split; [intros _; split; [exact E|discriminate]|intros _; eexists; reflexivity].
  - split; [intros [w H]; discriminate|intros [H _]; contradiction].
Qed.

(* weight 1 exactly where the reciprocal pair is somewhere in the frame, 2 exactly where it is
   absent: any frame (repeated pairs, any order, any subset of the matrix) *)
Lemma default_weights_z_spec tx rx w :
  default_weights_z tx rx = Some w ->
  length w = length tx /\
  forall k a b, nth_error tx k = Some a -> nth_error rx k = Some b ->
    (In (b, a) (combine tx rx) -> nth_error w k = Some 1%Z) /\
    (~ In (b, a) (combine tx rx) -> nth_error w k = Some 2%Z).
Proof.
  rewrite default_weights_z_unfold. destruct (Nat.eqb_spec (length tx) (length rx)) as [E|]; [|discriminate].
  destruct (length tx =? 0); [discriminate|].
  intros H. injection H as <-. split.
  - rewrite map_length, combine_length, <- E. apply Nat.min_id.
  - intros k a b Ha Hb. rewrite nth_error_map, tg_nth_error_combine, Ha, Hb. cbn [option_map].
    unfold wz. cbn [fst snd]. destruct (zpair_mem (b, a) (combine tx rx)) eqn:Em.
    + split; [reflexivity|]. intros Hn. exfalso. apply Hn. now apply zpair_mem_In.
    + split; [|reflexivity]. intros Hi. apply zpair_mem_In in Hi. congruence.
Qed.

Lemma wz_set l l' p : (forall q, In q l <-> In q l') -> wz l p = wz l' p.
Proof.
  intros H. unfold wz. destruct (zpair_mem _ l) eqn:E1, (zpair_mem _ l') eqn:E2; try reflexivity.
  - apply zpair_mem_In, H, zpair_mem_In in E1. congruence.
  - apply zpair_mem_In, H, zpair_mem_In in E2. congruence.
Qed.

Lemma tg_combine_map_r {A B} (f : A -> B) (l : list A) : combine l (map f l) = map (fun x => (x, f x)) l.
Proof. induction l as [|a l IH]; cbn [combine map]; [reflexivity|now rewrite IH]. Qed.

(* the weights travel with the timetraces: re-ordering the frame re-orders the weights alike *)
Lemma default_weights_z_perm tx rx tx' rx' w w' :
  Permutation (combine tx rx) (combine tx' rx') ->
  default_weights_z tx rx = Some w -> default_weights_z tx' rx' = Some w' ->
  Permutation (combine (combine tx rx) w) (combine (combine tx' rx') w').
Proof.
  rewrite !default_weights_z_unfold. intros HP.
  destruct (length tx =? length rx); [|discriminate]. destruct (length tx' =? length rx'); [|discriminate].
  destruct (length tx =? 0); [discriminate|]. destruct (length tx' =? 0); [discriminate|].
  intros H H'. injection H as <-. injection H' as <-. rewrite !tg_combine_map_r.
  rewrite (map_ext (fun x => (x, wz (combine tx' rx') x)) (fun x => (x, wz (combine tx rx) x))).
  - now apply Permutation_map.
  - intros p. f_equal. apply wz_set. intros q. split; apply Permutation_in; [now apply Permutation_sym|exact HP].
Qed.

Lemma tg_Zeqb_of_nat a b : Z.eqb (Z.of_nat a) (Z.of_nat b) = (a =? b).
Proof. destruct (Z.eqb_spec (Z.of_nat a) (Z.of_nat b)), (Nat.eqb_spec a b); try reflexivity; lia. Qed.

Lemma zpair_mem_nat a b l :
  zpair_mem (Z.of_nat a, Z.of_nat b) (map (fun x : nat * nat => (Z.of_nat (fst x), Z.of_nat (snd x))) l)
  = memp (a, b) l.
Proof.
  unfold zpair_mem, memp, pair_eqb. cbn [fst snd]. induction l as [|[c d] l IH]; [reflexivity|].
  cbn [map existsb fst snd]. now rewrite IH, !tg_Zeqb_of_nat.
Qed.

(* on non-negative indices it is the nat model of C15 on which the theorems are stated.
   REPAIRED: restricted to a NON-EMPTY frame; on l = [] the library raises (np.nditer) whereas the
   total function of C15 (Model/Frame.v, default_timetrace_weights : list (nat * nat) -> list nat)
   answers [] *)
Lemma default_weights_z_nat (l : list (nat * nat)) :
  l <> [] ->
  default_weights_z (map (fun p => Z.of_nat (fst p)) l) (map (fun p => Z.of_nat (snd p)) l)
  = Some (map Z.of_nat (default_timetrace_weights l)).
Proof.
  intros Hne. rewrite default_weights_z_unfold, !map_length, Nat.eqb_refl.
  assert (E0 : (length l =? 0) = false) by (destruct l; [now elim Hne|reflexivity]).
  rewrite E0. clear Hne E0. f_equal.
  rewrite combine_map_same. unfold default_timetrace_weights. rewrite !map_map. apply map_ext. intros [a b].
  unfold wz. cbn [fst snd swap].
  pose proof (zpair_mem_nat b a l) as E.
  rewrite E. unfold swap. cbn [fst snd]. now destruct (memp (b, a) l).
Qed.

(* ==========================================================================
   Part E: memory order of 2-d arrays (Rays.times C- or Fortran-ordered, `.T`, copies) *)
Section Arr2Proofs.
  Context {A : Type} (dflt : A).

  Lemma a_get_T (a : arr2 A) i j : a_get dflt (a_T a) j i = a_get dflt a i j.
  Proof.
    unfold a_get, a_off, a_T. cbn [a_forder a_m a_p a_buf]. destruct (a_forder a); cbn [negb]; f_equal; lia.
  Qed.

  (* `.T` is the transposed table, for either memory order (no hypothesis on the buffer) *)
  Lemma a_rows_T (a : arr2 A) : a_rows dflt (a_T a) = transpose (a_p a) (a_rows dflt a).
  Proof.
    unfold a_rows. rewrite transpose_tab. cbn [a_T a_m a_p]. apply tab_ext. intros j i _ _. apply a_get_T.
  Qed.

  Lemma nth_concat_rows (t : list (list A)) p i j :
    Forall (fun row => length row = p) t -> j < p ->
    nth (i * p + j) (concat t) dflt = nth j (nth i t []) dflt.
  Proof.
    intros Ht Hj. revert i. induction Ht as [|row t Hrow _ IH]; intros i.
    - destruct i; cbn [concat nth]; now destruct (_ + j), j.
    - destruct i as [|i]; cbn [concat nth].
      + cbn [Nat.mul plus]. apply app_nth1. lia.
      + rewrite app_nth2 by (cbn [Nat.mul]; lia). rewrite <- IH. f_equal. cbn [Nat.mul]. lia.
  Qed.

  Lemma nth_concat_tab m p (f : nat -> nat -> A) i j : i < m -> j < p ->
    nth (i * p + j) (concat (tab m p f)) dflt = f i j.
  Proof.
    intros Hi Hj. rewrite (nth_concat_rows _ p).
    - unfold tab. rewrite (nth_map_seq _ m i [] Hi). now apply nth_map_seq.
    - apply Forall_forall. intros row Hrow. now apply tab_row_length in Hrow.
    - exact Hj.
  Qed.

  (* np.ascontiguousarray and np.asfortranarray keep the logical content *)
  Lemma a_rows_ascontiguous (a : arr2 A) : a_rows dflt (a_ascontiguous dflt a) = a_rows dflt a.
  Proof.
    unfold a_ascontiguous. destruct (a_forder a) eqn:Ef; [|reflexivity].
    unfold a_rows at 1. cbn [a_m a_p]. apply tab_ext. intros i j Hi Hj.
    unfold a_get at 1, a_off. cbn [a_forder a_buf a_p]. unfold a_rows. now apply nth_concat_tab.
  Qed.

  Lemma a_rows_asfortran (a : arr2 A) : a_rows dflt (a_asfortran dflt a) = a_rows dflt a.
  Proof.
    unfold a_asfortran. destruct (a_forder a) eqn:Ef; [reflexivity|].
    unfold a_rows at 1. cbn [a_m a_p]. apply tab_ext. intros i j Hi Hj.
    unfold a_get at 1, a_off. cbn [a_forder a_buf a_m]. rewrite Nat.add_comm.
    now rewrite (nth_concat_tab (a_p a) (a_m a) (fun j0 i0 => a_get dflt a i0 j0) j i Hj Hi).
  Qed.

  Lemma a_shape_ascontiguous (a : arr2 A) :
    a_m (a_ascontiguous dflt a) = a_m a /\ a_p (a_ascontiguous dflt a) = a_p a /\ a_forder (a_ascontiguous dflt a) = false.
  Proof. unfold a_ascontiguous. destruct (a_forder a) eqn:E; cbn [a_m a_p a_forder]; auto. Qed.

  Lemma a_shape_asfortran (a : arr2 A) :
    a_m (a_asfortran dflt a) = a_m a /\ a_p (a_asfortran dflt a) = a_p a /\ a_forder (a_asfortran dflt a) = true.
  Proof. unfold a_asfortran. destruct (a_forder a) eqn:E; cbn [a_m a_p a_forder]; auto. Qed.

  (* the point of Rays.to_fortran_order: the transpose of a Fortran-ordered table is already
     C-contiguous, FocalLaw makes no copy *)
  Lemma a_T_fortran_no_copy (a : arr2 A) : a_forder a = true -> a_ascontiguous dflt (a_T a) = a_T a.
  Proof. intros H. unfold a_ascontiguous. cbn [a_T a_forder]. now rewrite H. Qed.

  Lemma a_rows_of_rows p (t : list (list A)) :
    Forall (fun row => length row = p) t -> a_rows dflt (a_of_rows p t) = t.
  Proof.
    intros Ht. unfold a_rows, a_of_rows. cbn [a_m a_p]. apply tg_nth_error_ext. intros i.
    unfold tab. rewrite nth_error_map.
    destruct (Nat.lt_ge_cases i (length t)) as [Hi|Hi].
    - rewrite (nth_error_seq 0 _ i Hi). cbn [option_map plus].
      destruct (nth_error t i) as [row|] eqn:Er; [|apply nth_error_None in Er; lia]. f_equal.
      assert (Hrow : length row = p).
      { rewrite Forall_forall in Ht. apply Ht. now apply nth_error_In in Er. }
      apply tg_nth_error_ext. intros j. rewrite nth_error_map.
      destruct (Nat.lt_ge_cases j p) as [Hj|Hj].
      + rewrite (nth_error_seq 0 _ j Hj). cbn [option_map plus].
        unfold a_get, a_off. cbn [a_forder a_buf a_p]. rewrite (nth_concat_rows t p i j Ht Hj).
        rewrite (nth_error_nth _ _ [] Er). symmetry. apply nth_error_nth'. lia.
      + assert (E1 : nth_error (seq 0 p) j = None) by (apply nth_error_None; now rewrite seq_length).
        assert (E2 : nth_error row j = None) by (apply nth_error_None; lia). now rewrite E1, E2.
    - assert (E1 : nth_error (seq 0 (length t)) i = None) by (apply nth_error_None; now rewrite seq_length).
      assert (E2 : nth_error t i = None) by now apply nth_error_None. now rewrite E1, E2.
  Qed.
End Arr2Proofs.

Section ViewMem.
  Context {T D : Type} (N : Num T) (V : Data T D).

  (* tfm_for_view reads the LOGICAL table of ray times, whatever its memory order *)
  Lemma tfm_for_view_mem_logical sc ns dt t0 fill p (ttx trx : arr2 T) amps ss :
    a_p ttx = p -> a_p trx = p ->
    tfm_for_view_mem N V sc ns dt t0 fill ttx trx amps ss
    = tfm_for_view N V sc ns dt t0 fill p (mkRays (a_rows (n0 N) ttx) []) (mkRays (a_rows (n0 N) trx) []) amps ss.
  Proof.
    intros Hp Hq. unfold tfm_for_view_mem, tfm_for_view. cbn [r_times].
    now rewrite !a_rows_ascontiguous, !a_rows_T, Hp, Hq.
  Qed.

  Lemma tfm_for_view_mem_order sc ns dt t0 fill (ttx trx ttx' trx' : arr2 T) amps ss :
    a_p ttx = a_p ttx' -> a_p trx = a_p trx' ->
    a_rows (n0 N) ttx = a_rows (n0 N) ttx' -> a_rows (n0 N) trx = a_rows (n0 N) trx' ->
    tfm_for_view_mem N V sc ns dt t0 fill ttx trx amps ss = tfm_for_view_mem N V sc ns dt t0 fill ttx' trx' amps ss.
  Proof.
    intros Hp Hq Ht Hr. unfold tfm_for_view_mem.
    now rewrite !a_rows_ascontiguous, !a_rows_T, Hp, Hq, Ht, Hr.
  Qed.

  (* ray tracing with convert_to_fortran_order=True / False gives the same image *)
  Lemma tfm_for_view_fortran sc ns dt t0 fill (ttx trx : arr2 T) amps ss :
    tfm_for_view_mem N V sc ns dt t0 fill (a_asfortran (n0 N) ttx) (a_asfortran (n0 N) trx) amps ss
    = tfm_for_view_mem N V sc ns dt t0 fill ttx trx amps ss.
  Proof.
    apply tfm_for_view_mem_order; try apply a_rows_asfortran; apply (a_shape_asfortran (n0 N)).
  Qed.
End ViewMem.

(* ==========================================================================
   Part D: an explicit timetrace_weights argument (numpy broadcasting in weigh_timetraces) *)
Section Explicit.
  Context {T D : Type} (N : Num T) (V : Data T D).
  Local Notation pt := (T * T * T)%type.

  Lemma contact_tfm_x_default sc ns dt t0 fill (grid probe : list pt) v amps ss :
    contact_tfm_x N V sc ns dt t0 fill XDefault grid probe v amps ss
    = glue_of_option (contact_tfm N V sc ns dt t0 fill WDefault grid probe v amps ss)
    /\ contact_tfm_x N V sc ns dt t0 fill XNone grid probe v amps ss
       = glue_of_option (contact_tfm N V sc ns dt t0 fill WNone grid probe v amps ss).
  Proof. split; reflexivity. Qed.

  (* one weight per timetrace: passed on as it is *)
  Lemma contact_tfm_x_matching sc ns dt t0 fill w (grid probe : list pt) v amps ss :
    length w = length ss ->
    contact_tfm_x N V sc ns dt t0 fill (XArray w) grid probe v amps ss
    = glue_of_option (contact_tfm N V sc ns dt t0 fill (WGiven w) grid probe v amps ss).
  Proof. intros H. unfold contact_tfm_x, bcast_weights. now rewrite H, Nat.eqb_refl. Qed.

  (* a single weight (a float, or a list of one) is broadcast to every timetrace *)
  Lemma contact_tfm_x_single sc ns dt t0 fill w0 (grid probe : list pt) v amps ss :
    contact_tfm_x N V sc ns dt t0 fill (XArray [w0]) grid probe v amps ss
    = glue_of_option (contact_tfm N V sc ns dt t0 fill (WGiven (repeat w0 (length ss))) grid probe v amps ss)
    /\ contact_tfm_x N V sc ns dt t0 fill (XScalar w0) grid probe v amps ss
       = contact_tfm_x N V sc ns dt t0 fill (XArray [w0]) grid probe v amps ss.
  Proof.
    split; [|reflexivity]. unfold contact_tfm_x, bcast_weights. cbn [length hd].
    destruct (Nat.eqb_spec 1 (length ss)) as [E|E]; [|reflexivity]. now rewrite <- E.
  Qed.

  (* any other length: ValueError (broadcast), unless the frame has exactly one timetrace *)
  Lemma contact_tfm_x_mismatch sc ns dt t0 fill w (grid probe : list pt) v amps ss :
    length w <> length ss -> length w <> 1 -> length ss <> 1 ->
    contact_tfm_x N V sc ns dt t0 fill (XArray w) grid probe v amps ss = GRaise.
  Proof.
    intros H1 H2 H3. unfold contact_tfm_x, bcast_weights.
    destruct (Nat.eqb_spec (length w) (length ss)); [contradiction|].
    destruct (Nat.eqb_spec (length w) 1); [contradiction|].
    destruct (Nat.eqb_spec (length ss) 1); [contradiction|reflexivity].
  Qed.

  Lemma glue_of_option_not_drift {A} (o : option A) : glue_of_option o <> GShapeDrift.
  Proof. destruct o; discriminate. Qed.

  (* exactly when the call runs the kernel on a weighted array whose number of rows is not the
     number of timetraces: a frame of ONE timetrace with a weight list of length 0 or >= 2 *)
  Lemma contact_tfm_x_drift_iff sc ns dt t0 fill wx (grid probe : list pt) v amps ss :
    contact_tfm_x N V sc ns dt t0 fill wx grid probe v amps ss = GShapeDrift
    <-> exists w, wx = XArray w /\ length ss = 1 /\ length w <> 1 /\
                  contact_tfm N V sc ns dt t0 fill WNone grid probe v amps ss <> None.
  Proof.
    split.
    - destruct wx as [| |w0|w|]; cbn [contact_tfm_x]; intros H;
        try (now apply glue_of_option_not_drift in H); try discriminate.
      + exfalso. revert H. unfold bcast_weights. cbn [length hd].
        destruct (1 =? length ss); [apply glue_of_option_not_drift|]. cbn [Nat.eqb].
        apply glue_of_option_not_drift.
      + exists w. split; [reflexivity|]. revert H. unfold bcast_weights.
        destruct (Nat.eqb_spec (length w) (length ss)) as [E|E]; [intros H; now apply glue_of_option_not_drift in H|].
        destruct (Nat.eqb_spec (length w) 1) as [E1|E1]; [intros H; now apply glue_of_option_not_drift in H|].
        destruct (Nat.eqb_spec (length ss) 1) as [E2|E2]; [|discriminate].
        destruct (contact_tfm N V sc ns dt t0 fill WNone grid probe v amps ss); [|discriminate].
        intros _. repeat split; auto. discriminate.
    - intros (w & -> & H1 & H2 & H3). cbn [contact_tfm_x]. unfold bcast_weights. rewrite H1.
      destruct (Nat.eqb_spec (length w) 1); [contradiction|]. cbn [Nat.eqb].
      destruct (contact_tfm N V sc ns dt t0 fill WNone grid probe v amps ss); [reflexivity|contradiction].
  Qed.
End Explicit.

(* ==========================================================================
   Part G: the warning branches: an expanded frame never triggers them *)
Section Warns.
  Context {D : Type}.

  Lemma entry_scan_id (g : list (entry (list D))) : map entry_of_scan (map scan_of_entry g) = g.
  Proof. rewrite map_map. rewrite <- (map_id g) at 2. apply map_ext. now intros [[a b] x]. Qed.

  Lemma expanded_frame_complete (ss e : list (scan D)) : expand_frame ss = Some e -> frame_complete e = true.
  Proof.
    unfold expand_frame, frame_complete. destruct (expand (map entry_of_scan ss)) as [g|] eqn:E; [|discriminate].
    cbn [option_map]. intros H. injection H as <-. rewrite entry_scan_id.
    exact (expand_is_complete _ _ _ E).
  Qed.

  Lemma expanded_frame_no_warning (ss e : list (scan D)) (amps : option (@amp_tables D)) :
    expand_frame ss = Some e ->
    tfm_for_view_warns e = false /\ contact_tfm_warns amps e = false.
  Proof.
    intros H. apply expanded_frame_complete in H. unfold tfm_for_view_warns, contact_tfm_warns.
    rewrite H. now destruct amps.
  Qed.
End Warns.

(* ==========================================================================
   Part I: contact_tfm / tfm_for_view on a grid of any shape *)
Section ND.
  Context {T D : Type} (N : Num T) (V : Data T D).
  Local Notation pt := (T * T * T)%type.

  (* assert lookup_times.shape == (grid.numpoints, frame.probe.numelements) never fires *)
  Lemma lookup_shape_always_ok (grid probe : list pt) v :
    lookup_shape_ok (contact_lookup_times N grid probe v) (length grid) (length probe) = true.
  Proof.
    unfold lookup_shape_ok. rewrite contact_lookup_rows_g, map_length, Nat.eqb_refl. cbn [andb].
    apply forallb_forall. intros row Hrow. apply in_map_iff in Hrow as (g & <- & _).
    rewrite map_length. apply Nat.eqb_refl.
  Qed.

  Lemma tfm_result_iff a b : tfm_result a b = true <-> a = b.
  Proof.
    unfold tfm_result. split.
    - revert b. induction a as [|x a IH]; intros [|y b] H; try reflexivity; try discriminate.
      cbn [length combine forallb fst snd Nat.eqb] in H. apply andb_prop in H as [Hl H].
      apply andb_prop in H as [Hxy H]. apply Nat.eqb_eq in Hxy. subst y. f_equal. apply IH.
      now rewrite Hl, H.
    - intros <-. rewrite Nat.eqb_refl. cbn [andb]. induction a as [|x a IH]; [reflexivity|].
      cbn [combine forallb fst snd]. now rewrite Nat.eqb_refl, IH.
  Qed.

  Lemma same_shape2_length {A B} (a : list (list A)) (b : list (list B)) :
    same_shape2 a b = true -> length a = length b.
  Proof. unfold same_shape2. intros H. apply andb_prop in H as [H _]. now apply Nat.eqb_eq. Qed.

  Lemma focal_rows_length (ltx lrx : list (list T)) (amps : option (@amp_tables D)) rows :
    focal_rows ltx lrx amps = Some rows -> length rows = length ltx.
  Proof.
    unfold focal_rows. destruct (Nat.eqb_spec (length ltx) (length lrx)) as [E|]; [|discriminate].
    destruct amps as [[atx arx]|].
    - destruct (same_shape2 atx ltx) eqn:E1; [|discriminate]. destruct (same_shape2 arx lrx) eqn:E2; [|discriminate].
      apply same_shape2_length in E1. apply same_shape2_length in E2.
      intros H. injection H as <-. rewrite map_length, !combine_length. lia.
    - intros H. injection H as <-. rewrite map_length, combine_length. lia.
  Qed.

  (* one value per grid point *)
  Lemma contact_tfm_length sc ns dt t0 fill wa (grid probe : list pt) v amps ss res :
    contact_tfm N V sc ns dt t0 fill wa grid probe v amps ss = Some res -> length res = length grid.
  Proof.
    unfold contact_tfm. intros H. apply delay_and_sum_rows in H as (rows & wss & Hr & _ & ->).
    rewrite map_length, (focal_rows_length _ _ _ _ Hr), contact_lookup_rows_g. apply map_length.
  Qed.

  (* on a well-formed N-d grid none of the glue assertions fires and the reshape succeeds:
     the N-d call is the 1-d call on to_1d_points followed by reshape(grid.shape) *)
  Lemma contact_tfm_nd_eq sc ns dt t0 fill wa s (grid : ndt pt (length s)) probe v amps ss :
    nd_okb s grid = true ->
    contact_tfm_nd N V sc ns dt t0 fill wa s grid probe v amps ss
    = option_map (nd_reshape (dzero V) s)
                 (contact_tfm N V sc ns dt t0 fill wa (nd_flatten (length s) grid) probe v amps ss).
  Proof.
    intros Hok. unfold contact_tfm_nd.
    rewrite <- (nd_flatten_length s grid Hok), lookup_shape_always_ok.
    destruct (contact_tfm N V sc ns dt t0 fill wa (nd_flatten (length s) grid) probe v amps ss) as [res|] eqn:E;
      [|reflexivity].
    unfold np_reshape. rewrite (contact_tfm_length _ _ _ _ _ _ _ _ _ _ _ _ E), (nd_flatten_length s grid Hok), Nat.eqb_refl.
    now rewrite (proj2 (tfm_result_iff s s) eq_refl).
  Qed.

  (* the pixel at a multi-index is the 1-d value at the C-order position of that multi-index,
     which is the value of the grid point at the same multi-index *)
  Lemma contact_tfm_nd_get sc ns dt t0 fill wa s (grid : ndt pt (length s)) probe v amps ss img :
    nd_okb s grid = true ->
    contact_tfm_nd N V sc ns dt t0 fill wa s grid probe v amps ss = Some img ->
    exists res,
      contact_tfm N V sc ns dt t0 fill wa (nd_flatten (length s) grid) probe v amps ss = Some res /\
      nd_flatten (length s) img = res /\ nd_okb s img = true /\
      forall idx k, ravel s idx = Some k ->
        nd_get (length s) img idx = nth_error res k /\
        nd_get (length s) grid idx = nth_error (nd_flatten (length s) grid) k.
  Proof.
    intros Hok H. rewrite (contact_tfm_nd_eq _ _ _ _ _ _ _ _ _ _ _ _ Hok) in H.
    destruct (contact_tfm N V sc ns dt t0 fill wa (nd_flatten (length s) grid) probe v amps ss) as [res|] eqn:E;
      [|discriminate].
    cbn [option_map] in H. injection H as <-. exists res. split; [reflexivity|].
    assert (Hl : length res = shape_size s).
    { rewrite (contact_tfm_length _ _ _ _ _ _ _ _ _ _ _ _ E). now apply nd_flatten_length. }
    split; [now apply flatten_reshape|]. split; [now apply reshape_ok|].
    intros idx k Hr. split; [now apply get_reshape|now apply get_flatten].
  Qed.

  (* without amplitudes: the N-d image is the point-wise map of ONE function over the N-d grid *)
  Lemma contact_tfm_nd_map sc ns dt t0 fill wa s (grid : ndt pt (length s)) probe v ss :
    nd_okb s grid = true ->
    contact_tfm_nd N V sc ns dt t0 fill wa s grid probe v None ss
    = option_map (fun wss => nd_map (contact_pixel N V sc ns dt t0 fill v probe wss) (length s) grid)
                 (weigh_timetraces V (resolve_weights N wa ss) ss).
  Proof.
    intros Hok. rewrite (contact_tfm_nd_eq _ _ _ _ _ _ _ _ _ _ _ _ Hok), contact_tfm_map.
    destruct (weigh_timetraces V (resolve_weights N wa ss) ss); [|reflexivity]. cbn [option_map].
    now rewrite reshape_map_flatten.
  Qed.

  Lemma contact_tfm_nd_pixel sc ns dt t0 fill wa s (grid : ndt pt (length s)) probe v ss img :
    nd_okb s grid = true ->
    contact_tfm_nd N V sc ns dt t0 fill wa s grid probe v None ss = Some img ->
    exists wss, weigh_timetraces V (resolve_weights N wa ss) ss = Some wss /\
      forall idx, nd_get (length s) img idx
                  = option_map (contact_pixel N V sc ns dt t0 fill v probe wss) (nd_get (length s) grid idx).
  Proof.
    intros Hok H. rewrite (contact_tfm_nd_map _ _ _ _ _ _ _ _ _ _ _ Hok) in H.
    destruct (weigh_timetraces V (resolve_weights N wa ss) ss) as [wss|]; [|discriminate].
    cbn [option_map] in H. injection H as <-. exists wss. split; [reflexivity|]. intros idx. apply nd_get_map.
  Qed.

  (* ---- tfm_for_view on a grid of any shape.  REPAIRED (model made faithful): tfm_for_view_nd now
     answers None when a ray-time table has a width different from prod(grid.shape) (the library
     raises: FocalLaw assertion, tfm.py:214, or reshape ValueError, tfm.py:466); before the repair
     the columns in excess were silently dropped by MinPlus.transpose. ---- *)
  Lemma times_width_ok_iff {A} p (t : list (list A)) :
    times_width_ok p t = true <-> Forall (fun row => length row = p) t.
  Proof.
    unfold times_width_ok. rewrite forallb_forall, Forall_forall.
    split; intros H row Hr; apply Nat.eqb_eq; now apply H.
  Qed.

  Lemma times_width_ok_false {A} p (t : list (list A)) :
    times_width_ok p t = false <-> Exists (fun row => length row <> p) t.
  Proof.
    unfold times_width_ok. induction t as [|row t IH]; cbn [forallb].
    - split; [discriminate|]. intros H. inversion H.
    - destruct (Nat.eqb_spec (length row) p) as [E|E]; cbn [andb].
      + rewrite IH. split; [now right|]. intros H. inversion H; [contradiction|assumption].
      + split; [intros _; now left|reflexivity].
  Qed.

  (* one value per column of the ray times *)
  Lemma tfm_for_view_length sc ns dt t0 fill p rtx rrx amps ss res :
    Forall (fun row => length row = p) (r_times rtx) ->
    tfm_for_view N V sc ns dt t0 fill p rtx rrx amps ss = Some res -> length res = p.
  Proof.
    intros Htx H. unfold tfm_for_view in H. apply delay_and_sum_rows in H as (rows & wss & Hr & _ & ->).
    rewrite map_length, (focal_rows_length _ _ _ _ Hr). now apply tg_transpose_length.
  Qed.

  (* ray times of shape (numelements, prod(grid.shape)): none of the glue checks fires and the
     reshape succeeds: the call is the core call followed by reshape(grid.shape); with or without
     amplitudes it raises exactly when the core call raises *)
  Lemma tfm_for_view_nd_eq sc ns dt t0 fill s rtx rrx amps ss :
    Forall (fun row => length row = shape_size s) (r_times rtx) ->
    Forall (fun row => length row = shape_size s) (r_times rrx) ->
    tfm_for_view_nd N V sc ns dt t0 fill s rtx rrx amps ss
    = option_map (nd_reshape (dzero V) s)
                 (tfm_for_view N V sc ns dt t0 fill (shape_size s) rtx rrx amps ss).
  Proof.
    intros Htx Hrx. unfold tfm_for_view_nd.
    rewrite (proj2 (times_width_ok_iff _ _) Htx), (proj2 (times_width_ok_iff _ _) Hrx). cbn [andb].
    destruct (tfm_for_view N V sc ns dt t0 fill (shape_size s) rtx rrx amps ss) as [res|] eqn:E; [|reflexivity].
    unfold np_reshape. rewrite (tfm_for_view_length _ _ _ _ _ _ _ _ _ _ _ Htx E), Nat.eqb_refl.
    now rewrite (proj2 (tfm_result_iff s s) eq_refl).
  Qed.

  (* a ray-time table of another width: the call raises, whatever the other arguments *)
  Lemma tfm_for_view_nd_wrong_width sc ns dt t0 fill s rtx rrx amps ss :
    Exists (fun row => length row <> shape_size s) (r_times rtx) \/
    Exists (fun row => length row <> shape_size s) (r_times rrx) ->
    tfm_for_view_nd N V sc ns dt t0 fill s rtx rrx amps ss = None.
  Proof.
    intros [H|H]; apply times_width_ok_false in H; unfold tfm_for_view_nd; rewrite H;
      [reflexivity|now rewrite andb_false_r].
  Qed.

  (* the call raises exactly when a width is wrong or the core call (amplitude shapes, an
     interpolation the amplitude kernels do not have) raises *)
  Lemma tfm_for_view_nd_raises_iff sc ns dt t0 fill s rtx rrx amps ss :
    tfm_for_view_nd N V sc ns dt t0 fill s rtx rrx amps ss = None <->
    Exists (fun row => length row <> shape_size s) (r_times rtx) \/
    Exists (fun row => length row <> shape_size s) (r_times rrx) \/
    tfm_for_view N V sc ns dt t0 fill (shape_size s) rtx rrx amps ss = None.
  Proof.
    destruct (times_width_ok (shape_size s) (r_times rtx)) eqn:Etx.
    - destruct (times_width_ok (shape_size s) (r_times rrx)) eqn:Erx.
      + pose proof (proj1 (times_width_ok_iff _ _) Etx) as Htx.
        pose proof (proj1 (times_width_ok_iff _ _) Erx) as Hrx.
        rewrite (tfm_for_view_nd_eq _ _ _ _ _ _ _ _ _ _ Htx Hrx).
        destruct (tfm_for_view N V sc ns dt t0 fill (shape_size s) rtx rrx amps ss) as [res|]; cbn [option_map].
        * split; [discriminate|]. intros [H|[H|H]]; [| |discriminate]; apply times_width_ok_false in H; congruence.
        * split; [intros _; right; now right|reflexivity].
      + apply times_width_ok_false in Erx. split; [intros _; right; now left|].
        intros _. apply tfm_for_view_nd_wrong_width. now right.
    - apply times_width_ok_false in Etx. split; [intros _; now left|].
      intros _. apply tfm_for_view_nd_wrong_width. now left.
  Qed.

  (* without amplitudes the core never raises: the widths decide alone *)
  Lemma tfm_for_view_nd_noamp_raises_iff sc ns dt t0 fill s rtx rrx ss :
    tfm_for_view_nd N V sc ns dt t0 fill s rtx rrx None ss = None <->
    Exists (fun row => length row <> shape_size s) (r_times rtx) \/
    Exists (fun row => length row <> shape_size s) (r_times rrx).
  Proof.
    rewrite tfm_for_view_nd_raises_iff. split; [|intros [H|H]; [now left|right; now left]].
    intros [H|[H|H]]; [now left|now right|].
    destruct (times_width_ok (shape_size s) (r_times rtx)) eqn:Etx;
      [|left; now apply times_width_ok_false].
    destruct (times_width_ok (shape_size s) (r_times rrx)) eqn:Erx;
      [|right; now apply times_width_ok_false].
    apply times_width_ok_iff in Etx. apply times_width_ok_iff in Erx.
    rewrite (tfm_for_view_map N V _ _ _ _ _ _ _ _ _ Etx Erx) in H. discriminate.
  Qed.

  (* tfm_for_view: ray times of shape (numelements, prod(grid.shape)) *)
  Lemma tfm_for_view_nd_get sc ns dt t0 fill s rtx rrx ss :
    Forall (fun row => length row = shape_size s) (r_times rtx) ->
    Forall (fun row => length row = shape_size s) (r_times rrx) ->
    exists img, tfm_for_view_nd N V sc ns dt t0 fill s rtx rrx None ss = Some img /\
      nd_okb s img = true /\
      forall idx k, ravel s idx = Some k ->
        nd_get (length s) img idx = Some (view_pixel N V sc ns dt t0 fill (r_times rtx) (r_times rrx) ss k).
  Proof.
    intros Htx Hrx. rewrite (tfm_for_view_nd_eq _ _ _ _ _ _ _ _ _ _ Htx Hrx).
    rewrite (tfm_for_view_map N V _ _ _ _ _ _ _ _ _ Htx Hrx). cbn [option_map].
    eexists. split; [reflexivity|].
    assert (Hl : length (map (view_pixel N V sc ns dt t0 fill (r_times rtx) (r_times rrx) ss) (seq 0 (shape_size s)))
                 = shape_size s) by now rewrite map_length, seq_length.
    split; [now apply reshape_ok|]. intros idx k Hr.
    rewrite (get_reshape _ _ _ idx k Hl Hr), nth_error_map, (nth_error_seq 0 _ k (ravel_lt _ _ _ Hr)). reflexivity.
  Qed.

  (* a core result of a wrong length: the reshape raises (kept from before the repair; now the width
     check answers None first, and when it passes the core result has length prod(s) by
     tfm_for_view_length, so the two hypotheses meet only where the width check already fails) *)
  Lemma tfm_for_view_nd_wrong_size sc ns dt t0 fill s rtx rrx amps ss res :
    tfm_for_view N V sc ns dt t0 fill (shape_size s) rtx rrx amps ss = Some res ->
    length res <> shape_size s ->
    tfm_for_view_nd N V sc ns dt t0 fill s rtx rrx amps ss = None.
  Proof.
    intros H Hl. unfold tfm_for_view_nd.
    destruct (times_width_ok _ (r_times rtx) && times_width_ok _ (r_times rrx)); [|reflexivity].
    rewrite H. unfold np_reshape.
    destruct (Nat.eqb_spec (length res) (shape_size s)); [contradiction|reflexivity].
  Qed.

  (* ---- maximum_intensity_in_rectbox on the N-d objects = on their C-order lists ---- *)
  Lemma maximum_intensity_nd_flat (isnan : T -> bool) (dabs : D -> T) d (grid : ndt pt d) (res : ndt D d) b :
    maximum_intensity_in_rectbox_nd N isnan dabs d grid res b
    = maximum_intensity_in_rectbox N isnan dabs (nd_flatten d grid) (nd_flatten d res) b.
  Proof.
    unfold maximum_intensity_in_rectbox_nd, maximum_intensity_in_rectbox, points_in_rectbox.
    now rewrite nd_map_flatten.
  Qed.
End ND.
