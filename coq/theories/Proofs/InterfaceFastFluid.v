(* Proofs/InterfaceFastFluid.v — the interface model (C04) in the regimes that only
   exist for a FAST fluid (v_f > v_l, e.g. water against a soft rubber), and the
   complex angle dtype when every angle is real.

   Regime table of the three functions (v_t < v_l; s_w = v_w / v_inc * sin alpha is the
   Snell sine of wave w; w evanescent <=> s_w > 1):
     fluid incidence   all real | L evanescent | L and T evanescent
                       (the first is the ONLY regime when v_l <= v_f: part 3)
     L incidence       all real | fluid evanescent (needs v_l < v_f: part 2, NEW)
     T incidence       all real | L evanescent | L and fluid evanescent
                       | fluid evanescent, L real (needs v_l < v_f: part 1, NEW)
   The others are in InterfaceProofs.v / InterfaceComplex.v.

   Convention (the one of InterfaceComplex.v, numpy's branch): for s > 1,
   arcsin(s + 0i) = pi/2 + i acosh s, so sin = s stays real and cos = -i sinh(acosh s)
   is purely imaginary, `cim b` = (0, b) with b <> 0 (post_critical_trig).  The flux
   weight of a wave is Re(cos): an evanescent wave has weight 0 and drops out of the
   balance, exactly as in the existing beyond-critical lemmas.

   With cos_f = i b_f the last term of N, z_f cos a_l / (z_l cos_f), is -i Z, Z real
   and non-zero, so N = A + B - i Z never vanishes
   (A = (v_t/v_l)^2 sin 2a_l sin 2a_t, B = cos^2 2a_t), and
     T incidence:  R_TT = (A - B + iZ)/N,  R_TL = -sin 4a_t / N
     L incidence:  R_LL = (A - B - iZ)/N,  R_LT = 2 (v_t/v_l)^2 sin 2a_l cos 2a_t / N
   so |R_same|^2 + |R_conv|^2 w = 1 <=> |numerator of R_conv|^2 w = 4AB, which is
   Snell's law between the L and the T wave (no Pythagorean identity is needed). *)
Set Warnings "-notation-overridden".
From Coq Require Import Reals Field Lra Nsatz Psatz ZArith.
From Flocq Require Import Core.Raux.
From Arim Require Import Base.Num Base.NumR Model.Interface Proofs.InterfaceProofs Proofs.InterfaceComplex.
Local Open Scope R_scope.
Local Notation C := (NumC NumR).

(* ========================================================================= *)
(* Parts 1 and 2: evanescent fluid wave, L and T real                          *)

(* a real number divided by a purely imaginary one *)
Lemma div_ri : forall a b, b <> 0 -> ndiv C (a, 0) (cim b) = cim (- (a / b)).
Proof.
  intros a b Hb. cbn [NumC ndiv]. unfold cdiv, cim. cbn [fst snd NumR neqb n0 ndiv nadd nmul nsub].
  rewrite Req_bool_false by exact Hb. cbn [fst snd]. apply pair_eq; field; exact Hb.
Qed.

(* (|S|^2 w + |A - B + iZ|^2) / |A + B - iZ|^2 = 1 as soon as S^2 w = 4 A B *)
Lemma balance_core : forall S4 A B Z w, Z <> 0 -> S4 * S4 * w = 4 * A * B ->
  (S4 * S4 + 0 * 0) / ((A + B + 0) * (A + B + 0) + (0 + - Z) * (0 + - Z)) * w
  + ((A - B - 0) * (A - B - 0) + (0 - - Z) * (0 - - Z)) / ((A + B + 0) * (A + B + 0) + (0 + - Z) * (0 + - Z)) = 1.
Proof.
  intros S4 A B Z w HZ E.
  assert (ZZ : 0 < Z * Z) by (destruct (Rtotal_order Z 0) as [H|[H|H]]; [nra | contradiction | nra]).
  assert (D : (A + B + 0) * (A + B + 0) + (0 + - Z) * (0 + - Z) <> 0).
  { pose proof (Rle_0_sqr (A + B + 0)) as Q. unfold Rsqr in Q.
    replace ((0 + - Z) * (0 + - Z)) with (Z * Z) by ring. lra. }
  transitivity ((S4 * S4 * w + ((A - B - 0) * (A - B - 0) + (0 - - Z) * (0 - - Z)))
                / ((A + B + 0) * (A + B + 0) + (0 + - Z) * (0 + - Z))).
  - field. intro H; apply D; etransitivity; [|exact H]; ring.
  - rewrite E. field. intro H; apply D; etransitivity; [|exact H]; ring.
Qed.

(* Part 1.  T incidence, fluid wave evanescent (cos_f = i bf), reflected L and T waves
   real: total reflection into L and T,
   |R_TL|^2 (z_t cos a_l)/(z_l cos a_t) + |R_TT|^2 = 1   (the transmitted term has
   weight Re(cos_f) = 0).  sf is arbitrary: the coefficients do not read it. *)
Lemma solid_t_evanescent_fluid_sc : forall sf bf sl cl st ct rho_f rho_s v_f v_l v_t,
  0 < rho_f -> 0 < rho_s -> 0 < v_f -> 0 < v_l -> 0 < v_t ->
  bf <> 0 -> 0 < cl -> 0 < ct ->
  sl * v_t = st * v_l ->
  let r := solid_t_fluid_sc C (sf, 0) (cim bf) (sl, 0) (cl, 0) (st, 0) (ct, 0)
                         (rho_f, 0) (rho_s, 0) (v_f, 0) (v_l, 0) (v_t, 0) in
  cnorm2 NumR (fst3 r) * ((rho_s * v_t * cl) / (rho_s * v_l * ct)) + cnorm2 NumR (snd3 r) = 1.
Proof.
  intros sf bf sl cl st ct rho_f rho_s v_f v_l v_t Hrf Hrs Hvf Hvl Hvt Hbf Hcl Hct Hsn. cbv zeta.
  unfold solid_t_fluid_sc, solid_t_fluid_k, fluid_solid_n_k, fst3, snd3, sin4, sin2, cos2. cbn [fst snd].
  rewrite !ofZ_C. cnorm. rewrite !div_ri by exact Hbf. cnorm. unfold cim. rewrite ?add_pp, ?sub_pp.
  assert (HZ : rho_f * v_f / (rho_s * v_l) * cl / bf <> 0).
  { unfold Rdiv. repeat apply Rmult_integral_contrapositive_currified; try lra;
    apply Rinv_neq_0_compat; try assumption. apply Rmult_integral_contrapositive_currified; lra. }
  assert (HY : 0 + - (rho_f * v_f / (rho_s * v_l) * cl / bf) <> 0) by lra.
  rewrite !norm2_quot by exact HY.
  apply balance_core; [exact HZ|].
  assert (Sl : sl = st * v_l / v_t) by (rewrite <- Hsn; field; lra).
  rewrite Sl. field. repeat split; lra.
Qed.

(* Part 2.  L incidence, fluid wave evanescent, reflected L and T waves real:
   |R_LL|^2 + |R_LT|^2 (z_l cos a_t)/(z_t cos a_l) = 1 *)
Lemma balance_core_l : forall S4 A B Z w, Z <> 0 -> S4 * S4 * w = 4 * A * B ->
  ((A - B + 0) * (A - B + 0) + (0 + - Z) * (0 + - Z)) / ((A + B + 0) * (A + B + 0) + (0 + - Z) * (0 + - Z))
  + (S4 * S4 + 0 * 0) / ((A + B + 0) * (A + B + 0) + (0 + - Z) * (0 + - Z)) * w = 1.
Proof.
  intros S4 A B Z w HZ E.
  assert (ZZ : 0 < Z * Z) by (destruct (Rtotal_order Z 0) as [H|[H|H]]; [nra | contradiction | nra]).
  assert (D : (A + B + 0) * (A + B + 0) + (0 + - Z) * (0 + - Z) <> 0).
  { pose proof (Rle_0_sqr (A + B + 0)) as Q. unfold Rsqr in Q.
    replace ((0 + - Z) * (0 + - Z)) with (Z * Z) by ring. lra. }
  transitivity ((S4 * S4 * w + ((A - B + 0) * (A - B + 0) + (0 + - Z) * (0 + - Z)))
                / ((A + B + 0) * (A + B + 0) + (0 + - Z) * (0 + - Z))).
  - field. intro H; apply D; etransitivity; [|exact H]; ring.
  - rewrite E. field. intro H; apply D; etransitivity; [|exact H]; ring.
Qed.

Lemma solid_l_evanescent_fluid_sc : forall sf bf sl cl st ct rho_f rho_s v_f v_l v_t,
  0 < rho_f -> 0 < rho_s -> 0 < v_f -> 0 < v_l -> 0 < v_t ->
  bf <> 0 -> 0 < cl -> 0 < ct ->
  sl * v_t = st * v_l ->
  let r := solid_l_fluid_sc C (sf, 0) (cim bf) (sl, 0) (cl, 0) (st, 0) (ct, 0)
                         (rho_f, 0) (rho_s, 0) (v_f, 0) (v_l, 0) (v_t, 0) in
  cnorm2 NumR (fst3 r) + cnorm2 NumR (snd3 r) * ((rho_s * v_l * ct) / (rho_s * v_t * cl)) = 1.
Proof.
  intros sf bf sl cl st ct rho_f rho_s v_f v_l v_t Hrf Hrs Hvf Hvl Hvt Hbf Hcl Hct Hsn. cbv zeta.
  unfold solid_l_fluid_sc, solid_l_fluid_k, fluid_solid_n_k, fst3, snd3, sin2, cos2. cbn [fst snd].
  rewrite !ofZ_C. cnorm. rewrite !div_ri by exact Hbf. cnorm. unfold cim. rewrite ?add_pp, ?sub_pp.
  assert (HZ : rho_f * v_f / (rho_s * v_l) * cl / bf <> 0).
  { unfold Rdiv. repeat apply Rmult_integral_contrapositive_currified; try lra;
    apply Rinv_neq_0_compat; try assumption. apply Rmult_integral_contrapositive_currified; lra. }
  assert (HY : 0 + - (rho_f * v_f / (rho_s * v_l) * cl / bf) <> 0) by lra.
  rewrite !norm2_quot by exact HY.
  apply balance_core_l; [exact HZ|].
  assert (St : st = sl * v_t / v_l) by (rewrite Hsn; field; lra).
  rewrite St. field. repeat split; lra.
Qed.

(* ---- the functions as called: real incidence angle converted to complex
   (force_complex=True), the other two angles by snell_angles on the fly.
   T incidence: asin(v_t/v_f) < alpha < asin(v_t/v_l);  L incidence: alpha > asin(v_l/v_f).
   Both ranges are empty unless v_l < v_f (lemmas evanescent_fluid_needs_fast_fluid_t and _l). *)
Lemma solid_t_evanescent_fluid_auto : forall alpha rho_f rho_s v_f v_l v_t,
  0 < rho_f -> 0 < rho_s -> 0 < v_f -> 0 < v_l -> 0 < v_t ->
  0 <= alpha < PI / 2 -> v_l / v_t * sin alpha < 1 -> 1 < v_f / v_t * sin alpha ->
  let a_l := snell_angles NumR alpha v_t v_l in
  let r := solid_t_fluid_auto C (alpha, 0) (cre NumR rho_f) (cre NumR rho_s)
                       (cre NumR v_f) (cre NumR v_l) (cre NumR v_t) in
  cnorm2 NumR (fst3 r) * ((rho_s * v_t * cos a_l) / (rho_s * v_l * cos alpha)) + cnorm2 NumR (snd3 r) = 1.
Proof.
  intros alpha rho_f rho_s v_f v_l v_t Hrf Hrs Hvf Hvl Hvt Hal HL HF. cbv zeta.
  unfold solid_t_fluid_auto. rewrite ang_sc_solid_t_C.
  destruct (post_critical_trig alpha v_t v_f) as (bf & Hbf & SF & CF); [lra | exact HF |].
  assert (S0 : 0 <= sin alpha) by (apply sin_ge_0; [lra| pose proof PI_RGT_0; lra]).
  assert (X0 : 0 <= v_l / v_t * sin alpha).
  { apply Rmult_le_pos; [|exact S0]. apply Rlt_le, Rdiv_lt_0_compat; lra. }
  rewrite (snell_angles_C_pre alpha v_t v_l) by lra.
  destruct (snell_real_facts alpha v_t v_l Hal Hvt Hvl HL) as (SB & SB0 & CB & _).
  rewrite SF, CF, !csin_real, !ccos_real. unfold cre. cbn [NumR n0].
  apply solid_t_evanescent_fluid_sc; try lra.
  apply cos_gt_0; lra.
Qed.

Lemma solid_l_evanescent_fluid_auto : forall alpha rho_f rho_s v_f v_l v_t,
  0 < rho_f -> 0 < rho_s -> 0 < v_f -> 0 < v_l -> 0 < v_t ->
  0 <= alpha < PI / 2 -> v_t / v_l * sin alpha < 1 -> 1 < v_f / v_l * sin alpha ->
  let a_t := snell_angles NumR alpha v_l v_t in
  let r := solid_l_fluid_auto C (alpha, 0) (cre NumR rho_f) (cre NumR rho_s)
                       (cre NumR v_f) (cre NumR v_l) (cre NumR v_t) in
  cnorm2 NumR (fst3 r) + cnorm2 NumR (snd3 r) * ((rho_s * v_l * cos a_t) / (rho_s * v_t * cos alpha)) = 1.
Proof.
  intros alpha rho_f rho_s v_f v_l v_t Hrf Hrs Hvf Hvl Hvt Hal HT HF. cbv zeta.
  unfold solid_l_fluid_auto. rewrite ang_sc_solid_l_C.
  destruct (post_critical_trig alpha v_l v_f) as (bf & Hbf & SF & CF); [lra | exact HF |].
  assert (S0 : 0 <= sin alpha) by (apply sin_ge_0; [lra| pose proof PI_RGT_0; lra]).
  assert (X0 : 0 <= v_t / v_l * sin alpha).
  { apply Rmult_le_pos; [|exact S0]. apply Rlt_le, Rdiv_lt_0_compat; lra. }
  rewrite (snell_angles_C_pre alpha v_l v_t) by lra.
  destruct (snell_real_facts alpha v_l v_t Hal Hvl Hvt HT) as (SB & SB0 & CB & _).
  rewrite SF, CF, !csin_real, !ccos_real. unfold cre. cbn [NumR n0].
  apply solid_l_evanescent_fluid_sc; try lra.
  apply cos_gt_0; lra.
Qed.

(* ========================================================================= *)
(* Part 3: fluid incidence with a fluid at least as fast as both solid waves:
   no critical angle, every incidence angle of [0, pi/2) is sub-critical.
   (On (sin, cos), energy_fluid_solid_sc has no ordering hypothesis at all.) *)
Lemma sin_lt_1_inc : forall alpha, 0 <= alpha < PI / 2 -> 0 <= sin alpha < 1.
Proof.
  intros alpha Ha. pose proof PI_RGT_0 as P. split.
  - apply sin_ge_0; lra.
  - rewrite <- sin_PI2. apply sin_increasing_1; lra.
Qed.

Lemma ratio_sin_lt_1 : forall alpha a b, 0 < a -> 0 < b -> b <= a -> 0 <= alpha < PI / 2 ->
  b / a * sin alpha < 1.
Proof.
  intros alpha a b Ha Hb Hba Hal. destruct (sin_lt_1_inc alpha Hal) as [S0 S1].
  assert (Q : 0 < b / a <= 1).
  { split; [apply Rdiv_lt_0_compat; lra|]. apply Rmult_le_reg_r with a; [lra|].
    unfold Rdiv. rewrite Rmult_assoc, Rinv_l by lra. lra. }
  nra.
Qed.

Lemma energy_fluid_solid_fast_auto : forall alpha rho_f rho_s v_f v_l v_t,
  0 < rho_f -> 0 < rho_s -> 0 < v_f -> 0 < v_l -> 0 < v_t ->
  v_l <= v_f -> v_t <= v_f -> 0 <= alpha < PI / 2 ->
  let a_l := snell_angles NumR alpha v_f v_l in
  let a_t := snell_angles NumR alpha v_f v_t in
  let r := fluid_solid_auto NumR alpha rho_f rho_s v_f v_l v_t in
  fst3 r * fst3 r
  + snd3 r * snd3 r * ((rho_f * v_f * cos a_l) / (rho_s * v_l * cos alpha))
  + thd3 r * thd3 r * ((rho_f * v_f * cos a_t) / (rho_s * v_t * cos alpha)) = 1.
Proof.
  intros alpha rho_f rho_s v_f v_l v_t Hrf Hrs Hvf Hvl Hvt Hlf Htf Hal.
  apply energy_fluid_solid_auto; try assumption; apply ratio_sin_lt_1; assumption.
Qed.

(* the regimes with an evanescent fluid wave and a propagating L wave exist only
   for a fluid faster than the L wave *)
Lemma evanescent_fluid_needs_fast_fluid_t : forall alpha v_f v_l v_t,
  0 < v_f -> 0 < v_l -> 0 < v_t -> 0 <= alpha < PI / 2 ->
  v_l / v_t * sin alpha < 1 -> 1 < v_f / v_t * sin alpha -> v_l < v_f.
Proof.
  intros alpha v_f v_l v_t Hvf Hvl Hvt Hal HL HF. destruct (sin_lt_1_inc alpha Hal) as [S0 S1].
  assert (A : v_l * sin alpha < v_t).
  { apply Rmult_lt_reg_r with (/ v_t); [apply Rinv_0_lt_compat; lra|].
    rewrite Rinv_r by lra. unfold Rdiv in HL. lra. }
  assert (B : v_t < v_f * sin alpha).
  { apply Rmult_lt_reg_r with (/ v_t); [apply Rinv_0_lt_compat; lra|].
    rewrite Rinv_r by lra. unfold Rdiv in HF. lra. }
  nra.
Qed.

Lemma evanescent_fluid_needs_fast_fluid_l : forall alpha v_f v_l,
  0 < v_f -> 0 < v_l -> 0 <= alpha < PI / 2 -> 1 < v_f / v_l * sin alpha -> v_l < v_f.
Proof.
  intros alpha v_f v_l Hvf Hvl Hal HF. destruct (sin_lt_1_inc alpha Hal) as [S0 S1].
  assert (B : v_l < v_f * sin alpha).
  { apply Rmult_lt_reg_r with (/ v_l); [apply Rinv_0_lt_compat; lra|].
    rewrite Rinv_r by lra. unfold Rdiv in HF. lra. }
  nra.
Qed.

(* ========================================================================= *)
(* Part 4: complex dtype, every angle real (Snell sines in [-1, 1]): the complex
   coefficients are the real ones with imaginary part 0 -- this carries every
   sub-critical theorem over the reals to the default force_complex=True calls. *)
Definition cre3 (r : R * R * R) : (R * R) * (R * R) * (R * R) :=
  ((fst3 r, 0), (snd3 r, 0), (thd3 r, 0)).

Lemma cre3_proj : forall r,
  fst3 (cre3 r) = (fst3 r, 0) /\ snd3 (cre3 r) = (snd3 r, 0) /\ thd3 (cre3 r) = (thd3 r, 0).
Proof. intro r. repeat split. Qed.

Lemma fluid_solid_sc_C_real : forall sf cf sl cl st ct rho_f rho_s v_f v_l v_t,
  fluid_solid_sc C (sf, 0) (cf, 0) (sl, 0) (cl, 0) (st, 0) (ct, 0) (rho_f, 0) (rho_s, 0) (v_f, 0) (v_l, 0) (v_t, 0)
  = cre3 (fluid_solid_sc NumR sf cf sl cl st ct rho_f rho_s v_f v_l v_t).
Proof.
  intros. unfold cre3, fluid_solid_sc, fluid_solid_k, fluid_solid_n_k, fst3, snd3, thd3, sin2, cos2. cbn [fst snd].
  rewrite !ofZ_C. cnorm. reflexivity.
Qed.

Lemma solid_l_fluid_sc_C_real : forall sf cf sl cl st ct rho_f rho_s v_f v_l v_t,
  solid_l_fluid_sc C (sf, 0) (cf, 0) (sl, 0) (cl, 0) (st, 0) (ct, 0) (rho_f, 0) (rho_s, 0) (v_f, 0) (v_l, 0) (v_t, 0)
  = cre3 (solid_l_fluid_sc NumR sf cf sl cl st ct rho_f rho_s v_f v_l v_t).
Proof.
  intros. unfold cre3, solid_l_fluid_sc, solid_l_fluid_k, fluid_solid_n_k, fst3, snd3, thd3, sin2, cos2. cbn [fst snd].
  rewrite !ofZ_C. cnorm. reflexivity.
Qed.

Lemma solid_t_fluid_sc_C_real : forall sf cf sl cl st ct rho_f rho_s v_f v_l v_t,
  solid_t_fluid_sc C (sf, 0) (cf, 0) (sl, 0) (cl, 0) (st, 0) (ct, 0) (rho_f, 0) (rho_s, 0) (v_f, 0) (v_l, 0) (v_t, 0)
  = cre3 (solid_t_fluid_sc NumR sf cf sl cl st ct rho_f rho_s v_f v_l v_t).
Proof.
  intros. unfold cre3, solid_t_fluid_sc, solid_t_fluid_k, fluid_solid_n_k, fst3, snd3, thd3, sin4, sin2, cos2. cbn [fst snd].
  rewrite !ofZ_C. cnorm. reflexivity.
Qed.

Lemma fluid_solid_auto_C_real : forall alpha rho_f rho_s v_f v_l v_t,
  v_f <> 0 -> -1 <= v_l / v_f * sin alpha <= 1 -> -1 <= v_t / v_f * sin alpha <= 1 ->
  fluid_solid_auto C (alpha, 0) (cre NumR rho_f) (cre NumR rho_s) (cre NumR v_f) (cre NumR v_l) (cre NumR v_t)
  = cre3 (fluid_solid_auto NumR alpha rho_f rho_s v_f v_l v_t).
Proof.
  intros alpha rho_f rho_s v_f v_l v_t Hvf HL HT.
  unfold fluid_solid_auto. rewrite ang_sc_fluid_solid_C, ang_sc_fluid_solid.
  rewrite !snell_angles_C_pre by assumption. rewrite !csin_real, !ccos_real.
  unfold cre. cbn [NumR n0]. apply fluid_solid_sc_C_real.
Qed.

Lemma solid_l_fluid_auto_C_real : forall alpha rho_f rho_s v_f v_l v_t,
  v_l <> 0 -> -1 <= v_f / v_l * sin alpha <= 1 -> -1 <= v_t / v_l * sin alpha <= 1 ->
  solid_l_fluid_auto C (alpha, 0) (cre NumR rho_f) (cre NumR rho_s) (cre NumR v_f) (cre NumR v_l) (cre NumR v_t)
  = cre3 (solid_l_fluid_auto NumR alpha rho_f rho_s v_f v_l v_t).
Proof.
  intros alpha rho_f rho_s v_f v_l v_t Hvl HF HT.
  unfold solid_l_fluid_auto. rewrite ang_sc_solid_l_C, ang_sc_solid_l.
  rewrite !snell_angles_C_pre by assumption. rewrite !csin_real, !ccos_real.
  unfold cre. cbn [NumR n0]. apply solid_l_fluid_sc_C_real.
Qed.

Lemma solid_t_fluid_auto_C_real : forall alpha rho_f rho_s v_f v_l v_t,
  v_t <> 0 -> -1 <= v_f / v_t * sin alpha <= 1 -> -1 <= v_l / v_t * sin alpha <= 1 ->
  solid_t_fluid_auto C (alpha, 0) (cre NumR rho_f) (cre NumR rho_s) (cre NumR v_f) (cre NumR v_l) (cre NumR v_t)
  = cre3 (solid_t_fluid_auto NumR alpha rho_f rho_s v_f v_l v_t).
Proof.
  intros alpha rho_f rho_s v_f v_l v_t Hvt HF HL.
  unfold solid_t_fluid_auto. rewrite ang_sc_solid_t_C, ang_sc_solid_t.
  rewrite !snell_angles_C_pre by assumption. rewrite !csin_real, !ccos_real.
  unfold cre. cbn [NumR n0]. apply solid_t_fluid_sc_C_real.
Qed.

(* so: fluid incidence, complex dtype, fluid at least as fast as both solid waves *)
Lemma cnorm2_re : forall x, cnorm2 NumR (x, 0) = x * x.
Proof. intro x. unfold cnorm2. cbn [fst snd NumR nadd nmul]. ring. Qed.

Lemma energy_fluid_solid_fast_auto_C : forall alpha rho_f rho_s v_f v_l v_t,
  0 < rho_f -> 0 < rho_s -> 0 < v_f -> 0 < v_l -> 0 < v_t ->
  v_l <= v_f -> v_t <= v_f -> 0 <= alpha < PI / 2 ->
  let a_l := snell_angles NumR alpha v_f v_l in
  let a_t := snell_angles NumR alpha v_f v_t in
  let r := fluid_solid_auto C (alpha, 0) (cre NumR rho_f) (cre NumR rho_s)
                       (cre NumR v_f) (cre NumR v_l) (cre NumR v_t) in
  cnorm2 NumR (fst3 r)
  + cnorm2 NumR (snd3 r) * ((rho_f * v_f * cos a_l) / (rho_s * v_l * cos alpha))
  + cnorm2 NumR (thd3 r) * ((rho_f * v_f * cos a_t) / (rho_s * v_t * cos alpha)) = 1.
Proof.
  intros alpha rho_f rho_s v_f v_l v_t Hrf Hrs Hvf Hvl Hvt Hlf Htf Hal. cbv zeta.
  destruct (sin_lt_1_inc alpha Hal) as [S0 S1].
  pose proof (ratio_sin_lt_1 alpha v_f v_l Hvf Hvl Hlf Hal) as HL.
  pose proof (ratio_sin_lt_1 alpha v_f v_t Hvf Hvt Htf Hal) as HT.
  assert (XL : 0 <= v_l / v_f * sin alpha).
  { apply Rmult_le_pos; [|exact S0]. apply Rlt_le, Rdiv_lt_0_compat; lra. }
  assert (XT : 0 <= v_t / v_f * sin alpha).
  { apply Rmult_le_pos; [|exact S0]. apply Rlt_le, Rdiv_lt_0_compat; lra. }
  rewrite fluid_solid_auto_C_real by lra.
  destruct (cre3_proj (fluid_solid_auto NumR alpha rho_f rho_s v_f v_l v_t)) as (P1 & P2 & P3).
  rewrite P1, P2, P3, !cnorm2_re.
  apply energy_fluid_solid_fast_auto; assumption.
Qed.
