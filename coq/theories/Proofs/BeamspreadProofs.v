(* Proofs/BeamspreadProofs.v — lemmas about Model/Beamspread.v (C06, C07). *)
From Coq Require Import List Reals Lra Lia ZArith.
From Arim Require Import Base.Num Base.NumR Model.Beamspread.
Import ListNotations.

(* ---- structure of the accumulation, valid for EVERY Num instance (no
   algebraic law used: also true of the float instances) ------------------- *)
Section Generic.
  Context {T : Type} (N : Num T).

  Definition run_step (st : T * T) (gr : T * T) : T * T :=
    let '(vd, G) := st in let '(g, r) := gr in
    let G' := nmul N G g in (nadd N vd (ndiv N r G'), G').

  Lemma gamma_prefix_app pre gs :
    gamma_prefix N (pre ++ gs) (length pre) = fold_left (fun g x => nmul N g x) pre (n1 N).
  Proof. unfold gamma_prefix. rewrite firstn_app, Nat.sub_diag, firstn_all. simpl. rewrite app_nil_r. reflexivity. Qed.

  Lemma vd_running_gen rest : forall pre gs vd,
    length rest <= length gs ->
    fold_left (fun vd kr => nadd N vd (ndiv N (snd kr) (gamma_prefix N (pre ++ gs) (fst kr))))
              (combine (seq (S (length pre)) (length rest)) rest) vd
    = fst (fold_left run_step (combine gs rest)
                     (vd, fold_left (fun g x => nmul N g x) pre (n1 N))).
  Proof.
    induction rest as [|r rest IH]; intros pre gs vd Hlen.
    - simpl. destruct gs; reflexivity.
    - destruct gs as [|g gs]; [simpl in Hlen; lia|].
      simpl length. cbn [seq combine fold_left fst snd].
      replace (pre ++ g :: gs) with ((pre ++ [g]) ++ gs) by (rewrite <- app_assoc; reflexivity).
      replace (S (length pre)) with (length (pre ++ [g])) by (rewrite app_length; simpl; lia).
      rewrite IH by (simpl in Hlen; lia).
      rewrite gamma_prefix_app. rewrite fold_left_app. simpl. reflexivity.
  Qed.

  Lemma vd_running r1 rest gl : length rest <= length gl ->
    virtual_distance N (r1 :: rest) gl = fst (fold_left run_step (combine gl rest) (r1, n1 N)).
  Proof. intros H. unfold virtual_distance. apply (vd_running_gen rest [] gl r1 H). Qed.
End Generic.

(* ---- real-number facts --------------------------------------------------- *)
Local Open Scope R_scope.
Definition all_pos (l : list R) : Prop := Forall (fun x => 0 < x) l.

Lemma run_tube_inv (gs rest : list R) : forall vd G,
  0 < vd -> 0 < G -> all_pos gs -> all_pos rest ->
  let st := fold_left (run_step NumR) (combine gs rest) (vd, G) in
  fold_left (tube_step NumR) (combine gs rest) (vd * G, 1 / sqrt vd)
  = (fst st * snd st, 1 / sqrt (fst st)) /\ 0 < fst st /\ 0 < snd st.
Proof.
  revert rest. induction gs as [|g gs IH]; intros rest vd G Hvd HG Hgs Hrest.
  - simpl. repeat split; auto.
  - destruct rest as [|r rest]; [simpl; repeat split; auto|].
    inversion Hgs as [|? ? Hg Hgs']; subst. inversion Hrest as [|? ? Hr Hrest']; subst.
    cbn [combine fold_left]. cbn [run_step NumR nmul nadd ndiv].
    assert (HG' : 0 < G * g) by (apply Rmult_lt_0_compat; assumption).
    assert (Hq : 0 < r / (G * g)) by (apply Rdiv_lt_0_compat; assumption).
    assert (Hvd' : 0 < vd + r / (G * g)) by lra.
    specialize (IH rest (vd + r / (G * g)) (G * g) Hvd' HG' Hgs' Hrest').
    cbn zeta in IH. destruct IH as (IH1 & IH2 & IH3).
    assert (Hstep : tube_step NumR (vd * G, 1 / sqrt vd) (g, r)
                    = ((vd + r / (G * g)) * (G * g), 1 / sqrt (vd + r / (G * g)))).
    { unfold tube_step. cbn [NumR nmul nadd ndiv nsqrt]. f_equal.
      - field. split; lra.
      - assert (Hden : 0 < vd * G * g + r) by (assert (0 < vd * G * g) by (repeat apply Rmult_lt_0_compat; assumption); lra).
        assert (E : vd * G * g / (vd * G * g + r) = vd / (vd + r / (G * g))).
        { assert (0 < vd * (G * g)) by (apply Rmult_lt_0_compat; assumption). field. repeat split; lra. }
        rewrite E. rewrite sqrt_div_alt by assumption.
        assert (0 < sqrt vd) by (apply sqrt_lt_R0; assumption).
        assert (0 < sqrt (vd + r / (G * g))) by (apply sqrt_lt_R0; assumption).
        field. lra. }
    rewrite Hstep. repeat split; assumption.
Qed.

Lemma tube_eq_code (r1 : R) (rest gl : list R) :
  0 < r1 -> all_pos rest -> all_pos gl -> (length rest <= length gl)%nat ->
  snd (tube NumR (r1 :: rest) gl) = 1 / sqrt (virtual_distance NumR (r1 :: rest) gl)
  /\ 0 < virtual_distance NumR (r1 :: rest) gl.
Proof.
  intros Hr1 Hrest Hgl Hlen. rewrite vd_running by assumption.
  pose proof (run_tube_inv gl rest r1 1 Hr1 Rlt_0_1 Hgl Hrest) as H. cbn zeta in H.
  destruct H as (H1 & H2 & H3). unfold tube. cbn [NumR n1 ndiv nsqrt].
  replace (r1, 1 / sqrt r1) with (r1 * 1, 1 / sqrt r1) by (f_equal; ring).
  rewrite H1. simpl. split; [reflexivity | assumption].
Qed.

(* gamma of the code = beta of the ray tube, under Snell's law *)
Lemma gamma_is_beta_R (c_in c_out theta cos_out : R) :
  0 < c_in -> 0 < c_out -> cos theta <> 0 ->
  (* Snell: sin(theta_out) = (c_out/c_in) sin(theta);  cos_out^2 = 1 - sin(theta_out)^2 *)
  cos_out * cos_out = 1 - (c_out / c_in * sin theta) * (c_out / c_in * sin theta) ->
  gamma_of NumR c_in c_out theta = beta_of NumR c_in c_out (cos theta) cos_out.
Proof.
  intros Hci Hco Hc Hsnell. unfold gamma_of, beta_of. cbn [NumR nsin ncos nmul nsub ndiv].
  rewrite Hsnell. field. repeat split; lra.
Qed.

Lemma virtual_distance_single (r : R) gl : virtual_distance NumR [r] gl = r.
Proof. reflexivity. Qed.

(* scaling all leg lengths by s scales the virtual distance by s *)
Lemma run_step_scale (s : R) gs rest : forall vd G,
  fst (fold_left (run_step NumR) (combine gs (map (Rmult s) rest)) (s * vd, G))
  = s * fst (fold_left (run_step NumR) (combine gs rest) (vd, G))
  /\ snd (fold_left (run_step NumR) (combine gs (map (Rmult s) rest)) (s * vd, G))
     = snd (fold_left (run_step NumR) (combine gs rest) (vd, G)).
Proof.
  revert rest. induction gs as [|g gs IH]; intros rest vd G.
  - simpl. split; reflexivity.
  - destruct rest as [|r rest]; [simpl; split; reflexivity|].
    cbn [map combine fold_left]. cbn [run_step NumR nmul nadd ndiv].
    replace (s * vd + s * r / (G * g)) with (s * (vd + r / (G * g))) by (unfold Rdiv; ring).
    apply IH.
Qed.

Lemma virtual_distance_scale (s : R) legs gl : (length legs <= S (length gl))%nat ->
  virtual_distance NumR (map (Rmult s) legs) gl = s * virtual_distance NumR legs gl.
Proof.
  destruct legs as [|r1 rest]; intros Hlen.
  - simpl. ring.
  - simpl in Hlen. cbn [map]. rewrite !vd_running by (rewrite ?map_length; lia).
    apply run_step_scale.
Qed.

Lemma beamspread_scale (s : R) vel legs thetas :
  0 < s -> (length legs <= S (length (gamma_list NumR vel thetas)))%nat ->
  0 < virtual_distance NumR legs (gamma_list NumR vel thetas) ->
  beamspread NumR vel (map (Rmult s) legs) thetas = / sqrt s * beamspread NumR vel legs thetas.
Proof.
  intros Hs Hlen Hvd. unfold beamspread. rewrite virtual_distance_scale by assumption.
  cbn [NumR n1 ndiv nsqrt]. rewrite sqrt_mult by lra.
  assert (0 < sqrt s) by (apply sqrt_lt_R0; assumption).
  assert (0 < sqrt (virtual_distance NumR legs (gamma_list NumR vel thetas))) by (apply sqrt_lt_R0; assumption).
  field. lra.
Qed.

Lemma beamspread_is_tube_R vel r1 rest thetas :
  0 < r1 -> all_pos rest -> all_pos (gamma_list NumR vel thetas) ->
  (length rest <= length (gamma_list NumR vel thetas))%nat ->
  beamspread NumR vel (r1 :: rest) thetas = snd (tube NumR (r1 :: rest) (gamma_list NumR vel thetas)).
Proof.
  intros H1 H2 H3 H4. destruct (tube_eq_code r1 rest _ H1 H2 H3 H4) as [E _].
  rewrite E. reflexivity.
Qed.

Lemma beamspread_single_R v r : beamspread NumR [v] [r] [] = 1 / sqrt r.
Proof. reflexivity. Qed.

(* the prefix product recomputed by the code for every k is the running product,
   in every Num instance (floats included) *)
Lemma gamma_prefix_S {T} (N : Num T) gl k : (k < length gl)%nat ->
  gamma_prefix N gl (S k) = nmul N (gamma_prefix N gl k) (nth k gl (n0 N)).
Proof.
  intros Hk. unfold gamma_prefix.
  rewrite <- (firstn_skipn k gl) at 1.
  assert (Hl : length (firstn k gl) = k) by (rewrite firstn_length; lia).
  destruct (skipn k gl) as [|x tl] eqn:Es.
  - exfalso. pose proof (f_equal (@length T) (firstn_skipn k gl)) as E.
    rewrite Es, app_nil_r, Hl in E. lia.
  - replace (S k) with (length (firstn k gl) + 1)%nat by lia.
    rewrite firstn_app_2. simpl firstn. rewrite fold_left_app. simpl.
    f_equal. pose proof (firstn_skipn k gl) as E. rewrite Es in E. rewrite <- E.
    rewrite app_nth2 by lia. rewrite Hl, Nat.sub_diag. reflexivity.
Qed.

(* with outgoing angles given by Snell's law, the ray-tube factors are the code's gammas *)
Lemma snell_betas_eq_gammas vel : forall thetas,
  all_pos vel -> Forall (fun th => cos th <> 0) thetas ->
  snell_betas NumR vel thetas = gamma_list NumR vel thetas.
Proof.
  induction vel as [|v0 vel IH]; intros thetas Hv Hc; [reflexivity|].
  destruct vel as [|v1 vel]; [reflexivity|]. destruct thetas as [|th thetas]; [reflexivity|].
  inversion Hv as [|? ? Hv0 Hv']; subst. inversion Hv' as [|? ? Hv1 _]; subst.
  inversion Hc as [|? ? Hc0 Hc']; subst.
  cbn [snell_betas gamma_list]. f_equal.
  - unfold gamma_of. cbn [NumR nsin ncos nmul nsub ndiv n1]. field. repeat split; lra.
  - apply IH; assumption.
Qed.

Lemma beamspread_is_snell_tube_R vel r1 rest thetas :
  all_pos vel -> Forall (fun th => cos th <> 0) thetas ->
  0 < r1 -> all_pos rest -> all_pos (gamma_list NumR vel thetas) ->
  (length rest <= length (gamma_list NumR vel thetas))%nat ->
  beamspread NumR vel (r1 :: rest) thetas = tube_amplitude NumR vel (r1 :: rest) thetas.
Proof.
  intros Hv Hc H1 H2 H3 H4. unfold tube_amplitude. rewrite snell_betas_eq_gammas by assumption.
  apply beamspread_is_tube_R; assumption.
Qed.

(* ---- C07: reverse beamspread = direct beamspread of the reversed path ------- *)
(* rthetas' are the incidence angles of the REVERSED path (in its own order); each is the
   Snell image of the forward incidence angle at the same interface:
   sin th' = (v_next / v_prev) sin th, with (v_next, v_prev) consecutive in rev vel *)
Fixpoint snell_images (rvel rthetas rthetas' : list R) : Prop :=
  match rvel, rthetas, rthetas' with
  | vn :: ((vp :: _) as rvel'), th :: ths, th' :: ths' =>
      0 < vn /\ 0 < vp /\ sin th' = vn / vp * sin th /\ cos th' <> 0 /\ snell_images rvel' ths ths'
  | _, [], [] => True
  | _ :: nil, _, _ => True
  | nil, _, _ => True
  | _, _, _ => False
  end.

Lemma rev_gamma_is_gamma_of_reversed vn vp th th' :
  0 < vn -> 0 < vp -> sin th' = vn / vp * sin th -> cos th' <> 0 ->
  rev_gamma_of NumR vn vp th = gamma_of NumR vn vp th'.
Proof.
  intros Hn Hp Hs Hc. unfold rev_gamma_of, gamma_of. cbn [NumR nsin ncos nmul nsub ndiv n1].
  set (nu := vn / vp). fold nu in Hs.
  assert (Hnu : 0 < nu) by (unfold nu; apply Rdiv_lt_0_compat; assumption).
  set (c := cos th). set (s := sin th) in *. set (c' := cos th') in *.
  assert (Hc2 : c' * c' = 1 - nu * nu * s * s).
  { pose proof (sin2_cos2 th') as H. unfold Rsqr in H. fold c' in H. rewrite Hs in H. lra. }
  assert (Hth : c * c = 1 - s * s).
  { pose proof (sin2_cos2 th) as H. unfold Rsqr in H. fold c s in H. lra. }
  assert (Hcc : c' * c' <> 0) by (intro E; apply Rmult_integral in E; tauto).
  rewrite Hs. rewrite <- Hc2.
  transitivity (nu * (c * c) / (c' * c')).
  - field. exact Hc.
  - replace (nu * nu - nu * s * (nu * s)) with (nu * nu * (c * c)) by (rewrite Hth; ring).
    field. split; [exact Hc | lra].
Qed.

Lemma rev_gamma_list_eq rvel : forall ths ths',
  snell_images rvel ths ths' -> length ths = length ths' ->
  rev_gamma_list NumR rvel ths = gamma_list NumR rvel ths'.
Proof.
  induction rvel as [|vn rvel IH]; intros ths ths' H Hl; [reflexivity|].
  destruct rvel as [|vp rvel]; [reflexivity|].
  destruct ths as [|th ths]; destruct ths' as [|th' ths']; try discriminate; [reflexivity|].
  cbn [snell_images] in H. destruct H as (Hn & Hp & Hs & Hc & Hrest).
  cbn [rev_gamma_list gamma_list]. f_equal.
  - apply rev_gamma_is_gamma_of_reversed; assumption.
  - apply IH; [exact Hrest | simpl in Hl; congruence].
Qed.

Lemma reverse_beamspread_eq vel legs thetas rthetas' :
  snell_images (rev vel) (rev thetas) rthetas' -> length thetas = length rthetas' ->
  reverse_beamspread NumR vel legs thetas = beamspread NumR (rev vel) (rev legs) rthetas'.
Proof.
  intros H Hl. unfold reverse_beamspread, beamspread.
  rewrite (rev_gamma_list_eq (rev vel) (rev thetas) rthetas') by (try assumption; rewrite rev_length; assumption).
  reflexivity.
Qed.

(* ---- attenuation is the same in both directions ------------------------------ *)
Definition att_term (ar : option R * R) : R := match fst ar with None => 0 | Some a => a * snd ar end.

Lemma att_fold (l : list (option R * R)) acc :
  fold_left (fun acc ar => match fst ar with None => acc | Some a => acc - a * snd ar end) l acc
  = acc - fold_right (fun ar s => att_term ar + s) 0 l.
Proof.
  revert acc. induction l as [|[o r] l IH]; intros acc; simpl; [ring|].
  rewrite IH. unfold att_term. simpl. destruct o; ring.
Qed.

Lemma sum_rev (l : list (option R * R)) :
  fold_right (fun ar s => att_term ar + s) 0 (rev l) = fold_right (fun ar s => att_term ar + s) 0 l.
Proof.
  induction l as [|x l IH]; [reflexivity|]. simpl. rewrite fold_right_app. simpl.
  assert (G : forall l0 c, fold_right (fun ar s => att_term ar + s) c l0 = fold_right (fun ar s => att_term ar + s) 0 l0 + c).
  { induction l0 as [|y l0 IHl]; intros c; simpl; [ring|]. rewrite IHl. ring. }
  rewrite G, IH. ring.
Qed.

Lemma combine_app_eq {A B} (l1 l1' : list A) (l2 l2' : list B) : length l1 = length l2 ->
  combine (l1 ++ l1') (l2 ++ l2') = combine l1 l2 ++ combine l1' l2'.
Proof.
  revert l2. induction l1 as [|a l1 IH]; intros [|b l2] H; simpl in *; try discriminate; [reflexivity|].
  rewrite IH by congruence. reflexivity.
Qed.

Lemma combine_rev_eq {A B} (l1 : list A) : forall (l2 : list B), length l1 = length l2 ->
  combine (rev l1) (rev l2) = rev (combine l1 l2).
Proof.
  induction l1 as [|a l1 IH]; intros [|b l2] H; simpl in *; try discriminate; [reflexivity|].
  rewrite combine_app_eq by (rewrite !rev_length; congruence).
  rewrite IH by congruence. reflexivity.
Qed.

Lemma attenuation_reverse atts legs : length atts = length legs ->
  attenuation NumR (rev atts) (rev legs) = attenuation NumR atts legs.
Proof.
  intros Hl. unfold attenuation. cbn [NumR nexp nsub nmul n0]. f_equal.
  rewrite !att_fold. f_equal.
  rewrite combine_rev_eq by assumption. apply sum_rev.
Qed.
