(* Proofs/ConfigProofs.v — lemmas about Model/Config.v (C20). Axiom-free. *)
From Coq Require Import List String Ascii Bool ZArith Arith Lia Permutation Sorting.Sorted.
From Arim Require Import Model.Config.
Import ListNotations.
Local Open Scope list_scope.

(* ------------------------------------------------------------------ *)
(* induction principle for the nested type                             *)
(* ------------------------------------------------------------------ *)
Section CfgInd.
  Variable L : Type.
  Variable P : cfg L -> Prop.
  Hypothesis HL : forall v, P (Leaf v).
  Hypothesis HM : forall m, Forall (fun kv => P (snd kv)) m -> P (Map m).
  Fixpoint cfg_ind' (c : cfg L) : P c :=
    match c with
    | Leaf v => HL v
    | Map m => HM m ((fix go (m : items (cfg L)) : Forall (fun kv => P (snd kv)) m :=
                        match m with
                        | [] => Forall_nil _
                        | kv :: m' => Forall_cons kv (cfg_ind' (snd kv)) (go m')
                        end) m)
    end.
End CfgInd.

(* ------------------------------------------------------------------ *)
(* lookup / set                                                        *)
(* ------------------------------------------------------------------ *)
Section Assoc.
  Variable V : Type.
  Implicit Types (m : items V) (k : string) (v : V).

  Lemma lookup_set_eq : forall m k v, lookup k (set k v m) = Some v.
  Proof.
    induction m as [|[k' v'] m IH]; intros k v; cbn.
    - now rewrite String.eqb_refl.
    - destruct (String.eqb k k') eqn:E; cbn; rewrite E; [reflexivity | apply IH].
  Qed.

  Lemma lookup_set_neq : forall m k k' v, k <> k' -> lookup k' (set k v m) = lookup k' m.
  Proof.
    induction m as [|[k0 v0] m IH]; intros k k' v Hne; cbn.
    - destruct (String.eqb k' k) eqn:E; [apply String.eqb_eq in E; congruence | reflexivity].
    - destruct (String.eqb k k0) eqn:E; cbn.
      + apply String.eqb_eq in E; subst k0.
        destruct (String.eqb k' k) eqn:E'; [apply String.eqb_eq in E'; congruence | reflexivity].
      + destruct (String.eqb k' k0); [reflexivity | now apply IH].
  Qed.

  Lemma lookup_None_notin : forall m k, lookup k m = None <-> ~ In k (keys m).
  Proof.
    induction m as [|[k0 v0] m IH]; intros k; cbn; [tauto|].
    destruct (String.eqb k k0) eqn:E.
    - apply String.eqb_eq in E; subst. split; [discriminate | intros H; exfalso; apply H; now left].
    - apply String.eqb_neq in E. rewrite IH. split; [intros H [H1|H1]; [congruence|tauto] | tauto].
  Qed.

  Lemma lookup_In : forall m k v, lookup k m = Some v -> In (k, v) m.
  Proof.
    induction m as [|[k0 v0] m IH]; intros k v; cbn; [discriminate|].
    destruct (String.eqb k k0) eqn:E.
    - apply String.eqb_eq in E; subst. intros [= ->]. now left.
    - intros H. right. now apply IH.
  Qed.

  Lemma In_lookup : forall m k v, NoDup (keys m) -> In (k, v) m -> lookup k m = Some v.
  Proof.
    induction m as [|[k0 v0] m IH]; intros k v Hnd Hin; cbn in *; [tauto|].
    inversion Hnd as [|? ? Hn Hnd']; subst.
    destruct Hin as [[= -> ->]|Hin].
    - now rewrite String.eqb_refl.
    - destruct (String.eqb k k0) eqn:E.
      + apply String.eqb_eq in E; subst. exfalso. apply Hn.
        change k0 with (fst (k0, v)). now apply in_map.
      + now apply IH.
  Qed.

  Lemma set_same : forall m k v, lookup k m = Some v -> set k v m = m.
  Proof.
    induction m as [|[k0 v0] m IH]; intros k v; cbn; [discriminate|].
    destruct (String.eqb k k0) eqn:E.
    - intros [= ->]. reflexivity.
    - intros H. f_equal. now apply IH.
  Qed.

  Lemma keys_set : forall m k v,
    keys (set k v m) = if lookup k m then keys m else keys m ++ [k].
  Proof.
    induction m as [|[k0 v0] m IH]; intros k v; cbn; [reflexivity|].
    destruct (String.eqb k k0) eqn:E; cbn; [reflexivity|].
    unfold keys in *. rewrite IH. now destruct (lookup k m).
  Qed.

  Lemma NoDup_keys_set : forall m k v, NoDup (keys m) -> NoDup (keys (set k v m)).
  Proof.
    intros m k v H. rewrite keys_set. destruct (lookup k m) eqn:E; [exact H|].
    apply lookup_None_notin in E.
    apply NoDup_rev in H. rewrite <- (rev_involutive (keys m ++ [k])).
    apply NoDup_rev. rewrite rev_app_distr. cbn. constructor; [|exact H].
    now rewrite <- in_rev.
  Qed.

  Lemma Forall_set : forall (P : V -> Prop) m k v,
    Forall (fun kv => P (snd kv)) m -> P v -> Forall (fun kv => P (snd kv)) (set k v m).
  Proof.
    intros P. induction m as [|[k0 v0] m IH]; intros k v Hm Hv; cbn.
    - constructor; [exact Hv | constructor].
    - inversion Hm as [|? ? H0 Hm']; subst.
      destruct (String.eqb k k0); constructor; cbn; auto.
  Qed.

  Lemma lookup_Forall : forall (P : V -> Prop) m k v,
    Forall (fun kv => P (snd kv)) m -> lookup k m = Some v -> P v.
  Proof.
    intros P m k v Hm Hl. apply lookup_In in Hl.
    rewrite Forall_forall in Hm. exact (Hm _ Hl).
  Qed.
End Assoc.

Arguments lookup_set_eq {V}. Arguments lookup_set_neq {V}. Arguments lookup_None_notin {V}.
Arguments lookup_In {V}. Arguments In_lookup {V}. Arguments set_same {V}. Arguments keys_set {V}.
Arguments NoDup_keys_set {V}. Arguments Forall_set {V}. Arguments lookup_Forall {V}.

(* ------------------------------------------------------------------ *)
(* the merge loop, for any value-merging function mv                   *)
(* ------------------------------------------------------------------ *)
Section Fold.
  Variable V : Type.
  Variable mv : V -> V -> V.
  Implicit Types (bm tm : items V).

  Definition mv_opt (ob : option V) (v : V) : V := match ob with Some b => mv b v | None => v end.

  Lemma merge_step_eq : forall bm k v, merge_step mv bm (k, v) = set k (mv_opt (lookup k bm) v) bm.
  Proof. reflexivity. Qed.

  (* key by key: what a lookup in the merged dict returns *)
  Lemma fold_merge_lookup : forall tm bm k, NoDup (keys tm) ->
    lookup k (fold_left (merge_step mv) tm bm) =
    match lookup k tm with
    | Some v => Some (mv_opt (lookup k bm) v)
    | None => lookup k bm
    end.
  Proof.
    induction tm as [|[k0 v0] tm IH]; intros bm k Hnd; [reflexivity|].
    cbn [fold_left]. inversion Hnd as [|? ? Hn Hnd']; subst.
    rewrite IH by exact Hnd'. rewrite merge_step_eq. cbn [lookup].
    destruct (String.eqb k k0) eqn:E.
    - apply String.eqb_eq in E; subst k0.
      assert (Hl : lookup k tm = None) by (now apply lookup_None_notin).
      rewrite Hl. apply lookup_set_eq.
    - apply String.eqb_neq in E.
      rewrite (lookup_set_neq bm k0 k) by congruence. reflexivity.
  Qed.

  Lemma fold_merge_NoDup : forall tm bm, NoDup (keys bm) ->
    NoDup (keys (fold_left (merge_step mv) tm bm)).
  Proof.
    induction tm as [|[k0 v0] tm IH]; intros bm H; [exact H|].
    cbn [fold_left]. apply IH. rewrite merge_step_eq. now apply NoDup_keys_set.
  Qed.

  (* an invariant of the values, preserved by the loop *)
  Lemma fold_merge_Forall : forall (P : V -> Prop) tm bm,
    Forall (fun kv => P (snd kv)) bm ->
    Forall (fun kv => P (snd kv) /\ forall b, P b -> P (mv b (snd kv))) tm ->
    Forall (fun kv => P (snd kv)) (fold_left (merge_step mv) tm bm).
  Proof.
    intros P. induction tm as [|[k0 v0] tm IH]; intros bm Hb Ht; [exact Hb|].
    cbn [fold_left]. inversion Ht as [|? ? [H0 H1] Ht']; subst. cbn [snd] in *.
    apply IH; [|exact Ht']. rewrite merge_step_eq. apply Forall_set; [exact Hb|].
    destruct (lookup k0 bm) eqn:E; cbn; [|exact H0].
    apply H1. exact (lookup_Forall P bm k0 v Hb E).
  Qed.

  (* if every top item is already what the base holds, nothing changes *)
  Lemma fold_merge_fix : forall tm bm,
    (forall k v, In (k, v) tm -> exists b, lookup k bm = Some b /\ mv b v = b) ->
    fold_left (merge_step mv) tm bm = bm.
  Proof.
    induction tm as [|[k0 v0] tm IH]; intros bm H; [reflexivity|].
    cbn [fold_left]. destruct (H k0 v0 (or_introl eq_refl)) as [b [Hb Hm]].
    rewrite merge_step_eq, Hb. cbn [mv_opt]. rewrite Hm, (set_same bm k0 b Hb).
    apply IH. intros k v Hin. apply H. now right.
  Qed.
End Fold.
Arguments mv_opt {V}.

(* ------------------------------------------------------------------ *)
(* merge_val / merge_map                                               *)
(* ------------------------------------------------------------------ *)
Section Merge.
  Variable L : Type.
  Implicit Types (b v c : cfg L) (bm tm : items (cfg L)).

  Lemma merge_val_Map : forall bm tm, merge_val (Map bm) (Map tm) = Map (merge_map bm tm).
  Proof. reflexivity. Qed.
  Lemma merge_val_Leaf_r : forall b x, merge_val b (Leaf x) = Leaf x.
  Proof. reflexivity. Qed.
  Lemma merge_val_Leaf_l : forall x v, merge_val (Leaf x) v = v.
  Proof. intros x [y|tm]; reflexivity. Qed.
  Lemma merge_val_not_both : forall b v, is_map b && is_map v = false -> merge_val b v = v.
  Proof. intros [x|bm] [y|tm]; cbn; intros H; try reflexivity; discriminate. Qed.

  Lemma wf_Map : forall (m : items (cfg L)),
    wf (Map m) <-> NoDup (keys m) /\ Forall (fun kv => wf (snd kv)) m.
  Proof.
    intros m. cbn [wf]. split; intros [H1 H2]; split; try exact H1.
    - induction m as [|kv m IH]; constructor; [apply H2 | apply IH; [now inversion H1 | apply H2]].
    - induction m as [|kv m IH]; [exact I|]. inversion H2; subst. split; [assumption|].
      apply IH; [now inversion H1 | assumption].
  Qed.

  (* MERGE_LOOKUP: later wins leaf by leaf, nested maps merged, untouched keys survive *)
  Lemma merge_map_lookup : forall bm tm k, NoDup (keys tm) ->
    lookup k (merge_map bm tm) =
    match lookup k tm, lookup k bm with
    | Some v, Some b => Some (merge_val b v)
    | Some v, None => Some v
    | None, ob => ob
    end.
  Proof.
    intros bm tm k H. unfold merge_map. rewrite fold_merge_lookup by exact H.
    destruct (lookup k tm); [|reflexivity]. now destruct (lookup k bm).
  Qed.

  Lemma merge_val_wf : forall v b, wf b -> wf v -> wf (merge_val b v).
  Proof.
    induction v as [x|tm IH] using cfg_ind'; intros b Hb Hv; [exact I|].
    destruct b as [y|bm]; [exact Hv|].
    rewrite merge_val_Map. apply wf_Map in Hb, Hv. destruct Hb as [Hb1 Hb2], Hv as [Hv1 Hv2].
    apply wf_Map. split.
    - now apply fold_merge_NoDup.
    - apply fold_merge_Forall; [exact Hb2|].
      rewrite Forall_forall in *. intros kv Hin. split; [now apply Hv2|].
      intros b' Hb'. apply IH; auto.
  Qed.

  Lemma merge_map_wf : forall bm tm, wf_items bm -> wf_items tm -> wf_items (merge_map bm tm).
  Proof. intros bm tm Hb Ht. unfold wf_items. rewrite <- merge_val_Map. now apply merge_val_wf. Qed.

  Lemma merge_val_self : forall v, wf v -> merge_val v v = v.
  Proof.
    induction v as [x|tm IH] using cfg_ind'; intros Hv; [reflexivity|].
    rewrite merge_val_Map. f_equal. unfold merge_map. apply wf_Map in Hv. destruct Hv as [Hv1 Hv2].
    apply fold_merge_fix. intros k v Hin. exists v. split; [now apply In_lookup|].
    rewrite Forall_forall in IH, Hv2. apply (IH (k, v) Hin). exact (Hv2 (k, v) Hin).
  Qed.

  (* MERGE_IDEMPOTENT (syntactic: even the key order is unchanged) *)
  Lemma merge_val_idem : forall v b, wf b -> wf v -> merge_val (merge_val b v) v = merge_val b v.
  Proof.
    induction v as [x|tm IH] using cfg_ind'; intros b Hb Hv; [reflexivity|].
    destruct b as [y|bm].
    - rewrite merge_val_Leaf_l. now apply merge_val_self.
    - rewrite !merge_val_Map. f_equal. unfold merge_map at 1.
      pose proof Hb as Hb0. pose proof Hv as Hv0.
      apply wf_Map in Hb, Hv. destruct Hb as [Hb1 Hb2], Hv as [Hv1 Hv2].
      apply fold_merge_fix. intros k v Hin.
      rewrite merge_map_lookup by exact Hv1.
      rewrite (In_lookup tm k v Hv1 Hin).
      rewrite Forall_forall in IH, Hv2. pose proof (Hv2 (k, v) Hin) as Hwv. cbn [snd] in Hwv.
      destruct (lookup k bm) as [b'|] eqn:E.
      + eexists; split; [reflexivity|]. apply (IH (k, v) Hin); [|exact Hwv].
        exact (lookup_Forall (fun c => wf c) bm k b' Hb2 E).
      + eexists; split; [reflexivity|]. now apply merge_val_self.
  Qed.

  Lemma merge_map_idem : forall bm tm, wf_items bm -> wf_items tm ->
    merge_map (merge_map bm tm) tm = merge_map bm tm.
  Proof.
    intros bm tm Hb Ht. pose proof (merge_val_idem (Map tm) (Map bm) Hb Ht) as H.
    rewrite !merge_val_Map in H. now injection H.
  Qed.
End Merge.

(* ------------------------------------------------------------------ *)
(* alphabetical order: String.leb is a total order; sorting is canonical *)
(* ------------------------------------------------------------------ *)
Definition sle (a b : string) : Prop := String.leb a b = true.

Lemma leb_iff_not_Gt : forall a b, String.leb a b = true <-> String.compare a b <> Gt.
Proof. intros a b. unfold String.leb. destruct (String.compare a b); split; congruence. Qed.

Lemma sle_trans : forall a b c, sle a b -> sle b c -> sle a c.
Proof.
  unfold sle. intros a b c. rewrite !leb_iff_not_Gt. revert b c.
  induction a as [|x a IH]; intros b c Hab Hbc.
  - destruct c; cbn; congruence.
  - destruct b as [|y b]; [cbn in Hab; congruence|].
    destruct c as [|z c]; [cbn in Hbc; congruence|].
    cbn in *. unfold Ascii.compare in *.
    destruct (N.compare_spec (N_of_ascii x) (N_of_ascii y)) as [E1|E1|E1];
    destruct (N.compare_spec (N_of_ascii y) (N_of_ascii z)) as [E2|E2|E2];
    destruct (N.compare_spec (N_of_ascii x) (N_of_ascii z)) as [E3|E3|E3];
    try congruence; try lia.
    now apply (IH b c).
Qed.

Lemma sle_total : forall a b, sle a b \/ sle b a.
Proof. exact String.leb_total. Qed.
Lemma sle_antisym : forall a b, sle a b -> sle b a -> a = b.
Proof. exact String.leb_antisym. Qed.
Lemma sle_refl : forall a, sle a a.
Proof. intros a. destruct (sle_total a a); assumption. Qed.

Lemma insert_perm : forall x l, Permutation (insert x l) (x :: l).
Proof.
  intros x. induction l as [|y l IH]; cbn; [reflexivity|].
  destruct (String.leb x y); [reflexivity|].
  rewrite IH. apply perm_swap.
Qed.

Lemma sort_names_perm : forall l, Permutation (sort_names l) l.
Proof.
  induction l as [|x l IH]; cbn; [reflexivity|]. rewrite insert_perm. now constructor.
Qed.

Lemma insert_sorted : forall x l, StronglySorted sle l -> StronglySorted sle (insert x l).
Proof.
  intros x. induction l as [|y l IH]; intros Hs; cbn.
  - constructor; constructor.
  - inversion Hs as [|? ? Hs' Hall]; subst.
    destruct (String.leb x y) eqn:E.
    + constructor; [exact Hs|]. constructor; [exact E|].
      rewrite Forall_forall in *. intros z Hz. apply (sle_trans x y z E). now apply Hall.
    + assert (Hyx : sle y x) by (destruct (sle_total x y) as [H|H]; [unfold sle in H; congruence | exact H]).
      constructor; [now apply IH|].
      apply (Permutation_Forall (Permutation_sym (insert_perm x l))).
      constructor; assumption.
Qed.

Lemma sort_names_sorted : forall l, StronglySorted sle (sort_names l).
Proof. induction l as [|x l IH]; cbn; [constructor | now apply insert_sorted]. Qed.

(* two sorted lists with the same elements are equal (antisymmetry) *)
Lemma sorted_perm_eq : forall l1 l2,
  StronglySorted sle l1 -> StronglySorted sle l2 -> Permutation l1 l2 -> l1 = l2.
Proof.
  induction l1 as [|a l1 IH]; intros l2 H1 H2 Hp.
  - apply Permutation_nil in Hp. now subst.
  - destruct l2 as [|b l2]; [apply Permutation_sym, Permutation_nil in Hp; discriminate|].
    inversion H1 as [|? ? H1' A1]; inversion H2 as [|? ? H2' A2]; subst.
    assert (a = b) as ->.
    { rewrite Forall_forall in A1, A2.
      assert (Hab : sle a b).
      { assert (Hin : In b (a :: l1)) by (apply (Permutation_in b (Permutation_sym Hp)); now left).
        destruct Hin as [->|Hin]; [apply sle_refl | now apply A1]. }
      assert (Hba : sle b a).
      { assert (Hin : In a (b :: l2)) by (apply (Permutation_in a Hp); now left).
        destruct Hin as [->|Hin]; [apply sle_refl | now apply A2]. }
      now apply sle_antisym. }
    f_equal. apply IH; try assumption. now apply Permutation_cons_inv in Hp.
Qed.

(* SORT_PERM_CANONICAL *)
Lemma sort_names_canonical : forall l l', Permutation l l' -> sort_names l = sort_names l'.
Proof.
  intros l l' Hp. apply sorted_perm_eq; try apply sort_names_sorted.
  rewrite !sort_names_perm. exact Hp.
Qed.

Lemma sort_names_sorted_id : forall l, StronglySorted sle l -> sort_names l = l.
Proof.
  intros l Hs. apply sorted_perm_eq; [apply sort_names_sorted | exact Hs | apply sort_names_perm].
Qed.

(* ------------------------------------------------------------------ *)
(* load_conf                                                           *)
(* ------------------------------------------------------------------ *)
Section LoadProofs.
  Variable L : Type.
  Variable read : string -> option (items (cfg L)).

  (* LOAD_ORDER_INDEPENDENT *)
  Lemma load_fragments_perm : forall base_file names listing,
    Permutation names listing ->
    load_fragments L read base_file listing =
    match base_conf L base_file with
    | Some b => merge_files L read b (sort_names names)
    | None => None
    end.
  Proof.
    intros base_file names listing Hp. unfold load_fragments.
    now rewrite (sort_names_canonical names listing Hp).
  Qed.

  Lemma load_conf_perm : forall ds root isn rd jp tg rf base_file listing listing',
    Permutation listing listing' ->
    load_conf L read ds root isn rd jp tg rf base_file listing =
    load_conf L read ds root isn rd jp tg rf base_file listing'.
  Proof.
    intros. unfold load_conf, load_fragments. now rewrite (sort_names_canonical listing listing').
  Qed.

  (* all files are mappings: the result is the left fold of merge_map *)
  Lemma merge_files_ok : forall order base (frag : string -> items (cfg L)),
    (forall n, In n order -> read n = Some (frag n)) ->
    merge_files L read base order = Some (fold_left (fun c n => merge_map c (frag n)) order base).
  Proof.
    unfold merge_files. induction order as [|n order IH]; intros base frag H; [reflexivity|].
    cbn [fold_left]. unfold merge_file at 2. rewrite (H n (or_introl eq_refl)).
    apply IH. intros m Hm. apply H. now right.
  Qed.

  Lemma merge_files_error : forall order, fold_left (merge_file L read) order None = None.
  Proof. induction order as [|n order IH]; [reflexivity | exact IH]. Qed.

  (* an unreadable fragment anywhere makes the load fail, whatever the order *)
  Lemma merge_files_bad : forall order base n, In n order -> read n = None ->
    merge_files L read base order = None.
  Proof.
    unfold merge_files. induction order as [|m order IH]; intros base n Hin Hr; [destruct Hin|].
    cbn [fold_left]. destruct Hin as [->|Hin].
    - unfold merge_file at 2. rewrite Hr. apply merge_files_error.
    - unfold merge_file at 2. destruct (read m); [now apply (IH _ n) | apply merge_files_error].
  Qed.

  Lemma merge_files_wf : forall order base c,
    wf_items base -> (forall n f, read n = Some f -> wf_items f) ->
    merge_files L read base order = Some c -> wf_items c.
  Proof.
    unfold merge_files. induction order as [|n order IH]; intros base c Hb Hr H.
    - now injection H as <-.
    - cbn [fold_left] in H. unfold merge_file at 2 in H. destruct (read n) as [f|] eqn:E.
      + apply (IH (merge_map base f)); [apply merge_map_wf; [exact Hb | exact (Hr n f E)] | exact Hr | exact H].
      + rewrite merge_files_error in H. discriminate.
  Qed.
End LoadProofs.

(* ------------------------------------------------------------------ *)
(* merge is NOT associative (leaf between two mappings)                *)
(* ------------------------------------------------------------------ *)
Definition assoc_a : items (cfg Z) := [("k"%string, Map [("x"%string, Leaf 1%Z)])].
Definition assoc_b : items (cfg Z) := [("k"%string, Leaf 5%Z)].
Definition assoc_c : items (cfg Z) := [("k"%string, Map [("y"%string, Leaf 2%Z)])].

Lemma NoDup_single : forall (k : string), NoDup [k].
Proof. intros k. constructor; [intros [] | constructor]. Qed.

Lemma merge_not_assoc :
  exists a b c : items (cfg Z), wf_items a /\ wf_items b /\ wf_items c /\
    ~ cfg_equiv (Map (merge_map (merge_map a b) c)) (Map (merge_map a (merge_map b c))).
Proof.
  exists assoc_a, assoc_b, assoc_c. repeat split; try (apply NoDup_single); try exact I.
  intros H. specialize (H ["k"%string; "x"%string]). vm_compute in H. discriminate.
Qed.

(* ------------------------------------------------------------------ *)
(* the executable comparison is sound for dicts                        *)
(* ------------------------------------------------------------------ *)
Section Eqb.
  Variable L : Type.
  Variable leqb : L -> L -> bool.
  Hypothesis leqb_sound : forall a b, leqb a b = true -> a = b.

  Lemma cfg_equiv_refl : forall c : cfg L, cfg_equiv c c.
  Proof. intros c p. reflexivity. Qed.

  Lemma cfg_eqb_sound : forall c1 c2 : cfg L, wf c1 -> wf c2 ->
    cfg_eqb leqb c1 c2 = true -> cfg_equiv c1 c2.
  Proof.
    induction c1 as [x|m1 IH] using cfg_ind'; intros c2 H1 H2 He.
    - destruct c2 as [y|m2]; [|discriminate]. cbn in He. apply leqb_sound in He. subst. apply cfg_equiv_refl.
    - destruct c2 as [y|m2]; [discriminate|]. cbn [cfg_eqb] in He.
      apply andb_prop in He. destruct He as [Hlen Hall]. apply Nat.eqb_eq in Hlen.
      rewrite forallb_forall in Hall.
      apply wf_Map in H1, H2. destruct H1 as [N1 W1], H2 as [N2 W2].
      assert (Hsub : incl (keys m1) (keys m2)).
      { intros k Hk. unfold keys in Hk. apply in_map_iff in Hk. destruct Hk as [[k' v] [<- Hin]].
        specialize (Hall _ Hin). cbn in Hall.
        destruct (lookup k' m2) eqn:E; [|discriminate].
        apply lookup_In in E. unfold keys. cbn [fst]. exact (in_map fst m2 (k', c) E). }
      assert (Hsup : incl (keys m2) (keys m1)).
      { apply NoDup_length_incl; [exact N1 | | exact Hsub]. unfold keys. rewrite !map_length. lia. }
      intros p. destruct p as [|k p]; [reflexivity|]. cbn [get].
      destruct (lookup k m1) as [v1|] eqn:E1.
      + pose proof (lookup_In m1 k v1 E1) as Hin. pose proof (Hall _ Hin) as Hk. cbn in Hk.
        destruct (lookup k m2) as [v2|] eqn:E2; [|discriminate].
        rewrite Forall_forall in IH, W1, W2.
        apply (IH (k, v1) Hin v2); [exact (W1 _ Hin) | exact (W2 _ (lookup_In m2 k v2 E2)) | exact Hk].
      + destruct (lookup k m2) as [v2|] eqn:E2; [|reflexivity].
        exfalso. apply lookup_None_notin in E1. apply E1, Hsup.
        apply lookup_In in E2. exact (in_map fst m2 (k, v2) E2).
  Qed.
End Eqb.

Lemma nodupb_sound : forall l, nodupb l = true -> NoDup l.
Proof.
  induction l as [|x l IH]; cbn; intros H; constructor.
  - apply andb_prop in H. destruct H as [H _]. intros Hin.
    apply negb_true_iff in H. assert (existsb (String.eqb x) l = true); [|congruence].
    apply existsb_exists. exists x. split; [exact Hin | apply String.eqb_refl].
  - apply andb_prop in H. now apply IH.
Qed.

Lemma wfb_sound : forall (L : Type) (c : cfg L), wfb c = true -> wf c.
Proof.
  intros L. induction c as [x|m IH] using cfg_ind'; intros H; [exact I|].
  cbn [wfb] in H. apply andb_prop in H. destruct H as [H1 H2].
  apply wf_Map. split; [now apply nodupb_sound|].
  rewrite forallb_forall in H2. rewrite Forall_forall in *. intros kv Hin. apply IH; auto.
Qed.

(* ------------------------------------------------------------------ *)
(* extra keys and _resolve_filenames lose nothing                      *)
(* ------------------------------------------------------------------ *)
Section Tail.
  Variable L : Type.
  Variables (dataset_name root_dir : L) (is_none : L -> bool) (resolve_dir joinp : L -> option L).
  Variable is_target : string -> bool.
  Notation add_extra := (add_extra L dataset_name root_dir is_none resolve_dir).
  Notation resolve := (resolve L joinp is_target).
  Notation resolve_entry := (resolve_entry L joinp is_target).
  Notation resolve_items := (resolve_items L joinp is_target).

  Lemma add_extra_lookup : forall c c' k, add_extra c = Some c' ->
    k <> "dataset_name"%string -> k <> "root_dir"%string -> k <> "result_dir"%string ->
    lookup k c' = lookup k c.
  Proof.
    intros c c' k H K1 K2 K3. unfold add_extra in H.
    destruct (result_dir_of L root_dir is_none resolve_dir _) as [r|]; [|discriminate].
    injection H as <-. rewrite !lookup_set_neq by congruence. reflexivity.
  Qed.

  Lemma add_extra_keys : forall c c', add_extra c = Some c' ->
    lookup "dataset_name"%string c' = Some (Leaf dataset_name) /\
    lookup "root_dir"%string c' = Some (Leaf root_dir) /\
    exists r, lookup "result_dir"%string c' = Some (Leaf r).
  Proof.
    intros c c' H. unfold add_extra in H.
    destruct (result_dir_of L root_dir is_none resolve_dir _) as [r|]; [|discriminate].
    injection H as <-. repeat split.
    - rewrite !lookup_set_neq by discriminate. apply lookup_set_eq.
    - rewrite lookup_set_neq by discriminate. apply lookup_set_eq.
    - exists r. apply lookup_set_eq.
  Qed.

  (* _resolve_filenames keeps every key (in order); each value is replaced by its
     resolved form: joined path under a target key, recursive resolution otherwise *)
  Lemma resolve_items_spec : forall m m', resolve_items resolve m = Some m' ->
    keys m' = keys m /\
    forall k, lookup k m' = match lookup k m with
                            | Some v => resolve_entry resolve k v
                            | None => None
                            end.
  Proof.
    induction m as [|[k0 v0] m IH]; intros m' H; cbn in H.
    - injection H as <-. split; [reflexivity | intros k; reflexivity].
    - destruct (resolve_entry resolve k0 v0) as [v'|] eqn:E0; [|discriminate].
      fold (resolve_items resolve m) in H.
      destruct (resolve_items resolve m) as [r|] eqn:Er; [|discriminate].
      injection H as <-. destruct (IH r eq_refl) as [Hk Hl]. split.
      + unfold keys in *. cbn [map fst]. now rewrite Hk.
      + intros k. cbn [lookup]. destruct (String.eqb k k0) eqn:E.
        * apply String.eqb_eq in E; subst. now rewrite E0.
        * apply Hl.
  Qed.

  Lemma resolve_entry_nontarget_leaf : forall k x, is_target k = false ->
    resolve_entry resolve k (Leaf x) = Some (Leaf x).
  Proof. intros k x H. unfold Config.resolve_entry. now rewrite H. Qed.

  Lemma resolve_entry_target : forall k x, is_target k = true ->
    resolve_entry resolve k (Leaf x) = option_map Leaf (joinp x).
  Proof. intros k x H. unfold Config.resolve_entry. now rewrite H. Qed.

  (* with no target key anywhere nothing changes *)
  Lemma resolve_no_target : (forall k, is_target k = false) -> forall c, resolve c = Some c.
  Proof.
    intros Hn. induction c as [x|m IH] using cfg_ind'; [reflexivity|].
    cbn [Config.resolve]. replace (resolve_items resolve m) with (Some m); [reflexivity|].
    induction m as [|[k v] m IHm]; [reflexivity|]. inversion IH as [|? ? Hv Hm]; subst.
    cbn. unfold Config.resolve_entry. rewrite Hn. cbn [snd] in Hv. rewrite Hv.
    fold (resolve_items resolve m). now rewrite <- (IHm Hm).
  Qed.
End Tail.

(* with_default: `if k not in d: d[k] = default` *)
Lemma with_default_lookup : forall (V : Type) (k : string) (d : V) m k',
  lookup k' (with_default k d m) =
  if String.eqb k' k then match lookup k m with Some v => Some v | None => Some d end
  else lookup k' m.
Proof.
  intros V k d m k'. unfold with_default. destruct (String.eqb k' k) eqn:E.
  - apply String.eqb_eq in E; subst. destruct (lookup k m) eqn:E'; [exact E' | apply lookup_set_eq].
  - apply String.eqb_neq in E. destruct (lookup k m); [reflexivity|]. apply lookup_set_neq. congruence.
Qed.

(* ------------------------------------------------------------------ *)
(* BRAIN loader                                                        *)
(* ------------------------------------------------------------------ *)
Lemma to0_spec : forall s, (1 <= s <= 4294967296)%Z -> to0 s = (s - 1)%Z.
Proof. intros s H. unfold to0. apply Z.mod_small. lia. Qed.

Lemma load_indices_spec : forall stored, Forall (fun s => (1 <= s <= 4294967296)%Z) stored ->
  load_indices stored = map (fun s => (s - 1)%Z) stored.
Proof.
  intros stored H. unfold load_indices. apply map_ext_in. intros s Hs.
  rewrite Forall_forall in H. now apply to0_spec, H.
Qed.

Lemma load_indices_length : forall stored, List.length (load_indices stored) = List.length stored.
Proof. intros. unfold load_indices. apply map_length. Qed.

(* a stored index 0 (invalid in a 1-based file) silently wraps around *)
Lemma to0_zero_wraps : to0 0 = 4294967295%Z.
Proof. reflexivity. Qed.

Section BrainProofs.
  Variable V : Type.
  Variable dflt : V.
  Lemma load_scipy : forall N S mem,
    let T := load_timetraces V (view_scipy V N S mem) in
    a_rows T = N /\ a_cols T = S /\ forall i j, aget V dflt T i j = nth (i * S + j) mem dflt.
  Proof. intros N S mem. cbn. repeat split. Qed.

  Lemma load_hdf5 : forall N S mem, 2 <= N -> 2 <= S ->
    let T := load_timetraces V (view_hdf5 V N S mem) in
    a_rows T = N /\ a_cols T = S /\ forall i j, aget V dflt T i j = nth (i * S + j) mem dflt.
  Proof.
    intros N S mem HN HS. unfold load_timetraces, f_contiguous, view_hdf5. cbn.
    destruct (N <=? 1) eqn:E1; [apply Nat.leb_le in E1; lia|].
    destruct (S <=? 1) eqn:E2; [apply Nat.leb_le in E2; lia|].
    cbn. repeat split.
  Qed.
End BrainProofs.

(* ------------------------------------------------------------------ *)
(* merging is compatible with equality up to key order                 *)
(* ------------------------------------------------------------------ *)
Section Equiv.
  Variable L : Type.
  Implicit Types (b v c : cfg L) (m : items (cfg L)).

  Inductive opt_equiv : option (cfg L) -> option (cfg L) -> Prop :=
  | oe_none : opt_equiv None None
  | oe_some : forall c1 c2, cfg_equiv c1 c2 -> opt_equiv (Some c1) (Some c2).

  Lemma cfg_equiv_sym : forall c1 c2, cfg_equiv c1 c2 -> cfg_equiv c2 c1.
  Proof. intros c1 c2 H p. symmetry. apply H. Qed.

  Lemma cfg_equiv_trans : forall c1 c2 c3, cfg_equiv c1 c2 -> cfg_equiv c2 c3 -> cfg_equiv c1 c3.
  Proof. intros c1 c2 c3 H1 H2 p. now rewrite H1. Qed.

  Lemma equiv_Leaf_l : forall x c, cfg_equiv (Leaf x) c -> c = Leaf x.
  Proof. intros x c H. specialize (H []). cbn in H. destruct c; cbn in H; congruence. Qed.

  Lemma equiv_Map_l : forall m c, cfg_equiv (Map m) c -> exists m', c = Map m'.
  Proof. intros m c H. specialize (H []). cbn in H. destruct c as [y|m']; cbn in H; [discriminate | now exists m']. Qed.

  Lemma equiv_Map_iff : forall m1 m2,
    cfg_equiv (Map m1) (Map m2) <-> forall k, opt_equiv (lookup k m1) (lookup k m2).
  Proof.
    intros m1 m2. split.
    - intros H k. destruct (lookup k m1) as [v1|] eqn:E1, (lookup k m2) as [v2|] eqn:E2.
      + constructor. intros p. specialize (H (k :: p)). cbn [get] in H. now rewrite E1, E2 in H.
      + specialize (H [k]). cbn [get] in H. rewrite E1, E2 in H. discriminate.
      + specialize (H [k]). cbn [get] in H. rewrite E1, E2 in H. discriminate.
      + constructor.
    - intros H [|k p]; [reflexivity|]. cbn [get]. specialize (H k).
      inversion H as [E1 E2|c1 c2 Hc E1 E2]; [reflexivity | apply Hc].
  Qed.

  Lemma merge_val_equiv : forall v b b' v', wf v -> wf v' ->
    cfg_equiv b b' -> cfg_equiv v v' -> cfg_equiv (merge_val b v) (merge_val b' v').
  Proof.
    induction v as [x|tm IH] using cfg_ind'; intros b b' v' Hv Hv' Hb He.
    - apply equiv_Leaf_l in He. subst v'. apply cfg_equiv_refl.
    - destruct (equiv_Map_l _ _ He) as [tm' ->].
      destruct b as [y|bm].
      + apply equiv_Leaf_l in Hb. subst b'. now rewrite !merge_val_Leaf_l.
      + destruct (equiv_Map_l _ _ Hb) as [bm' ->]. rewrite !merge_val_Map.
        apply wf_Map in Hv, Hv'. destruct Hv as [N1 W1], Hv' as [N2 W2].
        apply equiv_Map_iff. intros k. rewrite !merge_map_lookup by assumption.
        pose proof (proj1 (equiv_Map_iff _ _) He k) as Ht.
        pose proof (proj1 (equiv_Map_iff _ _) Hb k) as Hbk.
        destruct (lookup k tm) as [v1|] eqn:E1.
        * inversion Ht as [|c1 v1' Hc Ea Eb]; subst.
          pose proof (lookup_In tm k v1 E1) as Hin1.
          pose proof (lookup_In tm' k v1' (eq_sym Eb)) as Hin2.
          rewrite Forall_forall in IH, W1, W2.
          inversion Hbk as [Ea' Eb'|b1 b1' Hbb Ea' Eb']; constructor; [exact Hc|].
          apply (IH (k, v1) Hin1); [exact (W1 _ Hin1) | exact (W2 _ Hin2) | exact Hbb | exact Hc].
        * inversion Ht; subst. exact Hbk.
  Qed.

  Lemma merge_map_equiv : forall bm bm' tm tm' : items (cfg L), wf_items tm -> wf_items tm' ->
    cfg_equiv (Map bm) (Map bm') -> cfg_equiv (Map tm) (Map tm') ->
    cfg_equiv (Map (merge_map bm tm)) (Map (merge_map bm' tm')).
  Proof.
    intros bm bm' tm tm' H1 H2 H3 H4.
    rewrite <- (merge_val_Map L bm tm), <- (merge_val_Map L bm' tm'). now apply merge_val_equiv.
  Qed.
End Equiv.

(* ------------------------------------------------------------------ *)
(* conditional associativity                                           *)
(* ------------------------------------------------------------------ *)
Section Assoc.
  Variable L : Type.

  Lemma opt_equiv_refl : forall o : option (cfg L), opt_equiv L o o.
  Proof. intros [c|]; constructor. apply cfg_equiv_refl. Qed.

  Lemma no_map_over_leaf_Map : forall (bm cm : items (cfg L)) k vb vc,
    no_map_over_leaf (Map bm) (Map cm) -> In (k, vb) bm -> lookup k cm = Some vc ->
    no_map_over_leaf vb vc.
  Proof.
    intros bm cm k vb vc H Hin Hl. cbn [no_map_over_leaf] in H.
    induction bm as [|kv bm IH]; [destruct Hin|].
    destruct H as [H0 H1]. destruct Hin as [->|Hin].
    - cbn [fst snd] in H0. now rewrite Hl in H0.
    - now apply IH.
  Qed.

  Lemma merge_val_assoc : forall (c a b : cfg L), wf b -> wf c -> no_map_over_leaf b c ->
    cfg_equiv (merge_val (merge_val a b) c) (merge_val a (merge_val b c)).
  Proof.
    induction c as [z|cm IH] using cfg_ind'; intros a b Hb Hc Hok.
    - rewrite !merge_val_Leaf_r. apply cfg_equiv_refl.
    - destruct b as [y|bm]; [destruct Hok|].
      destruct a as [x|am].
      + rewrite !merge_val_Leaf_l. apply cfg_equiv_refl.
      + rewrite !merge_val_Map.
        assert (Hbc : wf_items (merge_map bm cm)) by (now apply merge_map_wf).
        apply wf_Map in Hbc. destruct Hbc as [Nbc _].
        pose proof Hb as Hb0. pose proof Hc as Hc0.
        apply wf_Map in Hb, Hc. destruct Hb as [Nb Wb], Hc as [Nc Wc].
        apply equiv_Map_iff. intros k.
        rewrite (merge_map_lookup L (merge_map am bm) cm k Nc).
        rewrite (merge_map_lookup L am bm k Nb).
        rewrite (merge_map_lookup L am (merge_map bm cm) k Nbc).
        rewrite (merge_map_lookup L bm cm k Nc).
        destruct (lookup k cm) as [vc|] eqn:Ec.
        * destruct (lookup k bm) as [vb|] eqn:Eb.
          -- destruct (lookup k am) as [va|] eqn:Ea; [|apply opt_equiv_refl].
             constructor.
             pose proof (lookup_In cm k vc Ec) as Hinc. pose proof (lookup_In bm k vb Eb) as Hinb.
             rewrite Forall_forall in IH, Wb, Wc.
             apply (IH (k, vc) Hinc); [exact (Wb _ Hinb) | exact (Wc _ Hinc) |].
             exact (no_map_over_leaf_Map bm cm k vb vc Hok Hinb Ec).
          -- destruct (lookup k am); apply opt_equiv_refl.
        * destruct (lookup k bm); [|apply opt_equiv_refl].
          destruct (lookup k am); apply opt_equiv_refl.
  Qed.

  Lemma merge_map_assoc : forall (am bm cm : items (cfg L)), wf_items bm -> wf_items cm ->
    no_map_over_leaf (Map bm) (Map cm) ->
    cfg_equiv (Map (merge_map (merge_map am bm) cm)) (Map (merge_map am (merge_map bm cm))).
  Proof.
    intros am bm cm Hb Hc Hok.
    pose proof (merge_val_assoc (Map cm) (Map am) (Map bm) Hb Hc Hok) as H.
    now rewrite !merge_val_Map in H.
  Qed.
End Assoc.
