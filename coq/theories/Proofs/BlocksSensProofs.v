(* Proofs/BlocksSensProofs.v — block independence of the model amplitudes and of the two
   sensitivity functions, ENTRY BY ENTRY (C13).  Axiom-free; on top of Model/Amplitudes.v and
   Proofs/AmplitudesProofs.v (C08: the indexing of the two ModelAmplitudes classes is
   pointwise in the grid index; the chunked loop equals the unchunked definition).

   Everything is stated for an ARBITRARY row reduction `f` (the code's `.sum(axis=1)` of a
   product: whatever order NumPy adds the terms of one row in, it is a function of that row
   only) and an arbitrary numeric type, so the equalities are bit for bit for every
   instance of Num, floats included. *)
From Coq Require Import List ZArith Bool Arith Lia.
From Arim Require Import Base.Num Model.Interface Model.Weights Model.ScatMatrix Model.Chunk
                         Model.Amplitudes Proofs.ChunkProofs Proofs.AmplitudesProofs.
Import ListNotations.

(* rows a..b-1 (numpy basic slicing on the first axis) *)
Definition rows_slice {A} (a b : nat) (l : list A) : list A := firstn (b - a) (skipn a l).

Lemma mapM_some_map {A B} (f : A -> option B) (g : A -> B) l :
  (forall x, In x l -> f x = Some (g x)) -> mapM f l = Some (map g l).
Proof.
  induction l as [|x l IH]; intros H; cbn; [reflexivity|].
  rewrite (H x (or_introl eq_refl)), IH; [reflexivity|]. intros y Hy. apply H. right. exact Hy.
Qed.

Lemma mapM_skipn {A B} (f : A -> option B) n l ys : mapM f l = Some ys -> mapM f (skipn n l) = Some (skipn n ys).
Proof.
  revert l ys. induction n as [|n IH]; intros l ys H; [exact H|].
  destruct l as [|x l]; cbn in H.
  - inversion H. reflexivity.
  - destruct (f x) as [y|]; [|discriminate]. destruct (mapM f l) as [ys'|] eqn:E; [|discriminate].
    cbn in H. inversion H; subst ys. cbn. apply IH. exact E.
Qed.

Lemma mapM_firstn {A B} (f : A -> option B) n l ys : mapM f l = Some ys -> mapM f (firstn n l) = Some (firstn n ys).
Proof.
  revert l ys. induction n as [|n IH]; intros l ys H; [reflexivity|].
  destruct l as [|x l]; cbn in H.
  - inversion H. reflexivity.
  - destruct (f x) as [y|] eqn:Ex; [|discriminate]. destruct (mapM f l) as [ys'|] eqn:E; [|discriminate].
    cbn in H. inversion H; subst ys. cbn. rewrite Ex, (IH l ys' E). reflexivity.
Qed.

Lemma skipn_seq' n s len : skipn n (seq s len) = seq (s + n) (len - n).
Proof.
  revert s len. induction n as [|n IH]; intros s len; cbn [skipn].
  - rewrite Nat.add_0_r, Nat.sub_0_r. reflexivity.
  - destruct len as [|len]; [reflexivity|]. cbn [seq Nat.sub]. rewrite IH. f_equal. lia.
Qed.

Lemma firstn_seq' n s len : firstn n (seq s len) = seq s (Nat.min n len).
Proof.
  revert s len. induction n as [|n IH]; intros s len; [reflexivity|].
  destruct len as [|len]; [reflexivity|]. cbn [seq firstn Nat.min]. rewrite IH. reflexivity.
Qed.

Lemma rows_slice_seq a b n : b <= n -> rows_slice a b (seq 0 n) = seq a (b - a).
Proof.
  intros H. unfold rows_slice. rewrite skipn_seq', firstn_seq'. cbn [Nat.add]. f_equal. lia.
Qed.

Lemma rows_slice_map {A B} (h : A -> B) a b l : rows_slice a b (map h l) = map h (rows_slice a b l).
Proof. unfold rows_slice. rewrite skipn_map, firstn_map. reflexivity. Qed.

Lemma mapM_all_some {A B} (f : A -> option B) l ys : mapM f l = Some ys -> forall x, In x l -> exists y, f x = Some y.
Proof.
  intros H x Hx. apply In_nth_error in Hx as (k & Hk).
  destruct (mapM_nth_error f l ys k x H Hk) as (y & Hy & _). exists y. exact Hy.
Qed.

Section BlockwiseRows.
  Context {T : Type}.
  Local Notation K := (T * T)%type.
  Variables (getitem : list Z -> option (list (list K))) (rowP : Z -> option (list K)).
  Hypothesis pointwise : forall G, getitem G = mapM rowP G.

  (* model_amplitudes[a:b] is rows a..b-1 of model_amplitudes[...]: a block never sees the
     other points *)
  Theorem getitem_chunk_is_slice n P a b : b <= n ->
    getitem (map Z.of_nat (seq 0 n)) = Some P ->
    getitem (map Z.of_nat (seq a (b - a))) = Some (rows_slice a b P).
  Proof.
    intros Hb HP. rewrite pointwise in *. rewrite <- (rows_slice_seq a b n Hb), <- rows_slice_map.
    unfold rows_slice. apply mapM_firstn. apply mapM_skipn. exact HP.
  Qed.

  (* the blocks of chunk_array, concatenated in order, are model_amplitudes[...] *)
  Theorem getitem_chunks_concat n b P : 1 <= b ->
    getitem (map Z.of_nat (seq 0 n)) = Some P ->
    mapM (fun ch => getitem (map Z.of_nat (range_of ch))) (chunks n b) = Some (map (fun ch => rows_slice (fst ch) (snd ch) P) (chunks n b))
    /\ concat (map (fun ch => rows_slice (fst ch) (snd ch) P) (chunks n b)) = P.
  Proof.
    intros Hb HP. split.
    - apply mapM_some_map. intros ch Hch. unfold chunks in Hch. apply in_map_iff in Hch as (i & <- & _).
      unfold range_of. apply (getitem_chunk_is_slice n P); [|exact HP]. unfold chunk. cbn [snd]. lia.
    - assert (L : length P = n).
      { rewrite pointwise in HP. rewrite (mapM_length _ _ _ HP), map_length, seq_length. reflexivity. }
      assert (R : forall a c, c <= n -> rows_slice a c P = map (fun i => nth i P []) (seq a (c - a))).
      { intros a c Hc. rewrite <- (rows_slice_seq a c n Hc), <- rows_slice_map. f_equal.
        rewrite <- L. symmetry. clear. induction P as [|x P' IH]; [reflexivity|].
        cbn [length seq map nth]. f_equal. rewrite <- seq_shift, map_map. exact IH. }
      transitivity (map (fun i => nth i P []) (flat_map range_of (chunks n b))).
      + rewrite flat_map_concat_map, concat_map, map_map. f_equal. apply map_ext_in.
        intros ch Hch. unfold chunks in Hch. apply in_map_iff in Hch as (i & <- & _).
        unfold range_of. apply R. unfold chunk. cbn [snd]. lia.
      + rewrite chunks_concat by exact Hb. rewrite <- L. clear.
        induction P as [|x P' IH]; [reflexivity|].
        cbn [length seq map nth]. f_equal. rewrite <- seq_shift, map_map. exact IH.
  Qed.

  Context {V : Type}.
  Variables (f : list K -> V) (zero : V).

  (* ENTRY BY ENTRY: for every block size >= 1 (1, larger than the grid, not dividing it),
     entry p of the blockwise loop is the reduction of row p of the amplitudes, and of
     nothing else *)
  Theorem sens_loop_entries n b (row : nat -> list K) : 1 <= b -> 1 <= n ->
    (forall p, p < n -> rowP (Z.of_nat p) = Some (row p)) ->
    sens_loop getitem f zero n b = Some (map (fun p => f (row p)) (seq 0 n)).
  Proof.
    intros Hb Hn Hrow.
    rewrite (sens_loop_unchunked getitem rowP pointwise f zero n b Hb Hn).
    unfold spec_sensitivity. rewrite pointwise, mapM_map.
    rewrite (mapM_some_map _ row).
    - cbn [omap]. rewrite map_map. reflexivity.
    - intros p Hp. apply in_seq in Hp. apply Hrow. lia.
  Qed.

  Corollary sens_loop_entry n b (row : nat -> list K) p : 1 <= b -> p < n ->
    (forall q, q < n -> rowP (Z.of_nat q) = Some (row q)) ->
    exists s, sens_loop getitem f zero n b = Some s /\ length s = n /\ nth_error s p = Some (f (row p)).
  Proof.
    intros Hb Hp Hrow. exists (map (fun q => f (row q)) (seq 0 n)). split; [apply sens_loop_entries; [assumption|lia|assumption]|].
    split; [rewrite map_length, seq_length; reflexivity|].
    apply (map_nth_error (fun q => f (row q))).
    rewrite (nth_error_nth' (seq 0 n) 0) by (rewrite seq_length; exact Hp).
    rewrite seq_nth by exact Hp. reflexivity.
  Qed.

  (* any two block sizes >= 1: the same value, or the same failure *)
  Theorem sens_loop_block_independent n b b' : 1 <= b -> 1 <= b' ->
    sens_loop getitem f zero n b = sens_loop getitem f zero n b'.
  Proof.
    intros Hb Hb'. destruct n as [|n].
    - unfold sens_loop, numchunks, ceil_div. cbn [Nat.add].
      rewrite !Nat.div_small by lia. reflexivity.
    - rewrite !(sens_loop_unchunked getitem rowP pointwise f zero) by lia. reflexivity.
  Qed.

  (* the loop fails exactly when there is no point at all (`None /= numtimetraces`) or some
     point of the grid cannot be evaluated — never because of the block size *)
  Theorem sens_loop_none_iff n b : 1 <= b ->
    sens_loop getitem f zero n b = None <-> n = 0 \/ exists p, p < n /\ rowP (Z.of_nat p) = None.
  Proof.
    intros Hb. destruct n as [|n].
    - split; [intros _; left; reflexivity|]. intros _.
      unfold sens_loop, numchunks, ceil_div. cbn [Nat.add]. rewrite Nat.div_small by lia. reflexivity.
    - rewrite (sens_loop_unchunked getitem rowP pointwise f zero (S n) b Hb) by lia.
      unfold spec_sensitivity. rewrite pointwise. split.
      + intros H. right.
        destruct (mapM rowP (map Z.of_nat (seq 0 (S n)))) as [P|] eqn:E; [discriminate|].
        destruct (List.Exists_dec (fun p => rowP (Z.of_nat p) = None) (seq 0 (S n))) as [Hex|Hnex].
        { intros p. destruct (rowP (Z.of_nat p)); [right; discriminate|left; reflexivity]. }
        * apply Exists_exists in Hex as (p & Hp & Hnone). exists p. apply in_seq in Hp. split; [lia|exact Hnone].
        * exfalso. destruct (mapM_total rowP (map Z.of_nat (seq 0 (S n)))) as (ys & Hys); [|congruence].
          intros z Hz. apply in_map_iff in Hz as (p & <- & Hp).
          destruct (rowP (Z.of_nat p)) as [y|] eqn:Ey; [exists y; reflexivity|].
          exfalso. apply Hnex. apply Exists_exists. exists p. split; assumption.
      + intros [H|(p & Hp & Hnone)]; [discriminate|].
        rewrite (mapM_none rowP _ (Z.of_nat p)); [reflexivity| |exact Hnone].
        apply in_map. apply in_seq. lia.
  Qed.
End BlockwiseRows.

(* a block size of zero: numchunks cannot be computed (ZeroDivisionError) *)
Lemma sens_loop_block_zero {T V} (getitem : list Z -> option (list (list (T * T)))) (f : list (T * T) -> V) zero n :
  sens_loop getitem f zero n 0 = None.
Proof. unfold sens_loop, numchunks, ceil_div. destruct (n + 0 - 1); reflexivity. Qed.

(* ---- a materialised array of amplitudes (model_amplitudes given as an ndarray) ---------- *)
Section NdArray.
  Context {T V : Type}.
  Local Notation K := (T * T)%type.
  Variable A : list (list K).                      (* shape (numpoints, numtimetraces) *)

  Lemma take_pointwise G : take A G = mapM (lookup A) G.
  Proof. reflexivity. Qed.

  Theorem sens_loop_ndarray (f : list K -> V) zero b : 1 <= b -> 1 <= length A ->
    sens_loop (take A) f zero (length A) b = Some (map f A).
  Proof.
    intros Hb Hn.
    rewrite (sens_loop_entries (take A) (lookup A) take_pointwise f zero (length A) b (fun p => nth p A []) Hb Hn).
    - f_equal. clear. induction A as [|x A' IH]; [reflexivity|].
      cbn [length seq map nth]. f_equal. rewrite <- seq_shift, map_map. exact IH.
    - intros p Hp. unfold lookup. rewrite norm_index_nat by exact Hp. cbn [bind].
      apply nth_error_nth'. exact Hp.
  Qed.
End NdArray.

(* ---- the two ModelAmplitudes classes ------------------------------------------------------ *)
Section Classes.
  Context {T : Type} (N : Num T).
  Local Notation K := (T * T)%type.
  Variables (tx rx : list Z) (ne ng : nat) (Qtx Qrx : list (list K)) (Ttx Trx : list (list T)) (a : T)
            (o : amplitudes (T := T)).
  Hypothesis Hlen : length tx = length rx.
  Hypothesis Hf : factory tx rx ne ng Qtx Qrx Ttx Trx a = Some o.

  Lemma getitem_fn_pointwise (S : T -> T -> K) G :
    getitem_fn N S o G = mapM (spec_row N S a ne ng Qtx Qrx Ttx Trx tx rx) G.
  Proof. rewrite (getitem_fn_is_spec N S tx rx ne ng Qtx Qrx Ttx Trx a o G Hlen Hf). reflexivity. Qed.

  Lemma getitem_mat_pointwise (P : T) (M : list (list K)) G : mat_ok M = true ->
    getitem_mat N P M o G = mapM (spec_row N (interp_c N P M) a ne ng Qtx Qrx Ttx Trx tx rx) G.
  Proof. intros Hm. rewrite (getitem_mat_is_spec N P M tx rx ne ng Qtx Qrx Ttx Trx a o G Hm Hlen Hf). reflexivity. Qed.

  (* _ModelAmplitudesWithScatFunction: amps[a:b] = amps[...][a:b] *)
  Theorem getitem_fn_chunk_is_slice (S : T -> T -> K) Pall lo hi : hi <= ng ->
    getitem_fn N S o (map Z.of_nat (seq 0 ng)) = Some Pall ->
    getitem_fn N S o (map Z.of_nat (seq lo (hi - lo))) = Some (rows_slice lo hi Pall).
  Proof. apply (getitem_chunk_is_slice _ _ (getitem_fn_pointwise S)). Qed.

  (* _ModelAmplitudesWithScatMatrix: the same *)
  Theorem getitem_mat_chunk_is_slice (P : T) (M : list (list K)) Pall lo hi : mat_ok M = true -> hi <= ng ->
    getitem_mat N P M o (map Z.of_nat (seq 0 ng)) = Some Pall ->
    getitem_mat N P M o (map Z.of_nat (seq lo (hi - lo))) = Some (rows_slice lo hi Pall).
  Proof. intros Hm. apply (getitem_chunk_is_slice _ _ (fun G => getitem_mat_pointwise P M G Hm)). Qed.

  (* both sensitivities, both classes, any two block sizes >= 1: bit-identical results *)
  Theorem sensitivities_block_independent_fn (S : T -> T -> K) w b b' : 1 <= b -> 1 <= b' ->
    sensitivity_uniform_tfm N (getitem_fn N S o) ng (length tx) w b
    = sensitivity_uniform_tfm N (getitem_fn N S o) ng (length tx) w b'
    /\ sensitivity_model_assisted_tfm N (getitem_fn N S o) ng (length tx) w b
       = sensitivity_model_assisted_tfm N (getitem_fn N S o) ng (length tx) w b'.
  Proof.
    intros Hb Hb'. unfold sensitivity_uniform_tfm, sensitivity_model_assisted_tfm.
    rewrite (sens_loop_block_independent _ _ (getitem_fn_pointwise S) (wsum_uniform N w) _ ng b b' Hb Hb').
    rewrite (sens_loop_block_independent _ _ (getitem_fn_pointwise S) (wsum_assisted N w) _ ng b b' Hb Hb').
    split; reflexivity.
  Qed.

  Theorem sensitivities_block_independent_mat (P : T) (M : list (list K)) w b b' : mat_ok M = true -> 1 <= b -> 1 <= b' ->
    sensitivity_uniform_tfm N (getitem_mat N P M o) ng (length tx) w b
    = sensitivity_uniform_tfm N (getitem_mat N P M o) ng (length tx) w b'
    /\ sensitivity_model_assisted_tfm N (getitem_mat N P M o) ng (length tx) w b
       = sensitivity_model_assisted_tfm N (getitem_mat N P M o) ng (length tx) w b'.
  Proof.
    intros Hm Hb Hb'. unfold sensitivity_uniform_tfm, sensitivity_model_assisted_tfm.
    rewrite (sens_loop_block_independent _ _ (fun G => getitem_mat_pointwise P M G Hm) (wsum_uniform N w) _ ng b b' Hb Hb').
    rewrite (sens_loop_block_independent _ _ (fun G => getitem_mat_pointwise P M G Hm) (wsum_assisted N w) _ ng b b' Hb Hb').
    split; reflexivity.
  Qed.
End Classes.
