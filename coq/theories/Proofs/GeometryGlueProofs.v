(* Proofs/GeometryGlueProofs.v — lemmas about Model/GeometryGlue.v that hold for EVERY
   element type / numeric instance (binary64 included); axiom-free (C17).
   1. n-d arrays in C order: ravel / unravel / ndindex, reshape, to_1d_points.
   2. points_in_rectbox as written = the per-point selector of Model/Geometry.v, on any shape.
   3. Grid.__init__: pixel_size unpacking, axes, shape, error kinds; link to Geometry.grid.
   4. CoordinateSystem: the setters as a state machine; copy / translate.
   5. distance_pairwise on Points objects = Geometry.distance_table (through C13's theorem). *)
From Coq Require Import List ZArith Bool Arith Lia Permutation.
From Arim Require Import Base.Num Model.Vec3 Model.Geometry Model.GeometryGlue Proofs.GeometryGridProofs.
From Arim Require Model.Blocks Proofs.BlocksProofs.
Import ListNotations.

(* ====================================================================================== *)
(* 1. n-d arrays                                                                          *)
(* ====================================================================================== *)
Lemma size_cons n s : size (n :: s) = n * size s.
Proof. reflexivity. Qed.

Lemma size_app s1 s2 : size (s1 ++ s2) = size s1 * size s2.
Proof. induction s1 as [|n s1 IH]; cbn [app]; [cbn; lia|]. rewrite !size_cons, IH. lia. Qed.

Lemma in_bounds_length shape idx : in_bounds shape idx = true -> length idx = length shape.
Proof.
  revert idx. induction shape as [|n s IH]; intros [|i r] H; cbn in H; try discriminate; [reflexivity|].
  apply andb_prop in H as [_ H]. cbn [length]. f_equal. apply IH. exact H.
Qed.

Lemma ravel_lt shape idx : in_bounds shape idx = true -> ravel shape idx < size shape.
Proof.
  revert idx. induction shape as [|n s IH]; intros [|i r] H; cbn in H; try discriminate.
  - cbn. lia.
  - apply andb_prop in H as [Hi H]. apply Nat.ltb_lt in Hi. specialize (IH r H).
    cbn [ravel]. rewrite size_cons. nia.
Qed.

Lemma unravel_in_bounds shape k : k < size shape -> in_bounds shape (unravel shape k) = true.
Proof.
  revert k. induction shape as [|n s IH]; intros k H; [reflexivity|].
  rewrite size_cons in H. cbn [unravel in_bounds].
  assert (Hm : size s <> 0) by (intros E; rewrite E in H; lia).
  apply andb_true_intro. split.
  - apply Nat.ltb_lt. apply Nat.div_lt_upper_bound; [exact Hm | lia].
  - apply IH. apply Nat.mod_upper_bound. exact Hm.
Qed.

Lemma ravel_unravel shape k : k < size shape -> ravel shape (unravel shape k) = k.
Proof.
  revert k. induction shape as [|n s IH]; intros k H; [cbn in *; lia|].
  rewrite size_cons in H. cbn [unravel ravel].
  assert (Hm : size s <> 0) by (intros E; rewrite E in H; lia).
  rewrite IH by (apply Nat.mod_upper_bound; exact Hm).
  pose proof (Nat.div_mod k (size s) Hm). lia.
Qed.

Lemma div_mod_unique_nat m i r : r < m -> (i * m + r) / m = i /\ (i * m + r) mod m = r.
Proof.
  intros Hr. assert (Hm : m <> 0) by lia. split.
  - rewrite Nat.div_add_l by exact Hm. rewrite Nat.div_small by exact Hr. lia.
  - rewrite Nat.add_comm, Nat.mod_add by exact Hm. apply Nat.mod_small. exact Hr.
Qed.

Lemma unravel_ravel shape idx : in_bounds shape idx = true -> unravel shape (ravel shape idx) = idx.
Proof.
  revert idx. induction shape as [|n s IH]; intros [|i r] H; cbn in H; try discriminate; [reflexivity|].
  apply andb_prop in H as [_ H]. cbn [ravel unravel].
  destruct (div_mod_unique_nat (size s) i (ravel s r) (ravel_lt s r H)) as [-> ->].
  rewrite IH by exact H. reflexivity.
Qed.

Lemma map_add_seq a b m : map (Nat.add a) (seq b m) = seq (a + b) m.
Proof.
  revert b. induction m as [|m IH]; intros b; [reflexivity|]. cbn [seq map]. f_equal.
  rewrite IH. f_equal. lia.
Qed.

Lemma seq_blocks m n a :
  seq (a * m) (n * m) = flat_map (fun i => map (fun r => i * m + r) (seq 0 m)) (seq a n).
Proof.
  revert a. induction n as [|n IH]; intros a; [reflexivity|].
  cbn [seq flat_map]. replace (S n * m) with (m + n * m) by lia. rewrite seq_app. f_equal.
  - change (fun r => a * m + r) with (Nat.add (a * m)). rewrite map_add_seq, Nat.add_0_r. reflexivity.
  - replace (a * m + m) with (S a * m) by lia. apply IH.
Qed.

Lemma flat_map_map {A B C} (f : B -> C) (g : A -> list B) (l : list A) :
  map f (flat_map g l) = flat_map (fun a => map f (g a)) l.
Proof. induction l as [|a l IH]; [reflexivity|]. cbn [flat_map]. rewrite map_app, IH. reflexivity. Qed.

Lemma flat_map_ext_in {A B} (f g : A -> list B) (l : list A) :
  (forall a, In a l -> f a = g a) -> flat_map f l = flat_map g l.
Proof.
  induction l as [|a l IH]; intros H; [reflexivity|]. cbn [flat_map].
  rewrite (H a (or_introl eq_refl)), IH; [reflexivity|]. intros b Hb. apply H. right. exact Hb.
Qed.

(* numpy.ndindex enumerates the multi-indices in C order: the k-th one is unravel k *)
Lemma ndindex_unravel shape : ndindex shape = map (unravel shape) (seq 0 (size shape)).
Proof.
  induction shape as [|n s IH]; [reflexivity|].
  cbn [ndindex]. rewrite size_cons. pose proof (seq_blocks (size s) n 0) as E. change (0 * size s) with 0 in E.
  rewrite E. rewrite flat_map_map.
  apply flat_map_ext_in. intros i _. rewrite IH, !map_map. apply map_ext_in. intros r Hr.
  apply in_seq in Hr. cbn [unravel].
  destruct (div_mod_unique_nat (size s) i r ltac:(lia)) as [-> ->]. reflexivity.
Qed.

Lemma ndindex_length shape : length (ndindex shape) = size shape.
Proof. rewrite ndindex_unravel, map_length, seq_length. reflexivity. Qed.

Lemma nd_get_flat {A} (a : nd A) k : k < size (nd_shape a) ->
  nd_get a (unravel (nd_shape a) k) = nth_error (nd_data a) k.
Proof.
  intros H. unfold nd_get. rewrite unravel_in_bounds by exact H. rewrite ravel_unravel by exact H. reflexivity.
Qed.

Lemma nd_get_some {A} (a : nd A) idx : nd_wf a -> in_bounds (nd_shape a) idx = true ->
  exists v, nd_get a idx = Some v.
Proof.
  intros W H. unfold nd_get. rewrite H.
  destruct (nth_error (nd_data a) (ravel (nd_shape a) idx)) as [v|] eqn:E; [exists v; reflexivity|].
  apply nth_error_None in E. pose proof (ravel_lt _ _ H). unfold nd_wf in W. lia.
Qed.

Lemma map_nth_error_seq {A} (l : list A) : map (nth_error l) (seq 0 (length l)) = map Some l.
Proof.
  induction l as [|x l IH]; [reflexivity|]. cbn [length seq map nth_error]. f_equal.
  rewrite <- seq_shift, map_map. exact IH.
Qed.

(* Points.__iter__ / enumerate: the points come in the order of the flat C-order data, each
   with its multi-index *)
Lemma points_enumerate_spec {T} (P : points T) : nd_wf P ->
  map fst (points_enumerate P) = map (unravel (nd_shape P)) (seq 0 (size (nd_shape P)))
  /\ map snd (points_enumerate P) = map Some (nd_data P).
Proof.
  intros W. unfold points_enumerate. rewrite !map_map. cbn [fst snd]. split.
  - rewrite map_id. apply ndindex_unravel.
  - rewrite ndindex_unravel, map_map. rewrite <- map_nth_error_seq. rewrite W.
    apply map_ext_in. intros k Hk. apply in_seq in Hk. apply nd_get_flat. lia.
Qed.

(* the three coordinate arrays of equal length seen as one list of points *)
Definition zip3v {T} (xs ys zs : list T) : list (vec3 T) :=
  map (fun p => (fst p, fst (snd p), snd (snd p))) (combine xs (combine ys zs)).

Lemma nd_get_map {A B} (f : A -> B) (a : nd A) idx : nd_get (nd_map f a) idx = option_map f (nd_get a idx).
Proof.
  unfold nd_get, nd_map. cbn [nd_shape nd_data]. destruct (in_bounds (nd_shape a) idx); [apply nth_error_map | reflexivity].
Qed.

Lemma nd_map_wf {A B} (f : A -> B) (a : nd A) : nd_wf a -> nd_wf (nd_map f a).
Proof. unfold nd_wf, nd_map. cbn [nd_shape nd_data]. rewrite map_length. intros H; exact H. Qed.

Lemma nd_map_id_ext {A} (f : A -> A) (a : nd A) : (forall x, f x = x) -> nd_map f a = a.
Proof.
  intros H. destruct a as [s d]. unfold nd_map. cbn [nd_shape nd_data]. f_equal.
  rewrite (map_ext _ (fun x => x)) by exact H. apply map_id.
Qed.

Lemma nd_map_map {A B C} (g : B -> C) (f : A -> B) (a : nd A) : nd_map g (nd_map f a) = nd_map (fun x => g (f x)) a.
Proof. unfold nd_map. cbn [nd_shape nd_data]. rewrite map_map. reflexivity. Qed.

(* broadcasting  a[..., newaxis] (op) b[newaxis, ...] : the index of the result is the
   concatenation of the two indices *)
Lemma in_bounds_app s1 s2 i1 i2 : in_bounds s1 i1 = true -> in_bounds s2 i2 = true ->
  in_bounds (s1 ++ s2) (i1 ++ i2) = true.
Proof.
  revert i1. induction s1 as [|n s1 IH]; intros [|i i1] H1 H2; cbn [in_bounds] in H1; try discriminate; [exact H2|].
  apply andb_prop in H1 as [Hi H1]. cbn [app in_bounds]. rewrite Hi. cbn [andb]. apply IH; assumption.
Qed.

Lemma ravel_app s1 s2 i1 i2 : in_bounds s1 i1 = true ->
  ravel (s1 ++ s2) (i1 ++ i2) = ravel s1 i1 * size s2 + ravel s2 i2.
Proof.
  revert i1. induction s1 as [|n s1 IH]; intros [|i i1] H1; cbn [in_bounds] in H1; try discriminate; [reflexivity|].
  apply andb_prop in H1 as [_ H1]. cbn [app ravel]. rewrite IH by exact H1. rewrite size_app. ring.
Qed.

Lemma nth_error_flat_map_uniform {A B} (f : A -> list B) (l : list A) m a b x :
  (forall y, length (f y) = m) -> nth_error l a = Some x -> b < m ->
  nth_error (flat_map f l) (a * m + b) = nth_error (f x) b.
Proof.
  intros Hm. revert a. induction l as [|y l IH]; intros a Ha Hb; [destruct a; discriminate|].
  cbn [flat_map]. destruct a as [|a]; cbn [nth_error] in Ha.
  - injection Ha as ->. cbn [Nat.mul Nat.add]. apply nth_error_app1. rewrite Hm. exact Hb.
  - rewrite nth_error_app2 by (rewrite Hm; lia). rewrite Hm.
    replace (S a * m + b - m) with (a * m + b) by lia. apply IH; assumption.
Qed.

Lemma zip3v_nth_error {T} (xs ys zs : list T) k a b c :
  nth_error xs k = Some a -> nth_error ys k = Some b -> nth_error zs k = Some c ->
  nth_error (zip3v xs ys zs) k = Some (a, b, c).
Proof.
  unfold zip3v. revert xs ys zs. induction k as [|k IH]; intros [|x xs] [|y ys] [|z zs] Hx Hy Hz; cbn in Hx, Hy, Hz; try discriminate.
  - injection Hx as ->. injection Hy as ->. injection Hz as ->. reflexivity.
  - cbn [combine map nth_error]. apply IH; assumption.
Qed.

(* ---- group3 / Points.__init__ ---------------------------------------------------------- *)
Lemma group3_ungroup3 {T} (l : list (vec3 T)) : group3 (ungroup3 l) = l.
Proof.
  induction l as [|[[a b] c] l IH]; [reflexivity|]. cbn [ungroup3 flat_map app vx vy vz fst snd group3].
  f_equal. exact IH.
Qed.

Lemma ungroup3_length {T} (l : list (vec3 T)) : length (ungroup3 l) = 3 * length l.
Proof. unfold ungroup3. induction l as [|v l IH]; [reflexivity|]. cbn [flat_map]. rewrite app_length, IH. cbn [length]. lia. Qed.

Lemma points_init_spec {T} (ashape : list nat) (flat : list T) :
  match points_init ashape flat with
  | inr P => exists s, ashape = s ++ [3] /\ P = mkNd s (group3 flat)
  | inl IndexError => ashape = []
  | inl ValueError => exists s n, ashape = s ++ [n] /\ n <> 3
  | inl _ => False
  end.
Proof.
  unfold points_init. destruct (rev ashape) as [|last r] eqn:E.
  - apply (f_equal (@rev nat)) in E. rewrite rev_involutive in E. exact E.
  - apply (f_equal (@rev nat)) in E. rewrite rev_involutive in E. cbn [rev] in E.
    destruct (Nat.eqb_spec last 3) as [->|Hn].
    + exists (rev r). split; [exact E | reflexivity].
    + exists (rev r), last. split; assumption.
Qed.

Lemma points_init_coords {T} (P : points T) :
  points_init (points_coords_shape P) (points_coords_flat P) = inr P.
Proof.
  unfold points_init, points_coords_shape, points_coords_flat. rewrite rev_app_distr. cbn [rev app].
  cbn [Nat.eqb]. rewrite rev_involutive, group3_ungroup3. destruct P; reflexivity.
Qed.

Lemma points_size_spec {T} (P : points T) : points_size P = size (nd_shape P) /\ points_ndim P = length (nd_shape P).
Proof.
  unfold points_size, points_ndim, points_coords_shape. rewrite size_app, app_length. cbn [size fold_right length].
  split; [|lia]. rewrite Nat.mul_1_r. apply Nat.div_mul. lia.
Qed.

(* ---- reshape ------------------------------------------------------------------------------ *)
Lemma count_unknown_cons d l :
  count_unknown (d :: l) = if (d <? 0)%Z then S (count_unknown l) else count_unknown l.
Proof. unfold count_unknown. cbn [filter]. destruct (d <? 0)%Z; reflexivity. Qed.

Lemma known_prod_cons d l :
  known_prod (d :: l) = if (d <? 0)%Z then known_prod l else (d * known_prod l)%Z.
Proof. reflexivity. Qed.

Lemma known_prod_nonneg l : (0 <= known_prod l)%Z.
Proof.
  induction l as [|d l IH]; [cbn; lia|]. rewrite known_prod_cons.
  destruct (Z.ltb_spec d 0); [exact IH | nia].
Qed.

(* no unknown dimension: the product of the requested shape *)
Lemma size_known l : count_unknown l = 0 -> Z.of_nat (size (map Z.to_nat l)) = known_prod l.
Proof.
  induction l as [|d l IH]; intros H; [reflexivity|].
  rewrite count_unknown_cons in H. rewrite known_prod_cons. destruct (Z.ltb_spec d 0) as [Hd|Hd]; [discriminate|].
  cbn [map]. rewrite size_cons, Nat2Z.inj_mul, IH by exact H. rewrite Z2Nat.id by exact Hd. reflexivity.
Qed.

Lemma size_known_ext (f : Z -> nat) l : count_unknown l = 0 ->
  map (fun d => if (d <? 0)%Z then f d else Z.to_nat d) l = map Z.to_nat l.
Proof.
  induction l as [|d l IH]; intros H; [reflexivity|].
  rewrite count_unknown_cons in H. cbn [map]. destruct (Z.ltb_spec d 0) as [Hd|Hd]; [discriminate|].
  f_equal. apply IH. exact H.
Qed.

(* one unknown dimension replaced by q *)
Lemma size_inferred (q : nat) l : count_unknown l = 1 ->
  Z.of_nat (size (map (fun d => if (d <? 0)%Z then q else Z.to_nat d) l)) = (known_prod l * Z.of_nat q)%Z.
Proof.
  induction l as [|d l IH]; intros H; [discriminate|].
  rewrite count_unknown_cons in H. rewrite known_prod_cons. cbn [map]. rewrite size_cons, Nat2Z.inj_mul.
  destruct (Z.ltb_spec d 0) as [Hd|Hd].
  - injection H as H. rewrite (size_known_ext (fun _ => q)) by exact H. rewrite size_known by exact H. lia.
  - rewrite IH by exact H. rewrite Z2Nat.id by exact Hd. ring.
Qed.

(* whatever is asked, a successful reshape has exactly as many entries as the array *)
Lemma np_reshape_shape_size total l s : np_reshape_shape total l = inr s ->
  size s = total /\ length s = length l.
Proof.
  unfold np_reshape_shape. destruct (count_unknown l) as [|[|c]] eqn:C; [| |discriminate].
  - destruct (Z.eqb_spec (known_prod l) (Z.of_nat total)) as [E|]; [|discriminate].
    intros H. injection H as <-. split; [|apply map_length]. apply Nat2Z.inj. rewrite size_known by exact C. exact E.
  - destruct (Z.eqb_spec (known_prod l) 0) as [|Hk]; [discriminate|].
    destruct (Z.eqb_spec (Z.of_nat total mod known_prod l) 0) as [Hm|]; [|discriminate].
    intros H. injection H as <-. split; [|apply map_length]. apply Nat2Z.inj.
    rewrite (size_inferred (Z.to_nat (Z.of_nat total / known_prod l)) l C).
    pose proof (known_prod_nonneg l) as Hp.
    rewrite Z2Nat.id by (apply Z.div_pos; lia).
    pose proof (Z.div_mod (Z.of_nat total) (known_prod l) Hk). lia.
Qed.

(* every failure of reshape is a ValueError *)
Lemma np_reshape_shape_err total l e : np_reshape_shape total l = inl e -> e = ValueError.
Proof.
  unfold np_reshape_shape. destruct (count_unknown l) as [|[|c]].
  - destruct (_ =? _)%Z; intros H; [discriminate | injection H as <-; reflexivity].
  - destruct (_ =? _)%Z; [intros H; injection H as <-; reflexivity|].
    destruct (_ =? _)%Z; intros H; [discriminate | injection H as <-; reflexivity].
  - intros H; injection H as <-; reflexivity.
Qed.

Lemma count_unknown_of_nat (s : list nat) : count_unknown (map Z.of_nat s) = 0.
Proof.
  induction s as [|n s IH]; [reflexivity|]. cbn [map]. rewrite count_unknown_cons.
  destruct (Z.ltb_spec (Z.of_nat n) 0); [lia | exact IH].
Qed.

Lemma count_unknown_app l1 l2 : count_unknown (l1 ++ l2) = count_unknown l1 + count_unknown l2.
Proof. unfold count_unknown. rewrite filter_app, app_length. reflexivity. Qed.

(* a shape of non-negative ints with the right number of entries is accepted as it is *)
Lemma np_reshape_shape_exact (s : list nat) : np_reshape_shape (size s) (map Z.of_nat s) = inr s.
Proof.
  unfold np_reshape_shape. rewrite count_unknown_of_nat.
  rewrite <- (size_known (map Z.of_nat s)) by apply count_unknown_of_nat.
  rewrite map_map. rewrite (map_ext _ (fun n => n)) by (intros n; apply Nat2Z.id). rewrite map_id.
  rewrite Z.eqb_refl. reflexivity.
Qed.

Lemma last_is_three (f : Z -> nat) (l : list Z) (s : list nat) :
  map (fun d => if (d <? 0)%Z then f d else Z.to_nat d) (l ++ [3%Z]) = s ->
  s = map (fun d => if (d <? 0)%Z then f d else Z.to_nat d) l ++ [3].
Proof. intros <-. rewrite map_app. reflexivity. Qed.

(* the target shape ( *new_shape, 3): the resolved shape ends with 3 *)
Lemma np_reshape_shape_last3 total l s' : np_reshape_shape total (l ++ [3%Z]) = inr s' ->
  exists s, s' = s ++ [3] /\ length s = length l.
Proof.
  unfold np_reshape_shape. destruct (count_unknown (l ++ [3%Z])) as [|[|c]] eqn:C; [| |discriminate].
  - destruct (_ =? _)%Z; [|discriminate]. intros H. injection H as <-. rewrite map_app. cbn [map].
    eexists. split; [reflexivity | apply map_length].
  - destruct (_ =? _)%Z; [discriminate|]. destruct (_ =? _)%Z; [|discriminate].
    intros H. injection H as <-. rewrite map_app. cbn [map Z.ltb Z.compare].
    eexists. split; [reflexivity | apply map_length].
Qed.

Definition shape_of_arg (a : shape_arg) : list Z := match a with RsInt n => [n] | RsTuple l => l end.

(* Points.reshape / to_1d_points never touch the data: same points in the same C order, same
   number of points; a failure is a ValueError *)
Lemma points_reshape_spec {T} (P : points T) (a : shape_arg) : nd_wf P ->
  match points_reshape P a with
  | inr Q => nd_data Q = nd_data P /\ size (nd_shape Q) = size (nd_shape P) /\ nd_wf Q
             /\ length (nd_shape Q) = length (shape_of_arg a)
  | inl e => e = ValueError
  end.
Proof.
  intros W. unfold points_reshape. fold (shape_of_arg a).
  destruct (np_reshape_shape (size (points_coords_shape P)) (shape_of_arg a ++ [3%Z])) as [e|s'] eqn:E.
  - exact (np_reshape_shape_err _ _ _ E).
  - destruct (np_reshape_shape_last3 _ _ _ E) as (s & -> & Hlen).
    destruct (np_reshape_shape_size _ _ _ E) as [Hs _].
    unfold points_init. rewrite rev_app_distr. cbn [rev app Nat.eqb]. rewrite rev_involutive.
    unfold points_coords_flat. rewrite group3_ungroup3. cbn [nd_data nd_shape].
    unfold points_coords_shape in Hs. rewrite !size_app in Hs. cbn [size fold_right] in Hs.
    assert (Hsz : size s = size (nd_shape P)) by lia.
    repeat split; [exact Hsz | | exact Hlen]. unfold nd_wf. cbn [nd_data nd_shape]. rewrite Hsz. exact W.
Qed.

(* asking for a shape of non-negative ints with the same number of points always succeeds *)
Lemma points_reshape_exact {T} (P : points T) (s : list nat) : size s = size (nd_shape P) ->
  points_reshape P (RsTuple (map Z.of_nat s)) = inr (mkNd s (nd_data P)).
Proof.
  intros Hs. unfold points_reshape.
  replace (map Z.of_nat s ++ [3%Z]) with (map Z.of_nat (s ++ [3])) by (rewrite map_app; reflexivity).
  replace (size (points_coords_shape P)) with (size (s ++ [3]))
    by (unfold points_coords_shape; rewrite !size_app, Hs; reflexivity).
  rewrite np_reshape_shape_exact. unfold points_init. rewrite rev_app_distr. cbn [rev app Nat.eqb].
  rewrite rev_involutive. unfold points_coords_flat. rewrite group3_ungroup3. reflexivity.
Qed.

Lemma points_reshape_int {T} (P : points T) (n : Z) : points_reshape P (RsInt n) = points_reshape P (RsTuple [n]).
Proof. reflexivity. Qed.

(* to_1d_points: shape (numpoints,), same data; reshaping back to the old shape gives the
   object back (round trip, any shape) *)
Lemma points_to_1d_spec {T} (P : points T) :
  points_to_1d P = inr (mkNd [size (nd_shape P)] (nd_data P)).
Proof.
  unfold points_to_1d. rewrite points_reshape_int. destruct (points_size_spec P) as [-> _].
  change [Z.of_nat (size (nd_shape P))] with (map Z.of_nat [size (nd_shape P)]).
  apply points_reshape_exact. cbn [size fold_right]. lia.
Qed.

Lemma points_reshape_roundtrip {T} (P : points T) (s : list nat) : size s = size (nd_shape P) ->
  exists Q, points_reshape P (RsTuple (map Z.of_nat s)) = inr Q /\
            points_reshape Q (RsTuple (map Z.of_nat (nd_shape P))) = inr P.
Proof.
  intros Hs. eexists. split; [apply points_reshape_exact; exact Hs|].
  rewrite points_reshape_exact by (cbn [nd_shape]; lia). destruct P; reflexivity.
Qed.

(* the same point is found at the multi-indices that have the same flat position *)
Lemma nd_get_same_flat {A} (a b : nd A) idx idx' :
  nd_data a = nd_data b -> in_bounds (nd_shape a) idx = true -> in_bounds (nd_shape b) idx' = true ->
  ravel (nd_shape a) idx = ravel (nd_shape b) idx' -> nd_get a idx = nd_get b idx'.
Proof. intros Hd H1 H2 Hr. unfold nd_get. rewrite H1, H2, Hd, Hr. reflexivity. Qed.

Lemma points_reshape_round_trip_full {T} (P : points T) (s : list nat) :
  points_to_1d P = inr (mkNd [size (nd_shape P)] (nd_data P)) /\
  (size s = size (nd_shape P) ->
   points_reshape P (RsTuple (map Z.of_nat s)) = inr (mkNd s (nd_data P)) /\
   points_reshape (mkNd s (nd_data P)) (RsTuple (map Z.of_nat (nd_shape P))) = inr P /\
   forall idx idx', in_bounds (nd_shape P) idx = true -> in_bounds s idx' = true ->
     ravel (nd_shape P) idx = ravel s idx' -> nd_get P idx = nd_get (mkNd s (nd_data P)) idx').
Proof.
  split; [exact (points_to_1d_spec P)|]. intros Hs.
  split; [exact (points_reshape_exact P s Hs)|]. split.
  - rewrite (points_reshape_exact (mkNd s (nd_data P)) (nd_shape P)) by (cbn [nd_shape]; lia). destruct P; reflexivity.
  - intros idx idx' H1 H2 Hr. exact (nd_get_same_flat P (mkNd s (nd_data P)) idx idx' eq_refl H1 H2 Hr).
Qed.

(* ====================================================================================== *)
(* 2. points_in_rectbox                                                                    *)
(* ====================================================================================== *)
Lemma shape_eqb_eq s1 s2 : shape_eqb s1 s2 = true <-> s1 = s2.
Proof.
  revert s2. induction s1 as [|a s1 IH]; intros [|b s2]; cbn [shape_eqb]; split; intros H; try discriminate; try reflexivity.
  - apply andb_prop in H as [Ha Hs]. apply Nat.eqb_eq in Ha. apply IH in Hs. subst. reflexivity.
  - injection H as -> ->. rewrite Nat.eqb_refl. apply IH. reflexivity.
Qed.

Lemma shape_eqb_refl s : shape_eqb s s = true.
Proof. apply shape_eqb_eq. reflexivity. Qed.

Lemma map2_map {A B C D} (f : B -> C -> D) (g : A -> B) (h : A -> C) (l : list A) :
  map2 f (map g l) (map h l) = map (fun a => f (g a) (h a)) l.
Proof. unfold map2. induction l as [|a l IH]; [reflexivity|]. cbn [map combine fst snd]. f_equal. exact IH. Qed.

Lemma repeat_map {A B} (b : B) (l : list A) : repeat b (length l) = map (fun _ => b) l.
Proof. induction l as [|a l IH]; [reflexivity|]. cbn [length repeat map]. f_equal. exact IH. Qed.

Lemma zip3v_unzip {T} (xs ys zs : list T) : length ys = length xs -> length zs = length xs ->
  xs = map vx (zip3v xs ys zs) /\ ys = map vy (zip3v xs ys zs) /\ zs = map vz (zip3v xs ys zs).
Proof.
  revert ys zs. induction xs as [|x xs IH]; intros [|y ys] [|z zs] Hy Hz; cbn in Hy, Hz; try discriminate.
  - repeat split; reflexivity.
  - destruct (IH ys zs ltac:(lia) ltac:(lia)) as (E1 & E2 & E3).
    unfold zip3v in *. cbn [combine map fst snd vx vy vz]. repeat split; f_equal; assumption.
Qed.

Lemma zip3v_of_points {T} (l : list (vec3 T)) : zip3v (map vx l) (map vy l) (map vz l) = l.
Proof.
  unfold zip3v. induction l as [|[[a b] c] l IH]; [reflexivity|]. cbn [map combine fst snd vx vy vz]. f_equal. exact IH.
Qed.

Lemma zip3v_length {T} (xs ys zs : list T) : length ys = length xs -> length zs = length xs ->
  length (zip3v xs ys zs) = length xs.
Proof. intros Hy Hz. unfold zip3v. rewrite map_length, !combine_length. lia. Qed.

Section Rectbox.
  Context {T : Type} (N : Num T).

  (* one optional bound of the list valid_ones, absorbed into the running mask *)
  Lemma fold_opt_mask (ps : list (vec3 T)) (b : option T) (f : T -> T -> bool) (pr : vec3 T -> T)
        (rest : list (list bool)) (g : vec3 T -> bool) :
    fold_left (map2 andb) ((match b with Some v => [map (f v) (map pr ps)] | None => [] end) ++ rest) (map g ps)
    = fold_left (map2 andb) rest (map (fun p => g p && match b with Some v => f v (pr p) | None => true end) ps).
  Proof.
    destruct b as [v|]; cbn [app fold_left].
    - rewrite map_map, map2_map. reflexivity.
    - f_equal. apply map_ext. intros p. rewrite andb_true_r. reflexivity.
  Qed.

  (* the loop over valid_ones computes, entry by entry, the per-point selector *)
  Lemma rectbox_loop (ps : list (vec3 T)) xmin xmax ymin ymax zmin zmax :
    fold_left (map2 andb)
      (rectbox_valid_ones N (mkNd [] (map vx ps)) (mkNd [] (map vy ps)) (mkNd [] (map vz ps))
                          xmin xmax ymin ymax zmin zmax)
      (repeat true (length ps))
    = map (in_rectbox N xmin xmax ymin ymax zmin zmax) ps.
  Proof.
    unfold rectbox_valid_ones. cbn [nd_data]. rewrite repeat_map.
    rewrite (fold_opt_mask ps xmin (fun b v => nleb N b v) vx).
    rewrite (fold_opt_mask ps ymin (fun b v => nleb N b v) vy).
    rewrite (fold_opt_mask ps zmin (fun b v => nleb N b v) vz).
    rewrite (fold_opt_mask ps xmax (fun b v => nleb N v b) vx).
    rewrite (fold_opt_mask ps ymax (fun b v => nleb N v b) vy).
    rewrite <- (app_nil_r (match zmax with Some b => _ | None => [] end)).
    rewrite (fold_opt_mask ps zmax (fun b v => nleb N v b) vz).
    cbn [fold_left]. apply map_ext. intros p. unfold in_rectbox, lower_ok, upper_ok. reflexivity.
  Qed.

  Lemma rectbox_valid_ones_shape (x y z : nd T) s1 s2 s3 xmin xmax ymin ymax zmin zmax :
    rectbox_valid_ones N x y z xmin xmax ymin ymax zmin zmax
    = rectbox_valid_ones N (mkNd s1 (nd_data x)) (mkNd s2 (nd_data y)) (mkNd s3 (nd_data z)) xmin xmax ymin ymax zmin zmax.
  Proof. reflexivity. Qed.

  (* the free function on arrays of ANY shape *)
  Lemma rectbox_free_pointwise (x y z : nd T) xmin xmax ymin ymax zmin zmax :
    nd_wf x -> nd_wf y -> nd_wf z -> nd_shape y = nd_shape x -> nd_shape z = nd_shape x ->
    rectbox_free N x y z xmin xmax ymin ymax zmin zmax
    = inr (mkNd (nd_shape x) (map (in_rectbox N xmin xmax ymin ymax zmin zmax)
                                  (zip3v (nd_data x) (nd_data y) (nd_data z)))).
  Proof.
    intros Wx Wy Wz Sy Sz. unfold rectbox_free. rewrite Sy, Sz, shape_eqb_refl. cbn [andb negb]. f_equal. f_equal.
    unfold nd_wf in *. rewrite Sy in Wy. rewrite Sz in Wz.
    destruct (zip3v_unzip (nd_data x) (nd_data y) (nd_data z) ltac:(lia) ltac:(lia)) as (Ex & Ey & Ez).
    rewrite (rectbox_valid_ones_shape x y z [] [] []).
    set (ps := zip3v (nd_data x) (nd_data y) (nd_data z)) in *.
    rewrite <- (rectbox_loop ps). rewrite <- Ex, <- Ey, <- Ez. f_equal. f_equal.
    unfold ps. rewrite zip3v_length by lia. symmetry. exact Wx.
  Qed.

  Lemma rectbox_free_shape_error (x y z : nd T) xmin xmax ymin ymax zmin zmax :
    (nd_shape x <> nd_shape y \/ nd_shape y <> nd_shape z) <->
    rectbox_free N x y z xmin xmax ymin ymax zmin zmax = inl ValueError.
  Proof.
    unfold rectbox_free.
    destruct (shape_eqb (nd_shape x) (nd_shape y)) eqn:E1; [destruct (shape_eqb (nd_shape y) (nd_shape z)) eqn:E2|];
      cbn [andb negb]; split; intros H; try reflexivity; try discriminate.
    - apply shape_eqb_eq in E1, E2. destruct H as [H|H]; contradiction.
    - right. intros E. apply shape_eqb_eq in E. congruence.
    - left. intros E. apply shape_eqb_eq in E. congruence.
  Qed.

  (* the Points method (any shape): never raises, one boolean per point, in place *)
  Lemma rectbox_points_pointwise (P : points T) xmin xmax ymin ymax zmin zmax : nd_wf P ->
    rectbox_points N P xmin xmax ymin ymax zmin zmax
    = inr (nd_map (in_rectbox N xmin xmax ymin ymax zmin zmax) P).
  Proof.
    intros W. unfold rectbox_points.
    rewrite rectbox_free_pointwise; try reflexivity;
      try (unfold nd_wf, pts_x, pts_y, pts_z, nd_map; cbn [nd_data nd_shape]; rewrite map_length; exact W).
    unfold pts_x, pts_y, pts_z, nd_map. cbn [nd_data nd_shape]. rewrite zip3v_of_points. reflexivity.
  Qed.
End Rectbox.

(* ---- Points.translate / rotate / norm2: shape kept, one result per point ------------------- *)
Lemma nth_error_map2 {A B C} (f : A -> B -> C) l1 l2 k a b :
  nth_error l1 k = Some a -> nth_error l2 k = Some b -> nth_error (map2 f l1 l2) k = Some (f a b).
Proof.
  unfold map2. revert l1 l2. induction k as [|k IH]; intros [|x l1] [|y l2] H1 H2; cbn in H1, H2; try discriminate.
  - injection H1 as ->. injection H2 as ->. reflexivity.
  - cbn [combine map nth_error]. apply IH; assumption.
Qed.

Section PointsMethods.
  Context {T : Type} (N : Num T).

  (* one direction of shape (3,) for all the points *)
  Lemma points_translate_one (P : points T) a b c :
    points_translate N P [3] [a; b; c] = inr (nd_map (fun p => vadd N p (a, b, c)) P).
  Proof. reflexivity. Qed.

  (* one direction per point (an array of the shape of coords), for points of 1 or more dimensions *)
  Lemma points_translate_each (P : points T) dflat idx p d :
    nd_shape P <> [] ->
    nd_get P idx = Some p -> nth_error (group3 dflat) (ravel (nd_shape P) idx) = Some d ->
    exists Q, points_translate N P (points_coords_shape P) dflat = inr Q /\ nd_shape Q = nd_shape P /\
              nd_get Q idx = Some (vadd N p d).
  Proof.
    intros Hne Hp Hd. unfold points_translate.
    assert (E : shape_eqb (points_coords_shape P) [3] = false).
    { unfold points_coords_shape. destruct (nd_shape P) as [|n s]; [contradiction|].
      destruct s; cbn [app shape_eqb]; apply andb_false_r. }
    rewrite E, shape_eqb_refl. eexists. split; [reflexivity|]. split; [reflexivity|].
    unfold nd_get in *. cbn [nd_shape nd_data]. destruct (in_bounds (nd_shape P) idx); [|discriminate].
    apply nth_error_map2; assumption.
  Qed.

  (* other shapes of `direction` are outside the model (numpy's general broadcasting) *)
  Lemma points_translate_other_shapes (P : points T) dshape dflat :
    dshape <> [3] -> dshape <> points_coords_shape P -> points_translate N P dshape dflat = inl NotModelled.
  Proof.
    intros H1 H2. unfold points_translate.
    destruct (shape_eqb dshape [3]) eqn:E1; [apply shape_eqb_eq in E1; contradiction|].
    destruct (shape_eqb dshape (points_coords_shape P)) eqn:E2; [apply shape_eqb_eq in E2; contradiction|]. reflexivity.
  Qed.

  Lemma points_rotate_get (P : points T) R ce idx :
    nd_shape (points_rotate N P R ce) = nd_shape P /\
    nd_get (points_rotate N P R ce) idx = option_map (rotate N R ce) (nd_get P idx).
  Proof. split; [reflexivity | apply nd_get_map]. Qed.

  Lemma points_norm2_get (P : points T) idx :
    nd_shape (points_norm2 N P) = nd_shape P /\
    nd_get (points_norm2 N P) idx = option_map (norm2_v N) (nd_get P idx).
  Proof. split; [reflexivity | apply nd_get_map]. Qed.
End PointsMethods.

(* ====================================================================================== *)
(* 3. Grid                                                                                 *)
(* ====================================================================================== *)
Lemma concat_map_map {A B} (f : A -> B) (l : list (list A)) : map f (concat l) = concat (map (map f) l).
Proof. induction l as [|a l IH]; [reflexivity|]. cbn [concat map]. rewrite map_app, IH. reflexivity. Qed.

Lemma flatten_c_map {A B} (f : A -> B) (a : list (list (list A))) :
  map f (flatten_c a) = flatten_c (map (map (map f)) a).
Proof. unfold flatten_c. rewrite concat_map_map, !map_map. f_equal. apply map_ext. intros r. apply concat_map_map. Qed.

Section GridGlue.
  Context {T : Type} (N : Num T).

  Lemma grid_axis_err_option lo hi d :
    grid_axis N lo hi d = match grid_axis_err N lo hi d with inr v => Some v | inl _ => None end.
  Proof.
    unfold grid_axis, grid_axis_err. destruct (neqb N lo hi); [reflexivity|].
    destruct (neqb N d (n0 N)); [reflexivity|]. destruct (linspace N lo hi (grid_numpoints N lo hi d)); reflexivity.
  Qed.

  (* which exception: division by a zero pixel size, or a negative number of points *)
  Lemma grid_axis_err_kinds lo hi d e : grid_axis_err N lo hi d = inl e ->
    neqb N lo hi = false /\
    ((e = ZeroDivisionError /\ neqb N d (n0 N) = true) \/
     (e = ValueError /\ neqb N d (n0 N) = false /\ (grid_numpoints N lo hi d < 0)%Z)).
  Proof.
    unfold grid_axis_err. destruct (neqb N lo hi); [discriminate|]. intros H. split; [reflexivity|].
    destruct (neqb N d (n0 N)); [injection H as <-; left; split; reflexivity|].
    unfold linspace in H. destruct (Z.ltb_spec (grid_numpoints N lo hi d) 0) as [Hn|Hn].
    - injection H as <-. right. repeat split. exact Hn.
    - destruct (grid_numpoints N lo hi d =? 1)%Z; discriminate.
  Qed.

  (* one number = the same pixel size on the three axes; three numbers = one per axis, in
     the order x, y, z; any other length is refused *)
  Lemma grid_init_scalar xmin xmax ymin ymax zmin zmax d :
    grid_init N xmin xmax ymin ymax zmin zmax (PxScalar d)
    = grid_init N xmin xmax ymin ymax zmin zmax (PxSeq [d; d; d]).
  Proof. reflexivity. Qed.

  Lemma grid_init_bad_length xmin xmax ymin ymax zmin zmax l : length l <> 3 ->
    grid_init N xmin xmax ymin ymax zmin zmax (PxSeq l) = inl ValueError.
  Proof.
    intros H. unfold grid_init, unpack_pixel.
    destruct l as [|a [|b [|c [|d l]]]]; try reflexivity. contradiction H. reflexivity.
  Qed.

  (* the object that comes back: each axis vector is built from ITS OWN bounds and pixel
     size, the point array has shape (numx, numy, numz) and is the x-major flattening of the
     'ij' meshgrid; it is the grid of Model/Geometry.v *)
  Lemma grid_init_structure xmin xmax ymin ymax zmin zmax dx dy dz g :
    grid_init N xmin xmax ymin ymax zmin zmax (PxSeq [dx; dy; dz]) = inr g ->
    grid_axis_err N xmin xmax dx = inr (go_xvect g) /\
    grid_axis_err N ymin ymax dy = inr (go_yvect g) /\
    grid_axis_err N zmin zmax dz = inr (go_zvect g) /\
    go_points g = mkNd [length (go_xvect g); length (go_yvect g); length (go_zvect g)]
                       (flatten_c (meshgrid_ij (go_xvect g) (go_yvect g) (go_zvect g))) /\
    nd_wf (go_points g) /\
    grid N xmin xmax ymin ymax zmin zmax dx dy dz
    = Some (mkGrid (go_xvect g) (go_yvect g) (go_zvect g) (meshgrid_ij (go_xvect g) (go_yvect g) (go_zvect g))).
  Proof.
    unfold grid_init, unpack_pixel, grid. rewrite !grid_axis_err_option.
    destruct (grid_axis_err N xmin xmax dx) as [e|xs]; [discriminate|].
    destruct (grid_axis_err N ymin ymax dy) as [e|ys]; [discriminate|].
    destruct (grid_axis_err N zmin zmax dz) as [e|zs]; [discriminate|].
    intros H. injection H as <-. cbn [go_xvect go_yvect go_zvect go_points].
    repeat split. unfold nd_wf. cbn [nd_data nd_shape size fold_right].
    rewrite flatten_meshgrid_length. lia.
  Qed.

  (* it raises exactly when one axis raises, with the exception of the FIRST failing axis in
     the order x, y, z *)
  Lemma grid_init_error xmin xmax ymin ymax zmin zmax dx dy dz e :
    grid_init N xmin xmax ymin ymax zmin zmax (PxSeq [dx; dy; dz]) = inl e <->
    grid_axis_err N xmin xmax dx = inl e \/
    ((exists v, grid_axis_err N xmin xmax dx = inr v) /\
     (grid_axis_err N ymin ymax dy = inl e \/
      ((exists v, grid_axis_err N ymin ymax dy = inr v) /\ grid_axis_err N zmin zmax dz = inl e))).
  Proof.
    unfold grid_init, unpack_pixel.
    destruct (grid_axis_err N xmin xmax dx) as [ex|xs].
    { split; [intros H; injection H as ->; left; reflexivity|].
      intros [H|[[v H] _]]; [injection H as ->; reflexivity | discriminate]. }
    destruct (grid_axis_err N ymin ymax dy) as [ey|ys].
    { split; [intros H; injection H as ->; right; split; [eexists; reflexivity | left; reflexivity]|].
      intros [H|[_ [H|[[v H] _]]]]; [discriminate | injection H as ->; reflexivity | discriminate]. }
    destruct (grid_axis_err N zmin zmax dz) as [ez|zs].
    { split; [intros H; injection H as ->; right; split; [eexists; reflexivity | right; split; [eexists; reflexivity | reflexivity]]|].
      intros [H|[_ [H|[_ H]]]]; [discriminate | discriminate | injection H as ->; reflexivity]. }
    split; [discriminate|]. intros [H|[_ [H|[_ H]]]]; discriminate.
  Qed.

  (* the point at the multi-index (ix, iy, iz) of a Grid *)
  Lemma grid_points_get (xs ys zs : list T) ix iy iz (d : T) :
    ix < length xs -> iy < length ys -> iz < length zs ->
    nd_get (mkNd [length xs; length ys; length zs] (flatten_c (meshgrid_ij xs ys zs))) [ix; iy; iz]
    = Some (nth ix xs d, nth iy ys d, nth iz zs d).
  Proof.
    intros Hx Hy Hz. unfold nd_get. cbn [nd_shape nd_data in_bounds].
    apply Nat.ltb_lt in Hx as Hx', Hy as Hy', Hz as Hz'. rewrite Hx', Hy', Hz'. cbn [andb].
    cbn [ravel size fold_right].
    replace (ix * (length ys * (length zs * 1)) + (iy * (length zs * 1) + (iz * 1 + 0)))
      with ((ix * length ys + iy) * length zs + iz) by ring.
    rewrite <- (flatten_meshgrid_nth xs ys zs ix iy iz d Hx Hy Hz).
    apply nth_error_nth'. rewrite flatten_meshgrid_length.
    assert (A : ix * length ys + iy + 1 <= length xs * length ys) by nia.
    assert (B : (ix * length ys + iy + 1) * length zs <= length xs * length ys * length zs)
      by (apply Nat.mul_le_mono_r; exact A).
    nia.
  Qed.

  (* Grid.points_in_rectbox: the mask of a grid is the outer product of three per-axis masks *)
  Definition axis_mask (lo hi : option T) (v : list T) : list bool :=
    map (fun x => lower_ok N lo x && upper_ok N hi x) v.

  Lemma rectbox_grid_separable g xmin xmax ymin ymax zmin zmax :
    go_points g = mkNd [length (go_xvect g); length (go_yvect g); length (go_zvect g)]
                       (flatten_c (meshgrid_ij (go_xvect g) (go_yvect g) (go_zvect g))) ->
    rectbox_grid N g xmin xmax ymin ymax zmin zmax
    = inr (mkNd [length (go_xvect g); length (go_yvect g); length (go_zvect g)]
             (flatten_c (map (fun mx => map (fun my => map (fun mz => mx && my && mz)
                                                          (axis_mask zmin zmax (go_zvect g)))
                                           (axis_mask ymin ymax (go_yvect g)))
                             (axis_mask xmin xmax (go_xvect g))))).
  Proof.
    intros Hp. unfold rectbox_grid. rewrite rectbox_points_pointwise.
    2:{ rewrite Hp. unfold nd_wf. cbn [nd_data nd_shape size fold_right]. rewrite flatten_meshgrid_length. lia. }
    rewrite Hp. unfold nd_map. cbn [nd_shape nd_data]. f_equal. f_equal.
    rewrite flatten_c_map. unfold meshgrid_ij, axis_mask. rewrite !map_map. f_equal.
    apply map_ext. intros x. rewrite !map_map. apply map_ext. intros y. rewrite !map_map. apply map_ext. intros z.
    unfold in_rectbox. cbn [vx vy vz fst snd].
    destruct (lower_ok N xmin x), (lower_ok N ymin y), (lower_ok N zmin z),
             (upper_ok N xmax x), (upper_ok N ymax y), (upper_ok N zmax z); reflexivity.
  Qed.

  (* to_oriented_points: the flattened grid with one identity orientation per point *)
  Lemma grid_to_oriented_points_spec g :
    grid_to_oriented_points N g
    = inr (mkNd [size (nd_shape (go_points g))] (nd_data (go_points g)),
           mkNd [size (nd_shape (go_points g))] (repeat (mid3 N) (size (nd_shape (go_points g))))).
  Proof.
    unfold grid_to_oriented_points. rewrite points_to_1d_spec. cbn [nd_shape size fold_right].
    rewrite Nat.mul_1_r. reflexivity.
  Qed.
End GridGlue.

(* ====================================================================================== *)
(* 4. CoordinateSystem: the setters as a state machine                                     *)
(* ====================================================================================== *)
Lemma as_vec3_of_vec3 {T} (v : vec3 T) : as_vec3 (arr_of_vec3 v) = inr v.
Proof. destruct v as [[a b] c]. reflexivity. Qed.

Lemma as_vec3_inr {T} (a : arr T) v : as_vec3 a = inr v -> a = arr_of_vec3 v.
Proof.
  unfold as_vec3. destruct a as [s l].
  repeat match goal with |- context [match ?x with _ => _ end] => destruct x end; try discriminate.
  intros H. injection H as <-. reflexivity.
Qed.

Lemma as_vec3_err {T} (a : arr T) e : as_vec3 a = inl e -> e = ValueError.
Proof.
  unfold as_vec3. destruct a as [s l].
  repeat match goal with |- context [match ?x with _ => _ end] => destruct x end; try discriminate;
    intros H; injection H as <-; reflexivity.
Qed.

Lemma last_cons {A} (a : A) (l : list A) (d : A) : last (a :: l) d = last l a.
Proof.
  revert a d. induction l as [|b l IH]; intros a d; [reflexivity|].
  change (last (a :: b :: l) d) with (last (b :: l) d). rewrite (IH b d), (IH b a). reflexivity.
Qed.

Section CSMachine.
  Context {T : Type} (N : Num T).

  (* whether an assignment is accepted depends on the assigned value ONLY (not on the state) *)
  Definition accepts (o : cs_op) : option gerr :=
    match o with
    | SetOrigin a => match as_vec3 a with inl e => Some e | inr _ => None end
    | SetI a | SetJ a =>
        match as_vec3 a with inl e => Some e | inr v => if unit_ok N v then None else Some ValueError end
    end.
  (* the values that the history assigned successfully to each slot, oldest first *)
  Definition accepted_origin (ops : list cs_op) : list (vec3 T) :=
    flat_map (fun o => match o with
                       | SetOrigin a => match as_vec3 a with inr v => [v] | inl _ => [] end
                       | _ => [] end) ops.
  Definition accepted_i (ops : list cs_op) : list (vec3 T) :=
    flat_map (fun o => match o with
                       | SetI a => match as_vec3 a with inr v => if unit_ok N v then [v] else [] | inl _ => [] end
                       | _ => [] end) ops.
  Definition accepted_j (ops : list cs_op) : list (vec3 T) :=
    flat_map (fun o => match o with
                       | SetJ a => match as_vec3 a with inr v => if unit_ok N v then [v] else [] | inl _ => [] end
                       | _ => [] end) ops.

  Definition cs_ok (c : cstate) : Prop := unit_ok N (c_i c) = true /\ unit_ok N (c_j c) = true.

  Lemma cs_assign_accepts c o :
    match cs_assign N c o with inl e => accepts o = Some e | inr _ => accepts o = None end.
  Proof.
    destruct o as [a|a|a]; cbn [cs_assign accepts]; unfold set_origin, set_i_hat, set_j_hat;
      destruct (as_vec3 a) as [e|v]; try reflexivity; destruct (unit_ok N v); reflexivity.
  Qed.

  (* every failure of a setter is a ValueError *)
  Lemma cs_assign_err c o e : cs_assign N c o = inl e -> e = ValueError.
  Proof.
    destruct o as [a|a|a]; cbn [cs_assign]; unfold set_origin, set_i_hat, set_j_hat;
      destruct (as_vec3 a) as [e'|v] eqn:E; try (intros H; injection H as <-; exact (as_vec3_err _ _ E));
      try discriminate; destruct (unit_ok N v); try discriminate; intros H; injection H as <-; reflexivity.
  Qed.

  (* a refused assignment leaves the three slots as they were *)
  Lemma cs_step_refused c o e : cs_assign N c o = inl e -> cs_step N c o = c.
  Proof. intros H. unfold cs_step. rewrite H. reflexivity. Qed.

  (* an accepted assignment changes its own slot only *)
  Lemma cs_step_accepted c o c' : cs_assign N c o = inr c' ->
    cs_step N c o = c' /\
    match o with
    | SetOrigin a => as_vec3 a = inr (c_origin c') /\ c_i c' = c_i c /\ c_j c' = c_j c
    | SetI a => as_vec3 a = inr (c_i c') /\ unit_ok N (c_i c') = true /\ c_origin c' = c_origin c /\ c_j c' = c_j c
    | SetJ a => as_vec3 a = inr (c_j c') /\ unit_ok N (c_j c') = true /\ c_origin c' = c_origin c /\ c_i c' = c_i c
    end.
  Proof.
    intros H. split; [unfold cs_step; rewrite H; reflexivity|].
    destruct o as [a|a|a]; cbn [cs_assign] in H; unfold set_origin, set_i_hat, set_j_hat in H;
      destruct (as_vec3 a) as [e|v]; try discriminate.
    - injection H as <-. repeat split.
    - destruct (unit_ok N v) eqn:U; [|discriminate]. injection H as <-. repeat split. exact U.
    - destruct (unit_ok N v) eqn:U; [|discriminate]. injection H as <-. repeat split. exact U.
  Qed.

  Lemma cs_step_ok c o : cs_ok c -> cs_ok (cs_step N c o).
  Proof.
    intros [Hi Hj]. destruct (cs_assign N c o) as [e|c'] eqn:E.
    - rewrite (cs_step_refused c o e E). split; assumption.
    - destruct (cs_step_accepted c o c' E) as [-> H]. unfold cs_ok. destruct o as [a|a|a].
      + destruct H as (_ & -> & ->). split; assumption.
      + destruct H as (_ & U & _ & ->). split; assumption.
      + destruct H as (_ & U & _ & ->). split; assumption.
  Qed.

  (* INVARIANT of any history: both stored vectors pass the unit-norm check *)
  Lemma cs_run_ok c ops : cs_ok c -> cs_ok (cs_run N c ops).
  Proof.
    revert c. induction ops as [|o ops IH]; intros c H; [exact H|]. cbn [cs_run fold_left].
    apply IH. apply cs_step_ok. exact H.
  Qed.

  (* after ANY history of accepted and refused assignments each slot holds the LAST value
     that was accepted for it (or the initial one) *)
  Lemma cs_run_last_accepted c ops :
    c_origin (cs_run N c ops) = last (accepted_origin ops) (c_origin c) /\
    c_i (cs_run N c ops) = last (accepted_i ops) (c_i c) /\
    c_j (cs_run N c ops) = last (accepted_j ops) (c_j c).
  Proof.
    revert c. induction ops as [|o ops IH]; intros c; [repeat split|].
    cbn [cs_run fold_left]. fold (cs_run N (cs_step N c o) ops). destruct (IH (cs_step N c o)) as (H1 & H2 & H3).
    rewrite H1, H2, H3. unfold accepted_origin, accepted_i, accepted_j. cbn [flat_map].
    unfold cs_step. destruct o as [a|a|a]; cbn [cs_assign app]; unfold set_origin, set_i_hat, set_j_hat;
      destruct (as_vec3 a) as [e|v]; cbn [app c_origin c_i c_j]; try (repeat split; reflexivity).
    - repeat split. rewrite last_cons. reflexivity.
    - destruct (unit_ok N v); cbn [app c_origin c_i c_j]; repeat split. rewrite last_cons. reflexivity.
    - destruct (unit_ok N v); cbn [app c_origin c_i c_j]; repeat split. rewrite last_cons. reflexivity.
  Qed.

  (* what each assignment answered depends on its value only *)
  Lemma cs_trace_accepts c ops : cs_trace N c ops = map accepts ops.
  Proof.
    revert c. induction ops as [|o ops IH]; intros c; [reflexivity|]. cbn [cs_trace map].
    pose proof (cs_assign_accepts c o) as H. destruct (cs_assign N c o) as [e|c']; rewrite H, IH; reflexivity.
  Qed.

  Lemma cs_assignment_effect_full (c : cstate) (o : cs_op) :
    match cs_assign N c o with
    | inl e => e = ValueError /\ cs_step N c o = c /\ accepts o = Some e
    | inr c' =>
        cs_step N c o = c' /\ accepts o = None /\
        match o with
        | SetOrigin a => as_vec3 a = inr (c_origin c') /\ c_i c' = c_i c /\ c_j c' = c_j c
        | SetI a => as_vec3 a = inr (c_i c') /\ unit_ok N (c_i c') = true /\ c_origin c' = c_origin c /\ c_j c' = c_j c
        | SetJ a => as_vec3 a = inr (c_j c') /\ unit_ok N (c_j c') = true /\ c_origin c' = c_origin c /\ c_i c' = c_i c
        end
    end.
  Proof.
    pose proof (cs_assign_accepts c o) as Ha. destruct (cs_assign N c o) as [e|c'] eqn:E.
    - split; [exact (cs_assign_err c o e E)|]. split; [exact (cs_step_refused c o e E) | exact Ha].
    - destruct (cs_step_accepted c o c' E) as [H1 H2]. split; [exact H1|]. split; [exact Ha | exact H2].
  Qed.

  Lemma cs_history_full (c : cstate) (ops : list cs_op) :
    c_origin (cs_run N c ops) = last (accepted_origin ops) (c_origin c) /\
    c_i (cs_run N c ops) = last (accepted_i ops) (c_i c) /\
    c_j (cs_run N c ops) = last (accepted_j ops) (c_j c) /\
    c_k_hat N (cs_run N c ops) = vcross N (last (accepted_i ops) (c_i c)) (last (accepted_j ops) (c_j c)) /\
    c_basis_matrix N (cs_run N c ops)
    = mtrans (last (accepted_i ops) (c_i c), last (accepted_j ops) (c_j c),
              vcross N (last (accepted_i ops) (c_i c)) (last (accepted_j ops) (c_j c))) /\
    (cs_ok c -> cs_ok (cs_run N c ops)) /\
    cs_trace N c ops = map accepts ops.
  Proof.
    destruct (cs_run_last_accepted c ops) as (H1 & H2 & H3).
    split; [exact H1|]. split; [exact H2|]. split; [exact H3|].
    split; [unfold c_k_hat, cs_k_hat; rewrite H2, H3; reflexivity|].
    split; [unfold c_basis_matrix, cs_basis_matrix, cs_axes, cs_k_hat; rewrite H2, H3; reflexivity|].
    split; [exact (cs_run_ok c ops) | exact (cs_trace_accepts c ops)].
  Qed.

  (* the constructor *)
  Lemma cs_new_spec o i j c :
    cs_new N o i j = inr c <->
    as_vec3 o = inr (c_origin c) /\ as_vec3 i = inr (c_i c) /\ as_vec3 j = inr (c_j c) /\ cs_ok c.
  Proof.
    unfold cs_new, cs_ok. split.
    - destruct (as_vec3 o) as [e|vo]; [discriminate|]. destruct (as_vec3 i) as [e|vi]; [discriminate|].
      destruct (unit_ok N vi) eqn:Ui; [|discriminate]. cbn [negb].
      destruct (as_vec3 j) as [e|vj]; [discriminate|]. destruct (unit_ok N vj) eqn:Uj; [|discriminate]. cbn [negb].
      intros H. injection H as <-. cbn [c_origin c_i c_j]. repeat split; assumption.
    - intros (-> & -> & -> & Ui & Uj). rewrite Ui, Uj. cbn [negb]. destruct c; reflexivity.
  Qed.

  Lemma cs_new_err o i j e : cs_new N o i j = inl e -> e = ValueError.
  Proof.
    unfold cs_new. destruct (as_vec3 o) as [e'|vo] eqn:Eo; [intros H; injection H as <-; exact (as_vec3_err _ _ Eo)|].
    destruct (as_vec3 i) as [e'|vi] eqn:Ei; [intros H; injection H as <-; exact (as_vec3_err _ _ Ei)|].
    destruct (unit_ok N vi); cbn [negb]; [|intros H; injection H as <-; reflexivity].
    destruct (as_vec3 j) as [e'|vj] eqn:Ej; [intros H; injection H as <-; exact (as_vec3_err _ _ Ej)|].
    destruct (unit_ok N vj); cbn [negb]; [discriminate | intros H; injection H as <-; reflexivity].
  Qed.

  (* the constructor is the history origin, i_hat, j_hat on a fresh object *)
  Lemma cs_new_is_three_assignments o i j c0 :
    cs_new N o i j = match cs_assign N c0 (SetOrigin o) with
                     | inl e => inl e
                     | inr c1 => match cs_assign N c1 (SetI i) with
                                 | inl e => inl e
                                 | inr c2 => cs_assign N c2 (SetJ j)
                                 end
                     end.
  Proof.
    unfold cs_new. cbn [cs_assign]. unfold set_origin, set_i_hat, set_j_hat.
    destruct (as_vec3 o) as [e|vo]; [reflexivity|]. destruct (as_vec3 i) as [e|vi]; [reflexivity|].
    destruct (unit_ok N vi); cbn [negb]; [|reflexivity]. destruct (as_vec3 j) as [e|vj]; [reflexivity|].
    destruct (unit_ok N vj); reflexivity.
  Qed.

  (* copy / translate of a valid object always succeed, on every numeric instance *)
  Lemma c_copy_ok c : cs_ok c -> c_copy N c = inr c.
  Proof.
    intros H. unfold c_copy. apply cs_new_spec. rewrite !as_vec3_of_vec3. repeat split; apply H.
  Qed.

  Lemma translate_vector_of_vec3 (d : vec3 T) : translate_vector (arr_of_vec3 d) = inr d.
  Proof. destruct d as [[a b] c]. reflexivity. Qed.

  Lemma translate_vector_err (v : arr T) e : translate_vector v = inl e -> e = ValueError.
  Proof.
    unfold translate_vector. destruct v as [s l].
    repeat match goal with |- context [match ?x with _ => _ end] => destruct x end; try discriminate;
      intros H; injection H as <-; reflexivity.
  Qed.

  (* a vector of shape (3,), () or (1,) *)
  Lemma c_translate_vec c v d : cs_ok c -> translate_vector v = inr d ->
    c_translate N c v = inr (mkCst (vadd N (c_origin c) d) (c_i c) (c_j c)).
  Proof.
    intros H E. unfold c_translate. rewrite E. apply cs_new_spec. rewrite !as_vec3_of_vec3.
    cbn [c_origin c_i c_j]. repeat split; apply H.
  Qed.

  Lemma c_translate_ok c d : cs_ok c ->
    c_translate N c (arr_of_vec3 d) = inr (mkCst (vadd N (c_origin c) d) (c_i c) (c_j c)).
  Proof. intros H. apply c_translate_vec; [exact H | apply translate_vector_of_vec3]. Qed.

  Lemma c_translate_bad_shape c v e : translate_vector v = inl e -> c_translate N c v = inl ValueError.
  Proof. intros H. unfold c_translate. rewrite H. rewrite (translate_vector_err _ _ H). reflexivity. Qed.
End CSMachine.

(* convert_from_gcs_pairwise on point arrays of any shape with >= 1 dimension against 1-d origins
   (the domain where the library computes an outer difference): the result has the shape
   pshape ++ oshape and its entry at the index ip ++ io is the coordinate of the converted point
   P[ip] minus the coordinate of origins[io] *)
Section Pairwise.
  Context {T : Type} (N : Num T).

  Lemma outer_sub_get (f : vec3 T -> T) (P O : points T) ip io p o :
    nd_wf O -> nd_get P ip = Some p -> nd_get O io = Some o ->
    nd_get (outer_sub N f P O) (ip ++ io) = Some (nsub N (f p) (f o)).
  Proof.
    intros W Hp Ho. unfold nd_get in *.
    destruct (in_bounds (nd_shape P) ip) eqn:Bp; [|discriminate].
    destruct (in_bounds (nd_shape O) io) eqn:Bo; [|discriminate].
    unfold outer_sub. cbn [nd_shape nd_data]. rewrite (in_bounds_app _ _ _ _ Bp Bo). rewrite (ravel_app _ _ _ _ Bp).
    rewrite (nth_error_flat_map_uniform _ _ (size (nd_shape O)) _ _ p).
    - rewrite nth_error_map, Ho. reflexivity.
    - intros y. rewrite map_length. exact W.
    - exact Hp.
    - apply ravel_lt. exact Bo.
  Qed.

  (* REPAIR: c_convert_from_gcs_pairwise answers NotModelled unless origins is 1-d and the points have
     at least one dimension (numpy broadcasts otherwise: the result is no outer difference); the
     statement gained the hypothesis pairwise_modelled P O = true and the result is `inr` *)
  Lemma pairwise_get (c : cstate) (P O : points T) ip io p o :
    pairwise_modelled P O = true ->
    nd_wf O -> nd_get P ip = Some p -> nd_get O io = Some o ->
    let q := cs_convert_from_gcs N (c_origin c) (c_i c) (c_j c) p in
    exists X Y Z, c_convert_from_gcs_pairwise N c P O = inr (X, Y, Z) /\
    nd_shape X = nd_shape P ++ nd_shape O /\ nd_shape Y = nd_shape P ++ nd_shape O /\
    nd_shape Z = nd_shape P ++ nd_shape O /\
    nd_get X (ip ++ io) = Some (nsub N (vx q) (vx o)) /\
    nd_get Y (ip ++ io) = Some (nsub N (vy q) (vy o)) /\
    nd_get Z (ip ++ io) = Some (nsub N (vz q) (vz o)).
  Proof.
    intros D W Hp Ho q. unfold c_convert_from_gcs_pairwise. rewrite D.
    assert (Hq : nd_get (c_convert_from_gcs N c P) ip = Some q)
      by (unfold c_convert_from_gcs; rewrite nd_get_map, Hp; reflexivity).
    do 3 eexists. split; [reflexivity|].
    repeat split; try (apply outer_sub_get; assumption).
  Qed.

  (* outside that domain the model says nothing: the marker *)
  Lemma pairwise_outside (c : cstate) (P O : points T) :
    pairwise_modelled P O = false -> c_convert_from_gcs_pairwise N c P O = inl NotModelled.
  Proof. intros D. unfold c_convert_from_gcs_pairwise. rewrite D. reflexivity. Qed.

  Lemma pairwise_modelled_spec (P O : points T) :
    pairwise_modelled P O = true <-> length (nd_shape O) = 1 /\ length (nd_shape P) <> 0.
  Proof.
    unfold pairwise_modelled. rewrite Bool.andb_true_iff, Bool.negb_true_iff, Nat.eqb_eq, Nat.eqb_neq. reflexivity.
  Qed.
End Pairwise.

(* ====================================================================================== *)
(* 5. distance_pairwise on Points objects                                                  *)
(* ====================================================================================== *)
Section DistancePoints.
  Context {T : Type} (N : Num T).

  Lemma blocks_points_ok (P : points T) : Blocks.points_ok (blocks_points P) = true.
  Proof. unfold Blocks.points_ok, blocks_points. cbn [Blocks.px Blocks.py Blocks.pz]. rewrite !map_length, Nat.eqb_refl. reflexivity. Qed.

  Lemma zip3_blocks_points (P : points T) :
    Blocks.zip3 (blocks_points P) = map (fun v => (vx v, (vy v, vz v))) (nd_data P).
  Proof.
    unfold Blocks.zip3, blocks_points. cbn [Blocks.px Blocks.py Blocks.pz].
    induction (nd_data P) as [|v l IH]; [reflexivity|]. cbn [map combine]. f_equal. exact IH.
  Qed.

  (* the unblocked table of Model/Blocks.v (C13) on the coordinate arrays of two Points objects
     IS the table of Model/Geometry.v (C17) on their points — same operations in the same order *)
  Lemma blocks_table_is_geometry_table (P1 P2 : points T) :
    Blocks.distance_table N (blocks_points P1) (blocks_points P2)
    = Geometry.distance_table N (nd_data P1) (nd_data P2).
  Proof.
    unfold Blocks.distance_table, Geometry.distance_table. rewrite !zip3_blocks_points, map_map.
    apply map_ext. intros p. rewrite map_map. apply map_ext. intros q. reflexivity.
  Qed.

  Definition out_fits (P1 P2 : points T) (out : option (nat * nat * list (list T))) : Prop :=
    match out with
    | None => True
    | Some (r, c, _) => r = length (nd_data P1) /\ c = length (nd_data P2)
    end.

  (* the public function on two 1-d Points objects: for every block size >= 1, thread count
     >= 1, order of execution of the blocks, with or without `out=` WHATEVER IT CONTAINED *)
  Lemma distance_pairwise_points_table (P1 P2 : points T) n1 n2 out block_size numthreads sched :
    nd_shape P1 = [n1] -> nd_shape P2 = [n2] -> out_fits P1 P2 out ->
    (1 <= block_size)%Z -> (1 <= numthreads)%Z -> (forall l, Permutation l (sched l)) ->
    distance_pairwise_points N P1 P2 out block_size numthreads sched
    = inr (Geometry.distance_table N (nd_data P1) (nd_data P2)).
  Proof.
    intros S1 S2 Ho Hb Hn Hs. unfold distance_pairwise_points. rewrite S1, S2.
    rewrite (BlocksProofs.distance_pairwise_unblocked N _ _ (blocks_points_ok P1) (blocks_points_ok P2) out block_size numthreads sched).
    - rewrite blocks_table_is_geometry_table. reflexivity.
    - unfold BlocksProofs.out_ok, blocks_points. cbn [Blocks.px]. rewrite !map_length.
      destruct out as [[[r c] t]|]; exact Ho.
    - exact Hb.
    - exact Hn.
    - exact Hs.
  Qed.

  (* dimension check: anything but two 1-d arrays of points is refused before any work *)
  Lemma distance_pairwise_points_dimension (P1 P2 : points T) out block_size numthreads sched :
    (length (nd_shape P1) <> 1 \/ length (nd_shape P2) <> 1) ->
    distance_pairwise_points N P1 P2 out block_size numthreads sched = inl InvalidDimension.
  Proof.
    intros H. unfold distance_pairwise_points.
    destruct (nd_shape P1) as [|a [|? ?]]; try reflexivity. destruct (nd_shape P2) as [|b [|? ?]]; try reflexivity.
    cbn [length] in H. destruct H; contradiction.
  Qed.

  (* a wrongly shaped `out=` is the only InvalidShape a Points object can produce *)
  Lemma distance_pairwise_points_out_shape (P1 P2 : points T) n1 n2 r c content block_size numthreads sched :
    nd_shape P1 = [n1] -> nd_shape P2 = [n2] -> (r, c) <> (length (nd_data P1), length (nd_data P2)) ->
    distance_pairwise_points N P1 P2 (Some (r, c, content)) block_size numthreads sched = inl InvalidShape.
  Proof.
    intros S1 S2 Hne. unfold distance_pairwise_points. rewrite S1, S2.
    destruct (BlocksProofs.distance_pairwise_errors N (blocks_points P1) (blocks_points P2)
                (Some (r, c, content)) block_size numthreads sched) as (_ & _ & H & _).
    rewrite (H (blocks_points_ok P1) (blocks_points_ok P2) r c content eq_refl); [reflexivity|].
    unfold blocks_points. cbn [Blocks.px]. rewrite !map_length. exact Hne.
  Qed.
End DistancePoints.

(* ====================================================================================== *)
(* 6. Points.allclose (are_points_close)                                                    *)
(* ====================================================================================== *)
Lemma bcast_shape_same s : bcast_shape s s = Some s.
Proof. induction s as [|n s IH]; [reflexivity|]. cbn [bcast_shape]. rewrite IH, Nat.eqb_refl. reflexivity. Qed.

Lemma bcast_index_in_bounds s idx : in_bounds s idx = true -> bcast_index s idx = idx.
Proof.
  revert idx. induction s as [|n s IH]; intros [|i r] H; cbn [in_bounds] in H; try discriminate; [reflexivity|].
  apply andb_prop in H as [Hi H]. apply Nat.ltb_lt in Hi. cbn [bcast_index]. rewrite IH by exact H.
  destruct (Nat.eqb_spec n 1) as [->|_]; [f_equal; lia | reflexivity].
Qed.

Lemma forallb_map' {A B} (f : B -> bool) (g : A -> B) (l : list A) : forallb f (map g l) = forallb (fun x => f (g x)) l.
Proof. induction l as [|a l IH]; [reflexivity|]. cbn [map forallb]. rewrite IH. reflexivity. Qed.

Lemma forallb_ext_in' {A} (f g : A -> bool) (l : list A) : (forall a, In a l -> f a = g a) -> forallb f l = forallb g l.
Proof.
  induction l as [|a l IH]; intros H; [reflexivity|]. cbn [forallb].
  rewrite (H a (or_introl eq_refl)), IH; [reflexivity|]. intros b Hb. apply H. right. exact Hb.
Qed.

Lemma forallb_seq_nth_error {A B} (h : A -> B -> bool) (l1 : list A) (l2 : list B) : length l2 = length l1 ->
  forallb (fun k => match nth_error l1 k, nth_error l2 k with Some a, Some b => h a b | _, _ => false end)
          (seq 0 (length l1))
  = forallb (fun pq => h (fst pq) (snd pq)) (combine l1 l2).
Proof.
  revert l2. induction l1 as [|a l1 IH]; intros [|b l2] H; cbn [length] in H; try discriminate; [reflexivity|].
  cbn [length seq forallb combine nth_error fst snd]. f_equal.
  rewrite <- seq_shift, forallb_map'. cbn [nth_error]. apply IH. lia.
Qed.

Section AllClose.
  Context {T : Type} (N : Num T).

  (* two point arrays of the SAME shape: every pair of corresponding points is close *)
  Lemma points_allclose_same_shape (P Q : points T) atol rtol :
    nd_wf P -> nd_wf Q -> nd_shape Q = nd_shape P ->
    points_allclose N P Q atol rtol
    = inr (forallb (fun pq => vclose N atol rtol (fst pq) (snd pq)) (combine (nd_data P) (nd_data Q))).
  Proof.
    intros WP WQ S. unfold points_allclose. rewrite S, Nat.eqb_refl, bcast_shape_same. cbn [negb]. f_equal.
    rewrite ndindex_unravel, forallb_map'.
    rewrite <- (forallb_seq_nth_error (vclose N atol rtol) (nd_data P) (nd_data Q)) by (unfold nd_wf in *; rewrite S in WQ; lia).
    rewrite WP. apply forallb_ext_in'. intros k Hk. apply in_seq in Hk.
    rewrite bcast_index_in_bounds by (apply unravel_in_bounds; lia).
    rewrite (nd_get_flat P k) by lia. pose proof (nd_get_flat Q k ltac:(rewrite S; lia)) as HQ. rewrite S in HQ.
    rewrite HQ. reflexivity.
  Qed.

  (* a different NUMBER of dimensions: False *)
  Lemma points_allclose_ndim (P Q : points T) atol rtol :
    length (nd_shape P) <> length (nd_shape Q) -> points_allclose N P Q atol rtol = inr false.
  Proof. intros H. unfold points_allclose. apply Nat.eqb_neq in H. rewrite H. reflexivity. Qed.

  (* the same number of dimensions but shapes that cannot be broadcast: ValueError, not False *)
  Lemma points_allclose_unbroadcastable (P Q : points T) atol rtol :
    length (nd_shape P) = length (nd_shape Q) -> bcast_shape (nd_shape P) (nd_shape Q) = None ->
    points_allclose N P Q atol rtol = inl ValueError.
  Proof. intros H1 H2. unfold points_allclose. rewrite H1, Nat.eqb_refl, H2. reflexivity. Qed.
End AllClose.
