(* Proofs/ScatDataProofs.v — lemmas about Model/ScatData.v (C10): the frequency table of
   ScatFromData may be given in any order, is reproduced at its samples, is linear in between,
   behaves outside its range as interp_freq_kwargs says; the frequency and the angle
   interpolation commute; stacking; dict glue; factory dispatch. *)
From Coq Require Import ZArith String Ascii List Bool Lia Reals Lra Permutation Sorted.
From Flocq Require Import Core.Raux.
From Arim Require Import Base.Num Base.NumR Model.ScatMatrix Model.ScatData Proofs.ScatMatrixProofs.
Import ListNotations.

(* ------------------------------------------------------------------------------------------ *)
(* 1. the stable sort by key, for any numeric instance                                          *)
(* ------------------------------------------------------------------------------------------ *)
Section SortGeneric.
  Context {T : Type} (N : Num T).

  Lemma insert_key_perm {A} (x : T * A) l : Permutation (insert_key N x l) (x :: l).
  Proof.
    induction l as [|y r IH]; cbn [insert_key]; [reflexivity|].
    destruct (nltb N (fst y) (fst x)); [|reflexivity].
    rewrite IH. apply perm_swap.
  Qed.

  Lemma sort_key_perm {A} (l : list (T * A)) : Permutation (sort_key N l) l.
  Proof.
    induction l as [|x r IH]; cbn [sort_key fold_right]; [reflexivity|].
    fold (sort_key N r). rewrite insert_key_perm. constructor. exact IH.
  Qed.

  Lemma sort_key_length {A} (l : list (T * A)) : length (sort_key N l) = length l.
  Proof. apply Permutation_length, sort_key_perm. Qed.

  (* the sort looks at the keys only *)
  Lemma insert_key_map {A B} (g : A -> B) x (l : list (T * A)) :
    insert_key N (fst x, g (snd x)) (map (fun p => (fst p, g (snd p))) l)
    = map (fun p => (fst p, g (snd p))) (insert_key N x l).
  Proof.
    induction l as [|y r IH]; cbn [insert_key map fst snd]; [reflexivity|].
    destruct (nltb N (fst y) (fst x)); cbn [map fst snd]; [|reflexivity].
    f_equal. exact IH.
  Qed.

  Lemma sort_key_map {A B} (g : A -> B) (l : list (T * A)) :
    sort_key N (map (fun p => (fst p, g (snd p))) l) = map (fun p => (fst p, g (snd p))) (sort_key N l).
  Proof.
    induction l as [|x r IH]; cbn [sort_key fold_right map]; [reflexivity|].
    fold (sort_key N r). fold (sort_key N (map (fun p => (fst p, g (snd p))) r)).
    rewrite IH. apply insert_key_map.
  Qed.

  Lemma combine_fst_snd {A B} (l : list (A * B)) : combine (map fst l) (map snd l) = l.
  Proof. induction l as [|[a b] r IH]; cbn; [reflexivity|]. f_equal. exact IH. Qed.

  (* a table of (frequency, sample) pairs seen through the positions 0..n-1 *)
  Lemma combine_as_positions (xs ys : list T) : length xs = length ys ->
    combine xs ys = map (fun p => (fst p, nth (snd p) ys (n0 N))) (combine xs (seq 0 (length xs))).
  Proof.
    intros Hlen.
    apply (nth_ext _ _ (n0 N, n0 N) (n0 N, nth 0%nat ys (n0 N))).
    - rewrite map_length, !combine_length, seq_length. lia.
    - intros k Hk. rewrite combine_length in Hk.
      change (n0 N, nth 0%nat ys (n0 N))
        with ((fun p : T * nat => (fst p, nth (snd p) ys (n0 N))) (n0 N, 0%nat)).
      rewrite map_nth. rewrite !combine_nth by (rewrite ?seq_length; lia).
      cbn [fst snd]. rewrite seq_nth by lia. reflexivity.
  Qed.

  Lemma in_combine_positions (xs : list T) x k :
    In (x, k) (combine xs (seq 0 (length xs))) -> nth k xs (n0 N) = x.
  Proof.
    intros Hin. destruct (In_nth _ _ (n0 N, 0%nat) Hin) as (i & Hi & E).
    rewrite combine_length, seq_length in Hi.
    rewrite combine_nth in E by (rewrite seq_length; reflexivity).
    rewrite seq_nth in E by lia. injection E as E1 E2. subst k. exact E1.
  Qed.

  (* x[ind] and take(y, ind) are the two columns of the table sorted as pairs *)
  Lemma take_argsort_x (xs : list T) :
    take (n0 N) xs (argsort N xs) = map fst (sort_key N (combine xs (seq 0 (length xs)))).
  Proof.
    unfold take, argsort. rewrite map_map. apply map_ext_in.
    intros [x k] Hin. cbn [fst snd]. apply in_combine_positions.
    apply (Permutation_in _ (sort_key_perm _) Hin).
  Qed.

  Lemma sorted_columns (xs ys : list T) : length xs = length ys ->
    take (n0 N) xs (argsort N xs) = map fst (sort_key N (combine xs ys)) /\
    take (n0 N) ys (argsort N xs) = map snd (sort_key N (combine xs ys)).
  Proof.
    intros Hlen. rewrite take_argsort_x.
    rewrite (combine_as_positions xs ys Hlen), (sort_key_map (fun k => nth k ys (n0 N))), !map_map. cbn [fst snd].
    split; [reflexivity|]. unfold take, argsort. rewrite map_map. reflexivity.
  Qed.
End SortGeneric.

(* ------------------------------------------------------------------------------------------ *)
(* 2. over the reals: the sorted table is unique                                                *)
(* ------------------------------------------------------------------------------------------ *)
Local Open Scope R_scope.

Definition lek {A} (a b : R * A) : Prop := fst a <= fst b.
Definition ltk {A} (a b : R * A) : Prop := fst a < fst b.

Lemma insert_key_sorted {A} (x : R * A) l :
  StronglySorted lek l -> StronglySorted lek (insert_key NumR x l).
Proof.
  induction l as [|y r IH]; intros Hs; cbn [insert_key].
  - constructor; constructor.
  - inversion Hs as [|y' r' Hr Hy]; subst.
    cbn [NumR nltb]. destruct (Rlt_bool_spec (fst y) (fst x)) as [Hlt|Hge].
    + constructor; [apply IH; exact Hr|].
      rewrite Forall_forall. intros z Hz.
      apply (Permutation_in _ (insert_key_perm NumR x r)) in Hz. destruct Hz as [<-|Hz].
      * unfold lek. lra.
      * rewrite Forall_forall in Hy. apply Hy, Hz.
    + constructor; [exact Hs|]. constructor; [exact Hge|].
      rewrite Forall_forall in Hy |- *. intros z Hz. specialize (Hy z Hz). unfold lek in *. lra.
Qed.

Lemma sort_key_sorted {A} (l : list (R * A)) : StronglySorted lek (sort_key NumR l).
Proof.
  induction l as [|x r IH]; cbn [sort_key fold_right]; [constructor|].
  apply insert_key_sorted. exact IH.
Qed.

Lemma key_inj {A} (l : list (R * A)) a b :
  NoDup (map fst l) -> In a l -> In b l -> fst a = fst b -> a = b.
Proof.
  induction l as [|c r IH]; intros Hnd Ha Hb E; [contradiction|].
  cbn [map] in Hnd. inversion Hnd as [|k ks Hnotin Hnd']; subst.
  destruct Ha as [<-|Ha], Hb as [<-|Hb]; try reflexivity.
  - exfalso. apply Hnotin. rewrite E. apply in_map, Hb.
  - exfalso. apply Hnotin. rewrite <- E. apply in_map, Ha.
  - apply IH; assumption.
Qed.

Lemma sorted_perm_unique {A} (l1 l2 : list (R * A)) :
  StronglySorted lek l1 -> StronglySorted lek l2 -> Permutation l1 l2 ->
  NoDup (map fst l1) -> l1 = l2.
Proof.
  revert l2. induction l1 as [|a r1 IH]; intros l2 H1 H2 Hp Hnd.
  - apply Permutation_nil in Hp. subst. reflexivity.
  - destruct l2 as [|b r2]; [apply Permutation_sym, Permutation_nil in Hp; discriminate|].
    inversion H1 as [|a' r1' Hs1 Hf1]; subst. inversion H2 as [|b' r2' Hs2 Hf2]; subst.
    assert (Eab : a = b).
    { apply (key_inj (a :: r1)); [exact Hnd|left; reflexivity| |].
      - apply (Permutation_in _ (Permutation_sym Hp)). left; reflexivity.
      - assert (Hab : fst a <= fst b).
        { assert (Hin : In b (a :: r1)) by (apply (Permutation_in _ (Permutation_sym Hp)); left; reflexivity).
          destruct Hin as [<-|Hin]; [lra|]. rewrite Forall_forall in Hf1. apply (Hf1 b Hin). }
        assert (Hba : fst b <= fst a).
        { assert (Hin : In a (b :: r2)) by (apply (Permutation_in _ Hp); left; reflexivity).
          destruct Hin as [<-|Hin]; [lra|]. rewrite Forall_forall in Hf2. apply (Hf2 a Hin). }
        lra. }
    subst b. f_equal. apply IH; try assumption.
    + apply Permutation_cons_inv in Hp. exact Hp.
    + cbn [map] in Hnd. inversion Hnd; assumption.
Qed.

(* the sorted table does not depend on the order in which the rows are given *)
Lemma sort_key_perm_invariant {A} (t1 t2 : list (R * A)) :
  Permutation t1 t2 -> NoDup (map fst t1) -> sort_key NumR t1 = sort_key NumR t2.
Proof.
  intros Hp Hnd. apply sorted_perm_unique; try apply sort_key_sorted.
  - rewrite !sort_key_perm. exact Hp.
  - apply (Permutation_NoDup (l := map fst t1)); [|exact Hnd].
    apply Permutation_map, Permutation_sym, sort_key_perm.
Qed.

Lemma sorted_strict {A} (l : list (R * A)) :
  StronglySorted lek l -> NoDup (map fst l) -> StronglySorted ltk l.
Proof.
  induction l as [|a r IH]; intros Hs Hnd; [constructor|].
  inversion Hs as [|a' r' Hr Hf]; subst. cbn [map] in Hnd. inversion Hnd as [|k ks Hnotin Hnd']; subst.
  constructor; [apply IH; assumption|].
  rewrite Forall_forall in Hf |- *. intros z Hz. specialize (Hf z Hz). unfold lek, ltk in *.
  destruct (Req_dec (fst a) (fst z)) as [E|NE]; [|lra].
  exfalso. apply Hnotin. rewrite E. apply in_map, Hz.
Qed.

Lemma ssorted_app_inv {A} (Rel : A -> A -> Prop) (l1 l2 : list A) :
  StronglySorted Rel (l1 ++ l2) ->
  StronglySorted Rel l1 /\ StronglySorted Rel l2 /\ (forall a b, In a l1 -> In b l2 -> Rel a b).
Proof.
  induction l1 as [|c r IH]; cbn [app]; intros Hs.
  - repeat split; [constructor|exact Hs|contradiction].
  - inversion Hs as [|c' r' Hr Hf]; subst. destruct (IH Hr) as (H1 & H2 & H3).
    rewrite Forall_forall in Hf. repeat split; [|exact H2|].
    + constructor; [exact H1|]. rewrite Forall_forall. intros z Hz. apply Hf, in_or_app. left; exact Hz.
    + intros a b [<-|Ha] Hb; [apply Hf, in_or_app; right; exact Hb|apply H3; assumption].
Qed.

(* ------------------------------------------------------------------------------------------ *)
(* 3. Python indexing, searchsorted, clip                                                       *)
(* ------------------------------------------------------------------------------------------ *)
Lemma pyget_mid {A} (d : A) l1 x l2 : pyget d (l1 ++ x :: l2) (Z.of_nat (length l1)) = x.
Proof.
  unfold pyget. destruct (Z.ltb_spec (Z.of_nat (length l1)) 0) as [H|H]; [lia|].
  rewrite Nat2Z.id. apply nth_middle.
Qed.

Lemma pyget_mid1 {A} (d : A) l1 x y l2 :
  pyget d (l1 ++ x :: y :: l2) (Z.of_nat (length l1) + 1) = y.
Proof.
  replace (l1 ++ x :: y :: l2) with ((l1 ++ [x]) ++ y :: l2) by (rewrite <- app_assoc; reflexivity).
  replace (Z.of_nat (length l1) + 1)%Z with (Z.of_nat (length (l1 ++ [x])))
    by (rewrite app_length; cbn [length]; lia).
  apply pyget_mid.
Qed.

Lemma pyget_first {A} (d : A) x l : pyget d (x :: l) 0 = x.
Proof. reflexivity. Qed.

Lemma pyget_last {A} (d : A) l x : pyget d (l ++ [x]) (-1) = x.
Proof.
  unfold pyget. cbn [Z.ltb Z.compare]. rewrite app_length. cbn [length].
  replace (Z.to_nat (-1 + Z.of_nat (length l + 1))) with (length l) by lia.
  apply nth_middle.
Qed.

Lemma searchsorted_app (A B : list R) f : Forall (fun a => a < f) A ->
  searchsorted NumR (A ++ B) f = (Z.of_nat (length A) + searchsorted NumR B f)%Z.
Proof.
  induction A as [|a r IH]; intros HA; cbn [app length searchsorted]; [lia|].
  inversion HA as [|a' r' Ha Hr]; subst. cbn [NumR nltb]. rewrite (Rlt_bool_true _ _ Ha).
  rewrite (IH Hr). lia.
Qed.

Lemma searchsorted_stop b (B : list R) f : f <= b -> searchsorted NumR (b :: B) f = 0%Z.
Proof. intros H. cbn [searchsorted NumR nltb]. rewrite (Rlt_bool_false _ _ H). reflexivity. Qed.

(* ------------------------------------------------------------------------------------------ *)
(* 4. interp1d seen on the sorted columns                                                        *)
(* ------------------------------------------------------------------------------------------ *)
(* scipy's two-weight formula *)
Definition lin_eval (x0 x1 y0 y1 f : R) : R :=
  (f - x0) / (x1 - x0) * y1 + (x1 - f) / (x1 - x0) * y0.

Lemma lin_eval_lerp x0 x1 y0 y1 f : x0 <> x1 -> lin_eval x0 x1 y0 y1 f = lerp NumR x0 x1 y0 y1 f.
Proof. intros H. unfold lin_eval, lerp. cbn [NumR nadd nsub nmul ndiv]. field. lra. Qed.

Definition interp1d_sorted (kw : i1kwargs) (X Y : list R) (f : R) : ferr + R :=
  let len := Z.of_nat (length X) in
  if (len <? 1)%Z then inl ErrTooFew else
  match resolve_fill NumR kw with
  | inl e => inl e
  | inr (extrap, be, below, above) =>
      let idx := clip (searchsorted NumR X f) 1 (len - 1) in
      let v := lin_eval (pyget 0 X (idx - 1)) (pyget 0 X idx) (pyget 0 Y (idx - 1)) (pyget 0 Y idx) f in
      if extrap then inr v else
      let bb := Rlt_bool f (pyget 0 X 0) in
      let ab := Rlt_bool (pyget 0 X (-1)) f in
      if be && bb then inl ErrBelowRange
      else if be && ab then inl ErrAboveRange
      else inr (if ab then above else if bb then below else v)
  end.

Lemma interp1d_as_sorted kw xs ys f :
  interp1d NumR kw xs ys f
  = interp1d_sorted kw (take 0 xs (argsort NumR xs)) (take 0 ys (argsort NumR xs)) f.
Proof.
  unfold interp1d, interp1d_plan, interp1d_sorted. cbn [NumR n0].
  set (X := take 0 xs (argsort NumR xs)).
  destruct (Z.of_nat (length X) <? 1)%Z; [reflexivity|].
  destruct (resolve_fill NumR kw) as [e|[[[extrap be] below] above]]; [reflexivity|].
  destruct extrap; [reflexivity|].
  change (nltb NumR) with Rlt_bool.
  destruct (be && Rlt_bool f (pyget 0 X 0)); [reflexivity|].
  destruct (be && Rlt_bool (pyget 0 X (-1)) f); [reflexivity|].
  destruct (Rlt_bool (pyget 0 X (-1)) f); [reflexivity|].
  destruct (Rlt_bool f (pyget 0 X 0)); reflexivity.
Qed.

(* a table of rows (frequency, sample) *)
Definition interp1d_table (kw : i1kwargs) (tbl : list (R * R)) (f : R) : ferr + R :=
  interp1d NumR kw (map fst tbl) (map snd tbl) f.

Lemma interp1d_table_sorted kw tbl f :
  interp1d_table kw tbl f
  = interp1d_sorted kw (map fst (sort_key NumR tbl)) (map snd (sort_key NumR tbl)) f.
Proof.
  unfold interp1d_table. rewrite interp1d_as_sorted.
  destruct (sorted_columns NumR (map fst tbl) (map snd tbl)) as [E1 E2]; [rewrite !map_length; reflexivity|].
  cbn [NumR n0] in E1, E2. rewrite E1, E2, combine_fst_snd. reflexivity.
Qed.

(* THE TABLE MAY BE GIVEN IN ANY ORDER *)
Lemma interp1d_perm_invariant kw t1 t2 f :
  Permutation t1 t2 -> NoDup (map fst t1) -> interp1d_table kw t1 f = interp1d_table kw t2 f.
Proof.
  intros Hp Hnd. rewrite !interp1d_table_sorted, (sort_key_perm_invariant t1 t2 Hp Hnd). reflexivity.
Qed.

(* ------------------------------------------------------------------------------------------ *)
(* 5. two neighbouring rows of the sorted table bracket the requested frequency                 *)
(* ------------------------------------------------------------------------------------------ *)
Lemma list_last_case {A} (l : list A) : l = [] \/ exists l' z, l = l' ++ [z].
Proof. induction l as [|z l' _] using rev_ind; [left; reflexivity|right; eauto]. Qed.

Section Bracket.
  Variables (pre post : list (R * R)) (x0 y0 x1 y1 : R).
  Let S := pre ++ (x0, y0) :: (x1, y1) :: post.
  Hypothesis HS : StronglySorted ltk S.
  Let X := map fst S.
  Let Y := map snd S.

  Lemma br_X : X = map fst pre ++ x0 :: x1 :: map fst post.
  Proof. unfold X, S. rewrite map_app. reflexivity. Qed.
  Lemma br_Y : Y = map snd pre ++ y0 :: y1 :: map snd post.
  Proof. unfold Y, S. rewrite map_app. reflexivity. Qed.

  Lemma br_pre : Forall (fun a => a < x0) (map fst pre).
  Proof.
    destruct (ssorted_app_inv _ _ _ HS) as (_ & _ & H).
    rewrite Forall_forall. intros a Ha. apply in_map_iff in Ha. destruct Ha as (p & <- & Hp).
    apply (H p (x0, y0) Hp). left; reflexivity.
  Qed.

  Lemma br_lt : x0 < x1.
  Proof.
    destruct (ssorted_app_inv _ _ _ HS) as (_ & H2 & _).
    inversion H2 as [|a r Hr Hf]; subst. inversion Hf as [|b r' Hb _]; subst. exact Hb.
  Qed.

  Lemma br_post : Forall (fun a => x1 < a) (map fst post).
  Proof.
    destruct (ssorted_app_inv _ _ _ HS) as (_ & H2 & _).
    inversion H2 as [|a r Hr _]; subst. inversion Hr as [|b r' _ Hf]; subst.
    rewrite Forall_forall in Hf |- *. intros a Ha. apply in_map_iff in Ha. destruct Ha as (p & <- & Hp).
    apply (Hf p Hp).
  Qed.

  Lemma br_len : Z.of_nat (length X) = (Z.of_nat (length pre) + 2 + Z.of_nat (length post))%Z.
  Proof. rewrite br_X, app_length. cbn [length]. rewrite !map_length. lia. Qed.

  Definition bracket_cond (f : R) : Prop :=
    (x0 < f <= x1) \/ (pre = [] /\ f <= x0) \/ (post = [] /\ x1 < f).

  Lemma br_idx f : bracket_cond f ->
    clip (searchsorted NumR X f) 1 (Z.of_nat (length X) - 1) = (Z.of_nat (length pre) + 1)%Z.
  Proof.
    intros Hc. rewrite br_len. pose proof br_pre as Hpre. pose proof br_lt as Hlt.
    destruct Hc as [[Hlo Hhi]|[[Epre Hf]|[Epost Hf]]].
    - rewrite br_X.
      replace (map fst pre ++ x0 :: x1 :: map fst post)
        with ((map fst pre ++ [x0]) ++ x1 :: map fst post) by (rewrite <- app_assoc; reflexivity).
      rewrite searchsorted_app.
      + rewrite (searchsorted_stop _ _ _ Hhi), app_length, map_length. cbn [length]. unfold clip. lia.
      + apply Forall_app. split; [|constructor; [exact Hlo|constructor]].
        apply (Forall_impl _ (P := fun a => a < x0)); [intros a Ha; lra|exact Hpre].
    - rewrite br_X. rewrite Epre. cbn [map app length].
      rewrite (searchsorted_stop _ _ _ Hf). unfold clip. lia.
    - rewrite br_X. rewrite Epost. cbn [map length].
      pose proof (searchsorted_app (map fst pre ++ [x0; x1]) [] f) as E.
      rewrite app_nil_r in E. rewrite E.
      + cbn [searchsorted]. rewrite app_length. cbn [length]. rewrite !map_length. unfold clip. lia.
      + apply Forall_app. split.
        * apply (Forall_impl _ (P := fun a => a < x0)); [intros a Ha; lra|exact Hpre].
        * repeat constructor; lra.
  Qed.

  Lemma br_first : pyget 0 X 0 <= x0.
  Proof.
    rewrite br_X. pose proof br_pre as Hpre. destruct (map fst pre) as [|a r]; cbn [app].
    - rewrite pyget_first. lra.
    - rewrite pyget_first. inversion Hpre; subst. lra.
  Qed.

  Lemma br_first_nil : pre = [] -> pyget 0 X 0 = x0.
  Proof. intros E. rewrite br_X, E. reflexivity. Qed.

  Lemma br_last : x1 <= pyget 0 X (-1).
  Proof.
    rewrite br_X. pose proof br_post as Hpost.
    destruct (list_last_case (map fst post)) as [E|(l' & z & E)]; rewrite E in *.
    - replace (map fst pre ++ [x0; x1]) with ((map fst pre ++ [x0]) ++ [x1]) by (rewrite <- app_assoc; reflexivity).
      rewrite pyget_last. lra.
    - replace (map fst pre ++ x0 :: x1 :: l' ++ [z]) with ((map fst pre ++ x0 :: x1 :: l') ++ [z])
        by (rewrite <- app_assoc; reflexivity).
      rewrite pyget_last. apply Forall_app in Hpost. destruct Hpost as [_ Hz]. inversion Hz; subst. lra.
  Qed.

  Lemma br_last_nil : post = [] -> pyget 0 X (-1) = x1.
  Proof.
    intros E. rewrite br_X, E. cbn [map].
    replace (map fst pre ++ [x0; x1]) with ((map fst pre ++ [x0]) ++ [x1]) by (rewrite <- app_assoc; reflexivity).
    apply pyget_last.
  Qed.

  (* the linear part *)
  Lemma br_value f : bracket_cond f ->
    let idx := clip (searchsorted NumR X f) 1 (Z.of_nat (length X) - 1) in
    lin_eval (pyget 0 X (idx - 1)) (pyget 0 X idx) (pyget 0 Y (idx - 1)) (pyget 0 Y idx) f
    = lin_eval x0 x1 y0 y1 f.
  Proof.
    intros Hc. cbv zeta. rewrite (br_idx f Hc).
    replace (Z.of_nat (length pre) + 1 - 1)%Z with (Z.of_nat (length pre)) by lia.
    rewrite br_X, br_Y.
    rewrite <- (map_length fst pre) at 1 2. rewrite pyget_mid, pyget_mid1.
    rewrite <- (map_length snd pre). rewrite pyget_mid, pyget_mid1.
    reflexivity.
  Qed.

  Lemma br_len_ok : (Z.of_nat (length X) <? 1)%Z = false.
  Proof. apply Z.ltb_ge. rewrite br_len. lia. Qed.

  (* in range: the straight line through the two neighbouring samples, whatever the options *)
  Lemma br_inside kw f r : resolve_fill NumR kw = inr r -> x0 < f <= x1 ->
    interp1d_sorted kw X Y f = inr (lin_eval x0 x1 y0 y1 f).
  Proof.
    intros Hr Hf. unfold interp1d_sorted. rewrite br_len_ok, Hr.
    destruct r as [[[extrap be] below] above].
    rewrite (br_value f (or_introl Hf)).
    destruct extrap; [reflexivity|].
    pose proof br_first. pose proof br_last.
    rewrite (Rlt_bool_false f (pyget 0 X 0)) by lra.
    rewrite (Rlt_bool_false (pyget 0 X (-1)) f) by lra.
    rewrite !andb_false_r. reflexivity.
  Qed.

  (* at or below the smallest frequency *)
  Lemma br_below kw f extrap be below above :
    resolve_fill NumR kw = inr (extrap, be, below, above) -> pre = [] -> f <= x0 ->
    interp1d_sorted kw X Y f =
      if extrap then inr (lin_eval x0 x1 y0 y1 f)
      else if Rlt_bool f x0 then (if be then inl ErrBelowRange else inr below)
      else inr (lin_eval x0 x1 y0 y1 f).
  Proof.
    intros Hr Epre Hf. unfold interp1d_sorted. rewrite br_len_ok, Hr.
    rewrite (br_value f (or_intror (or_introl (conj Epre Hf)))).
    destruct extrap; [reflexivity|].
    rewrite (br_first_nil Epre). pose proof br_last. pose proof br_lt.
    rewrite (Rlt_bool_false (pyget 0 X (-1)) f) by lra.
    rewrite !andb_false_r.
    destruct (Rlt_bool f x0), be; reflexivity.
  Qed.

  (* above the largest frequency *)
  Lemma br_above kw f extrap be below above :
    resolve_fill NumR kw = inr (extrap, be, below, above) -> post = [] -> x1 < f ->
    interp1d_sorted kw X Y f =
      if extrap then inr (lin_eval x0 x1 y0 y1 f)
      else if be then inl ErrAboveRange else inr above.
  Proof.
    intros Hr Epost Hf. unfold interp1d_sorted. rewrite br_len_ok, Hr.
    rewrite (br_value f (or_intror (or_intror (conj Epost Hf)))).
    destruct extrap; [reflexivity|].
    rewrite (br_last_nil Epost). pose proof br_first. pose proof br_lt.
    rewrite (Rlt_bool_false f (pyget 0 X 0)) by lra.
    rewrite (Rlt_bool_true x1 f) by lra.
    rewrite !andb_false_r, !andb_true_r.
    destruct be; reflexivity.
  Qed.
End Bracket.

(* ------------------------------------------------------------------------------------------ *)
(* 6. statements about the table as the caller gives it (any order of the rows)                 *)
(* ------------------------------------------------------------------------------------------ *)
(* interp_freq_kwargs with which the constructor of interp1d does not raise *)
Definition kw_ok (kw : i1kwargs) : Prop := exists r, resolve_fill NumR kw = inr r.

Lemma kw_ok_iff kw : kw_ok kw <-> ~ (kw_fill kw = Extrapolate /\ kw_bounds_error kw = Some true).
Proof.
  unfold kw_ok, resolve_fill. destruct kw as [[[|]|] [|v|b a]]; cbn; split;
    try (intros _; eauto; intros [? ?]; discriminate);
    try (intros [r Hr]; discriminate);
    try (intros H; exfalso; apply H; split; reflexivity).
Qed.

Lemma arim_default_kw_ok : kw_ok arim_default_kwargs.
Proof. eexists. reflexivity. Qed.

Definition no_key_between (tbl : list (R * R)) (x0 x1 : R) : Prop :=
  forall p, In p tbl -> ~ (x0 < fst p < x1).
Definition is_min_key (tbl : list (R * R)) (x0 : R) : Prop := forall p, In p tbl -> x0 <= fst p.
Definition is_max_key (tbl : list (R * R)) (x1 : R) : Prop := forall p, In p tbl -> fst p <= x1.

Lemma sort_key_strict (tbl : list (R * R)) : NoDup (map fst tbl) -> StronglySorted ltk (sort_key NumR tbl).
Proof.
  intros Hnd. apply sorted_strict; [apply sort_key_sorted|].
  apply (Permutation_NoDup (l := map fst tbl)); [|exact Hnd].
  apply Permutation_map, Permutation_sym, sort_key_perm.
Qed.

Lemma in_sort_key (tbl : list (R * R)) p : In p (sort_key NumR tbl) <-> In p tbl.
Proof.
  split; apply Permutation_in; [apply sort_key_perm|apply Permutation_sym, sort_key_perm].
Qed.

(* two rows with no sampled frequency strictly between them are neighbours in the sorted table *)
Lemma table_neighbours tbl x0 y0 x1 y1 :
  NoDup (map fst tbl) -> In (x0, y0) tbl -> In (x1, y1) tbl -> x0 < x1 -> no_key_between tbl x0 x1 ->
  exists pre post, sort_key NumR tbl = pre ++ (x0, y0) :: (x1, y1) :: post
                   /\ (is_min_key tbl x0 -> pre = []) /\ (is_max_key tbl x1 -> post = []).
Proof.
  intros Hnd Ha Hb Hlt Hnb.
  pose proof (sort_key_strict tbl Hnd) as HS.
  apply in_sort_key in Ha. apply in_sort_key in Hb.
  destruct (in_split _ _ Ha) as (l1 & l2 & E). rewrite E in HS, Hb.
  destruct (ssorted_app_inv _ _ _ HS) as (_ & H2 & H3).
  apply in_app_or in Hb. destruct Hb as [Hb|[Hb|Hb]].
  - specialize (H3 (x1, y1) (x0, y0) Hb (or_introl eq_refl)). unfold ltk in H3. cbn in H3. lra.
  - injection Hb as E1 _. lra.
  - destruct l2 as [|c l2']; [contradiction|].
    inversion H2 as [|a r Hr Hf]; subst a r. inversion Hr as [|c' r' Hr' Hfc]; subst c' r'.
    inversion Hf as [|c' r' Hac _]; subst c' r'.
    assert (Ec : c = (x1, y1)).
    { destruct Hb as [Hb|Hb]; [exact Hb|exfalso].
      rewrite Forall_forall in Hfc. specialize (Hfc _ Hb). unfold ltk in Hac, Hfc. cbn in Hac, Hfc.
      apply (Hnb c); [|lra]. apply in_sort_key. rewrite E. apply in_or_app. right. right. left. reflexivity. }
    subst c. exists l1, l2'. split; [exact E|]. split.
    + intros Hmin. destruct l1 as [|p l1']; [reflexivity|exfalso].
      specialize (H3 p (x0, y0) (or_introl eq_refl) (or_introl eq_refl)). unfold ltk in H3. cbn in H3.
      assert (Hp : In p tbl) by (apply in_sort_key; rewrite E; left; reflexivity).
      specialize (Hmin p Hp). lra.
    + intros Hmax. destruct l2' as [|q l2'']; [reflexivity|exfalso].
      rewrite Forall_forall in Hfc. specialize (Hfc q (or_introl eq_refl)). unfold ltk in Hfc. cbn in Hfc.
      assert (Hq : In q tbl).
      { apply in_sort_key. rewrite E. apply in_or_app. right. right. right. left. reflexivity. }
      specialize (Hmax q Hq). lra.
Qed.

(* LINEAR BETWEEN two neighbouring sampled frequencies, whatever the options *)
Lemma table_linear_between kw tbl x0 y0 x1 y1 f :
  NoDup (map fst tbl) -> In (x0, y0) tbl -> In (x1, y1) tbl -> no_key_between tbl x0 x1 ->
  kw_ok kw -> x0 < f <= x1 ->
  interp1d_table kw tbl f = inr (lerp NumR x0 x1 y0 y1 f).
Proof.
  intros Hnd Ha Hb Hnb [r Hr] Hf.
  destruct (table_neighbours tbl x0 y0 x1 y1 Hnd Ha Hb ltac:(lra) Hnb) as (pre & post & E & _ & _).
  pose proof (sort_key_strict tbl Hnd) as HS. rewrite E in HS.
  rewrite interp1d_table_sorted, E, (br_inside pre post x0 y0 x1 y1 HS kw f r Hr Hf).
  rewrite lin_eval_lerp by lra. reflexivity.
Qed.

(* OUT OF RANGE, below: extrapolation of the first segment, the fill value, or the error *)
Lemma table_below kw tbl x0 y0 x1 y1 f extrap be below above :
  NoDup (map fst tbl) -> In (x0, y0) tbl -> In (x1, y1) tbl -> x0 < x1 -> no_key_between tbl x0 x1 ->
  is_min_key tbl x0 -> resolve_fill NumR kw = inr (extrap, be, below, above) -> f < x0 ->
  interp1d_table kw tbl f =
    if extrap then inr (lerp NumR x0 x1 y0 y1 f)
    else if be then inl ErrBelowRange else inr below.
Proof.
  intros Hnd Ha Hb Hlt Hnb Hmin Hr Hf.
  destruct (table_neighbours tbl x0 y0 x1 y1 Hnd Ha Hb Hlt Hnb) as (pre & post & E & Hpre & _).
  pose proof (sort_key_strict tbl Hnd) as HS. rewrite E in HS.
  rewrite interp1d_table_sorted, E.
  rewrite (br_below pre post x0 y0 x1 y1 HS kw f extrap be below above Hr (Hpre Hmin)) by lra.
  rewrite (Rlt_bool_true f x0 Hf), lin_eval_lerp by lra. reflexivity.
Qed.

(* OUT OF RANGE, above *)
Lemma table_above kw tbl x0 y0 x1 y1 f extrap be below above :
  NoDup (map fst tbl) -> In (x0, y0) tbl -> In (x1, y1) tbl -> x0 < x1 -> no_key_between tbl x0 x1 ->
  is_max_key tbl x1 -> resolve_fill NumR kw = inr (extrap, be, below, above) -> x1 < f ->
  interp1d_table kw tbl f =
    if extrap then inr (lerp NumR x0 x1 y0 y1 f)
    else if be then inl ErrAboveRange else inr above.
Proof.
  intros Hnd Ha Hb Hlt Hnb Hmax Hr Hf.
  destruct (table_neighbours tbl x0 y0 x1 y1 Hnd Ha Hb Hlt Hnb) as (pre & post & E & _ & Hpost).
  pose proof (sort_key_strict tbl Hnd) as HS. rewrite E in HS.
  rewrite interp1d_table_sorted, E.
  rewrite (br_above pre post x0 y0 x1 y1 HS kw f extrap be below above Hr (Hpost Hmax) Hf).
  rewrite lin_eval_lerp by lra. reflexivity.
Qed.

(* EXACT at every sampled frequency, whatever the options and the order of the rows *)
Lemma table_exact kw tbl x y :
  NoDup (map fst tbl) -> (2 <= length tbl)%nat -> In (x, y) tbl -> kw_ok kw ->
  interp1d_table kw tbl x = inr y.
Proof.
  intros Hnd Hlen Ha [r Hr].
  pose proof (sort_key_strict tbl Hnd) as HS.
  pose proof (sort_key_length NumR tbl) as HL.
  apply in_sort_key in Ha. destruct (in_split _ _ Ha) as (l1 & l2 & E).
  rewrite interp1d_table_sorted. rewrite E in *.
  destruct (list_last_case l1) as [E1|(l1' & [cx cy] & E1)]; subst l1.
  - destruct l2 as [|[cx cy] l2']; [cbn [app length] in HL; lia|].
    destruct r as [[[extrap be] below] above].
    change ([] ++ (x, y) :: (cx, cy) :: l2') with ([] ++ (x, y) :: (cx, cy) :: l2') in *.
    pose proof (br_lt [] l2' x y cx cy HS) as Hlt.
    rewrite (br_below [] l2' x y cx cy HS kw x extrap be below above Hr eq_refl) by lra.
    rewrite (Rlt_bool_false x x) by lra.
    assert (Ev : lin_eval x cx y cy x = y) by (unfold lin_eval; field; lra).
    rewrite Ev. destruct extrap; reflexivity.
  - rewrite <- app_assoc in *. cbn [app] in *.
    pose proof (br_lt l1' l2 cx cy x y HS) as Hlt.
    rewrite (br_inside l1' l2 cx cy x y HS kw x r Hr) by lra.
    f_equal. unfold lin_eval. field. lra.
Qed.

Lemma map_fst_combine {A B} (l1 : list A) (l2 : list B) : length l1 = length l2 ->
  map fst (combine l1 l2) = l1 /\ map snd (combine l1 l2) = l2.
Proof.
  revert l2. induction l1 as [|a r IH]; intros [|b l2] H; cbn in *; try discriminate; [split; reflexivity|].
  destruct (IH l2) as [E1 E2]; [lia|]. rewrite E1, E2. split; reflexivity.
Qed.

Lemma interp1d_is_table kw xs ys f : length xs = length ys ->
  interp1d NumR kw xs ys f = interp1d_table kw (combine xs ys) f.
Proof.
  intros H. unfold interp1d_table. destruct (map_fst_combine xs ys H) as [-> ->]. reflexivity.
Qed.

(* the same for the two arrays (frequencies, samples) that ScatFromData holds *)
Lemma interp1d_exact kw xs ys k :
  NoDup xs -> length xs = length ys -> (2 <= length xs)%nat -> (k < length xs)%nat -> kw_ok kw ->
  interp1d NumR kw xs ys (nth k xs 0) = inr (nth k ys 0).
Proof.
  intros Hnd Hlen H2 Hk Hkw. rewrite (interp1d_is_table _ _ _ _ Hlen).
  destruct (map_fst_combine xs ys Hlen) as [E1 _].
  apply table_exact; try assumption.
  - rewrite E1. exact Hnd.
  - rewrite combine_length. lia.
  - rewrite <- (combine_nth xs ys k 0 0 Hlen). apply nth_In. rewrite combine_length. lia.
Qed.

(* the constructor refuses fill_value='extrapolate' together with bounds_error=True *)
Lemma interp1d_extrapolate_and_raise xs ys f : xs <> [] ->
  interp1d NumR (mk_kw (Some true) Extrapolate) xs ys f = inl ErrExtrapolateAndRaise.
Proof.
  intros Hne. unfold interp1d, interp1d_plan.
  assert (Hl : (Z.of_nat (length (take (n0 NumR) xs (argsort NumR xs))) <? 1)%Z = false).
  { apply Z.ltb_ge. unfold take, argsort. rewrite !map_length, sort_key_length, combine_length, seq_length.
    destruct xs; [contradiction|cbn [length]; lia]. }
  rewrite Hl. reflexivity.
Qed.

(* ------------------------------------------------------------------------------------------ *)
(* 7. freq_interp_matrices: the key loop, the single-frequency branch                           *)
(* ------------------------------------------------------------------------------------------ *)
Definition M0 : mat (T:=R) := fun _ _ => 0.

Lemma freq_interp_matrices_multi kw freqs f (D : sdict (list (mat (T:=R)))) p :
  (1 < length freqs)%nat -> interp1d_plan NumR kw freqs f = inr p ->
  exists out, freq_interp_matrices NumR kw freqs f D = inr out /\
    forall k, out k = match D k with Some ms => Some (apply_plan_mat NumR p ms) | None => None end.
Proof.
  intros Hlen Hp. unfold freq_interp_matrices, SCAT_KEYS.
  apply Nat.ltb_lt in Hlen. rewrite Hlen. cbn [freq_interp_loop]. unfold freq_interp_one. rewrite Hlen, Hp.
  destruct (D LL) eqn:E1, (D LT) eqn:E2, (D TL) eqn:E3, (D TT) eqn:E4;
    (eexists; split; [reflexivity|]; intros []; unfold dict_set, dict_empty; cbn [skey_eqb];
     rewrite ?E1, ?E2, ?E3, ?E4; reflexivity).
Qed.

(* an error of the interpolator is raised as soon as one key is present; with no key at all the
   interpolator is never built and the result is the empty dict *)
Lemma freq_interp_matrices_error kw freqs f (D : sdict (list (mat (T:=R)))) e :
  (1 < length freqs)%nat -> interp1d_plan NumR kw freqs f = inl e ->
  freq_interp_matrices NumR kw freqs f D =
    if existsb (fun k => match D k with Some _ => true | None => false end) SCAT_KEYS
    then inl e else inr dict_empty.
Proof.
  intros Hlen Hp. unfold freq_interp_matrices, SCAT_KEYS.
  apply Nat.ltb_lt in Hlen. rewrite Hlen. cbn [freq_interp_loop existsb]. unfold freq_interp_one. rewrite Hlen, Hp.
  destruct (D LL), (D LT), (D TL), (D TT); reflexivity.
Qed.

(* one sampled frequency: its matrices are returned for ANY requested frequency and ANY options *)
Lemma freq_interp_matrices_single kw f0 f (D : sdict (list (mat (T:=R)))) :
  (forall k, D k <> Some []) ->
  exists out, freq_interp_matrices NumR kw [f0] f D = inr out /\
    (forall k, match D k, out k with
               | Some ms, Some m => forall j i, m j i = nth 0%nat ms M0 j i
               | None, None => True
               | _, _ => False
               end) /\
    freq_interp_warns NumR [f0] f = negb (Req_bool f f0).
Proof.
  intros Hne. unfold freq_interp_matrices, SCAT_KEYS. cbn [length Nat.ltb Nat.leb freq_interp_loop].
  unfold freq_interp_one. cbn [length Nat.ltb Nat.leb].
  pose proof (Hne LL) as H1. pose proof (Hne LT) as H2. pose proof (Hne TL) as H3. pose proof (Hne TT) as H4.
  destruct (D LL) as [[|a1 l1]|] eqn:E1; try (exfalso; apply H1; reflexivity);
  destruct (D LT) as [[|a2 l2]|] eqn:E2; try (exfalso; apply H2; reflexivity);
  destruct (D TL) as [[|a3 l3]|] eqn:E3; try (exfalso; apply H3; reflexivity);
  destruct (D TT) as [[|a4 l4]|] eqn:E4; try (exfalso; apply H4; reflexivity);
    (eexists; split; [reflexivity|]; split; [|reflexivity];
     intros []; unfold dict_set, dict_empty; cbn [skey_eqb]; rewrite ?E1, ?E2, ?E3, ?E4;
     try exact I; intros j i; reflexivity).
Qed.

(* no frequency at all: frequencies[0] raises *)
Lemma freq_interp_matrices_empty kw f (D : sdict (list (mat (T:=R)))) :
  freq_interp_matrices NumR kw [] f D = inl ErrIndex.
Proof. reflexivity. Qed.

(* every entry of the result is the one-dimensional interpolation of the column of samples *)
Lemma apply_plan_mat_entry kw freqs f p (ms : list (mat (T:=R))) j i :
  interp1d_plan NumR kw freqs f = inr p ->
  interp1d NumR kw freqs (map (fun M : mat => M j i) ms) f = inr (apply_plan_mat NumR p ms j i).
Proof. intros Hp. unfold interp1d. rewrite Hp. reflexivity. Qed.

Lemma interp1d_plan_of_value kw xs ys f v :
  interp1d NumR kw xs ys f = inr v -> exists p, interp1d_plan NumR kw xs f = inr p.
Proof.
  unfold interp1d. destruct (interp1d_plan NumR kw xs f) as [e|p]; [discriminate|eauto].
Qed.

(* ------------------------------------------------------------------------------------------ *)
(* 8. the interpolation in frequency and the interpolation in angle commute                     *)
(* ------------------------------------------------------------------------------------------ *)
Lemma pyget_take_map {A B} (g : A -> B) (dA : A) (ms : list A) ind z :
  pyget (g dA) (take (g dA) (map g ms) ind) z = g (pyget dA (take dA ms ind) z).
Proof.
  unfold pyget, take. rewrite !map_length.
  set (k := Z.to_nat _).
  rewrite <- (map_nth g). rewrite map_map. f_equal.
  apply map_ext. intros a. apply map_nth.
Qed.

Section Commute.
  Variable P : R.
  Variable n : Z.

  Lemma interp_zero a b : interp NumR P n M0 a b = 0.
  Proof. unfold interp, M0. cbn [NumR nadd nsub nmul]. ring. Qed.

  Lemma interp_const v a b : interp NumR P n (fun _ _ => v) a b = v.
  Proof. unfold interp. cbn [NumR nadd nsub nmul]. ring. Qed.

  Lemma interp_lincomb (A B : mat (T:=R)) wa wb a b :
    interp NumR P n (fun j i => wb * B j i + wa * A j i) a b
    = wb * interp NumR P n B a b + wa * interp NumR P n A a b.
  Proof. unfold interp. cbn [NumR nadd nsub nmul]. ring. Qed.

  Lemma interp_ext (A B : mat (T:=R)) a b : (forall j i, A j i = B j i) ->
    interp NumR P n A a b = interp NumR P n B a b.
  Proof. intros H. unfold interp. rewrite !H. reflexivity. Qed.

  Lemma pyget_take_entry (ms : list (mat (T:=R))) ind z j i :
    pyget 0 (take 0 (map (fun M : mat => M j i) ms) ind) z = pyget M0 (take M0 ms ind) z j i.
  Proof. exact (pyget_take_map (fun M : mat (T:=R) => M j i) M0 ms ind z). Qed.

  Lemma pyget_take_interp (ms : list (mat (T:=R))) ind z a b :
    pyget 0 (take 0 (map (fun M : mat => interp NumR P n M a b) ms) ind) z
    = interp NumR P n (pyget M0 (take M0 ms ind) z) a b.
  Proof.
    pose proof (pyget_take_map (fun M : mat (T:=R) => interp NumR P n M a b) M0 ms ind z) as H.
    cbv beta in H. rewrite interp_zero in H. exact H.
  Qed.

  Lemma nth_map_entry (ms : list (mat (T:=R))) k j i :
    nth k (map (fun M : mat => M j i) ms) 0 = nth k ms M0 j i.
  Proof. exact (map_nth (fun M : mat (T:=R) => M j i) ms M0 k). Qed.

  Lemma nth_map_interp (ms : list (mat (T:=R))) k a b :
    nth k (map (fun M : mat => interp NumR P n M a b) ms) 0 = interp NumR P n (nth k ms M0) a b.
  Proof.
    pose proof (map_nth (fun M : mat (T:=R) => interp NumR P n M a b) ms M0 k) as H.
    cbv beta in H. rewrite interp_zero in H. exact H.
  Qed.

  (* ScatFromData.__call__ interpolates in frequency first, then in angle; doing it the other way
     round (angle-interpolate every sampled matrix, then interpolate the values in frequency)
     gives the same number *)
  Lemma freq_angle_commute p (ms : list (mat (T:=R))) a b :
    interp NumR P n (apply_plan_mat NumR p ms) a b
    = apply_plan NumR p (map (fun M => interp NumR P n M a b) ms).
  Proof.
    destruct p as [ind lo hi wlo whi|v|k]; unfold apply_plan_mat, apply_plan; cbn [NumR n0 nadd nmul].
    - rewrite !pyget_take_interp, <- interp_lincomb. apply interp_ext. intros j i.
      rewrite !pyget_take_entry. reflexivity.
    - apply interp_const.
    - rewrite nth_map_interp. apply interp_ext. intros j i. apply nth_map_entry.
  Qed.
End Commute.

(* ------------------------------------------------------------------------------------------ *)
(* 9. ScatFromData.__call__ end to end                                                          *)
(* ------------------------------------------------------------------------------------------ *)
Section CallEndToEnd.
  Variable P : R.
  Hypothesis HP : 0 < P.
  Variable n : Z.
  Hypothesis Hn : (1 <= n)%Z.

  (* the value returned for a key is the interpolation in frequency of the angle-interpolated
     samples (two or more sampled frequencies) *)
  Lemma call_is_freq_interp_of_angle_interp kw freqs (D : sdict (list (mat (T:=R)))) a b f out key ms :
    (1 < length freqs)%nat -> D key = Some ms ->
    scat_from_data_call NumR P n kw freqs D a b f = inr out ->
    exists v, out key = Some v /\
      interp1d NumR kw freqs (map (fun M => interp NumR P n M a b) ms) f = inr v.
  Proof.
    intros Hlen HD Hcall. unfold scat_from_data_call in Hcall.
    destruct (interp1d_plan NumR kw freqs f) as [e|p] eqn:Hp.
    - rewrite (freq_interp_matrices_error kw freqs f D e Hlen Hp) in Hcall.
      assert (Hex : existsb (fun k => match D k with Some _ => true | None => false end) SCAT_KEYS = true).
      { apply existsb_exists. exists key. split; [destruct key; cbn; tauto|rewrite HD; reflexivity]. }
      rewrite Hex in Hcall. discriminate.
    - destruct (freq_interp_matrices_multi kw freqs f D p Hlen Hp) as (o & Ho & Hk).
      rewrite Ho in Hcall. injection Hcall as <-. rewrite (Hk key), HD.
      eexists. split; [reflexivity|]. unfold interp1d. rewrite Hp. f_equal.
      symmetry. apply freq_angle_commute.
  Qed.

  (* the data are reproduced: at a sampled frequency and at grid angles the call returns the
     stored entry [j, i], for a table given in any order *)
  Lemma call_reproduces_data kw freqs (D : sdict (list (mat (T:=R)))) key ms k i j :
    NoDup freqs -> (2 <= length freqs)%nat -> length ms = length freqs -> kw_ok kw ->
    D key = Some ms -> (k < length freqs)%nat -> (0 <= i < n)%Z -> (0 <= j < n)%Z ->
    exists out,
      scat_from_data_call NumR P n kw freqs D (angle NumR P n i) (angle NumR P n j) (nth k freqs 0) = inr out
      /\ out key = Some (nth k ms M0 j i).
  Proof.
    intros Hnd H2 Hlen Hkw HD Hk Hi Hj.
    set (col := map (fun M : mat (T:=R) => M j i) ms).
    assert (Hex : interp1d NumR kw freqs col (nth k freqs 0) = inr (nth k col 0)).
    { apply interp1d_exact; try assumption. unfold col. rewrite map_length. lia. }
    destruct (interp1d_plan_of_value _ _ _ _ _ Hex) as [p Hp].
    destruct (freq_interp_matrices_multi kw freqs (nth k freqs 0) D p ltac:(lia) Hp) as (o & Ho & Hko).
    unfold scat_from_data_call. rewrite Ho. eexists. split; [reflexivity|].
    cbv beta. rewrite (Hko key), HD. f_equal.
    rewrite (interp_at_nodes_R P HP n Hn) by assumption.
    pose proof (apply_plan_mat_entry kw freqs (nth k freqs 0) p ms j i Hp) as E.
    fold col in E. rewrite Hex in E. injection E as <-.
    unfold col. apply nth_map_entry.
  Qed.

  (* one sampled frequency: the call is the angle interpolation of the only matrix, at any
     requested frequency and with any options *)
  Lemma call_single_frequency kw f0 f (D : sdict (list (mat (T:=R)))) a b key M :
    (forall k, D k <> Some []) -> D key = Some [M] ->
    exists out, scat_from_data_call NumR P n kw [f0] D a b f = inr out
                /\ out key = Some (interp NumR P n M a b).
  Proof.
    intros Hne HD. destruct (freq_interp_matrices_single kw f0 f D Hne) as (o & Ho & Hk & _).
    unfold scat_from_data_call. rewrite Ho. eexists. split; [reflexivity|]. cbv beta.
    specialize (Hk key). rewrite HD in Hk. destruct (o key) as [m|]; [|contradiction].
    f_equal. apply interp_ext. intros j' i'. rewrite Hk. reflexivity.
  Qed.
End CallEndToEnd.

(* ------------------------------------------------------------------------------------------ *)
(* 10. as_multi_freq_matrices = the stack of as_single_freq_matrices                            *)
(* ------------------------------------------------------------------------------------------ *)
Local Close Scope R_scope.

Definition memb (k : skey) (l : list skey) : bool := existsb (skey_eqb k) l.

Lemma skey_eqb_eq a b : skey_eqb a b = true <-> a = b.
Proof. destruct a, b; cbn; split; intros H; try reflexivity; discriminate. Qed.

Lemma skey_eqb_refl a : skey_eqb a a = true.
Proof. destruct a; reflexivity. Qed.

Lemma memb_In k l : memb k l = true <-> In k l.
Proof.
  unfold memb. rewrite existsb_exists. split.
  - intros (x & Hx & E). apply skey_eqb_eq in E. subst. exact Hx.
  - intros H. exists k. split; [exact H|apply skey_eqb_refl].
Qed.

Lemma memb_cons k h r : memb k (h :: r) = skey_eqb k h || memb k r.
Proof. reflexivity. Qed.
Lemma memb_head h r : memb h (h :: r) = true.
Proof. rewrite memb_cons, skey_eqb_refl. reflexivity. Qed.
Lemma memb_tail k h r : memb k r = true -> memb k (h :: r) = true.
Proof. intros H. rewrite memb_cons, H. apply orb_true_r. Qed.

Section Stack.
  Context {T : Type} (N : Num T).
  Let zero3 : arr3 (T:=T) := fun _ _ _ => (n0 N, n0 N).

  Definition slab_of (mats : sdict (dtype * cmat (T:=T))) (k : skey) : cmat (T:=T) :=
    match mats k with Some (_, m) => m | None => fun _ _ => (n0 N, n0 N) end.
  Definition dtype_of (mats : sdict (dtype * cmat (T:=T))) (k : skey) : dtype :=
    match mats k with Some (dt, _) => dt | None => F64 end.

  Lemma multi_init_ok tc mats acc :
    (forall k, memb k tc = true -> mats k <> None) ->
    exists o, multi_init N tc mats acc = inr o /\
      forall k, o k = if memb k tc then Some (dtype_of mats k, zero3) else acc k.
  Proof.
    revert acc. induction tc as [|h r IH]; intros acc Hall; cbn [multi_init].
    - exists acc. split; [reflexivity|]. intros k. reflexivity.
    - assert (Hh : mats h <> None) by (apply Hall, memb_head).
      destruct (mats h) as [[dt m]|] eqn:Eh; [|contradiction].
      destruct (IH (dict_set acc h (dt, fun _ _ _ => (n0 N, n0 N)))) as (o & Ho & Hk).
      { intros k Hk. apply Hall, memb_tail, Hk. }
      exists o. split; [exact Ho|]. intros k. rewrite Hk, memb_cons.
      destruct (memb k r); [rewrite orb_true_r; reflexivity|]. rewrite orb_false_r.
      unfold dict_set. destruct (skey_eqb k h) eqn:E; [|reflexivity].
      apply skey_eqb_eq in E. subst k. unfold dtype_of. rewrite Eh. reflexivity.
  Qed.

  Lemma multi_init_err tc mats acc k :
    memb k tc = true -> mats k = None ->
    exists k', multi_init N tc mats acc = inl (MKeyError k') /\ memb k' tc = true /\ mats k' = None.
  Proof.
    revert acc. induction tc as [|h r IH]; intros acc Hk Hm; [discriminate|].
    cbn [multi_init]. destruct (mats h) as [[dt m]|] eqn:Eh.
    - rewrite memb_cons in Hk. destruct (skey_eqb k h) eqn:E.
      + apply skey_eqb_eq in E. subst k. rewrite Hm in Eh. discriminate.
      + cbn [orb] in Hk. destruct (IH (dict_set acc h (dt, fun _ _ _ => (n0 N, n0 N))) Hk Hm) as (k' & E1 & E2 & E3).
        exists k'. repeat split; try assumption. apply memb_tail, E2.
    - exists h. repeat split; try assumption. apply memb_head.
  Qed.

  Lemma multi_assign_ok tc mats i acc :
    (forall k, memb k tc = true -> mats k <> None /\ acc k <> None) ->
    exists o, multi_assign N tc mats i acc = inr o /\
      forall k, match acc k with
                | Some (dt, a) => exists a', o k = Some (dt, a') /\
                    forall i' j l, a' i' j l = if memb k tc && Nat.eqb i' i
                                               then cast_to N dt (slab_of mats k j l) else a i' j l
                | None => o k = None
                end.
  Proof.
    revert acc. induction tc as [|h r IH]; intros acc Hall; cbn [multi_assign].
    - exists acc. split; [reflexivity|]. intros k. destruct (acc k) as [[dt a]|]; [|reflexivity].
      exists a. split; [reflexivity|]. intros. reflexivity.
    - destruct (Hall h) as [Hm Ha]; [apply memb_head|].
      destruct (mats h) as [[dth mh]|] eqn:Eh; [|contradiction].
      destruct (acc h) as [[dt a]|] eqn:Ea; [|contradiction].
      set (acc1 := dict_set acc h (dt, fun i' => if Nat.eqb i' i then (fun j l => cast_to N dt (mh j l)) else a i')).
      destruct (IH acc1) as (o & Ho & Hk).
      { intros k Hk. split; [apply Hall, memb_tail, Hk|].
        unfold acc1, dict_set. destruct (skey_eqb k h); [discriminate|].
        apply Hall, memb_tail, Hk. }
      exists o. split; [exact Ho|]. intros k. specialize (Hk k). rewrite memb_cons.
      unfold acc1, dict_set in Hk. destruct (skey_eqb k h) eqn:E.
      + apply skey_eqb_eq in E. subst k. rewrite Ea. destruct Hk as (a' & E1 & E2).
        exists a'. split; [exact E1|]. intros i' j l. rewrite E2. cbn [orb].
        unfold slab_of. rewrite Eh. destruct (memb h r), (Nat.eqb i' i); reflexivity.
      + cbn [orb]. exact Hk.
  Qed.

  Lemma multi_assign_err tc mats i acc k :
    memb k tc = true -> mats k = None -> exists k', multi_assign N tc mats i acc = inl (MKeyError k').
  Proof.
    revert acc. induction tc as [|h r IH]; intros acc Hk Hm; [discriminate|].
    cbn [multi_assign]. destruct (mats h) as [[dt m]|] eqn:Eh; [|eauto].
    destruct (acc h) as [[dt' a]|]; [|eauto].
    rewrite memb_cons in Hk. destruct (skey_eqb k h) eqn:E.
    - apply skey_eqb_eq in E. subst k. rewrite Hm in Eh. discriminate.
    - apply IH; assumption.
  Qed.

  Variable S : scat_call (T:=T).
  Variables inc_theta out_theta : mat (T:=T).
  Variable tc : list skey.
  Let Sf (f : T) := S inc_theta out_theta f tc.

  Lemma multi_loop_ok fs : forall i o,
    (forall f, In f fs -> forall k, memb k tc = true -> Sf f k <> None) ->
    (forall k, memb k tc = true -> o k <> None) ->
    exists o', multi_loop N S inc_theta out_theta tc i fs (Some o) = inr (Some o') /\
      forall k, match o k with
                | Some (dt, a) => exists a', o' k = Some (dt, a') /\
                    forall i' j l, a' i' j l =
                      if memb k tc && (Nat.leb i i' && Nat.ltb i' (i + length fs))
                      then cast_to N dt (slab_of (Sf (nth (i' - i) fs (n0 N))) k j l) else a i' j l
                | None => o' k = None
                end.
  Proof.
    induction fs as [|f r IH]; intros i o Hall Ho; cbn [multi_loop].
    - exists o. split; [reflexivity|]. intros k. destruct (o k) as [[dt a]|]; [|reflexivity].
      exists a. split; [reflexivity|]. intros i' j l. cbn [length]. rewrite Nat.add_0_r.
      destruct (Nat.leb_spec i i'), (Nat.ltb_spec i' i); try lia; cbn; rewrite ?andb_false_r; reflexivity.
    - fold (Sf f).
      destruct (multi_assign_ok tc (Sf f) i o) as (o1 & Ho1 & Hk1).
      { intros k Hk. split; [apply (Hall f (or_introl eq_refl) k Hk)|apply Ho, Hk]. }
      rewrite Ho1.
      destruct (IH (Datatypes.S i) o1) as (o' & Ho' & Hk').
      { intros f' Hf'. apply Hall. right. exact Hf'. }
      { intros k Hk. specialize (Hk1 k). specialize (Ho k Hk). destruct (o k) as [[dt a]|]; [|contradiction].
        destruct Hk1 as (a' & E & _). rewrite E. discriminate. }
      exists o'. split; [exact Ho'|]. intros k. specialize (Hk1 k). specialize (Hk' k).
      destruct (o k) as [[dt a]|].
      + destruct Hk1 as (a1 & E1 & H1). rewrite E1 in Hk'. destruct Hk' as (a' & E' & H').
        exists a'. split; [exact E'|]. intros i' j l. rewrite H', H1. cbn [length].
        destruct (memb k tc); cbn [andb]; [|reflexivity].
        destruct (Nat.leb_spec (Datatypes.S i) i'), (Nat.ltb_spec i' (Datatypes.S i + length r)),
                 (Nat.leb_spec i i'), (Nat.ltb_spec i' (i + Datatypes.S (length r))), (Nat.eqb_spec i' i);
          try lia; cbn [andb];
          first [ reflexivity
                | subst i'; rewrite Nat.sub_diag; reflexivity
                | replace (i' - i)%nat with (Datatypes.S (i' - Datatypes.S i)) by lia; reflexivity ].
      + rewrite Hk1 in Hk'. exact Hk'.
  Qed.

  Lemma multi_loop_err fs : forall i st,
    (forall o, st = Some o -> forall k, memb k tc = true -> o k <> None) ->
    (exists f k, In f fs /\ memb k tc = true /\ Sf f k = None) ->
    exists k', multi_loop N S inc_theta out_theta tc i fs st = inl (MKeyError k').
  Proof.
    induction fs as [|f r IH]; intros i st Hst (f' & k & Hf' & Hk & Hm); [contradiction|].
    cbn [multi_loop]. fold (Sf f).
    destruct (forallb (fun k => match Sf f k with Some _ => true | None => false end) tc) eqn:Eall.
    - (* this frequency is complete: the missing key is further down *)
      assert (Hall : forall k, memb k tc = true -> Sf f k <> None).
      { intros k0 Hk0. rewrite forallb_forall in Eall. apply memb_In in Hk0. specialize (Eall k0 Hk0).
        destruct (Sf f k0); [discriminate|discriminate]. }
      destruct Hf' as [<-|Hf']; [exfalso; apply (Hall k Hk Hm)|].
      assert (Htail : forall o, (forall k, memb k tc = true -> o k <> None) ->
                exists k', match multi_assign N tc (Sf f) i o with
                           | inl e => inl e
                           | inr o' => multi_loop N S inc_theta out_theta tc (Datatypes.S i) r (Some o')
                           end = inl (MKeyError k')).
      { intros o Hok.
        destruct (multi_assign_ok tc (Sf f) i o) as (o1 & Ho1 & Hk1).
        { intros k0 Hk0. split; [apply Hall, Hk0|apply Hok, Hk0]. }
        rewrite Ho1. apply IH.
        + intros o2 E2 k0 Hk0. injection E2 as <-. specialize (Hk1 k0). specialize (Hok k0 Hk0).
          destruct (o k0) as [[dt a]|]; [|contradiction]. destruct Hk1 as (a' & E & _). rewrite E. discriminate.
        + exists f', k. repeat split; assumption. }
      destruct st as [o|].
      + apply Htail. apply Hst. reflexivity.
      + destruct (multi_init_ok tc (Sf f) dict_empty Hall) as (o & Ho & Hko).
        rewrite Ho. apply Htail. intros k0 Hk0. rewrite Hko, Hk0. discriminate.
    - (* this frequency misses a requested key *)
      assert (Hmiss : exists k0, memb k0 tc = true /\ Sf f k0 = None).
      { destruct (forallb_forall (fun k => match Sf f k with Some _ => true | None => false end) tc) as [_ H].
        destruct (existsb (fun k => match Sf f k with Some _ => false | None => true end) tc) eqn:Eex.
        - apply existsb_exists in Eex. destruct Eex as (k0 & Hin & E0). exists k0.
          split; [apply memb_In, Hin|]. destruct (Sf f k0); [discriminate|reflexivity].
        - exfalso. rewrite H in Eall; [discriminate|]. intros k0 Hin.
          destruct (Sf f k0) eqn:E0; [reflexivity|exfalso].
          assert (Hc : existsb (fun k => match Sf f k with Some _ => false | None => true end) tc = true).
          { apply existsb_exists. exists k0. split; [exact Hin|rewrite E0; reflexivity]. }
          rewrite Hc in Eex. discriminate. }
      destruct Hmiss as (k0 & Hk0 & Hm0).
      destruct st as [o|].
      + destruct (multi_assign_err tc (Sf f) i o k0 Hk0 Hm0) as (k' & E). rewrite E. eauto.
      + destruct (multi_init_err tc (Sf f) dict_empty k0 Hk0 Hm0) as (k' & E & _). rewrite E. eauto.
  Qed.
End Stack.

Section StackTop.
  Context {T : Type} (N : Num T).
  Variable S : scat_call (T:=T).
  Variable P : T.
  Variable n : Z.
  Variable tc : list skey.
  Let single (f : T) := as_single_freq_matrices N S P f n tc.

  Lemma as_multi_empty : as_multi_freq_matrices N S P [] n tc = inr None.
  Proof. reflexivity. Qed.

  (* AS_MULTI = STACK OF AS_SINGLE: slab i of the array of a key is the single-frequency matrix
     of that key at frequencies[i], stored with the dtype that the key has at frequencies[0];
     keys outside to_compute are absent *)
  Lemma as_multi_is_stack f0 r :
    (forall f, In f (f0 :: r) -> forall k, memb k tc = true -> single f k <> None) ->
    exists o, as_multi_freq_matrices N S P (f0 :: r) n tc = inr (Some o) /\
      forall k, if memb k tc
                then exists a, o k = Some (dtype_of (single f0) k, a) /\
                     forall i j l, (i < length (f0 :: r))%nat ->
                       a i j l = cast_to N (dtype_of (single f0) k)
                                   (slab_of N (single (nth i (f0 :: r) (n0 N))) k j l)
                else o k = None.
  Proof.
    intros Hall. unfold as_multi_freq_matrices. unfold single, as_single_freq_matrices in *.
    cbn [make_angles_grid] in *.
    set (inc_t := fun _ i : Z => angle N P n i) in *. set (out_t := fun j _ : Z => angle N P n j) in *.
    destruct (multi_init_ok N tc (S inc_t out_t f0 tc) dict_empty) as (o0 & Ho0 & Hk0).
    { apply (Hall f0). left; reflexivity. }
    destruct (multi_loop_ok N S inc_t out_t tc (f0 :: r) 0%nat o0) as (o & Ho & Hk).
    { exact Hall. }
    { intros k Hk. rewrite Hk0, Hk. discriminate. }
    exists o. split.
    - cbn [multi_loop] in Ho |- *. rewrite Ho0. exact Ho.
    - intros k. specialize (Hk k). rewrite Hk0 in Hk. destruct (memb k tc) eqn:Em.
      + destruct Hk as (a & Ea & Ha). exists a. split; [exact Ea|].
        intros i j l Hi. rewrite Ha. cbn [andb]. rewrite Nat.sub_0_r.
        destruct (Nat.ltb_spec i (0 + length (f0 :: r))); [reflexivity|lia].
      + unfold dict_empty in Hk. exact Hk.
  Qed.

  (* a requested key that the scatterer does not return at some frequency is a KeyError *)
  Lemma as_multi_keyerror fs f k :
    In f fs -> memb k tc = true -> single f k = None ->
    exists k', as_multi_freq_matrices N S P fs n tc = inl (MKeyError k').
  Proof.
    intros Hf Hk Hm. unfold as_multi_freq_matrices. unfold single, as_single_freq_matrices in Hm.
    cbn [make_angles_grid] in *.
    apply multi_loop_err.
    - intros o E. discriminate.
    - exists f, k. repeat split; assumption.
  Qed.

  (* values that fit their dtype are stored unchanged *)
  Definition well_typed (dt : dtype) (v : T * T) : Prop :=
    match dt with F64 => snd v = n0 N | C128 => True end.

  Lemma cast_to_id dt v : well_typed dt v -> cast_to N dt v = v.
  Proof. destruct dt, v as [re im]; cbn; intros H; [rewrite H|]; reflexivity. Qed.
End StackTop.

(* ------------------------------------------------------------------------------------------ *)
(* 11. make_angles_grid, rotation by whole steps, dict comprehensions                           *)
(* ------------------------------------------------------------------------------------------ *)
Lemma grid_layout {T} (N : Num T) P n j i :
  fst (make_angles_grid N P n) j i = angle N P n i /\ snd (make_angles_grid N P n) j i = angle N P n j.
Proof. split; reflexivity. Qed.

Lemma matrix_on_grid_is_matrix_of {T} (N : Num T) P n (f : T -> T -> T) j i :
  matrix_on_grid f (fst (make_angles_grid N P n)) (snd (make_angles_grid N P n)) j i = matrix_of N P f n j i.
Proof. reflexivity. Qed.

Local Open Scope Z_scope.

Lemma shift_compose {T} (n k l : Z) (M : Z -> Z -> T) j i :
  shift_matrix n k (shift_matrix n l M) j i = shift_matrix n (k + l) M j i.
Proof.
  unfold shift_matrix. destruct (Z.eq_dec n 0) as [->|Hn].
  - rewrite !Zmod_0_r. f_equal; ring.
  - rewrite !Zminus_mod_idemp_l. f_equal; f_equal; ring.
Qed.

Lemma shift_mod {T} (n k : Z) (M : Z -> Z -> T) j i :
  shift_matrix n (k mod n) M j i = shift_matrix n k M j i.
Proof. unfold shift_matrix. rewrite !Zminus_mod_idemp_r. reflexivity. Qed.

(* any whole number of full turns (negative included) is the identity on the matrix *)
Lemma shift_full_turns {T} (n m : Z) (M : Z -> Z -> T) j i : 0 <= j < n -> 0 <= i < n ->
  shift_matrix n (m * n) M j i = M j i.
Proof.
  intros Hj Hi. unfold shift_matrix.
  replace (j - m * n) with (j + (- m) * n) by ring. replace (i - m * n) with (i + (- m) * n) by ring.
  rewrite !Z_mod_plus_full, !Z.mod_small by lia. reflexivity.
Qed.

Lemma shift_zero {T} (n : Z) (M : Z -> Z -> T) j i : 0 <= j < n -> 0 <= i < n ->
  shift_matrix n 0 M j i = M j i.
Proof. intros Hj Hi. apply (shift_full_turns n 0 M j i Hj Hi). Qed.

(* rotating back undoes the rotation *)
Lemma shift_inverse {T} (n k : Z) (M : Z -> Z -> T) j i : 0 <= j < n -> 0 <= i < n ->
  shift_matrix n (- k) (shift_matrix n k M) j i = M j i.
Proof.
  intros Hj Hi. rewrite shift_compose. replace (- k + k) with 0 by ring. apply shift_zero; assumption.
Qed.

Local Close Scope Z_scope.

(* {key: g(m) for key, m in d.items()}: same keys in the same order, g applied per key *)
Lemma dict_map_values_keys {K A B} (g : A -> B) (items : list (K * A)) :
  map fst (dict_map_values g items) = map fst items.
Proof. unfold dict_map_values. rewrite map_map. reflexivity. Qed.

Lemma dict_map_values_lookup {K A B} (eqb : K -> K -> bool) (g : A -> B) (items : list (K * A)) k :
  lookup eqb k (dict_map_values g items) = option_map g (lookup eqb k items).
Proof.
  induction items as [|[k' v] r IH]; cbn; [reflexivity|].
  destruct (eqb k k'); [reflexivity|exact IH].
Qed.

Lemma rotate_matrices_per_key {K T} (eqb : K -> K -> bool) n k (items : list (K * (Z -> Z -> T))) key :
  lookup eqb key (rotate_matrices_steps n k items) = option_map (shift_matrix n k) (lookup eqb key items).
Proof. apply dict_map_values_lookup. Qed.

Lemma rotate_matrices_compose {K T} n k l (items : list (K * (Z -> Z -> T))) :
  Forall2 (fun a b => fst a = fst b /\ forall j i, snd a j i = snd b j i)
          (rotate_matrices_steps n k (rotate_matrices_steps n l items))
          (rotate_matrices_steps n (k + l) items).
Proof.
  unfold rotate_matrices_steps, dict_map_values. rewrite map_map.
  induction items as [|[key M] r IH]; cbn [map fst snd]; constructor; [|exact IH].
  split; [reflexivity|]. intros j i. apply shift_compose.
Qed.

(* ------------------------------------------------------------------------------------------ *)
(* 12. the FFT route of rotate_matrix composes additively for ANY two angles                    *)
(* ------------------------------------------------------------------------------------------ *)
From Coquelicot Require Import Complex.
From Arim Require Import Model.Dft Proofs.DftProofs.
Local Open Scope R_scope.

Lemma rotate_spectrum_compose X n a b k1 k2 :
  rotate_spectrum (rotate_spectrum X n a) n b k1 k2 = rotate_spectrum X n (a + b) k1 k2.
Proof.
  unfold rotate_spectrum.
  set (w := IZR (fftfreq_idx n k1) / (2 * PI) + IZR (fftfreq_idx n k2) / (2 * PI)).
  replace (- 2 * PI * w * (a + b)) with (- 2 * PI * w * b + - 2 * PI * w * a) by ring.
  rewrite cis_add, Cmult_assoc. reflexivity.
Qed.

Lemma rotate_spectrum_zero X n k1 k2 : rotate_spectrum X n 0 k1 k2 = X k1 k2.
Proof.
  unfold rotate_spectrum. rewrite Rmult_0_r, cis_0. apply Cmult_1_l.
Qed.

(* a whole number of full turns leaves the spectrum (hence the matrix) unchanged, for every n *)
Lemma rotate_spectrum_full_turns X n (m : Z) k1 k2 :
  rotate_spectrum X n (2 * PI * IZR m) k1 k2 = X k1 k2.
Proof.
  unfold rotate_spectrum.
  set (z := (- (fftfreq_idx n k1 + fftfreq_idx n k2) * m)%Z).
  replace (- 2 * PI * (IZR (fftfreq_idx n k1) / (2 * PI) + IZR (fftfreq_idx n k2) / (2 * PI)) * (2 * PI * IZR m))
    with (0 + 2 * IZR z * PI).
  - rewrite cis_period_Z, cis_0. apply Cmult_1_l.
  - unfold z. rewrite mult_IZR, opp_IZR, plus_IZR. field. apply PI_neq0.
Qed.
Local Close Scope R_scope.

(* ------------------------------------------------------------------------------------------ *)
(* 13. scat_factory                                                                              *)
(* ------------------------------------------------------------------------------------------ *)
Lemma lower_ascii_idem c : lower_ascii (lower_ascii c) = lower_ascii c.
Proof. destruct c as [[] [] [] [] [] [] [] []]; reflexivity. Qed.

Lemma lower_idem s : lower (lower s) = lower s.
Proof. induction s as [|c r IH]; cbn [lower]; [reflexivity|]. rewrite lower_ascii_idem, IH. reflexivity. Qed.

(* the kind is matched without regard to (ASCII) case *)
Lemma scat_factory_case_insensitive {A} s1 s2 (m : material A) args kwargs :
  lower s1 = lower s2 -> scat_factory s1 m args kwargs = scat_factory s2 m args kwargs.
Proof. intros H. unfold scat_factory. rewrite H. reflexivity. Qed.

Local Open Scope string_scope.
Lemma scat_factory_table {A} (m : material A) args kwargs :
  scat_factory "file" m args kwargs = inr (mk_call CLoadScat args kwargs) /\
  scat_factory "crack_centre" m args kwargs =
    inr (mk_call CCrackCentreScat args
           (("longitudinal_vel", m_vl m) :: ("transverse_vel", m_vt m) :: ("density", m_rho m) :: kwargs)) /\
  scat_factory "crack_tip" m args kwargs = inr (mk_call CCrackTipScat (m_vl m :: m_vt m :: args) kwargs) /\
  scat_factory "sdh" m args kwargs =
    inr (mk_call CSdhScat args (("longitudinal_vel", m_vl m) :: ("transverse_vel", m_vt m) :: kwargs)) /\
  scat_factory "point" m args kwargs = inr (mk_call CPointSourceScat (m_vl m :: m_vt m :: args) kwargs).
Proof. repeat split. Qed.

(* which constructor is called is decided by the lower-cased kind alone, and nothing else is accepted *)
Lemma scat_factory_ctor {A} s (m : material A) args kwargs :
  match scat_factory s m args kwargs with
  | inr c => match c_ctor c with
             | CLoadScat => lower s = "file"
             | CCrackCentreScat => lower s = "crack_centre"
             | CCrackTipScat => lower s = "crack_tip"
             | CSdhScat => lower s = "sdh"
             | CPointSourceScat => lower s = "point"
             end
  | inl msg => msg = lower s /\ ~ In (lower s) ["file"; "crack_centre"; "crack_tip"; "sdh"; "point"]
  end.
Proof.
  unfold scat_factory.
  destruct (String.eqb_spec (lower s) "file") as [E1|E1]; [exact E1|].
  destruct (String.eqb_spec (lower s) "crack_centre") as [E2|E2]; [exact E2|].
  destruct (String.eqb_spec (lower s) "crack_tip") as [E3|E3]; [exact E3|].
  destruct (String.eqb_spec (lower s) "sdh") as [E4|E4]; [exact E4|].
  destruct (String.eqb_spec (lower s) "point") as [E5|E5]; [exact E5|].
  split; [reflexivity|]. cbn [In]. intros [H|[H|[H|[H|[H|[]]]]]]; congruence.
Qed.
Local Close Scope string_scope.

(* ------------------------------------------------------------------------------------------ *)
(* 14. ScatFromData.__init__                                                                     *)
(* ------------------------------------------------------------------------------------------ *)
Lemma nodup_all_same {A} (dec : forall a b : A, {a = b} + {a <> b}) (l : list A) a :
  l <> [] -> (forall x, In x l -> x = a) -> nodup dec l = [a].
Proof.
  induction l as [|x r IH]; intros Hne Hall; [contradiction|].
  cbn [nodup]. assert (x = a) by (apply Hall; left; reflexivity). subst x.
  destruct (in_dec dec a r) as [Hin|Hnot].
  - apply IH; [intros ->; contradiction|]. intros x Hx. apply Hall. right. exact Hx.
  - destruct r as [|y r']; [reflexivity|exfalso]. apply Hnot. left. apply Hall. right. left. reflexivity.
Qed.

Definition present_shapes (shapes : sdict shape) : list shape :=
  flat_map (fun k => match shapes k with Some s => [s] | None => [] end) SCAT_KEYS.

Lemma in_present_shapes shapes s : In s (present_shapes shapes) <-> exists k, shapes k = Some s.
Proof.
  unfold present_shapes. rewrite in_flat_map. split.
  - intros (k & _ & H). exists k. destruct (shapes k); [destruct H as [->|[]]; reflexivity|contradiction].
  - intros (k & H). exists k. split; [destruct k; cbn; tauto|rewrite H; left; reflexivity].
Qed.

Definition numfreq_of (freq_shape : shape) : option nat :=
  match freq_shape with [] => Some 1%nat | [k] => Some k | _ => None end.

(* the constructor accepts exactly: frequencies 0-d or 1-d, at least one matrix, every matrix
   given of shape (numfreq, numangles, numangles) *)
Lemma sfd_init_ok_iff freq_shape shapes nf na :
  sfd_init freq_shape shapes = inr (nf, na) <->
  numfreq_of freq_shape = Some nf /\ (exists k s, shapes k = Some s) /\
  (forall k s, shapes k = Some s -> s = [nf; na; na]).
Proof.
  unfold sfd_init. fold (present_shapes shapes). split.
  - intros H.
    assert (Hnf : exists nf', numfreq_of freq_shape = Some nf' /\
              match nodup shape_eq_dec (present_shapes shapes) with
              | [] => inl ENoMatrix
              | [s] => match s with
                       | [a; b; c] => if negb (b =? c)%nat then inl EWrongShape
                                      else if negb (a =? nf')%nat then inl EWrongShape else inr (nf', b)
                       | _ => inl EWrongShape
                       end
              | _ => inl EShapesDiffer
              end = inr (nf, na)).
    { destruct freq_shape as [|k [|k' r]]; [exists 1%nat|exists k|discriminate]; (split; [reflexivity|exact H]). }
    destruct Hnf as (nf' & Enf & H').
    destruct (nodup shape_eq_dec (present_shapes shapes)) as [|s [|s' r]] eqn:End; try discriminate.
    destruct s as [|a [|b [|c [|d r']]]]; try discriminate.
    destruct (Nat.eqb_spec b c) as [->|]; [|discriminate]. cbn [negb] in H'.
    destruct (Nat.eqb_spec a nf') as [->|]; [|discriminate]. cbn [negb] in H'.
    injection H' as -> ->.
    assert (Hin : forall s, In s (present_shapes shapes) <-> s = [nf; na; na]).
    { intros s. rewrite <- (nodup_In shape_eq_dec), End. cbn. split; [intros [<-|[]]; reflexivity|intros ->; left; reflexivity]. }
    split; [exact Enf|]. split.
    + pose proof (proj2 (Hin [nf; na; na]) eq_refl) as Hx. apply in_present_shapes in Hx.
      destruct Hx as (k & Hk). eauto.
    + intros k s Hk. apply Hin, in_present_shapes. eauto.
  - intros (Enf & (k0 & s0 & Hk0) & Hall).
    assert (End : nodup shape_eq_dec (present_shapes shapes) = [[nf; na; na]]).
    { apply nodup_all_same.
      - intros E. assert (Hin : In s0 (present_shapes shapes)) by (apply in_present_shapes; eauto).
        rewrite E in Hin. contradiction.
      - intros s Hs. apply in_present_shapes in Hs. destruct Hs as (k & Hk). apply (Hall k s Hk). }
    rewrite End.
    destruct freq_shape as [|k [|k' r]]; cbn in Enf; try discriminate; injection Enf as <-;
      rewrite !Nat.eqb_refl; reflexivity.
Qed.
