(* Proofs/BlocksProofs.v — lemmas about Model/Blocks.v (C13). Axiom-free.

   1. Python's math.ceil(a / b) and chunk_array with a block size of any sign.
   2. Tasks that read-modify-write their own cells: any order, same array.
   3. find_minimum_times as a whole: errors, views, blocked = unblocked for every
      block size >= 1, every thread count >= 1 and every order of execution.
   4. distance_pairwise as a whole: the same, with and without `out=`.
   5. The selector of the sensitivity loops on the three shapes it is applied to. *)
From Coq Require Import Arith List Bool Lia Permutation ZArith.
From Arim Require Import Base.Num Model.Chunk Proofs.ChunkProofs Model.ChunkND Proofs.ChunkNDProofs
                         Model.MinPlus Proofs.MinPlusProofs Model.Blocks.
Import ListNotations.

(* ---------- 1. math.ceil(a / b) ------------------------------------------------ *)
Lemma py_ceil_div_None a b : py_ceil_div a b = None <-> b = 0%Z.
Proof.
  unfold py_ceil_div. destruct (Z.eqb_spec b 0); split; intros H; try discriminate; try reflexivity; congruence.
Qed.

(* positive block size: the ceiling of Model/Chunk.v *)
Lemma py_ceil_div_nat a b : 1 <= b ->
  py_ceil_div (Z.of_nat a) (Z.of_nat b) = Some (Z.of_nat (ceil_div a b)).
Proof.
  intros Hb. unfold py_ceil_div, ceil_div.
  destruct (Z.eqb_spec (Z.of_nat b) 0) as [E|_]; [lia|]. f_equal.
  rewrite Nat2Z.inj_div. replace (Z.of_nat (a + b - 1)) with (Z.of_nat a + Z.of_nat b - 1)%Z by lia.
  set (x := Z.of_nat a). set (y := Z.of_nat b).
  assert (Hy : (1 <= y)%Z) by (unfold y; lia).
  assert (Hx : (0 <= x)%Z) by (unfold x; lia).
  clearbody x y.
  pose proof (Z.div_mod (- x) y ltac:(lia)) as D1. pose proof (Z.mod_pos_bound (- x) y ltac:(lia)) as B1.
  pose proof (Z.div_mod (x + y - 1) y ltac:(lia)) as D2. pose proof (Z.mod_pos_bound (x + y - 1) y ltac:(lia)) as B2.
  nia.
Qed.

Lemma py_ceil_div_pos a b : (1 <= b)%Z ->
  py_ceil_div (Z.of_nat a) b = Some (Z.of_nat (ceil_div a (Z.to_nat b))).
Proof.
  intros Hb. rewrite <- (Z2Nat.id b) at 1 by lia. apply py_ceil_div_nat. lia.
Qed.

(* negative block size: numchunks <= 0 *)
Lemma py_ceil_div_neg a b : (0 <= a)%Z -> (b < 0)%Z ->
  exists nc, py_ceil_div a b = Some nc /\ (nc <= 0)%Z.
Proof.
  intros Ha Hb. unfold py_ceil_div. destruct (Z.eqb_spec b 0) as [E|_]; [lia|].
  eexists. split; [reflexivity|].
  pose proof (Z.div_mod (- a) b ltac:(lia)) as D. pose proof (Z.mod_neg_bound (- a) b Hb) as B.
  nia.
Qed.

(* ---------- chunk_array_py ----------------------------------------------------- *)
Lemma selectors_n_raw ndim ax len b :
  selectors_n ndim ax (numchunks len b) b = raw_selectors ndim ax len b.
Proof. reflexivity. Qed.

Lemma selectors_n_0 ndim ax b : selectors_n ndim ax 0 b = [].
Proof. unfold selectors_n. cbn [seq map]. destruct (ax =? 0); [reflexivity|]. destruct (ax =? ndim - 1); reflexivity. Qed.

Lemma chunk_array_py_pos shape b axis ax : (1 <= b)%Z ->
  normalise_axis (length shape) axis = Some ax ->
  chunk_array_py shape b axis = inr (raw_selectors (length shape) ax (nth ax shape 0) (Z.to_nat b)).
Proof.
  intros Hb Hn. unfold chunk_array_py. rewrite Hn, py_ceil_div_pos by assumption.
  rewrite Nat2Z.id. reflexivity.
Qed.

Lemma chunk_array_py_neg shape b axis ax : (b < 0)%Z ->
  normalise_axis (length shape) axis = Some ax ->
  chunk_array_py shape b axis = inr [].
Proof.
  intros Hb Hn. unfold chunk_array_py. rewrite Hn.
  destruct (py_ceil_div_neg (Z.of_nat (nth ax shape 0)) b ltac:(lia) Hb) as (nc & E & Hnc).
  rewrite E. replace (Z.to_nat nc) with 0 by lia. rewrite selectors_n_0. reflexivity.
Qed.

Lemma chunk_array_py_zero shape axis ax :
  normalise_axis (length shape) axis = Some ax ->
  chunk_array_py shape 0 axis = inl ZeroDivisionError.
Proof. intros Hn. unfold chunk_array_py. rewrite Hn. reflexivity. Qed.

(* the call raises exactly for block size 0 (ZeroDivisionError) or a bad axis (IndexError) *)
Lemma chunk_array_py_error shape b axis e :
  chunk_array_py shape b axis = inl e <->
  (e = IndexError /\ normalise_axis (length shape) axis = None) \/
  (e = ZeroDivisionError /\ b = 0%Z /\ normalise_axis (length shape) axis <> None).
Proof.
  unfold chunk_array_py. destruct (normalise_axis (length shape) axis) as [ax|] eqn:Hn.
  - destruct (py_ceil_div (Z.of_nat (nth ax shape 0)) b) as [nc|] eqn:E.
    + split; [discriminate|]. intros [[_ H]|[_ [H _]]]; [discriminate|].
      rewrite H in E. unfold py_ceil_div in E. simpl in E. discriminate.
    + apply py_ceil_div_None in E. split.
      * intros H. injection H as <-. right. repeat split; [assumption|discriminate].
      * intros [[_ H]|[-> _]]; [discriminate|reflexivity].
  - split.
    + intros H. injection H as <-. left. split; reflexivity.
    + intros [[-> _]|[_ [_ H]]]; [reflexivity|congruence].
Qed.

(* ---------- generic folds ------------------------------------------------------ *)
Lemma fold_left_map {A B C} (f : A -> C -> A) (h : B -> C) l a :
  fold_left f (map h l) a = fold_left (fun a x => f a (h x)) l a.
Proof. revert a. induction l as [|x l IH]; intros a; simpl; [reflexivity|]. apply IH. Qed.

(* two nested loops = one loop over the pairs, in the same order *)
Lemma fold_left_nested {A X Y} (F : A -> X -> Y -> A) xs ys a :
  fold_left (fun a x => fold_left (fun a y => F a x y) ys a) xs a
  = fold_left (fun a xy => F a (fst xy) (snd xy)) (list_prod xs ys) a.
Proof.
  revert a. induction xs as [|x xs IH]; intros a; simpl; [reflexivity|].
  rewrite fold_left_app, fold_left_map. cbn [fst snd]. apply IH.
Qed.

Lemma collect_map_inr {A B} (f : A -> res B) (g : A -> B) l :
  (forall x, In x l -> f x = inr (g x)) -> collect (map f l) = inr (map g l).
Proof.
  induction l as [|x l IH]; intros H; simpl; [reflexivity|].
  rewrite (H x) by (left; reflexivity). rewrite IH by (intros y Hy; apply H; right; assumption).
  reflexivity.
Qed.

Lemma flat_map_map_pair {A B C} (f : A -> B -> C) (l1 : list A) (l2 : list B) :
  flat_map (fun a => map (f a) l2) l1 = map (fun ab => f (fst ab) (snd ab)) (list_prod l1 l2).
Proof.
  induction l1 as [|a l1 IH]; simpl; [reflexivity|]. rewrite map_app, map_map, IH. reflexivity.
Qed.

Lemma map_nth_seq {A B} (G : A -> B) (l : list A) d :
  map (fun i => G (nth i l d)) (seq 0 (length l)) = map G l.
Proof.
  induction l as [|x l IH]; simpl; [reflexivity|]. f_equal.
  rewrite <- seq_shift, map_map. exact IH.
Qed.

Lemma tab_of_lists {A B C} (F : A -> B -> C) (l1 : list A) (l2 : list B) d1 d2 :
  tab (length l1) (length l2) (fun i j => F (nth i l1 d1) (nth j l2 d2))
  = map (fun a => map (fun b => F a b) l2) l1.
Proof.
  unfold tab. rewrite <- (map_nth_seq (fun a => map (fun b => F a b) l2) l1 d1).
  apply map_ext. intros i. apply (map_nth_seq (fun b => F (nth i l1 d1) b) l2 d2).
Qed.

(* cells of a rectangle, from relative to absolute coordinates *)
Lemma map_shift_prod r0 c0 nr nc :
  map (fun ij => (r0 + fst ij, c0 + snd ij)) (list_prod (seq 0 nr) (seq 0 nc))
  = list_prod (seq r0 nr) (seq c0 nc).
Proof.
  assert (S1 : forall k n, seq k n = map (fun i => k + i) (seq 0 n)).
  { intros k n. revert k. induction n as [|n IH]; intros k; simpl; [reflexivity|].
    f_equal; [lia|]. rewrite (IH (S k)), <- seq_shift, map_map. apply map_ext. intros i. lia. }
  rewrite (S1 r0 nr), (S1 c0 nc). generalize (seq 0 nr) as l1. generalize (seq 0 nc) as l2.
  intros l2 l1. induction l1 as [|a l1 IH]; simpl; [reflexivity|].
  rewrite map_app, IH, !map_map. reflexivity.
Qed.

(* slices of lists *)
Lemma slice_length {A} a b (l : list A) : b <= length l -> length (slice a b l) = b - a.
Proof. intros H. unfold slice. rewrite firstn_length, skipn_length. lia. Qed.

Lemma nth_error_firstn' {A} n (l : list A) k : k < n -> nth_error (firstn n l) k = nth_error l k.
Proof.
  revert l k. induction n as [|n IH]; intros l k H; [lia|].
  destruct l as [|x l]; [destruct k; reflexivity|]. destruct k as [|k]; simpl; [reflexivity|].
  apply IH. lia.
Qed.

Lemma nth_error_skipn' {A} a (l : list A) k : nth_error (skipn a l) k = nth_error l (a + k).
Proof.
  revert l. induction a as [|a IH]; intros l; simpl; [reflexivity|].
  destruct l as [|x l]; [destruct k; reflexivity|]. apply IH.
Qed.

Lemma nth_error_slice {A} a b (l : list A) k : k < b - a ->
  nth_error (slice a b l) k = nth_error l (a + k).
Proof.
  intros H. unfold slice. rewrite nth_error_firstn' by assumption. apply nth_error_skipn'.
Qed.

Lemma slice_full {A} (l : list A) k : length l = k -> slice 0 k l = l.
Proof. intros <-. unfold slice. rewrite Nat.sub_0_r. simpl. apply firstn_all. Qed.

Lemma nth_error_nth' {A} (l : list A) k d : k < length l -> nth_error l k = Some (nth k l d).
Proof. intros H. apply nth_error_nth'. assumption. Qed.

(* ---------- 2. tasks that read-modify-write their own cells ---------------------- *)
Section KeyedFold.
  Variables (V C : Type) (key : C -> nat * nat) (val : C -> option (V -> V)).

  Definition kstep (o : arr V) (c : C) : arr V :=
    match val c with
    | Some f => upd o (key c) (f (o (fst (key c)) (snd (key c))))
    | None => o
    end.

  Lemma kfold_notin cs o i j : ~ In (i, j) (map key cs) -> fold_left kstep cs o i j = o i j.
  Proof.
    revert o. induction cs as [|c cs IH]; intros o H; simpl in *; [reflexivity|].
    rewrite IH by tauto. unfold kstep. destruct (val c); [|reflexivity].
    apply upd_other. intro E. apply H. left. symmetry. exact E.
  Qed.

  Lemma kfold_in cs o c i j : NoDup (map key cs) -> In c cs -> key c = (i, j) ->
    fold_left kstep cs o i j = match val c with Some f => f (o i j) | None => o i j end.
  Proof.
    revert o. induction cs as [|c0 cs IH]; intros o Hnd Hin Hk; simpl in *; [contradiction|].
    inversion Hnd as [|? ? Hna Hnd']; subst.
    destruct Hin as [->|Hin].
    - rewrite kfold_notin by (rewrite <- Hk; exact Hna).
      unfold kstep. destruct (val c) as [f|]; [|reflexivity].
      rewrite Hk. cbn [fst snd]. unfold upd. cbn [fst snd]. rewrite !Nat.eqb_refl. reflexivity.
    - rewrite (IH _ Hnd' Hin Hk).
      assert (Hne : (i, j) <> key c0).
      { intro E. apply Hna. rewrite <- E, <- Hk. apply in_map. exact Hin. }
      unfold kstep. destruct (val c0) as [f0|]; [|reflexivity].
      rewrite upd_other by exact Hne. reflexivity.
  Qed.
End KeyedFold.
Arguments kstep {V C}.

Section RMWProofs.
  Variable V : Type.
  Implicit Types (a : arr V) (t : rtask V) (ts : list (rtask V)).

  Lemma rrun_task_kfold a t :
    rrun_task a t = fold_left (kstep (fun c => c) (fun c => Some (r_fun t (fst c) (snd c)))) (r_cells t) a.
  Proof. reflexivity. Qed.

  Lemma rrun_task_notin t a i j : ~ In (i, j) (r_cells t) -> rrun_task a t i j = a i j.
  Proof. intros H. rewrite rrun_task_kfold. apply kfold_notin. rewrite map_id. exact H. Qed.

  Lemma rrun_task_in t a i j : NoDup (r_cells t) -> In (i, j) (r_cells t) ->
    rrun_task a t i j = r_fun t i j (a i j).
  Proof.
    intros Hnd Hin. rewrite rrun_task_kfold.
    rewrite (kfold_in V _ (fun c => c) _ (r_cells t) a (i, j) i j); [reflexivity|rewrite map_id; exact Hnd|exact Hin|reflexivity].
  Qed.

  Lemma rrun_notin ts a i j : ~ In (i, j) (flat_map r_cells ts) -> rrun ts a i j = a i j.
  Proof.
    revert a. induction ts as [|t ts IH]; simpl; intros a H; [reflexivity|].
    rewrite in_app_iff in H. unfold rrun in *. simpl. rewrite IH by tauto.
    apply rrun_task_notin. tauto.
  Qed.

  (* with pairwise-disjoint cell sets, a cell ends up holding what its ONE owner makes
     of the initial content *)
  Lemma rrun_in ts a t i j :
    NoDup (flat_map r_cells ts) -> In t ts -> In (i, j) (r_cells t) ->
    rrun ts a i j = r_fun t i j (a i j).
  Proof.
    revert a. induction ts as [|t0 ts IH]; simpl; intros a Hnd Ht Hc; [contradiction|].
    apply NoDup_app_inv in Hnd as (Hnd0 & Hnd1 & Hdisj).
    unfold rrun in *. simpl. destruct Ht as [E|Ht].
    - subst t0. change (rrun ts (rrun_task a t) i j = r_fun t i j (a i j)).
      rewrite rrun_notin by (apply Hdisj; assumption). apply rrun_task_in; assumption.
    - rewrite (IH (rrun_task a t0) Hnd1 Ht Hc). f_equal.
      apply rrun_task_notin. intro H. apply (Hdisj (i, j) H).
      apply in_flat_map. exists t. split; assumption.
  Qed.

  Theorem rrun_permutation ts ts' a i j :
    NoDup (flat_map r_cells ts) -> Permutation ts ts' -> rrun ts a i j = rrun ts' a i j.
  Proof.
    intros Hnd Hp.
    assert (Hnd' : NoDup (flat_map r_cells ts')).
    { eapply Permutation_NoDup; [|exact Hnd]. apply Permutation_flat_map; assumption. }
    destruct (in_dec cell_eq_dec (i, j) (flat_map r_cells ts)) as [Hin|Hnin].
    - apply in_flat_map in Hin as (t & Ht & Hc).
      rewrite (rrun_in ts a t i j Hnd Ht Hc).
      symmetry. apply rrun_in; auto. eapply Permutation_in; eauto.
    - rewrite rrun_notin by assumption. symmetry. apply rrun_notin.
      intro H. apply Hnin. eapply Permutation_in; [|exact H].
      apply Permutation_flat_map. apply Permutation_sym. assumption.
  Qed.

  (* a pure task of Model/Chunk.v is the read-modify-write task that ignores what it reads *)
  Lemma run_task_is_rrun_task a (t : task V) :
    run_task a t = rrun_task a (mkR (t_cells t) (fun i j _ => t_val t i j)).
  Proof. reflexivity. Qed.
End RMWProofs.

(* ---------- abstract run of steps characterised by their cells -------------------- *)
(* a step x (on ANY array) leaves the cells outside `cells x` alone and applies `g x` to the
   current content of the cells inside: then, for pairwise-disjoint cells, every order of
   the steps gives the array "owner's g applied to the initial content" *)
Section Steps.
  Variables (V X : Type) (step : arr V -> X -> arr V) (cells : X -> list (nat * nat))
            (g : X -> nat -> nat -> V -> V) (ok : X -> Prop).
  Hypothesis step_out : forall a x i j, ok x -> ~ In (i, j) (cells x) -> step a x i j = a i j.
  Hypothesis step_in : forall a x i j, ok x -> In (i, j) (cells x) -> step a x i j = g x i j (a i j).

  Lemma steps_notin xs a i j : Forall ok xs -> ~ In (i, j) (flat_map cells xs) -> fold_left step xs a i j = a i j.
  Proof.
    revert a. induction xs as [|x xs IH]; simpl; intros a Hok H; [reflexivity|].
    inversion Hok; subst. rewrite in_app_iff in H. rewrite IH by tauto. apply step_out; tauto.
  Qed.

  Lemma steps_in xs a x i j : Forall ok xs -> NoDup (flat_map cells xs) -> In x xs -> In (i, j) (cells x) ->
    fold_left step xs a i j = g x i j (a i j).
  Proof.
    revert a. induction xs as [|x0 xs IH]; simpl; intros a Hok Hnd Hx Hc; [contradiction|].
    inversion Hok as [|? ? Hok0 Hok1]; subst.
    apply NoDup_app_inv in Hnd as (Hnd0 & Hnd1 & Hdisj). destruct Hx as [E|Hx].
    - subst x0. rewrite steps_notin by (try assumption; apply Hdisj; assumption). apply step_in; assumption.
    - rewrite (IH (step a x0) Hok1 Hnd1 Hx Hc). f_equal. apply step_out; [assumption|].
      intro H. apply (Hdisj (i, j) H). apply in_flat_map. exists x. split; assumption.
  Qed.

  Lemma steps_permutation xs xs' a i j : Forall ok xs ->
    NoDup (flat_map cells xs) -> Permutation xs xs' -> fold_left step xs a i j = fold_left step xs' a i j.
  Proof.
    intros Hok Hnd Hp.
    assert (Hnd' : NoDup (flat_map cells xs')).
    { eapply Permutation_NoDup; [|exact Hnd]. apply Permutation_flat_map; assumption. }
    assert (Hok' : Forall ok xs').
    { apply Forall_forall. intros x Hx. rewrite Forall_forall in Hok. apply Hok.
      eapply Permutation_in; [apply Permutation_sym; exact Hp|exact Hx]. }
    destruct (in_dec cell_eq_dec (i, j) (flat_map cells xs)) as [Hin|Hnin].
    - apply in_flat_map in Hin as (x & Hx & Hc).
      rewrite (steps_in xs a x i j Hok Hnd Hx Hc). symmetry. apply steps_in; auto.
      eapply Permutation_in; eauto.
    - rewrite steps_notin by assumption. symmetry. apply steps_notin; [assumption|].
      intro H. apply Hnin. eapply Permutation_in; [|exact H].
      apply Permutation_flat_map. apply Permutation_sym. assumption.
  Qed.
End Steps.

Lemma fold_left_ext {A B} (f g : A -> B -> A) l a : (forall a x, f a x = g a x) -> fold_left f l a = fold_left g l a.
Proof. intros H. revert a. induction l as [|x l IH]; intros a; simpl; [reflexivity|]. rewrite H. apply IH. Qed.

Lemma list_prod_map {A B A' B'} (f : A -> A') (h : B -> B') l1 l2 :
  list_prod (map f l1) (map h l2) = map (fun ab => (f (fst ab), h (snd ab))) (list_prod l1 l2).
Proof.
  induction l1 as [|a l1 IH]; simpl; [reflexivity|]. rewrite map_app, IH, !map_map. reflexivity.
Qed.

Lemma NoDup_rect r0 c0 nr nc : NoDup (list_prod (seq r0 nr) (seq c0 nc)).
Proof. apply NoDup_list_prod; apply seq_NoDup. Qed.

(* ---------- 3. find_minimum_times --------------------------------------------------- *)
(* the views of the task of one tile: complete rows of time_1, complete columns of time_2 *)
Definition views_of_tile (m : nat) (tl : tile) : fmt_views :=
  mkFV [fst tl; (0, m)] [(0, m); snd tl] [fst tl; snd tl].

Lemma resolve_two n p s1 s2 : resolve [n; p] [Sl s1; Sl s2] = Some [clip n s1; clip p s2].
Proof. reflexivity. Qed.

Lemma fmt_task_views_raw n m p b i j :
  fmt_task_views n m p [Sl (Some (i * b), Some ((i + 1) * b)); Dots] [Dots; Sl (Some (j * b), Some ((j + 1) * b))]
  = inr (views_of_tile m (chunk n b i, chunk p b j)).
Proof. reflexivity. Qed.

(* every block size >= 1: the submitted tasks are the tiles of Model/Chunk.v, in the order
   of submission, each with complete rows / complete columns *)
Lemma fmt_submit_pos n m p b : 1 <= b ->
  fmt_submit n m p (Z.of_nat b) = inr (map (views_of_tile m) (tiles n p b b)).
Proof.
  intros Hb. unfold fmt_submit.
  rewrite (chunk_array_py_pos [n; m] (Z.of_nat b) 0 0) by (reflexivity || lia).
  rewrite (chunk_array_py_pos [m; p] (Z.of_nat b) 1 1) by (reflexivity || lia).
  rewrite Nat2Z.id. cbn [length nth].
  change (raw_selectors 2 0 n b) with
    (map (fun i => [Sl (Some (i * b), Some ((i + 1) * b)); Dots]) (seq 0 (numchunks n b))).
  change (raw_selectors 2 1 p b) with
    (map (fun j => [Dots; Sl (Some (j * b), Some ((j + 1) * b))]) (seq 0 (numchunks p b))).
  rewrite flat_map_map_pair, list_prod_map, map_map. cbn [fst snd].
  unfold tiles, chunks. rewrite list_prod_map, map_map. cbn [fst snd].
  apply collect_map_inr. intros [i j] _. apply fmt_task_views_raw.
Qed.

(* negative adjusted block size: nothing is submitted *)
Lemma fmt_submit_neg n m p adj : (adj < 0)%Z -> fmt_submit n m p adj = inr [].
Proof.
  intros H. unfold fmt_submit. rewrite (chunk_array_py_neg [n; m] adj 0 0) by (reflexivity || lia).
  reflexivity.
Qed.

Lemma fmt_submit_zero n m p : fmt_submit n m p 0 = inl ZeroDivisionError.
Proof. reflexivity. Qed.

Section FmtProofs.
  Variable T : Type.
  Variable ltb : T -> T -> bool.
  Variable add : T -> T -> T.
  Local Notation cell := (cellv T).

  (* the kernel on views, cell by cell *)
  Definition fmt_key (r0 c0 : nat) (ij : nat * nat) : nat * nat := (r0 + fst ij, c0 + snd ij).
  Definition fmt_val (rows cols : list (list T)) (ij : nat * nat) : option (cell -> cell) :=
    match nth_error rows (fst ij), nth_error cols (snd ij) with
    | Some r, Some c => Some (mp_scan ltb add 0 r c)
    | _, _ => None
    end.

  Lemma fmt_kernel_kfold rows cols r0 c0 (o : arr cell) :
    fmt_kernel ltb add rows cols r0 c0 o
    = fold_left (kstep (fmt_key r0 c0) (fmt_val rows cols))
                (list_prod (seq 0 (length rows)) (seq 0 (length cols))) o.
  Proof.
    unfold fmt_kernel.
    rewrite (fold_left_nested (fun o i j =>
               match nth_error rows i, nth_error cols j with
               | Some r, Some c => upd o (r0 + i, c0 + j) (mp_scan ltb add 0 r c (o (r0 + i) (c0 + j)))
               | _, _ => o
               end)).
    apply fold_left_ext. intros a [i j]. unfold kstep, fmt_val, fmt_key. cbn [fst snd].
    destruct (nth_error rows i); [|reflexivity]. destruct (nth_error cols j); reflexivity.
  Qed.

  Lemma fmt_kernel_out rows cols r0 c0 (o : arr cell) i j :
    ~ In (i, j) (list_prod (seq r0 (length rows)) (seq c0 (length cols))) ->
    fmt_kernel ltb add rows cols r0 c0 o i j = o i j.
  Proof.
    intros H. rewrite fmt_kernel_kfold. apply kfold_notin.
    unfold fmt_key. rewrite map_shift_prod. exact H.
  Qed.

  Lemma fmt_kernel_in rows cols r0 c0 (o : arr cell) i j r c :
    r0 <= i -> c0 <= j -> nth_error rows (i - r0) = Some r -> nth_error cols (j - c0) = Some c ->
    fmt_kernel ltb add rows cols r0 c0 o i j = mp_scan ltb add 0 r c (o i j).
  Proof.
    intros Hi Hj Hr Hc. rewrite fmt_kernel_kfold.
    assert (Li : i - r0 < length rows) by (apply nth_error_Some; congruence).
    assert (Lj : j - c0 < length cols) by (apply nth_error_Some; congruence).
    rewrite (kfold_in _ _ (fmt_key r0 c0) (fmt_val rows cols) _ o (i - r0, j - c0) i j).
    - unfold fmt_val. cbn [fst snd]. rewrite Hr, Hc. reflexivity.
    - unfold fmt_key. rewrite map_shift_prod. apply NoDup_rect.
    - apply in_prod; apply in_seq; lia.
    - unfold fmt_key. cbn [fst snd]. f_equal; lia.
  Qed.

  Variables (m : nat) (t1 t2c : list (list T)).
  Hypothesis H1 : rows_have m t1.
  Hypothesis H2 : rows_have m t2c.

  Definition tile_ok (tl : tile) : Prop :=
    fst (fst tl) <= snd (fst tl) <= length t1 /\ fst (snd tl) <= snd (snd tl) <= length t2c.

  Definition fmt_step (o : arr cell) (tl : tile) : arr cell := fmt_run_task ltb add t1 t2c o (views_of_tile m tl).

  Lemma fmt_step_eq o tl :
    fmt_step o tl = fmt_kernel ltb add (map (slice 0 m) (slice (fst (fst tl)) (snd (fst tl)) t1))
                                       (map (slice 0 m) (slice (fst (snd tl)) (snd (snd tl)) t2c))
                                       (fst (fst tl)) (fst (snd tl)) o.
  Proof. reflexivity. Qed.

  Lemma view_row (t : list (list T)) a b i r : rows_have m t -> a <= i < b -> b <= length t ->
    nth_error t i = Some r -> nth_error (map (slice 0 m) (slice a b t)) (i - a) = Some r.
  Proof.
    intros Ht Hi Hb Hr. rewrite nth_error_map', nth_error_slice by lia.
    replace (a + (i - a)) with i by lia. rewrite Hr. cbn [option_map]. f_equal.
    apply slice_full. unfold rows_have in Ht. rewrite Forall_forall in Ht. apply Ht.
    eapply nth_error_In. exact Hr.
  Qed.

  Lemma tile_cells_In (tl : tile) i j :
    In (i, j) (tile_cells tl) <->
    fst (fst tl) <= i < snd (fst tl) /\ fst (snd tl) <= j < snd (snd tl).
  Proof.
    unfold tile_cells, range_of. rewrite in_prod_iff, !in_seq. lia.
  Qed.

  Lemma fmt_step_out o tl i j : tile_ok tl -> ~ In (i, j) (tile_cells tl) -> fmt_step o tl i j = o i j.
  Proof.
    intros (Hr & Hc) H. rewrite fmt_step_eq. apply fmt_kernel_out.
    rewrite !map_length, !slice_length by lia. exact H.
  Qed.

  Lemma fmt_step_in o tl i j : tile_ok tl -> In (i, j) (tile_cells tl) ->
    fmt_step o tl i j = mp_scan ltb add 0 (nth i t1 []) (nth j t2c []) (o i j).
  Proof.
    intros (Hr & Hc) H. apply tile_cells_In in H as (Hi & Hj). rewrite fmt_step_eq.
    apply fmt_kernel_in; try lia.
    - apply view_row; try assumption; try lia. apply nth_error_nth'. lia.
    - apply view_row; try assumption; try lia. apply nth_error_nth'. lia.
  Qed.

  Lemma tiles_ok b : Forall tile_ok (tiles (length t1) (length t2c) b b).
  Proof.
    apply Forall_forall. intros [r c] H. unfold tiles in H. apply in_prod_iff in H as (Hr & Hc).
    unfold chunks in Hr, Hc. apply in_map_iff in Hr as (i & <- & _). apply in_map_iff in Hc as (j & <- & _).
    unfold tile_ok, chunk. cbn [fst snd]. nia.
  Qed.

  Lemma fmt_run_tiles tls o : fmt_run ltb add t1 t2c (map (views_of_tile m) tls) o = fold_left fmt_step tls o.
  Proof. unfold fmt_run. rewrite fold_left_map. reflexivity. Qed.

  (* running the tasks of the tiles in ANY order *)
  Lemma fmt_run_any_order b tls o i j : 1 <= b ->
    Permutation (tiles (length t1) (length t2c) b b) tls ->
    fold_left fmt_step tls o i j
    = if (i <? length t1) && (j <? length t2c)
      then mp_scan ltb add 0 (nth i t1 []) (nth j t2c []) (o i j) else o i j.
  Proof.
    intros Hb Hp.
    set (g := fun (_ : tile) i j (v : cell) => mp_scan ltb add 0 (nth i t1 []) (nth j t2c []) v).
    pose proof (tiles_ok b) as Hok. pose proof (tiles_NoDup (length t1) (length t2c) b b Hb Hb) as Hnd.
    rewrite <- (steps_permutation _ _ fmt_step tile_cells g tile_ok fmt_step_out
                 (fun a x i j Hx Hc => fmt_step_in a x i j Hx Hc) _ _ o i j Hok Hnd Hp).
    destruct (Nat.ltb_spec i (length t1)) as [Hi|Hi]; [destruct (Nat.ltb_spec j (length t2c)) as [Hj|Hj]|]; cbn [andb].
    - assert (Hin : In (i, j) (flat_map tile_cells (tiles (length t1) (length t2c) b b))) by (apply tiles_cover; auto).
      apply in_flat_map in Hin as (tl & Htl & Hc).
      apply (steps_in _ _ fmt_step tile_cells g tile_ok fmt_step_out
               (fun a x i j Hx Hc => fmt_step_in a x i j Hx Hc) _ o tl i j Hok Hnd Htl Hc).
    - apply (steps_notin _ _ fmt_step tile_cells tile_ok fmt_step_out _ o i j Hok).
      intro H. apply tiles_cover in H; lia.
    - apply (steps_notin _ _ fmt_step tile_cells tile_ok fmt_step_out _ o i j Hok).
      intro H. apply tiles_cover in H; lia.
  Qed.
End FmtProofs.

(* block_size_adj for a positive block size *)
Lemma fmt_adj_pos block_size m : 1 <= m -> (1 <= block_size)%Z ->
  exists b, 1 <= b /\ b = ceil_div (Z.to_nat block_size) m /\
            py_ceil_div block_size (Z.of_nat m) = Some (Z.of_nat b).
Proof.
  intros Hm Hb. exists (ceil_div (Z.to_nat block_size) m). split; [|split; [reflexivity|]].
  - apply ceil_div_pos; lia.
  - rewrite <- (Z2Nat.id block_size) at 1 by lia. apply py_ceil_div_nat. exact Hm.
Qed.

Section FmtWhole.
  Variable T : Type.
  Variable ltb : T -> T -> bool.
  Variable add : T -> T -> T.

  (* MAIN: for every block size >= 1, every number of threads >= 1 and every order in which
     the pool runs the tasks, find_minimum_times returns the unblocked min-plus product,
     cell by cell, minimum AND index (the index is the first one reaching the minimum,
     Proofs/MinPlusProofs.v minplus_first_lemma) *)
  Theorem find_minimum_times_unblocked m (t1 t2c : list (list T)) block_size numthreads sched :
    rows_have m t1 -> rows_have m t2c -> 1 <= m ->
    (1 <= block_size)%Z -> (1 <= numthreads)%Z ->
    (forall l, Permutation l (sched l)) ->
    find_minimum_times ltb add m m t1 t2c block_size numthreads sched = inr (minplus ltb add t1 t2c).
  Proof.
    intros H1 H2 Hm Hb Hn Hs. unfold find_minimum_times.
    rewrite Nat.eqb_refl. cbn [negb].
    destruct (fmt_adj_pos block_size m Hm Hb) as (b & Hb1 & _ & ->).
    destruct (Z.leb_spec numthreads 0) as [|_]; [lia|].
    rewrite (fmt_submit_pos _ _ _ _ Hb1). f_equal.
    destruct (Permutation_map_inv _ _ (Permutation_sym (Hs (map (views_of_tile m) (tiles (length t1) (length t2c) b b)))))
      as (tls & -> & Hp).
    rewrite (fmt_run_tiles T ltb add m t1 t2c).
    unfold minplus. rewrite <- (tab_of_lists (fun r c => minplus_cell ltb add r c) t1 t2c [] []).
    apply tab_ext. intros i j Hi Hj.
    rewrite (fmt_run_any_order T ltb add m t1 t2c H1 H2 b tls _ i j Hb1 Hp).
    apply Nat.ltb_lt in Hi, Hj. rewrite Hi, Hj. reflexivity.
  Qed.

  (* the order of execution alone: two runs of the same call under two schedules agree *)
  Corollary find_minimum_times_schedule_independent m (t1 t2c : list (list T)) block_size numthreads numthreads' sched sched' :
    rows_have m t1 -> rows_have m t2c -> 1 <= m ->
    (1 <= block_size)%Z -> (1 <= numthreads)%Z -> (1 <= numthreads')%Z ->
    (forall l, Permutation l (sched l)) -> (forall l, Permutation l (sched' l)) ->
    find_minimum_times ltb add m m t1 t2c block_size numthreads sched
    = find_minimum_times ltb add m m t1 t2c block_size numthreads' sched'.
  Proof.
    intros. rewrite !find_minimum_times_unblocked by assumption. reflexivity.
  Qed.

  Corollary find_minimum_times_block_independent m (t1 t2c : list (list T)) bs bs' nt nt' sched sched' :
    rows_have m t1 -> rows_have m t2c -> 1 <= m ->
    (1 <= bs)%Z -> (1 <= bs')%Z -> (1 <= nt)%Z -> (1 <= nt')%Z ->
    (forall l, Permutation l (sched l)) -> (forall l, Permutation l (sched' l)) ->
    find_minimum_times ltb add m m t1 t2c bs nt sched = find_minimum_times ltb add m m t1 t2c bs' nt' sched'.
  Proof.
    intros. rewrite !find_minimum_times_unblocked by assumption. reflexivity.
  Qed.

  (* the error branches, in the order of the source *)
  Theorem find_minimum_times_errors m m_ (t1 t2c : list (list T)) block_size numthreads sched :
    (m <> m_ -> find_minimum_times ltb add m m_ t1 t2c block_size numthreads sched = inl ValueError)
    /\ (m = m_ -> m = 0 -> find_minimum_times ltb add m m_ t1 t2c block_size numthreads sched = inl ZeroDivisionError)
    /\ (m = m_ -> 1 <= m -> (numthreads <= 0)%Z ->
        find_minimum_times ltb add m m_ t1 t2c block_size numthreads sched = inl ValueError)
    /\ (m = m_ -> 1 <= m -> (1 <= numthreads)%Z -> (- Z.of_nat m < block_size <= 0)%Z ->
        find_minimum_times ltb add m m_ t1 t2c block_size numthreads sched = inl ZeroDivisionError).
  Proof.
    unfold find_minimum_times. repeat split.
    - intros H. destruct (Nat.eqb_spec m m_); [contradiction|reflexivity].
    - intros <- ->. reflexivity.
    - intros <- Hm Hn. rewrite Nat.eqb_refl. cbn [negb]. unfold py_ceil_div.
      destruct (Z.eqb_spec (Z.of_nat m) 0); [lia|]. destruct (Z.leb_spec numthreads 0); [reflexivity|lia].
    - intros <- Hm Hn Hb. rewrite Nat.eqb_refl. cbn [negb]. unfold py_ceil_div.
      destruct (Z.eqb_spec (Z.of_nat m) 0); [lia|]. destruct (Z.leb_spec numthreads 0); [lia|].
      assert (E : (- (- block_size / Z.of_nat m) = 0)%Z).
      { rewrite Z.div_small by lia. reflexivity. }
      rewrite E. reflexivity.
  Qed.

  (* OUTSIDE the property's range of block sizes: block_size <= -m is accepted silently
     and every cell is left at (+inf, -1) — the result then DOES depend on the block size *)
  Theorem find_minimum_times_negative_block m (t1 t2c : list (list T)) block_size numthreads sched :
    1 <= m -> (block_size <= - Z.of_nat m)%Z -> (1 <= numthreads)%Z -> sched [] = [] ->
    find_minimum_times ltb add m m t1 t2c block_size numthreads sched
    = inr (tab (length t1) (length t2c) (fun _ _ => None)).
  Proof.
    intros Hm Hb Hn Hs. unfold find_minimum_times. rewrite Nat.eqb_refl. cbn [negb]. unfold py_ceil_div.
    destruct (Z.eqb_spec (Z.of_nat m) 0); [lia|]. destruct (Z.leb_spec numthreads 0); [lia|].
    rewrite fmt_submit_neg.
    - rewrite Hs. reflexivity.
    - pose proof (Z.div_mod (- block_size) (Z.of_nat m) ltac:(lia)) as D.
      pose proof (Z.mod_pos_bound (- block_size) (Z.of_nat m) ltac:(lia)) as B. nia.
  Qed.
End FmtWhole.

(* ---------- 4. distance_pairwise ------------------------------------------------------ *)
Definition dviews_of_tile (tl : tile) : dist_views := mkDV [fst tl] [snd tl] [fst tl; snd tl].

Lemma dist_task_views_raw num1 num2 b i j :
  dist_task_views num1 num2 [Sl (Some (i * b), Some ((i + 1) * b)); Dots] [Sl (Some (j * b), Some ((j + 1) * b)); Dots]
  = inr (dviews_of_tile (chunk num1 b i, chunk num2 b j)).
Proof. reflexivity. Qed.

Lemma dist_submit_pos num1 num2 b : 1 <= b ->
  dist_submit num1 num2 (Z.of_nat b) = inr (map dviews_of_tile (tiles num1 num2 b b)).
Proof.
  intros Hb. unfold dist_submit.
  rewrite (chunk_array_py_pos [num1] (Z.of_nat b) 0 0) by (reflexivity || lia).
  rewrite (chunk_array_py_pos [num2] (Z.of_nat b) 0 0) by (reflexivity || lia).
  rewrite Nat2Z.id. cbn [length nth].
  change (raw_selectors 1 0 num1 b) with
    (map (fun i => [Sl (Some (i * b), Some ((i + 1) * b)); Dots]) (seq 0 (numchunks num1 b))).
  change (raw_selectors 1 0 num2 b) with
    (map (fun j => [Sl (Some (j * b), Some ((j + 1) * b)); Dots]) (seq 0 (numchunks num2 b))).
  rewrite flat_map_map_pair, list_prod_map, map_map. cbn [fst snd].
  unfold tiles, chunks. rewrite list_prod_map, map_map. cbn [fst snd].
  apply collect_map_inr. intros [i j] _. apply dist_task_views_raw.
Qed.

Lemma dist_submit_neg num1 num2 cs : (cs < 0)%Z -> dist_submit num1 num2 cs = inr [].
Proof.
  intros H. unfold dist_submit. rewrite (chunk_array_py_neg [num1] cs 0 0) by (reflexivity || lia).
  reflexivity.
Qed.

Lemma skipn_combine {A B} n (l1 : list A) (l2 : list B) :
  skipn n (combine l1 l2) = combine (skipn n l1) (skipn n l2).
Proof.
  revert l1 l2. induction n as [|n IH]; intros l1 l2; [reflexivity|].
  destruct l1 as [|x l1]; [reflexivity|]. destruct l2 as [|y l2]; simpl.
  - destruct (skipn n l1); reflexivity.
  - apply IH.
Qed.

Lemma firstn_combine {A B} n (l1 : list A) (l2 : list B) :
  firstn n (combine l1 l2) = combine (firstn n l1) (firstn n l2).
Proof.
  revert l1 l2. induction n as [|n IH]; intros l1 l2; [reflexivity|].
  destruct l1 as [|x l1]; [reflexivity|]. destruct l2 as [|y l2]; simpl; [reflexivity|].
  f_equal. apply IH.
Qed.

Lemma slice_combine {A B} a b (l1 : list A) (l2 : list B) :
  slice a b (combine l1 l2) = combine (slice a b l1) (slice a b l2).
Proof. unfold slice. rewrite skipn_combine, firstn_combine. reflexivity. Qed.

Section DistProofs.
  Context {T : Type} (N : Num T).
  Local Notation pt := (@Blocks.pt T).

  Definition dist_val (p1 p2 : list pt) (ij : nat * nat) : option (T -> T) :=
    match nth_error p1 (fst ij), nth_error p2 (snd ij) with
    | Some a, Some b => Some (fun _ => dist_entry N a b)
    | _, _ => None
    end.

  Lemma dist_kernel_kfold p1 p2 nr nc r0 c0 (o : arr T) :
    dist_kernel N p1 p2 nr nc r0 c0 o
    = fold_left (kstep (fmt_key r0 c0) (dist_val p1 p2)) (list_prod (seq 0 nr) (seq 0 nc)) o.
  Proof.
    unfold dist_kernel.
    rewrite (fold_left_nested (fun o i j =>
               match nth_error p1 i, nth_error p2 j with
               | Some a, Some b => upd o (r0 + i, c0 + j) (dist_entry N a b)
               | _, _ => o
               end)).
    apply fold_left_ext. intros a [i j]. unfold kstep, dist_val, fmt_key. cbn [fst snd].
    destruct (nth_error p1 i); [|reflexivity]. destruct (nth_error p2 j); reflexivity.
  Qed.

  Lemma dist_kernel_out p1 p2 nr nc r0 c0 (o : arr T) i j :
    ~ In (i, j) (list_prod (seq r0 nr) (seq c0 nc)) -> dist_kernel N p1 p2 nr nc r0 c0 o i j = o i j.
  Proof.
    intros H. rewrite dist_kernel_kfold. apply kfold_notin. unfold fmt_key. rewrite map_shift_prod. exact H.
  Qed.

  Lemma dist_kernel_in p1 p2 nr nc r0 c0 (o : arr T) i j a b :
    r0 <= i < r0 + nr -> c0 <= j < c0 + nc ->
    nth_error p1 (i - r0) = Some a -> nth_error p2 (j - c0) = Some b ->
    dist_kernel N p1 p2 nr nc r0 c0 o i j = dist_entry N a b.
  Proof.
    intros Hi Hj Ha Hb. rewrite dist_kernel_kfold.
    rewrite (kfold_in _ _ (fmt_key r0 c0) (dist_val p1 p2) _ o (i - r0, j - c0) i j).
    - unfold dist_val. cbn [fst snd]. rewrite Ha, Hb. reflexivity.
    - unfold fmt_key. rewrite map_shift_prod. apply NoDup_rect.
    - apply in_prod; apply in_seq; lia.
    - unfold fmt_key. cbn [fst snd]. f_equal; lia.
  Qed.

  Variables (P1 P2 : points (T := T)).
  Hypothesis Hok1 : points_ok P1 = true.
  Hypothesis Hok2 : points_ok P2 = true.

  Lemma zip3_length (P : points (T := T)) : points_ok P = true -> length (zip3 P) = length (px P).
  Proof.
    unfold points_ok. intros H. apply andb_prop in H as (Hy & Hz).
    apply Nat.eqb_eq in Hy, Hz. unfold zip3. change (@Blocks.pt T) with (T * (T * T))%type. rewrite !combine_length. lia.
  Qed.

  Definition dtile_ok (tl : tile) : Prop :=
    fst (fst tl) <= snd (fst tl) <= length (px P1) /\ fst (snd tl) <= snd (snd tl) <= length (px P2).

  Definition dist_step (o : arr T) (tl : tile) : arr T := dist_run_task N P1 P2 o (dviews_of_tile tl).

  Lemma dist_step_eq o tl :
    dist_step o tl = dist_kernel N (slice (fst (fst tl)) (snd (fst tl)) (zip3 P1))
                                   (slice (fst (snd tl)) (snd (snd tl)) (zip3 P2))
                                   (snd (fst tl) - fst (fst tl)) (snd (snd tl) - fst (snd tl))
                                   (fst (fst tl)) (fst (snd tl)) o.
  Proof.
    unfold dist_step, dist_run_task, dviews_of_tile, zip3. cbn [dv_1 dv_2 dv_out view1 view_shape view_origin fst snd].
    change (@Blocks.pt T) with (T * (T * T))%type. rewrite !slice_combine. reflexivity.
  Qed.

  Let d0 : pt := (n0 N, (n0 N, n0 N)).

  Lemma dist_step_out o tl i j : dtile_ok tl -> ~ In (i, j) (tile_cells tl) -> dist_step o tl i j = o i j.
  Proof. intros _ H. rewrite dist_step_eq. apply dist_kernel_out. exact H. Qed.

  Lemma dist_step_in o tl i j : dtile_ok tl -> In (i, j) (tile_cells tl) ->
    dist_step o tl i j = dist_entry N (nth i (zip3 P1) d0) (nth j (zip3 P2) d0).
  Proof.
    intros (Hr & Hc) H. apply tile_cells_In in H as (Hi & Hj). rewrite dist_step_eq.
    pose proof (zip3_length P1 Hok1) as L1. pose proof (zip3_length P2 Hok2) as L2.
    apply dist_kernel_in; try lia.
    - rewrite nth_error_slice by lia. replace (fst (fst tl) + (i - fst (fst tl))) with i by lia.
      apply nth_error_nth'. lia.
    - rewrite nth_error_slice by lia. replace (fst (snd tl) + (j - fst (snd tl))) with j by lia.
      apply nth_error_nth'. lia.
  Qed.

  Lemma dtiles_ok b : Forall dtile_ok (tiles (length (px P1)) (length (px P2)) b b).
  Proof.
    apply Forall_forall. intros [r c] H. unfold tiles in H. apply in_prod_iff in H as (Hr & Hc).
    unfold chunks in Hr, Hc. apply in_map_iff in Hr as (i & <- & _). apply in_map_iff in Hc as (j & <- & _).
    unfold dtile_ok, chunk. cbn [fst snd]. nia.
  Qed.

  Lemma dist_run_tiles tls o : dist_run N P1 P2 (map dviews_of_tile tls) o = fold_left dist_step tls o.
  Proof. unfold dist_run. rewrite fold_left_map. reflexivity. Qed.

  (* whatever the array contains before (zeros, or the content of `out=`), after the tasks
     have run in ANY order every cell of the (num1, num2) result holds its distance, and
     every other cell is untouched *)
  Lemma dist_run_any_order b tls o i j : 1 <= b ->
    Permutation (tiles (length (px P1)) (length (px P2)) b b) tls ->
    fold_left dist_step tls o i j
    = if (i <? length (px P1)) && (j <? length (px P2))
      then dist_entry N (nth i (zip3 P1) d0) (nth j (zip3 P2) d0) else o i j.
  Proof.
    intros Hb Hp.
    set (g := fun (_ : tile) i j (_ : T) => dist_entry N (nth i (zip3 P1) d0) (nth j (zip3 P2) d0)).
    pose proof (dtiles_ok b) as Hok.
    pose proof (tiles_NoDup (length (px P1)) (length (px P2)) b b Hb Hb) as Hnd.
    rewrite <- (steps_permutation _ _ dist_step tile_cells g dtile_ok dist_step_out
                 (fun a x i j Hx Hc => dist_step_in a x i j Hx Hc) _ _ o i j Hok Hnd Hp).
    destruct (Nat.ltb_spec i (length (px P1))) as [Hi|Hi];
      [destruct (Nat.ltb_spec j (length (px P2))) as [Hj|Hj]|]; cbn [andb].
    - assert (Hin : In (i, j) (flat_map tile_cells (tiles (length (px P1)) (length (px P2)) b b)))
        by (apply tiles_cover; auto).
      apply in_flat_map in Hin as (tl & Htl & Hc).
      apply (steps_in _ _ dist_step tile_cells g dtile_ok dist_step_out
               (fun a x i j Hx Hc => dist_step_in a x i j Hx Hc) _ o tl i j Hok Hnd Htl Hc).
    - apply (steps_notin _ _ dist_step tile_cells dtile_ok dist_step_out _ o i j Hok).
      intro H. apply tiles_cover in H; lia.
    - apply (steps_notin _ _ dist_step tile_cells dtile_ok dist_step_out _ o i j Hok).
      intro H. apply tiles_cover in H; lia.
  Qed.

  Definition out_ok (out : option (nat * nat * list (list T))) : Prop :=
    match out with
    | None => True
    | Some (r, c, _) => r = length (px P1) /\ c = length (px P2)
    end.

  Lemma dist_chunk_size_pos block_size : (1 <= block_size)%Z ->
    exists b, 1 <= b /\ py_ceil_div block_size 6 = Some (Z.of_nat b).
  Proof.
    intros Hb. exists (ceil_div (Z.to_nat block_size) 6). split; [apply ceil_div_pos; lia|].
    rewrite <- (Z2Nat.id block_size) at 1 by lia. change 6%Z with (Z.of_nat 6).
    apply py_ceil_div_nat. lia.
  Qed.

  (* MAIN: every block size >= 1, every thread count >= 1, every order of execution, with or
     without a preallocated `out` (whatever it contained): the table of the distances *)
  Theorem distance_pairwise_unblocked out block_size numthreads sched :
    out_ok out -> (1 <= block_size)%Z -> (1 <= numthreads)%Z ->
    (forall l, Permutation l (sched l)) ->
    distance_pairwise N P1 P2 out block_size numthreads sched = inr (distance_table N P1 P2).
  Proof.
    intros Ho Hb Hn Hs. unfold distance_pairwise. rewrite Hok1, Hok2. cbn [negb].
    assert (Hd : exists distance0,
               (match out with
                | None => inr (fun _ _ => n0 N)
                | Some (r, c, content) =>
                    if (r =? length (px P1)) && (c =? length (px P2)) then inr (arr_of_table N content)
                    else inl InvalidShape
                end) = (inr distance0 : res (arr T))).
    { destruct out as [[[r c] content]|]; [|eexists; reflexivity].
      destruct Ho as (-> & ->). rewrite !Nat.eqb_refl. eexists; reflexivity. }
    destruct Hd as (distance0 & ->).
    destruct (dist_chunk_size_pos block_size Hb) as (b & Hb1 & ->).
    destruct (Z.leb_spec numthreads 0) as [|_]; [lia|].
    rewrite (dist_submit_pos _ _ _ Hb1). f_equal.
    destruct (Permutation_map_inv _ _ (Permutation_sym (Hs (map dviews_of_tile (tiles (length (px P1)) (length (px P2)) b b)))))
      as (tls & -> & Hp).
    rewrite dist_run_tiles.
    unfold distance_table.
    rewrite <- (tab_of_lists (fun a b => dist_entry N a b) (zip3 P1) (zip3 P2) d0 d0).
    rewrite (zip3_length P1 Hok1), (zip3_length P2 Hok2).
    apply tab_ext. intros i j Hi Hj.
    rewrite (dist_run_any_order b tls _ i j Hb1 Hp).
    apply Nat.ltb_lt in Hi, Hj. rewrite Hi, Hj. reflexivity.
  Qed.

  (* OUTSIDE the property's range: block_size <= -6 is accepted silently and NOTHING is
     computed — the zeros, or the content `out` had, come back *)
  Theorem distance_pairwise_negative_block block_size numthreads sched :
    (block_size <= -6)%Z -> (1 <= numthreads)%Z -> sched [] = [] ->
    distance_pairwise N P1 P2 None block_size numthreads sched
    = inr (tab (length (px P1)) (length (px P2)) (fun _ _ => n0 N))
    /\ forall content,
       distance_pairwise N P1 P2 (Some (length (px P1), length (px P2), content)) block_size numthreads sched
       = inr (tab (length (px P1)) (length (px P2)) (arr_of_table N content)).
  Proof.
    intros Hb Hn Hs.
    assert (E : exists cs, py_ceil_div block_size 6 = Some cs /\ (cs < 0)%Z).
    { unfold py_ceil_div. cbn [Z.eqb]. eexists. split; [reflexivity|].
      pose proof (Z.div_mod (- block_size) 6 ltac:(lia)) as D.
      pose proof (Z.mod_pos_bound (- block_size) 6 ltac:(lia)) as B. nia. }
    destruct E as (cs & Ecs & Hcs).
    split; [|intros content]; unfold distance_pairwise; rewrite Hok1, Hok2; cbn [negb];
      rewrite ?Nat.eqb_refl; cbn [andb]; rewrite Ecs;
      (destruct (Z.leb_spec numthreads 0) as [|_]; [lia|]);
      rewrite (dist_submit_neg _ _ _ Hcs), Hs; reflexivity.
  Qed.
End DistProofs.

(* the error branches of distance_pairwise, in the order of the source *)
Theorem distance_pairwise_errors {T} (N : Num T) (P1 P2 : points (T := T)) out block_size numthreads sched :
  (points_ok P1 = false -> distance_pairwise N P1 P2 out block_size numthreads sched = inl InvalidShape)
  /\ (points_ok P1 = true -> points_ok P2 = false ->
      distance_pairwise N P1 P2 out block_size numthreads sched = inl InvalidShape)
  /\ (points_ok P1 = true -> points_ok P2 = true ->
      forall r c content, out = Some (r, c, content) -> (r, c) <> (length (px P1), length (px P2)) ->
      distance_pairwise N P1 P2 out block_size numthreads sched = inl InvalidShape)
  /\ (points_ok P1 = true -> points_ok P2 = true -> out_ok P1 P2 out -> (numthreads <= 0)%Z ->
      distance_pairwise N P1 P2 out block_size numthreads sched = inl ValueError)
  /\ (points_ok P1 = true -> points_ok P2 = true -> out_ok P1 P2 out -> (1 <= numthreads)%Z ->
      (-6 < block_size <= 0)%Z ->
      distance_pairwise N P1 P2 out block_size numthreads sched = inl ZeroDivisionError).
Proof.
  unfold distance_pairwise. repeat split.
  - intros ->. reflexivity.
  - intros -> ->. reflexivity.
  - intros -> -> r c content -> Hne. cbn [negb].
    destruct (Nat.eqb_spec r (length (px P1))) as [->|]; [|reflexivity].
    destruct (Nat.eqb_spec c (length (px P2))) as [->|]; [|reflexivity]. contradiction Hne. reflexivity.
  - intros -> -> Ho Hn. cbn [negb].
    destruct out as [[[r c] content]|]; [destruct Ho as (-> & ->); rewrite !Nat.eqb_refl|]; cbn [andb];
      unfold py_ceil_div; cbn [Z.eqb]; destruct (Z.leb_spec numthreads 0); try lia; reflexivity.
  - intros -> -> Ho Hn Hb. cbn [negb].
    assert (E : py_ceil_div block_size 6 = Some 0%Z).
    { unfold py_ceil_div. cbn [Z.eqb]. f_equal. rewrite Z.div_small by lia. reflexivity. }
    destruct out as [[[r c] content]|]; [destruct Ho as (-> & ->); rewrite !Nat.eqb_refl|]; cbn [andb];
      rewrite E; destruct (Z.leb_spec numthreads 0); try lia; reflexivity.
Qed.

(* ---------- 5. the selector of the sensitivity loops ------------------------------------ *)
(* ONE selector (slice(i*b, (i+1)*b), Ellipsis), resolved on the 1-D sensitivity array, on
   the (numpoints, numelements) arrays of a ModelAmplitudes object and on a (numpoints,
   numtimetraces) ndarray, selects the same points — the chunk of Model/Chunk.v — and every
   element / timetrace *)
Lemma sens_views_raw np nt ne b i : 
  sens_views np nt ne [Sl (Some (i * b), Some ((i + 1) * b)); Dots]
  = Some ([chunk np b i], [chunk np b i; (0, ne)], [chunk np b i; (0, nt)]).
Proof. reflexivity. Qed.

Theorem sens_submit_pos np nt ne b : 1 <= b ->
  sens_submit np nt ne (Z.of_nat b)
  = inr (map (fun r => Some ([r], [r; (0, ne)], [r; (0, nt)])) (chunks np b)).
Proof.
  intros Hb. unfold sens_submit.
  rewrite (chunk_array_py_pos [np; nt] (Z.of_nat b) 0 0) by (reflexivity || lia).
  rewrite Nat2Z.id. cbn [length nth].
  change (raw_selectors 2 0 np b) with
    (map (fun i => [Sl (Some (i * b), Some ((i + 1) * b)); Dots]) (seq 0 (numchunks np b))).
  unfold chunks. rewrite !map_map. f_equal.
Qed.

(* block size 0 raises, a negative block size yields no chunk at all (the functions then
   fail on `None /= numtimetraces`, a TypeError) *)
Theorem sens_submit_nonpos np nt ne :
  sens_submit np nt ne 0 = inl ZeroDivisionError /\
  forall b, (b < 0)%Z -> sens_submit np nt ne b = inr [].
Proof.
  split; [reflexivity|]. intros b Hb. unfold sens_submit.
  rewrite (chunk_array_py_neg [np; nt] b 0 0) by (reflexivity || lia). reflexivity.
Qed.

(* ---------- 6. the write regions of one call, from the views actually handed out ---------- *)
Definition cell_idx (ij : nat * nat) : list nat := [fst ij; snd ij].

Lemma box_cells_two r c : box_cells [r; c] = map cell_idx (list_prod (range_of r) (range_of c)).
Proof.
  cbn [box_cells].
  assert (E : forall l, flat_map (fun j : nat => map (cons j) [[]]) l = map (fun j => [j]) l).
  { intros l. induction l as [|j l IH]; [reflexivity|]. cbn. cbn in IH. rewrite IH. reflexivity. }
  rewrite E.
  rewrite (flat_map_ext _ (fun i => map (fun j => [i; j]) (range_of c))) by (intros i; apply map_map).
  apply (flat_map_map_pair (fun i j => [i; j])).
Qed.

Lemma index_space_two n p : index_space [n; p] = map cell_idx (list_prod (seq 0 n) (seq 0 p)).
Proof.
  unfold index_space, full_ranges. cbn [map]. rewrite box_cells_two. unfold range_of. cbn [fst snd].
  rewrite !Nat.sub_0_r. reflexivity.
Qed.

Lemma cell_idx_inj x y : cell_idx x = cell_idx y -> x = y.
Proof. destruct x, y. unfold cell_idx. cbn. intros H. inversion H. reflexivity. Qed.

Lemma res_cells_tiles (tls : list tile) :
  flat_map (fun tl => box_cells [fst tl; snd tl]) tls = map cell_idx (flat_map tile_cells tls).
Proof.
  induction tls as [|tl tls IH]; [reflexivity|]. cbn [flat_map]. rewrite map_app, IH, box_cells_two. reflexivity.
Qed.

Lemma tiles_regions_partition n p b (tls : list tile) : 1 <= b -> tls = tiles n p b b ->
  Permutation (flat_map (fun tl => box_cells [fst tl; snd tl]) tls) (index_space [n; p])
  /\ NoDup (flat_map (fun tl => box_cells [fst tl; snd tl]) tls).
Proof.
  intros Hb ->. rewrite res_cells_tiles, index_space_two. split.
  - apply Permutation_map. apply tiles_perm; assumption.
  - apply FinFun.Injective_map_NoDup; [exact cell_idx_inj|]. apply tiles_NoDup; assumption.
Qed.

(* find_minimum_times: for every block size >= 1 the output views of the submitted tasks are
   pairwise disjoint and cover the (n, p) outputs; every task is handed complete rows of
   time_1 and complete columns of time_2, the rows / columns of its output view *)
Theorem fmt_views_partition n m p block_size : 1 <= m -> (1 <= block_size)%Z ->
  exists adj tasks,
    py_ceil_div block_size (Z.of_nat m) = Some adj /\ fmt_submit n m p adj = inr tasks /\
    length tasks = ceil_div n (Z.to_nat adj) * ceil_div p (Z.to_nat adj) /\
    Permutation (flat_map (fun tv => box_cells (fv_res tv)) tasks) (index_space [n; p]) /\
    NoDup (flat_map (fun tv => box_cells (fv_res tv)) tasks) /\
    (forall tv, In tv tasks ->
       exists r c, fv_t1 tv = [r; (0, m)] /\ fv_t2 tv = [(0, m); c] /\ fv_res tv = [r; c]).
Proof.
  intros Hm Hb. destruct (fmt_adj_pos block_size m Hm Hb) as (b & Hb1 & _ & E).
  exists (Z.of_nat b), (map (views_of_tile m) (tiles n p b b)).
  split; [exact E|]. split; [apply fmt_submit_pos; exact Hb1|]. rewrite Nat2Z.id.
  split; [rewrite map_length; apply tiles_length|].
  rewrite flat_map_concat_map, map_map, <- flat_map_concat_map. cbn [views_of_tile fv_res].
  destruct (tiles_regions_partition n p b _ Hb1 eq_refl) as (HP & HN).
  split; [exact HP|]. split; [exact HN|].
  intros tv Hin. apply in_map_iff in Hin as (tl & <- & _). exists (fst tl), (snd tl). repeat split.
Qed.

(* distance_pairwise: chunk_size = ceil(block_size / 6); every (i, j) of the (num1, num2)
   table is in the output view of exactly one task; the coordinate views are the rows /
   columns of that output view *)
Theorem dist_views_partition num1 num2 block_size : (1 <= block_size)%Z ->
  exists cs tasks,
    py_ceil_div block_size 6 = Some cs /\ dist_submit num1 num2 cs = inr tasks /\
    length tasks = ceil_div num1 (Z.to_nat cs) * ceil_div num2 (Z.to_nat cs) /\
    Permutation (flat_map (fun dv => box_cells (dv_out dv)) tasks) (index_space [num1; num2]) /\
    NoDup (flat_map (fun dv => box_cells (dv_out dv)) tasks) /\
    (forall dv, In dv tasks -> dv_out dv = dv_1 dv ++ dv_2 dv /\ length (dv_1 dv) = 1 /\ length (dv_2 dv) = 1).
Proof.
  intros Hb.
  assert (E : exists b, 1 <= b /\ py_ceil_div block_size 6 = Some (Z.of_nat b)).
  { exists (ceil_div (Z.to_nat block_size) 6). split; [apply ceil_div_pos; lia|].
    rewrite <- (Z2Nat.id block_size) at 1 by lia. change 6%Z with (Z.of_nat 6). apply py_ceil_div_nat. lia. }
  destruct E as (b & Hb1 & E).
  exists (Z.of_nat b), (map dviews_of_tile (tiles num1 num2 b b)).
  split; [exact E|]. split; [apply dist_submit_pos; exact Hb1|]. rewrite Nat2Z.id.
  split; [rewrite map_length; apply tiles_length|].
  rewrite flat_map_concat_map, map_map, <- flat_map_concat_map. cbn [dviews_of_tile dv_out].
  destruct (tiles_regions_partition num1 num2 b _ Hb1 eq_refl) as (HP & HN).
  split; [exact HP|]. split; [exact HN|].
  intros dv Hin. apply in_map_iff in Hin as (tl & <- & _). repeat split.
Qed.

(* ---------- the two extreme block sizes ------------------------------------------------------ *)
Lemma chunks_block_large len b : 1 <= len <= b -> chunks len b = [(0, len)].
Proof.
  intros H. unfold chunks, numchunks.
  assert (E : ceil_div len b = 1).
  { unfold ceil_div. symmetry. apply Nat.div_unique with (r := len - 1); lia. }
  rewrite E. cbn [seq map]. unfold chunk. f_equal. f_equal; lia.
Qed.

Lemma chunks_block_one len : chunks len 1 = map (fun i => (i, i + 1)) (seq 0 len).
Proof.
  unfold chunks, numchunks, ceil_div. replace (len + 1 - 1) with len by lia. rewrite Nat.div_1_r.
  apply map_ext_in. intros i Hi. apply in_seq in Hi. unfold chunk. f_equal; lia.
Qed.
