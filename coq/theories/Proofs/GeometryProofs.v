(* Proofs/GeometryProofs.v — lemmas about Model/Geometry.v over the reals (C17):
   changes of frame, rotation matrices, isometries, distance tables, box selector. *)
From Coq Require Import List Reals Lra Lia ZArith Nsatz Bool.
From Arim Require Import Base.Num Base.NumR Model.Vec3 Model.Geometry Proofs.Vec3Proofs.
Import ListNotations.
Local Open Scope R_scope.

(* ---- to_gcs / from_gcs ------------------------------------------------------ *)
Lemma from_to_gcs_R B o c : rows_orthonormal NumR B -> from_gcs NumR B o (to_gcs NumR B o c) = c.
Proof. intros H. unfold from_gcs, to_gcs. rewrite vsub_vadd_cancel. apply mvec_mtvec; exact H. Qed.

Lemma to_from_gcs_R B o p : cols_orthonormal NumR B -> to_gcs NumR B o (from_gcs NumR B o p) = p.
Proof. intros H. unfold from_gcs, to_gcs. rewrite mtvec_mvec by exact H. apply vadd_vsub_cancel. Qed.

Lemma from_gcs_dist_R B o p q : cols_orthonormal NumR B ->
  vdist NumR (from_gcs NumR B o p) (from_gcs NumR B o q) = vdist NumR p q.
Proof.
  intros H. unfold from_gcs, vdist, vnorm.
  rewrite <- mvec_sub, vsub_vsub_same, mvec_norm2 by exact H. reflexivity.
Qed.

Lemma to_gcs_dist_R B o p q : rows_orthonormal NumR B ->
  vdist NumR (to_gcs NumR B o p) (to_gcs NumR B o q) = vdist NumR p q.
Proof.
  intros H. unfold to_gcs, vdist, vnorm.
  rewrite vsub_vadd_same, <- mtvec_sub, mtvec_norm2 by exact H. reflexivity.
Qed.

(* whole arrays, one frame *)
Lemma from_to_gcs_all_R B o cs : orthonormal NumR B ->
  from_gcs_all NumR B o (to_gcs_all NumR B o cs) = cs /\ to_gcs_all NumR B o (from_gcs_all NumR B o cs) = cs.
Proof.
  intros [Hr Hc]. unfold from_gcs_all, to_gcs_all. rewrite !map_map. split.
  - rewrite <- (map_id cs) at 2. apply map_ext. intros c. apply from_to_gcs_R; exact Hr.
  - rewrite <- (map_id cs) at 2. apply map_ext. intros c. apply to_from_gcs_R; exact Hc.
Qed.

(* whole arrays, one frame per point: l lists (basis, origin, point) *)
Definition frame_of {T} (f : mat3 T * vec3 T * vec3 T) : mat3 T := fst (fst f).
Definition with_point {T} (f : mat3 T * vec3 T * vec3 T) (p : vec3 T) := (fst (fst f), snd (fst f), p).

Lemma from_to_gcs_each_R (l : list (mat3 R * vec3 R * vec3 R)) :
  Forall (fun f => orthonormal NumR (frame_of f)) l ->
  from_gcs_each NumR (map (fun f => with_point f (to_gcs NumR (fst (fst f)) (snd (fst f)) (snd f))) l) = map snd l
  /\ to_gcs_each NumR (map (fun f => with_point f (from_gcs NumR (fst (fst f)) (snd (fst f)) (snd f))) l) = map snd l.
Proof.
  intros H. unfold from_gcs_each, to_gcs_each. rewrite !map_map. split.
  - apply map_ext_in. intros [[B o] c] Hin. rewrite Forall_forall in H. destruct (H _ Hin) as [Hr _].
    cbn [with_point fst snd]. apply from_to_gcs_R. exact Hr.
  - apply map_ext_in. intros [[B o] c] Hin. rewrite Forall_forall in H. destruct (H _ Hin) as [_ Hc].
    cbn [with_point fst snd]. apply to_from_gcs_R. exact Hc.
Qed.

(* ---- rotate -------------------------------------------------------------------- *)
Lemma rotate_dist_R R ce p q : cols_orthonormal NumR R ->
  vdist NumR (rotate NumR R ce p) (rotate NumR R ce q) = vdist NumR p q.
Proof.
  intros H. destruct ce as [ce|]; unfold rotate, vdist, vnorm.
  - rewrite vsub_vadd_same, <- mvec_sub, vsub_vsub_same, mvec_norm2 by exact H. reflexivity.
  - rewrite <- mvec_sub, mvec_norm2 by exact H. reflexivity.
Qed.

Lemma rotate_centre_fixed_R R ce : rotate NumR R (Some ce) ce = ce.
Proof. unfold rotate. v3_start. v3_split; ring. Qed.

(* ---- CoordinateSystem ------------------------------------------------------------ *)
Lemma cs_convert_from_is_from_gcs o i j p :
  cs_convert_from_gcs NumR o i j p = from_gcs NumR (cs_axes NumR i j) o p.
Proof.
  unfold cs_convert_from_gcs, from_gcs, cs_basis_matrix. rewrite vadd_vopp, mtvec_is_mvec_trans, mtrans_involutive.
  reflexivity.
Qed.

Lemma cs_convert_to_is_to_gcs o i j c :
  cs_convert_to_gcs NumR o i j c = to_gcs NumR (cs_axes NumR i j) o c.
Proof. unfold cs_convert_to_gcs, to_gcs, cs_basis_matrix. rewrite mtvec_is_mvec_trans. reflexivity. Qed.

Lemma cs_axes_proper i j : vdot NumR i i = 1 -> vdot NumR j j = 1 -> vdot NumR i j = 0 ->
  proper_rotation NumR (cs_axes NumR i j).
Proof. intros. apply cross_frame; assumption. Qed.

(* ---- rotation matrices ------------------------------------------------------------ *)
Lemma rot_x_proper c s : c * c + s * s = 1 -> proper_rotation NumR (rot_x_cs NumR c s).
Proof.
  intros H. assert (Hr : rows_orthonormal NumR (rot_x_cs NumR c s)).
  { unfold rot_x_cs. v3_start. v3_split; nsatz. }
  split; [exact (orthonormal_of_rows _ Hr)|]. unfold rot_x_cs. v3_start. nsatz.
Qed.
Lemma rot_y_proper c s : c * c + s * s = 1 -> proper_rotation NumR (rot_y_cs NumR c s).
Proof.
  intros H. assert (Hr : rows_orthonormal NumR (rot_y_cs NumR c s)).
  { unfold rot_y_cs. v3_start. v3_split; nsatz. }
  split; [exact (orthonormal_of_rows _ Hr)|]. unfold rot_y_cs. v3_start. nsatz.
Qed.
Lemma rot_z_proper c s : c * c + s * s = 1 -> proper_rotation NumR (rot_z_cs NumR c s).
Proof.
  intros H. assert (Hr : rows_orthonormal NumR (rot_z_cs NumR c s)).
  { unfold rot_z_cs. v3_start. v3_split; nsatz. }
  split; [exact (orthonormal_of_rows _ Hr)|]. unfold rot_z_cs. v3_start. nsatz.
Qed.
Lemma rot_ypr_proper cy sy cp sp cr sr :
  cy * cy + sy * sy = 1 -> cp * cp + sp * sp = 1 -> cr * cr + sr * sr = 1 ->
  proper_rotation NumR (rot_ypr_cs NumR cy sy cp sp cr sr).
Proof.
  intros H1 H2 H3. unfold rot_ypr_cs.
  apply mmul_proper; [apply mmul_proper|]; [apply rot_z_proper | apply rot_y_proper | apply rot_x_proper]; assumption.
Qed.

Lemma cos_sin_unit th : cos th * cos th + sin th * sin th = 1.
Proof. pose proof (sin2_cos2 th) as H. unfold Rsqr in H. lra. Qed.

Lemma rotation_matrix_x_proper th : proper_rotation NumR (rotation_matrix_x NumR th).
Proof. apply rot_x_proper, cos_sin_unit. Qed.
Lemma rotation_matrix_y_proper th : proper_rotation NumR (rotation_matrix_y NumR th).
Proof. apply rot_y_proper, cos_sin_unit. Qed.
Lemma rotation_matrix_z_proper th : proper_rotation NumR (rotation_matrix_z NumR th).
Proof. apply rot_z_proper, cos_sin_unit. Qed.
Lemma rotation_matrix_ypr_proper y p r : proper_rotation NumR (rotation_matrix_ypr NumR y p r).
Proof. apply rot_ypr_proper; apply cos_sin_unit. Qed.

(* the elementary rotations rotate the right way round: x fixed / y -> z etc. *)
Lemma rot_x_action c s : mvec NumR (rot_x_cs NumR c s) (0, 1, 0) = (0, c, s).
Proof. unfold rot_x_cs. v3_start. v3_split; ring. Qed.
Lemma rot_y_action c s : mvec NumR (rot_y_cs NumR c s) (0, 0, 1) = (s, 0, c).
Proof. unfold rot_y_cs. v3_start. v3_split; ring. Qed.
Lemma rot_z_action c s : mvec NumR (rot_z_cs NumR c s) (1, 0, 0) = (c, s, 0).
Proof. unfold rot_z_cs. v3_start. v3_split; ring. Qed.

(* ---- distance tables are invariant under a change of frame ------------------------------------------ *)
Lemma distance_table_map (f : vec3 R -> vec3 R) (ps qs : list (vec3 R)) :
  (forall p q, vdist NumR (f p) (f q) = vdist NumR p q) ->
  distance_table NumR (map f ps) (map f qs) = distance_table NumR ps qs.
Proof.
  intros H. unfold distance_table. rewrite map_map. apply map_ext. intros p.
  rewrite map_map. apply map_ext. intros q. apply H.
Qed.

Lemma distance_table_from_gcs B o ps qs : orthonormal NumR B ->
  distance_table NumR (from_gcs_all NumR B o ps) (from_gcs_all NumR B o qs) = distance_table NumR ps qs
  /\ distance_table NumR (to_gcs_all NumR B o ps) (to_gcs_all NumR B o qs) = distance_table NumR ps qs.
Proof.
  intros [Hr Hc]. unfold from_gcs_all, to_gcs_all. split; apply distance_table_map; intros p q.
  - apply from_gcs_dist_R; exact Hc.
  - apply to_gcs_dist_R; exact Hr.
Qed.

(* ---- one frame broadcast to every point = one frame per point with equal frames (every Num instance) --- *)
Lemma each_of_broadcast {T} (N : Num T) (B : mat3 T) (o : vec3 T) (cs : list (vec3 T)) :
  to_gcs_each N (map (fun c => (B, o, c)) cs) = to_gcs_all N B o cs /\
  from_gcs_each N (map (fun c => (B, o, c)) cs) = from_gcs_all N B o cs.
Proof.
  unfold to_gcs_each, from_gcs_each, to_gcs_all, from_gcs_all. rewrite !map_map. split; apply map_ext; intros c; reflexivity.
Qed.
