(* Proofs/PathReverseGeomProofs.v — the reversal of the ray-geometry record of Model/PathReverse.v
   (rg_reverse: legs walked backwards, incoming and outgoing conventional angles exchanged) is
   what the geometric model of C05 (Model/RayGeom.v: points, local frames, normal-side flags,
   Interface.reverse / Path.reverse / the reversed column of Rays.reverse) computes on the
   reversed path.  (C07; uses the lemmas of C05.) *)
From Coq Require Import List ZArith Bool Arith Lia Reals.
From Arim Require Import Base.Num Base.NumR Model.PathReverse Proofs.PathReverseProofs.
From Arim Require Model.Vec3 Model.RayGeom Proofs.RayGeomProofs Proofs.RayGeomRealProofs.
Import ListNotations.

Lemma Forall2_seq_nth {A} (P : nat -> A -> Prop) (l : list A) : forall a len,
  Forall2 P (seq a len) l -> forall j x, nth_error l j = Some x -> P (a + j) x.
Proof.
  induction l as [|y l IH]; intros a len H j x Hj; [destruct j; discriminate|].
  destruct len as [|len]; cbn in H; inversion H; subst.
  destruct j as [|j]; cbn in Hj.
  - inversion Hj; subst. rewrite Nat.add_0_r. assumption.
  - replace (a + S j) with (S a + j) by lia. eapply IH; eauto.
Qed.

Lemma res_to_outcome_ok {A} (r : RayGeom.res A) x : res_to_outcome r = Ok x -> r = RayGeom.Val x.
Proof. destruct r; cbn; intros H; try discriminate. inversion H. reflexivity. Qed.

Section Bridge.
  Variable ifs : list (RayGeom.iface (T:=R)).
  Variable ray : list nat.
  Hypothesis Hlen : length ray = length ifs.

  Let ifs' := RayGeom.path_reverse ifs.
  Let ray' := rev ray.

  Lemma Hlen' : length ray' = length ifs'.
  Proof. unfold ray', ifs'. rewrite rev_length, RayGeomProofs.path_reverse_length. exact Hlen. Qed.

  (* a leg of the reversed ray is the mirrored leg of the ray *)
  Lemma leg_size_reversed j x : j < length ifs - 1 ->
    RayGeom.inc_leg_size NumR ifs ray (Z.of_nat (length ifs - 1 - j)) = RayGeom.Val x ->
    RayGeom.inc_leg_size NumR ifs' ray' (Z.of_nat (S j)) = RayGeom.Val x.
  Proof.
    intros Hj H.
    destruct (RayGeomRealProofs.leg_size_value_inv ifs ray Hlen _ _ H) as (a & s & e & Hr & Hs & He & ->).
    rewrite RayGeomProofs.resolve_of_nat in Hr by lia. inversion Hr as [Ha].
    rewrite (RayGeomRealProofs.leg_size_is_distance_R ifs' ray' Hlen' (Z.of_nat (S j)) j e s).
    - f_equal. apply RayGeomRealProofs.euclid_sym.
    - unfold ifs'. rewrite RayGeomProofs.path_reverse_length. apply RayGeomProofs.resolve_of_nat. lia.
    - unfold ifs', ray'. replace j with (length ifs - 1 - S a) by lia.
      rewrite RayGeomProofs.ray_point_reverse by (try exact Hlen; lia). exact He.
    - unfold ifs', ray'. replace (S j) with (length ifs - 1 - a) by lia.
      rewrite RayGeomProofs.ray_point_reverse by (try exact Hlen; lia). exact Hs.
  Qed.

  (* the incoming conventional angle of the reversed ray is the outgoing one of the ray ...
     (REPAIR: at every interface 1..n of the reversed path, the last one included, i.e. down to
     the FIRST interface of the path) *)
  Lemma conv_inc_reversed j : j < length ifs - 1 ->
    RayGeom.conventional_inc_angle NumR ifs' ray' (Z.of_nat (S j))
    = RayGeom.conventional_out_angle NumR ifs ray (Z.of_nat (length ifs - 2 - j)).
  Proof.
    intros Hj.
    destruct (RayGeomProofs.inc_is_out_of_reverse_all NumR ifs' ray' Hlen'
                (Z.of_nat (S j)) (Z.of_nat (length ifs - 2 - j)) (S j)) as (_ & _ & _ & _ & _ & _ & H).
    - unfold ifs'. rewrite RayGeomProofs.path_reverse_length. apply RayGeomProofs.resolve_of_nat. lia.
    - unfold ifs'. rewrite RayGeomProofs.path_reverse_length.
      replace (length ifs - 1 - S j) with (length ifs - 2 - j) by lia.
      apply RayGeomProofs.resolve_of_nat. lia.
    - rewrite H. unfold ifs', ray'. rewrite RayGeomProofs.path_reverse_involutive, rev_involutive. reflexivity.
  Qed.

  (* ... and the other way round: at every interface 0..n-1 of the reversed path, the first one
     included, i.e. up to the LAST interface of the path *)
  Lemma conv_out_reversed j : j < length ifs - 1 ->
    RayGeom.conventional_out_angle NumR ifs' ray' (Z.of_nat j)
    = RayGeom.conventional_inc_angle NumR ifs ray (Z.of_nat (length ifs - 1 - j)).
  Proof.
    intros Hj.
    destruct (RayGeomProofs.inc_is_out_of_reverse_all NumR ifs ray Hlen
                (Z.of_nat (length ifs - 1 - j)) (Z.of_nat j) (length ifs - 1 - j)) as (_ & _ & _ & _ & _ & _ & H).
    - apply RayGeomProofs.resolve_of_nat. lia.
    - replace (length ifs - 1 - (length ifs - 1 - j)) with j by lia.
      apply RayGeomProofs.resolve_of_nat. lia.
    - symmetry. exact H.
  Qed.

  (* a list of answers at the indices a .. a+len-1 read backwards is the list of answers of f'
     at a' .. a'+len-1 *)
  Lemma reversed_list {A} (f f' : nat -> RayGeom.res A) a a' len (l : list A) :
    (forall j x, j < len -> f (a + (len - 1 - j)) = RayGeom.Val x -> f' (a' + j) = RayGeom.Val x) ->
    omapM (fun k => res_to_outcome (f k)) (seq a len) = Ok l ->
    omapM (fun k => res_to_outcome (f' k)) (seq a' len) = Ok (rev l).
  Proof.
    intros Hf H. apply omapM_ok_Forall2 in H.
    pose proof (Forall2_len _ _ _ H) as Hl. rewrite seq_length in Hl.
    apply omapM_Forall2. replace len with (length (rev l)) by (rewrite rev_length; congruence).
    apply Forall2_seq. intros j x Hj.
    assert (Hjl : j < len).
    { rewrite Hl, <- rev_length. apply nth_error_Some. congruence. }
    rewrite nth_error_rev in Hj by lia. rewrite <- Hl in Hj.
    pose proof (Forall2_seq_nth _ _ _ _ H _ _ Hj) as Hv. cbn beta in Hv.
    apply res_to_outcome_ok in Hv. rewrite (Hf j x Hjl Hv). reflexivity.
  Qed.

  (* THE BRIDGE: RayGeometry on Path.reverse() with Rays.reverse() answers rg_reverse of what it
     answers on the path.  REPAIR: the record now holds conventional_inc_angle(1..n) and
     conventional_out_angle(0..n-1) (it held the interior interfaces 1..n-1 only), so the
     hypothesis `= Ok rg` also requires the inc flag of the last and the out flag of the first
     interface, and the conclusion also covers these two angles *)
  Theorem rg_of_geometry_reverse vels rg :
    rg_of_geometry NumR ifs ray vels = Ok rg ->
    rg_of_geometry NumR ifs' ray' (rev vels) = Ok (rg_reverse rg).
  Proof.
    unfold rg_of_geometry. intros H.
    destruct (omapM (fun k => res_to_outcome (RayGeom.inc_leg_size NumR ifs ray (Z.of_nat k))) (seq 1 (length ifs - 1)))
      as [legs|] eqn:El; cbn [obind] in H; [|discriminate].
    destruct (omapM (fun i => res_to_outcome (RayGeom.conventional_inc_angle NumR ifs ray (Z.of_nat i)))
                    (seq 1 (length ifs - 1))) as [incs|] eqn:Ei; cbn [obind] in H; [|discriminate].
    destruct (omapM (fun i => res_to_outcome (RayGeom.conventional_out_angle NumR ifs ray (Z.of_nat i)))
                    (seq 0 (length ifs - 1))) as [outs|] eqn:Eo; cbn [obind] in H; [|discriminate].
    inversion H; subst rg. clear H.
    assert (HL : length ifs' = length ifs) by (unfold ifs'; apply RayGeomProofs.path_reverse_length).
    rewrite HL.
    rewrite (reversed_list (fun k => RayGeom.inc_leg_size NumR ifs ray (Z.of_nat k))
                           (fun k => RayGeom.inc_leg_size NumR ifs' ray' (Z.of_nat k)) 1 1 _ legs); [| |exact El].
    2:{ intros j x Hj Hv. apply leg_size_reversed; [lia|].
        replace (length ifs - 1 - j) with (1 + (length ifs - 1 - 1 - j)) by lia. exact Hv. }
    cbn [obind].
    rewrite (reversed_list (fun k => RayGeom.conventional_out_angle NumR ifs ray (Z.of_nat k))
                           (fun k => RayGeom.conventional_inc_angle NumR ifs' ray' (Z.of_nat k)) 0 1 _ outs); [| |exact Eo].
    2:{ intros j x Hj Hv. change (1 + j) with (S j). rewrite conv_inc_reversed by lia.
        replace (length ifs - 2 - j) with (0 + (length ifs - 1 - 1 - j)) by lia. exact Hv. }
    cbn [obind].
    rewrite (reversed_list (fun k => RayGeom.conventional_inc_angle NumR ifs ray (Z.of_nat k))
                           (fun k => RayGeom.conventional_out_angle NumR ifs' ray' (Z.of_nat k)) 1 0 _ incs); [| |exact Ei].
    2:{ intros j x Hj Hv. change (0 + j) with j. rewrite conv_out_reversed by lia.
        replace (length ifs - 1 - j) with (1 + (length ifs - 1 - 1 - j)) by lia. exact Hv. }
    cbn [obind]. reflexivity.
  Qed.
End Bridge.

(* ray for ray, through the index arrays of class Rays: the ray (i, j) of the rays and the ray
   (j, i) of Rays.reverse() (interior indices x[k, i, j] -> y[d - k, j, i]) *)
Theorem rg_of_reversed_rays (ifs : list (RayGeom.iface (T:=R))) n m interior i j r vels rg :
  length interior + 2 = length ifs -> RayGeomProofs.interior_shape n m interior -> i < n -> j < m ->
  RayGeom.ray_column (RayGeom.make_indices n m interior) i j = Some r ->
  rg_of_geometry NumR ifs r vels = Ok rg ->
  exists r', RayGeom.ray_column (RayGeom.make_indices m n (RayGeom.rays_reverse_interior m interior)) j i = Some r' /\
             rg_of_geometry NumR (RayGeom.path_reverse ifs) r' (rev vels) = Ok (rg_reverse rg).
Proof.
  intros Hd Hs Hi Hj Hr Hrg. exists (rev r). split.
  - rewrite (RayGeomProofs.rays_reverse_column n m interior i j Hs Hi Hj), Hr. reflexivity.
  - apply rg_of_geometry_reverse; [|exact Hrg].
    rewrite (RayGeomProofs.ray_column_length n m interior i j r Hi Hj Hr). exact Hd.
Qed.
