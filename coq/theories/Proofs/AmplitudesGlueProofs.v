(* Proofs/AmplitudesGlueProofs.v — lemmas for C08, part 4: the glue of Model/AmplitudesGlue.v
   (index forms of ModelAmplitudes.__getitem__, model_amplitudes_factory with its dictionaries,
   ray_weights_for_views with save_debug / untraced paths / any subset of views).
   Everything but the last section is for ANY numeric instance (no axioms). *)
From Coq Require Import List ZArith Bool Arith Lia.
From Arim Require Import Base.Num Model.Interface Model.Weights Model.Beamspread Model.ScatMatrix
                         Model.Chunk Model.Amplitudes Model.Pipeline Model.AmplitudesGlue
                         Proofs.AmplitudesProofs Proofs.AmplitudesWeightsProofs Proofs.PipelineProofs.
Import ListNotations.

(* ---------- Python slices ------------------------------------------------------------------------ *)
Lemma slice_adjust_pos n step v : (0 <= n)%Z -> (0 < step)%Z -> (0 <= slice_adjust n step v <= n)%Z.
Proof.
  intros Hn Hs. unfold slice_adjust.
  assert (E : (step <? 0)%Z = false) by (apply Z.ltb_ge; lia). rewrite E.
  destruct (Z.ltb_spec v 0); [destruct (Z.ltb_spec (v + n) 0); lia|].
  destruct (Z.leb_spec n v); lia.
Qed.

Lemma slice_adjust_neg n step v : (0 <= n)%Z -> (step < 0)%Z -> (-1 <= slice_adjust n step v <= n - 1)%Z.
Proof.
  intros Hn Hs. unfold slice_adjust.
  assert (E : (step <? 0)%Z = true) by (apply Z.ltb_lt; lia). rewrite E.
  destruct (Z.ltb_spec v 0); [destruct (Z.ltb_spec (v + n) 0); lia|].
  destruct (Z.leb_spec n v); lia.
Qed.

Lemma slice_len_nonneg a b st : (st <> 0)%Z -> (0 <= slice_len a b st)%Z.
Proof.
  intros Hs. unfold slice_len.
  destruct (Z.ltb_spec st 0).
  - destruct (Z.ltb_spec b a); [|lia].
    assert (0 <= (a - b - 1) / - st)%Z by (apply Z.div_pos; lia). lia.
  - destruct (Z.ltb_spec a b); [|lia].
    assert (0 <= (b - a - 1) / st)%Z by (apply Z.div_pos; lia). lia.
Qed.

(* the k-th index of a slice lies between its adjusted bounds *)
Lemma slice_term_pos a b st k :
  (0 < st)%Z -> (0 <= k < slice_len a b st)%Z -> (a <= a + k * st < b)%Z.
Proof.
  intros Hs [Hk0 Hk]. unfold slice_len in Hk.
  assert (E : (st <? 0)%Z = false) by (apply Z.ltb_ge; lia). rewrite E in Hk.
  destruct (Z.ltb_spec a b) as [Hab|Hab]; [|lia].
  assert (Hq : (st * ((b - a - 1) / st) <= b - a - 1)%Z) by (apply Z.mul_div_le; lia).
  nia.
Qed.

Lemma slice_term_neg a b st k :
  (st < 0)%Z -> (0 <= k < slice_len a b st)%Z -> (b < a + k * st <= a)%Z.
Proof.
  intros Hs [Hk0 Hk]. unfold slice_len in Hk.
  assert (E : (st <? 0)%Z = true) by (apply Z.ltb_lt; lia). rewrite E in Hk.
  destruct (Z.ltb_spec b a) as [Hab|Hab]; [|lia].
  assert (Hq : ((- st) * ((a - b - 1) / - st) <= a - b - 1)%Z) by (apply Z.mul_div_le; lia).
  nia.
Qed.

Definition in_axis (n : nat) (z : Z) : Prop := (0 <= z < Z.of_nat n)%Z.

(* a slice never designates an index outside the axis: list(range(n))[a:b:s] *)
Theorem slice_indices_in_axis n start stop step idx :
  slice_indices n start stop step = GOk idx -> Forall (in_axis n) idx.
Proof.
  unfold slice_indices. set (st := match step with None => 1%Z | Some s => s end).
  destruct (Z.eqb_spec st 0) as [E0|N0]; [discriminate|].
  set (nz := Z.of_nat n).
  set (a := match start with None => if (st <? 0)%Z then (nz - 1)%Z else 0%Z | Some v => slice_adjust nz st v end).
  set (b := match stop with None => if (st <? 0)%Z then (-1)%Z else nz | Some v => slice_adjust nz st v end).
  intros H. inversion H; subst idx. clear H.
  apply Forall_forall. intros z Hz. apply in_map_iff in Hz as (k & Ez & Hk). apply in_seq in Hk.
  pose proof (slice_len_nonneg a b st N0) as Hlen.
  assert (Hkz : (0 <= Z.of_nat k < slice_len a b st)%Z) by lia.
  assert (Hn : (0 <= nz)%Z) by (unfold nz; lia).
  unfold in_axis. fold nz. subst z.
  destruct (Z.ltb_spec st 0) as [Hneg|Hpos].
  - pose proof (slice_term_neg a b st (Z.of_nat k) Hneg Hkz) as Ht.
    assert (Ha : (a <= nz - 1)%Z).
    { unfold a. destruct start as [v|]; [exact (proj2 (slice_adjust_neg nz st v Hn Hneg))|].
      replace (st <? 0)%Z with true by (symmetry; apply Z.ltb_lt; lia). lia. }
    assert (Hb : (-1 <= b)%Z).
    { unfold b. destruct stop as [v|]; [exact (proj1 (slice_adjust_neg nz st v Hn Hneg))|].
      replace (st <? 0)%Z with true by (symmetry; apply Z.ltb_lt; lia). lia. }
    lia.
  - assert (Hpos' : (0 < st)%Z) by lia.
    pose proof (slice_term_pos a b st (Z.of_nat k) Hpos' Hkz) as Ht.
    assert (Ha : (0 <= a)%Z).
    { unfold a. destruct start as [v|]; [exact (proj1 (slice_adjust_pos nz st v Hn Hpos'))|].
      replace (st <? 0)%Z with false by (symmetry; apply Z.ltb_ge; lia). lia. }
    assert (Hb : (b <= nz)%Z).
    { unfold b. destruct stop as [v|]; [exact (proj2 (slice_adjust_pos nz st v Hn Hpos'))|].
      replace (st <? 0)%Z with false by (symmetry; apply Z.ltb_ge; lia). lia. }
    lia.
Qed.

Lemma in_axis_zvalid n z : in_axis n z -> zvalid n z = true.
Proof.
  intros [H1 H2]. unfold zvalid.
  replace z with (Z.of_nat (Z.to_nat z)) by lia. rewrite norm_index_nat by lia. reflexivity.
Qed.

Lemma in_axis_norm n z : in_axis n z -> norm_index n z = Some (Z.to_nat z).
Proof.
  intros [H1 H2]. replace z with (Z.of_nat (Z.to_nat z)) at 1 by lia. apply norm_index_nat. lia.
Qed.

Lemma zvalid_spec n z : zvalid n z = true <-> valid_index n z.
Proof.
  unfold zvalid, valid_index. split.
  - destruct (norm_index n z) as [k|] eqn:E; [|discriminate]. intros _.
    unfold norm_index in E.
    destruct ((0 <=? z)%Z && (z <? Z.of_nat n)%Z) eqn:E1.
    + apply andb_true_iff in E1 as [H1 H2]. apply Z.leb_le in H1. apply Z.ltb_lt in H2. lia.
    + destruct ((- Z.of_nat n <=? z)%Z && (z <? 0)%Z) eqn:E2; [|discriminate].
      apply andb_true_iff in E2 as [H1 H2]. apply Z.leb_le in H1. apply Z.ltb_lt in H2. lia.
  - intros [H1 H2]. destruct (Z_lt_le_dec z 0) as [Hz|Hz].
    + replace z with (- Z.of_nat (Z.to_nat (- z)))%Z by lia. rewrite norm_index_neg by lia. reflexivity.
    + replace z with (Z.of_nat (Z.to_nat z)) by lia. rewrite norm_index_nat by lia. reflexivity.
Qed.

(* the indices of a slice are pairwise distinct *)
Theorem slice_indices_nodup n start stop step idx :
  slice_indices n start stop step = GOk idx -> NoDup idx.
Proof.
  unfold slice_indices. set (st := match step with None => 1%Z | Some s => s end).
  destruct (Z.eqb_spec st 0) as [E0|N0]; [discriminate|].
  intros H. inversion H; subst idx. clear H.
  apply FinFun.Injective_map_NoDup; [|apply seq_NoDup].
  intros x y E. nia.
Qed.

(* slice(None) = slice(None, None, 1) = every grid point in order *)
Lemma seq_shift_map (f : nat -> Z) a len : map f (seq a len) = map (fun k => f (a + k)) (seq 0 len).
Proof.
  revert a. induction len as [|len IH]; intros a; [reflexivity|].
  cbn [seq map]. rewrite Nat.add_0_r. f_equal.
  rewrite IH. rewrite <- seq_shift, map_map. apply map_ext. intros k. f_equal. lia.
Qed.

Theorem slice_all n : slice_indices n None None None = GOk (all_points n).
Proof.
  unfold slice_indices. cbn [Z.eqb Z.ltb Z.compare].
  unfold slice_len. cbn [Z.ltb Z.compare].
  destruct (Z.ltb_spec 0 (Z.of_nat n)) as [Hn|Hn].
  - rewrite Z.div_1_r. replace (Z.to_nat (Z.of_nat n - 0 - 1 + 1)) with n by lia.
    unfold all_points. f_equal. apply map_ext. intros k. lia.
  - assert (n = 0) by lia. subst n. reflexivity.
Qed.

(* slice(a, b) with non-negative bounds: the clipped half-open range, i.e. Chunk.range_of *)
Theorem slice_range n a b :
  slice_indices n (Some (Z.of_nat a)) (Some (Z.of_nat b)) None
  = GOk (map Z.of_nat (range_of (Nat.min a n, Nat.min b n))).
Proof.
  unfold slice_indices. cbn [Z.eqb].
  assert (Ead : forall v, slice_adjust (Z.of_nat n) 1 (Z.of_nat v) = Z.of_nat (Nat.min v n)).
  { intros v. unfold slice_adjust.
    destruct (Z.ltb_spec (Z.of_nat v) 0); [lia|].
    destruct (Z.leb_spec (Z.of_nat n) (Z.of_nat v)); cbn [Z.ltb Z.compare]; lia. }
  rewrite !Ead. unfold range_of. cbn [fst snd].
  set (a' := Nat.min a n). set (b' := Nat.min b n).
  assert (El : Z.to_nat (slice_len (Z.of_nat a') (Z.of_nat b') 1) = b' - a').
  { unfold slice_len. cbn [Z.ltb Z.compare].
    destruct (Z.ltb_spec (Z.of_nat a') (Z.of_nat b')); [rewrite Z.div_1_r|]; lia. }
  rewrite El. f_equal. rewrite (seq_shift_map Z.of_nat a' (b' - a')).
  apply map_ext. intros k. lia.
Qed.

(* ---------- options / results ---------------------------------------------------------------------- *)
Lemma take_all_points {V} (A : list V) : take A (all_points (length A)) = Some A.
Proof.
  unfold take, all_points. rewrite mapM_map.
  assert (G : forall (pre l : list V), mapM (fun x => lookup (pre ++ l) (Z.of_nat x)) (seq (length pre) (length l)) = Some l).
  { intros pre l. revert pre. induction l as [|x l IH]; intros pre; [reflexivity|].
    cbn [length seq mapM]. unfold lookup at 1.
    rewrite norm_index_nat by (rewrite app_length; cbn; lia). cbn [bind].
    rewrite nth_error_app2 by lia. rewrite Nat.sub_diag. cbn [nth_error lift2].
    specialize (IH (pre ++ [x])). rewrite <- app_assoc in IH. cbn [app] in IH.
    rewrite app_length in IH. cbn [length] in IH. rewrite Nat.add_1_r in IH. rewrite IH. reflexivity. }
  exact (G [] A).
Qed.

Lemma take_valid_some {V} (A : list V) G : forallb (zvalid (length A)) G = true -> exists R, take A G = Some R.
Proof.
  intros H. apply mapM_total. intros z Hz. rewrite forallb_forall in H. specialize (H z Hz).
  unfold zvalid in H. unfold lookup. destruct (norm_index (length A) z) as [k|] eqn:E; [|discriminate]. cbn.
  destruct (nth_error A k) as [v|] eqn:Ev; [exists v; reflexivity|].
  apply nth_error_None in Ev. pose proof (norm_index_lt _ _ _ E). lia.
Qed.

Lemma rbind_assoc {A B C} (x : gres A) (f : A -> gres B) (g : B -> gres C) :
  rbind (rbind x f) g = rbind x (fun a => rbind (f a) g).
Proof. destruct x; reflexivity. Qed.

Lemma lift2_none_r {A B C} (f : A -> B -> C) (x : option A) : lift2 f x None = None.
Proof. destruct x; reflexivity. Qed.

(* ---------- selectors ------------------------------------------------------------------------------ *)
Lemma count_none_zero sel : has_none sel = false -> count_none sel = 0.
Proof.
  unfold has_none, count_none. induction sel as [|it sel IH]; [reflexivity|].
  cbn [existsb filter]. intros H. apply orb_false_iff in H as [H1 H2]. rewrite H1. exact (IH H2).
Qed.

Lemma mask_positions_range m : forall from z, In z (mask_positions from m) -> (from <= z < from + Z.of_nat (length m))%Z.
Proof.
  induction m as [|b m IH]; intros from z Hz; [contradiction|].
  cbn [mask_positions] in Hz. cbn [length].
  destruct b.
  - destruct Hz as [E|Hz]; [lia|]. specialize (IH _ _ Hz). lia.
  - specialize (IH _ _ Hz). lia.
Qed.

Lemma expand_multi_valid n it idx : expand_multi n it = GOk idx -> forallb (zvalid n) idx = true.
Proof.
  destruct it as [z|a b s|l|m| |]; cbn [expand_multi]; try discriminate.
  - intros H. apply forallb_forall. intros z Hz.
    pose proof (slice_indices_in_axis n a b s idx H) as F. rewrite Forall_forall in F.
    apply in_axis_zvalid. exact (F z Hz).
  - destruct (forallb (zvalid n) l) eqn:E; [|discriminate]. intros H. inversion H; subst idx. exact E.
  - (* repair: mask_indices accepts the empty mask on every axis (numpy: a size-0 boolean index selects nothing) *)
    unfold mask_indices. destruct m as [|b0 m0]; [intros H; inversion H; reflexivity|].
    set (m := b0 :: m0). destruct (Nat.eqb_spec (length m) n) as [E|]; [|discriminate].
    intros H. inversion H; subst idx. apply forallb_forall. intros z Hz.
    apply in_axis_zvalid. pose proof (mask_positions_range m 0 z Hz). unfold in_axis. lia.
Qed.

(* repair (tie C08): a boolean index is accepted iff it has the length of the axis OR is empty (numpy accepts a
   size-0 boolean index on an axis of any length and selects nothing); otherwise IndexError *)
Lemma mask_indices_ok_iff n m idx :
  mask_indices n m = GOk idx <-> (length m = n \/ m = []) /\ idx = mask_positions 0 m.
Proof.
  unfold mask_indices. destruct m as [|b m'].
  - split; [intros H; inversion H; split; [right|]; reflexivity | intros [_ ->]; reflexivity].
  - destruct (Nat.eqb_spec (length (b :: m')) n) as [E|E].
    + split; [intros H; inversion H; split; [left; exact E | reflexivity] | intros [_ ->]; reflexivity].
    + split; [discriminate | intros [[H|H] _]; [contradiction | discriminate]].
Qed.

Lemma mask_indices_raises_iff n m e :
  mask_indices n m = GRaise e <-> e = EIndex /\ length m <> n /\ m <> [].
Proof.
  unfold mask_indices. destruct m as [|b m'].
  - split; [discriminate | intros (_ & _ & H); contradiction].
  - destruct (Nat.eqb_spec (length (b :: m')) n) as [E|E].
    + split; [discriminate | intros (_ & H & _); contradiction].
    + split; [intros H; inversion H; repeat split; [exact E | discriminate] | intros (-> & _); reflexivity].
Qed.

Lemma mask_indices_empty n : mask_indices n [] = GOk [].
Proof. reflexivity. Qed.

Lemma all_points_valid n : forallb (zvalid n) (all_points n) = true.
Proof.
  apply forallb_forall. intros z Hz. unfold all_points in Hz. apply in_map_iff in Hz as (k & E & Hk).
  apply in_seq in Hk. subst z. apply in_axis_zvalid. unfold in_axis. lia.
Qed.

(* a selector that passes designates grid points of the axis only *)
Lemma expand_sel_valid n sel G drop : expand_sel n sel = GOk (G, drop) -> forallb (zvalid n) G = true.
Proof.
  unfold expand_sel. destruct (1 <? count_dots sel); [discriminate|].
  destruct (consumers sel) as [|it [|it2 rest]]; [| |destruct it; discriminate].
  - intros H. inversion H. apply all_points_valid.
  - destruct it as [z|a b s|l|m| |];
      try (destruct (expand_multi n _) as [idx|e] eqn:E; cbn [rbind]; [|discriminate];
           intros H; inversion H; subst G; exact (expand_multi_valid _ _ _ E)).
    destruct (zvalid n z) eqn:E; [|discriminate]. intros H. inversion H. cbn. rewrite E. reflexivity.
Qed.

(* the first axis is dropped exactly for an integer index *)
Lemma expand_sel_drop n sel G : expand_sel n sel = GOk (G, true) -> exists z, G = [z] /\ consumers sel = [GInt z].
Proof.
  unfold expand_sel. destruct (1 <? count_dots sel); [discriminate|].
  destruct (consumers sel) as [|it [|it2 rest]]; [discriminate| |destruct it; discriminate].
  destruct it as [z|a b s|l|m| |];
    try (destruct (expand_multi n _) as [idx|e]; cbn [rbind]; discriminate).
  destruct (zvalid n z); [|discriminate]. intros H. inversion H. exists z. split; reflexivity.
Qed.

(* the guard of the function class lets every grid selector through *)
Lemma guard_grid n sel : has_none sel = false ->
  guard_ndim n sel = rbind (expand_sel n sel) (fun gd => GOk (if snd gd then 0 else 1)).
Proof.
  intros Hn. unfold guard_ndim, expand_sel. rewrite (count_none_zero sel Hn).
  destruct (1 <? count_dots sel); [reflexivity|].
  destruct (consumers sel) as [|it [|it2 rest]]; [reflexivity| |destruct it; reflexivity].
  destruct it as [z|a b s|l|m| |]; cbn [rbind expand_multi snd]; try reflexivity.
  - destruct (zvalid n z); reflexivity.
  - destruct (slice_indices n a b s); reflexivity.
  - destruct (forallb (zvalid n) l); reflexivity.
  - destruct (mask_indices n m); reflexivity.
Qed.

Lemma grid_selector_inv sel : grid_selector sel = true ->
  has_none sel = false /\ (consumers sel = [] \/ exists it, consumers sel = [it] /\ dots_before sel = false).
Proof.
  unfold grid_selector. intros H. apply andb_true_iff in H as [H H3]. apply andb_true_iff in H as [H1 H2].
  apply negb_true_iff in H1. split; [exact H1|].
  destruct (consumers sel) as [|it [|it2 rest]]; [left; reflexivity| |cbn in H2; discriminate].
  right. exists it. split; [reflexivity|]. cbn in H3. rewrite andb_true_r in H3. apply negb_true_iff in H3. exact H3.
Qed.

(* A[sel] for a grid selector = the rows of the designated grid points (one row, first axis
   dropped, for an integer) *)
Lemma index2_grid {V} ng ne (A : list (list V)) sel :
  grid_selector sel = true -> length A = ng ->
  index2 ng ne A sel
  = rbind (expand_sel ng sel) (fun gd => of_option EIndex (omap (shape_result (snd gd)) (take A (fst gd)))).
Proof.
  intros Hg HA. destruct (grid_selector_inv sel Hg) as [_ [Hc|(it & Hc & Hd)]];
    unfold index2, expand_sel; destruct (1 <? count_dots sel); try reflexivity; rewrite Hc.
  - cbn [rbind fst snd]. rewrite <- HA, take_all_points. reflexivity.
  - rewrite Hd. destruct it as [z|a b s|l|m| |]; cbn [rbind]; try (rewrite rbind_assoc; reflexivity).
    unfold zvalid. rewrite <- HA. cbn [fst snd]. unfold take. cbn [mapM]. unfold lookup.
    destruct (norm_index (length A) z) as [k|] eqn:E; cbn [bind]; [|reflexivity].
    cbn [rbind fst snd mapM]. rewrite E. cbn [bind].
    destruct (nth_error A k) as [row|]; reflexivity.
Qed.

Lemma arr_take_shape {V} drop (R : list (list V)) idx :
  (drop = true -> length R = 1) ->
  arr_take (shape_result drop R) idx = omap (shape_result drop) (mapM (fun r => take r idx) R).
Proof.
  intros H. destruct drop; cbn [shape_result arr_take]; [|reflexivity].
  specialize (H eq_refl). destruct R as [|r [|r2 R]]; try discriminate. cbn [hd mapM].
  destruct (take r idx); reflexivity.
Qed.

Lemma take_length {V} (A : list V) G R : take A G = Some R -> length R = length G.
Proof. apply mapM_length. Qed.

(* np.take(A[sel], idx, axis=-1) for a grid selector = take2 on the designated grid points *)
Lemma gather_grid {T} (N : Num T) {V} ng ne (A : list (list V)) sel dt idx :
  grid_selector sel = true -> length A = ng -> idx_ok_fn dt = true ->
  gather ng ne A sel dt idx
  = rbind (expand_sel ng sel) (fun gd => of_option EIndex (omap (shape_result (snd gd)) (take2 A (fst gd) idx))).
Proof.
  intros Hg HA Hdt. unfold gather. rewrite (index2_grid ng ne A sel Hg HA), Hdt, rbind_assoc.
  destruct (expand_sel ng sel) as [[G drop]|e] eqn:E; cbn [rbind fst snd]; [|reflexivity].
  unfold take2. destruct (take A G) as [R|] eqn:ER; cbn [omap of_option rbind bind]; [|reflexivity].
  rewrite arr_take_shape; [reflexivity|].
  intros Hd. subst drop. destruct (expand_sel_drop ng sel G E) as (z & EG & _).
  rewrite (take_length A G R ER), EG. reflexivity.
Qed.

(* shapes of the gathered rows *)
Definition rows_len {V} (n : nat) (X : list (list V)) : Prop := Forall (fun r => length r = n) X.

Lemma take2_rows_len {V} (A : list (list V)) G idx X : take2 A G idx = Some X -> rows_len (length idx) X.
Proof.
  unfold take2. destruct (take A G) as [R|]; cbn [bind]; [|discriminate]. intros H.
  apply Forall_forall. intros r Hr. apply In_nth_error in Hr as (k & Hk).
  destruct (mapM_nth_error_inv _ _ _ _ _ H Hk) as (r0 & _ & Hr0). exact (take_length _ _ _ Hr0).
Qed.

Lemma rows_len_map {V W} (f : V -> W) n X : rows_len n X -> rows_len n (map (map f) X).
Proof.
  unfold rows_len. rewrite !Forall_forall. intros H r Hr. apply in_map_iff in Hr as (r0 & E & Hr0).
  subst r. rewrite map_length. exact (H r0 Hr0).
Qed.

Lemma arr_map_shape {V W} (f : V -> W) drop X : arr_map f (shape_result drop X) = shape_result drop (map (map f) X).
Proof. destruct drop; cbn [shape_result arr_map]; [|reflexivity]. destruct X; reflexivity. Qed.

Lemma bzip_same {A B C} (f : A -> B -> C) r1 r2 : length r1 = length r2 -> bzip f r1 r2 = map2 f r1 r2.
Proof. intros H. unfold bzip. rewrite H, Nat.eqb_refl. reflexivity. Qed.

Lemma arr_zip_shape {A B C} (f : A -> B -> C) drop n X Y :
  rows_len n X -> rows_len n Y ->
  arr_zip f (shape_result drop X) (shape_result drop Y) = shape_result drop (map2 (map2 f) X Y)
  /\ rows_len n (map2 (map2 f) X Y).
Proof.
  intros HX HY. split.
  - destruct drop; cbn [shape_result arr_zip].
    + destruct X as [|x X], Y as [|y Y]; cbn [hd map2]; try reflexivity.
      * unfold bzip. cbn [length]. destruct y as [|y0 [|y1 y]]; reflexivity.
      * unfold bzip. cbn [length]. destruct x as [|x0 [|x1 x]]; reflexivity.
      * inversion HX; inversion HY; subst. rewrite bzip_same by congruence. reflexivity.
    + f_equal. revert Y HY. induction HX as [|x X Hx HX IH]; intros Y HY; [reflexivity|].
      destruct Y as [|y Y]; [reflexivity|]. inversion HY; subst. cbn [map2].
      rewrite bzip_same by congruence. f_equal. apply IH. assumption.
  - revert Y HY. induction HX as [|x X Hx HX IH]; intros Y HY; [constructor|].
    destruct Y as [|y Y]; [constructor|]. apply Forall_cons_iff in HY as [Hy HY]. cbn [map2]. constructor.
    + rewrite map2_length. lia.
    + apply IH. assumption.
Qed.

Section SelectorClasses.
  Context {T : Type} (N : Num T).
  Local Notation K := (T * T)%type.

  Variables (tx rx : list Z) (ne ng : nat) (Qtx Qrx : list (list K)) (Ttx Trx : list (list T)) (a : T)
            (o : amplitudes (T := T)).
  Hypothesis Hlen : length tx = length rx.
  Hypothesis Hf : factory tx rx ne ng Qtx Qrx Ttx Trx a = Some o.

  Lemma transpose_length {V} c (M Mt : list (list V)) : transpose c M = Some Mt -> length Mt = c.
  Proof. intros H. exact (proj1 (mapM_seq_nth _ _ _ H)). Qed.

  Lemma factory_lengths :
    ma_tx o = tx /\ ma_rx o = rx /\ ma_numpoints o = ng /\ ma_numelements o = ne /\
    length (ma_qtx o) = ng /\ length (ma_qrx o) = ng /\ length (ma_ttx o) = ng /\ length (ma_trx o) = ng.
  Proof.
    destruct (factory_inv _ _ _ _ _ _ _ _ _ _ Hf) as (_ & _ & _ & _ & T1 & T2 & T3 & T4 & Etx & Erx & _ & Enp & Ene).
    repeat split; try assumption; eapply transpose_length; eassumption.
  Qed.

  (* the function class on a grid selector: the guard lets it through and the answer is the
     class on the designated grid points *)
  Theorem getitem_fn_sel_grid (S : T -> T -> K) dtx drx sel :
    grid_selector sel = true -> idx_ok_fn dtx = true -> idx_ok_fn drx = true ->
    getitem_fn_sel N S o dtx drx sel
    = rbind (expand_sel ng sel) (fun gd =>
        of_option EIndex (omap (shape_result (snd gd)) (getitem_fn N S o (fst gd)))).
  Proof.
    intros Hg Hdt Hdr.
    destruct factory_lengths as (Etx & Erx & Enp & Ene & L1 & L2 & L3 & L4).
    destruct (grid_selector_inv sel Hg) as [Hn _].
    unfold getitem_fn_sel. rewrite Enp, Ene, (guard_grid ng sel Hn), rbind_assoc.
    rewrite (gather_grid N ng ne _ sel dtx _ Hg L3 Hdt), (gather_grid N ng ne _ sel drx _ Hg L4 Hdr),
            (gather_grid N ng ne _ sel dtx _ Hg L1 Hdt), (gather_grid N ng ne _ sel drx _ Hg L2 Hdr).
    destruct (expand_sel ng sel) as [[G drop]|e] eqn:E; cbn [rbind fst snd]; [|reflexivity].
    replace (1 <? (if drop then 0 else 1)) with false by (destruct drop; reflexivity).
    rewrite Hn. unfold getitem_fn. rewrite Etx, Erx, Hlen, Nat.eqb_refl.
    unfold broadcastable. rewrite Nat.eqb_refl. cbn [orb negb].
    destruct (take2 (ma_ttx o) G tx) as [X1|] eqn:E1; cbn [omap of_option rbind lift2]; [|reflexivity].
    destruct (take2 (ma_trx o) G rx) as [X2|] eqn:E2; cbn [omap of_option rbind lift2]; [|reflexivity].
    destruct (take2 (ma_qtx o) G tx) as [X3|] eqn:E3; cbn [omap of_option rbind lift2]; [|reflexivity].
    destruct (take2 (ma_qrx o) G rx) as [X4|] eqn:E4; cbn [omap of_option rbind lift2]; [|reflexivity].
    pose proof (take2_rows_len _ _ _ _ E1) as R1. pose proof (take2_rows_len _ _ _ _ E2) as R2.
    pose proof (take2_rows_len _ _ _ _ E3) as R3. pose proof (take2_rows_len _ _ _ _ E4) as R4.
    rewrite <- Hlen in R2, R4. set (n := length tx) in *.
    unfold sub_angle. rewrite !arr_map_shape.
    set (f := fun x : T => nsub N x (ma_angle o)).
    pose proof (rows_len_map f n X1 R1) as R1'. pose proof (rows_len_map f n X2 R2) as R2'.
    destruct (arr_zip_shape S drop n _ _ R1' R2') as [Z1 RS]. rewrite Z1.
    destruct (arr_zip_shape (nmul (NumC N)) drop n _ _ RS R3) as [Z2 RS2]. rewrite Z2.
    destruct (arr_zip_shape (nmul (NumC N)) drop n _ _ RS2 R4) as [Z3 _]. rewrite Z3.
    reflexivity.
  Qed.

  Lemma singleton_of_length {V} (R : list V) : length R = 1 -> exists r, R = [r].
  Proof. destruct R as [|r [|r2 R]]; try discriminate. intros _. exists r. reflexivity. Qed.

  (* the matrix class on a grid selector: no guard; the four indexings, then the gufunc over the
     selected rows.  The only failure left after the selector itself passed is an element index
     outside the array (numba reads out of bounds: the model declines) *)
  Theorem getitem_mat_sel_grid (P : T) (M : list (list K)) dtx drx sel :
    grid_selector sel = true -> idx_ok_mat dtx = true -> idx_ok_mat drx = true -> mat_ok M = true ->
    getitem_mat_sel N P M o dtx drx sel
    = rbind (expand_sel ng sel) (fun gd =>
        of_option EUnmodelled (omap (shape_result (snd gd)) (getitem_mat N P M o (fst gd)))).
  Proof.
    intros Hg Hdt Hdr Hm.
    destruct factory_lengths as (Etx & Erx & Enp & Ene & L1 & L2 & L3 & L4).
    destruct (grid_selector_inv sel Hg) as [Hn _].
    unfold getitem_mat_sel. rewrite Enp, Ene, Hn.
    rewrite (index2_grid ng ne _ sel Hg L1), (index2_grid ng ne _ sel Hg L2),
            (index2_grid ng ne _ sel Hg L3), (index2_grid ng ne _ sel Hg L4).
    destruct (expand_sel ng sel) as [[G drop]|e] eqn:E; cbn [rbind fst snd]; [|reflexivity].
    pose proof (expand_sel_valid ng sel G drop E) as HG.
    destruct (take_valid_some (ma_qtx o) G) as (R1 & E1); [rewrite L1; exact HG|].
    destruct (take_valid_some (ma_qrx o) G) as (R2 & E2); [rewrite L2; exact HG|].
    destruct (take_valid_some (ma_ttx o) G) as (R3 & E3); [rewrite L3; exact HG|].
    destruct (take_valid_some (ma_trx o) G) as (R4 & E4); [rewrite L4; exact HG|].
    unfold getitem_mat. rewrite E1, E2, E3, E4, Hm, Hdt, Hdr, Etx, Erx, Hlen, Nat.eqb_refl.
    cbn [omap of_option rbind andb negb].
    unfold mat_ok in Hm. apply andb_true_iff in Hm as [Hm0 Hms]. rewrite Hms. apply negb_true_iff in Hm0. rewrite Hm0.
    cbn [negb]. destruct drop; cbn [shape_result gufunc]; [|reflexivity].
    destruct (expand_sel_drop ng sel G E) as (z & EG & _).
    destruct (singleton_of_length R1) as (r1 & ->); [rewrite (take_length _ _ _ E1), EG; reflexivity|].
    destruct (singleton_of_length R2) as (r2 & ->); [rewrite (take_length _ _ _ E2), EG; reflexivity|].
    destruct (singleton_of_length R3) as (r3 & ->); [rewrite (take_length _ _ _ E3), EG; reflexivity|].
    destruct (singleton_of_length R4) as (r4 & ->); [rewrite (take_length _ _ _ E4), EG; reflexivity|].
    cbn [hd zip4 mapM fst snd].
    destruct (kernel_point N (interp_c N P M) tx rx (ma_angle o) r1 r2 r3 r4); reflexivity.
  Qed.

  (* ---- both classes against the index-level definition, error kinds included --------------------- *)
  (* what the docstring promises for an index of the first dimension: the rows
     P[g][k] = S(Ttx[tx_k][g] - a, Trx[rx_k][g] - a) Qtx[tx_k][g] Qrx[rx_k][g] of the designated
     grid points g (one row, first axis dropped, for an integer) *)
  Definition spec_sel (S : T -> T -> K) (bad_element : gerr) (sel : selector) : gres (arr K) :=
    rbind (expand_sel ng sel) (fun gd =>
      of_option bad_element
        (omap (shape_result (snd gd)) (spec_amp N S a ne ng Qtx Qrx Ttx Trx tx rx (fst gd)))).

  Theorem getitem_fn_sel_is_spec (S : T -> T -> K) dtx drx sel :
    grid_selector sel = true -> idx_ok_fn dtx = true -> idx_ok_fn drx = true ->
    getitem_fn_sel N S o dtx drx sel = spec_sel S EIndex sel.
  Proof.
    intros Hg Hdt Hdr. rewrite (getitem_fn_sel_grid S dtx drx sel Hg Hdt Hdr). unfold spec_sel.
    destruct (expand_sel ng sel) as [[G drop]|e]; cbn [rbind fst snd]; [|reflexivity].
    rewrite (getitem_fn_is_spec N S tx rx ne ng Qtx Qrx Ttx Trx a o G Hlen Hf). reflexivity.
  Qed.

  Theorem getitem_mat_sel_is_spec (P : T) (M : list (list K)) dtx drx sel :
    grid_selector sel = true -> idx_ok_mat dtx = true -> idx_ok_mat drx = true -> mat_ok M = true ->
    getitem_mat_sel N P M o dtx drx sel = spec_sel (interp_c N P M) EUnmodelled sel.
  Proof.
    intros Hg Hdt Hdr Hm. rewrite (getitem_mat_sel_grid P M dtx drx sel Hg Hdt Hdr Hm). unfold spec_sel.
    destruct (expand_sel ng sel) as [[G drop]|e]; cbn [rbind fst snd]; [|reflexivity].
    rewrite (getitem_mat_is_spec N P M tx rx ne ng Qtx Qrx Ttx Trx a o G Hm Hlen Hf). reflexivity.
  Qed.

  (* with element indices inside the probe the definition has a value on every designated grid
     point: both classes return it, and they return the same when the function is the bilinear
     interpolant of the matrix *)
  Lemma spec_amp_on_valid (S : T -> T -> K) G :
    forallb (zvalid ng) G = true -> Forall (valid_index ne) tx -> Forall (valid_index ne) rx ->
    exists Pm, spec_amp N S a ne ng Qtx Qrx Ttx Trx tx rx G = Some Pm.
  Proof.
    intros HG Htx Hrx.
    destruct (factory_inv _ _ _ _ _ _ _ _ _ _ Hf) as (S1 & S2 & S3 & S4 & _).
    apply (spec_amp_total N S a ne ng Qtx Qrx Ttx Trx tx rx G S1 S2 S3 S4); try assumption.
    apply Forall_forall. intros z Hz. rewrite forallb_forall in HG. apply zvalid_spec. exact (HG z Hz).
  Qed.

  Theorem classes_agree_on_selectors (P : T) (M : list (list K)) dtx drx sel :
    grid_selector sel = true -> idx_ok_mat dtx = true -> idx_ok_mat drx = true -> mat_ok M = true ->
    Forall (valid_index ne) tx -> Forall (valid_index ne) rx ->
    getitem_mat_sel N P M o dtx drx sel = getitem_fn_sel N (interp_c N P M) o dtx drx sel.
  Proof.
    intros Hg Hdt Hdr Hm Htx Hrx.
    assert (Hdt' : idx_ok_fn dtx = true) by (destruct dtx; try reflexivity; discriminate).
    assert (Hdr' : idx_ok_fn drx = true) by (destruct drx; try reflexivity; discriminate).
    rewrite (getitem_mat_sel_is_spec P M dtx drx sel Hg Hdt Hdr Hm),
            (getitem_fn_sel_is_spec (interp_c N P M) dtx drx sel Hg Hdt' Hdr').
    unfold spec_sel. destruct (expand_sel ng sel) as [[G drop]|e] eqn:E; cbn [rbind fst snd]; [|reflexivity].
    destruct (spec_amp_on_valid (interp_c N P M) G (expand_sel_valid ng sel G drop E) Htx Hrx) as (Pm & EP).
    rewrite EP. reflexivity.
  Qed.
End SelectorClasses.

(* ---------- the object indexed = the array it stands for, indexed ------------------------------------ *)
Lemma pointwise_take {V} (r : nat -> option V) ng F :
  mapM (fun z => bind (norm_index ng z) r) (all_points ng) = Some F ->
  length F = ng /\ forall G, mapM (fun z => bind (norm_index ng z) r) G = take F G.
Proof.
  intros H.
  assert (L : length F = ng) by (rewrite (mapM_length _ _ _ H); apply all_points_length).
  split; [exact L|]. intros G. unfold take. apply mapM_ext. intros z _. unfold lookup. rewrite L.
  destruct (norm_index ng z) as [g|] eqn:E; cbn [bind]; [|reflexivity].
  pose proof (norm_index_lt _ _ _ E) as Hg.
  destruct (mapM_nth_error _ _ _ _ _ H (nth_error_all_points ng g Hg)) as (y & Hy & Hn).
  rewrite (norm_index_nat ng g Hg) in Hy. cbn [bind] in Hy. rewrite Hy, Hn. reflexivity.
Qed.

Section SubArray.
  Context {T : Type} (N : Num T).
  Local Notation K := (T * T)%type.

  Variables (tx rx : list Z) (ne ng : nat) (Qtx Qrx : list (list K)) (Ttx Trx : list (list T)) (a : T)
            (o : amplitudes (T := T)).
  Hypothesis Hlen : length tx = length rx.
  Hypothesis Hf : factory tx rx ne ng Qtx Qrx Ttx Trx a = Some o.

  Lemma spec_sel_subarray (S : T -> T -> K) e F nt sel :
    spec_amp N S a ne ng Qtx Qrx Ttx Trx tx rx (all_points ng) = Some F ->
    grid_selector sel = true ->
    spec_sel N tx rx ne ng Qtx Qrx Ttx Trx a S e sel = index2 ng nt F sel.
  Proof.
    intros HF Hg. unfold spec_amp in HF.
    destruct (pointwise_take _ ng F HF) as [L Hall].
    rewrite (index2_grid ng nt F sel Hg L). unfold spec_sel.
    destruct (expand_sel ng sel) as [[G drop]|e'] eqn:E; cbn [rbind fst snd]; [|reflexivity].
    unfold spec_amp. rewrite (Hall G).
    destruct (take_valid_some F G) as (R & ER); [rewrite L; exact (expand_sel_valid ng sel G drop E)|].
    rewrite ER. reflexivity.
  Qed.

  (* model_amplitudes[sel] = (model_amplitudes[...])[sel] for every index of the first dimension,
     whenever model_amplitudes[...] has a value: the pseudo-array behaves as the array *)
  Theorem getitem_fn_sel_subarray (S : T -> T -> K) dtx drx F sel :
    getitem_fn N S o (all_points ng) = Some F ->
    grid_selector sel = true -> idx_ok_fn dtx = true -> idx_ok_fn drx = true ->
    getitem_fn_sel N S o dtx drx sel = index2 ng (length tx) F sel.
  Proof.
    intros HF Hg Hdt Hdr.
    rewrite (getitem_fn_is_spec N S tx rx ne ng Qtx Qrx Ttx Trx a o _ Hlen Hf) in HF.
    rewrite (getitem_fn_sel_is_spec N tx rx ne ng Qtx Qrx Ttx Trx a o Hlen Hf S dtx drx sel Hg Hdt Hdr).
    exact (spec_sel_subarray S EIndex F (length tx) sel HF Hg).
  Qed.

  Theorem getitem_mat_sel_subarray (P : T) (M : list (list K)) dtx drx F sel :
    getitem_mat N P M o (all_points ng) = Some F -> mat_ok M = true ->
    grid_selector sel = true -> idx_ok_mat dtx = true -> idx_ok_mat drx = true ->
    getitem_mat_sel N P M o dtx drx sel = index2 ng (length tx) F sel.
  Proof.
    intros HF Hm Hg Hdt Hdr.
    rewrite (getitem_mat_is_spec N P M tx rx ne ng Qtx Qrx Ttx Trx a o _ Hm Hlen Hf) in HF.
    rewrite (getitem_mat_sel_is_spec N tx rx ne ng Qtx Qrx Ttx Trx a o Hlen Hf P M dtx drx sel Hg Hdt Hdr Hm).
    exact (spec_sel_subarray (interp_c N P M) EUnmodelled F (length tx) sel HF Hg).
  Qed.
End SubArray.

(* ---------- what the function class rejects (any object, any arrays) ---------------------------------- *)
Lemma has_none_count sel : has_none sel = true -> 1 <= count_none sel.
Proof.
  unfold has_none, count_none. induction sel as [|it sel IH]; [discriminate|].
  cbn [existsb filter]. destruct (is_none it); cbn [length orb]; [lia|]. exact IH.
Qed.

Lemma consumers_consume sel it : In it (consumers sel) -> consumes it = true.
Proof. unfold consumers. intros H. apply filter_In in H. exact (proj2 H). Qed.

Section Rejections.
  Context {T : Type} (N : Num T).
  Local Notation K := (T * T)%type.
  Variables (S : T -> T -> K) (o : amplitudes (T := T)) (dtx drx : idx_dtype).

  (* two or more indices (model_amplitudes[3, 7], [:, 0], [[0, 1], [1, 0]] ...): IndexError, raised by
     numpy while the guard expression is evaluated *)
  Theorem fn_two_indices_rejected sel :
    2 <= length (consumers sel) -> getitem_fn_sel N S o dtx drx sel = GRaise EIndex.
  Proof.
    intros H. unfold getitem_fn_sel, guard_ndim.
    destruct (1 <? count_dots sel); [reflexivity|].
    destruct (consumers sel) as [|it [|it2 rest]]; cbn [length] in H; try lia.
    destruct it; reflexivity.
  Qed.

  (* np.newaxis anywhere, without an integer index: always an exception (the explicit IndexError of the
     guard, or what numpy raises for the other item) *)
  Theorem fn_newaxis_rejected sel :
    has_none sel = true -> (forall z, consumers sel <> [GInt z]) ->
    exists e, e <> EUnmodelled /\ getitem_fn_sel N S o dtx drx sel = GRaise e.
  Proof.
    intros Hn Hint. pose proof (has_none_count sel Hn) as Hc.
    unfold getitem_fn_sel, guard_ndim.
    destruct (1 <? count_dots sel); [exists EIndex; split; [discriminate | reflexivity]|].
    destruct (consumers sel) as [|it [|it2 rest]] eqn:Ec.
    - cbn [rbind]. replace (1 <? 1 + count_none sel) with true by (symmetry; apply Nat.ltb_lt; lia).
      exists EIndex. split; [discriminate | reflexivity].
    - assert (Hit : consumes it = true) by (apply (consumers_consume sel); rewrite Ec; left; reflexivity).
      destruct it as [z|sa sb ss|l|m| |]; try discriminate.
      + exfalso. exact (Hint z eq_refl).
      + cbn [expand_multi]. unfold slice_indices.
        destruct (match ss with None => 1%Z | Some s => s end =? 0)%Z.
        * exists EValue. split; [discriminate | reflexivity].
        * cbn [rbind]. replace (1 <? 1 + count_none sel) with true by (symmetry; apply Nat.ltb_lt; lia).
          exists EIndex. split; [discriminate | reflexivity].
      + cbn [expand_multi]. destruct (forallb (zvalid (ma_numpoints o)) l); cbn [rbind].
        * replace (1 <? 1 + count_none sel) with true by (symmetry; apply Nat.ltb_lt; lia).
          exists EIndex. split; [discriminate | reflexivity].
        * exists EIndex. split; [discriminate | reflexivity].
      + cbn [expand_multi]. unfold mask_indices.
        destruct m as [|b0 m0]; [|destruct (length (b0 :: m0) =? ma_numpoints o)]; cbn [rbind].
        * (* the empty mask (accepted on every axis) with a None: the guard's IndexError *)
          replace (1 <? 1 + count_none sel) with true by (symmetry; apply Nat.ltb_lt; lia).
          exists EIndex. split; [discriminate | reflexivity].
        * replace (1 <? 1 + count_none sel) with true by (symmetry; apply Nat.ltb_lt; lia).
          exists EIndex. split; [discriminate | reflexivity].
        * exists EIndex. split; [discriminate | reflexivity].
    - exists EIndex. split; [discriminate|]. destruct it; reflexivity.
  Qed.

  (* two Ellipsis: IndexError in both classes *)
  Theorem two_ellipsis_rejected (P : T) (M : list (list K)) sel :
    2 <= count_dots sel -> has_none sel = false ->
    getitem_fn_sel N S o dtx drx sel = GRaise EIndex /\ getitem_mat_sel N P M o dtx drx sel = GRaise EIndex.
  Proof.
    intros H Hn. assert (E : (1 <? count_dots sel) = true) by (apply Nat.ltb_lt; lia). split.
    - unfold getitem_fn_sel, guard_ndim. rewrite E. reflexivity.
    - unfold getitem_mat_sel, index2. rewrite Hn, E. reflexivity.
  Qed.
End Rejections.

(* ---------- the dtype of the index arrays ---------------------------------------------------------------- *)
Section IndexDtype.
  Context {T : Type} (N : Num T).
  Local Notation K := (T * T)%type.

  Variables (tx rx : list Z) (ne ng : nat) (Qtx Qrx : list (list K)) (Ttx Trx : list (list T)) (a : T)
            (o : amplitudes (T := T)).
  Hypothesis Hf : factory tx rx ne ng Qtx Qrx Ttx Trx a = Some o.

  Lemma factory_lengths' :
    ma_tx o = tx /\ ma_rx o = rx /\ ma_numpoints o = ng /\ ma_numelements o = ne /\
    length (ma_qtx o) = ng /\ length (ma_qrx o) = ng /\ length (ma_ttx o) = ng /\ length (ma_trx o) = ng.
  Proof.
    destruct (factory_inv _ _ _ _ _ _ _ _ _ _ Hf) as (_ & _ & _ & _ & T1 & T2 & T3 & T4 & Etx & Erx & _ & Enp & Ene).
    repeat split; try assumption; eapply transpose_length; eassumption.
  Qed.

  (* a float tx array: TypeError from np.take, once the selector itself has passed *)
  Theorem fn_float_tx_typeerror (S : T -> T -> K) drx sel gd :
    grid_selector sel = true -> expand_sel ng sel = GOk gd ->
    getitem_fn_sel N S o DtFloat drx sel = GRaise EType.
  Proof.
    intros Hg E. destruct gd as [G drop].
    destruct factory_lengths' as (Etx & Erx & Enp & Ene & L1 & L2 & L3 & L4).
    destruct (grid_selector_inv sel Hg) as [Hn _].
    unfold getitem_fn_sel. rewrite Enp, Ene, (guard_grid ng sel Hn), E. cbn [rbind snd].
    replace (1 <? (if drop then 0 else 1)) with false by (destruct drop; reflexivity). rewrite Hn.
    unfold gather at 1. rewrite (index2_grid ng ne _ sel Hg L3), E. cbn [rbind fst snd].
    destruct (take_valid_some (ma_ttx o) G) as (R & ER); [rewrite L3; exact (expand_sel_valid ng sel G drop E)|].
    rewrite ER. reflexivity.
  Qed.

  (* the gufunc of the matrix class accepts neither float nor uint64 index arrays *)
  Theorem mat_bad_dtype_typeerror (P : T) (M : list (list K)) dtx drx sel gd :
    grid_selector sel = true -> expand_sel ng sel = GOk gd ->
    idx_ok_mat dtx && idx_ok_mat drx = false ->
    getitem_mat_sel N P M o dtx drx sel = GRaise EType.
  Proof.
    intros Hg E Hd. destruct gd as [G drop].
    destruct factory_lengths' as (Etx & Erx & Enp & Ene & L1 & L2 & L3 & L4).
    destruct (grid_selector_inv sel Hg) as [Hn _].
    pose proof (expand_sel_valid ng sel G drop E) as HG.
    unfold getitem_mat_sel. rewrite Enp, Ene, Hn.
    rewrite (index2_grid ng ne _ sel Hg L1), (index2_grid ng ne _ sel Hg L2),
            (index2_grid ng ne _ sel Hg L3), (index2_grid ng ne _ sel Hg L4), E. cbn [rbind fst snd].
    destruct (take_valid_some (ma_qtx o) G) as (R1 & E1); [rewrite L1; exact HG|].
    destruct (take_valid_some (ma_qrx o) G) as (R2 & E2); [rewrite L2; exact HG|].
    destruct (take_valid_some (ma_ttx o) G) as (R3 & E3); [rewrite L3; exact HG|].
    destruct (take_valid_some (ma_trx o) G) as (R4 & E4); [rewrite L4; exact HG|].
    rewrite E1, E2, E3, E4, Hd. reflexivity.
  Qed.

  (* tx and rx of different lengths: the gufunc signature (n),(n) rejects them (ValueError) *)
  Theorem mat_length_mismatch_valueerror (P : T) (M : list (list K)) dtx drx sel gd :
    grid_selector sel = true -> expand_sel ng sel = GOk gd ->
    idx_ok_mat dtx = true -> idx_ok_mat drx = true -> length tx <> length rx ->
    getitem_mat_sel N P M o dtx drx sel = GRaise EValue.
  Proof.
    intros Hg E Hdt Hdr Hl. destruct gd as [G drop].
    destruct factory_lengths' as (Etx & Erx & Enp & Ene & L1 & L2 & L3 & L4).
    destruct (grid_selector_inv sel Hg) as [Hn _].
    pose proof (expand_sel_valid ng sel G drop E) as HG.
    unfold getitem_mat_sel. rewrite Enp, Ene, Hn.
    rewrite (index2_grid ng ne _ sel Hg L1), (index2_grid ng ne _ sel Hg L2),
            (index2_grid ng ne _ sel Hg L3), (index2_grid ng ne _ sel Hg L4), E. cbn [rbind fst snd].
    destruct (take_valid_some (ma_qtx o) G) as (R1 & E1); [rewrite L1; exact HG|].
    destruct (take_valid_some (ma_qrx o) G) as (R2 & E2); [rewrite L2; exact HG|].
    destruct (take_valid_some (ma_ttx o) G) as (R3 & E3); [rewrite L3; exact HG|].
    destruct (take_valid_some (ma_trx o) G) as (R4 & E4); [rewrite L4; exact HG|].
    rewrite E1, E2, E3, E4, Hdt, Hdr, Etx, Erx. cbn [omap of_option rbind andb negb].
    destruct (Nat.eqb_spec (length tx) (length rx)); [contradiction | reflexivity].
  Qed.
End IndexDtype.

(* ---------- model_amplitudes_factory -------------------------------------------------------------------- *)
Lemma shape_eqb_eq s1 s2 : shape_eqb s1 s2 = true <-> s1 = s2.
Proof.
  unfold shape_eqb. destruct s1 as [a b], s2 as [c d]. cbn [fst snd].
  rewrite andb_true_iff, !Nat.eqb_eq. split; [intros [-> ->]; reflexivity | intros E; inversion E; split; reflexivity].
Qed.

Section FactoryTheorems.
  Context {T : Type} (N : Num T).
  Local Notation K := (T * T)%type.

  Variables (tx rx : idx_array) (v : view) (rw : ray_weights_nt (T := T))
            (scat : list (skey * scattering (T := T))) (a : T).

  Definition shapes_agree (Qtx Qrx : list (list K)) (Ttx Trx : list (list T)) : Prop :=
    shape2 Qtx = shape2 Qrx /\ shape2 Qrx = shape2 Ttx /\ shape2 Ttx = shape2 Trx.

  Lemma shapes_agree_dec Qtx Qrx Ttx Trx :
    shape_eqb (shape2 Qtx) (shape2 Qrx) && shape_eqb (shape2 Qrx) (shape2 Ttx) && shape_eqb (shape2 Ttx) (shape2 Trx) = true
    <-> shapes_agree Qtx Qrx Ttx Trx.
  Proof. unfold shapes_agree. rewrite !andb_true_iff, !shape_eqb_eq. tauto. Qed.

  (* a value: every lookup succeeded, the four shapes agree, and the object holds the transposed
     arrays, the caller's index arrays and the scattering object of the view's key *)
  Theorem maf_inv ob :
    model_amplitudes_factory tx rx v rw scat a = GOk ob ->
    exists sobj Qtx Qrx Ttx Trx o,
      sget scat (v_scat v) = Some sobj /\
      dget (rw_txd rw) (v_tx v) = Some Qtx /\ dget (rw_rxd rw) (v_rx v) = Some Qrx /\
      dget (rw_angd rw) (v_tx v) = Some Ttx /\ dget (rw_angd rw) (v_rx v) = Some Trx /\
      shapes_agree Qtx Qrx Ttx Trx /\
      factory (ix_vals tx) (ix_vals rx) (fst (shape2 Qtx)) (snd (shape2 Qtx)) Qtx Qrx Ttx Trx a = Some o /\
      ob = mkObj sobj o (ix_dtype tx) (ix_dtype rx).
  Proof.
    unfold model_amplitudes_factory. intros H.
    destruct (sget scat (v_scat v)) as [sobj|]; [|discriminate].
    destruct (dget (rw_txd rw) (v_tx v)) as [Qtx|]; [|discriminate].
    destruct (dget (rw_rxd rw) (v_rx v)) as [Qrx|]; [|discriminate].
    destruct (dget (rw_angd rw) (v_tx v)) as [Ttx|]; [|discriminate].
    destruct (dget (rw_angd rw) (v_rx v)) as [Trx|]; [|discriminate].
    destruct (shape_eqb (shape2 Qtx) (shape2 Qrx) && shape_eqb (shape2 Qrx) (shape2 Ttx)
              && shape_eqb (shape2 Ttx) (shape2 Trx)) eqn:Es; [|discriminate].
    destruct (factory _ _ _ _ Qtx Qrx Ttx Trx a) as [o|] eqn:Ef; [|discriminate].
    inversion H. exists sobj, Qtx, Qrx, Ttx, Trx, o.
    repeat (split; [reflexivity|]). split; [apply shapes_agree_dec; exact Es|]. split; [exact Ef | reflexivity].
  Qed.

  (* KeyError exactly when one of the five dictionary lookups fails: the scattering key of the view,
     the tx path among the TRANSMIT weights, the rx path among the RECEIVE weights, either path among
     the scattering angles *)
  Theorem maf_keyerror_iff :
    model_amplitudes_factory tx rx v rw scat a = GRaise EKey
    <-> sget scat (v_scat v) = None \/ dget (rw_txd rw) (v_tx v) = None \/ dget (rw_rxd rw) (v_rx v) = None
        \/ dget (rw_angd rw) (v_tx v) = None \/ dget (rw_angd rw) (v_rx v) = None.
  Proof.
    unfold model_amplitudes_factory.
    destruct (sget scat (v_scat v)) as [sobj|]; [|split; [intros _; left; reflexivity | reflexivity]].
    destruct (dget (rw_txd rw) (v_tx v)) as [Qtx|]; [|split; [intros _; right; left; reflexivity | reflexivity]].
    destruct (dget (rw_rxd rw) (v_rx v)) as [Qrx|]; [|split; [intros _; right; right; left; reflexivity | reflexivity]].
    destruct (dget (rw_angd rw) (v_tx v)) as [Ttx|]; [|split; [intros _; right; right; right; left; reflexivity | reflexivity]].
    destruct (dget (rw_angd rw) (v_rx v)) as [Trx|]; [|split; [intros _; right; right; right; right; reflexivity | reflexivity]].
    split.
    - destruct (_ && _ && _); [|discriminate]. destruct (factory _ _ _ _ _ _ _ _ _); discriminate.
    - intros [H|[H|[H|[H|H]]]]; discriminate.
  Qed.

  (* AssertionError exactly when the lookups succeed and the four shapes do not all agree *)
  Theorem maf_assertion_iff :
    model_amplitudes_factory tx rx v rw scat a = GRaise EAssertion
    <-> exists sobj Qtx Qrx Ttx Trx,
          sget scat (v_scat v) = Some sobj /\
          dget (rw_txd rw) (v_tx v) = Some Qtx /\ dget (rw_rxd rw) (v_rx v) = Some Qrx /\
          dget (rw_angd rw) (v_tx v) = Some Ttx /\ dget (rw_angd rw) (v_rx v) = Some Trx /\
          ~ shapes_agree Qtx Qrx Ttx Trx.
  Proof.
    unfold model_amplitudes_factory. split.
    - destruct (sget scat (v_scat v)) as [sobj|]; [|discriminate].
      destruct (dget (rw_txd rw) (v_tx v)) as [Qtx|]; [|discriminate].
      destruct (dget (rw_rxd rw) (v_rx v)) as [Qrx|]; [|discriminate].
      destruct (dget (rw_angd rw) (v_tx v)) as [Ttx|]; [|discriminate].
      destruct (dget (rw_angd rw) (v_rx v)) as [Trx|]; [|discriminate].
      destruct (_ && _ && _) eqn:Es.
      + destruct (factory _ _ _ _ _ _ _ _ _); discriminate.
      + intros _. exists sobj, Qtx, Qrx, Ttx, Trx. repeat (split; [reflexivity|]).
        intros Hs. apply shapes_agree_dec in Hs. rewrite Hs in Es. discriminate.
    - intros (sobj & Qtx & Qrx & Ttx & Trx & -> & -> & -> & -> & -> & Hs).
      destruct (_ && _ && _) eqn:Es; [|reflexivity]. exfalso. apply Hs. apply shapes_agree_dec. exact Es.
  Qed.

  (* ... and a value when they agree (for lists of rows that are arrays) *)
  Theorem maf_defined sobj Qtx Qrx Ttx Trx :
    sget scat (v_scat v) = Some sobj ->
    dget (rw_txd rw) (v_tx v) = Some Qtx -> dget (rw_rxd rw) (v_rx v) = Some Qrx ->
    dget (rw_angd rw) (v_tx v) = Some Ttx -> dget (rw_angd rw) (v_rx v) = Some Trx ->
    is_array Qtx = true -> is_array Qrx = true -> is_array Ttx = true -> is_array Trx = true ->
    shapes_agree Qtx Qrx Ttx Trx ->
    exists o, factory (ix_vals tx) (ix_vals rx) (fst (shape2 Qtx)) (snd (shape2 Qtx)) Qtx Qrx Ttx Trx a = Some o /\
              model_amplitudes_factory tx rx v rw scat a = GOk (mkObj sobj o (ix_dtype tx) (ix_dtype rx)).
  Proof.
    intros E0 E1 E2 E3 E4 A1 A2 A3 A4 Hs. pose proof Hs as (S1 & S2 & S3).
    unfold is_array in A1, A2, A3, A4. rewrite <- S3, <- S2, <- S1 in A4. rewrite <- S2, <- S1 in A3. rewrite <- S1 in A2.
    destruct (factory_some (ix_vals tx) (ix_vals rx) _ _ Qtx Qrx Ttx Trx a A1 A2 A3 A4) as (o & Ef).
    exists o. split; [exact Ef|].
    unfold model_amplitudes_factory. rewrite E0, E1, E2, E3, E4.
    rewrite (proj2 (shapes_agree_dec Qtx Qrx Ttx Trx) Hs), Ef. reflexivity.
  Qed.

  (* .shape = (numpoints, numtimetraces) = (number of columns of the tx weights, tx.shape[0]); rx and the
     kind of scattering play no part; numelements = number of rows *)
  Theorem maf_shape ob Qtx :
    model_amplitudes_factory tx rx v rw scat a = GOk ob -> dget (rw_txd rw) (v_tx v) = Some Qtx ->
    mo_shape ob = (snd (shape2 Qtx), length (ix_vals tx)) /\ ma_numelements (mo_amp ob) = fst (shape2 Qtx) /\
    mo_txdt ob = ix_dtype tx /\ mo_rxdt ob = ix_dtype rx.
  Proof.
    intros H E. destruct (maf_inv ob H) as (sobj & Qtx' & Qrx & Ttx & Trx & o & _ & E1 & _ & _ & _ & _ & Ef & ->).
    rewrite E in E1. inversion E1; subst Qtx'.
    destruct (factory_inv _ _ _ _ _ _ _ _ _ _ Ef) as (_ & _ & _ & _ & _ & _ & _ & _ & Etx & _ & _ & Enp & Ene).
    unfold mo_shape, ma_numtimetraces. cbn [mo_amp mo_txdt mo_rxdt]. rewrite Etx, Enp, Ene. repeat split; reflexivity.
  Qed.

  (* end to end: the object returned by the factory, indexed by any index of the first dimension, IS the
     index-level definition on the arrays found in the dictionaries — for scattering given as functions
     and as matrices (the same definition with the bilinear interpolant) *)
  Theorem maf_getitem_is_spec (P : T) ob sobj Qtx Qrx Ttx Trx sel :
    model_amplitudes_factory tx rx v rw scat a = GOk ob ->
    sget scat (v_scat v) = Some sobj ->
    dget (rw_txd rw) (v_tx v) = Some Qtx -> dget (rw_rxd rw) (v_rx v) = Some Qrx ->
    dget (rw_angd rw) (v_tx v) = Some Ttx -> dget (rw_angd rw) (v_rx v) = Some Trx ->
    length (ix_vals tx) = length (ix_vals rx) ->
    idx_ok_mat (ix_dtype tx) = true -> idx_ok_mat (ix_dtype rx) = true ->
    match sobj with ScatFn _ => True | ScatMat M => mat_ok M = true end ->
    grid_selector sel = true ->
    mo_getitem N P ob sel
    = spec_sel N (ix_vals tx) (ix_vals rx) (fst (shape2 Qtx)) (snd (shape2 Qtx)) Qtx Qrx Ttx Trx a
               (scat_fun N P sobj) (match sobj with ScatFn _ => EIndex | ScatMat _ => EUnmodelled end) sel.
  Proof.
    intros H E0 E1 E2 E3 E4 Hlen Hdt Hdr Hm Hg.
    destruct (maf_inv ob H) as (sobj' & Qtx' & Qrx' & Ttx' & Trx' & o & F0 & F1 & F2 & F3 & F4 & _ & Ef & ->).
    rewrite E0 in F0. rewrite E1 in F1. rewrite E2 in F2. rewrite E3 in F3. rewrite E4 in F4.
    inversion F0; inversion F1; inversion F2; inversion F3; inversion F4; subst sobj' Qtx' Qrx' Ttx' Trx'.
    unfold mo_getitem. cbn [mo_scat mo_amp mo_txdt mo_rxdt].
    destruct sobj as [Sf|M]; cbn [scat_fun].
    - apply (getitem_fn_sel_is_spec N _ _ _ _ _ _ _ _ a o Hlen Ef Sf); try assumption.
      + destruct (ix_dtype tx); try reflexivity; discriminate.
      + destruct (ix_dtype rx); try reflexivity; discriminate.
    - apply (getitem_mat_sel_is_spec N _ _ _ _ _ _ _ _ a o Hlen Ef P M); assumption.
  Qed.
End FactoryTheorems.

(* ---------- ray_weights_for_views: save_debug, untraced paths, any subset of the views ---------------------- *)
Lemma mapM_map_some {A B C} (f : A -> option B) (g : A -> option C) (h : B -> C) l ys :
  (forall x y, f x = Some y -> g x = Some (h y)) -> mapM f l = Some ys -> mapM g l = Some (map h ys).
Proof.
  intros Hfg. revert ys. induction l as [|x l IH]; intros ys H; cbn in H.
  - inversion H. reflexivity.
  - destruct (f x) as [y|] eqn:E; [|discriminate]. destruct (mapM f l) as [ys'|]; [|discriminate].
    cbn in H. inversion H; subst ys. cbn [mapM map]. rewrite (Hfg x y E), (IH ys' eq_refl). reflexivity.
Qed.

Lemma mapM_some_iff {A B} (f : A -> option B) l :
  (exists ys, mapM f l = Some ys) <-> (forall x, In x l -> exists y, f x = Some y).
Proof.
  split.
  - intros (ys & H) x Hx. destruct (f x) as [y|] eqn:E; [exists y; reflexivity|].
    rewrite (mapM_none f l x Hx E) in H. discriminate.
  - apply mapM_total.
Qed.

Lemma find_key_none {A} (key : A -> nat) (l : list A) k :
  ~ In k (map key l) -> find (fun x => key x =? k) l = None.
Proof.
  induction l as [|x l IH]; intros H; [reflexivity|]. cbn [find].
  destruct (Nat.eqb_spec (key x) k) as [E|_].
  - exfalso. apply H. left. exact E.
  - apply IH. intros Hin. apply H. right. exact Hin.
Qed.

Section FullRayWeights.
  Context {T : Type} (N : Num T).
  Local Notation K := (T * T)%type.

  (* the dictionaries assembled from the iterations, read by key *)
  Lemma dget_dict_of {V} (sel : path_result (T := T) -> option V) prs k :
    NoDup (map pr_key prs) ->
    dget (dict_of sel prs) k = bind (find (fun pr => pr_key pr =? k) prs) sel.
  Proof.
    unfold dget. induction prs as [|pr prs IH]; intros Hnd; [reflexivity|].
    cbn [map] in Hnd. apply NoDup_cons_iff in Hnd as [Hnin Hnd].
    unfold dict_of. cbn [flat_map find]. fold (dict_of sel prs).
    destruct (Nat.eqb_spec (pr_key pr) k) as [E|NE].
    - destruct (sel pr) as [x|] eqn:Es; cbn [app find fst bind].
      + rewrite E, Nat.eqb_refl. cbn. rewrite Es. reflexivity.
      + cbn [bind]. rewrite Es. rewrite (IH Hnd). subst k. rewrite (find_key_none pr_key prs _ Hnin). reflexivity.
    - destruct (sel pr) as [x|]; cbn [app find fst].
      + destruct (Nat.eqb_spec (pr_key pr) k); [contradiction|]. exact (IH Hnd).
      + exact (IH Hnd).
  Qed.

  Lemma dget_angles prs k :
    dget (map (fun pr : path_result (T := T) => (pr_key pr, pr_angles pr)) prs) k
    = omap pr_angles (find (fun pr => pr_key pr =? k) prs).
  Proof.
    unfold dget. induction prs as [|pr prs IH]; [reflexivity|]. cbn [map find fst].
    destruct (pr_key pr =? k); [reflexivity | exact IH].
  Qed.

  Lemma keys_dict_of {V} (sel : path_result (T := T) -> option V) prs :
    map fst (dict_of sel prs)
    = map pr_key (filter (fun pr => match sel pr with Some _ => true | None => false end) prs).
  Proof.
    unfold dict_of. induction prs as [|pr prs IH]; [reflexivity|]. cbn [flat_map filter].
    destruct (sel pr); cbn [app map fst]; rewrite IH; reflexivity.
  Qed.

  (* weights and debug arrays are two projections of one traversal *)
  Lemma weights_and_debug_fst (f : ray (T := T) -> option (K * dbg)) rays :
    omap (map (map fst)) (weights_and_debug f rays) = weights_of_rays f rays.
  Proof.
    unfold weights_and_debug, weights_of_rays. rewrite omap_mapM. apply mapM_ext. intros row _.
    apply omap_mapM.
  Qed.

  Lemma path_tx_full_fst ud ut ub ua width f p :
    omap (map (map fst)) (path_tx_full N ud ut ub ua width f p) = path_tx_weights N ud ut ub ua width f p.
  Proof.
    unfold path_tx_full, path_tx_weights. destruct (width_missing ud width); [reflexivity|].
    apply weights_and_debug_fst.
  Qed.

  Lemma path_rx_full_fst ud ut ub ua width f p :
    omap (map (map fst)) (path_rx_full N ud ut ub ua width f p) = path_rx_weights N ud ut ub ua width f p.
  Proof.
    unfold path_rx_full, path_rx_weights. destruct (width_missing ud width); [reflexivity|].
    apply weights_and_debug_fst.
  Qed.

  Variables (paths : list (gpath (T := T))) (views : list view) (f : T) (width : option T) (ud ub ut ua : bool).

  Let all_tx := map v_tx views.
  Let all_rx := map v_rx views.
  Let all_paths := nodup Nat.eq_dec (all_tx ++ all_rx).
  Let iter := path_iteration N paths all_tx all_rx f width ud ub ut ua.

  Definition strip (pr : path_result (T := T)) : rw_entry (T := T) :=
    mkEntry (pr_key pr) (pr_angles pr) (omap (map (map fst)) (pr_tx pr)) (omap (map (map fst)) (pr_rx pr)).

  Lemma iter_key k pr : iter k = Some pr -> pr_key pr = k.
  Proof.
    unfold iter, path_iteration. destruct (nth_error paths k) as [gp|]; [|discriminate]. cbn [bind].
    destruct (gp_traced gp); [|discriminate]. cbn [negb].
    destruct (if mem k all_tx then _ else _) as [wtx|]; [|discriminate]. cbn [bind].
    destruct (if mem k all_rx then _ else _) as [wrx|]; [|discriminate]. cbn [bind].
    intros H. inversion H. reflexivity.
  Qed.

  (* one iteration, read back *)
  Lemma iter_inv k pr : iter k = Some pr ->
    exists gp, nth_error paths k = Some gp /\ gp_traced gp = true /\
      pr_key pr = k /\ pr_angles pr = p_angles (gp_path gp) /\
      (if mem k all_tx then exists A, path_tx_full N ud ut ub ua width f (gp_path gp) = Some A /\ pr_tx pr = Some A
       else pr_tx pr = None) /\
      (if mem k all_rx then exists A, path_rx_full N ud ut ub ua width f (gp_path gp) = Some A /\ pr_rx pr = Some A
       else pr_rx pr = None).
  Proof.
    unfold iter, path_iteration. destruct (nth_error paths k) as [gp|]; [|discriminate]. cbn [bind].
    destruct (gp_traced gp) eqn:Et; [|discriminate]. cbn [negb].
    intros H. exists gp. split; [reflexivity|]. split; [exact Et|].
    destruct (mem k all_tx); destruct (mem k all_rx).
    - destruct (path_tx_full N ud ut ub ua width f (gp_path gp)) as [A|]; [|discriminate]. cbn [omap bind] in H.
      destruct (path_rx_full N ud ut ub ua width f (gp_path gp)) as [B|]; [|discriminate]. cbn [omap bind] in H.
      inversion H. cbn. repeat split; try reflexivity; eexists; split; reflexivity.
    - destruct (path_tx_full N ud ut ub ua width f (gp_path gp)) as [A|]; [|discriminate]. cbn [omap bind] in H.
      inversion H. cbn. repeat split; try reflexivity. eexists; split; reflexivity.
    - cbn [bind] in H. destruct (path_rx_full N ud ut ub ua width f (gp_path gp)) as [B|]; [|discriminate]. cbn [omap bind] in H.
      inversion H. cbn. repeat split; try reflexivity. eexists; split; reflexivity.
    - cbn [bind] in H. inversion H. cbn. repeat split; reflexivity.
  Qed.

  (* an iteration of the full loop gives the iteration of the reduced loop of Model/Pipeline.v *)
  Lemma iter_strip k pr : iter k = Some pr ->
    bind (nth_error (map gp_path paths) k) (fun p =>
    bind (if mem k all_tx then omap Some (path_tx_weights N ud ut ub ua width f p) else Some None) (fun wtx =>
    bind (if mem k all_rx then omap Some (path_rx_weights N ud ut ub ua width f p) else Some None) (fun wrx =>
    Some (mkEntry k (p_angles p) wtx wrx)))) = Some (strip pr).
  Proof.
    intros H. destruct (iter_inv k pr H) as (gp & Eg & _ & Ek & Ea & Htx & Hrx).
    rewrite nth_error_map, Eg. cbn [option_map bind]. unfold strip. rewrite Ek, Ea.
    rewrite <- path_tx_full_fst, <- path_rx_full_fst.
    destruct (mem k all_tx); destruct (mem k all_rx).
    - destruct Htx as (A & -> & ->). destruct Hrx as (B & -> & ->). reflexivity.
    - destruct Htx as (A & -> & ->). rewrite Hrx. reflexivity.
    - destruct Hrx as (B & -> & ->). rewrite Htx. reflexivity.
    - rewrite Htx, Hrx. reflexivity.
  Qed.

  Lemma full_unfold sd :
    ray_weights_for_views_full N paths views f width ud ub ut ua sd = omap (assemble_rw sd) (mapM iter all_paths).
  Proof. reflexivity. Qed.

  Lemma full_inv sd R : ray_weights_for_views_full N paths views f width ud ub ut ua sd = Some R ->
    exists prs, mapM iter all_paths = Some prs /\ R = assemble_rw sd prs /\
                map pr_key prs = all_paths /\ NoDup (map pr_key prs).
  Proof.
    rewrite full_unfold. destruct (mapM iter all_paths) as [prs|] eqn:E; [|discriminate].
    intros H. inversion H. exists prs. split; [reflexivity|]. split; [reflexivity|].
    pose proof (mapM_keys iter pr_key all_paths prs iter_key E) as Ek.
    split; [exact Ek|]. rewrite Ek. apply NoDup_nodup.
  Qed.

  Lemma find_strip prs k :
    find (fun e : rw_entry (T := T) => e_path e =? k) (map strip prs) = omap strip (find (fun pr => pr_key pr =? k) prs).
  Proof.
    induction prs as [|pr prs IH]; [reflexivity|]. cbn [map find]. unfold strip at 1. cbn [e_path].
    destruct (pr_key pr =? k); [reflexivity | exact IH].
  Qed.

  (* the full function refines the reduced one of Model/Pipeline.v: same success on traced paths, and the
     three dictionaries hold, key by key, what the reduced model's entries hold.  Every theorem of
     section 5.1 about rw_tx / rw_rx / rw_angles therefore reads on the namedtuple *)
  Theorem full_refines_reduced sd R :
    ray_weights_for_views_full N paths views f width ud ub ut ua sd = Some R ->
    exists rw, ray_weights_for_views N (map gp_path paths) views f width ud ub ut ua = Some rw /\
      forall k, dget (rw_txd R) k = rw_tx rw k /\ dget (rw_rxd R) k = rw_rx rw k /\
                dget (rw_angd R) k = rw_angles rw k.
  Proof.
    intros H. destruct (full_inv sd R H) as (prs & Em & -> & Ek & Hnd).
    exists (map strip prs). split.
    - unfold ray_weights_for_views. exact (mapM_map_some iter _ strip all_paths prs iter_strip Em).
    - intros k. unfold rw_tx, rw_rx, rw_angles, rw_find. rewrite find_strip.
      unfold assemble_rw. cbn [rw_txd rw_rxd rw_angd].
      rewrite (dget_dict_of _ prs k Hnd), (dget_dict_of _ prs k Hnd), dget_angles.
      destruct (find (fun pr => pr_key pr =? k) prs) as [pr|]; repeat split; reflexivity.
  Qed.

  (* conversely, on traced paths the reduced model's success is the full function's *)
  Theorem reduced_gives_full sd rw :
    (forall k gp, In k all_paths -> nth_error paths k = Some gp -> gp_traced gp = true) ->
    ray_weights_for_views N (map gp_path paths) views f width ud ub ut ua = Some rw ->
    exists R, ray_weights_for_views_full N paths views f width ud ub ut ua sd = Some R.
  Proof.
    intros Htr H. rewrite full_unfold.
    assert (Hall : exists prs, mapM iter all_paths = Some prs).
    { apply mapM_total. intros k Hk.
      unfold ray_weights_for_views in H. fold all_tx all_rx all_paths in H.
      assert (He : exists e, bind (nth_error (map gp_path paths) k) (fun p =>
                 bind (if mem k all_tx then omap Some (path_tx_weights N ud ut ub ua width f p) else Some None) (fun wtx =>
                 bind (if mem k all_rx then omap Some (path_rx_weights N ud ut ub ua width f p) else Some None) (fun wrx =>
                 Some (mkEntry k (p_angles p) wtx wrx)))) = Some e).
      { match type of H with mapM ?g _ = _ =>
          exact (proj1 (mapM_some_iff g all_paths) (ex_intro _ rw H) k Hk) end. }
      destruct He as (e & He). rewrite nth_error_map in He.
      unfold iter, path_iteration.
      destruct (nth_error paths k) as [gp|] eqn:Eg; [|discriminate]. cbn [option_map bind] in He |- *.
      rewrite (Htr k gp Hk Eg). cbn [negb].
      rewrite <- path_tx_full_fst, <- path_rx_full_fst in He.
      destruct (mem k all_tx); destruct (mem k all_rx);
        repeat match goal with
               | |- context [path_tx_full N ud ut ub ua width f (gp_path gp)] =>
                   destruct (path_tx_full N ud ut ub ua width f (gp_path gp)); [|discriminate]
               | |- context [path_rx_full N ud ut ub ua width f (gp_path gp)] =>
                   destruct (path_rx_full N ud ut ub ua width f (gp_path gp)); [|discriminate]
               end; cbn; eexists; reflexivity. }
    destruct Hall as (prs & ->). eexists. reflexivity.
  Qed.

  (* a path of the views whose rays were not traced: ValueError("Rays must be computed first.") *)
  Theorem untraced_path_raises sd k gp :
    In k all_paths -> nth_error paths k = Some gp -> gp_traced gp = false ->
    ray_weights_for_views_full N paths views f width ud ub ut ua sd = None.
  Proof.
    intros Hk Eg Et. rewrite full_unfold. rewrite (mapM_none iter all_paths k Hk); [reflexivity|].
    unfold iter, path_iteration. rewrite Eg. cbn [bind]. rewrite Et. reflexivity.
  Qed.

  (* save_debug changes nothing but the two debug dictionaries: None without it; with it, one entry for
     every path that has an entry in the corresponding weights dictionary, in the same order *)
  Theorem save_debug_only_adds_debug R1 :
    ray_weights_for_views_full N paths views f width ud ub ut ua true = Some R1 ->
    exists R0 dtx drx,
      ray_weights_for_views_full N paths views f width ud ub ut ua false = Some R0 /\
      rw_txd R0 = rw_txd R1 /\ rw_rxd R0 = rw_rxd R1 /\ rw_angd R0 = rw_angd R1 /\
      rw_txdbg R0 = None /\ rw_rxdbg R0 = None /\
      rw_txdbg R1 = Some dtx /\ rw_rxdbg R1 = Some drx /\
      map fst dtx = map fst (rw_txd R1) /\ map fst drx = map fst (rw_rxd R1).
  Proof.
    rewrite !full_unfold. destruct (mapM iter all_paths) as [prs|]; [|discriminate].
    intros H. inversion H. eexists. eexists. eexists. cbn [omap assemble_rw rw_txd rw_rxd rw_angd rw_txdbg rw_rxdbg].
    repeat (split; [reflexivity|]).
    rewrite !keys_dict_of. split; f_equal; apply filter_ext; intros pr.
    - destruct (pr_tx pr); reflexivity.
    - destruct (pr_rx pr); reflexivity.
  Qed.

  Theorem without_save_debug_iff_with R0 :
    ray_weights_for_views_full N paths views f width ud ub ut ua false = Some R0 ->
    exists R1, ray_weights_for_views_full N paths views f width ud ub ut ua true = Some R1.
  Proof.
    rewrite !full_unfold. destruct (mapM iter all_paths) as [prs|]; [|discriminate]. intros _. eexists. reflexivity.
  Qed.

  (* which paths have an entry in which dictionary: the distinct tx paths, the distinct rx paths, every
     distinct path — in one common order (that of the loop) *)
  Theorem dictionary_keys sd R :
    ray_weights_for_views_full N paths views f width ud ub ut ua sd = Some R ->
    map fst (rw_txd R) = filter (fun k => mem k all_tx) all_paths /\
    map fst (rw_rxd R) = filter (fun k => mem k all_rx) all_paths /\
    map fst (rw_angd R) = all_paths.
  Proof.
    intros H. destruct (full_inv sd R H) as (prs & Em & -> & Ek & _).
    unfold assemble_rw. cbn [rw_txd rw_rxd rw_angd]. rewrite !keys_dict_of, map_map. cbn [fst].
    rewrite <- Ek.
    assert (Hpr : forall pr, In pr prs ->
              (match pr_tx pr with Some _ => true | None => false end = mem (pr_key pr) all_tx) /\
              (match pr_rx pr with Some _ => true | None => false end = mem (pr_key pr) all_rx)).
    { intros pr Hin. apply In_nth_error in Hin as (i & Hi).
      destruct (mapM_nth_error_inv _ _ _ _ _ Em Hi) as (k & _ & Hk).
      destruct (iter_inv k pr Hk) as (gp & _ & _ & Ekk & _ & Htx & Hrx). rewrite Ekk.
      destruct (mem k all_tx); destruct (mem k all_rx);
        repeat match goal with H : exists _, _ |- _ => destruct H as (? & _ & ->) end;
        try rewrite Htx; try rewrite Hrx; split; reflexivity. }
    assert (Hflt : forall (p : path_result (T := T) -> bool) (q : nat -> bool) l,
              (forall pr, In pr l -> p pr = q (pr_key pr)) -> map pr_key (filter p l) = filter q (map pr_key l)).
    { intros p q l. induction l as [|x l IH]; intros Hl; [reflexivity|]. cbn [filter map].
      rewrite (Hl x (or_introl eq_refl)). destruct (q (pr_key x)); cbn [map]; rewrite IH; try reflexivity;
        intros pr Hpr'; apply Hl; right; exact Hpr'. }
    split; [|split; [|reflexivity]].
    - apply Hflt. intros pr Hin. destruct (pr_tx pr) eqn:E; cbn [omap]; rewrite <- (proj1 (Hpr pr Hin)), E; reflexivity.
    - apply Hflt. intros pr Hin. destruct (pr_rx pr) eqn:E; cbn [omap]; rewrite <- (proj2 (Hpr pr Hin)), E; reflexivity.
  Qed.

  (* the debug arrays ARE the factors of the weights, ray by ray: (weights, weights_dict) of one call of
     tx_ray_weights on that ray, hence weights = directivity * transrefl * beamspread * attenuation *)
  Theorem debug_factors_tx R D k W F e s w :
    ray_weights_for_views_full N paths views f width ud ub ut ua true = Some R ->
    rw_txdbg R = Some D -> dget (rw_txd R) k = Some W -> dget D k = Some F ->
    get2 W e s = Some w ->
    exists gp r fac, nth_error paths k = Some gp /\ get2 (p_rays (gp_path gp)) e s = Some r /\
      get2 F e s = Some fac /\
      tx_ray_weights N ud ut ub ua width f (p_couplant (gp_path gp)) r = Some (w, fac).
  Proof.
    intros H HD HW HF Hw. destruct (full_inv true R H) as (prs & Em & -> & Ek & Hnd).
    unfold assemble_rw in HD, HW. cbn [rw_txdbg rw_txd] in HD, HW. inversion HD; subst D. clear HD.
    rewrite (dget_dict_of _ prs k Hnd) in HW. rewrite (dget_dict_of _ prs k Hnd) in HF.
    destruct (find (fun pr => pr_key pr =? k) prs) as [pr|] eqn:Efind; [|discriminate]. cbn [bind] in HW, HF.
    apply find_some in Efind as [Hin Hkey]. apply Nat.eqb_eq in Hkey.
    apply In_nth_error in Hin as (i & Hi).
    destruct (mapM_nth_error_inv _ _ _ _ _ Em Hi) as (k' & _ & Hk').
    destruct (iter_inv k' pr Hk') as (gp & Eg & _ & Ekk & _ & Htx & _).
    assert (k' = k) by congruence. subst k'.
    destruct (pr_tx pr) as [A|] eqn:EA; [|discriminate]. cbn [omap] in HW, HF. inversion HW; inversion HF; subst W F.
    revert Htx. destruct (mem (pr_key pr) all_tx); intros Htx; [|discriminate Htx]. destruct Htx as (A' & EA' & EA''). rewrite Hkey in Eg. inversion EA''; subst A'.
    unfold path_tx_full in EA'. destruct (width_missing ud width); [discriminate|]. unfold weights_and_debug in EA'.
    unfold get2 in Hw. rewrite nth_error_map in Hw.
    destruct (nth_error A e) as [rowA|] eqn:ErA; [|discriminate]. cbn [option_map bind] in Hw.
    rewrite nth_error_map in Hw. destruct (nth_error rowA s) as [[w' fac]|] eqn:Ers; [|discriminate].
    cbn in Hw. inversion Hw; subst w'.
    destruct (mapM_nth_error_inv _ _ _ _ _ EA' ErA) as (rrow & Hrr & Hm).
    destruct (mapM_nth_error_inv _ _ _ _ _ Hm Ers) as (r & Hr & Hfr).
    exists gp, r, fac. split; [exact Eg|]. split; [unfold get2; rewrite Hrr; exact Hr|].
    split; [|exact Hfr]. unfold get2. rewrite nth_error_map, ErA. cbn [option_map bind].
    rewrite nth_error_map, Ers. reflexivity.
  Qed.

  Theorem debug_factors_rx R D k W F e s w :
    ray_weights_for_views_full N paths views f width ud ub ut ua true = Some R ->
    rw_rxdbg R = Some D -> dget (rw_rxd R) k = Some W -> dget D k = Some F ->
    get2 W e s = Some w ->
    exists gp r fac, nth_error paths k = Some gp /\ get2 (p_rays (gp_path gp)) e s = Some r /\
      get2 F e s = Some fac /\
      rx_ray_weights N ud ut ub ua width f (p_couplant (gp_path gp)) (p_block (gp_path gp)) r = Some (w, fac).
  Proof.
    intros H HD HW HF Hw. destruct (full_inv true R H) as (prs & Em & -> & Ek & Hnd).
    unfold assemble_rw in HD, HW. cbn [rw_rxdbg rw_rxd] in HD, HW. inversion HD; subst D. clear HD.
    rewrite (dget_dict_of _ prs k Hnd) in HW. rewrite (dget_dict_of _ prs k Hnd) in HF.
    destruct (find (fun pr => pr_key pr =? k) prs) as [pr|] eqn:Efind; [|discriminate]. cbn [bind] in HW, HF.
    apply find_some in Efind as [Hin Hkey]. apply Nat.eqb_eq in Hkey.
    apply In_nth_error in Hin as (i & Hi).
    destruct (mapM_nth_error_inv _ _ _ _ _ Em Hi) as (k' & _ & Hk').
    destruct (iter_inv k' pr Hk') as (gp & Eg & _ & Ekk & _ & _ & Hrx).
    assert (k' = k) by congruence. subst k'.
    destruct (pr_rx pr) as [A|] eqn:EA; [|discriminate]. cbn [omap] in HW, HF. inversion HW; inversion HF; subst W F.
    revert Hrx. destruct (mem (pr_key pr) all_rx); intros Hrx; [|discriminate Hrx]. destruct Hrx as (A' & EA' & EA''). rewrite Hkey in Eg. inversion EA''; subst A'.
    unfold path_rx_full in EA'. destruct (width_missing ud width); [discriminate|]. unfold weights_and_debug in EA'.
    unfold get2 in Hw. rewrite nth_error_map in Hw.
    destruct (nth_error A e) as [rowA|] eqn:ErA; [|discriminate]. cbn [option_map bind] in Hw.
    rewrite nth_error_map in Hw. destruct (nth_error rowA s) as [[w' fac]|] eqn:Ers; [|discriminate].
    cbn in Hw. inversion Hw; subst w'.
    destruct (mapM_nth_error_inv _ _ _ _ _ EA' ErA) as (rrow & Hrr & Hm).
    destruct (mapM_nth_error_inv _ _ _ _ _ Hm Ers) as (r & Hr & Hfr).
    exists gp, r, fac. split; [exact Eg|]. split; [unfold get2; rewrite Hrr; exact Hr|].
    split; [|exact Hfr]. unfold get2. rewrite nth_error_map, ErA. cbn [option_map bind].
    rewrite nth_error_map, Ers. reflexivity.
  Qed.
End FullRayWeights.

(* ---------- no view, missing width, unused width, subsets of views, a single view -------------------------- *)
Section ViewsSubsets.
  Context {T : Type} (N : Num T).
  Local Notation K := (T * T)%type.
  Variables (paths : list (gpath (T := T))) (f : T).

  (* an empty dictionary of views: empty dictionaries, whatever the other arguments (no path is visited,
     so not even a missing element width is noticed) *)
  Theorem no_views_empty width ud ub ut ua sd :
    ray_weights_for_views_full N paths [] f width ud ub ut ua sd
    = Some (mkRW [] [] (if sd then Some [] else None) (if sd then Some [] else None) []).
  Proof. destruct sd; reflexivity. Qed.

  (* use_directivity without probe_element_width: ValueError as soon as there is one view *)
  Theorem missing_width_raises views ub ut ua sd :
    views <> [] -> ray_weights_for_views_full N paths views f None true ub ut ua sd = None.
  Proof.
    intros Hv. destruct views as [|v vs]; [contradiction|].
    unfold ray_weights_for_views_full.
    set (all_tx := map v_tx (v :: vs)). set (all_rx := map v_rx (v :: vs)).
    assert (Hk : In (v_tx v) (nodup Nat.eq_dec (all_tx ++ all_rx))).
    { apply nodup_In, in_or_app. left. left. reflexivity. }
    rewrite (mapM_none _ _ (v_tx v) Hk); [reflexivity|].
    unfold path_iteration. destruct (nth_error paths (v_tx v)) as [gp|]; [|reflexivity]. cbn [bind].
    destruct (gp_traced gp); [|reflexivity]. cbn [negb].
    replace (mem (v_tx v) all_tx) with true.
    - reflexivity.
    - symmetry. apply mem_In. left. reflexivity.
  Qed.

  (* with the directivity switched off the element width is not read: None, or any value, same result *)
  Lemma tx_width_unused ut ub ua w w' couplant (r : ray (T := T)) :
    tx_ray_weights N false ut ub ua w f couplant r = tx_ray_weights N false ut ub ua w' f couplant r.
  Proof. reflexivity. Qed.

  Lemma rx_width_unused ut ub ua w w' couplant block (r : ray (T := T)) :
    rx_ray_weights N false ut ub ua w f couplant block r = rx_ray_weights N false ut ub ua w' f couplant block r.
  Proof. reflexivity. Qed.

  Theorem width_unused_without_directivity views w w' ub ut ua sd :
    ray_weights_for_views_full N paths views f w false ub ut ua sd
    = ray_weights_for_views_full N paths views f w' false ub ut ua sd.
  Proof. reflexivity. Qed.

  (* one iteration under fewer requests *)
  Lemma iteration_restrict width ud ub ut ua k tx1 rx1 tx2 rx2 pr :
    (mem k tx2 = true -> mem k tx1 = true) -> (mem k rx2 = true -> mem k rx1 = true) ->
    path_iteration N paths tx1 rx1 f width ud ub ut ua k = Some pr ->
    path_iteration N paths tx2 rx2 f width ud ub ut ua k
    = Some (mkPR k (pr_angles pr) (if mem k tx2 then pr_tx pr else None) (if mem k rx2 then pr_rx pr else None)).
  Proof.
    intros Ht Hr. unfold path_iteration.
    destruct (nth_error paths k) as [gp|]; [|discriminate]. cbn [bind].
    destruct (gp_traced gp); [|discriminate]. cbn [negb].
    destruct (mem k tx2) eqn:M2t; [rewrite (Ht eq_refl)|]; (destruct (mem k rx2) eqn:M2r; [rewrite (Hr eq_refl)|]).
    - destruct (path_tx_full N ud ut ub ua width f (gp_path gp)) as [A|]; [|discriminate]. cbn [omap bind].
      destruct (path_rx_full N ud ut ub ua width f (gp_path gp)) as [B|]; [|discriminate]. cbn [omap bind].
      intros H. inversion H. reflexivity.
    - destruct (path_tx_full N ud ut ub ua width f (gp_path gp)) as [A|]; [|discriminate]. cbn [omap bind].
      destruct (mem k rx1).
      + destruct (path_rx_full N ud ut ub ua width f (gp_path gp)) as [B|]; [|discriminate]. cbn [omap bind].
        intros H. inversion H. reflexivity.
      + cbn [bind]. intros H. inversion H. reflexivity.
    - destruct (mem k tx1).
      + destruct (path_tx_full N ud ut ub ua width f (gp_path gp)) as [A|]; [|discriminate]. cbn [omap bind].
        destruct (path_rx_full N ud ut ub ua width f (gp_path gp)) as [B|]; [|discriminate]. cbn [omap bind].
        intros H. inversion H. reflexivity.
      + cbn [bind]. destruct (path_rx_full N ud ut ub ua width f (gp_path gp)) as [B|]; [|discriminate]. cbn [omap bind].
        intros H. inversion H. reflexivity.
    - destruct (mem k tx1); destruct (mem k rx1);
        repeat match goal with
               | |- context [path_tx_full N ud ut ub ua width f (gp_path gp)] =>
                   destruct (path_tx_full N ud ut ub ua width f (gp_path gp)); [|discriminate]
               | |- context [path_rx_full N ud ut ub ua width f (gp_path gp)] =>
                   destruct (path_rx_full N ud ut ub ua width f (gp_path gp)); [|discriminate]
               end; cbn [omap bind]; intros H; inversion H; reflexivity.
  Qed.

  (* ray_weights_for_views on ANY sub-collection of the views (a single view, views in another order, a view
     repeated): it succeeds when the larger call does, and the weights and angles found for the paths of
     its views are those of the larger call — what a path gets does not depend on which other views are
     requested *)
  Theorem subset_of_views_consistent views views' width ud ub ut ua sd R :
    incl views' views ->
    ray_weights_for_views_full N paths views f width ud ub ut ua sd = Some R ->
    exists R', ray_weights_for_views_full N paths views' f width ud ub ut ua sd = Some R' /\
      forall v, In v views' ->
        dget (rw_txd R') (v_tx v) = dget (rw_txd R) (v_tx v) /\
        dget (rw_rxd R') (v_rx v) = dget (rw_rxd R) (v_rx v) /\
        dget (rw_angd R') (v_tx v) = dget (rw_angd R) (v_tx v) /\
        dget (rw_angd R') (v_rx v) = dget (rw_angd R) (v_rx v).
  Proof.
    intros Hincl H.
    destruct (full_inv N paths views f width ud ub ut ua sd R H) as (prs & Em & -> & Ek & Hnd).
    set (tx1 := map v_tx views) in *. set (rx1 := map v_rx views) in *.
    set (tx2 := map v_tx views'). set (rx2 := map v_rx views').
    set (all1 := nodup Nat.eq_dec (tx1 ++ rx1)) in *. set (all2 := nodup Nat.eq_dec (tx2 ++ rx2)).
    set (it1 := path_iteration N paths tx1 rx1 f width ud ub ut ua) in *.
    set (it2 := path_iteration N paths tx2 rx2 f width ud ub ut ua).
    assert (Ht : forall k, mem k tx2 = true -> mem k tx1 = true).
    { intros k Hk. apply mem_In in Hk. apply mem_In. unfold tx2 in Hk. apply in_map_iff in Hk as (v & <- & Hv).
      apply in_map. exact (Hincl v Hv). }
    assert (Hr : forall k, mem k rx2 = true -> mem k rx1 = true).
    { intros k Hk. apply mem_In in Hk. apply mem_In. unfold rx2 in Hk. apply in_map_iff in Hk as (v & <- & Hv).
      apply in_map. exact (Hincl v Hv). }
    assert (Hsub : forall k, In k all2 -> In k all1).
    { intros k Hk. apply nodup_In in Hk. apply nodup_In. apply in_app_or in Hk as [Hk|Hk]; apply in_or_app.
      - left. apply mem_In, Ht, mem_In. exact Hk.
      - right. apply mem_In, Hr, mem_In. exact Hk. }
    assert (Hit : forall k, In k all2 -> exists pr, it1 k = Some pr /\
              it2 k = Some (mkPR k (pr_angles pr) (if mem k tx2 then pr_tx pr else None) (if mem k rx2 then pr_rx pr else None)) /\
              find (fun p => pr_key p =? k) prs = Some pr).
    { intros k Hk.
      destruct (mapM_find it1 pr_key all1 prs k (iter_key N paths views f width ud ub ut ua) Em (Hsub k Hk)) as (pr & Hpr & Hfind).
      exists pr. split; [exact Hpr|]. split; [|exact Hfind].
      exact (iteration_restrict width ud ub ut ua k tx1 rx1 tx2 rx2 pr (Ht k) (Hr k) Hpr). }
    assert (Hall : exists prs', mapM it2 all2 = Some prs').
    { apply mapM_total. intros k Hk. destruct (Hit k Hk) as (pr & _ & E2 & _). eexists. exact E2. }
    destruct Hall as (prs' & Em').
    exists (assemble_rw sd prs'). split.
    - unfold ray_weights_for_views_full. fold tx2 rx2 all2 it2. rewrite Em'. reflexivity.
    - intros v Hv.
      pose proof (mapM_keys it2 pr_key all2 prs' (iter_key N paths views' f width ud ub ut ua) Em') as Ek'.
      assert (Hnd' : NoDup (map pr_key prs')) by (rewrite Ek'; apply NoDup_nodup).
      assert (Itx : In (v_tx v) all2) by (apply nodup_In, in_or_app; left; apply in_map; exact Hv).
      assert (Irx : In (v_rx v) all2) by (apply nodup_In, in_or_app; right; apply in_map; exact Hv).
      assert (Mtx : mem (v_tx v) tx2 = true) by (apply mem_In, in_map; exact Hv).
      assert (Mrx : mem (v_rx v) rx2 = true) by (apply mem_In, in_map; exact Hv).
      destruct (Hit _ Itx) as (pt & _ & E2t & Eft). destruct (Hit _ Irx) as (pr & _ & E2r & Efr).
      destruct (mapM_find it2 pr_key all2 prs' (v_tx v) (iter_key N paths views' f width ud ub ut ua) Em' Itx) as (pt' & Ept' & Eft').
      destruct (mapM_find it2 pr_key all2 prs' (v_rx v) (iter_key N paths views' f width ud ub ut ua) Em' Irx) as (pr' & Epr' & Efr').
      rewrite E2t in Ept'. rewrite E2r in Epr'. inversion Ept'; inversion Epr'; subst pt' pr'. clear Ept' Epr'.
      unfold assemble_rw. cbn [rw_txd rw_rxd rw_angd].
      rewrite !dget_dict_of by assumption. rewrite !dget_angles.
      rewrite Eft, Efr, Eft', Efr'. cbn [bind omap pr_tx pr_rx pr_angles]. rewrite Mtx, Mrx.
      repeat split; reflexivity.
  Qed.
End ViewsSubsets.

(* a single view *)
Lemma nodup_pair a b : nodup Nat.eq_dec [a; b] = if Nat.eqb b a then [b] else [a; b].
Proof.
  simpl. destruct (Nat.eq_dec b a) as [E|NE].
  - subst. rewrite Nat.eqb_refl. reflexivity.
  - destruct (Nat.eqb_spec b a); [contradiction|reflexivity].
Qed.

Theorem single_view_dictionaries {T} (N : Num T) paths v f width ud ub ut ua sd R :
  ray_weights_for_views_full N paths [v] f width ud ub ut ua sd = Some R ->
  map fst (rw_txd R) = [v_tx v] /\ map fst (rw_rxd R) = [v_rx v] /\
  map fst (rw_angd R) = (if v_rx v =? v_tx v then [v_tx v] else [v_tx v; v_rx v]).
Proof.
  intros H. destruct (dictionary_keys N paths [v] f width ud ub ut ua sd R H) as (E1 & E2 & E3).
  rewrite E1, E2, E3. cbn [map app]. rewrite nodup_pair.
  destruct (Nat.eqb_spec (v_rx v) (v_tx v)) as [E|NE].
  - rewrite E. cbn [filter mem existsb]. rewrite Nat.eqb_refl. cbn [orb]. repeat split; reflexivity.
  - cbn [filter mem existsb]. rewrite !Nat.eqb_refl.
    destruct (Nat.eqb_spec (v_rx v) (v_tx v)) as [C|_]; [contradiction|].
    destruct (Nat.eqb_spec (v_tx v) (v_rx v)) as [C|_]; [symmetry in C; contradiction|].
    cbn [orb]. repeat split; reflexivity.
Qed.

(* ---------- the chunk selectors of the sensitivity functions ------------------------------------------------ *)
(* the i-th selector yielded by helpers.chunk_array((numpoints, numtimetraces), block_size) *)
Definition chunk_selector (b i : nat) : selector :=
  [GSlice (Some (Z.of_nat (i * b))) (Some (Z.of_nat ((i + 1) * b))) None; GDots].

Theorem chunk_selector_expands ng b i :
  grid_selector (chunk_selector b i) = true /\
  expand_sel ng (chunk_selector b i) = GOk (map Z.of_nat (range_of (chunk ng b i)), false).
Proof.
  split; [reflexivity|]. unfold chunk_selector, expand_sel. cbn [count_dots filter is_dots length Nat.ltb Nat.leb consumers consumes expand_multi].
  rewrite slice_range. reflexivity.
Qed.

(* ---------- an Ellipsis before the index: the guard of the function class lets it through ------------------- *)
Lemma mapM_nth_self {V} (row : list V) : mapM (fun j => nth_error row j) (seq 0 (length row)) = Some row.
Proof.
  assert (G : forall (pre l : list V), mapM (fun j => nth_error (pre ++ l) j) (seq (length pre) (length l)) = Some l).
  { intros pre l. revert pre. induction l as [|x l IH]; intros pre; [reflexivity|].
    cbn [length seq mapM]. rewrite nth_error_app2 by lia. rewrite Nat.sub_diag. cbn [nth_error lift2].
    specialize (IH (pre ++ [x])). rewrite <- app_assoc in IH. cbn [app] in IH.
    rewrite app_length in IH. cbn [length] in IH. rewrite Nat.add_1_r in IH. rewrite IH. reflexivity. }
  exact (G [] row).
Qed.

(* entry e of every row of the transposed array = row e of the array *)
Lemma rows_lookup_transposed {V} ne ng (M Mt : list (list V)) e :
  has_shape ne ng M = true -> transpose ng M = Some Mt -> zvalid ne e = true ->
  mapM (fun row => lookup row e) Mt = lookup M e.
Proof.
  intros Hs Ht He. pose proof Hs as Hs'. apply has_shape_spec in Hs' as [L F].
  unfold zvalid in He. destruct (norm_index ne e) as [i|] eqn:Ei; [|discriminate].
  pose proof (norm_index_lt _ _ _ Ei) as Hi.
  unfold transpose in Ht.
  assert (E1 : mapM (fun row => lookup row e) Mt
               = mapM (fun j => bind (column j M) (fun col => lookup col e)) (seq 0 ng)).
  { rewrite <- mapM_bind, Ht. reflexivity. }
  rewrite E1. unfold lookup at 2. rewrite L, Ei. cbn [bind].
  destruct (nth_error M i) as [rowe|] eqn:Er; [|apply nth_error_None in Er; lia].
  assert (Lr : length rowe = ng).
  { rewrite Forall_forall in F. exact (F rowe (nth_error_In _ _ Er)). }
  rewrite <- (mapM_nth_self rowe), Lr. apply mapM_ext. intros j Hj. apply in_seq in Hj.
  destruct (column_some ng M j F) as (col & Ec); [lia|]. rewrite Ec. cbn [bind].
  rewrite (lookup_column M j col e Ec), L, Ei. cbn [bind]. unfold get2. rewrite Er. reflexivity.
Qed.

Section EllipsisFirst.
  Context {T : Type} (N : Num T).
  Local Notation K := (T * T)%type.

  (* the assembly of the four gathered arrays, common to every selector *)
  Lemma fn_tail (S : T -> T -> K) ang tx rx (At Ar : list (list T)) (Aq Aqr : list (list K)) G drop np nel :
    length tx = length rx ->
    rbind (of_option EIndex (omap (shape_result drop) (take2 At G tx))) (fun t1 =>
    rbind (of_option EIndex (omap (shape_result drop) (take2 Ar G rx))) (fun t2 =>
    if negb (broadcastable (length tx) (length rx)) then GRaise EValue else
    let sc := arr_zip S (arr_map (fun x => nsub N x ang) t1) (arr_map (fun x => nsub N x ang) t2) in
    rbind (of_option EIndex (omap (shape_result drop) (take2 Aq G tx))) (fun q1 =>
    rbind (of_option EIndex (omap (shape_result drop) (take2 Aqr G rx))) (fun q2 =>
    GOk (arr_zip (nmul (NumC N)) (arr_zip (nmul (NumC N)) sc q1) q2)))))
    = of_option EIndex (omap (shape_result drop) (getitem_fn N S (mkAmp tx rx Aq Aqr At Ar ang np nel) G)).
  Proof.
    intros Hlen. unfold getitem_fn. cbn [ma_tx ma_rx ma_qtx ma_qrx ma_ttx ma_trx ma_angle].
    rewrite Hlen, Nat.eqb_refl. unfold broadcastable. rewrite Nat.eqb_refl. cbn [orb negb].
    destruct (take2 At G tx) as [X1|] eqn:E1; cbn [omap of_option rbind lift2]; [|reflexivity].
    destruct (take2 Ar G rx) as [X2|] eqn:E2; cbn [omap of_option rbind lift2]; [|reflexivity].
    destruct (take2 Aq G tx) as [X3|] eqn:E3; cbn [omap of_option rbind lift2]; [|reflexivity].
    destruct (take2 Aqr G rx) as [X4|] eqn:E4; cbn [omap of_option rbind lift2]; [|reflexivity].
    pose proof (take2_rows_len _ _ _ _ E1) as R1. pose proof (take2_rows_len _ _ _ _ E2) as R2.
    pose proof (take2_rows_len _ _ _ _ E3) as R3. pose proof (take2_rows_len _ _ _ _ E4) as R4.
    rewrite <- Hlen in R2, R4. set (n := length tx) in *.
    unfold sub_angle. rewrite !arr_map_shape.
    set (f := fun x : T => nsub N x ang).
    pose proof (rows_len_map f n X1 R1) as R1'. pose proof (rows_len_map f n X2 R2) as R2'.
    destruct (arr_zip_shape S drop n _ _ R1' R2') as [Z1 RS]. rewrite Z1.
    destruct (arr_zip_shape (nmul (NumC N)) drop n _ _ RS R3) as [Z2 RS2]. rewrite Z2.
    destruct (arr_zip_shape (nmul (NumC N)) drop n _ _ RS2 R4) as [Z3 _]. rewrite Z3.
    reflexivity.
  Qed.

  Variables (tx rx : list Z) (ne ng : nat) (Qtx Qrx : list (list K)) (Ttx Trx : list (list T)) (a : T)
            (o : amplitudes (T := T)).
  Hypothesis Hlen : length tx = length rx.
  Hypothesis Hf : factory tx rx ne ng Qtx Qrx Ttx Trx a = Some o.

  Lemma gather_ellipsis_int {V} (M Mt : list (list V)) e dt idx :
    has_shape ne ng M = true -> transpose ng M = Some Mt -> zvalid ne e = true -> idx_ok_fn dt = true ->
    gather ng ne Mt [GDots; GInt e] dt idx = of_option EIndex (omap (shape_result true) (take2 M [e] idx)).
  Proof.
    intros Hs Ht He Hdt. unfold gather, index2.
    cbn [count_dots filter is_dots length Nat.ltb Nat.leb consumers consumes dots_before].
    rewrite He, (rows_lookup_transposed ne ng M Mt e Hs Ht He), Hdt.
    unfold take2, take. cbn [mapM].
    destruct (lookup M e) as [rowe|]; cbn [omap of_option rbind lift2 bind mapM]; [|reflexivity].
    unfold arr_take, take. destruct (mapM (lookup rowe) idx); reflexivity.
  Qed.

  (* model_amplitudes[..., e]: the guard accepts it (np.empty(numpoints)[..., e] is 0-dimensional) when e is a
     valid GRID index; the four stored arrays are then indexed on their LAST axis.  What is returned is the
     answer, for "grid point" e, of an object whose arrays are the RayWeights arrays WITHOUT the great
     transposition: tx / rx are read as grid-point indices and e as an element index *)
  Theorem fn_ellipsis_then_int (S : T -> T -> K) dtx drx e :
    idx_ok_fn dtx = true -> idx_ok_fn drx = true ->
    getitem_fn_sel N S o dtx drx [GDots; GInt e]
    = if zvalid ng e && zvalid ne e
      then of_option EIndex (omap (shape_result true) (getitem_fn N S (mkAmp tx rx Qtx Qrx Ttx Trx a ne ng) [e]))
      else GRaise EIndex.
  Proof.
    intros Hdt Hdr.
    destruct (factory_inv _ _ _ _ _ _ _ _ _ _ Hf) as (S1 & S2 & S3 & S4 & T1 & T2 & T3 & T4 & Etx & Erx & Ea & Enp & Ene).
    unfold getitem_fn_sel, guard_ndim. rewrite Enp, Ene, Etx, Erx, Ea.
    cbn [count_dots filter is_dots length Nat.ltb Nat.leb consumers consumes count_none is_none has_none existsb orb].
    destruct (zvalid ng e); cbn [rbind andb]; [|reflexivity].
    destruct (zvalid ne e) eqn:He.
    - rewrite (gather_ellipsis_int Ttx _ e dtx tx S3 T3 He Hdt), (gather_ellipsis_int Trx _ e drx rx S4 T4 He Hdr),
              (gather_ellipsis_int Qtx _ e dtx tx S1 T1 He Hdt), (gather_ellipsis_int Qrx _ e drx rx S2 T2 He Hdr).
      exact (fn_tail S a tx rx Ttx Trx Qtx Qrx [e] true ne ng Hlen).
    - unfold gather, index2.
      cbn [count_dots filter is_dots length Nat.ltb Nat.leb consumers consumes dots_before]. rewrite He. reflexivity.
  Qed.
End EllipsisFirst.

(* ---------- a single rx index is broadcast: the function class on (tx, [j]) = on (tx, [j, j, ..., j]) -------- *)
Definition exp_row {V} (n : nat) (r : list V) : list V := match r with [x] => repeat x n | _ => r end.
Definition arr_exp {V} (n : nat) (b : arr V) : arr V :=
  match b with A1 r => A1 (exp_row n r) | A2 rs => A2 (map (exp_row n) rs) end.
Definition arr_rows_len {V} (n : nat) (a : arr V) : Prop :=
  match a with A1 r => length r = n | A2 rs => rows_len n rs end.
Definition is_A1 {V} (a : arr V) : bool := match a with A1 _ => true | A2 _ => false end.

Lemma take_single {V} (r : list V) j : take r [j] = omap (fun x => [x]) (lookup r j).
Proof. unfold take. cbn [mapM]. destruct (lookup r j); reflexivity. Qed.

Lemma take_repeat {V} (r : list V) j n : 1 <= n -> take r (repeat j n) = omap (fun x => repeat x n) (lookup r j).
Proof.
  intros Hn. unfold take. destruct n as [|n]; [lia|]. clear Hn.
  induction n as [|n IH].
  - cbn [repeat mapM]. destruct (lookup r j); reflexivity.
  - change (repeat j (S (S n))) with (j :: repeat j (S n)). cbn [mapM]. rewrite IH.
    destruct (lookup r j); reflexivity.
Qed.

Lemma arr_take_repeat {V} (a : arr V) j n : 1 <= n ->
  arr_take a (repeat j n) = omap (arr_exp n) (arr_take a [j]).
Proof.
  intros Hn. destruct a as [r|rs]; cbn [arr_take].
  - rewrite take_repeat by exact Hn. rewrite take_single. destruct (lookup r j); reflexivity.
  - assert (E : mapM (fun r => take r (repeat j n)) rs = omap (map (exp_row n)) (mapM (fun r => take r [j]) rs)).
    { rewrite omap_mapM. apply mapM_ext. intros r _. rewrite take_repeat by exact Hn. rewrite take_single.
      destruct (lookup r j); reflexivity. }
    rewrite E. destruct (mapM (fun r => take r [j]) rs); reflexivity.
Qed.

Lemma arr_take_rows_len {V} (a b : arr V) idx : arr_take a idx = Some b -> arr_rows_len (length idx) b /\ is_A1 b = is_A1 a.
Proof.
  destruct a as [r|rs]; cbn [arr_take].
  - destruct (take r idx) as [x|] eqn:E; [|discriminate]. intros H. inversion H. split; [exact (take_length _ _ _ E) | reflexivity].
  - destruct (mapM (fun r => take r idx) rs) as [X|] eqn:E; [|discriminate]. intros H. inversion H. split; [|reflexivity].
    cbn [arr_rows_len]. apply Forall_forall. intros r Hr. apply In_nth_error in Hr as (k & Hk).
    destruct (mapM_nth_error_inv _ _ _ _ _ E Hk) as (r0 & _ & Hr0). exact (take_length _ _ _ Hr0).
Qed.

Lemma map2_repeat {A B C} (f : A -> B -> C) r1 y : map2 f r1 (repeat y (length r1)) = map (fun x => f x y) r1.
Proof. induction r1 as [|x r1 IH]; [reflexivity|]. cbn [length repeat map2 map]. rewrite IH. reflexivity. Qed.

Lemma bzip_exp {A B C} (f : A -> B -> C) n r1 r2 :
  length r1 = n -> length r2 = 1 -> bzip f r1 (exp_row n r2) = bzip f r1 r2 /\ length (bzip f r1 r2) = n.
Proof.
  intros H1 H2. destruct r2 as [|y [|y2 r2]]; try discriminate. cbn [exp_row]. unfold bzip.
  rewrite repeat_length, H1, Nat.eqb_refl. cbn [length]. subst n.
  destruct (Nat.eqb_spec (length r1) 1) as [E|NE].
  - destruct r1 as [|x [|x2 r1]]; try discriminate. split; reflexivity.
  - rewrite map2_repeat. destruct r1 as [|x [|x2 r1]]; try (cbn in NE; lia); split; try reflexivity; cbn [length map]; rewrite ?map_length; reflexivity.
Qed.

Lemma arr_zip_exp {A B C} (f : A -> B -> C) n (a : arr A) (b : arr B) :
  arr_rows_len n a -> arr_rows_len 1 b -> is_A1 a = is_A1 b ->
  arr_zip f a (arr_exp n b) = arr_zip f a b /\ arr_rows_len n (arr_zip f a b) /\ is_A1 (arr_zip f a b) = is_A1 a.
Proof.
  destruct a as [r1|m1], b as [r2|m2]; cbn [arr_rows_len is_A1 arr_exp arr_zip]; intros Ha Hb Hk; try discriminate.
  - destruct (bzip_exp f n r1 r2 Ha Hb) as [E L]. rewrite E. repeat split; assumption.
  - split; [|split; [|reflexivity]].
    + f_equal. revert m2 Hb. induction Ha as [|x m1 Hx Ha IH]; intros m2 Hb; [reflexivity|].
      destruct m2 as [|y m2]; [reflexivity|]. apply Forall_cons_iff in Hb as [Hy Hb]. cbn [map map2].
      rewrite (proj1 (bzip_exp f n x y Hx Hy)). f_equal. exact (IH m2 Hb).
    + revert m2 Hb. induction Ha as [|x m1 Hx Ha IH]; intros m2 Hb; [constructor|].
      destruct m2 as [|y m2]; [constructor|]. apply Forall_cons_iff in Hb as [Hy Hb]. cbn [map2]. constructor.
      * exact (proj2 (bzip_exp f n x y Hx Hy)).
      * exact (IH m2 Hb).
Qed.

Lemma arr_zip_same {A B C} (f : A -> B -> C) n (a : arr A) (b : arr B) :
  arr_rows_len n a -> arr_rows_len n b -> is_A1 a = is_A1 b ->
  arr_rows_len n (arr_zip f a b) /\ is_A1 (arr_zip f a b) = is_A1 a.
Proof.
  destruct a as [r1|m1], b as [r2|m2]; cbn [arr_rows_len is_A1 arr_zip]; intros Ha Hb Hk; try discriminate.
  - split; [|reflexivity]. rewrite bzip_same by congruence. rewrite map2_length. lia.
  - split; [|reflexivity]. revert m2 Hb. induction Ha as [|x m1 Hx Ha IH]; intros m2 Hb; [constructor|].
    destruct m2 as [|y m2]; [constructor|]. apply Forall_cons_iff in Hb as [Hy Hb]. cbn [map2]. constructor.
    + rewrite bzip_same by congruence. rewrite map2_length. lia.
    + exact (IH m2 Hb).
Qed.

Lemma arr_map_exp {V W} (g : V -> W) n (b : arr V) : arr_map g (arr_exp n b) = arr_exp n (arr_map g b).
Proof.
  assert (R : forall r : list V, map g (exp_row n r) = exp_row n (map g r)).
  { intros r. destruct r as [|x [|x2 r]]; cbn [exp_row map]; try reflexivity.
    induction n as [|k IH]; [reflexivity|]. cbn [repeat map]. rewrite IH. reflexivity. }
  destruct b as [r|rs]; cbn [arr_exp arr_map]; [rewrite R; reflexivity|].
  f_equal. rewrite !map_map. apply map_ext. exact R.
Qed.

Lemma arr_map_rows_len {V W} (g : V -> W) n (a : arr V) : arr_rows_len n a -> arr_rows_len n (arr_map g a) /\ is_A1 (arr_map g a) = is_A1 a.
Proof.
  destruct a as [r|rs]; cbn [arr_rows_len arr_map is_A1]; intros H; split; try reflexivity.
  - rewrite map_length. exact H.
  - apply rows_len_map. exact H.
Qed.

(* the constructor of A[sel] depends on the selector only *)
Lemma index2_kind {V W} ng ne (A : list (list V)) (B : list (list W)) sel a b :
  index2 ng ne A sel = GOk a -> index2 ng ne B sel = GOk b -> is_A1 a = is_A1 b.
Proof.
  unfold index2. destruct (1 <? count_dots sel); [discriminate|].
  destruct (consumers sel) as [|it [|it2 [|it3 rest]]]; try discriminate.
  - intros H1 H2. inversion H1; inversion H2. reflexivity.
  - destruct (dots_before sel); destruct it as [z|sa sb ss|l|m| |];
      repeat match goal with
             | |- context [if ?c then _ else _] => destruct c
             | |- context [rbind (expand_multi ?n ?i) _] => destruct (expand_multi n i); cbn [rbind]
             | |- context [of_option _ (omap _ ?x)] => destruct x; cbn [omap of_option]
             end; try discriminate; intros H1 H2; inversion H1; inversion H2; reflexivity.
Qed.

Section BroadcastRx.
  Context {T : Type} (N : Num T).
  Local Notation K := (T * T)%type.

  Lemma gather_repeat {V} ng ne (A : list (list V)) sel dt j n : 1 <= n ->
    gather ng ne A sel dt (repeat j n) = rbind (gather ng ne A sel dt [j]) (fun b => GOk (arr_exp n b)).
  Proof.
    intros Hn. unfold gather. rewrite rbind_assoc. destruct (index2 ng ne A sel) as [a|e]; cbn [rbind]; [|reflexivity].
    destruct (idx_ok_fn dt); [|reflexivity]. rewrite (arr_take_repeat a j n Hn).
    destruct (arr_take a [j]); reflexivity.
  Qed.

  Lemma gather_shape {V} ng ne (A : list (list V)) sel dt idx b :
    gather ng ne A sel dt idx = GOk b ->
    exists a, index2 ng ne A sel = GOk a /\ arr_rows_len (length idx) b /\ is_A1 b = is_A1 a.
  Proof.
    unfold gather. destruct (index2 ng ne A sel) as [a|e]; cbn [rbind]; [|discriminate].
    destruct (idx_ok_fn dt); [|discriminate]. destruct (arr_take a idx) as [b'|] eqn:E; [|discriminate].
    intros H. inversion H; subst b'. exists a. split; [reflexivity|]. exact (arr_take_rows_len a b idx E).
  Qed.

  (* np.take(..., rx) with ONE receiver index gives a last axis of length 1, which numpy broadcasts against the
     numtimetraces columns gathered through tx: the same coefficients as with rx = [j] * numtimetraces *)
  Theorem fn_single_rx_is_broadcast (S : T -> T -> K) tx j qtx qrx ttx trx a np nel dtx drx sel :
    1 <= length tx ->
    getitem_fn_sel N S (mkAmp tx [j] qtx qrx ttx trx a np nel) dtx drx sel
    = getitem_fn_sel N S (mkAmp tx (repeat j (length tx)) qtx qrx ttx trx a np nel) dtx drx sel.
  Proof.
    intros Hn. unfold getitem_fn_sel. cbn [ma_tx ma_rx ma_qtx ma_qrx ma_ttx ma_trx ma_angle ma_numpoints ma_numelements].
    set (n := length tx) in *.
    destruct (guard_ndim np sel) as [d|e]; cbn [rbind]; [|reflexivity].
    destruct (1 <? d); [reflexivity|]. destruct (has_none sel); [reflexivity|].
    destruct (gather np nel ttx sel dtx tx) as [t1|e] eqn:G1; cbn [rbind]; [|reflexivity].
    rewrite !(gather_repeat np nel _ sel drx j n Hn).
    destruct (gather np nel trx sel drx [j]) as [t2|e] eqn:G2; cbn [rbind]; [|reflexivity].
    assert (B1 : broadcastable n 1 = true) by (unfold broadcastable; cbn; rewrite !orb_true_r; reflexivity).
    assert (B2 : broadcastable n n = true) by (unfold broadcastable; rewrite Nat.eqb_refl; reflexivity).
    rewrite repeat_length. cbn [length]. rewrite B1, B2. cbn [negb].
    destruct (gather np nel qtx sel dtx tx) as [q1|e] eqn:G3; cbn [rbind]; [|reflexivity].
    destruct (gather np nel qrx sel drx [j]) as [q2|e] eqn:G4; cbn [rbind]; [|reflexivity].
    destruct (gather_shape _ _ _ _ _ _ _ G1) as (a1 & I1 & L1 & K1).
    destruct (gather_shape _ _ _ _ _ _ _ G2) as (a2 & I2 & L2 & K2).
    destruct (gather_shape _ _ _ _ _ _ _ G3) as (a3 & I3 & L3 & K3).
    destruct (gather_shape _ _ _ _ _ _ _ G4) as (a4 & I4 & L4 & K4).
    fold n in L1, L3. cbn [length] in L2, L4.
    pose proof (index2_kind _ _ _ _ _ _ _ I1 I2) as K12. pose proof (index2_kind _ _ _ _ _ _ _ I1 I3) as K13.
    pose proof (index2_kind _ _ _ _ _ _ _ I1 I4) as K14.
    set (g := fun x : T => nsub N x a).
    destruct (arr_map_rows_len g n t1 L1) as [L1' K1']. destruct (arr_map_rows_len g 1 t2 L2) as [L2' K2'].
    rewrite arr_map_exp.
    destruct (arr_zip_exp S n (arr_map g t1) (arr_map g t2) L1' L2') as (E1 & LS & KS); [congruence|].
    rewrite E1.
    destruct (arr_zip_same (nmul (NumC N)) n _ q1 LS L3) as (LS2 & KS2); [congruence|].
    destruct (arr_zip_exp (nmul (NumC N)) n _ q2 LS2 L4) as (E2 & _ & _); [congruence|].
    rewrite E2. reflexivity.
  Qed.
End BroadcastRx.

(* ---------- tx and rx of lengths that do not broadcast: ValueError in the function class ------------------------ *)
Lemma take2_spec_total {V} ne ng (M : list (list V)) G idx :
  has_shape ne ng M = true -> forallb (zvalid ng) G = true -> Forall (valid_index ne) idx ->
  exists X, take2_spec ne ng M G idx = Some X.
Proof.
  intros Hs HG Hidx. unfold take2_spec. apply mapM_total. intros zg Hzg.
  rewrite forallb_forall in HG. specialize (HG zg Hzg). unfold zvalid in HG.
  destruct (norm_index ng zg) as [g|] eqn:Eg; [|discriminate]. cbn [bind].
  apply mapM_total. intros zi Hzi. rewrite Forall_forall in Hidx. specialize (Hidx zi Hzi).
  apply zvalid_spec in Hidx. unfold zvalid in Hidx. destruct (norm_index ne zi) as [i|] eqn:Ei; [|discriminate]. cbn [bind].
  exact (get2_some ne ng M i g Hs (norm_index_lt _ _ _ Ei) (norm_index_lt _ _ _ Eg)).
Qed.

Section LengthMismatch.
  Context {T : Type} (N : Num T).
  Local Notation K := (T * T)%type.
  Variables (tx rx : list Z) (ne ng : nat) (Qtx Qrx : list (list K)) (Ttx Trx : list (list T)) (a : T)
            (o : amplitudes (T := T)).
  Hypothesis Hf : factory tx rx ne ng Qtx Qrx Ttx Trx a = Some o.

  Theorem fn_length_mismatch_valueerror (S : T -> T -> K) dtx drx sel gd :
    grid_selector sel = true -> expand_sel ng sel = GOk gd ->
    idx_ok_fn dtx = true -> idx_ok_fn drx = true ->
    Forall (valid_index ne) tx -> Forall (valid_index ne) rx ->
    broadcastable (length tx) (length rx) = false ->
    getitem_fn_sel N S o dtx drx sel = GRaise EValue.
  Proof.
    intros Hg E Hdt Hdr Htx Hrx Hb. destruct gd as [G drop].
    destruct (factory_inv _ _ _ _ _ _ _ _ _ _ Hf) as (S1 & S2 & S3 & S4 & T1 & T2 & T3 & T4 & Etx & Erx & Ea & Enp & Ene).
    destruct (grid_selector_inv sel Hg) as [Hn _].
    pose proof (expand_sel_valid ng sel G drop E) as HG.
    unfold getitem_fn_sel. rewrite Enp, Ene, Etx, Erx, (guard_grid ng sel Hn), E. cbn [rbind snd].
    replace (1 <? (if drop then 0 else 1)) with false by (destruct drop; reflexivity). rewrite Hn.
    rewrite (gather_grid N ng ne _ sel dtx tx Hg (transpose_length ng Ttx _ T3) Hdt),
            (gather_grid N ng ne _ sel drx rx Hg (transpose_length ng Trx _ T4) Hdr), E. cbn [rbind fst snd].
    rewrite (take2_transposed ne ng Ttx _ G tx S3 T3), (take2_transposed ne ng Trx _ G rx S4 T4).
    destruct (take2_spec_total ne ng Ttx G tx S3 HG Htx) as (X1 & ->).
    destruct (take2_spec_total ne ng Trx G rx S4 HG Hrx) as (X2 & ->).
    cbn [omap of_option rbind]. rewrite Hb. reflexivity.
  Qed.
End LengthMismatch.

(* ---------- exact rationals: the guard is incomplete --------------------------------------------------------- *)
From Coq Require Import QArith.
From Arim Require Import Base.NumQ.

Section GuardWitness.
  Local Open Scope Q_scope.
  Let cq (x y : Q) : Q * Q := (x, y).
  Let Qtx := [[cq 1 2; cq 3 (-1); cq (1#2) 0]; [cq (-2) 1; cq 0 3; cq 5 (1#4)]].
  Let Qrx := [[cq 2 0; cq 1 1; cq (-1) 2]; [cq (3#2) (-1); cq 4 0; cq 0 (-2)]].
  Let Ttx := [[1#4; 1#2; 3#4]; [-(1#4); -(1#2); -(3#4)]].
  Let Trx := [[1#8; 3#8; 5#8]; [-(1#8); -(3#8); -(5#8)]].
  Let S (x y : Q) : Q * Q := (1 + 2 * x + 3 * y, x * y).
  Let tx := [0; 1; 1; -1]%Z.
  Let rx := [1; 0; -1; 0]%Z.

  Definition same_row (r1 r2 : list (Q * Q)) : bool :=
    (length r1 =? length r2)%nat && forallb (fun p => Qeq_bool (fst (fst p)) (fst (snd p)) && Qeq_bool (snd (fst p)) (snd (snd p))) (combine r1 r2).

  (* the docstring of ModelAmplitudes: "Only the first dimension must be indexed ... Indexing the second
     dimension will fail".  It does not for model_amplitudes[..., 0]: a value is returned, and it is no row
     of model_amplitudes[...] *)
  Lemma guard_incomplete_witness :
    exists o F row,
      factory tx rx 2 3 Qtx Qrx Ttx Trx (1#8) = Some o /\
      getitem_fn NumQ S o (all_points 3) = Some F /\
      getitem_fn_sel NumQ S o DtInt DtInt [GDots; GInt 0] = GOk (A1 row) /\
      length row = length tx /\ existsb (same_row row) F = false.
  Proof.
    destruct (factory tx rx 2 3 Qtx Qrx Ttx Trx (1#8)) as [o|] eqn:E; [|vm_compute in E; discriminate].
    exists o. vm_compute in E. inversion E; subst o. clear E.
    eexists. eexists. split; [reflexivity|]. split; [vm_compute; reflexivity|].
    split; [vm_compute; reflexivity|]. split; vm_compute; reflexivity.
  Qed.
End GuardWitness.

(* ---------- over the reals: an exactly zero weight gives an exactly zero coefficient ---------------------------- *)
From Coq Require Import Reals.
From Arim Require Import Base.NumR.

Section ZeroWeights.
  Local Open Scope R_scope.

  Lemma model_amplitude_zero_tx (S : R -> R -> R * R) a q' th th' :
    model_amplitude NumR S a (0, 0) q' th th' = (0, 0).
  Proof. cbv [model_amplitude nmul nadd NumC cmul nsub NumR fst snd]. destruct (S (th - a) (th' - a)), q'. f_equal; ring. Qed.

  Lemma model_amplitude_zero_rx (S : R -> R -> R * R) a q th th' :
    model_amplitude NumR S a q (0, 0) th th' = (0, 0).
  Proof. cbv [model_amplitude nmul nadd NumC cmul nsub NumR fst snd]. destruct (S (th - a) (th' - a)), q. f_equal; ring. Qed.

  (* whatever the (finite: real) scattering value: if the transmit weight of element tx[k] or the receive
     weight of element rx[k] at the grid point is exactly zero, so is P[p][k] *)
  Theorem zero_weight_zero_coefficient (S : R -> R -> R * R) a ne ng Qtx Qrx Ttx Trx tx rx G P p k zg zi zj g i j :
    spec_amp NumR S a ne ng Qtx Qrx Ttx Trx tx rx G = Some P ->
    nth_error G p = Some zg -> nth_error tx k = Some zi -> nth_error rx k = Some zj ->
    norm_index ng zg = Some g -> norm_index ne zi = Some i -> norm_index ne zj = Some j ->
    get2 Qtx i g = Some (0, 0) \/ get2 Qrx j g = Some (0, 0) ->
    get2 P p k = Some (0, 0).
  Proof.
    intros H Hp Hi Hj Eg Ei Ej Hz.
    destruct (spec_amp_sound NumR S a ne ng Qtx Qrx Ttx Trx tx rx G P H) as [_ Hent].
    destruct (Hent p zg Hp) as (g' & row & Eg' & Hrow & _ & Hk).
    rewrite Eg in Eg'. inversion Eg'; subst g'.
    destruct (Hk k zi zj Hi Hj) as (i' & j' & q & q' & th & th' & A1 & A2 & A3 & A4 & _ & _ & A7).
    rewrite Ei in A1. rewrite Ej in A2. inversion A1; inversion A2; subst i' j'.
    unfold get2. rewrite Hrow. cbn [bind]. rewrite A7. f_equal.
    destruct Hz as [Hz|Hz].
    - rewrite A3 in Hz. inversion Hz. apply model_amplitude_zero_tx.
    - rewrite A4 in Hz. inversion Hz. apply model_amplitude_zero_rx.
  Qed.
End ZeroWeights.

(* ---------- ray_weights_for_views, then model_amplitudes_factory ---------------------------------------------- *)
Section Compose.
  Context {T : Type} (N : Num T).
  Local Notation K := (T * T)%type.
  Variables (paths : list (gpath (T := T))) (views : list view) (f : T) (width : option T)
            (ud ub ut ua sd : bool) (R : ray_weights_nt (T := T)).
  Hypothesis HR : ray_weights_for_views_full N paths views f width ud ub ut ua sd = Some R.

  (* what the namedtuple holds for a view of the call *)
  Theorem computed_weights_of_a_view v : In v views ->
    exists gpt gpr Qtx Qrx,
      nth_error paths (v_tx v) = Some gpt /\ nth_error paths (v_rx v) = Some gpr /\
      path_tx_weights N ud ut ub ua width f (gp_path gpt) = Some Qtx /\
      path_rx_weights N ud ut ub ua width f (gp_path gpr) = Some Qrx /\
      dget (rw_txd R) (v_tx v) = Some Qtx /\ dget (rw_rxd R) (v_rx v) = Some Qrx /\
      dget (rw_angd R) (v_tx v) = Some (p_angles (gp_path gpt)) /\
      dget (rw_angd R) (v_rx v) = Some (p_angles (gp_path gpr)).
  Proof.
    intros Hv. destruct (full_refines_reduced N paths views f width ud ub ut ua sd R HR) as (rw & Hrw & Hd).
    destruct (rwfv_view N (map gp_path paths) views f width ud ub ut ua rw v Hrw Hv)
      as (ptx & prx & Qtx & Qrx & E1 & E2 & E3 & E4 & E5 & E6 & E7 & E8).
    rewrite nth_error_map in E1, E2.
    destruct (nth_error paths (v_tx v)) as [gpt|]; [|discriminate]. destruct (nth_error paths (v_rx v)) as [gpr|]; [|discriminate].
    cbn [option_map] in E1, E2. inversion E1; inversion E2; subst ptx prx.
    exists gpt, gpr, Qtx, Qrx. repeat (split; [reflexivity|]). split; [exact E3|]. split; [exact E4|].
    destruct (Hd (v_tx v)) as (D1 & _ & D3). destruct (Hd (v_rx v)) as (_ & D2' & D3').
    rewrite D1, D2', D3, D3'. repeat split; assumption.
  Qed.

  (* for a view of the call whose scattering key is provided, the factory never raises KeyError *)
  Theorem factory_no_keyerror_for_views_of_the_call tx rx v scat a :
    In v views -> sget scat (v_scat v) <> None ->
    model_amplitudes_factory tx rx v R scat a <> GRaise EKey.
  Proof.
    intros Hv Hs C. apply maf_keyerror_iff in C.
    destruct (computed_weights_of_a_view v Hv) as (gpt & gpr & Qtx & Qrx & _ & _ & _ & _ & D1 & D2 & D3 & D4).
    destruct C as [C|[C|[C|[C|C]]]]; congruence.
  Qed.

  (* a view through whose tx path no view of the call transmits (or through whose rx path none receives): its
     path has no entry in that dictionary, KeyError — even when the path has an entry in the other one *)
  Theorem factory_keyerror_for_foreign_path tx rx v scat a :
    ~ In (v_tx v) (map v_tx views) \/ ~ In (v_rx v) (map v_rx views) ->
    model_amplitudes_factory tx rx v R scat a = GRaise EKey.
  Proof.
    intros Hn. apply maf_keyerror_iff.
    destruct (full_refines_reduced N paths views f width ud ub ut ua sd R HR) as (rw & Hrw & Hd).
    destruct Hn as [Hn|Hn].
    - right. left. rewrite (proj1 (Hd (v_tx v))).
      exact (rwfv_no_tx N (map gp_path paths) views f width ud ub ut ua rw (v_tx v) Hrw Hn).
    - right. right. left. rewrite (proj1 (proj2 (Hd (v_rx v)))).
      exact (rwfv_no_rx N (map gp_path paths) views f width ud ub ut ua rw (v_rx v) Hrw Hn).
  Qed.
End Compose.
