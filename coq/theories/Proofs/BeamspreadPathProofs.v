(* Proofs/BeamspreadPathProofs.v — lemmas about Model/BeamspreadPath.v (C06), part 1:
   the glue of beamspread_2d_for_path / reverse_beamspread_2d_for_path around the
   arithmetic of Model/Beamspread.v.  Everything in this file holds for ANY numeric
   instance (no real-number reasoning, no axiom). *)
From Coq Require Import List ZArith Bool Arith Lia.
From Arim Require Import Base.Num Model.Vec3 Model.RayGeom Model.Beamspread Model.BeamspreadPath
                         Proofs.RayGeomProofs.
Import ListNotations.

(* ---- rmapM ------------------------------------------------------------------- *)
Lemma rmapM_cons_inv {A B} (f : A -> res B) a l r :
  rmapM f (a :: l) = Val r -> exists b bs, f a = Val b /\ rmapM f l = Val bs /\ r = b :: bs.
Proof.
  cbn [rmapM]. destruct (f a) as [b| | |]; cbn [rbind]; try discriminate.
  destruct (rmapM f l) as [bs| | |]; cbn [rbind]; try discriminate.
  intros E. injection E as <-. eauto.
Qed.

Lemma rmapM_cons_val {A B} (f : A -> res B) a l b bs :
  f a = Val b -> rmapM f l = Val bs -> rmapM f (a :: l) = Val (b :: bs).
Proof. intros E1 E2. cbn [rmapM]. rewrite E1. cbn [rbind]. rewrite E2. reflexivity. Qed.

Lemma rmapM_length {A B} (f : A -> res B) l : forall r, rmapM f l = Val r -> length r = length l.
Proof.
  induction l as [|a l IH]; intros r H.
  - injection H as <-. reflexivity.
  - apply rmapM_cons_inv in H. destruct H as (b & bs & _ & H & ->). simpl. f_equal. apply IH. exact H.
Qed.

Lemma rmapM_nth {A B} (f : A -> res B) l : forall r, rmapM f l = Val r ->
  forall i k, nth_error l i = Some k -> exists x, nth_error r i = Some x /\ f k = Val x.
Proof.
  induction l as [|a l IH]; intros r H i k Hk.
  - destruct i; discriminate.
  - apply rmapM_cons_inv in H. destruct H as (b & bs & Hb & H & ->).
    destruct i as [|i].
    + injection Hk as <-. exists b. split; [reflexivity | exact Hb].
    + simpl in Hk. simpl. apply (IH bs H i k Hk).
Qed.

Lemma rmapM_build {A B} (f : A -> res B) l : forall r, length l = length r ->
  (forall i k x, nth_error l i = Some k -> nth_error r i = Some x -> f k = Val x) ->
  rmapM f l = Val r.
Proof.
  induction l as [|a l IH]; intros r Hl H.
  - destruct r; [reflexivity | discriminate].
  - destruct r as [|b bs]; [discriminate|].
    apply rmapM_cons_val.
    + apply (H 0 a b); reflexivity.
    + apply IH; [simpl in Hl; lia|]. intros i k x Hk Hx. apply (H (S i) k x); assumption.
Qed.

Lemma rmapM_ext_in {A B} (f g : A -> res B) l :
  (forall k, In k l -> f k = g k) -> rmapM f l = rmapM g l.
Proof.
  induction l as [|a l IH]; intros H; [reflexivity|].
  cbn [rmapM]. rewrite (H a) by (left; reflexivity). rewrite IH; [reflexivity|].
  intros k Hk. apply H. right. exact Hk.
Qed.

(* a loop body that first calls `f k`: if the loop succeeds, every `f k` succeeded *)
Lemma rmapM_first_call {A B C} (f : A -> res B) (g : A -> B -> res C) l : forall r,
  rmapM (fun k => rbind (f k) (g k)) l = Val r -> exists r', rmapM f l = Val r'.
Proof.
  induction l as [|a l IH]; intros r H; [exists []; reflexivity|].
  apply rmapM_cons_inv in H. destruct H as (b & bs & Hb & H & ->).
  destruct (IH bs H) as [r' Hr']. destruct (f a) as [x| | |] eqn:Ea; cbn [rbind] in Hb; try discriminate.
  exists (x :: r'). apply rmapM_cons_val; assumption.
Qed.

Lemma fold_left_ext_res {A B} (f g : A -> B -> A) l : (forall a b, f a b = g a b) ->
  forall a0, fold_left f l a0 = fold_left g l a0.
Proof. intros H. induction l as [|b l IH]; intros a0; [reflexivity|]. cbn [fold_left]. rewrite H. apply IH. Qed.

Lemma rmapM_map {A A' B} (h : A' -> A) (f : A -> res B) l : rmapM f (map h l) = rmapM (fun k => f (h k)) l.
Proof. induction l as [|a l IH]; [reflexivity|]. cbn [map rmapM]. rewrite IH. reflexivity. Qed.

(* ---- range(1, n) ----------------------------------------------------------------- *)
Lemma range1_of_nat (m : nat) : range1 (Z.of_nat (S m)) = map Z.of_nat (seq 1 m).
Proof. unfold range1. do 2 f_equal. lia. Qed.

Lemma range1_small n : (n <= 1)%Z -> range1 n = [].
Proof. intros H. unfold range1. replace (Z.to_nat (n - 1)) with 0 by lia. reflexivity. Qed.

Lemma range1_in n k : In k (range1 n) -> (1 <= k <= n - 1)%Z.
Proof.
  unfold range1. intros H. apply in_map_iff in H. destruct H as (i & <- & Hi).
  apply in_seq in Hi. lia.
Qed.

Lemma nth_error_Some_lt {A} (l : list A) i x : nth_error l i = Some x -> i < length l.
Proof. intros H. apply nth_error_Some. rewrite H. discriminate. Qed.

Lemma nth_error_seq s m i : i < m -> nth_error (seq s m) i = Some (s + i).
Proof.
  revert s i. induction m as [|m IH]; intros s i H; [lia|].
  destruct i as [|i]; simpl; [f_equal; lia|]. rewrite IH by lia. f_equal. lia.
Qed.

Lemma nth_error_map_seq {A} (h : nat -> A) s m i k :
  nth_error (map h (seq s m)) i = Some k -> i < m /\ k = h (s + i).
Proof.
  intros H. assert (Hi : i < m).
  { apply nth_error_Some_lt in H. rewrite map_length, seq_length in H. exact H. }
  split; [exact Hi|]. rewrite nth_error_map, nth_error_seq in H by exact Hi. injection H as <-. reflexivity.
Qed.

Lemma list_head_tail {A} (l : list A) n : length l = S n -> exists x r, l = x :: r /\ length r = n.
Proof. destruct l as [|x r]; [discriminate|]. intros H. exists x, r. split; [reflexivity | simpl in H; lia]. Qed.

(* ---- pointwise description of the gamma lists --------------------------------- *)
Section Lists.
  Context {T : Type} (N : Num T).

  Lemma gamma_list_cons2 v0 v1 vel th thetas :
    gamma_list N (v0 :: v1 :: vel) (th :: thetas) = gamma_of N v0 v1 th :: gamma_list N (v1 :: vel) thetas.
  Proof. reflexivity. Qed.
  Lemma rev_gamma_list_cons2 v0 v1 vel th thetas :
    rev_gamma_list N (v0 :: v1 :: vel) (th :: thetas) = rev_gamma_of N v0 v1 th :: rev_gamma_list N (v1 :: vel) thetas.
  Proof. reflexivity. Qed.

  Lemma gamma_list_length : forall vel thetas,
    length (gamma_list N vel thetas) = Nat.min (length vel - 1) (length thetas).
  Proof.
    induction vel as [|v0 vel IH]; intros thetas; [reflexivity|].
    destruct vel as [|v1 vel]; [reflexivity|]. destruct thetas as [|th thetas]; [reflexivity|].
    rewrite gamma_list_cons2. cbn [length]. rewrite IH. cbn [length]. lia.
  Qed.

  Lemma rev_gamma_list_length : forall rvel rthetas,
    length (rev_gamma_list N rvel rthetas) = Nat.min (length rvel - 1) (length rthetas).
  Proof.
    induction rvel as [|v0 vel IH]; intros thetas; [reflexivity|].
    destruct vel as [|v1 vel]; [reflexivity|]. destruct thetas as [|th thetas]; [reflexivity|].
    rewrite rev_gamma_list_cons2. cbn [length]. rewrite IH. cbn [length]. lia.
  Qed.

  Lemma gamma_list_nth : forall vel thetas i g,
    nth_error (gamma_list N vel thetas) i = Some g ->
    exists v0 v1 th, nth_error vel i = Some v0 /\ nth_error vel (S i) = Some v1 /\
                     nth_error thetas i = Some th /\ g = gamma_of N v0 v1 th.
  Proof.
    induction vel as [|v0 vel IH]; intros thetas i g H; [destruct i; discriminate|].
    destruct vel as [|v1 vel]; [destruct i; discriminate|].
    destruct thetas as [|th thetas]; [destruct i; discriminate|].
    rewrite gamma_list_cons2 in H. destruct i as [|i].
    - injection H as <-. exists v0, v1, th. repeat split; reflexivity.
    - cbn [nth_error] in H. destruct (IH thetas i g H) as (a & b & t & Ha & Hb & Ht & ->).
      exists a, b, t. repeat split; assumption.
  Qed.

  Lemma rev_gamma_list_nth : forall rvel rthetas i g,
    nth_error (rev_gamma_list N rvel rthetas) i = Some g ->
    exists v0 v1 th, nth_error rvel i = Some v0 /\ nth_error rvel (S i) = Some v1 /\
                     nth_error rthetas i = Some th /\ g = rev_gamma_of N v0 v1 th.
  Proof.
    induction rvel as [|v0 vel IH]; intros thetas i g H; [destruct i; discriminate|].
    destruct vel as [|v1 vel]; [destruct i; discriminate|].
    destruct thetas as [|th thetas]; [destruct i; discriminate|].
    rewrite rev_gamma_list_cons2 in H. destruct i as [|i].
    - injection H as <-. exists v0, v1, th. repeat split; reflexivity.
    - cbn [nth_error] in H. destruct (IH thetas i g H) as (a & b & t & Ha & Hb & Ht & ->).
      exists a, b, t. repeat split; assumption.
  Qed.

  Lemma nth_error_rev {A} (l : list A) i : i < length l ->
    nth_error (rev l) i = nth_error l (length l - 1 - i).
  Proof.
    intros H. destruct (nth_error l (length l - 1 - i)) as [x|] eqn:E.
    - rewrite (nth_error_nth' (rev l) x) by (rewrite rev_length; exact H).
      rewrite rev_nth by exact H. replace (length l - S i) with (length l - 1 - i) by lia.
      rewrite (nth_error_nth' l x) in E by lia. exact E.
    - apply nth_error_None in E. lia.
  Qed.
End Lists.

(* ---- the two functions factor through the three lists ------------------------- *)
Section Factor.
  Context {T : Type} (N : Num T).
  Variable ifs : list (iface (T:=T)).
  Variable ray : list nat.
  Variable vel : list T.

  Lemma vel_at_nat a x : nth_error vel a = Some x -> vel_at vel (Z.of_nat a) = Val x.
  Proof.
    intros H. unfold vel_at. rewrite resolve_of_nat by (apply nth_error_Some_lt in H; exact H).
    rewrite H. reflexivity.
  Qed.

  Lemma vel_at_val idx x : vel_at vel idx = Val x -> exists a, resolve (length vel) idx = Some a /\ nth_error vel a = Some x.
  Proof.
    unfold vel_at. destruct (resolve (length vel) idx) as [a|]; [|discriminate].
    destruct (nth_error vel a) as [y|] eqn:Ey; cbn [of_opt]; [|discriminate].
    intros E. injection E as <-. exists a. split; [reflexivity | exact Ey].
  Qed.

  (* the second loop, for any way `legf` of choosing the leg read at step k *)
  Definition vd_step (legf : Z -> res T) (gl : list T) (acc : res T) (k : Z) : res T :=
    rbind acc (fun vd => rbind (legf k) (fun r =>
      Val (nadd N vd (ndiv N r (gamma_prefix N gl (Z.to_nat k)))))).

  Lemma vd_fold_err legf gl ks : forall e : res T, (forall x, e <> Val x) ->
    fold_left (vd_step legf gl) ks e = e.
  Proof.
    induction ks as [|k ks IH]; intros e He; [reflexivity|].
    cbn [fold_left]. assert (E : vd_step legf gl e k = e).
    { unfold vd_step. destruct e; cbn [rbind]; try reflexivity. exfalso. apply (He a). reflexivity. }
    rewrite E. apply IH. exact He.
  Qed.

  Lemma vd_fold_val legf gl : forall (ks : list nat) rest acc,
    rmapM legf (map Z.of_nat ks) = Val rest ->
    fold_left (vd_step legf gl) (map Z.of_nat ks) (Val acc)
    = Val (fold_left (fun vd kr => nadd N vd (ndiv N (snd kr) (gamma_prefix N gl (fst kr)))) (combine ks rest) acc).
  Proof.
    induction ks as [|k ks IH]; intros rest acc H.
    - reflexivity.
    - cbn [map] in H. apply rmapM_cons_inv in H. destruct H as (r & rs & Hr & H & ->).
      cbn [map fold_left combine]. unfold vd_step at 2. cbn [rbind]. rewrite Hr. cbn [rbind fst snd].
      rewrite Nat2Z.id. apply IH. exact H.
  Qed.

  (* if the second loop succeeds, every leg read succeeded *)
  Lemma vd_fold_val_inv legf gl : forall (ks : list Z) acc v,
    fold_left (vd_step legf gl) ks (Val acc) = Val v -> exists rest, rmapM legf ks = Val rest.
  Proof.
    induction ks as [|k ks IH]; intros acc v H; [exists []; reflexivity|].
    cbn [fold_left] in H. unfold vd_step at 2 in H. cbn [rbind] in H.
    destruct (legf k) as [r| | |] eqn:Er; cbn [rbind] in H.
    - destruct (IH _ _ H) as [rest Hrest]. exists (r :: rest). apply rmapM_cons_val; assumption.
    - rewrite vd_fold_err in H by (intros x; discriminate). discriminate.
    - rewrite vd_fold_err in H by (intros x; discriminate). discriminate.
    - rewrite vd_fold_err in H by (intros x; discriminate). discriminate.
  Qed.

  (* number of legs n' (numinterfaces = n' + 1) *)
  Variable n' : nat.
  Hypothesis Hifs : length ifs = S n'.

  Lemma n_of_path_nat : n_of_path ifs = Z.of_nat n'.
  Proof. unfold n_of_path, numinterfaces. rewrite Hifs. lia. Qed.

  Lemma path_legs_eq : path_legs N ifs ray = rmapM (inc_leg_size N ifs ray) (map Z.of_nat (seq 1 n')).
  Proof. unfold path_legs. rewrite n_of_path_nat, Nat2Z.id. reflexivity. Qed.

  Lemma path_thetas_eq : path_thetas N ifs ray = rmapM (conventional_inc_angle N ifs ray) (map Z.of_nat (seq 1 (n' - 1))).
  Proof.
    unfold path_thetas. rewrite n_of_path_nat. unfold range1. do 3 f_equal. lia.
  Qed.

  Lemma range1_n : range1 (n_of_path ifs) = map Z.of_nat (seq 1 (n' - 1)).
  Proof. rewrite n_of_path_nat. unfold range1. do 2 f_equal. lia. Qed.

  Section WithLists.
    Variables legs thetas : list T.
    Hypothesis Hlegs : path_legs N ifs ray = Val legs.
    Hypothesis Hthetas : path_thetas N ifs ray = Val thetas.

    Lemma legs_length : length legs = n'.
    Proof. rewrite path_legs_eq in Hlegs. apply rmapM_length in Hlegs. rewrite map_length, seq_length in Hlegs. exact Hlegs. Qed.
    Lemma thetas_length : length thetas = n' - 1.
    Proof. rewrite path_thetas_eq in Hthetas. apply rmapM_length in Hthetas. rewrite map_length, seq_length in Hthetas. exact Hthetas. Qed.

    (* inc_leg_size(j) = legs[j-1] for j = 1..n' ; conventional_inc_angle(j) = thetas[j-1] for j = 1..n'-1 *)
    Lemma leg_read j : 1 <= j <= n' -> exists r, nth_error legs (j - 1) = Some r /\ inc_leg_size N ifs ray (Z.of_nat j) = Val r.
    Proof.
      intros Hj. rewrite path_legs_eq in Hlegs.
      assert (Hk : nth_error (map Z.of_nat (seq 1 n')) (j - 1) = Some (Z.of_nat j)).
      { rewrite nth_error_map, nth_error_seq by lia. cbn [option_map]. do 2 f_equal. lia. }
      exact (rmapM_nth _ _ _ Hlegs _ _ Hk).
    Qed.
    Lemma theta_read j : 1 <= j <= n' - 1 ->
      exists th, nth_error thetas (j - 1) = Some th /\ conventional_inc_angle N ifs ray (Z.of_nat j) = Val th.
    Proof.
      intros Hj. rewrite path_thetas_eq in Hthetas.
      assert (Hk : nth_error (map Z.of_nat (seq 1 (n' - 1))) (j - 1) = Some (Z.of_nat j)).
      { rewrite nth_error_map, nth_error_seq by lia. cbn [option_map]. do 2 f_equal. lia. }
      exact (rmapM_nth _ _ _ Hthetas _ _ Hk).
    Qed.

    (* ---- first loop, forward ---- *)
    Lemma fwd_gamma_loop : n' <= length vel ->
      rmapM (fwd_gamma_at N ifs ray vel) (range1 (n_of_path ifs)) = Val (gamma_list N vel thetas).
    Proof.
      intros Hvel. rewrite range1_n. apply rmapM_build.
      - rewrite map_length, seq_length, gamma_list_length, thetas_length. lia.
      - intros i k g Hk Hg. apply nth_error_map_seq in Hk. destruct Hk as [Hi ->].
        apply gamma_list_nth in Hg. destruct Hg as (v0 & v1 & th & H0 & H1 & Hth & ->).
        destruct (theta_read (1 + i) ltac:(lia)) as (th' & Hth' & Hc).
        replace (1 + i - 1) with i in Hth' by lia. rewrite Hth in Hth'. injection Hth' as <-.
        unfold fwd_gamma_at. rewrite Hc. cbn [rbind].
        replace (Z.of_nat (1 + i) - 1)%Z with (Z.of_nat i) by lia.
        rewrite (vel_at_nat _ _ H0). cbn [rbind].
        replace (Z.of_nat (1 + i)) with (Z.of_nat (S i)) by (f_equal; lia).
        rewrite (vel_at_nat _ _ H1). reflexivity.
    Qed.

    (* ---- first loop, reverse ---- *)
    Lemma rev_gamma_loop : length vel = n' ->
      rmapM (rev_gamma_at N ifs ray vel (n_of_path ifs)) (range1 (n_of_path ifs))
      = Val (rev_gamma_list N (rev vel) (rev thetas)).
    Proof.
      intros Hvel. rewrite range1_n. apply rmapM_build.
      - rewrite map_length, seq_length, rev_gamma_list_length, !rev_length, thetas_length. lia.
      - intros i k g Hk Hg. apply nth_error_map_seq in Hk. destruct Hk as [Hi ->].
        apply rev_gamma_list_nth in Hg. destruct Hg as (v0 & v1 & th & H0 & H1 & Hth & ->).
        rewrite nth_error_rev in H0 by lia. rewrite nth_error_rev in H1 by lia.
        rewrite nth_error_rev in Hth by (rewrite thetas_length; lia). rewrite thetas_length in Hth.
        rewrite Hvel in H0, H1.
        destruct (theta_read (n' - (1 + i)) ltac:(lia)) as (th' & Hth' & Hc).
        replace (n' - (1 + i) - 1) with (n' - 1 - 1 - i) in Hth' by lia. rewrite Hth in Hth'. injection Hth' as <-.
        unfold rev_gamma_at. rewrite n_of_path_nat.
        replace (Z.of_nat n' - Z.of_nat (1 + i))%Z with (Z.of_nat (n' - (1 + i))) by lia.
        rewrite Hc. cbn [rbind].
        replace (n' - (1 + i)) with (n' - 1 - i) by lia. rewrite (vel_at_nat _ _ H0). cbn [rbind].
        replace (Z.of_nat (n' - 1 - i) - 1)%Z with (Z.of_nat (n' - 1 - S i)) by lia.
        rewrite (vel_at_nat _ _ H1). reflexivity.
    Qed.

    (* ---- the whole functions ---- *)
    Lemma beamspread_path_factors : 1 <= n' -> n' <= length vel ->
      beamspread_2d_for_path N ifs ray vel = Val (beamspread N vel legs thetas).
    Proof.
      intros Hn Hvel. unfold beamspread_2d_for_path. cbv zeta.
      rewrite fwd_gamma_loop by exact Hvel. cbn [rbind].
      pose proof legs_length as Hll.
      destruct (list_head_tail legs (n' - 1) ltac:(lia)) as (r1 & rest & El & Hlr).
      destruct (leg_read 1 ltac:(lia)) as (r & Hr & Hs). rewrite El in Hr. injection Hr as <-.
      change (Z.of_nat 1) with 1%Z in Hs. rewrite Hs. cbn [rbind].
      rewrite range1_n.
      change (fwd_vd_step N ifs ray (gamma_list N vel thetas))
        with (vd_step (fun k => inc_leg_size N ifs ray (k + 1)) (gamma_list N vel thetas)).
      rewrite (vd_fold_val _ _ (seq 1 (n' - 1)) rest r1).
      - cbn [rbind]. rewrite El. unfold beamspread, virtual_distance.
        rewrite Hlr. reflexivity.
      - apply rmapM_build.
        + rewrite map_length, seq_length. lia.
        + intros i k x Hk Hx. apply nth_error_map_seq in Hk. destruct Hk as [Hi ->].
          destruct (leg_read (2 + i) ltac:(lia)) as (r' & Hr' & Hs').
          replace (2 + i - 1) with (S i) in Hr' by lia. rewrite El in Hr'. cbn [nth_error] in Hr'.
          rewrite Hx in Hr'. injection Hr' as <-.
          replace (Z.of_nat (1 + i) + 1)%Z with (Z.of_nat (2 + i)) by lia. exact Hs'.
    Qed.

    Lemma reverse_beamspread_path_factors : 1 <= n' -> length vel = n' ->
      reverse_beamspread_2d_for_path N ifs ray vel = Val (reverse_beamspread N vel legs thetas).
    Proof.
      intros Hn Hvel. unfold reverse_beamspread_2d_for_path. cbv zeta.
      rewrite rev_gamma_loop by exact Hvel. cbn [rbind].
      pose proof legs_length as Hll.
      destruct (leg_read n' ltac:(lia)) as (rn & Hrn & Hsn).
      rewrite n_of_path_nat at 1. rewrite Hsn. cbn [rbind].
      rewrite range1_n.
      change (rev_vd_step N ifs ray (n_of_path ifs) (rev_gamma_list N (rev vel) (rev thetas)))
        with (vd_step (fun k => inc_leg_size N ifs ray (n_of_path ifs - k)) (rev_gamma_list N (rev vel) (rev thetas))).
      assert (Hrev : exists rest', rev legs = rn :: rest' /\ length rest' = n' - 1).
      { destruct (rev legs) as [|x rest'] eqn:Er.
        - apply (f_equal (@length T)) in Er. rewrite rev_length in Er. simpl in Er. lia.
        - exists rest'. assert (Hx : nth_error (rev legs) 0 = Some x) by (rewrite Er; reflexivity).
          rewrite nth_error_rev in Hx by lia. rewrite Hll in Hx. replace (n' - 1 - 0) with (n' - 1) in Hx by lia.
          rewrite Hrn in Hx. injection Hx as <-. split; [reflexivity|].
          apply (f_equal (@length T)) in Er. rewrite rev_length in Er. simpl in Er. lia. }
      destruct Hrev as (rest' & Hrev & Hlr).
      rewrite (vd_fold_val _ _ (seq 1 (n' - 1)) rest' rn).
      - cbn [rbind]. unfold reverse_beamspread, virtual_distance. rewrite Hrev, Hlr. reflexivity.
      - apply rmapM_build.
        + rewrite map_length, seq_length. lia.
        + intros i k x Hk Hx. apply nth_error_map_seq in Hk. destruct Hk as [Hi ->].
          assert (Hx' : nth_error (rev legs) (S i) = Some x) by (rewrite Hrev; exact Hx).
          rewrite nth_error_rev in Hx' by lia. rewrite Hll in Hx'.
          destruct (leg_read (n' - (1 + i)) ltac:(lia)) as (r' & Hr' & Hs').
          replace (n' - (1 + i) - 1) with (n' - 1 - S i) in Hr' by lia. rewrite Hx' in Hr'. injection Hr' as <-.
          rewrite n_of_path_nat. replace (Z.of_nat n' - Z.of_nat (1 + i))%Z with (Z.of_nat (n' - (1 + i))) by lia.
          exact Hs'.
    Qed.
  End WithLists.
End Factor.

(* ---- when do the functions answer a value? ------------------------------------ *)
Section Defined.
  Context {T : Type} (N : Num T).
  Variable ifs : list (iface (T:=T)).
  Variable ray : list nat.
  Variable vel : list T.

  Lemma inc_leg_size_val_two idx r : inc_leg_size N ifs ray idx = Val r -> 2 <= length ifs.
  Proof.
    unfold inc_leg_size, guarded, numinterfaces.
    destruct (resolve (length ifs) idx) as [a|] eqn:E; [|discriminate].
    apply resolve_lt in E. destruct a as [|a]; [cbn [Nat.eqb]; discriminate|]. intros _. lia.
  Qed.

  (* no interface at all / a single interface: both functions raise; the kinds differ *)
  Lemma no_interface : ifs = [] ->
    beamspread_2d_for_path N ifs ray vel = IndexErr /\ reverse_beamspread_2d_for_path N ifs ray vel = IndexErr.
  Proof. intros ->. split; reflexivity. Qed.

  Lemma one_interface f : ifs = [f] ->
    beamspread_2d_for_path N ifs ray vel = IndexErr /\ reverse_beamspread_2d_for_path N ifs ray vel = NoLeg.
  Proof. intros ->. split; reflexivity. Qed.

  Variable n' : nat.
  Hypothesis Hifs : length ifs = S n'.

  Lemma fwd_defined_inv x : beamspread_2d_for_path N ifs ray vel = Val x ->
    1 <= n' /\ exists legs thetas, path_legs N ifs ray = Val legs /\ path_thetas N ifs ray = Val thetas.
  Proof.
    unfold beamspread_2d_for_path. cbv zeta. intros H.
    destruct (rmapM (fwd_gamma_at N ifs ray vel) (range1 (n_of_path ifs))) as [gl| | |] eqn:Eg; cbn [rbind] in H; try discriminate.
    destruct (inc_leg_size N ifs ray 1) as [r1| | |] eqn:E1; cbn [rbind] in H; try discriminate.
    destruct (fold_left (fwd_vd_step N ifs ray gl) (range1 (n_of_path ifs)) (Val r1)) as [vd| | |] eqn:Ef; cbn [rbind] in H; try discriminate.
    pose proof (inc_leg_size_val_two _ _ E1) as H2. split; [lia|].
    unfold fwd_gamma_at in Eg. apply rmapM_first_call in Eg. destruct Eg as [thetas Hth].
    change (fwd_vd_step N ifs ray gl) with (vd_step N (fun k => inc_leg_size N ifs ray (k + 1)) gl) in Ef.
    apply vd_fold_val_inv in Ef. destruct Ef as [rest Hrest].
    exists (r1 :: rest), thetas. split; [|exact Hth].
    rewrite (path_legs_eq N ifs ray n' Hifs).
    destruct n' as [|m]; [lia|]. cbn [seq map]. apply rmapM_cons_val; [exact E1|].
    rewrite (range1_n ifs (S m) Hifs) in Hrest. replace (S m - 1) with m in Hrest by lia.
    rewrite rmapM_map in Hrest. rewrite <- seq_shift, map_map, rmapM_map.
    erewrite rmapM_ext_in; [exact Hrest|]. intros k _. cbv beta. f_equal. lia.
  Qed.

  Lemma rev_defined_inv x : reverse_beamspread_2d_for_path N ifs ray vel = Val x ->
    1 <= n' /\ exists legs thetas, path_legs N ifs ray = Val legs /\ path_thetas N ifs ray = Val thetas.
  Proof.
    unfold reverse_beamspread_2d_for_path. cbv zeta. intros H.
    destruct (rmapM (rev_gamma_at N ifs ray vel (n_of_path ifs)) (range1 (n_of_path ifs))) as [gl| | |] eqn:Eg; cbn [rbind] in H; try discriminate.
    destruct (inc_leg_size N ifs ray (n_of_path ifs)) as [rn| | |] eqn:E1; cbn [rbind] in H; try discriminate.
    destruct (fold_left (rev_vd_step N ifs ray (n_of_path ifs) gl) (range1 (n_of_path ifs)) (Val rn)) as [vd| | |] eqn:Ef; cbn [rbind] in H; try discriminate.
    pose proof (inc_leg_size_val_two _ _ E1) as H2. assert (Hn : 1 <= n') by lia. split; [exact Hn|].
    unfold rev_gamma_at in Eg. apply rmapM_first_call in Eg. destruct Eg as [rthetas Hth].
    change (rev_vd_step N ifs ray (n_of_path ifs) gl) with (vd_step N (fun k => inc_leg_size N ifs ray (n_of_path ifs - k)) gl) in Ef.
    apply vd_fold_val_inv in Ef. destruct Ef as [rrest Hrest].
    rewrite (range1_n ifs n' Hifs) in Hth, Hrest. rewrite (n_of_path_nat ifs n' Hifs) in Hth, Hrest, E1.
    pose proof (rmapM_length _ _ _ Hth) as Hlt. pose proof (rmapM_length _ _ _ Hrest) as Hlr.
    rewrite map_length, seq_length in Hlt, Hlr.
    exists (rev rrest ++ [rn]), (rev rthetas). split.
    - rewrite (path_legs_eq N ifs ray n' Hifs). apply rmapM_build.
      + rewrite map_length, seq_length, app_length, rev_length. simpl. lia.
      + intros i k y Hk Hy. apply nth_error_map_seq in Hk. destruct Hk as [Hi ->].
        destruct (Nat.eq_dec i (n' - 1)) as [->|Hne].
        * rewrite nth_error_app2 in Hy by (rewrite rev_length; lia).
          rewrite rev_length, Hlr, Nat.sub_diag in Hy. injection Hy as <-.
          replace (1 + (n' - 1)) with n' by lia. exact E1.
        * rewrite nth_error_app1 in Hy by (rewrite rev_length; lia).
          rewrite nth_error_rev in Hy by lia. rewrite Hlr in Hy.
          assert (Hk : nth_error (map Z.of_nat (seq 1 (n' - 1))) (n' - 1 - 1 - i) = Some (Z.of_nat (n' - 1 - i))).
          { rewrite nth_error_map, nth_error_seq by lia. cbn [option_map]. do 2 f_equal. lia. }
          destruct (rmapM_nth _ _ _ Hrest _ _ Hk) as (y' & Hy' & Hv). rewrite Hy in Hy'. injection Hy' as <-.
          cbv beta in Hv. replace (Z.of_nat n' - Z.of_nat (n' - 1 - i))%Z with (Z.of_nat (1 + i)) in Hv by lia. exact Hv.
    - rewrite (path_thetas_eq N ifs ray n' Hifs). apply rmapM_build.
      + rewrite map_length, seq_length, rev_length. lia.
      + intros i k y Hk Hy. apply nth_error_map_seq in Hk. destruct Hk as [Hi ->].
        rewrite nth_error_rev in Hy by lia. rewrite Hlt in Hy.
        assert (Hk : nth_error (map Z.of_nat (seq 1 (n' - 1))) (n' - 1 - 1 - i) = Some (Z.of_nat (n' - 1 - i))).
        { rewrite nth_error_map, nth_error_seq by lia. cbn [option_map]. do 2 f_equal. lia. }
        destruct (rmapM_nth _ _ _ Hth _ _ Hk) as (y' & Hy' & Hv). rewrite Hy in Hy'. injection Hy' as <-.
        cbv beta in Hv. replace (Z.of_nat n' - Z.of_nat (n' - 1 - i))%Z with (Z.of_nat (1 + i)) in Hv by lia. exact Hv.
  Qed.

  (* exact characterisation (the tuple of velocities has one entry per leg: asserted by
     RayGeometry.__init__) *)
  Lemma fwd_defined_iff x : length vel = n' ->
    (beamspread_2d_for_path N ifs ray vel = Val x <->
     1 <= n' /\ exists legs thetas, path_legs N ifs ray = Val legs /\ path_thetas N ifs ray = Val thetas /\
                                    x = beamspread N vel legs thetas).
  Proof.
    intros Hv. split.
    - intros H. destruct (fwd_defined_inv x H) as (Hn & legs & thetas & Hl & Ht).
      split; [exact Hn|]. exists legs, thetas. repeat split; try assumption.
      rewrite (beamspread_path_factors N ifs ray vel n' Hifs legs thetas Hl Ht Hn ltac:(lia)) in H. congruence.
    - intros (Hn & legs & thetas & Hl & Ht & ->).
      apply (beamspread_path_factors N ifs ray vel n' Hifs legs thetas Hl Ht Hn). lia.
  Qed.

  Lemma rev_defined_iff x : length vel = n' ->
    (reverse_beamspread_2d_for_path N ifs ray vel = Val x <->
     1 <= n' /\ exists legs thetas, path_legs N ifs ray = Val legs /\ path_thetas N ifs ray = Val thetas /\
                                    x = reverse_beamspread N vel legs thetas).
  Proof.
    intros Hv. split.
    - intros H. destruct (rev_defined_inv x H) as (Hn & legs & thetas & Hl & Ht).
      split; [exact Hn|]. exists legs, thetas. repeat split; try assumption.
      rewrite (reverse_beamspread_path_factors N ifs ray vel n' Hifs legs thetas Hl Ht Hn Hv) in H. congruence.
    - intros (Hn & legs & thetas & Hl & Ht & ->).
      apply (reverse_beamspread_path_factors N ifs ray vel n' Hifs legs thetas Hl Ht Hn Hv).
  Qed.

  (* the two functions answer a value on exactly the same RayGeometry objects *)
  Lemma fwd_defined_iff_rev_defined : length vel = n' ->
    ((exists x, beamspread_2d_for_path N ifs ray vel = Val x) <->
     (exists y, reverse_beamspread_2d_for_path N ifs ray vel = Val y)).
  Proof.
    intros Hv. split; intros [x H].
    - apply (fwd_defined_iff x Hv) in H. destruct H as (Hn & legs & thetas & Hl & Ht & _).
      exists (reverse_beamspread N vel legs thetas). apply rev_defined_iff; [exact Hv|]. eauto 8.
    - apply (rev_defined_iff x Hv) in H. destruct H as (Hn & legs & thetas & Hl & Ht & _).
      exists (beamspread N vel legs thetas). apply fwd_defined_iff; [exact Hv|]. eauto 8.
  Qed.
End Defined.

(* ---- what the two functions read from the RayGeometry ---------------------------- *)
Section Congruence.
  Context {T : Type} (N : Num T).

  (* two RayGeometry objects with the same number of interfaces, the same leg sizes and the
     same conventional incidence angles at the interior interfaces 1 .. n-1 get the same
     answer (value or error kind) from both functions *)
  Lemma path_congruence (ifs ifs' : list (iface (T:=T))) ray ray' vel :
    length ifs = length ifs' ->
    (forall idx, inc_leg_size N ifs ray idx = inc_leg_size N ifs' ray' idx) ->
    (forall k, (1 <= k <= n_of_path ifs - 1)%Z ->
               conventional_inc_angle N ifs ray k = conventional_inc_angle N ifs' ray' k) ->
    beamspread_2d_for_path N ifs ray vel = beamspread_2d_for_path N ifs' ray' vel /\
    reverse_beamspread_2d_for_path N ifs ray vel = reverse_beamspread_2d_for_path N ifs' ray' vel.
  Proof.
    intros Hl Hs Hc.
    assert (Hn : n_of_path ifs' = n_of_path ifs) by (unfold n_of_path, numinterfaces; rewrite Hl; reflexivity).
    split.
    - unfold beamspread_2d_for_path. cbv zeta. rewrite Hn.
      rewrite (rmapM_ext_in (fwd_gamma_at N ifs ray vel) (fwd_gamma_at N ifs' ray' vel)).
      2:{ intros k Hk. apply range1_in in Hk. unfold fwd_gamma_at. rewrite Hc by exact Hk. reflexivity. }
      rewrite <- Hs.
      destruct (rmapM (fwd_gamma_at N ifs' ray' vel) (range1 (n_of_path ifs))) as [gl| | |]; cbn [rbind]; try reflexivity.
      destruct (inc_leg_size N ifs ray 1) as [r1| | |]; cbn [rbind]; try reflexivity.
      f_equal. apply fold_left_ext_res. intros acc k. unfold fwd_vd_step. rewrite Hs. reflexivity.
    - unfold reverse_beamspread_2d_for_path. cbv zeta. rewrite Hn.
      rewrite (rmapM_ext_in (rev_gamma_at N ifs ray vel (n_of_path ifs)) (rev_gamma_at N ifs' ray' vel (n_of_path ifs))).
      2:{ intros k Hk. apply range1_in in Hk. unfold rev_gamma_at. rewrite Hc by lia. reflexivity. }
      rewrite <- Hs.
      destruct (rmapM (rev_gamma_at N ifs' ray' vel (n_of_path ifs)) (range1 (n_of_path ifs))) as [gl| | |]; cbn [rbind]; try reflexivity.
      destruct (inc_leg_size N ifs ray (n_of_path ifs)) as [r1| | |]; cbn [rbind]; try reflexivity.
      f_equal. apply fold_left_ext_res. intros acc k. unfold rev_vd_step. rewrite Hs. reflexivity.
  Qed.

  (* the relation "same points everywhere; same frames and same incoming-side flag at the
     interior interfaces".  Nothing is said of: the frames and flags of the FIRST and of
     the LAST interface, the outgoing-side flags of any interface. *)
  Definition same_for_beamspread (ifs ifs' : list (iface (T:=T))) : Prop :=
    length ifs = length ifs' /\
    forall a f f', nth_error ifs a = Some f -> nth_error ifs' a = Some f' ->
      if_points f = if_points f' /\
      (0 < a < length ifs - 1 -> if_orient f = if_orient f' /\ if_inc f = if_inc f').

  Section Same.
    Variables ifs ifs' : list (iface (T:=T)).
    Variable ray : list nat.
    Hypothesis Hsame : same_for_beamspread ifs ifs'.

    Lemma same_nth a : match nth_error ifs a, nth_error ifs' a with
                       | Some f, Some f' => if_points f = if_points f' /\
                                            (0 < a < length ifs - 1 -> if_orient f = if_orient f' /\ if_inc f = if_inc f')
                       | None, None => True
                       | _, _ => False
                       end.
    Proof.
      destruct Hsame as [Hl H].
      destruct (nth_error ifs a) as [f|] eqn:E; destruct (nth_error ifs' a) as [f'|] eqn:E'.
      - exact (H a f f' E E').
      - apply nth_error_None in E'. apply nth_error_Some_lt in E. lia.
      - apply nth_error_None in E. apply nth_error_Some_lt in E'. lia.
      - exact I.
    Qed.

    Lemma same_leg_points idx : leg_points ifs ray idx = leg_points ifs' ray idx.
    Proof.
      unfold leg_points, gather, numinterfaces. destruct Hsame as [Hl _]. rewrite <- Hl.
      destruct (resolve (length ifs) idx) as [a|]; [|reflexivity].
      pose proof (same_nth a) as H.
      destruct (nth_error ifs a) as [f|]; destruct (nth_error ifs' a) as [f'|]; try contradiction; [|reflexivity].
      cbn [of_opt rbind]. destruct H as [-> _]. reflexivity.
    Qed.

    Lemma same_orientations idx a : resolve (length ifs) idx = Some a -> 0 < a < length ifs - 1 ->
      orientations_of_legs_points ifs ray idx = orientations_of_legs_points ifs' ray idx.
    Proof.
      intros Hr Ha. unfold orientations_of_legs_points, gather, numinterfaces. destruct Hsame as [Hl _]. rewrite <- Hl, Hr.
      pose proof (same_nth a) as H.
      destruct (nth_error ifs a) as [f|]; destruct (nth_error ifs' a) as [f'|]; try contradiction; [|reflexivity].
      cbn [of_opt rbind]. destruct H as [_ H]. destruct (H Ha) as [-> _]. reflexivity.
    Qed.

    Lemma same_inc_leg_size idx : inc_leg_size N ifs ray idx = inc_leg_size N ifs' ray idx.
    Proof.
      unfold inc_leg_size, guarded, numinterfaces. destruct Hsame as [Hl _]. rewrite <- Hl.
      rewrite !same_leg_points. reflexivity.
    Qed.

    Lemma same_conventional idx a : resolve (length ifs) idx = Some a -> 0 < a < length ifs - 1 ->
      conventional_inc_angle N ifs ray idx = conventional_inc_angle N ifs' ray idx.
    Proof.
      intros Hr Ha. unfold conventional_inc_angle, numinterfaces. pose proof Hsame as [Hl _]. rewrite <- Hl, Hr.
      destruct (Nat.eqb a 0); [reflexivity|].
      assert (Hp : inc_leg_polar N ifs ray idx = inc_leg_polar N ifs' ray idx).
      { unfold inc_leg_polar, inc_leg_radius, inc_leg_cartesian, guarded, leg_local, numinterfaces.
        rewrite <- Hl. rewrite !same_leg_points. rewrite (same_orientations idx a Hr Ha). reflexivity. }
      pose proof (same_nth a) as H.
      destruct (nth_error ifs a) as [f|]; destruct (nth_error ifs' a) as [f'|]; try contradiction; [|reflexivity].
      cbn [of_opt rbind]. destruct H as [_ H]. destruct (H Ha) as [_ ->]. rewrite Hp. reflexivity.
    Qed.

    Lemma first_last_unread vel :
      beamspread_2d_for_path N ifs ray vel = beamspread_2d_for_path N ifs' ray vel /\
      reverse_beamspread_2d_for_path N ifs ray vel = reverse_beamspread_2d_for_path N ifs' ray vel.
    Proof.
      apply path_congruence.
      - exact (proj1 Hsame).
      - exact same_inc_leg_size.
      - intros k Hk. unfold n_of_path, numinterfaces in Hk.
        apply (same_conventional k (Z.to_nat k)).
        + replace k with (Z.of_nat (Z.to_nat k)) at 1 by lia. apply resolve_of_nat. lia.
        + lia.
    Qed.
  End Same.

  (* a path with one leg (two interfaces): no velocity and no angle is read at all *)
  Lemma single_leg_path (f0 f1 : iface (T:=T)) ray vel r :
    inc_leg_size N [f0; f1] ray 1 = Val r ->
    beamspread_2d_for_path N [f0; f1] ray vel = Val (ndiv N (n1 N) (nsqrt N r)) /\
    reverse_beamspread_2d_for_path N [f0; f1] ray vel = Val (ndiv N (n1 N) (nsqrt N r)).
  Proof.
    intros H. unfold beamspread_2d_for_path, reverse_beamspread_2d_for_path. cbv zeta.
    change (n_of_path [f0; f1]) with 1%Z. change (range1 1) with (@nil Z). cbn [rmapM rbind fold_left].
    rewrite H. split; reflexivity.
  Qed.
End Congruence.

(* ---- the floating-point reading of the last line, for every numeric instance ------------------
   (added with the repair of recip_sqrt_outcome: nan test first, sign of a zero argument) *)
Section OutcomeClasses.
  Context {T : Type} (N : Num T).

  (* a virtual distance that is not equal to itself (binary64: nan) is answered NaN, whatever the
     other comparisons say *)
  Lemma recip_sqrt_outcome_nan d : neqb N d d = false -> recip_sqrt_outcome N d = NaN.
  Proof. intros H. unfold recip_sqrt_outcome. rewrite H. reflexivity. Qed.

  Lemma beamspread_outcome_nan vel legs thetas :
    (let d := virtual_distance N legs (gamma_list N vel thetas) in neqb N d d = false) ->
    beamspread_outcome N vel legs thetas = NaN.
  Proof. cbv zeta. intros H. unfold beamspread_outcome. apply recip_sqrt_outcome_nan. exact H. Qed.

  (* the reading is total and each class is taken under exactly one combination of the tests *)
  Lemma recip_sqrt_outcome_cases d :
    (recip_sqrt_outcome N d = NaN <-> (neqb N d d = false \/ nltb N d (n0 N) = true)) /\
    (recip_sqrt_outcome N d = PlusInf <->
       (neqb N d d = true /\ nltb N d (n0 N) = false /\ neqb N d (n0 N) = true /\ nltb N (ndiv N (n1 N) d) (n0 N) = false)) /\
    (recip_sqrt_outcome N d = MinusInf <->
       (neqb N d d = true /\ nltb N d (n0 N) = false /\ neqb N d (n0 N) = true /\ nltb N (ndiv N (n1 N) d) (n0 N) = true)) /\
    (forall x, recip_sqrt_outcome N d = Finite x <->
       (neqb N d d = true /\ nltb N d (n0 N) = false /\ neqb N d (n0 N) = false /\ x = ndiv N (n1 N) (nsqrt N d))).
  Proof.
    unfold recip_sqrt_outcome.
    destruct (neqb N d d), (nltb N d (n0 N)), (neqb N d (n0 N)), (nltb N (ndiv N (n1 N) d) (n0 N)); cbn [negb];
      (split; [|split; [|split; [|intros x]]]); split; intros H;
      try discriminate H; try reflexivity; try tauto;
      try (destruct H as [H | H]; discriminate H);
      try (destruct H as (H1 & H2 & H3 & H4); first [discriminate H1 | discriminate H2 | discriminate H3 | discriminate H4]);
      try (injection H as <-; repeat split; reflexivity);
      try (destruct H as (_ & _ & _ & ->); reflexivity).
  Qed.
End OutcomeClasses.
