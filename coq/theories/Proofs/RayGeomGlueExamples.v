(* Proofs/RayGeomGlueExamples.v — executions of Model/RayGeomGlue.v by vm_compute on binary64
   floats: the tie examples of notes/prover_C05_TIE.md (replayed against arim by
   notes/prover_C05_replay.py).  No theorem of Props/C05.v depends on the float instance below. *)
From Coq Require Import List ZArith Bool Arith Lia Floats.
From Arim Require Import Base.Num Base.NumF Model.Vec3 Model.RayGeom Model.RayGeomGlue.
Import ListNotations.

Section FloatRuns.
  Local Open Scope float_scope.
  Definition pi_f : float := 0x1.921fb54442d18p+1.
  Definition half_pi_f : float := 0x1.921fb54442d18p+0.
  (* NumF has no libm.  NumFx adds the values numpy returns EXACTLY for legs along a local axis:
     arccos(1.0) = 0.0, arccos(-1.0) = pi, arccos(0.0) = pi/2, arctan2(0.0, x > 0) = 0.0,
     arctan2(0.0, x < 0) = pi, arctan2(y > 0, 0.0) = pi/2, arctan2(y < 0, 0.0) = -pi/2,
     arctan2(0.0, 0.0) = 0.0; anything else is nan (an execution needing libm is visible) *)
  Definition NumFx : Num float := {|
    n0 := zero; n1 := one;
    nadd := add; nsub := sub; nmul := mul; ndiv := div; nopp := opp;
    nsqrt := sqrt;
    nsin := fun _ => nan; ncos := fun _ => nan; nasin := fun _ => nan;
    nacos := fun x => if eqb x 1 then 0 else if eqb x (-1) then pi_f else if eqb x 0 then half_pi_f else nan;
    natan2 := fun y x =>
      if eqb y 0 then (if ltb 0 x then 0 else if ltb x 0 then pi_f else 0)
      else if eqb x 0 then (if ltb 0 y then half_pi_f else - half_pi_f) else nan;
    nexp := fun _ => nan; nln := fun _ => nan; npi := pi_f;
    nltb := ltb; nleb := leb; neqb := eqb;
    nofZ := Fof_Z;
    nfloor := nfloor NumF; ntrunc := ntrunc NumF; nround := nround NumF |}.

  Definition I3f : mat3 float := ((1, 0, 0), (0, 1, 0), (0, 0, 1)).
  Definition J3f : mat3 float := ((1, 0, 0), (0, -1, 0), (0, 0, -1)).     (* normal along -z *)

  (* ---- the scene: three interfaces ------------------------------------------------------- *)
  Definition P0 : points (T:=float) := mkPoints 10 [(0, 0, 0); (3, 0, 0)].
  Definition P1 : points (T:=float) := mkPoints 11 [(0, 0, 4); (3, 0, 4); (6, 0, 4)].
  Definition P2 : points (T:=float) := mkPoints 12 [(0, 0, 8); (3, 0, 8)].

  Definition unbuilt {A} (d : A) (b : built A) : A := match b with Built a => a | _ => d end.
  Definition dummy_if : interface (T:=float) := mkInterface (mkPoints 0 []) [] PyNone PyNone.

  (* Interface(P0, one frame I3, out=True); Interface(P1, per-point frames, inc=True, out=False);
     Interface(P2, one frame I3, inc=False) *)
  Definition B0 := interface_init P0 (OneFrame I3f) PyNone (PyBool true).
  Definition B1 := interface_init P1 (PerPoint [I3f; J3f; I3f]) (PyBool true) (PyBool false).
  Definition B2 := interface_init P2 (OneFrame I3f) (PyBool false) PyNone.
  Definition ifs3 : list (interface (T:=float)) := [unbuilt dummy_if B0; unbuilt dummy_if B1; unbuilt dummy_if B2].

  (* E1: constructors *)
  Example E1_interfaces :
    B0 = Built (mkInterface P0 [I3f; I3f] PyNone (PyBool true)) /\
    B1 = Built (mkInterface P1 [I3f; J3f; I3f] (PyBool true) (PyBool false)) /\
    interface_init P1 (PerPoint [I3f; J3f]) PyNone PyNone = BValue /\
    interface_init P1 (OneFrame I3f) (PyInt 1) PyNone = BAssert /\
    interface_init P1 (OneFrame I3f) PyNone (PyInt 0) = BAssert.
  Proof. vm_compute. repeat split; reflexivity. Qed.

  (* interior_indices of shape (1, 2, 2), dtype int16, C order, with entries counted from the end:
     [[[0, -2], [1, -1]]] *)
  Definition interior16 : ndarray3 := mkArr [1; 2; 2]%nat (DInt 16) true false [[[0; -2]; [1; -1]]]%Z.
  Definition timesf : times_arr := mkTimes [2; 2]%nat DFloat.
  Definition R3 := rays_init timesf interior16 [P0; P1; P2] None.
  Definition R3F := rays_init timesf interior16 [P0; P1; P2] (Some OrdF).
  Definition dummy_rays : rays (T:=float) := mkRays (mkTimes [] DFloat) (mkTbl OrdC DBool 0 0 0 []) [].

  (* E2: Rays.__init__ / make_indices: the flat buffers in the two orders, the same columns *)
  Example E2_rays :
    t_buf (r_indices (unbuilt dummy_rays R3)) = [0; 0; 1; 1; 0; -2; 1; -1; 0; 1; 0; 1]%Z /\
    t_order (r_indices (unbuilt dummy_rays R3)) = OrdC /\
    t_buf (r_indices (unbuilt dummy_rays R3F)) = [0; 0; 0; 1; 1; 0; 0; -2; 1; 1; -1; 1]%Z /\
    t_order (r_indices (unbuilt dummy_rays R3F)) = OrdF /\
    map (fun ij => tbl_column (r_indices (unbuilt dummy_rays R3)) (fst ij) (snd ij)) [(0, 0); (0, 1); (1, 0); (1, 1)]%nat
      = [Some [0; 0; 0]; Some [0; -2; 1]; Some [1; 1; 0]; Some [1; -1; 1]]%Z /\
    map (fun ij => tbl_column (r_indices (unbuilt dummy_rays R3F)) (fst ij) (snd ij)) [(0, 0); (0, 1); (1, 0); (1, 1)]%nat
      = [Some [0; 0; 0]; Some [0; -2; 1]; Some [1; 1; 0]; Some [1; -1; 1]]%Z /\
    tbl_column (r_indices (unbuilt dummy_rays R3)) 2 0 = None.
  Proof. vm_compute. repeat split; reflexivity. Qed.

  (* E3: rejected arguments of Rays.__init__ (all AssertionError) *)
  Example E3_rays_rejected :
    rays_init timesf (mkArr [1; 2; 2]%nat (DUInt 16) true false [[[0; 1]; [1; 2]]]%Z) [P0; P1; P2] None = BAssert /\
    rays_init (mkTimes [2; 2]%nat (DInt 64)) interior16 [P0; P1; P2] None = BAssert /\
    rays_init (mkTimes [2; 3]%nat DFloat) interior16 [P0; P1; P2] None = BAssert /\
    rays_init timesf interior16 [P0; P2] None = BAssert /\
    rays_init timesf interior16 [P1; P1; P2] None = BAssert /\
    rays_init (mkTimes [4]%nat DFloat) interior16 [P0; P1; P2] None = BAssert /\
    rays_init timesf (mkArr [2; 2]%nat (DInt 16) true false []) [P0; P1; P2] None = BAssert.
  Proof. vm_compute. repeat split; reflexivity. Qed.

  (* E4: RayGeometry.__init__ / from_path *)
  Definition G3 := raygeom_init ifs3 (unbuilt dummy_rays R3).
  Definition P1copy : points (T:=float) := mkPoints 99 (p_coords P1).      (* equal coordinates, another object *)
  Example E4_raygeom :
    (exists g, G3 = Built g) /\
    raygeom_init [unbuilt dummy_if B0; mkInterface P1copy [I3f; J3f; I3f] (PyBool true) (PyBool false); unbuilt dummy_if B2]
                 (unbuilt dummy_rays R3) = BAssert /\
    raygeom_init [unbuilt dummy_if B0; unbuilt dummy_if B2] (unbuilt dummy_rays R3) = BAssert /\
    raygeom_from_path (mkPath ifs3 None) = BValue /\
    raygeom_from_path (mkPath ifs3 (Some (unbuilt dummy_rays R3))) = G3.
  Proof. vm_compute. repeat split; try reflexivity. eexists; reflexivity. Qed.

  (* E5: the 17 answers for the ray (0, 0): column [0, 0, 0], straight up the z axis *)
  Definition col00 : list Z := [0; 0; 0]%Z.
  Example E5_ray00_interface1 :
    o_all NumFx ifs3 col00 1 =
    (Val (0, 0, 4), Val I3f,
     Val 4, Val (0, 0, -4), Val 4, Val pi_f, Val 0, Val pi_f, Val pi_f, Val pi_f,
     Val (0, 0, 4), Val 4, Val 0, Val 0, Val 0, Val 0, Val pi_f).
  Proof. vm_compute. reflexivity. Qed.

  (* E6: the ray (0, 1): column [0, -2, 1]; -2 designates the point 1 of the three points of P1,
     whose frame is J3 (normal along -z); the same answers with the column spelled [0, 1, -1] *)
  Definition col01 : list Z := [0; -2; 1]%Z.
  Example E6_ray01 :
    o_leg_points ifs3 col01 1 = Val (3, 0, 4) /\ o_leg_points ifs3 col01 (-2) = Val (3, 0, 4) /\
    o_orientations ifs3 col01 1 = Val J3f /\
    o_inc_leg_size NumFx ifs3 col01 1 = Val 5 /\
    o_inc_leg_cartesian NumFx ifs3 col01 1 = Val (-3, -0, 4) /\
    o_inc_leg_radius NumFx ifs3 col01 (-2) = Val 5 /\
    o_out_leg_cartesian NumFx ifs3 col01 1 = Val (0, 0, -4) /\
    o_out_leg_polar NumFx ifs3 col01 1 = Val pi_f /\
    o_conventional_out_angle NumFx ifs3 col01 1 = Val 0 /\
    o_inc_leg_size NumFx ifs3 col01 2 = Val 4 /\
    o_inc_leg_polar NumFx ifs3 col01 2 = Val pi_f /\
    o_conventional_inc_angle NumFx ifs3 col01 2 = Val 0 /\
    o_conventional_inc_angle NumFx ifs3 col01 (-1) = Val 0 /\
    map (o_all NumFx ifs3 [0; 1; -1]%Z) [-3; -2; -1; 0; 1; 2; 3; -4]%Z = map (o_all NumFx ifs3 col01) [-3; -2; -1; 0; 1; 2; 3; -4]%Z.
  Proof. vm_compute. repeat split; reflexivity. Qed.

  (* E7: exceptions and None, and their order *)
  Definition ifs3_undeclared : list (interface (T:=float)) :=
    [unbuilt dummy_if B0; mkInterface P1 [I3f; J3f; I3f] PyNone PyNone; unbuilt dummy_if B2].
  Example E7_errors :
    o_inc_leg_size NumFx ifs3 col01 0 = NoLeg /\ o_inc_leg_size NumFx ifs3 col01 (-3) = NoLeg /\
    o_conventional_inc_angle NumFx ifs3_undeclared col01 0 = NoLeg /\
    o_out_leg_cartesian NumFx ifs3 col01 2 = NoLeg /\ o_conventional_out_angle NumFx ifs3 col01 (-1) = NoLeg /\
    o_inc_leg_size NumFx ifs3 col01 3 = IndexErr /\ o_leg_points ifs3 col01 (-4) = IndexErr /\
    (* a point index out of range: 3 and -4 for the three points of P1 *)
    o_leg_points ifs3 [0; 3; 1]%Z 1 = IndexErr /\ o_leg_points ifs3 [0; -4; 1]%Z 1 = IndexErr /\
    o_leg_points ifs3 [0; -3; 1]%Z 1 = Val (0, 0, 4) /\
    o_inc_leg_size NumFx ifs3 [0; 3; 1]%Z 2 = IndexErr /\ o_inc_leg_size NumFx ifs3 [0; 3; 1]%Z 0 = NoLeg /\
    (* undeclared side: ValueError, also when the point index is out of range *)
    o_conventional_inc_angle NumFx ifs3_undeclared col01 1 = ValueErr /\
    o_conventional_out_angle NumFx ifs3_undeclared [0; 3; 1]%Z 1 = ValueErr /\
    o_inc_angle NumFx ifs3_undeclared [0; 3; 1]%Z 1 = IndexErr.
  Proof. vm_compute. repeat split; reflexivity. Qed.

  (* E8: flags assigned after construction as integers: 1 acts as True, 0 as False *)
  Definition ifs3_int : list (interface (T:=float)) :=
    [unbuilt dummy_if B0; mkInterface P1 [I3f; J3f; I3f] (PyInt 1) (PyInt 0); unbuilt dummy_if B2].
  Example E8_int_flags :
    o_conventional_out_angle NumFx ifs3_int col01 1 = Val 0 /\
    o_conventional_inc_angle NumFx ifs3_int col00 1 = Val pi_f /\
    o_all NumFx ifs3_int col00 1 = o_all NumFx ifs3 col00 1.
  Proof. vm_compute. repeat split; reflexivity. Qed.

  (* E9: a narrow dtype wraps the first row silently: 200 first points, int8 *)
  Example E9_int8_wraps :
    tbl_column (make_indices_tbl (mkArr [0; 200; 1]%nat (DInt 8) true false []) None 0 200 1) 128 0 = Some [-128; 0]%Z /\
    resolve 200 (-128) = Some 72%nat /\
    tbl_column (make_indices_tbl (mkArr [0; 200; 1]%nat (DInt 16) true false []) None 0 200 1) 128 0 = Some [128; 0]%Z.
  Proof. vm_compute. repeat split; reflexivity. Qed.

  (* E10: Rays.reverse (default order 'f') and to_fortran_order *)
  Example E10_reverse :
    let r' := unbuilt dummy_rays (rays_reverse (unbuilt dummy_rays R3) OrdF) in
    map p_id (r_fpoints r') = [12; 11; 10]%nat /\
    t_order (r_indices r') = OrdF /\ t_buf (r_indices r') = [0; 0; 0; 1; -2; 0; 0; 1; 1; 1; -1; 1]%Z /\
    map (fun ji => tbl_column (r_indices r') (fst ji) (snd ji)) [(0, 0); (1, 0); (0, 1); (1, 1)]%nat
      = [Some [0; 0; 0]; Some [1; -2; 0]; Some [0; 1; 1]; Some [1; -1; 1]]%Z /\
    t_order (r_indices (unbuilt dummy_rays (rays_reverse (unbuilt dummy_rays R3) OrdC))) = OrdC /\
    t_order (r_indices (unbuilt dummy_rays (rays_to_fortran (unbuilt dummy_rays R3)))) = OrdF /\
    t_buf (r_indices (unbuilt dummy_rays (rays_to_fortran (unbuilt dummy_rays R3)))) = [0; 0; 0; 1; 1; 0; 0; -2; 1; 1; -1; 1]%Z.
  Proof. vm_compute. repeat split; reflexivity. Qed.

  (* E11: a block: first points [1], last points [1; 0]; its ray (0, 0) is the ray (1, 1) of the whole *)
  Example E11_block :
    let f0' := interface_pick 20 [1]%nat (unbuilt dummy_if B0) in
    let fl' := interface_pick 22 [1; 0]%nat (unbuilt dummy_if B2) in
    p_coords (i_points fl') = [(3, 0, 8); (0, 0, 8)] /\
    map (o_all NumFx [f0'; unbuilt dummy_if B1; fl'] [0; -1; 0]%Z) [-3; -2; -1; 0; 1; 2]%Z
      = map (o_all NumFx ifs3 [1; -1; 1]%Z) [-3; -2; -1; 0; 1; 2]%Z /\
    o_inc_leg_size NumFx ifs3 [1; -1; 1]%Z 1 = Val 5 /\ o_inc_leg_size NumFx ifs3 [1; -1; 1]%Z 2 = Val 5 /\
    o_inc_leg_cartesian NumFx ifs3 [1; -1; 1]%Z 2 = Val (3, 0, -4).
  Proof. vm_compute. repeat split; reflexivity. Qed.
End FloatRuns.
