(* Proofs/PathReverseProofs.v — lemmas about Model/PathReverse.v (C07). *)
From Coq Require Import String Ascii.
From Coq Require Import List ZArith Bool Arith Lia.
From Arim Require Import Base.Num Model.Interface Model.Weights Model.Beamspread Model.PathReverse
                         Proofs.WeightsProofs Proofs.BeamspreadProofs.
Import ListNotations.

(* ===== generic list / outcome facts ===================================================== *)
Lemma lookup_ok {A} (l : list A) i a : nth_error l i = Some a -> lookup l i = Ok a.
Proof. intros H. unfold lookup. rewrite H. reflexivity. Qed.

Lemma nth_error_rev {A} (l : list A) j : j < length l ->
  nth_error (rev l) j = nth_error l (length l - 1 - j).
Proof.
  intros Hj.
  destruct (nth_error l (length l - 1 - j)) as [a|] eqn:E.
  - rewrite (nth_error_nth' (rev l) a) by (rewrite rev_length; exact Hj).
    rewrite rev_nth by exact Hj. f_equal.
    replace (length l - S j) with (length l - 1 - j) by lia.
    apply nth_error_nth. exact E.
  - apply nth_error_None in E. lia.
Qed.

Lemma Forall2_seq {A} (P : nat -> A -> Prop) (l : list A) : forall a,
  (forall j x, nth_error l j = Some x -> P (a + j) x) -> Forall2 P (seq a (length l)) l.
Proof.
  induction l as [|x l IH]; intros a H; simpl; constructor.
  - specialize (H 0 x eq_refl). rewrite Nat.add_0_r in H. exact H.
  - apply IH. intros j y Hj. specialize (H (S j) y Hj).
    replace (S a + j) with (a + S j) by lia. exact H.
Qed.

Lemma omapM_Forall2 {A B} (f : A -> outcome B) l r :
  Forall2 (fun x y => f x = Ok y) l r -> omapM f l = Ok r.
Proof. induction 1 as [|x y l r Hxy _ IH]; simpl; [reflexivity|]. rewrite Hxy. simpl. rewrite IH. reflexivity. Qed.

Lemma omapM_ok_Forall2 {A B} (f : A -> outcome B) l : forall r,
  omapM f l = Ok r -> Forall2 (fun x y => f x = Ok y) l r.
Proof.
  induction l as [|x l IH]; simpl; intros r H.
  - inversion H. constructor.
  - destruct (f x) as [y|e] eqn:E; simpl in H; [|discriminate].
    destruct (omapM f l) as [r'|e]; simpl in H; [|discriminate].
    inversion H; subst. constructor; [exact E | apply IH; reflexivity].
Qed.

Lemma Forall2_len {A B} (R : A -> B -> Prop) l r : Forall2 R l r -> length l = length r.
Proof. induction 1; simpl; congruence. Qed.

Lemma Forall2_rev' {A B} (R : A -> B -> Prop) l r : Forall2 R l r -> Forall2 R (rev l) (rev r).
Proof.
  induction 1 as [|x y l r Hxy H IH]; simpl; [constructor|].
  apply Forall2_app; [exact IH | constructor; [exact Hxy | constructor]].
Qed.

Lemma fold_obind_Forall2 {A S} (g : nat -> outcome A) (F : S -> nat -> A -> S) ks rs :
  Forall2 (fun k r => g k = Ok r) ks rs -> forall a,
  fold_left (fun acc k => obind acc (fun vd => obind (g k) (fun r => Ok (F vd k r)))) ks (Ok a)
  = Ok (fold_left (fun vd kr => F vd (fst kr) (snd kr)) (combine ks rs) a).
Proof.
  induction 1 as [|k r ks rs Hkr _ IH]; intros a; simpl; [reflexivity|].
  rewrite Hkr. simpl. apply IH.
Qed.

Lemma removelast_length {A} (l : list A) : length (removelast l) = length l - 1.
Proof.
  induction l as [|a l IH]; [reflexivity|]. destruct l as [|b l]; [reflexivity|].
  change (removelast (a :: b :: l)) with (a :: removelast (b :: l)). cbn [length] in *. lia.
Qed.

Lemma nth_error_removelast {A} (l : list A) : forall j, j < length l - 1 ->
  nth_error (removelast l) j = nth_error l j.
Proof.
  induction l as [|a l IH]; intros j Hj; [simpl in Hj; lia|].
  destruct l as [|b l]; [simpl in Hj; lia|].
  change (removelast (a :: b :: l)) with (a :: removelast (b :: l)).
  destruct j as [|j]; [reflexivity|]. cbn [nth_error]. apply IH. cbn [length] in *. lia.
Qed.

Lemma nth_removelast {A} (l : list A) d : forall j, j < length l - 1 -> nth j (removelast l) d = nth j l d.
Proof.
  induction l as [|a l IH]; intros j Hj; [simpl in Hj; lia|].
  destruct l as [|b l]; [simpl in Hj; lia|].
  change (removelast (a :: b :: l)) with (a :: removelast (b :: l)).
  destruct j as [|j]; [reflexivity|]. cbn [nth]. apply IH. cbn [length] in *. lia.
Qed.

Lemma nth_tl {A} (l : list A) d j : nth j (tl l) d = nth (S j) l d.
Proof. destruct l; destruct j; reflexivity. Qed.

(* ===== beamspread: the loops with the source's indices = the list-level kernels ========== *)
Section BeamIdx.
  Context {T : Type} (N : Num T).

  (* a ray geometry consistent with n legs, n >= 1.  REPAIR: rg_inc holds
     conventional_inc_angle(1..n) and rg_out holds conventional_out_angle(0..n-1), n entries each
     (they had the n - 1 interior entries only; see Model/PathReverse.v) *)
  Definition rg_wf (rg : raygeom T) (n : nat) : Prop :=
    1 <= n /\ rg_numinterfaces rg = S n /\ length (rg_vel rg) = n /\ length (rg_leg rg) = n /\
    length (rg_inc rg) = n /\ length (rg_out rg) = n.

  (* the angles the two beamspread loops read: conventional_inc_angle(1..n-1), and the outgoing
     angles at the same interior interfaces *)
  Definition rg_inc_interior (rg : raygeom T) : list T := removelast (rg_inc rg).
  Definition rg_out_interior (rg : raygeom T) : list T := tl (rg_out rg).

  Lemma rg_interior_reverse rg :
    rg_inc_interior (rg_reverse rg) = rev (rg_out_interior rg) /\
    rg_out_interior (rg_reverse rg) = rev (rg_inc_interior rg).
  Proof.
    unfold rg_inc_interior, rg_out_interior, rg_reverse; cbn [rg_inc rg_out]. split.
    - destruct (rg_out rg) as [|o t]; [reflexivity|]. cbn [rev tl].
      rewrite removelast_app by discriminate. cbn [removelast]. apply app_nil_r.
    - rewrite <- (rev_involutive (rg_inc rg)) at 2.
      destruct (rev (rg_inc rg)) as [|o t]; [reflexivity|]. cbn [rev tl].
      rewrite removelast_app by discriminate. cbn [removelast]. rewrite app_nil_r, rev_involutive. reflexivity.
  Qed.

  (* the kernel reads one angle per pair of consecutive velocities: further angles are ignored *)
  Lemma gamma_list_app_extra vel : forall thetas extra, length vel <= S (length thetas) ->
    gamma_list N vel (thetas ++ extra) = gamma_list N vel thetas.
  Proof.
    induction vel as [|v0 vel IH]; intros thetas extra H; [reflexivity|].
    destruct vel as [|v1 vel]; [destruct (thetas ++ extra), thetas; reflexivity|].
    destruct thetas as [|th thetas]; [cbn [length] in H; lia|].
    change (gamma_list N (v0 :: v1 :: vel) ((th :: thetas) ++ extra))
      with (gamma_of N v0 v1 th :: gamma_list N (v1 :: vel) (thetas ++ extra)).
    change (gamma_list N (v0 :: v1 :: vel) (th :: thetas))
      with (gamma_of N v0 v1 th :: gamma_list N (v1 :: vel) thetas).
    f_equal. apply IH. cbn [length] in *. lia.
  Qed.

  Lemma rg_wf_reverse rg n : rg_wf rg n -> rg_wf (rg_reverse rg) n.
  Proof.
    unfold rg_wf, rg_reverse; cbn [rg_numinterfaces rg_vel rg_leg rg_inc rg_out].
    rewrite !rev_length. tauto.
  Qed.

  Lemma rg_reverse_involutive (rg : raygeom T) : rg_reverse (rg_reverse rg) = rg.
  Proof. destruct rg; unfold rg_reverse; cbn. rewrite !rev_involutive. reflexivity. Qed.

  Lemma gamma_list_nth vel : forall thetas j g,
    nth_error (gamma_list N vel thetas) j = Some g ->
    exists th vp vc, nth_error thetas j = Some th /\ nth_error vel j = Some vp /\
                     nth_error vel (S j) = Some vc /\ g = gamma_of N vp vc th.
  Proof.
    induction vel as [|v0 vel IH]; intros thetas j g H; [destruct j; discriminate|].
    destruct vel as [|v1 vel]; [destruct j; discriminate|].
    destruct thetas as [|th thetas]; [destruct j; discriminate|].
    change (gamma_list N (v0 :: v1 :: vel) (th :: thetas))
      with (gamma_of N v0 v1 th :: gamma_list N (v1 :: vel) thetas) in H. destruct j as [|j].
    - inversion H; subst. exists th, v0, v1. repeat split; reflexivity.
    - cbn [nth_error] in H. destruct (IH thetas j g H) as (th' & vp & vc & H1 & H2 & H3 & H4).
      exists th', vp, vc. repeat split; assumption.
  Qed.

  Lemma gamma_list_length vel : forall thetas,
    length (gamma_list N vel thetas) = Nat.min (length vel - 1) (length thetas).
  Proof.
    induction vel as [|v0 vel IH]; intros thetas; [reflexivity|].
    destruct vel as [|v1 vel]; [reflexivity|].
    destruct thetas as [|th thetas]; [reflexivity|].
    change (gamma_list N (v0 :: v1 :: vel) (th :: thetas))
      with (gamma_of N v0 v1 th :: gamma_list N (v1 :: vel) thetas).
    cbn [length]. rewrite IH. cbn [length]. lia.
  Qed.

  Lemma rev_gamma_list_nth rvel : forall rthetas j g,
    nth_error (rev_gamma_list N rvel rthetas) j = Some g ->
    exists th vn vp, nth_error rthetas j = Some th /\ nth_error rvel j = Some vn /\
                     nth_error rvel (S j) = Some vp /\ g = rev_gamma_of N vn vp th.
  Proof.
    induction rvel as [|v0 vel IH]; intros thetas j g H; [destruct j; discriminate|].
    destruct vel as [|v1 vel]; [destruct j; discriminate|].
    destruct thetas as [|th thetas]; [destruct j; discriminate|].
    change (rev_gamma_list N (v0 :: v1 :: vel) (th :: thetas))
      with (rev_gamma_of N v0 v1 th :: rev_gamma_list N (v1 :: vel) thetas) in H. destruct j as [|j].
    - inversion H; subst. exists th, v0, v1. repeat split; reflexivity.
    - cbn [nth_error] in H. destruct (IH thetas j g H) as (th' & vp & vc & H1 & H2 & H3 & H4).
      exists th', vp, vc. repeat split; assumption.
  Qed.

  Lemma rev_gamma_list_length rvel : forall rthetas,
    length (rev_gamma_list N rvel rthetas) = Nat.min (length rvel - 1) (length rthetas).
  Proof.
    induction rvel as [|v0 vel IH]; intros thetas; [reflexivity|].
    destruct vel as [|v1 vel]; [reflexivity|].
    destruct thetas as [|th thetas]; [reflexivity|].
    change (rev_gamma_list N (v0 :: v1 :: vel) (th :: thetas))
      with (rev_gamma_of N v0 v1 th :: rev_gamma_list N (v1 :: vel) thetas).
    cbn [length]. rewrite IH. cbn [length]. lia.
  Qed.

  Lemma leg_size_ok rg n k r : rg_wf rg n -> 1 <= k -> nth_error (rg_leg rg) (k - 1) = Some r ->
    rg_inc_leg_size rg k = Ok r.
  Proof.
    intros (Hn & Hni & _ & Hl & _) Hk H. unfold rg_inc_leg_size.
    assert (k - 1 < n) by (rewrite <- Hl; apply nth_error_Some; congruence).
    destruct (Nat.eqb_spec k 0); [lia|]. rewrite Hni.
    destruct (Nat.leb_spec (S n) k); [lia|]. apply lookup_ok. exact H.
  Qed.

  Lemma inc_angle_ok rg n i th : rg_wf rg n -> 1 <= i -> nth_error (rg_inc rg) (i - 1) = Some th ->
    rg_conv_inc_angle rg i = Ok th.
  Proof.
    intros (Hn & Hni & _ & _ & Hl & _) Hk H. unfold rg_conv_inc_angle.
    assert (i - 1 < n) by (rewrite <- Hl; apply nth_error_Some; congruence).
    destruct (Nat.eqb_spec i 0); [lia|]. rewrite Hni.
    destruct (Nat.leb_spec (S n) i); [lia|]. apply lookup_ok. exact H.
  Qed.

  Lemma gamma_list_idx_eq rg n : rg_wf rg n ->
    gamma_list_idx N rg = Ok (gamma_list N (rg_vel rg) (rg_inc rg)).
  Proof.
    intros Hwf. pose proof Hwf as (Hn & Hni & Hv & Hl & Hi & Ho).
    unfold gamma_list_idx. rewrite Hni. replace (S n - 1) with n by lia.
    apply omapM_Forall2.
    replace (n - 1) with (length (gamma_list N (rg_vel rg) (rg_inc rg)))
      by (rewrite gamma_list_length; lia).
    apply Forall2_seq. intros j g Hg.
    destruct (gamma_list_nth _ _ _ _ Hg) as (th & vp & vc & H1 & H2 & H3 & ->).
    rewrite (inc_angle_ok rg n (1 + j) th Hwf) by (try lia; replace (1 + j - 1) with j by lia; exact H1).
    cbn [obind]. unfold rg_velocity.
    replace (1 + j - 1) with j by lia. rewrite (lookup_ok _ _ _ H2). cbn [obind].
    replace (1 + j) with (S j) by lia. rewrite (lookup_ok _ _ _ H3). reflexivity.
  Qed.

  (* REPAIR: the reverse loop reads conventional_inc_angle(n - k), k = 1..n-1: the interior
     entries of rg_inc (it was `rev (rg_inc rg)` when rg_inc had the interior entries only) *)
  Lemma rev_gamma_list_idx_eq rg n : rg_wf rg n ->
    rev_gamma_list_idx N rg = Ok (rev_gamma_list N (rev (rg_vel rg)) (rev (rg_inc_interior rg))).
  Proof.
    intros Hwf. pose proof Hwf as (Hn & Hni & Hv & Hl & Hi & Ho).
    assert (Hii : length (rg_inc_interior rg) = n - 1)
      by (unfold rg_inc_interior; rewrite removelast_length; lia).
    unfold rev_gamma_list_idx. rewrite Hni. replace (S n - 1) with n by lia.
    apply omapM_Forall2.
    replace (n - 1) with (length (rev_gamma_list N (rev (rg_vel rg)) (rev (rg_inc_interior rg))))
      by (rewrite rev_gamma_list_length, !rev_length; lia).
    apply Forall2_seq. intros j g Hg.
    destruct (rev_gamma_list_nth _ _ _ _ Hg) as (th & vn & vp & H1 & H2 & H3 & ->).
    assert (Hj : j < n - 1).
    { rewrite <- Hii, <- (rev_length (rg_inc_interior rg)). apply nth_error_Some. congruence. }
    rewrite nth_error_rev in H1 by lia. rewrite nth_error_rev in H2 by lia.
    rewrite nth_error_rev in H3 by lia. rewrite Hii in H1. rewrite Hv in H2, H3.
    unfold rg_inc_interior in H1. rewrite nth_error_removelast in H1 by lia.
    rewrite (inc_angle_ok rg n (n - (1 + j)) th Hwf)
      by (try lia; replace (n - (1 + j) - 1) with (n - 1 - 1 - j) by lia; exact H1).
    cbn [obind]. unfold rg_velocity.
    replace (n - (1 + j)) with (n - 1 - j) by lia. rewrite (lookup_ok _ _ _ H2). cbn [obind].
    replace (n - 1 - j - 1) with (n - 1 - S j) by lia. rewrite (lookup_ok _ _ _ H3). reflexivity.
  Qed.

  (* the accumulation of the virtual distance over legs[legidx k] *)
  Lemma vd_loop_eq rg n first legidx gl r1 rest :
    rg_wf rg n -> 1 <= first -> nth_error (rg_leg rg) (first - 1) = Some r1 ->
    length rest = n - 1 ->
    (forall j r, nth_error rest j = Some r ->
                 1 <= legidx (1 + j) /\ nth_error (rg_leg rg) (legidx (1 + j) - 1) = Some r) ->
    vd_loop N rg first legidx gl n = Ok (virtual_distance N (r1 :: rest) gl).
  Proof.
    intros Hwf Hf H1 Hlen Hrest. unfold vd_loop.
    rewrite (leg_size_ok rg n first r1 Hwf Hf H1). cbn [obind].
    rewrite <- Hlen.
    rewrite (fold_obind_Forall2 (fun k => rg_inc_leg_size rg (legidx k))
               (fun vd k r => nadd N vd (ndiv N r (gamma_prefix N gl k))) (seq 1 (length rest)) rest).
    - reflexivity.
    - apply Forall2_seq. intros j r Hj. destruct (Hrest j r Hj) as [Ha Hb].
      apply (leg_size_ok rg n _ r Hwf Ha Hb).
  Qed.

  Lemma beamspread_idx_eq rg n : rg_wf rg n ->
    beamspread_idx N rg = Ok (beamspread N (rg_vel rg) (rg_leg rg) (rg_inc rg)).
  Proof.
    intros Hwf. pose proof Hwf as (Hn & Hni & Hv & Hl & Hi & Ho).
    unfold beamspread_idx. rewrite (gamma_list_idx_eq rg n Hwf). cbn [obind].
    rewrite Hni. replace (S n - 1) with n by lia.
    destruct (rg_leg rg) as [|r1 rest] eqn:El; [simpl in Hl; lia|].
    rewrite (vd_loop_eq rg n 1 (fun k => k + 1) _ r1 rest Hwf).
    - reflexivity.
    - lia.
    - rewrite El. reflexivity.
    - simpl in Hl. lia.
    - intros j r Hj. split; [lia|]. rewrite El.
      replace (1 + j + 1 - 1) with (S j) by lia. exact Hj.
  Qed.

  Lemma reverse_beamspread_idx_eq rg n : rg_wf rg n ->
    reverse_beamspread_idx N rg = Ok (reverse_beamspread N (rg_vel rg) (rg_leg rg) (rg_inc_interior rg)).
  Proof.
    intros Hwf. pose proof Hwf as (Hn & Hni & Hv & Hl & Hi & Ho).
    unfold reverse_beamspread_idx. rewrite (rev_gamma_list_idx_eq rg n Hwf). cbn [obind].
    rewrite Hni. replace (S n - 1) with n by lia.
    destruct (rev (rg_leg rg)) as [|rn rest] eqn:El.
    { apply (f_equal (@length T)) in El. rewrite rev_length in El. simpl in El. lia. }
    assert (Hrl : length rest = n - 1).
    { apply (f_equal (@length T)) in El. rewrite rev_length in El. simpl in El. lia. }
    assert (Hnth : forall j, j < n -> nth_error (rn :: rest) j = nth_error (rg_leg rg) (n - 1 - j)).
    { intros j Hj. rewrite <- El. rewrite nth_error_rev by lia. rewrite Hl. reflexivity. }
    rewrite (vd_loop_eq rg n n (fun k => n - k) _ rn rest Hwf).
    - unfold reverse_beamspread. rewrite El. reflexivity.
    - lia.
    - pose proof (Hnth 0 ltac:(lia)) as H0. rewrite Nat.sub_0_r in H0. rewrite <- H0. reflexivity.
    - exact Hrl.
    - intros j r Hj.
      assert (j < n - 1) by (rewrite <- Hrl; apply nth_error_Some; congruence).
      split; [lia|].
      replace (n - (1 + j) - 1) with (n - 1 - S j) by lia. rewrite <- Hnth by lia. exact Hj.
  Qed.
End BeamIdx.

(* ===== material_attenuation_for_path: the loop = the list-level kernel ==================== *)
Section AttIdx.
  Context {T : Type} (N : Num T).

  Definition att_step (acc : T) (ar : option T * T) : T :=
    match fst ar with None => acc | Some a => nsub N acc (nmul N a (snd ar)) end.

  Definition att_coef (frequency : T) (mm : pmaterial T * wmode) : option T :=
    match pm_attenuation (fst mm) (snd mm) with None => None | Some f => Some (f frequency) end.

  Lemma att_loop_gen rg n frequency : rg_wf rg n -> forall mm k legs acc,
    1 <= k ->
    (forall j r, nth_error legs j = Some r -> nth_error (rg_leg rg) (k - 1 + j) = Some r) ->
    length mm <= length legs ->
    att_loop N rg frequency k mm acc
    = Ok (fold_left att_step (combine (map (att_coef frequency) mm) legs) acc).
  Proof.
    intros Hwf mm. induction mm as [|[m md] mm IH]; intros k legs acc Hk Hlegs Hlen; [reflexivity|].
    destruct legs as [|d legs]; [simpl in Hlen; lia|].
    cbn [att_loop map combine fold_left]. unfold att_step at 2, att_coef at 2. cbn [fst snd].
    assert (Hnext : forall j r, nth_error legs j = Some r -> nth_error (rg_leg rg) (S k - 1 + j) = Some r).
    { intros j r Hj. specialize (Hlegs (S j) r Hj). replace (S k - 1 + j) with (k - 1 + S j) by lia. exact Hlegs. }
    destruct (pm_attenuation m md) as [f|].
    - rewrite (leg_size_ok rg n k d Hwf Hk).
      + cbn [obind]. apply IH; [lia | exact Hnext | simpl in Hlen; lia].
      + specialize (Hlegs 0 d eq_refl). rewrite Nat.add_0_r in Hlegs. exact Hlegs.
    - apply IH; [lia | exact Hnext | simpl in Hlen; lia].
  Qed.

  Lemma material_attenuation_path_eq (p : ppath T) rg n frequency :
    rg_wf rg n -> length (pp_materials p) = n -> length (pp_modes p) = n ->
    material_attenuation_path N p rg frequency
    = Ok (attenuation N (att_coeffs_of_path p frequency) (rg_leg rg)).
  Proof.
    intros Hwf Hm Hd. pose proof Hwf as (Hn & Hni & Hv & Hl & Hi & Ho).
    unfold material_attenuation_path.
    rewrite (att_loop_gen rg n frequency Hwf _ 1 (rg_leg rg)).
    - reflexivity.
    - lia.
    - intros j r Hj. exact Hj.
    - rewrite combine_length, Hm, Hd, Hl. lia.
  Qed.
End AttIdx.

(* ===== the objects and their reversal ==================================================== *)
Section ObjectsRev.
  Context {T : Type}.

  Lemma ikind_reverse_involutive k : ikind_reverse (ikind_reverse k) = k.
  Proof. destruct k; reflexivity. Qed.

  (* what Interface.reverse returns *)
  Lemma pint_reverse_fields (x y : pinterface T) : pint_reverse x = Ok y ->
    pi_points y = pi_points x /\ pi_tr y = pi_tr x /\ pi_against y = pi_against x /\
    pi_inc_side y = pi_out_side x /\ pi_out_side y = pi_inc_side x /\
    pi_kind y = match pi_kind x, pi_tr x with
                | Some k, Some Transmission => Some (ikind_reverse k)
                | k, _ => k
                end /\
    (pi_kind x <> None -> pi_tr x <> None) /\
    (pi_against x <> None <-> pi_tr x = Some Reflection).
  Proof.
    unfold pint_reverse, pint_rev_kind, pint_init. intros H.
    destruct x as [pts kind tr ag fi fo]; cbn in *.
    destruct kind as [k|]; destruct tr as [[|]|]; destruct ag as [a|]; cbn in H;
      try discriminate; inversion H; subst; cbn;
      repeat split; try reflexivity; try congruence; intros; try congruence; try discriminate.
  Qed.

  (* Interface.reverse raises exactly on an interface built against the constructor's rules or
     with a kind and no transmission/reflection ("reverse path is ambiguous") *)
  Lemma pint_reverse_raises_iff (x : pinterface T) :
    (exists e, pint_reverse x = Raise e) <->
    ((pi_kind x <> None /\ pi_tr x = None) \/
     (pi_against x <> None /\ pi_tr x <> Some Reflection) \/
     (pi_against x = None /\ pi_tr x = Some Reflection)).
  Proof.
    unfold pint_reverse, pint_rev_kind, pint_init.
    destruct x as [pts kind tr ag fi fo]; cbn.
    destruct kind as [k|]; destruct tr as [[|]|]; destruct ag as [a|]; cbn; split;
      try (intros [e He]; discriminate);
      try (intros _; eexists; reflexivity);
      try (intros _; (left; split; congruence) || (right; left; split; congruence) || (right; right; split; congruence));
      intros [[H1 H2]|[[H1 H2]|[H1 H2]]]; congruence.
  Qed.

  Lemma pint_reverse_involutive (x y : pinterface T) : pint_reverse x = Ok y -> pint_reverse y = Ok x.
  Proof.
    unfold pint_reverse, pint_rev_kind, pint_init. intros H.
    destruct x as [pts kind tr ag fi fo]; cbn in *.
    destruct kind as [k|]; destruct tr as [[|]|]; destruct ag as [a|]; cbn in H;
      try discriminate; inversion H; subst; cbn; rewrite ?ikind_reverse_involutive; reflexivity.
  Qed.

  Lemma omapM_involutive {A} (f : A -> outcome A) :
    (forall x y, f x = Ok y -> f y = Ok x) -> forall l r, omapM f l = Ok r -> omapM f r = Ok l.
  Proof.
    intros Hf l r H. apply omapM_Forall2. apply omapM_ok_Forall2 in H.
    induction H; constructor; auto.
  Qed.

  Lemma omapM_length {A B} (f : A -> outcome B) l r : omapM f l = Ok r -> length r = length l.
  Proof. intros H. apply omapM_ok_Forall2 in H. symmetry. eapply Forall2_len; eauto. Qed.

  Lemma omapM_rev {A B} (f : A -> outcome B) l r : omapM f l = Ok r -> omapM f (rev l) = Ok (rev r).
  Proof.
    intros H. apply omapM_Forall2. apply omapM_ok_Forall2 in H. apply Forall2_rev'. exact H.
  Qed.

  (* Path.reverse, when it returns *)
  Lemma ppath_reverse_fields (p q : ppath T) : ppath_reverse p = Ok q ->
    exists ris, omapM pint_reverse (pp_interfaces p) = Ok ris /\
      pp_interfaces q = rev ris /\ pp_materials q = rev (pp_materials p) /\
      pp_modes q = rev (pp_modes p) /\
      pp_rays q = match pp_rays p with None => None | Some r => Some (rg_reverse r) end /\
      2 <= length (pp_interfaces p) /\
      length (pp_materials p) = length (pp_interfaces p) - 1 /\
      length (pp_modes p) = length (pp_interfaces p) - 1.
  Proof.
    unfold ppath_reverse. intros H.
    destruct (omapM pint_reverse (pp_interfaces p)) as [ris|e] eqn:E; cbn [obind] in H; [|discriminate].
    pose proof (omapM_length _ _ _ E) as Hlen.
    unfold ppath_init in H. rewrite !rev_length, Hlen in H.
    destruct (Nat.leb_spec 2 (length (pp_interfaces p))) as [H2|H2]; cbn [negb] in H; [|discriminate].
    destruct (Nat.eqb_spec (length (pp_materials p)) (length (pp_interfaces p) - 1)) as [Hm|Hm];
      cbn [negb] in H; [|discriminate].
    destruct (Nat.eqb_spec (length (pp_modes p)) (length (pp_interfaces p) - 1)) as [Hd|Hd];
      cbn [negb obind] in H; [|discriminate].
    inversion H; subst q; cbn. exists ris. repeat split; auto.
  Qed.

  (* Path.reverse raises exactly when the constructor's asserts fail or some interface cannot
     be reversed *)
  Lemma ppath_reverse_ok_iff (p : ppath T) :
    (exists q, ppath_reverse p = Ok q) <->
    ((exists ris, omapM pint_reverse (pp_interfaces p) = Ok ris) /\
     2 <= length (pp_interfaces p) /\
     length (pp_materials p) = length (pp_interfaces p) - 1 /\
     length (pp_modes p) = length (pp_interfaces p) - 1).
  Proof.
    split.
    - intros [q Hq]. destruct (ppath_reverse_fields p q Hq) as (ris & H1 & _ & _ & _ & _ & H2 & H3 & H4).
      split; [exists ris; exact H1 | auto].
    - intros ([ris E] & H2 & Hm & Hd). unfold ppath_reverse. rewrite E. cbn [obind].
      pose proof (omapM_length _ _ _ E) as Hlen.
      unfold ppath_init. rewrite !rev_length, Hlen.
      destruct (Nat.leb_spec 2 (length (pp_interfaces p))); [|lia]. cbn [negb].
      rewrite Hm, Hd, Nat.eqb_refl. cbn [negb obind]. eexists; reflexivity.
  Qed.

  Lemma ppath_reverse_involutive (p q : ppath T) : ppath_reverse p = Ok q -> ppath_reverse q = Ok p.
  Proof.
    intros H. destruct (ppath_reverse_fields p q H) as (ris & E & Hi & Hm & Hd & Hr & H2 & Hlm & Hld).
    pose proof (omapM_length _ _ _ E) as Hlen.
    unfold ppath_reverse. rewrite Hi, Hm, Hd.
    rewrite (omapM_rev _ _ _ (omapM_involutive _ pint_reverse_involutive _ _ E)).
    cbn [obind]. rewrite !rev_involutive. unfold ppath_init.
    destruct (Nat.leb_spec 2 (length (pp_interfaces p))); [|lia]. cbn [negb].
    rewrite Hlm, Hld, Nat.eqb_refl. cbn [negb obind]. rewrite Hr.
    destruct p as [ifs ms mds rays]; cbn. f_equal. f_equal.
    destruct rays as [r|]; [|reflexivity]. rewrite rg_reverse_involutive. reflexivity.
  Qed.

  (* the velocities of the reversed path are the reversed velocities: the FermatPath of
     path.reverse() is FermatPath.reverse() of the path's, as Rays.reverse() assumes *)
  Lemma ppath_velocities_reverse (p q : ppath T) : ppath_reverse p = Ok q ->
    ppath_velocities q = rev (ppath_velocities p).
  Proof.
    intros H. destruct (ppath_reverse_fields p q H) as (ris & E & Hi & Hm & Hd & Hr & H2 & Hlm & Hld).
    unfold ppath_velocities. rewrite Hm, Hd.
    rewrite BeamspreadProofs.combine_rev_eq by congruence. rewrite map_rev. reflexivity.
  Qed.

  Lemma ppath_velocities_length (p : ppath T) n :
    length (pp_materials p) = n -> length (pp_modes p) = n -> length (ppath_velocities p) = n.
  Proof. intros H1 H2. unfold ppath_velocities. rewrite map_length, combine_length, H1, H2. lia. Qed.

  (* RayGeometry.from_path(path.reverse()) is the reversed ray geometry *)
  Lemma ray_geometry_of_reversed_path (p q : ppath T) rg : ppath_reverse p = Ok q ->
    ray_geometry_from_path p = Ok rg -> ray_geometry_from_path q = Ok (rg_reverse rg).
  Proof.
    intros H Hrg. destruct (ppath_reverse_fields p q H) as (ris & E & Hi & Hm & Hd & Hr & H2 & Hlm & Hld).
    unfold ray_geometry_from_path in *. rewrite Hr.
    destruct (pp_rays p) as [r|]; [|discriminate]. inversion Hrg; subst rg.
    unfold rg_reverse. cbn. rewrite Hi, rev_length, (omapM_length _ _ _ E). reflexivity.
  Qed.

  Lemma ray_geometry_from_path_none (p : ppath T) :
    pp_rays p = None -> ray_geometry_from_path p = Raise EValue.
  Proof. intros H. unfold ray_geometry_from_path. rewrite H. reflexivity. Qed.
End ObjectsRev.

(* ===== more list facts ==================================================================== *)
Lemma interior_length {A} (l : list A) : length (interior l) = length l - 2.
Proof. unfold interior. rewrite removelast_length. destruct l; simpl; lia. Qed.

Lemma interior_nth {A} (l : list A) j : S j < length l - 1 ->
  nth_error (interior l) j = nth_error l (S j).
Proof.
  intros Hj. unfold interior. rewrite nth_error_removelast by (destruct l; simpl in *; lia).
  destruct l; [simpl in Hj; lia | reflexivity].
Qed.

Lemma Forall2_nth_l {A B} (R : A -> B -> Prop) l r : Forall2 R l r -> forall j x,
  nth_error l j = Some x -> exists y, nth_error r j = Some y /\ R x y.
Proof.
  induction 1 as [|x0 y0 l r Hxy _ IH]; intros j x Hj; [destruct j; discriminate|].
  destruct j as [|j]; cbn in *.
  - inversion Hj; subst. exists y0. split; [reflexivity | exact Hxy].
  - apply IH. exact Hj.
Qed.

Lemma Forall2_of_nth {A B} (R : A -> B -> Prop) l : forall r, length l = length r ->
  (forall j a b, nth_error l j = Some a -> nth_error r j = Some b -> R a b) -> Forall2 R l r.
Proof.
  induction l as [|a l IH]; intros [|b r] Hlen H; simpl in Hlen; try discriminate; constructor.
  - apply (H 0); reflexivity.
  - apply IH; [congruence|]. intros j a' b' Ha Hb. apply (H (S j)); assumption.
Qed.

(* ===== the transmission/reflection loops and path reversal ================================= *)
Section TransReflRev.
  Context {T K : Type} (N : Num T) (NK : Num K) (emb : T -> K).
  Hypothesis mul_comm : forall a b : K, nmul NK a b = nmul NK b a.
  Hypothesis mul_assoc : forall a b c : K, nmul NK (nmul NK a b) c = nmul NK a (nmul NK b c).

  (* the outcomes of the loop body, interface by interface *)
  Definition steps (step : nat -> pinterface T -> outcome K) (a : nat) (l : list (pinterface T)) : list (outcome K) :=
    map (fun ix => step (fst ix) (snd ix)) (combine (seq a (length l)) l).
  Definition collect (l : list (outcome K)) : outcome (list K) := omapM (fun o => o) l.

  Lemma steps_nth step l : forall a j,
    nth_error (steps step a l) j = option_map (step (a + j)) (nth_error l j).
  Proof.
    induction l as [|x l IH]; intros a j; [destruct j; reflexivity|].
    destruct j as [|j]; cbn; [rewrite Nat.add_0_r; reflexivity|].
    unfold steps in IH. rewrite IH. replace (S a + j) with (a + S j) by lia. reflexivity.
  Qed.

  Lemma steps_length step a l : length (steps step a l) = length l.
  Proof. unfold steps. rewrite map_length, combine_length, seq_length. lia. Qed.

  Lemma tr_loop_some step l : forall i a,
    tr_loop NK step i l (Some a)
    = obind (collect (steps step i l)) (fun r => Ok (Some (fold_left (nmul NK) r a))).
  Proof.
    induction l as [|x l IH]; intros i a; [reflexivity|].
    cbn [tr_loop]. unfold steps, collect. cbn [length seq combine map omapM fst snd].
    destruct (step i x) as [t|e]; cbn [obind]; [|reflexivity].
    rewrite IH. unfold steps, collect.
    destruct (omapM (fun o => o) (map (fun ix => step (fst ix) (snd ix)) (combine (seq (S i) (length l)) l)));
      reflexivity.
  Qed.

  (* transrefl = None, then the product in the order of the interfaces; the first error wins *)
  Lemma tr_loop_spec step l i :
    tr_loop NK step i l None = obind (collect (steps step i l)) (fun r => Ok (prod_list NK r)).
  Proof.
    destruct l as [|x l]; [reflexivity|].
    cbn [tr_loop]. unfold steps, collect. cbn [length seq combine map omapM fst snd].
    destruct (step i x) as [t|e]; cbn [obind]; [|reflexivity].
    rewrite tr_loop_some. unfold steps, collect.
    destruct (omapM (fun o => o) (map (fun ix => step (fst ix) (snd ix)) (combine (seq (S i) (length l)) l)));
      reflexivity.
  Qed.

  Lemma collect_rev l r : collect l = Ok r -> collect (rev l) = Ok (rev r).
  Proof. apply omapM_rev. Qed.

  Lemma collect_raise_rev l e : collect l = Raise e -> exists e', collect (rev l) = Raise e'.
  Proof.
    intros H. destruct (collect (rev l)) as [r|e'] eqn:E; [|exists e'; reflexivity].
    apply collect_rev in E. rewrite rev_involutive in E. congruence.
  Qed.

  Lemma collect_sim l1 l2 : Forall2 same_outcome l1 l2 ->
    match collect l1, collect l2 with
    | Ok r1, Ok r2 => r1 = r2
    | Raise _, Raise _ => True
    | _, _ => False
    end.
  Proof.
    unfold collect. induction 1 as [|o1 o2 l1 l2 Ho _ IH]; cbn [omapM]; [reflexivity|].
    destruct o1 as [a|e1], o2 as [b|e2]; cbn in Ho; try contradiction; cbn [obind]; [|exact I].
    subst b. destruct (omapM (fun o => o) l1), (omapM (fun o => o) l2); cbn [obind]; try contradiction; [|exact I].
    congruence.
  Qed.

  (* two loops whose bodies agree interface by interface in opposite orders *)
  Lemma tr_loop_reversed stepR stepF L L' :
    Forall2 same_outcome (steps stepR 1 L) (rev (steps stepF 1 L')) ->
    same_outcome (tr_loop NK stepR 1 L None) (tr_loop NK stepF 1 L' None).
  Proof.
    intros H. rewrite !tr_loop_spec. pose proof (collect_sim _ _ H) as S.
    destruct (collect (steps stepF 1 L')) as [rf|ef] eqn:EF.
    - rewrite (collect_rev _ _ EF) in S.
      destruct (collect (steps stepR 1 L)) as [rr|er]; [|contradiction].
      subst rr. cbn. apply prod_list_rev; assumption.
    - destruct (collect_raise_rev _ _ EF) as [e' E']. rewrite E' in S.
      destruct (collect (steps stepR 1 L)); [contradiction | exact I].
  Qed.

  (* ---- what the loop bodies read for the interior interface number 1 + j ---- *)
  Record frame := mkFrame {
    fr_x : pinterface T;
    fr_mp : pmaterial T; fr_mn : pmaterial T;      (* materials[i-1], materials[i] *)
    fr_mdp : wmode; fr_mdn : wmode;                (* modes[i-1], modes[i] *)
    fr_inc : T; fr_out : T                         (* conventional inc / out angles at i *)
  }.

  (* interface i = 1 + j: rg_inc[i - 1], rg_out[i] *)
  Definition frame_at (p : ppath T) (rg : raygeom T) (j : nat) : option frame :=
    match nth_error (pp_interfaces p) (S j), nth_error (pp_materials p) j, nth_error (pp_materials p) (S j),
          nth_error (pp_modes p) j, nth_error (pp_modes p) (S j),
          nth_error (rg_inc rg) j, nth_error (rg_out rg) (S j) with
    | Some x, Some mp, Some mn, Some mdp, Some mdn, Some th, Some tho =>
        Some (mkFrame x mp mn mdp mdn th tho)
    | _, _, _, _, _, _, _ => None
    end.

  Definition stepF_fr (u : option cunit) (fr : frame) : outcome K :=
    match pi_tr (fr_x fr) with
    | None => Raise EAssert
    | Some Transmission =>
        transmission_call NK emb (pi_kind (fr_x fr)) (fr_mp fr) (fr_mn fr) (fr_mdp fr) (fr_mdn fr) (emb (fr_inc fr)) u
    | Some Reflection =>
        reflection_call NK emb (pi_kind (fr_x fr)) (fr_mp fr) (pi_against (fr_x fr)) (fr_mdp fr) (fr_mdn fr)
                        (emb (fr_inc fr)) u
    end.

  (* the angle of incidence on the way back that the reverse function derives by Snell's law *)
  Definition rev_angle (fr : frame) : K :=
    match pi_tr (fr_x fr) with
    | Some Reflection =>
        emb (snell_angles N (fr_inc fr) (pm_velocity (fr_mn fr) (fr_mdp fr)) (pm_velocity (fr_mn fr) (fr_mdn fr)))
    | _ =>
        snell_angles NK (emb (fr_inc fr)) (emb (pm_velocity (fr_mp fr) (fr_mdp fr)))
                     (emb (pm_velocity (fr_mn fr) (fr_mdn fr)))
    end.

  (* REPAIR: one of the two velocities the reverse function hands to snell_angles is None
     (the T mode in a fluid): TypeError before the helper is entered *)
  Definition rev_vel_missing (fr : frame) : bool :=
    match pi_tr (fr_x fr) with
    | Some Reflection =>
        pm_velocity_missing (fr_mn fr) (fr_mdp fr) || pm_velocity_missing (fr_mn fr) (fr_mdn fr)
    | _ =>
        pm_velocity_missing (fr_mp fr) (fr_mdp fr) || pm_velocity_missing (fr_mn fr) (fr_mdn fr)
    end.

  Definition stepR_fr (u : option cunit) (fr : frame) : outcome K :=
    match pi_tr (fr_x fr) with
    | None => Raise EAssert
    | Some Transmission =>
        match pi_kind (fr_x fr) with
        | None => Raise EAttr
        | Some k =>
            if rev_vel_missing fr then Raise EHelper else
            transmission_call NK emb (Some (ikind_reverse k)) (fr_mn fr) (fr_mp fr) (fr_mdn fr) (fr_mdp fr)
                              (rev_angle fr) u
        end
    | Some Reflection =>
        if rev_vel_missing fr then Raise EHelper else
        reflection_call NK emb (pi_kind (fr_x fr)) (fr_mn fr) (pi_against (fr_x fr)) (fr_mdn fr) (fr_mdp fr)
                        (rev_angle fr) u
    end.

  (* a path and a ray geometry with n legs *)
  Definition path_wf (p : ppath T) (rg : raygeom T) (n : nat) : Prop :=
    rg_wf rg n /\ length (pp_interfaces p) = S n /\ length (pp_materials p) = n /\ length (pp_modes p) = n.

  Lemma frame_at_some p rg n j : path_wf p rg n -> j < n - 1 -> exists fr, frame_at p rg j = Some fr.
  Proof.
    intros ((Hn & Hni & Hv & Hl & Hi & Ho) & Hli & Hlm & Hld) Hj. unfold frame_at.
    destruct (nth_error (pp_interfaces p) (S j)) eqn:E1; [|apply nth_error_None in E1; lia].
    destruct (nth_error (pp_materials p) j) eqn:E2; [|apply nth_error_None in E2; lia].
    destruct (nth_error (pp_materials p) (S j)) eqn:E3; [|apply nth_error_None in E3; lia].
    destruct (nth_error (pp_modes p) j) eqn:E4; [|apply nth_error_None in E4; lia].
    destruct (nth_error (pp_modes p) (S j)) eqn:E5; [|apply nth_error_None in E5; lia].
    destruct (nth_error (rg_inc rg) j) eqn:E6; [|apply nth_error_None in E6; lia].
    destruct (nth_error (rg_out rg) (S j)) eqn:E7; [|apply nth_error_None in E7; lia].
    eexists; reflexivity.
  Qed.

  Lemma frame_at_inv p rg j fr : frame_at p rg j = Some fr ->
    nth_error (pp_interfaces p) (S j) = Some (fr_x fr) /\
    nth_error (pp_materials p) j = Some (fr_mp fr) /\ nth_error (pp_materials p) (S j) = Some (fr_mn fr) /\
    nth_error (pp_modes p) j = Some (fr_mdp fr) /\ nth_error (pp_modes p) (S j) = Some (fr_mdn fr) /\
    nth_error (rg_inc rg) j = Some (fr_inc fr) /\ nth_error (rg_out rg) (S j) = Some (fr_out fr).
  Proof.
    unfold frame_at. intros H.
    destruct (nth_error (pp_interfaces p) (S j)); [|discriminate].
    destruct (nth_error (pp_materials p) j); [|discriminate].
    destruct (nth_error (pp_materials p) (S j)); [|discriminate].
    destruct (nth_error (pp_modes p) j); [|discriminate].
    destruct (nth_error (pp_modes p) (S j)); [|discriminate].
    destruct (nth_error (rg_inc rg) j); [|discriminate].
    destruct (nth_error (rg_out rg) (S j)); [|discriminate].
    inversion H; subst; cbn. repeat split; reflexivity.
  Qed.

  (* the loop bodies with the source's indices are the frame-level bodies *)
  Lemma stepF_at p rg n u j fr : path_wf p rg n -> frame_at p rg j = Some fr ->
    tr_step_forward NK emb p rg u (1 + j) (fr_x fr) = stepF_fr u fr.
  Proof.
    intros (Hwf & _) H. destruct (frame_at_inv _ _ _ _ H) as (H1 & H2 & H3 & H4 & H5 & H6 & H7).
    unfold tr_step_forward, stepF_fr. destruct (pi_tr (fr_x fr)) as [tr|]; [|reflexivity].
    replace (1 + j - 1) with j by lia. replace (1 + j) with (S j) by lia.
    rewrite (lookup_ok _ _ _ H2), (lookup_ok _ _ _ H4), (lookup_ok _ _ _ H5). cbn [obind].
    rewrite (inc_angle_ok rg n (S j) (fr_inc fr) Hwf) by (try lia; replace (S j - 1) with j by lia; exact H6).
    cbn [obind]. destruct tr; [|reflexivity].
    rewrite (lookup_ok _ _ _ H3). reflexivity.
  Qed.

  Lemma stepR_at p rg n u j fr : path_wf p rg n -> frame_at p rg j = Some fr ->
    tr_step_reverse N NK emb p rg u (1 + j) (fr_x fr) = stepR_fr u fr.
  Proof.
    intros (Hwf & _) H. destruct (frame_at_inv _ _ _ _ H) as (H1 & H2 & H3 & H4 & H5 & H6 & H7).
    unfold tr_step_reverse, stepR_fr, rev_angle, rev_vel_missing. destruct (pi_tr (fr_x fr)) as [tr|]; [|reflexivity].
    replace (1 + j - 1) with j by lia. replace (1 + j) with (S j) by lia.
    rewrite (lookup_ok _ _ _ H5), (lookup_ok _ _ _ H3), (lookup_ok _ _ _ H4). cbn [obind].
    rewrite (inc_angle_ok rg n (S j) (fr_inc fr) Hwf) by (try lia; replace (S j - 1) with j by lia; exact H6).
    cbn [obind]. destruct tr; [|reflexivity].
    rewrite (lookup_ok _ _ _ H2). reflexivity.
  Qed.

  (* the frame of the reversed path at the mirrored position *)
  Definition frame_flip (fr : frame) (y : pinterface T) : frame :=
    mkFrame y (fr_mn fr) (fr_mp fr) (fr_mdn fr) (fr_mdp fr) (fr_out fr) (fr_inc fr).

  Lemma path_wf_reverse p q rg n : ppath_reverse p = Ok q -> path_wf p rg n -> path_wf q (rg_reverse rg) n.
  Proof.
    intros H (Hwf & Hli & Hlm & Hld).
    destruct (ppath_reverse_fields p q H) as (ris & E & Hi & Hm & Hd & Hr & H2 & Hlm' & Hld').
    split; [apply rg_wf_reverse; exact Hwf|]. rewrite Hi, Hm, Hd, !rev_length, (omapM_length _ _ _ E). auto.
  Qed.

  Lemma frame_at_reverse p q rg n j fr : ppath_reverse p = Ok q -> path_wf p rg n -> j < n - 1 ->
    frame_at p rg j = Some fr ->
    exists y, pint_reverse (fr_x fr) = Ok y /\ frame_at q (rg_reverse rg) (n - 2 - j) = Some (frame_flip fr y).
  Proof.
    intros H ((Hn & Hni & Hv & Hl & Hi & Ho) & Hli & Hlm & Hld) Hj Hfr.
    destruct (ppath_reverse_fields p q H) as (ris & E & Hqi & Hqm & Hqd & Hr & H2 & Hlm' & Hld').
    destruct (frame_at_inv _ _ _ _ Hfr) as (H1 & H3 & H4 & H5 & H6 & H7 & H8).
    destruct (Forall2_nth_l _ _ _ (omapM_ok_Forall2 _ _ _ E) _ _ H1) as (y & Hy & Hxy).
    exists y. split; [exact Hxy|].
    pose proof (omapM_length _ _ _ E) as Hlr.
    unfold frame_at, rg_reverse. cbn [rg_inc rg_out]. rewrite Hqi, Hqm, Hqd.
    rewrite !nth_error_rev by lia. rewrite Hlr, Hli, Hlm, Hld, Hi, Ho.
    replace (S n - 1 - S (n - 2 - j)) with (S j) by lia.
    replace (n - 1 - (n - 2 - j)) with (S j) by lia.
    replace (n - 1 - S (n - 2 - j)) with j by lia.
    rewrite Hy, H3, H4, H5, H6, H7, H8. reflexivity.
  Qed.

  (* the hypothesis "for rays obeying Snell's law", in the coefficient dtype: at every interior
     interface the angle the reverse function derives is the conventional outgoing angle *)
  Definition snell_frames (p : ppath T) (rg : raygeom T) : Prop :=
    forall j fr, frame_at p rg j = Some fr -> pi_tr (fr_x fr) <> None -> rev_angle fr = emb (fr_out fr).

  (* REPAIR: where the reverse function raises TypeError on a None velocity before the helper,
     the helper called by the DIRECT function on the reversed path raises too (ValueError /
     NotImplementedError / AttributeError from its own checks, or an exception of class EHelper:
     the None velocity belongs to the material in the solid role, or the mode combination is
     one the helper rejects) *)
  Lemma transmission_call_raises_missing k (m_inc m_out : pmaterial T) mi mo a u :
    pm_velocity_missing m_out mo || pm_velocity_missing m_inc mi = true ->
    exists e, transmission_call NK emb (Some k) m_inc m_out mi mo a u = Raise e.
  Proof.
    unfold transmission_call, pm_velocity_missing, pm_velocity_opt, pm_vt_missing. intros H.
    destruct u as [u|]; [|eexists; reflexivity].
    destruct k, mi, mo, (pm_vt m_inc), (pm_vt m_out); cbn [orb] in H; try discriminate;
      eexists; reflexivity.
  Qed.

  Lemma reflection_call_raises_missing kind (m_inc : pmaterial T) ag mi mo a u :
    pm_velocity_missing m_inc mo || pm_velocity_missing m_inc mi = true ->
    exists e, reflection_call NK emb kind m_inc ag mi mo a u = Raise e.
  Proof.
    unfold reflection_call, pm_velocity_missing, pm_velocity_opt, pm_vt_missing. intros H.
    destruct u as [u|]; [|eexists; reflexivity].
    destruct kind as [k|]; [|eexists; reflexivity].
    destruct ag as [ag|]; [|eexists; reflexivity].
    destruct k, mi, mo, (pm_vt m_inc), (pm_vt ag); cbn [orb] in H; try discriminate;
      eexists; reflexivity.
  Qed.

  Lemma same_outcome_raise_l {A} e (r : outcome A) : (exists e', r = Raise e') -> same_outcome (Raise e) r.
  Proof. intros [e' ->]. exact I. Qed.

  (* one interface: the reverse body on the path = the direct body on the reversed path *)
  Lemma step_sim u fr y : pint_reverse (fr_x fr) = Ok y ->
    (pi_tr (fr_x fr) <> None -> rev_angle fr = emb (fr_out fr)) ->
    same_outcome (stepR_fr u fr) (stepF_fr u (frame_flip fr y)).
  Proof.
    intros Hy Hang. destruct (pint_reverse_fields _ _ Hy) as (_ & Htr & Hag & _ & _ & Hk & _ & _).
    unfold stepR_fr, stepF_fr, frame_flip, rev_vel_missing. cbn [fr_x fr_mp fr_mn fr_mdp fr_mdn fr_inc fr_out].
    rewrite Htr, Hag, Hk.
    destruct (pi_tr (fr_x fr)) as [[|]|] eqn:Etr; [| |exact I].
    - rewrite Hang by discriminate.
      destruct (pi_kind (fr_x fr)) as [k|].
      + destruct (pm_velocity_missing (fr_mp fr) (fr_mdp fr) || pm_velocity_missing (fr_mn fr) (fr_mdn fr)) eqn:Em.
        * apply same_outcome_raise_l. apply transmission_call_raises_missing. exact Em.
        * destruct (transmission_call NK emb (Some (ikind_reverse k)) (fr_mn fr) (fr_mp fr) (fr_mdn fr) (fr_mdp fr)
                      (emb (fr_out fr)) u); [exact eq_refl | exact I].
      + unfold transmission_call. destruct u; exact I.
    - rewrite Hang by discriminate.
      destruct (pm_velocity_missing (fr_mn fr) (fr_mdp fr) || pm_velocity_missing (fr_mn fr) (fr_mdn fr)) eqn:Em.
      + apply same_outcome_raise_l. apply reflection_call_raises_missing. exact Em.
      + destruct (pi_kind (fr_x fr)) as [k|]; cbn zeta;
          match goal with
          | |- same_outcome ?a ?a => destruct a; [exact eq_refl | exact I]
          end.
  Qed.

  (* THE THEOREM: for a ray obeying Snell's law, the reverse product computed on the path is the
     direct product computed on Path.reverse() with the reversed ray geometry — any number of
     interfaces, any kinds / modes / materials, either unit or an invalid one, error branches
     included (both calls raise) *)
  Theorem reverse_transrefl_path_eq p q rg n u :
    ppath_reverse p = Ok q -> path_wf p rg n -> snell_frames p rg ->
    same_outcome (reverse_transrefl_path N NK emb p rg u) (transrefl_path NK emb q (rg_reverse rg) u).
  Proof.
    intros H Hwf Hsn. pose proof (path_wf_reverse _ _ _ _ H Hwf) as Hwfq.
    pose proof Hwf as ((Hn & Hni & Hv & Hl & Hi & Ho) & Hli & Hlm & Hld).
    pose proof Hwfq as (_ & Hqli & _ & _).
    unfold reverse_transrefl_path, transrefl_path. apply tr_loop_reversed.
    apply Forall2_of_nth.
    { rewrite rev_length, !steps_length, !interior_length. lia. }
    intros j a b Ha Hb.
    assert (Hj : j < n - 1).
    { assert (j < length (steps (tr_step_reverse N NK emb p rg u) 1 (interior (pp_interfaces p))))
        by (apply nth_error_Some; congruence).
      rewrite steps_length, interior_length in H0. lia. }
    rewrite nth_error_rev in Hb by (rewrite steps_length, interior_length; lia).
    rewrite steps_length, interior_length, Hqli in Hb.
    rewrite steps_nth in Ha, Hb. rewrite !interior_nth in * by lia.
    destruct (frame_at_some p rg n j Hwf Hj) as [fr Hfr].
    destruct (frame_at_reverse p q rg n j fr H Hwf Hj Hfr) as (y & Hy & Hfq).
    destruct (frame_at_inv _ _ _ _ Hfr) as (H1 & _).
    destruct (frame_at_inv _ _ _ _ Hfq) as (H1q & _). cbn [frame_flip fr_x] in H1q.
    rewrite H1 in Ha. replace (S (S n - 2 - 1 - j)) with (S (n - 2 - j)) in Hb by lia.
    rewrite H1q in Hb. cbn [option_map] in Ha, Hb. inversion Ha; subst a. inversion Hb; subst b.
    change (S j) with (1 + j). rewrite (stepR_at p rg n u j fr Hwf Hfr).
    replace (S (n - 1 - 1 - j)) with (1 + (n - 2 - j)) by lia.
    change y with (fr_x (frame_flip fr y)).
    rewrite (stepF_at q (rg_reverse rg) n u (n - 2 - j) (frame_flip fr y) Hwfq Hfq).
    apply step_sim; [exact Hy|]. apply (Hsn j fr Hfr).
  Qed.
End TransReflRev.

(* ===== the new loops and the list-level kernels of Model/Weights.v ========================== *)
Section ViewOld.
  Context {T K : Type} (N : Num T) (NK : Num K) (emb : T -> K).

  Definition lift1 (o : option K) : outcome K := match o with Some v => Ok v | None => Raise EHelper end.
  Definition lift2 (o : option (option K)) : outcome (option K) :=
    match o with Some v => Ok v | None => Raise EHelper end.

  Lemma velocity_kmat (m : pmaterial T) md : velocity (kmat emb m) md = emb (pm_velocity m md).
  Proof. destruct md; reflexivity. Qed.

  Lemma step_view p rg n u i x y : rg_wf rg n -> 1 <= i -> view_iface emb p rg i x = Some y ->
    tr_step_forward NK emb p rg (Some u) i x = lift1 (tr_forward NK u y).
  Proof.
    intros Hwf Hi H. unfold view_iface in H.
    destruct (pi_kind x) as [k|] eqn:Ek; [|discriminate].
    destruct (pi_tr x) as [tr|] eqn:Etr; [|discriminate].
    destruct (nth_error (pp_materials p) (i - 1)) as [mp|] eqn:E1; [|discriminate].
    destruct (nth_error (pp_materials p) i) as [mn|] eqn:E2; [|discriminate].
    destruct (nth_error (pp_modes p) (i - 1)) as [mdp|] eqn:E3; [|discriminate].
    destruct (nth_error (pp_modes p) i) as [mdn|] eqn:E4; [|discriminate].
    destruct (nth_error (rg_inc rg) (i - 1)) as [th|] eqn:E5; [|discriminate].
    destruct (solid_roles_ok k tr mp mn (pi_against x)) eqn:Esr; cbn [negb] in H; [|discriminate].
    unfold tr_step_forward. rewrite Etr, (lookup_ok _ _ _ E1), (lookup_ok _ _ _ E3), (lookup_ok _ _ _ E4).
    cbn [obind]. rewrite (inc_angle_ok rg n i th Hwf Hi E5). cbn [obind].
    destruct tr.
    - inversion H; subst y. rewrite (lookup_ok _ _ _ E2). cbn [obind].
      unfold transmission_call, tr_forward. rewrite Ek.
      destruct k; cbn [solid_roles_ok] in Esr; apply negb_true_iff in Esr; rewrite Esr; cbn; reflexivity.
    - destruct (pi_against x) as [ag|] eqn:Eag; [|discriminate]. inversion H; subst y.
      unfold reflection_call, tr_forward. rewrite Ek.
      destruct k; cbn [solid_roles_ok] in Esr;
        [ apply negb_true_iff in Esr
        | apply andb_true_iff in Esr; destruct Esr as [Esr _]; apply negb_true_iff in Esr ];
        rewrite Esr; cbn; reflexivity.
  Qed.

  (* the kernels reject the T mode on the fluid side *)
  Lemma kernel_rejects (mi mo : material K) a u :
    (forall md, transmission_at_interface NK FluidSolid mi mo ModeT md a u = None) /\
    (forall md, transmission_at_interface NK SolidFluid mi mo md ModeT a u = None) /\
    reflection_at_interface NK FluidSolid mi mo ModeT ModeL a u = None /\
    reflection_at_interface NK FluidSolid mi mo ModeL ModeT a u = None /\
    reflection_at_interface NK FluidSolid mi mo ModeT ModeT a u = None.
  Proof. repeat split; intros; try destruct md; reflexivity. Qed.

  Lemma step_view_rev p rg n u i x y : rg_wf rg n -> 1 <= i -> view_iface emb p rg i x = Some y ->
    (i_trans y = false -> forall th mn mdp mdn,
       nth_error (rg_inc rg) (i - 1) = Some th -> nth_error (pp_materials p) i = Some mn ->
       nth_error (pp_modes p) (i - 1) = Some mdp -> nth_error (pp_modes p) i = Some mdn ->
       emb (snell_angles N th (pm_velocity mn mdp) (pm_velocity mn mdn))
       = snell_angles NK (emb th) (emb (pm_velocity mn mdp)) (emb (pm_velocity mn mdn))) ->
    tr_step_reverse N NK emb p rg (Some u) i x = lift1 (tr_reverse NK u y).
  Proof.
    intros Hwf Hi H Hemb. unfold view_iface in H.
    destruct (pi_kind x) as [k|] eqn:Ek; [|discriminate].
    destruct (pi_tr x) as [tr|] eqn:Etr; [|discriminate].
    destruct (nth_error (pp_materials p) (i - 1)) as [mp|] eqn:E1; [|discriminate].
    destruct (nth_error (pp_materials p) i) as [mn|] eqn:E2; [|discriminate].
    destruct (nth_error (pp_modes p) (i - 1)) as [mdp|] eqn:E3; [|discriminate].
    destruct (nth_error (pp_modes p) i) as [mdn|] eqn:E4; [|discriminate].
    destruct (nth_error (rg_inc rg) (i - 1)) as [th|] eqn:E5; [|discriminate].
    destruct (solid_roles_ok k tr mp mn (pi_against x)) eqn:Esr; cbn [negb] in H; [|discriminate].
    unfold tr_step_reverse. rewrite Etr, (lookup_ok _ _ _ E4), (lookup_ok _ _ _ E2), (lookup_ok _ _ _ E3).
    cbn [obind]. rewrite (inc_angle_ok rg n i th Hwf Hi E5). cbn [obind].
    destruct tr.
    - inversion H; subst y. rewrite (lookup_ok _ _ _ E1). cbn [obind]. rewrite Ek.
      unfold tr_reverse. cbn [i_trans i_kind i_mprev i_mnext i_modeprev i_modenext i_theta].
      destruct (pm_velocity_missing mp mdp || pm_velocity_missing mn mdn) eqn:Em.
      + (* a None velocity on the fluid side (the solid side has its transverse velocity): the
           kernel rejects the mode combination *)
        destruct (kernel_rejects (kmat emb mn) (kmat emb mp)
                    (snell_angles NK (emb th) (velocity (kmat emb mp) mdp) (velocity (kmat emb mn) mdn)) u)
          as (R1 & R2 & _).
        destruct k; cbn [solid_roles_ok ikind_reverse] in *;
          unfold pm_velocity_missing, pm_velocity_opt, pm_vt_missing in *;
          destruct mdp, mdn, (pm_vt mp), (pm_vt mn); cbn [negb orb] in *;
          try discriminate; rewrite ?R1, ?R2; reflexivity.
      + unfold transmission_call.
        assert (Hs : pm_vt_missing (match ikind_reverse k with FluidSolid => mp | SolidFluid => mn end) = false)
          by (destruct k; cbn [solid_roles_ok ikind_reverse] in *; apply negb_true_iff in Esr; exact Esr).
        rewrite Hs. rewrite !velocity_kmat. reflexivity.
    - destruct (pi_against x) as [ag|] eqn:Eag; [|discriminate]. inversion H; subst y.
      unfold tr_reverse. cbn [i_trans i_kind i_mprev i_mnext i_modeprev i_modenext i_theta i_against].
      destruct (pm_velocity_missing mn mdp || pm_velocity_missing mn mdn) eqn:Em.
      + destruct (kernel_rejects (kmat emb mn) (kmat emb ag)
                    (snell_angles NK (emb th) (velocity (kmat emb mn) mdp) (velocity (kmat emb mn) mdn)) u)
          as (_ & _ & R3 & R4 & R5).
        destruct k; cbn [solid_roles_ok] in *;
          unfold pm_velocity_missing, pm_velocity_opt, pm_vt_missing in *;
          destruct mdp, mdn, (pm_vt mp), (pm_vt mn); cbn [negb orb andb] in *;
          try discriminate; rewrite ?R3, ?R4, ?R5; reflexivity.
      + rewrite (Hemb eq_refl th mn mdp mdn eq_refl eq_refl eq_refl eq_refl).
        unfold reflection_call. rewrite Ek.
        assert (Hs : pm_vt_missing (match k with FluidSolid => ag | SolidFluid => mn end) = false).
        { destruct k; cbn [solid_roles_ok] in Esr;
            [ apply negb_true_iff in Esr; exact Esr
            | apply andb_true_iff in Esr; destruct Esr as [_ Esr]; apply negb_true_iff in Esr; exact Esr ]. }
        rewrite Hs. rewrite !velocity_kmat. reflexivity.
  Qed.

  Lemma collect_view (step : nat -> pinterface T -> outcome K) (f : iface (K:=K) -> option K) p rg :
    forall L i l, view_from emb p rg i L = Some l ->
    (forall j x y, nth_error L j = Some x -> view_iface emb p rg (i + j) x = Some y -> step (i + j) x = lift1 (f y)) ->
    collect (steps step i L)
    = match all_some (map f l) with Some r => Ok r | None => Raise EHelper end.
  Proof.
    induction L as [|x L IH]; intros i l Hv Hs.
    - inversion Hv; subst. reflexivity.
    - cbn [view_from] in Hv.
      destruct (view_iface emb p rg i x) as [y|] eqn:Ey; [|discriminate].
      destruct (view_from emb p rg (S i) L) as [r|] eqn:Er; [|discriminate].
      inversion Hv; subst l.
      unfold steps, collect. cbn [length seq combine map omapM fst snd all_some].
      pose proof (Hs 0 x y eq_refl) as H0. rewrite Nat.add_0_r in H0. rewrite (H0 Ey).
      destruct (f y) as [v|]; cbn [lift1 obind]; [|reflexivity].
      specialize (IH (S i) r Er).
      unfold steps, collect in IH. rewrite IH.
      + destruct (all_some (map f r)); reflexivity.
      + intros j x' y' Hj Hv'. replace (S i + j) with (i + S j) in * by lia. apply Hs; assumption.
  Qed.

  (* transmission_reflection_for_path on the objects = Model.Weights.transrefl_for_path on the view *)
  Theorem transrefl_path_view p rg n u l : path_wf p rg n -> view_path emb p rg = Some l ->
    transrefl_path NK emb p rg (Some u) = lift2 (transrefl_for_path NK u l).
  Proof.
    intros (Hwf & _) Hv. unfold transrefl_path, transrefl_for_path, view_path in *.
    rewrite tr_loop_spec, product_of_spec.
    rewrite (collect_view _ (tr_forward NK u) p rg _ 1 l Hv).
    - destruct (all_some (map (tr_forward NK u) l)); reflexivity.
    - intros j x y _ Hy. apply (step_view p rg n u (1 + j) x y Hwf); [lia | exact Hy].
  Qed.

  (* the same for the reverse function, provided the conversion to the coefficient dtype commutes
     with the Snell angle of the reflections (always for the real dtype; for the complex dtype as
     long as the sine stays in [-1, 1]: the code takes the REAL arcsin there) *)
  Theorem reverse_transrefl_path_view p rg n u l : path_wf p rg n -> view_path emb p rg = Some l ->
    (forall th a b, emb (snell_angles N th a b) = snell_angles NK (emb th) (emb a) (emb b)) ->
    reverse_transrefl_path N NK emb p rg (Some u) = lift2 (reverse_transrefl_for_path NK u l).
  Proof.
    intros (Hwf & _) Hv Hemb. unfold reverse_transrefl_path, reverse_transrefl_for_path, view_path in *.
    rewrite tr_loop_spec, product_of_spec.
    rewrite (collect_view _ (tr_reverse NK u) p rg _ 1 l Hv).
    - destruct (all_some (map (tr_reverse NK u) l)); reflexivity.
    - intros j x y _ Hy. apply (step_view_rev p rg n u (1 + j) x y Hwf); [lia | exact Hy |].
      intros. apply Hemb.
  Qed.
End ViewOld.

(* ===== unit strings ========================================================================= *)
Lemma ascii_lower_idem c : ascii_lower (ascii_lower c) = ascii_lower c.
Proof. destruct c as [[] [] [] [] [] [] [] []]; reflexivity. Qed.
Lemma ascii_lower_upper c : ascii_lower (ascii_upper c) = ascii_lower c.
Proof. destruct c as [[] [] [] [] [] [] [] []]; reflexivity. Qed.

Lemma str_lower_idem s : str_lower (str_lower s) = str_lower s.
Proof. induction s as [|c s IH]; [reflexivity|]. cbn. rewrite ascii_lower_idem. f_equal. exact IH. Qed.
Lemma str_lower_upper s : str_lower (str_upper s) = str_lower s.
Proof. induction s as [|c s IH]; [reflexivity|]. cbn. rewrite ascii_lower_upper. f_equal. exact IH. Qed.

(* the unit is recognised whatever its capitalisation *)
Lemma parse_unit_case_insensitive s1 s2 : str_lower s1 = str_lower s2 -> parse_unit s1 = parse_unit s2.
Proof. intros H. unfold parse_unit. rewrite H. reflexivity. Qed.
Lemma parse_unit_lower s : parse_unit (str_lower s) = parse_unit s.
Proof. apply parse_unit_case_insensitive, str_lower_idem. Qed.
Lemma parse_unit_upper s : parse_unit (str_upper s) = parse_unit s.
Proof. apply parse_unit_case_insensitive, str_lower_upper. Qed.

Lemma parse_unit_spec s :
  (parse_unit s = Some Stress <-> str_lower s = "stress"%string) /\
  (parse_unit s = Some Displacement <-> str_lower s = "displacement"%string) /\
  (parse_unit s = None <-> str_lower s <> "stress"%string /\ str_lower s <> "displacement"%string).
Proof.
  unfold parse_unit.
  destruct (String.eqb_spec (str_lower s) "stress") as [E1|E1];
    [|destruct (String.eqb_spec (str_lower s) "displacement") as [E2|E2]].
  - rewrite E1. repeat split; try congruence; try discriminate. intros [H _]. congruence.
  - rewrite E2. repeat split; try congruence; try discriminate. intros [_ H]. congruence.
  - repeat split; try congruence; try discriminate.
Qed.

(* ===== error branches: which exception, and that the first one (in interface order) wins ===== *)
Section ErrorBranches.
  Context {T K : Type} (N : Num T) (NK : Num K) (emb : T -> K).

  Lemma interior_short {A} (l : list A) : length l <= 2 -> interior l = [].
  Proof. destruct l as [|a [|b [|c l]]]; cbn; intros H; try reflexivity. lia. Qed.

  (* a path without interior interface: both functions return None, whatever the unit string
     (an invalid unit is only detected inside the per-interface helpers) *)
  Lemma transrefl_no_interior (p : ppath T) rg u : length (pp_interfaces p) <= 2 ->
    transrefl_path NK emb p rg u = Ok None /\ reverse_transrefl_path N NK emb p rg u = Ok None.
  Proof.
    intros H. unfold transrefl_path, reverse_transrefl_path. rewrite (interior_short _ H). split; reflexivity.
  Qed.

  Lemma collect_first_error (l : list (outcome K)) : forall j e,
    (forall j', j' < j -> exists v, nth_error l j' = Some (Ok v)) ->
    nth_error l j = Some (Raise e) -> collect l = Raise e.
  Proof.
    induction l as [|o l IH]; intros j e Hbefore Hj; [destruct j; discriminate|].
    destruct j as [|j]; cbn in Hj.
    - inversion Hj; subst o. reflexivity.
    - destruct (Hbefore 0 ltac:(lia)) as [v Hv]. cbn in Hv. inversion Hv; subst o.
      unfold collect. cbn [omapM obind]. fold (collect l).
      rewrite (IH j e); [reflexivity | | exact Hj].
      intros j' Hj'. apply (Hbefore (S j')). lia.
  Qed.

  Lemma tr_loop_first_error (step : nat -> pinterface T -> outcome K) (L : list (pinterface T)) j e :
    (forall j', j' < j -> exists v, nth_error (steps step 1 L) j' = Some (Ok v)) ->
    nth_error (steps step 1 L) j = Some (Raise e) -> tr_loop NK step 1 L None = Raise e.
  Proof. intros H1 H2. rewrite tr_loop_spec, (collect_first_error _ j e H1 H2). reflexivity. Qed.

  (* the exception of each branch of the two loop bodies.  REPAIR: in the reverse body a None
     velocity handed to snell_angles (rev_vel_missing: the T mode in a fluid) raises TypeError
     (class EHelper) BEFORE the helper looks at the unit, the kind or reflection_against, and
     after interface.kind.reverse() of a transmission; the old statement (EValue / ENotImpl /
     EAttr of the reverse body) is the case rev_vel_missing fr = false *)
  Lemma step_error_kinds (fr : frame (T:=T)) :
    (pi_tr (fr_x fr) = None ->
       forall u, stepF_fr NK emb u fr = Raise EAssert /\ stepR_fr N NK emb u fr = Raise EAssert) /\
    (pi_tr (fr_x fr) <> None ->
       stepF_fr NK emb None fr = Raise EValue /\
       stepR_fr N NK emb None fr =
         Raise (if match pi_tr (fr_x fr), pi_kind (fr_x fr) with
                   | Some Transmission, None => true
                   | _, _ => false
                   end then EAttr
                else if rev_vel_missing fr then EHelper else EValue)) /\
    (pi_tr (fr_x fr) = Some Transmission -> pi_kind (fr_x fr) = None ->
       forall u, stepF_fr NK emb (Some u) fr = Raise ENotImpl /\ stepR_fr N NK emb (Some u) fr = Raise EAttr) /\
    (pi_tr (fr_x fr) = Some Reflection -> pi_kind (fr_x fr) = None ->
       forall u, stepF_fr NK emb (Some u) fr = Raise ENotImpl /\
                 stepR_fr N NK emb (Some u) fr = Raise (if rev_vel_missing fr then EHelper else ENotImpl)) /\
    (pi_tr (fr_x fr) = Some Reflection -> pi_kind (fr_x fr) <> None -> pi_against (fr_x fr) = None ->
       forall u, stepF_fr NK emb (Some u) fr = Raise EAttr /\
                 stepR_fr N NK emb (Some u) fr = Raise (if rev_vel_missing fr then EHelper else EAttr)) /\
    (pi_tr (fr_x fr) <> None -> (pi_tr (fr_x fr) = Some Transmission -> pi_kind (fr_x fr) <> None) ->
       rev_vel_missing fr = true -> forall u, stepR_fr N NK emb u fr = Raise EHelper).
  Proof.
    unfold stepF_fr, stepR_fr, transmission_call, reflection_call.
    destruct (rev_vel_missing fr);
    destruct (pi_tr (fr_x fr)) as [[|]|]; destruct (pi_kind (fr_x fr)) as [k|]; destruct (pi_against (fr_x fr));
      repeat split; intros; try congruence; try discriminate; try reflexivity;
      try match goal with H : ?a -> _ <> _ |- _ => exfalso; apply H; reflexivity end.
  Qed.
End ErrorBranches.

(* ===== over the reals: Snell's law discharges the hypothesis =================================== *)
From Coq Require Import Reals Lra.
From Arim Require Import Base.NumR Proofs.InterfaceProofs.
Local Open Scope R_scope.

Section RealSnell.
  (* Snell's law at one interior interface, as the real ray satisfies it: the velocities are
     the ones the reverse function reads (at a reflection BOTH from materials[i]) *)
  Definition frame_va (fr : frame (T:=R)) : R :=
    match pi_tr (fr_x fr) with
    | Some Reflection => pm_velocity (fr_mn fr) (fr_mdp fr)
    | _ => pm_velocity (fr_mp fr) (fr_mdp fr)
    end.
  Definition frame_vb (fr : frame (T:=R)) : R := pm_velocity (fr_mn fr) (fr_mdn fr).
  Definition snell_frame_R (fr : frame (T:=R)) : Prop :=
    frame_va fr <> 0 /\ sin (fr_out fr) = frame_vb fr / frame_va fr * sin (fr_inc fr) /\
    - (PI / 2) <= fr_out fr <= PI / 2.

  Lemma rev_angle_real fr : snell_frame_R fr -> rev_angle NumR NumR (fun x => x) fr = fr_out fr.
  Proof.
    intros (Ha & Hs & Hb). unfold rev_angle, frame_va, frame_vb in *.
    destruct (pi_tr (fr_x fr)) as [[|]|]; unfold snell_angles, snell_sin; cbn [NumR nasin nsin nmul ndiv];
      rewrite <- Hs; apply asin_sin; exact Hb.
  Qed.

  Lemma rev_angle_complex fr : snell_frame_R fr ->
    rev_angle NumR (NumC NumR) (cre NumR) fr = cre NumR (fr_out fr).
  Proof.
    intros (Ha & Hs & Hb). unfold rev_angle, frame_va, frame_vb in *.
    pose proof (SIN_bound (fr_out fr)) as Hsb.
    destruct (pi_tr (fr_x fr)) as [[|]|].
    - change (cre NumR (fr_inc fr)) with (fr_inc fr, 0).
      rewrite snell_angles_C_pre by (try exact Ha; rewrite <- Hs; exact Hsb).
      unfold snell_angles, snell_sin; cbn [NumR nasin nsin nmul ndiv].
      rewrite <- Hs, asin_sin by exact Hb. reflexivity.
    - unfold snell_angles, snell_sin; cbn [NumR nasin nsin nmul ndiv].
      rewrite <- Hs, asin_sin by exact Hb. reflexivity.
    - change (cre NumR (fr_inc fr)) with (fr_inc fr, 0).
      rewrite snell_angles_C_pre by (try exact Ha; rewrite <- Hs; exact Hsb).
      unfold snell_angles, snell_sin; cbn [NumR nasin nsin nmul ndiv].
      rewrite <- Hs, asin_sin by exact Hb. reflexivity.
  Qed.

  Definition snell_path_R (p : ppath R) (rg : raygeom R) : Prop :=
    forall j fr, frame_at p rg j = Some fr -> pi_tr (fr_x fr) <> None -> snell_frame_R fr.

  Lemma NumR_mul_comm : forall a b : R, nmul NumR a b = nmul NumR b a.
  Proof. intros; cbn; ring. Qed.
  Lemma NumR_mul_assoc : forall a b c : R, nmul NumR (nmul NumR a b) c = nmul NumR a (nmul NumR b c).
  Proof. intros; cbn; ring. Qed.

  (* the public functions, either dtype, any unit string *)
  Theorem reverse_transmission_reflection_eq p q rg n force_complex unit :
    ppath_reverse p = Ok q -> path_wf p rg n -> snell_path_R p rg ->
    same_outcome (reverse_transmission_reflection_for_path NumR p rg force_complex unit)
                 (transmission_reflection_for_path NumR q (rg_reverse rg) force_complex unit).
  Proof.
    intros H Hwf Hsn. destruct force_complex;
      unfold reverse_transmission_reflection_for_path, transmission_reflection_for_path.
    - apply (reverse_transrefl_path_eq NumR (NumC NumR) (cre NumR) NumC_R_mul_comm NumC_R_mul_assoc p q rg n _ H Hwf).
      intros j fr Hfr Htr. apply rev_angle_complex. exact (Hsn j fr Hfr Htr).
    - apply (reverse_transrefl_path_eq NumR NumR (fun x => x) NumR_mul_comm NumR_mul_assoc p q rg n _ H Hwf).
      intros j fr Hfr Htr. apply rev_angle_real. exact (Hsn j fr Hfr Htr).
  Qed.

  Lemma same_outcome_ok {A} (r1 r2 : outcome A) v : same_outcome r1 r2 -> r1 = Ok v -> r2 = Ok v.
  Proof. intros H E. subst r1. destruct r2; cbn in H; [congruence | contradiction]. Qed.
  Lemma same_outcome_ok_r {A} (r1 r2 : outcome A) v : same_outcome r1 r2 -> r2 = Ok v -> r1 = Ok v.
  Proof. intros H E. subst r2. destruct r1; cbn in H; [congruence | contradiction]. Qed.

  (* ---- Snell's law stated on the ray geometry alone (what the beamspread reads) ----
     at the interior interface i = 1 + j: inc(i) = rg_inc[j], out(i) = rg_out[1 + j] (REPAIR: rg_out
     now starts at the first interface) *)
  Definition snell_ray (rg : raygeom R) (n : nat) : Prop :=
    forall j, (j < n - 1)%nat ->
      0 < nth j (rg_vel rg) 0 /\ 0 < nth (S j) (rg_vel rg) 0 /\
      sin (nth (S j) (rg_out rg) 0) = nth (S j) (rg_vel rg) 0 / nth j (rg_vel rg) 0 * sin (nth j (rg_inc rg) 0) /\
      - (PI / 2) < nth (S j) (rg_out rg) 0 < PI / 2.

  Lemma snell_images_of_nth : forall ths rvel ths',
    length ths = length ths' -> length rvel = S (length ths) ->
    (forall j, (j < length ths)%nat ->
       0 < nth j rvel 0 /\ 0 < nth (S j) rvel 0 /\
       sin (nth j ths' 0) = nth j rvel 0 / nth (S j) rvel 0 * sin (nth j ths 0) /\
       cos (nth j ths' 0) <> 0) ->
    snell_images rvel ths ths'.
  Proof.
    induction ths as [|th ths IH]; intros rvel ths' Hl Hv H.
    - destruct ths'; [|discriminate]. destruct rvel as [|v [|v' r]]; exact I.
    - destruct ths' as [|th' ths']; [discriminate|].
      destruct rvel as [|vn [|vp r]]; try (simpl in Hv; discriminate).
      destruct (H 0%nat ltac:(simpl; lia)) as (A1 & A2 & A3 & A4). cbn [nth] in A1, A2, A3, A4.
      change (0 < vn /\ 0 < vp /\ sin th' = vn / vp * sin th /\ cos th' <> 0 /\ snell_images (vp :: r) ths ths').
      split; [exact A1|]. split; [exact A2|]. split; [exact A3|]. split; [exact A4|].
      apply IH; [simpl in Hl; congruence | simpl in Hv; simpl; congruence |].
      intros j Hj. exact (H (S j) ltac:(simpl; lia)).
  Qed.

  Lemma snell_ray_images rg n : rg_wf rg n -> snell_ray rg n ->
    snell_images (rev (rg_vel rg)) (rev (rg_inc_interior rg)) (rev (rg_out_interior rg)).
  Proof.
    intros (Hn & Hni & Hv & Hl & Hi & Ho) Hs.
    assert (Hii : length (rg_inc_interior rg) = (n - 1)%nat)
      by (unfold rg_inc_interior; rewrite removelast_length; lia).
    assert (Hoi : length (rg_out_interior rg) = (n - 1)%nat)
      by (unfold rg_out_interior; destruct (rg_out rg); cbn [tl length] in *; lia).
    apply snell_images_of_nth; rewrite ?rev_length; try lia.
    intros j Hj. rewrite Hii in Hj.
    rewrite !rev_nth by lia. rewrite Hv, Hii, Hoi.
    unfold rg_inc_interior, rg_out_interior. rewrite nth_removelast by lia. rewrite nth_tl.
    destruct (Hs (n - 1 - S j)%nat ltac:(lia)) as (A1 & A2 & A3 & A4).
    replace (n - S (S j))%nat with (n - 1 - S j)%nat by lia.
    replace (n - S j)%nat with (S (n - 1 - S j))%nat by lia.
    repeat split; try assumption.
    apply Rgt_not_eq. apply cos_gt_0; lra.
  Qed.

  (* reverse beamspread computed on the ray = beamspread of the reversed ray, any number of legs,
     with the loops and the index arithmetic of the source on both sides *)
  Theorem reverse_beamspread_idx_eq_reversed rg n : rg_wf rg n -> snell_ray rg n ->
    reverse_beamspread_idx NumR rg = beamspread_idx NumR (rg_reverse rg).
  Proof.
    intros Hwf Hs. rewrite (reverse_beamspread_idx_eq NumR rg n Hwf).
    rewrite (beamspread_idx_eq NumR (rg_reverse rg) n (rg_wf_reverse rg n Hwf)).
    unfold rg_reverse; cbn [rg_vel rg_leg rg_inc]. f_equal.
    pose proof Hwf as (Hn & _ & Hv & _ & Hi & Ho).
    (* the kernel on the reversed ray ignores the angle of its last interface *)
    transitivity (beamspread NumR (rev (rg_vel rg)) (rev (rg_leg rg)) (rev (rg_out_interior rg))).
    - apply reverse_beamspread_eq.
      + apply (snell_ray_images rg n Hwf Hs).
      + rewrite rev_length. unfold rg_inc_interior, rg_out_interior. rewrite removelast_length.
        destruct (rg_out rg); cbn [tl length] in *; lia.
    - unfold beamspread, rg_out_interior.
      destruct (rg_out rg) as [|o t]; [reflexivity|]. cbn [tl rev].
      rewrite gamma_list_app_extra; [reflexivity|]. rewrite !rev_length. cbn [length] in Ho. lia.
  Qed.

  (* ... and the other way round (the involution) *)
  Theorem beamspread_idx_eq_reverse_of_reversed rg n : rg_wf rg n -> snell_ray rg n ->
    beamspread_idx NumR (rg_reverse rg) = reverse_beamspread_idx NumR rg.
  Proof. intros. symmetry. apply (reverse_beamspread_idx_eq_reversed rg n); assumption. Qed.

  (* ---- attenuation ---- *)
  Lemma att_coeffs_of_reversed (p q : ppath R) frequency : ppath_reverse p = Ok q ->
    att_coeffs_of_path q frequency = rev (att_coeffs_of_path p frequency).
  Proof.
    intros H. destruct (ppath_reverse_fields p q H) as (ris & E & Hi & Hm & Hd & Hr & H2 & Hlm & Hld).
    unfold att_coeffs_of_path. rewrite Hm, Hd.
    rewrite combine_rev_eq by congruence. rewrite map_rev. reflexivity.
  Qed.

  Theorem material_attenuation_path_reversed p q rg n frequency :
    ppath_reverse p = Ok q -> path_wf p rg n ->
    material_attenuation_path NumR q (rg_reverse rg) frequency = material_attenuation_path NumR p rg frequency.
  Proof.
    intros H Hwf. pose proof (path_wf_reverse p q rg n H Hwf) as (Hwq & _ & Hqm & Hqd).
    destruct Hwf as (Hw & _ & Hpm & Hpd).
    rewrite (material_attenuation_path_eq NumR q (rg_reverse rg) n frequency Hwq Hqm Hqd).
    rewrite (material_attenuation_path_eq NumR p rg n frequency Hw Hpm Hpd).
    rewrite (att_coeffs_of_reversed p q frequency H). unfold rg_reverse; cbn [rg_leg]. f_equal.
    apply attenuation_reverse.
    unfold att_coeffs_of_path. rewrite map_length, combine_length, Hpm, Hpd.
    destruct Hw as (_ & _ & _ & Hl & _). rewrite Hl. lia.
  Qed.

  (* ---- the two forms of the Snell hypothesis agree when the ray geometry belongs to the path ---- *)
  Lemma nth_error_combine {A B} (l1 : list A) : forall (l2 : list B) j a b,
    nth_error l1 j = Some a -> nth_error l2 j = Some b -> nth_error (combine l1 l2) j = Some (a, b).
  Proof.
    induction l1 as [|x l1 IH]; intros [|y l2] [|j] a b H1 H2; cbn in *; try discriminate.
    - congruence.
    - apply IH; assumption.
  Qed.

  Lemma ppath_velocities_nth (p : ppath R) j m md :
    nth_error (pp_materials p) j = Some m -> nth_error (pp_modes p) j = Some md ->
    nth_error (ppath_velocities p) j = Some (pm_velocity_opt m md).
  Proof.
    intros H1 H2. unfold ppath_velocities.
    apply (map_nth_error (fun mm => pm_velocity_opt (fst mm) (snd mm)) j (combine (pp_materials p) (pp_modes p))
                         (nth_error_combine _ _ _ _ _ H1 H2)).
  Qed.

  Lemma pm_velocity_of_opt (m : pmaterial R) md v : pm_velocity_opt m md = Some v -> pm_velocity m md = v.
  Proof.
    unfold pm_velocity_opt, pm_velocity, pm_vt_num. destruct md; intros H; [congruence|].
    rewrite H. reflexivity.
  Qed.

  (* REPAIR: Path.velocities may hold None (the T mode in a fluid); the velocities of the Fermat
     path are numbers: `map Some (rg_vel rg) = ppath_velocities p` says that every leg of the path
     has a velocity and that these are the ray geometry's (it was `rg_vel rg = ppath_velocities p`
     when the model had no None velocity) *)
  Lemma rg_vel_nth (p : ppath R) rg j m md : map Some (rg_vel rg) = ppath_velocities p ->
    nth_error (pp_materials p) j = Some m -> nth_error (pp_modes p) j = Some md ->
    nth j (rg_vel rg) 0 = pm_velocity m md.
  Proof.
    intros Hvel H1 H2. pose proof (ppath_velocities_nth p j m md H1 H2) as H.
    rewrite <- Hvel in H. rewrite nth_error_map in H.
    destruct (nth_error (rg_vel rg) j) as [v|] eqn:E; cbn [option_map] in H; [|discriminate].
    rewrite (nth_error_nth _ _ 0 E). symmetry. apply pm_velocity_of_opt. congruence.
  Qed.

  (* reflections happen inside one medium: materials[i-1] and materials[i] carry the incoming
     mode at the same velocity (arim builds them from the same Material object) *)
  Definition reflections_in_one_medium (p : ppath R) (rg : raygeom R) : Prop :=
    forall j fr, frame_at p rg j = Some fr -> pi_tr (fr_x fr) = Some Reflection ->
      pm_velocity (fr_mp fr) (fr_mdp fr) = pm_velocity (fr_mn fr) (fr_mdp fr).

  Lemma snell_ray_path p rg n : path_wf p rg n -> map Some (rg_vel rg) = ppath_velocities p ->
    reflections_in_one_medium p rg -> snell_ray rg n -> snell_path_R p rg.
  Proof.
    intros Hwf Hvel Hrefl Hs j fr Hfr _.
    destruct (frame_at_inv _ _ _ _ Hfr) as (H1 & H2 & H3 & H4 & H5 & H6 & H7).
    assert (Hj : (j < n - 1)%nat).
    { destruct Hwf as ((_ & _ & _ & _ & _ & Ho) & _).
      assert (S j < n)%nat by (rewrite <- Ho; apply nth_error_Some; congruence). lia. }
    destruct (Hs j Hj) as (A1 & A2 & A3 & A4).
    rewrite (rg_vel_nth p rg j _ _ Hvel H2 H4) in A1, A3.
    rewrite (rg_vel_nth p rg (S j) _ _ Hvel H3 H5) in A2, A3.
    rewrite (nth_error_nth _ _ 0 H6) in A3. rewrite (nth_error_nth _ _ 0 H7) in A3, A4.
    unfold snell_frame_R, frame_va, frame_vb.
    destruct (pi_tr (fr_x fr)) as [[|]|] eqn:Etr.
    - repeat split; first [lra | exact A3].
    - rewrite <- (Hrefl j fr Hfr Etr). repeat split; first [lra | exact A3].
    - repeat split; first [lra | exact A3].
  Qed.

  (* ===== C07 END TO END: a path with its rays, its RayGeometry, Path.reverse() and the
     RayGeometry of the reversed path; for a ray obeying Snell's law the three receive-side
     terms computed on the path are the transmit-side terms computed on the reversed path ===== *)
  Theorem receive_side_is_transmit_side_of_reversed_path p q rg n :
    ppath_reverse p = Ok q -> ray_geometry_from_path p = Ok rg -> path_wf p rg n ->
    map Some (rg_vel rg) = ppath_velocities p -> reflections_in_one_medium p rg -> snell_ray rg n ->
    exists rg', ray_geometry_from_path q = Ok rg' /\ rg' = rg_reverse rg /\
      (forall force_complex unit,
         same_outcome (reverse_transmission_reflection_for_path NumR p rg force_complex unit)
                      (transmission_reflection_for_path NumR q rg' force_complex unit)) /\
      reverse_beamspread_idx NumR rg = beamspread_idx NumR rg' /\
      (forall frequency,
         material_attenuation_path NumR p rg frequency = material_attenuation_path NumR q rg' frequency).
  Proof.
    intros H Hrg Hwf Hvel Hrefl Hs. exists (rg_reverse rg).
    split; [apply (ray_geometry_of_reversed_path p q rg H Hrg)|]. split; [reflexivity|].
    split; [|split].
    - intros fc unit. apply (reverse_transmission_reflection_eq p q rg n fc unit H Hwf).
      apply (snell_ray_path p rg n Hwf Hvel Hrefl Hs).
    - apply (reverse_beamspread_idx_eq_reversed rg n); [apply Hwf | exact Hs].
    - intros f. symmetry. apply (material_attenuation_path_reversed p q rg n f H Hwf).
  Qed.
End RealSnell.

(* ===== REPAIR lemmas: the two points on which the run-time tie corrected the model ============= *)
(* (1) the placeholder standing for a missing transverse velocity (pm_vt_num) is never read:
   transmission_call / reflection_call raise when the material in the SOLID role has none, and
   the kernels of Model/Interface.v do not read the transverse velocity of the material in the
   FLUID role (fluid_solid: material_inc of a transmission / of a reflection; solid_fluid:
   material_out of a transmission, material_against of a reflection) *)
Definition set_vt {K} (m : material K) (v : K) : material K := mkMaterial (m_rho m) (m_vl m) v.

Lemma helper_ignores_fluid_role_vt {K} (NK : Num K) (m_inc m_oth : material K) mi mo a u v :
  transmission_at_interface NK FluidSolid (set_vt m_inc v) m_oth mi mo a u
  = transmission_at_interface NK FluidSolid m_inc m_oth mi mo a u /\
  transmission_at_interface NK SolidFluid m_inc (set_vt m_oth v) mi mo a u
  = transmission_at_interface NK SolidFluid m_inc m_oth mi mo a u /\
  reflection_at_interface NK SolidFluid m_inc (set_vt m_oth v) mi mo a u
  = reflection_at_interface NK SolidFluid m_inc m_oth mi mo a u /\
  reflection_at_interface NK FluidSolid (set_vt m_inc v) m_oth mi mo a u
  = reflection_at_interface NK FluidSolid m_inc m_oth mi mo a u.
Proof. repeat split; destruct mi, mo, u; reflexivity. Qed.

(* the helpers as called raise (class EHelper, after the unit / kind / reflection_against checks)
   when the material in the solid role has no transverse velocity *)
Lemma helper_raises_without_solid_vt {T K} (NK : Num K) (emb : T -> K) k (m_inc m_oth : pmaterial T) mi mo a u :
  (pm_vt_missing (match k with FluidSolid => m_oth | SolidFluid => m_inc end) = true ->
     transmission_call NK emb (Some k) m_inc m_oth mi mo a (Some u) = Raise EHelper) /\
  (pm_vt_missing (match k with FluidSolid => m_oth | SolidFluid => m_inc end) = true ->
     reflection_call NK emb (Some k) m_inc (Some m_oth) mi mo a (Some u) = Raise EHelper).
Proof.
  unfold transmission_call, reflection_call. split; intros H; rewrite H; reflexivity.
Qed.

(* (2) conventional_inc_angle over the whole index range: None at the first interface, a value at
   the interfaces 1..n (the LAST one included), IndexError beyond *)
Lemma conv_inc_angle_range {T} (rg : raygeom T) n : rg_wf rg n ->
  rg_conv_inc_angle rg 0 = Raise EAttr /\
  (forall i, (1 <= i <= n)%nat ->
     exists th, nth_error (rg_inc rg) (i - 1)%nat = Some th /\ rg_conv_inc_angle rg i = Ok th) /\
  (forall i, (n < i)%nat -> rg_conv_inc_angle rg i = Raise EIndex).
Proof.
  intros Hwf. pose proof Hwf as (Hn & Hni & _ & _ & Hi & _). split; [reflexivity|]. split.
  - intros i Hi'. destruct (nth_error (rg_inc rg) (i - 1)) as [th|] eqn:E.
    + exists th. split; [reflexivity|]. apply (inc_angle_ok rg n i th Hwf); [lia | exact E].
    + apply nth_error_None in E. lia.
  - intros i Hi'. unfold rg_conv_inc_angle. rewrite Hni.
    destruct (Nat.eqb_spec i 0); [lia|]. destruct (Nat.leb_spec (S n) i); [reflexivity | lia].
Qed.

(* ---- bundles for Props/C07.v ---- *)
Lemma parse_unit_lower_upper s :
  parse_unit (str_lower s) = parse_unit s /\ parse_unit (str_upper s) = parse_unit s.
Proof. split; [apply parse_unit_lower | apply parse_unit_upper]. Qed.

Lemma steps_at {T K} (N : Num T) (NK : Num K) (emb : T -> K) (p : ppath T) rg n u j fr :
  path_wf p rg n -> frame_at p rg j = Some fr ->
  tr_step_forward NK emb p rg u (1 + j)%nat (fr_x fr) = stepF_fr NK emb u fr /\
  tr_step_reverse N NK emb p rg u (1 + j)%nat (fr_x fr) = stepR_fr N NK emb u fr.
Proof. intros. split; [eapply stepF_at | eapply stepR_at]; eassumption. Qed.
