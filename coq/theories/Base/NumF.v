(* Base/NumF.v — binary64 instance on Coq's primitive floats, executable by
   vm_compute inside coqc.  +,-,*,/,sqrt and the comparisons are the IEEE-754
   operations of the host (round to nearest even), i.e. the very operations
   numpy/numba perform when no FMA contraction or reassociation happens.
   No libm: transcendental fields return nan and are never reached by the
   executions the harness requests (kernels needing libm run through the OCaml
   driver instead).  Float -> Z conversions go through Prim2SF; nan/inf give 0
   (the implementation raises or is undefined there; never generated).
   No theorem mentions this instance. *)
From Coq Require Import ZArith List Uint63 PrimFloat SpecFloat FloatOps.
From Arim Require Import Base.Num.

Definition Fof_Z (z : Z) : float :=
  match z with
  | Z0 => zero
  | Zpos _ => of_uint63 (Uint63.of_Z z)
  | Zneg p => opp (of_uint63 (Uint63.of_Z (Zpos p)))
  end.

(* value of S754_finite s m e is (-1)^s * m * 2^e *)
Definition SF_floor (x : spec_float) : Z :=
  match x with
  | S754_finite s m e =>
      let mz := Zpos m in
      if (0 <=? e)%Z then (if s then - (mz * 2 ^ e) else mz * 2 ^ e)%Z
      else let d := (2 ^ (- e))%Z in
           if s then (- ((mz + d - 1) / d))%Z else (mz / d)%Z
  | _ => 0%Z
  end.

Definition SF_trunc (x : spec_float) : Z :=
  match x with
  | S754_finite s m e =>
      let mz := Zpos m in
      let a := if (0 <=? e)%Z then (mz * 2 ^ e)%Z else (mz / 2 ^ (- e))%Z in
      if s then (- a)%Z else a
  | _ => 0%Z
  end.

Definition SF_round_half_even (x : spec_float) : Z :=
  match x with
  | S754_finite s m e =>
      let mz := Zpos m in
      let a :=
        if (0 <=? e)%Z then (mz * 2 ^ e)%Z
        else let d := (2 ^ (- e))%Z in
             let q := (mz / d)%Z in let r := (mz mod d)%Z in
             if (2 * r <? d)%Z then q
             else if (d <? 2 * r)%Z then (q + 1)%Z
             else if Z.even q then q else (q + 1)%Z in
      if s then (- a)%Z else a
  | _ => 0%Z
  end.

Definition NumF : Num float := {|
  n0 := zero; n1 := one;
  nadd := add; nsub := sub; nmul := mul; ndiv := div; nopp := opp;
  nsqrt := sqrt;
  nsin := fun _ => nan; ncos := fun _ => nan; nasin := fun _ => nan;
  nacos := fun _ => nan; natan2 := fun _ _ => nan; nexp := fun _ => nan;
  nln := fun _ => nan; npi := nan;
  nltb := ltb; nleb := leb; neqb := eqb;
  nofZ := Fof_Z;
  nfloor := fun x => SF_floor (Prim2SF x);
  ntrunc := fun x => SF_trunc (Prim2SF x);
  nround := fun x => SF_round_half_even (Prim2SF x)
|}.
