(* Base/Num.v — the record of numeric operations over which every numeric
   kernel of the arim model is written ONCE.

   Instances:
     NumR  (Base/NumR.v)  Coq reals: every theorem about a numeric kernel is
                          stated for this instance.
     NumQ  (Base/NumQ.v)  exact rationals, for vm_compute inside coqc.
     NumF  (Base/NumF.v)  binary64 primitive floats, for vm_compute inside coqc
                          (bit-exact IEEE +,-,*,/,sqrt; no libm).
     the OCaml driver builds a float instance with libm for extracted code.

   A kernel uses only the fields it needs; fields an instance cannot provide
   (e.g. sin over Q) are documented in that instance and never reached by the
   executions the harness asks for. *)
From Coq Require Import ZArith List.

Record Num (T : Type) := mkNum {
  n0 : T; n1 : T;
  nadd : T -> T -> T; nsub : T -> T -> T; nmul : T -> T -> T; ndiv : T -> T -> T;
  nopp : T -> T;
  nsqrt : T -> T; nsin : T -> T; ncos : T -> T; nasin : T -> T; nacos : T -> T;
  natan2 : T -> T -> T; nexp : T -> T; nln : T -> T; npi : T;
  nltb : T -> T -> bool; nleb : T -> T -> bool; neqb : T -> T -> bool;
  nofZ : Z -> T;
  nfloor : T -> Z;   (* math.floor *)
  ntrunc : T -> Z;   (* int()      *)
  nround : T -> Z    (* round(), half to even (Python 3 and numba) *)
}.

Arguments n0 {T}. Arguments n1 {T}. Arguments nadd {T}. Arguments nsub {T}.
Arguments nmul {T}. Arguments ndiv {T}. Arguments nopp {T}. Arguments nsqrt {T}.
Arguments nsin {T}. Arguments ncos {T}. Arguments nasin {T}. Arguments nacos {T}.
Arguments natan2 {T}. Arguments nexp {T}. Arguments nln {T}. Arguments npi {T}.
Arguments nltb {T}. Arguments nleb {T}. Arguments neqb {T}. Arguments nofZ {T}.
Arguments nfloor {T}. Arguments ntrunc {T}. Arguments nround {T}.

Declare Scope num_scope.
Delimit Scope num_scope with num.

Section Derived.
  Context {T : Type} (N : Num T).
  Definition nsum (l : list T) : T := fold_left (nadd N) l (n0 N).
  Definition nprod (l : list T) : T := fold_left (nmul N) l (n1 N).
  Definition nsq (x : T) : T := nmul N x x.
  Definition nofnat (n : nat) : T := nofZ N (Z.of_nat n).
  Definition nmax (a b : T) : T := if nltb N a b then b else a.
  Definition nmin (a b : T) : T := if nltb N b a then b else a.
  Definition nabs (a : T) : T := if nltb N a (n0 N) then nopp N a else a.
End Derived.
