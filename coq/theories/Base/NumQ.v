(* Base/NumQ.v — exact rationals (executable by vm_compute).
   Every finite binary64 number is a rational, so on inputs for which every
   intermediate result of a kernel is exactly representable the implementation
   must agree with this instance bit for bit; it also gives "the exact value"
   where the property is about a float computation disagreeing with exact
   arithmetic (C11).
   Not available over Q: irrational sqrt and all transcendental functions.
   They return the sentinel Qbad; the harness never requests an execution that
   reaches them and treats a Qbad in an output as a harness error, not as a
   model answer.  No theorem mentions this instance. *)
From Coq Require Import ZArith QArith Qround List.
From Arim Require Import Base.Num.
Local Open Scope Q_scope.

Definition Qbad : Q := (-987654321) # 1.

Definition Qltb (a b : Q) : bool := negb (Qle_bool b a).

Definition Qsqrt_exact (x : Q) : Q :=
  let n := Qnum (Qred x) in let d := Zpos (Qden (Qred x)) in
  let sn := Z.sqrt n in let sd := Z.sqrt d in
  if ((0 <=? n) && (sn * sn =? n) && (sd * sd =? d))%Z
  then Qred (sn # Z.to_pos sd) else Qbad.

Definition Qtrunc (x : Q) : Z := if Qltb x 0 then Qceiling x else Qfloor x.

Definition Qround_half_even (x : Q) : Z :=
  let f := Qfloor x in
  let d := Qred (x - inject_Z f) in
  if Qltb d (1 # 2) then f
  else if Qltb (1 # 2) d then (f + 1)%Z
  else if Z.even f then f else (f + 1)%Z.

Definition NumQ : Num Q := {|
  n0 := 0; n1 := 1;
  nadd := fun a b => Qred (a + b); nsub := fun a b => Qred (a - b);
  nmul := fun a b => Qred (a * b); ndiv := fun a b => Qred (a / b);
  nopp := fun a => Qred (- a);
  nsqrt := Qsqrt_exact;
  nsin := fun x => if Qeq_bool x 0 then 0 else Qbad;
  ncos := fun x => if Qeq_bool x 0 then 1 else Qbad;
  nasin := fun x => if Qeq_bool x 0 then 0 else Qbad;
  nacos := fun x => if Qeq_bool x 1 then 0 else Qbad;
  natan2 := fun y x => if Qeq_bool y 0 && Qltb 0 x then 0 else Qbad;
  nexp := fun x => if Qeq_bool x 0 then 1 else Qbad;
  nln := fun x => if Qeq_bool x 1 then 0 else Qbad;
  npi := Qbad;
  nltb := Qltb; nleb := Qle_bool; neqb := Qeq_bool;
  nofZ := inject_Z;
  nfloor := Qfloor; ntrunc := Qtrunc; nround := Qround_half_even
|}.
