(* Base/ListX.v — small executable helpers shared by the models and by the
   generated correspondence files (cases evaluated by vm_compute in coqc). *)
From Coq Require Import Arith List Bool ZArith.
Import ListNotations.

Fixpoint list_eqb {A} (eqb : A -> A -> bool) (l1 l2 : list A) : bool :=
  match l1, l2 with
  | [], [] => true
  | x :: l1, y :: l2 => eqb x y && list_eqb eqb l1 l2
  | _, _ => false
  end.

Definition pair_eqb {A B} (ea : A -> A -> bool) (eb : B -> B -> bool) (x y : A * B) : bool :=
  ea (fst x) (fst y) && eb (snd x) (snd y).

Definition option_eqb {A} (ea : A -> A -> bool) (x y : option A) : bool :=
  match x, y with
  | None, None => true
  | Some a, Some b => ea a b
  | _, _ => false
  end.

(* indices (as Z, cheap to print) of the cases on which a check fails *)
Definition failing {A} (check : A -> bool) (cases : list A) : list Z :=
  let fix go (i : Z) (l : list A) : list Z :=
    match l with
    | [] => []
    | c :: l => if check c then go (i + 1)%Z l else i :: go (i + 1)%Z l
    end in go 0%Z cases.

Definition zpair_of_nat (p : nat * nat) : Z * Z := (Z.of_nat (fst p), Z.of_nat (snd p)).
Definition zpair_eqb : Z * Z -> Z * Z -> bool := pair_eqb Z.eqb Z.eqb.
