(* Base/NumR.v — the real-number instance. All theorems about numeric kernels
   are statements about this instance (exact arithmetic; rounding is outside
   every theorem, see DESIGN §3). *)
From Coq Require Import Reals ZArith List.
From Flocq Require Import Core.Raux Core.Round_NE Core.Generic_fmt.
From Arim Require Import Base.Num.
Local Open Scope R_scope.

Definition Ratan2 (y x : R) : R :=
  if Rlt_bool 0 x then atan (y / x)
  else if Rlt_bool x 0 then
         (if Rle_bool 0 y then atan (y / x) + PI else atan (y / x) - PI)
  else if Rlt_bool 0 y then PI / 2
  else if Rlt_bool y 0 then - (PI / 2)
  else 0.

Definition NumR : Num R := {|
  n0 := 0; n1 := 1;
  nadd := Rplus; nsub := Rminus; nmul := Rmult; ndiv := Rdiv; nopp := Ropp;
  nsqrt := sqrt; nsin := sin; ncos := cos; nasin := asin; nacos := acos;
  natan2 := Ratan2; nexp := exp; nln := ln; npi := PI;
  nltb := Rlt_bool; nleb := Rle_bool; neqb := Req_bool;
  nofZ := IZR;
  nfloor := Zfloor; ntrunc := Ztrunc; nround := ZnearestE
|}.
