(* Model/Amplitudes.v — assembly of the model coefficients P_ij = Q_i Q'_j S(th_i - a, th_j - a)
   (C08), on top of Model/Weights.v (factors, switches), Model/Beamspread.v, Model/ScatMatrix.v
   (bilinear interpolation) and Model/Chunk.v (chunk_array).

   Mirrors
     arim.core.material_attenuation_factory          ("constant", "polynomial")
     arim.models.block_in_immersion._init_ray_weights / tx_ray_weights / rx_ray_weights
                                                     for ONE ray (element, grid point)
     arim.model.model_amplitudes_factory             (shape assertion, the great transposition)
     arim.model._ModelAmplitudesWithScatFunction.__getitem__   (vectorised: np.take, broadcasting)
     arim.model._model_amplitudes_with_scat_matrix   (kernel on one grid point: loop over scans)
     arim.model._ModelAmplitudesWithScatMatrix.__getitem__
     arim.model.sensitivity_uniform_tfm / sensitivity_model_assisted_tfm

   Arrays are lists of rows.  Every operation that raises in numpy (index out of range,
   shapes that do not match) is an explicit `None`.  Element indices (tx, rx) and grid indices
   are `Z`: numpy (and numba) accept -n..n-1 on an axis of length n.  A grid selector (int,
   slice, Ellipsis, chunk tuple) is given as the list of grid indices it selects (slices are
   expanded by Python's own slice.indices in the harness); an int selector additionally drops
   the first axis, which the harness undoes. *)
From Coq Require Import List ZArith Bool Arith.
From Arim Require Import Base.Num Model.Interface Model.Weights Model.Beamspread Model.ScatMatrix
                         Model.Chunk.
Import ListNotations.

(* ---- option / list plumbing --------------------------------------------------------- *)
Section Plumbing.
  Definition bind {A B} (x : option A) (f : A -> option B) : option B :=
    match x with Some a => f a | None => None end.
  Definition omap {A B} (f : A -> B) (x : option A) : option B :=
    match x with Some a => Some (f a) | None => None end.
  Definition lift2 {A B C} (f : A -> B -> C) (x : option A) (y : option B) : option C :=
    match x, y with Some a, Some b => Some (f a b) | _, _ => None end.

  Fixpoint mapM {A B} (f : A -> option B) (l : list A) : option (list B) :=
    match l with
    | [] => Some []
    | x :: l' => lift2 cons (f x) (mapM f l')
    end.

  (* elementwise binary operation on arrays of the same shape *)
  Fixpoint map2 {A B C} (f : A -> B -> C) (l1 : list A) (l2 : list B) : list C :=
    match l1, l2 with
    | x :: l1', y :: l2' => f x y :: map2 f l1' l2'
    | _, _ => []
    end.

  (* an index on an axis of length n: 0..n-1, or -n..-1 counted from the end; else IndexError *)
  Definition norm_index (n : nat) (i : Z) : option nat :=
    if ((0 <=? i) && (i <? Z.of_nat n))%Z then Some (Z.to_nat i)
    else if ((- Z.of_nat n <=? i) && (i <? 0))%Z then Some (Z.to_nat (i + Z.of_nat n))
    else None.

  Definition lookup {V} (row : list V) (i : Z) : option V :=
    bind (norm_index (length row) i) (nth_error row).

  (* np.take(row, idx) on the last axis / a[idx] on the first axis *)
  Definition take {V} (row : list V) (idx : list Z) : option (list V) := mapM (lookup row) idx.

  (* np.take(A[G], idx, axis=-1) *)
  Definition take2 {V} (A : list (list V)) (G idx : list Z) : option (list (list V)) :=
    bind (take A G) (mapM (fun row => take row idx)).

  Definition has_shape {V} (r c : nat) (M : list (list V)) : bool :=
    (length M =? r) && forallb (fun row => length row =? c) M.

  Definition column {V} (j : nat) (M : list (list V)) : option (list V) :=
    mapM (fun row => nth_error row j) M.

  (* M.T for M of shape (r, c) *)
  Definition transpose {V} (c : nat) (M : list (list V)) : option (list (list V)) :=
    mapM (fun j => column j M) (seq 0 c).

  Definition get2 {V} (M : list (list V)) (i j : nat) : option V :=
    bind (nth_error M i) (fun row => nth_error row j).
End Plumbing.

(* ---- attenuation laws (arim.core.material_attenuation_factory) ------------------------ *)
Section AttLaws.
  Context {T : Type} (N : Num T).

  Inductive att_law :=
  | AttConstant (value : T)               (* kind = "constant":   np.full_like(frequency, value) *)
  | AttPolynomial (coeffs : list T).      (* kind = "polynomial": Polynomial(coeffs)(frequency / 1e6) *)

  (* numpy.polynomial.polynomial.polyval: c0 = c[-1]; for i in 2..len(c): c0 = c[-i] + c0*x.
     An empty coefficient list is rejected by the Polynomial constructor. *)
  Definition polyval (cs : list T) (x : T) : option T :=
    match rev cs with
    | [] => None
    | cn :: rest => Some (fold_left (fun c0 ci => nadd N ci (nmul N c0 x)) rest cn)
    end.

  Definition att_eval (law : att_law) (frequency : T) : option T :=
    match law with
    | AttConstant v => Some v
    | AttPolynomial cs => polyval cs (ndiv N frequency (nofZ N 1000000))
    end.

  (* one optional coefficient per leg: material.attenuation(mode) is None, or a law evaluated
     at the frequency *)
  Definition att_coeffs (frequency : T) (laws : list (option att_law)) : option (list (option T)) :=
    mapM (fun l => match l with
                   | None => Some None
                   | Some law => omap Some (att_eval law frequency)
                   end) laws.
End AttLaws.
Arguments AttConstant {T}. Arguments AttPolynomial {T}.

(* ---- tx_ray_weights / rx_ray_weights for one ray --------------------------------------- *)
Section RayWeightsOfPath.
  Context {T : Type} (N : Num T).
  Local Notation K := (T * T)%type.
  Let C := NumC N.

  (* what the two functions read for the ray (element e, grid point g) of a path *)
  Record ray := mkRay {
    r_theta_out0 : T;                    (* ray_geometry.conventional_out_angle(0)[e, g] *)
    r_ifaces : list (iface (K := K));    (* interior interfaces, with conventional_inc_angle(i)[e, g] *)
    r_vels : list T;                     (* path.velocities *)
    r_legs : list T;                     (* inc_leg_size(1..n)[e, g] *)
    r_atts : list (option (att_law (T := T)));  (* material.attenuation(mode) of every leg *)
    r_lastmode : wmode                   (* path.modes[-1] *)
  }.

  Definition r_thetas (r : ray) : list T := map (fun x => fst (i_theta x)) (r_ifaces r).

  (* directivity_2d_rectangular_in_fluid: ValueError for a negative width or wavelength *)
  Definition directivity_checked (theta width wavelength : T) : option T :=
    if nltb N width (n0 N) || nltb N wavelength (n0 N) then None
    else Some (directivity N theta width wavelength).

  (* _init_ray_weights: wavelength_in_couplant = couplant.longitudinal_vel / frequency;
     wavelengths_in_block[mode] = block.velocity(mode) / frequency *)
  Definition wavelength_in_couplant (couplant : material K) (frequency : T) : T :=
    ndiv N (fst (m_vl couplant)) frequency.
  Definition wavelength_in_block (block : material K) (md : wmode) (frequency : T) : T :=
    ndiv N (fst (velocity block md)) frequency.

  (* a factor that is computed only when its switch is on (errors of a disabled factor do
     not happen); `one` otherwise *)
  Definition factor {A} (on : bool) (x : option A) (one : A) : option A := if on then x else Some one.

  (* transmission_reflection_for_path returns None for a path without interior interface; the
     product of the weights then raises (TypeError) *)
  Definition flatten {A} (x : option (option A)) : option A :=
    match x with Some (Some a) => Some a | _ => None end.

  Definition common_factors (use_dir use_att : bool) (width : option T) (frequency : T)
             (couplant : material K) (r : ray) : option T * option T :=
    ( factor use_dir (bind width (fun w => directivity_checked (r_theta_out0 r) w
                                               (wavelength_in_couplant couplant frequency))) (n1 N),
      factor use_att (omap (fun a => attenuation N a (r_legs r)) (att_coeffs N frequency (r_atts r))) (n1 N) ).

  (* result: (weights, (directivity, transrefl, beamspread, attenuation)) = (weights, weights_dict) *)
  Definition assemble (d : option T) (t : option K) (b a : option T)
             (w : T -> K -> T -> T -> K) : option (K * (T * K * T * T)) :=
    match d, t, b, a with
    | Some d, Some t, Some b, Some a => Some (w d t b a, (d, t, b, a))
    | _, _, _, _ => None
    end.

  Definition tx_ray_weights (use_dir use_tr use_bs use_att : bool) (width : option T) (frequency : T)
             (couplant : material K) (r : ray) : option (K * (T * K * T * T)) :=
    if use_dir && (match width with None => true | Some _ => false end) then None   (* ValueError *)
    else
    let '(d, a) := common_factors use_dir use_att width frequency couplant r in
    let t := factor use_tr (flatten (transrefl_for_path C Displacement (r_ifaces r))) (cre N (n1 N)) in
    let b := factor use_bs (Some (beamspread N (r_vels r) (r_legs r) (r_thetas r))) (n1 N) in
    assemble d t b a (tx_weight N use_dir use_tr use_bs use_att).

  Definition rx_ray_weights (use_dir use_tr use_bs use_att : bool) (width : option T) (frequency : T)
             (couplant block : material K) (r : ray) : option (K * (T * K * T * T)) :=
    if use_dir && (match width with None => true | Some _ => false end) then None
    else
    let '(d, a) := common_factors use_dir use_att width frequency couplant r in
    let t := factor use_tr (flatten (reverse_transrefl_for_path C Displacement (r_ifaces r))) (cre N (n1 N)) in
    let b := factor use_bs (Some (reverse_beamspread N (r_vels r) (r_legs r) (r_thetas r))) (n1 N) in
    assemble d t b a (fun d t b a => rx_weight N use_dir use_tr use_bs use_att d t b a
                                               (wavelength_in_block block (r_lastmode r) frequency)).
End RayWeightsOfPath.

Arguments mkRay {T}. Arguments r_theta_out0 {T}. Arguments r_ifaces {T}. Arguments r_vels {T}.
Arguments r_legs {T}. Arguments r_atts {T}. Arguments r_lastmode {T}.

(* ---- the two ModelAmplitudes classes ---------------------------------------------------- *)
Section Amplitudes.
  Context {T : Type} (N : Num T).
  Local Notation K := (T * T)%type.
  Let C := NumC N.

  (* the object built by model_amplitudes_factory: arrays already transposed to
     (numpoints, numelements) *)
  Record amplitudes := mkAmp {
    ma_tx : list Z; ma_rx : list Z;
    ma_qtx : list (list K); ma_qrx : list (list K);
    ma_ttx : list (list T); ma_trx : list (list T);
    ma_angle : T;
    ma_numpoints : nat; ma_numelements : nat
  }.
  Definition ma_numtimetraces (o : amplitudes) : nat := length (ma_tx o).

  (* ray_weights.tx_ray_weights_dict[view.tx_path] ... all of shape (ne, ng) (assert), then .T *)
  Definition factory (tx rx : list Z) (ne ng : nat) (Qtx Qrx : list (list K)) (Ttx Trx : list (list T))
             (scat_angle : T) : option amplitudes :=
    if has_shape ne ng Qtx && has_shape ne ng Qrx && has_shape ne ng Ttx && has_shape ne ng Trx
    then match transpose ng Qtx, transpose ng Qrx, transpose ng Ttx, transpose ng Trx with
         | Some qt, Some qr, Some tht, Some thr => Some (mkAmp tx rx qt qr tht thr scat_angle ng ne)
         | _, _, _, _ => None
         end
    else None.

  Definition sub_angle (a : T) (rows : list (list T)) : list (list T) :=
    map (map (fun x => nsub N x a)) rows.

  (* _ModelAmplitudesWithScatFunction.__getitem__, G = the selected grid indices:
       scattering_fn(np.take(tx_angles[G], tx, -1) - a, np.take(rx_angles[G], rx, -1) - a)
         * np.take(tx_weights[G], tx, -1) * np.take(rx_weights[G], rx, -1)
     (the two takes must have the same length to broadcast: the factory's tx and rx do) *)
  Definition getitem_fn (S : T -> T -> K) (o : amplitudes) (G : list Z) : option (list (list K)) :=
    if length (ma_tx o) =? length (ma_rx o) then
      let a1 := omap (sub_angle (ma_angle o)) (take2 (ma_ttx o) G (ma_tx o)) in
      let a2 := omap (sub_angle (ma_angle o)) (take2 (ma_trx o) G (ma_rx o)) in
      let sc := lift2 (map2 (map2 S)) a1 a2 in
      lift2 (map2 (map2 (nmul C)))
            (lift2 (map2 (map2 (nmul C))) sc (take2 (ma_qtx o) G (ma_tx o)))
            (take2 (ma_qrx o) G (ma_rx o))
    else None.

  (* _model_amplitudes_with_scat_matrix: the kernel on ONE grid point.
       for scan: inc = tx_angles[tx[scan]] - a; out = rx_angles[rx[scan]] - a
                 res[scan] = interpolate(matrix, inc, out) * tx_weights[tx[scan]] * rx_weights[rx[scan]] *)
  Definition kernel_point (Sm : T -> T -> K) (tx rx : list Z) (a : T)
             (qt qr : list K) (tht thr : list T) : option (list K) :=
    mapM (fun s =>
            match lookup tht (fst s), lookup thr (snd s), lookup qt (fst s), lookup qr (snd s) with
            | Some th_i, Some th_o, Some q, Some q' => Some (model_amplitude N Sm a q q' th_i th_o)
            | _, _, _, _ => None
            end) (combine tx rx).

  (* a complex matrix (rows = scattered angle, columns = incident angle) as two real
     accessor functions for ScatMatrix.interp; the kernel is linear with real weights and
     numba multiplies complex by real componentwise *)
  Definition mat_part (part : K -> T) (M : list (list K)) : Z -> Z -> T :=
    fun j i => part (nth (Z.to_nat i) (nth (Z.to_nat j) M nil) (n0 N, n0 N)).

  Definition interp_c (P : T) (M : list (list K)) (inc out : T) : K :=
    let n := Z.of_nat (length M) in
    (interp N P n (mat_part fst M) inc out, interp N P n (mat_part snd M) inc out).

  (* (s,s) in the gufunc signature: square; s = 0 divides by zero *)
  Definition mat_ok (M : list (list K)) : bool :=
    negb (length M =? 0) && has_shape (length M) (length M) M.

  Fixpoint zip4 {A B} (l1 l2 : list A) (l3 l4 : list B) : list ((A * A) * (B * B)) :=
    match l1, l2, l3, l4 with
    | a :: l1', b :: l2', c :: l3', d :: l4' => ((a, b), (c, d)) :: zip4 l1' l2' l3' l4'
    | _, _, _, _ => []
    end.

  (* _ModelAmplitudesWithScatMatrix.__getitem__: the gufunc maps the kernel over the rows of
     the four arrays indexed by G; (n),(n) forces tx and rx to the same length *)
  Definition getitem_mat (P : T) (M : list (list K)) (o : amplitudes) (G : list Z) : option (list (list K)) :=
    if mat_ok M && (length (ma_tx o) =? length (ma_rx o)) then
      match take (ma_qtx o) G, take (ma_qrx o) G, take (ma_ttx o) G, take (ma_trx o) G with
      | Some qt, Some qr, Some tht, Some thr =>
          mapM (fun x => kernel_point (interp_c P M) (ma_tx o) (ma_rx o) (ma_angle o)
                                      (fst (fst x)) (snd (fst x)) (fst (snd x)) (snd (snd x)))
               (zip4 qt qr tht thr)
      | _, _, _, _ => None
      end
    else None.

  (* ---- sensitivities -------------------------------------------------------------------- *)
  (* (timetrace_weights[np.newaxis] * P[chunk]).sum(axis=1), one row *)
  Definition wsum_uniform (w : list T) (row : list K) : K :=
    fold_left (nadd C) (map2 (fun wk p => nmul C (cre N wk) p) w row) (n0 C).

  (* absval = np.abs(P[chunk]); (absval * absval * timetrace_weights[np.newaxis]).sum(axis=1) *)
  Definition cabs (z : K) : T := nsqrt N (nadd N (nmul N (fst z) (fst z)) (nmul N (snd z) (snd z))).
  Definition wsum_assisted (w : list T) (row : list K) : T :=
    fold_left (nadd N) (map2 (fun wk p => nmul N (nmul N (cabs p) (cabs p)) wk) w row) (n0 N).

  (* sensitivity[start:stop] = vals *)
  Definition write_range {V} (rng : nat * nat) (vals : list V) (s : list V) : option (list V) :=
    if length vals =? snd rng - fst rng
    then Some (firstn (fst rng) s ++ vals ++ skipn (snd rng) s)
    else None.

  (* the common loop:  sensitivity = None
       for chunk in chunk_array((numpoints, numtimetraces), block_size):
           tmp = rowf(P[chunk]); (first time: sensitivity = zeros(numpoints)); sensitivity[chunk] = tmp
       sensitivity /= numtimetraces          (None /= ... raises when there was no chunk) *)
  Definition sens_loop {V} (getitem : list Z -> option (list (list K))) (rowf : list K -> V) (zero : V)
             (numpoints block_size : nat) : option (list V) :=
    if numchunks numpoints block_size =? 0 then None
    else fold_left (fun acc ch =>
                      bind acc (fun s =>
                      bind (getitem (map Z.of_nat (range_of ch))) (fun P =>
                      write_range ch (map rowf P) s)))
                   (chunks numpoints block_size) (Some (repeat zero numpoints)).

  Definition sensitivity_uniform_tfm (getitem : list Z -> option (list (list K)))
             (numpoints numtimetraces : nat) (w : list T) (block_size : nat) : option (list K) :=
    if length w =? numtimetraces then
      omap (map (fun x => ndiv C x (cre N (nofnat N numtimetraces))))
           (sens_loop getitem (wsum_uniform w) (n0 C) numpoints block_size)
    else None.

  Definition sensitivity_model_assisted_tfm (getitem : list Z -> option (list (list K)))
             (numpoints numtimetraces : nat) (w : list T) (block_size : nat) : option (list T) :=
    if length w =? numtimetraces then
      omap (map (fun x => ndiv N x (nofnat N numtimetraces)))
           (sens_loop getitem (wsum_assisted w) (n0 N) numpoints block_size)
    else None.

  (* ---- specification ------------------------------------------------------------------ *)
  (* RayWeights layout (element, grid point); P[p][k] for the p-th selected grid index and
     timetrace k *)
  Definition entry (S : T -> T -> K) (a : T) (ne : nat) (Qtx Qrx : list (list K)) (Ttx Trx : list (list T))
             (g : nat) (zi zj : Z) : option K :=
    bind (norm_index ne zi) (fun i =>
    bind (norm_index ne zj) (fun j =>
    match get2 Qtx i g, get2 Qrx j g, get2 Ttx i g, get2 Trx j g with
    | Some q, Some q', Some th, Some th' => Some (model_amplitude N S a q q' th th')
    | _, _, _, _ => None
    end)).

  Definition spec_amp (S : T -> T -> K) (a : T) (ne ng : nat) (Qtx Qrx : list (list K)) (Ttx Trx : list (list T))
             (tx rx G : list Z) : option (list (list K)) :=
    mapM (fun zg => bind (norm_index ng zg) (fun g =>
                    mapM (fun s => entry S a ne Qtx Qrx Ttx Trx g (fst s) (snd s)) (combine tx rx))) G.

  (* unchunked sensitivities: the definition *)
  Definition spec_sensitivity {V} (getitem : list Z -> option (list (list K))) (rowf : list K -> V)
             (numpoints : nat) : option (list V) :=
    omap (map rowf) (getitem (map Z.of_nat (seq 0 numpoints))).
End Amplitudes.

Arguments mkAmp {T}. Arguments ma_tx {T}. Arguments ma_rx {T}. Arguments ma_qtx {T}. Arguments ma_qrx {T}.
Arguments ma_ttx {T}. Arguments ma_trx {T}. Arguments ma_angle {T}. Arguments ma_numpoints {T}.
Arguments ma_numelements {T}. Arguments ma_numtimetraces {T}.
