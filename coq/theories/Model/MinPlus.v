(* Model/MinPlus.v — the min-plus kernel of the ray tracer (C01, used by C13).

   Mirrors arim.ray._find_minimum_times exactly as written:

       for i in range(n):
           for j in range(p):
               for k in range(m):
                   new_time = time_1[i, k] + time_2[k, j]
                   if new_time < out_min_times[i, j]:      # STRICT <
                       out_min_times[i, j] = new_time
                       out_best_indices[i, j] = k

   with out_min_times / out_best_indices initialised to (+inf, -1) by
   find_minimum_times.  The pair (+inf, -1) is the value `None` of the accumulator
   (`x < +inf` holds for every finite x, so the first candidate is always taken);
   a cell that is still `None` at the end is a cell the code leaves at (inf, -1).

   The tables are lists of lists: time_1 as its list of ROWS (the code forces
   C order), time_2 as its list of COLUMNS (the code forces Fortran order), so
   that the model is executable.  Only two operations of the cost type are used:
   `ltb` and `add` (Section variables).  No theorem here. *)
From Coq Require Import Arith List Bool.
Import ListNotations.

Section MinPlus.
  Variable T : Type.
  Variable ltb : T -> T -> bool.     (* new_time < out_min_times[i, j] *)
  Variable add : T -> T -> T.        (* time_1[i, k] + time_2[k, j]    *)

  (* body of the innermost loop for candidate k with value x *)
  Definition mp_step (acc : option (T * nat)) (k : nat) (x : T) : option (T * nat) :=
    match acc with
    | None => Some (x, k)                                   (* x < +inf *)
    | Some (b, kb) => if ltb x b then Some (x, k) else acc
    end.

  (* for k in range(m), starting at index k0, on row r of time_1 and column c of time_2 *)
  Fixpoint mp_scan (k0 : nat) (r c : list T) (acc : option (T * nat)) : option (T * nat) :=
    match r, c with
    | x :: r', y :: c' => mp_scan (S k0) r' c' (mp_step acc k0 (add x y))
    | _, _ => acc
    end.

  Definition minplus_cell (r c : list T) : option (T * nat) := mp_scan 0 r c None.

  (* the two outer loops: rows of time_1, columns of time_2 *)
  Definition minplus (t1 t2c : list (list T)) : list (list (option (T * nat))) :=
    map (fun r => map (fun c => minplus_cell r c) t2c) t1.

  (* same scan written over the list of candidates (used by the proofs and by the
     function-level specification of the solver) *)
  Fixpoint scan_list (k0 : nat) (l : list T) (acc : option (T * nat)) : option (T * nat) :=
    match l with
    | [] => acc
    | x :: l' => scan_list (S k0) l' (mp_step acc k0 x)
    end.

  Fixpoint zip_add (r c : list T) : list T :=
    match r, c with
    | x :: r', y :: c' => add x y :: zip_add r' c'
    | _, _ => []
    end.
End MinPlus.

Arguments mp_step {T}. Arguments mp_scan {T}. Arguments minplus_cell {T}.
Arguments minplus {T}. Arguments scan_list {T}. Arguments zip_add {T}.

(* ---- generic table helpers (shared with Model/Fermat.v) ---------------- *)
Section Tables.
  Context {A : Type}.

  (* the (n, m) table whose entry (i, j) is f i j *)
  Definition tab (n m : nat) (f : nat -> nat -> A) : list (list A) :=
    map (fun i => map (fun j => f i j) (seq 0 m)) (seq 0 n).

  Definition get2 (t : list (list A)) (i j : nat) : option A :=
    match nth_error t i with Some row => nth_error row j | None => None end.

  (* transpose of a table whose rows have length p (p is given because an empty
     table does not know its number of columns) *)
  Fixpoint transpose (p : nat) (t : list (list A)) : list (list A) :=
    match t with
    | [] => repeat [] p
    | row :: t' => map (fun xl => fst xl :: snd xl) (combine row (transpose p t'))
    end.

  (* rows a..b-1 / columns c..d-1 of a table (numpy basic slicing t[a:b, c:d]) *)
  Definition slice (a b : nat) (l : list A) : list A := firstn (b - a) (skipn a l).

  (* Some of all entries, or None if some entry is None *)
  Fixpoint all_some (l : list (option A)) : option (list A) :=
    match l with
    | [] => Some []
    | None :: _ => None
    | Some x :: l' => match all_some l' with Some r => Some (x :: r) | None => None end
    end.
End Tables.

Definition block {A} (a b c d : nat) (t : list (list A)) : list (list A) :=
  map (slice c d) (slice a b t).

Definition all_some2 {A} (t : list (list (option A))) : option (list (list A)) :=
  all_some (map all_some t).
