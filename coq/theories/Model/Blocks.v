(* Model/Blocks.v — the blockwise public functions as WHOLE functions (C13).

   Model/Chunk.v gives the partition of one length and an abstract execution of
   "pure" tasks; Model/ChunkND.v the selectors yielded by chunk_array.  This file
   puts the glue around them into the model:

     math.ceil(a / b) on Python ints, block sizes of ANY sign (py_ceil_div)
     arim.helpers.chunk_array with an integer block size      (chunk_array_py)
     arim.ray.find_minimum_times      src/arim/ray.py:25-111   (find_minimum_times)
     arim.ray._find_minimum_times     src/arim/ray.py:114-137  (fmt_kernel)
     arim.geometry.distance_pairwise  src/arim/geometry.py:1260-1350 (distance_pairwise)
     arim.geometry._distance_pairwise src/arim/geometry.py:1376-1393 (dist_kernel)

   What is mirrored, in the order of the source:
     * the error branches (shape checks, ZeroDivisionError of block_size / m and of
       chunk_array with block 0, ValueError of ThreadPoolExecutor(max_workers <= 0)),
     * the selectors: `for chunk1 in chunk_array(..): for chunk2 in chunk_array(..)`,
       the tuple picking `chunk_res = (chunk1[0], chunk2[1])` / `(chunk1[0], chunk2[0])`,
       and the resolution by numpy of the SAME selector on arrays of DIFFERENT shapes
       (time_1 (n,m), time_2 (m,p), the outputs (n,p); x/y/z (num,), distance (num1,num2)),
     * the kernels as they are written: loops over the shape of the VIEWS they are
       handed; _find_minimum_times is a read-modify-write kernel (it starts from the
       current content of its output view, `new_time < out_min_times[i, j]`),
       _distance_pairwise overwrites,
     * the thread pool: the submitted task list is run in the order `sched tasks`
       (any function; the theorems ask it to be a permutation), tasks are atomic.

   Tables are lists of rows; time_2 is given by its list of COLUMNS (as in
   Model/MinPlus.v: time_2.T.tolist()), the two outputs of find_minimum_times are one
   table of `option (time, index)` with None = (+inf, -1).  Definitions only. *)
From Coq Require Import Arith List Bool ZArith.
From Arim Require Import Base.Num Model.Chunk Model.ChunkND Model.MinPlus.
Import ListNotations.

(* ---- Python values ------------------------------------------------------- *)
Inductive pyerr := IndexError | ZeroDivisionError | ValueError | InvalidShape | TypeError.
Definition res (A : Type) : Type := (pyerr + A)%type.

Fixpoint collect {A} (l : list (res A)) : res (list A) :=
  match l with
  | [] => inr []
  | inl e :: _ => inl e
  | inr x :: l' => match collect l' with inl e => inl e | inr r => inr (x :: r) end
  end.

(* math.ceil(a / b) for Python ints (exact as long as the float quotient is: sizes
   and block sizes far below 2^26, cf. Model/Chunk.v); None = ZeroDivisionError.
   Z.div is the floor division, as Python's // *)
Definition py_ceil_div (a b : Z) : option Z :=
  if (b =? 0)%Z then None else Some (- ((- a) / b))%Z.

(* ---- chunk_array with an integer block size ------------------------------ *)
(* the three `for i in range(numchunks): yield ...` branches (Model/ChunkND.v
   raw_selectors), with numchunks given *)
Definition selectors_n (ndim ax nc b : nat) : list (list item) :=
  let sl i := Sl (Some (i * b), Some ((i + 1) * b)) in
  let idx := seq 0 nc in
  if ax =? 0 then map (fun i => [sl i; Dots]) idx
  else if ax =? ndim - 1 then map (fun i => [Dots; sl i]) idx
  else map (fun i => repeat (Sl colon) ax ++ [sl i; Dots]) idx.

(* numchunks = math.ceil(length / block_size); range(numchunks) is empty when
   numchunks <= 0, which is what a NEGATIVE block size gives: the slice bounds
   i * block_size are then never computed *)
Definition chunk_array_py (shape : list nat) (block_size axis : Z) : res (list (list item)) :=
  match normalise_axis (length shape) axis with
  | None => inl IndexError
  | Some ax =>
      match py_ceil_div (Z.of_nat (nth ax shape 0)) block_size with
      | None => inl ZeroDivisionError
      | Some nc => inr (selectors_n (length shape) ax (Z.to_nat nc) (Z.to_nat block_size))
      end
  end.

(* a view: the half-open range selected on every axis of the base array *)
Definition view := list (nat * nat).

Definition view_origin (v : view) : nat * nat :=
  match v with [r; c] => (fst r, fst c) | _ => (0, 0) end.
Definition view_shape (v : view) : nat * nat :=
  match v with [r; c] => (snd r - fst r, snd c - fst c) | _ => (0, 0) end.

(* t[r0:r1, c0:c1] of a table given by its rows *)
Definition view2 {A} (v : view) (t : list (list A)) : list (list A) :=
  match v with
  | [r; c] => map (slice (fst c) (snd c)) (slice (fst r) (snd r) t)
  | _ => []
  end.
(* the same view of a table given by its COLUMNS *)
Definition view2T {A} (v : view) (tc : list (list A)) : list (list A) :=
  match v with
  | [r; c] => map (slice (fst r) (snd r)) (slice (fst c) (snd c) tc)
  | _ => []
  end.
(* x[a:b] *)
Definition view1 {A} (v : view) (l : list A) : list A :=
  match v with [r] => slice (fst r) (snd r) l | _ => [] end.

(* ---- tasks that read and write their own cells only ------------------------ *)
(* generalises Chunk.task: the value written may depend on the current content of
   the SAME cell (accumulating kernels: min-plus, +=) *)
Section RMW.
  Variable V : Type.
  Record rtask := mkR { r_cells : list (nat * nat); r_fun : nat -> nat -> V -> V }.

  Definition rrun_task (a : arr V) (t : rtask) : arr V :=
    fold_left (fun a c => upd a c (r_fun t (fst c) (snd c) (a (fst c) (snd c)))) (r_cells t) a.

  Definition rrun (ts : list rtask) (a : arr V) : arr V := fold_left rrun_task ts a.
End RMW.
Arguments mkR {V}. Arguments r_cells {V}. Arguments r_fun {V}.
Arguments rrun_task {V}. Arguments rrun {V}.

(* ---- find_minimum_times ---------------------------------------------------- *)
Section FindMinimumTimes.
  Variable T : Type.
  Variable ltb : T -> T -> bool.     (* new_time < out_min_times[i, j] *)
  Variable add : T -> T -> T.        (* time_1[i, k] + time_2[k, j]    *)

  Definition cellv : Type := option (T * nat).      (* None = (+inf, -1) *)

  (* time_1[chunk1], time_2[chunk2], out_*[chunk_res] *)
  Record fmt_views := mkFV { fv_t1 : view; fv_t2 : view; fv_res : view }.

  (* chunk_res = (chunk1[0], chunk2[1]); the four views of one task *)
  Definition fmt_task_views (n m p : nat) (chunk1 chunk2 : list item) : res fmt_views :=
    match nth_error chunk1 0, nth_error chunk2 1 with
    | Some s1, Some s2 =>
        match resolve [n; m] chunk1, resolve [m; p] chunk2, resolve [n; p] [s1; s2] with
        | Some v1, Some v2, Some vr => inr (mkFV v1 v2 vr)
        | _, _, _ => inl IndexError
        end
    | _, _ => inl IndexError                         (* tuple index out of range *)
    end.

  (* for chunk1 in chunk_array((n, m), adj, axis=0):
       for chunk2 in chunk_array((m, p), adj, axis=1):   (a new generator every time)
         submit(...)                                      in this order *)
  Definition fmt_submit (n m p : nat) (adj : Z) : res (list fmt_views) :=
    match chunk_array_py [n; m] adj 0 with
    | inl e => inl e
    | inr sels1 =>
        collect (flat_map (fun chunk1 =>
                   match chunk_array_py [m; p] adj 1 with
                   | inl e => [inl e]
                   | inr sels2 => map (fmt_task_views n m p chunk1) sels2
                   end) sels1)
    end.

  (* _find_minimum_times on views: rows = time_1 view (list of rows), cols = time_2
     view (list of columns), output view at offset (r0, c0) of `out`:
       for i in range(n): for j in range(p): for k in range(m):
           new_time = time_1[i, k] + time_2[k, j]
           if new_time < out_min_times[i, j]: (store new_time, k)
     the scan starts from what the output view CONTAINS *)
  Definition fmt_kernel (rows cols : list (list T)) (r0 c0 : nat) (out : arr cellv) : arr cellv :=
    fold_left (fun o i =>
      fold_left (fun o j =>
        match nth_error rows i, nth_error cols j with
        | Some r, Some c => upd o (r0 + i, c0 + j) (mp_scan ltb add 0 r c (o (r0 + i) (c0 + j)))
        | _, _ => o
        end) (seq 0 (length cols)) o) (seq 0 (length rows)) out.

  Definition fmt_run_task (t1 t2c : list (list T)) (out : arr cellv) (tv : fmt_views) : arr cellv :=
    fmt_kernel (view2 (fv_t1 tv) t1) (view2T (fv_t2 tv) t2c)
               (fst (view_origin (fv_res tv))) (snd (view_origin (fv_res tv))) out.

  Definition fmt_run (t1 t2c : list (list T)) (tasks : list fmt_views) (out : arr cellv) : arr cellv :=
    fold_left (fmt_run_task t1 t2c) tasks out.

  (* find_minimum_times(time_1, time_2, block_size=, numthreads=); time_1 of shape
     (n, m) = (length t1, m), time_2 of shape (m_, p) = (m_, length t2c).
     `sched` = the order in which the pool runs the submitted tasks. *)
  Definition find_minimum_times (m m_ : nat) (t1 t2c : list (list T)) (block_size numthreads : Z)
             (sched : list fmt_views -> list fmt_views) : res (list (list cellv)) :=
    let n := length t1 in
    let p := length t2c in
    if negb (m =? m_) then inl ValueError                       (* shapes must be (n, m), (m, p) *)
    else
      (* out_min_times = full(inf); out_best_indices = full(-1) *)
      let out0 : arr cellv := fun _ _ => None in
      match py_ceil_div block_size (Z.of_nat m) with             (* block_size_adj *)
      | None => inl ZeroDivisionError
      | Some adj =>
          if (numthreads <=? 0)%Z then inl ValueError            (* ThreadPoolExecutor(max_workers) *)
          else match fmt_submit n m p adj with
               | inl e => inl e
               | inr tasks => inr (tab n p (fmt_run t1 t2c (sched tasks) out0))
               end
      end.

  (* every row of a table has the given length *)
  Definition rows_have {A} (k : nat) (t : list (list A)) : Prop := Forall (fun r => length r = k) t.
End FindMinimumTimes.

Arguments fmt_kernel {T}. Arguments fmt_run_task {T}. Arguments fmt_run {T}.
Arguments find_minimum_times {T}.

(* ---- distance_pairwise ----------------------------------------------------- *)
Section DistancePairwise.
  Context {T : Type} (N : Num T).

  (* Points: three coordinate arrays *)
  Record points := mkPts { px : list T; py : list T; pz : list T }.
  Definition pt : Type := (T * (T * T))%type.
  Definition zip3 (P : points) : list pt := combine (px P) (combine (py P) (pz P)).

  (* dx = x1[i] - x2[j]; ...; math.sqrt(dx * dx + dy * dy + dz * dz) *)
  Definition dist_entry (a b : pt) : T :=
    let dx := nsub N (fst a) (fst b) in
    let dy := nsub N (fst (snd a)) (fst (snd b)) in
    let dz := nsub N (snd (snd a)) (snd (snd b)) in
    nsqrt N (nadd N (nadd N (nmul N dx dx) (nmul N dy dy)) (nmul N dz dz)).

  (* points1.*[chunk1], points2.*[chunk2], distance[chunk_tof] *)
  Record dist_views := mkDV { dv_1 : view; dv_2 : view; dv_out : view }.

  (* chunk_tof = (chunk1[0], chunk2[0]) *)
  Definition dist_task_views (num1 num2 : nat) (chunk1 chunk2 : list item) : res dist_views :=
    match nth_error chunk1 0, nth_error chunk2 0 with
    | Some s1, Some s2 =>
        match resolve [num1] chunk1, resolve [num2] chunk2, resolve [num1; num2] [s1; s2] with
        | Some v1, Some v2, Some vo => inr (mkDV v1 v2 vo)
        | _, _, _ => inl IndexError
        end
    | _, _ => inl IndexError
    end.

  Definition dist_submit (num1 num2 : nat) (chunk_size : Z) : res (list dist_views) :=
    match chunk_array_py [num1] chunk_size 0 with
    | inl e => inl e
    | inr sels1 =>
        collect (flat_map (fun chunk1 =>
                   match chunk_array_py [num2] chunk_size 0 with
                   | inl e => [inl e]
                   | inr sels2 => map (dist_task_views num1 num2 chunk1) sels2
                   end) sels1)
    end.

  (* _distance_pairwise: num1, num2 = distance.shape (the VIEW's shape);
     for i in range(num1): for j in range(num2): distance[i, j] = sqrt(...) *)
  Definition dist_kernel (p1 p2 : list pt) (nr nc r0 c0 : nat) (out : arr T) : arr T :=
    fold_left (fun o i =>
      fold_left (fun o j =>
        match nth_error p1 i, nth_error p2 j with
        | Some a, Some b => upd o (r0 + i, c0 + j) (dist_entry a b)
        | _, _ => o
        end) (seq 0 nc) o) (seq 0 nr) out.

  Definition dist_run_task (P1 P2 : points) (out : arr T) (dv : dist_views) : arr T :=
    dist_kernel (combine (view1 (dv_1 dv) (px P1)) (combine (view1 (dv_1 dv) (py P1)) (view1 (dv_1 dv) (pz P1))))
                (combine (view1 (dv_2 dv) (px P2)) (combine (view1 (dv_2 dv) (py P2)) (view1 (dv_2 dv) (pz P2))))
                (fst (view_shape (dv_out dv))) (snd (view_shape (dv_out dv)))
                (fst (view_origin (dv_out dv))) (snd (view_origin (dv_out dv))) out.

  Definition dist_run (P1 P2 : points) (tasks : list dist_views) (out : arr T) : arr T :=
    fold_left (dist_run_task P1 P2) tasks out.

  Definition arr_of_table (t : list (list T)) : arr T := fun i j => nth j (nth i t []) (n0 N).

  Definition points_ok (P : points) : bool :=
    (length (py P) =? length (px P)) && (length (pz P) =? length (px P)).

  (* distance_pairwise(points1, points2, out=, block_size=, numthreads=);
     out = None, or Some (declared shape, content) *)
  Definition distance_pairwise (P1 P2 : points) (out : option (nat * nat * list (list T)))
             (block_size numthreads : Z) (sched : list dist_views -> list dist_views)
    : res (list (list T)) :=
    let num1 := length (px P1) in
    let num2 := length (px P2) in
    if negb (points_ok P1) then inl InvalidShape
    else if negb (points_ok P2) then inl InvalidShape
    else
      match (match out with
             | None => inr (fun _ _ => n0 N)                       (* np.full((num1, num2), 0) *)
             | Some (r, c, content) =>
                 if (r =? num1) && (c =? num2) then inr (arr_of_table content)
                 else inl InvalidShape
             end) with
      | inl e => inl e
      | inr distance0 =>
          match py_ceil_div block_size 6 with                      (* chunk_size *)
          | None => inl ZeroDivisionError
          | Some chunk_size =>
              if (numthreads <=? 0)%Z then inl ValueError
              else match dist_submit num1 num2 chunk_size with
                   | inl e => inl e
                   | inr tasks => inr (tab num1 num2 (dist_run P1 P2 (sched tasks) distance0))
                   end
          end
      end.

  (* the unblocked definition: distance[i, j] for every pair of points *)
  Definition distance_table (P1 P2 : points) : list (list T) :=
    map (fun a => map (fun b => dist_entry a b) (zip3 P2)) (zip3 P1).
End DistancePairwise.

Arguments mkPts {T}. Arguments px {T}. Arguments py {T}. Arguments pz {T}.

(* ---- the selector of the sensitivity loops on the arrays it is applied to ---- *)
(* sensitivity_uniform_tfm / sensitivity_model_assisted_tfm (src/arim/model.py:1586-1657):
     for chunk in chunk_array((numpoints, numtimetraces), block_size):
         ... model_amplitudes[chunk] ...     the four (numpoints, numelements) arrays of a
                                             ModelAmplitudes object, or a (numpoints,
                                             numtimetraces) ndarray, and the 1-D guard array
         sensitivity[chunk] = tmp            a 1-D array of numpoints entries
   the ranges ONE selector selects on these three shapes *)
Definition sens_views (numpoints numtimetraces numelements : nat) (chunk : list item)
  : option (view * view * view) :=
  match resolve [numpoints] chunk, resolve [numpoints; numelements] chunk,
        resolve [numpoints; numtimetraces] chunk with
  | Some v1, Some v2, Some v3 => Some (v1, v2, v3)
  | _, _, _ => None
  end.

Definition sens_submit (numpoints numtimetraces numelements : nat) (block_size : Z)
  : res (list (option (view * view * view))) :=
  match chunk_array_py [numpoints; numtimetraces] block_size 0 with
  | inl e => inl e
  | inr sels => inr (map (sens_views numpoints numtimetraces numelements) sels)
  end.
