(* Model/Das.v — arim.im.das: the delay-and-sum kernels reachable from the
   dispatcher `delay_and_sum`, FocalLaw.weigh_timetraces, the two dispatch
   levels, and the specification `das_spec` (C02).

   Numeric kernels are written once over a Num record (times, positions,
   weights: T) and a Data record (sample values D: real = T, complex = T*T).
   They mirror the numba code as it is NOW in /repo (after the math.floor
   repair of the linear kernels):

     _delay_and_sum_amplitudes_nearest   das_amp_nearest     round((t - t0) / dt)
     _delay_and_sum_amplitudes_linear    das_amp_linear      floor, l + f*(r-l)
     _delay_and_sum_noamp                das_noamp_nearest   round((t - t0) * invdt)
     _delay_and_sum_noamp_linear         das_noamp_linear    floor, (1-f)*l + f*r
     _delay_and_sum_noamp_lanczos        das_noamp_lanczos   floor, x[i % n], sinc
     _delay_and_sum_noamp_median_*       median_*_samples    (vector handed to geomed)
     _delay_and_sum_noamp_huber_lanczos  huber_lanczos_samples

   Loop structure: `for point in prange(numpoints)` is a map over the rows of
   the per-point tables (iteration p only reads row p and writes result[p]);
   `for scan in range(numtimetraces): res_tmp += term` is a fold_left from 0
   in timetrace order; `result[point] = res_tmp / numtimetraces`.
   The fill value is added as the bare summand (no amplitude, no weight). *)
From Coq Require Import List ZArith Bool.
From Arim Require Import Base.Num.
Import ListNotations.

(* ---- sample values ------------------------------------------------------ *)
Record Data (T D : Type) := mkData {
  dzero : D; done : D;
  dadd : D -> D -> D; dsub : D -> D -> D;
  dmul : D -> D -> D;          (* amplitude * amplitude, amplitude * sample *)
  dscale : T -> D -> D;        (* real scalar * sample (weight, fraction, sinc) *)
  ddiv : D -> T -> D           (* res_tmp / numtimetraces *)
}.
Arguments dzero {T D}. Arguments done {T D}. Arguments dadd {T D}. Arguments dsub {T D}.
Arguments dmul {T D}. Arguments dscale {T D}. Arguments ddiv {T D}.

Definition DataReal {T} (N : Num T) : Data T T := {|
  dzero := n0 N; done := n1 N; dadd := nadd N; dsub := nsub N; dmul := nmul N;
  dscale := nmul N; ddiv := ndiv N |}.

(* complex numbers are pairs (re, im); nothing complex is primitive *)
Definition DataCplx {T} (N : Num T) : Data T (T * T) := {|
  dzero := (n0 N, n0 N); done := (n1 N, n0 N);
  dadd := fun a b => (nadd N (fst a) (fst b), nadd N (snd a) (snd b));
  dsub := fun a b => (nsub N (fst a) (fst b), nsub N (snd a) (snd b));
  dmul := fun a b => (nsub N (nmul N (fst a) (fst b)) (nmul N (snd a) (snd b)),
                      nadd N (nmul N (fst a) (snd b)) (nmul N (snd a) (fst b)));
  dscale := fun c a => (nmul N c (fst a), nmul N c (snd a));
  ddiv := fun a c => (ndiv N (fst a) c, ndiv N (snd a) c) |}.

(* one timetrace of the frame: frame.tx[k], frame.rx[k], frame.timetraces[k] *)
Record scan (D : Type) := mkScan { s_tx : nat; s_rx : nat; s_x : list D }.
Arguments mkScan {D}. Arguments s_tx {D}. Arguments s_rx {D}. Arguments s_x {D}.

(* the rows of the per-point tables read by iteration `point` *)
Record prow (T D : Type) := mkRow {
  r_lt_tx : list T; r_lt_rx : list T;     (* lookup_times_tx[point], lookup_times_rx[point] *)
  r_a_tx : list D; r_a_rx : list D }.     (* amplitudes_tx[point], amplitudes_rx[point] (amp kernels) *)
Arguments mkRow {T D}. Arguments r_lt_tx {T D}. Arguments r_lt_rx {T D}.
Arguments r_a_tx {T D}. Arguments r_a_rx {T D}.

Inductive scheme := Nearest | Linear | Lanczos (a : Z).

(* range(lo, lo + len) *)
Definition zrange (lo : Z) (len : nat) : list Z := map (fun j => (lo + Z.of_nat j)%Z) (seq 0 len).

Section Das.
  Context {T D : Type} (N : Num T) (V : Data T D).
  Local Notation "a + b" := (nadd N a b).
  Local Notation "a - b" := (nsub N a b).
  Local Notation "a * b" := (nmul N a b).
  Local Notation "a / b" := (ndiv N a b).

  Definition getT (l : list T) (i : nat) : T := nth i l (n0 N).
  Definition getD (l : list D) (i : nat) : D := nth i l (dzero V).
  (* weighted_timetraces[scan, i]; only ever called with 0 <= i < numsamples *)
  Definition sample (x : list D) (i : Z) : D := nth (Z.to_nat i) x (dzero V).

  Definition dsum_left (l : list D) : D := fold_left (dadd V) l (dzero V).

  (* lookup_times_tx[point, tx[scan]] + lookup_times_rx[point, rx[scan]] *)
  Definition lookup_time (r : prow T D) (s : scan D) : T :=
    getT (r_lt_tx r) (s_tx s) + getT (r_lt_rx r) (s_rx s).

  (* amplitudes_tx[point, tx[scan]] * amplitudes_rx[point, rx[scan]] *)
  Definition amp (r : prow T D) (s : scan D) : D :=
    dmul V (getD (r_a_tx r) (s_tx s)) (getD (r_a_rx r) (s_rx s)).

  (* `lookup_index < 0 or lookup_index >= numsamples` on integers *)
  Definition out_idx (ns i : Z) : bool := (i <? 0)%Z || (i >=? ns)%Z.

  (* ---- FocalLaw.weigh_timetraces: timetraces * timetrace_weights[:, newaxis];
     None when the shapes do not broadcast (numpy raises) *)
  Definition weigh_timetraces (w : option (list T)) (ss : list (scan D)) : option (list (scan D)) :=
    match w with
    | None => Some ss
    | Some ws =>
        if Nat.eqb (length ws) (length ss)
        then Some (map (fun sw => mkScan (s_tx (fst sw)) (s_rx (fst sw))
                                         (map (fun v => dscale V (snd sw) v) (s_x (fst sw))))
                       (combine ss ws))
        else None
    end.

  (* ---- summands of the kernels, exactly as written ----------------------- *)
  (* _delay_and_sum_amplitudes_nearest *)
  Definition term_amp_nearest (ns : Z) (dt t0 : T) (fill : D) (r : prow T D) (s : scan D) : D :=
    let lookup_index := nround N ((lookup_time r s - t0) / dt) in
    if out_idx ns lookup_index then fill
    else dmul V (amp r s) (sample (s_x s) lookup_index).

  (* _delay_and_sum_amplitudes_linear *)
  Definition term_amp_linear (ns : Z) (dt t0 : T) (fill : D) (r : prow T D) (s : scan D) : D :=
    let loc1 := (lookup_time r s - t0) / dt in
    let lookup_index := nfloor N loc1 in
    let frac1 := loc1 - nofZ N lookup_index in
    let lookup_index1 := (lookup_index + 1)%Z in
    if (lookup_index <? 0)%Z || (lookup_index1 >=? ns)%Z then fill
    else
      let lscanVal := sample (s_x s) lookup_index in
      let lscanVal1 := sample (s_x s) lookup_index1 in
      let lscanUseVal := dadd V lscanVal (dscale V frac1 (dsub V lscanVal1 lscanVal)) in
      dmul V (amp r s) lscanUseVal.

  (* _delay_and_sum_noamp (and the loop body of _median_nearest) *)
  Definition term_noamp_nearest (ns : Z) (invdt t0 : T) (fill : D) (r : prow T D) (s : scan D) : D :=
    let lookup_index := nround N ((lookup_time r s - t0) * invdt) in
    if out_idx ns lookup_index then fill else sample (s_x s) lookup_index.

  (* _delay_and_sum_noamp_linear *)
  Definition term_noamp_linear (ns : Z) (invdt t0 : T) (fill : D) (r : prow T D) (s : scan D) : D :=
    let lookup_index_exact := (lookup_time r s - t0) * invdt in
    let lookup_index_left := nfloor N lookup_index_exact in
    let lookup_index_right := (lookup_index_left + 1)%Z in
    let frac := lookup_index_exact - nofZ N lookup_index_left in
    if (lookup_index_left <? 0)%Z || (lookup_index_right >=? ns)%Z then fill
    else
      let scan_val_left := sample (s_x s) lookup_index_left in
      let scan_val_right := sample (s_x s) lookup_index_right in
      dadd V (dscale V (n1 N - frac) scan_val_left) (dscale V frac scan_val_right).

  (* sinc(x) = 1.0 if x == 0 else sin(pi*x) / (pi*x) *)
  Definition sinc (x : T) : T :=
    if neqb N x (n0 N) then n1 N else nsin N (npi N * x) / (npi N * x).

  (* lanczos_interpolation(t, x, a):
       for i in range(floor(t) - a + 1, floor(t) + a + 1):
           out += x[i % n] * sinc(t - i) * sinc((t - i) / a)        n = len(x) *)
  Definition lanczos_interpolation (ns : Z) (t : T) (x : list D) (a : Z) : D :=
    let i_min := (nfloor N t - a + 1)%Z in
    let i_max := (nfloor N t + a + 1)%Z in
    fold_left (fun out i =>
                 dadd V out (dscale V (sinc ((t - nofZ N i) / nofZ N a))
                                      (dscale V (sinc (t - nofZ N i)) (sample x (i mod ns)%Z))))
              (zrange i_min (Z.to_nat (i_max - i_min))) (dzero V).

  (* `lookup_index < 0 or lookup_index >= numsamples` on floats *)
  Definition out_pos (ns : Z) (l : T) : bool := nltb N l (n0 N) || nleb N (nofZ N ns) l.

  (* _delay_and_sum_noamp_lanczos (and the loop bodies of _median_lanczos, _huber_lanczos) *)
  Definition term_noamp_lanczos (a : Z) (ns : Z) (invdt t0 : T) (fill : D) (r : prow T D) (s : scan D) : D :=
    let lookup_index := (lookup_time r s - t0) * invdt in
    if out_pos ns lookup_index then fill else lanczos_interpolation ns lookup_index (s_x s) a.

  (* ---- one image point: res_tmp = 0; for scan: res_tmp += term; / numtimetraces *)
  Definition accumulate (term : scan D -> D) (ss : list (scan D)) : D :=
    ddiv V (fold_left (fun res_tmp s => dadd V res_tmp (term s)) ss (dzero V))
           (nofZ N (Z.of_nat (length ss))).

  (* the numba kernels: weighted timetraces in, image (one value per point) out *)
  Definition k_amp_nearest ns dt t0 fill (rows : list (prow T D)) (ss : list (scan D)) : list D :=
    map (fun r => accumulate (term_amp_nearest ns dt t0 fill r) ss) rows.
  Definition k_amp_linear ns dt t0 fill (rows : list (prow T D)) (ss : list (scan D)) : list D :=
    map (fun r => accumulate (term_amp_linear ns dt t0 fill r) ss) rows.
  Definition k_noamp_nearest ns invdt t0 fill (rows : list (prow T D)) (ss : list (scan D)) : list D :=
    map (fun r => accumulate (term_noamp_nearest ns invdt t0 fill r) ss) rows.
  Definition k_noamp_linear ns invdt t0 fill (rows : list (prow T D)) (ss : list (scan D)) : list D :=
    map (fun r => accumulate (term_noamp_linear ns invdt t0 fill r) ss) rows.
  Definition k_noamp_lanczos a ns invdt t0 fill (rows : list (prow T D)) (ss : list (scan D)) : list D :=
    map (fun r => accumulate (term_noamp_lanczos a ns invdt t0 fill r) ss) rows.

  (* robust kernels: datapoints = np.empty(numtimetraces); for scan: datapoints[scan] = ...
     (functional array filled in timetrace order); the vector is then handed to
     geomed / huber_m_estimate (Model/Robust.v) *)
  Definition median_nearest_samples ns invdt t0 fill (r : prow T D) (ss : list (scan D)) : list D :=
    fold_left (fun datapoints s =>
      let lookup_index := nround N ((lookup_time r s - t0) * invdt) in
      datapoints ++ [if out_idx ns lookup_index then fill else sample (s_x s) lookup_index]) ss [].
  Definition median_lanczos_samples a ns invdt t0 fill (r : prow T D) (ss : list (scan D)) : list D :=
    fold_left (fun datapoints s =>
      let lookup_index := (lookup_time r s - t0) * invdt in
      datapoints ++ [if out_pos ns lookup_index then fill
                     else lanczos_interpolation ns lookup_index (s_x s) a]) ss [].
  Definition huber_lanczos_samples := median_lanczos_samples.   (* the loop is a textual copy *)

  (* ---- delay_and_sum_numba / delay_and_sum_numba_noamp for the mean kernels:
     weigh, (noamp: invdt = 1 / frame.time.step), call the kernel *)
  Definition das_amp (sc : scheme) ns dt t0 fill (w : option (list T)) rows ss : option (list D) :=
    match weigh_timetraces w ss with
    | None => None
    | Some wss =>
        match sc with
        | Nearest => Some (k_amp_nearest ns dt t0 fill rows wss)
        | Linear => Some (k_amp_linear ns dt t0 fill rows wss)
        | Lanczos _ => None          (* ValueError / AttributeError: see dispatch *)
        end
    end.

  Definition das_noamp (sc : scheme) ns dt t0 fill (w : option (list T)) rows ss : option (list D) :=
    match weigh_timetraces w ss with
    | None => None
    | Some wss =>
        let invdt := n1 N / dt in
        match sc with
        | Nearest => Some (k_noamp_nearest ns invdt t0 fill rows wss)
        | Linear => Some (k_noamp_linear ns invdt t0 fill rows wss)
        | Lanczos a => Some (k_noamp_lanczos a ns invdt t0 fill rows wss)
        end
    end.

  (* ======================================================================
     Specification.  Position of the lookup in samples: l = (tau_tx + tau_rx - t0)/dt.
       image(point) = (1/N) * sum_k term_k
       term_k = fill                                   if l_k is outside the window
              = w_k * (Atx * Arx) * interp(x_k, l_k)   otherwise
     (raw timetraces x_k, weights w_k, no weighted copy, no invdt). *)
  Definition position (dt t0 : T) (r : prow T D) (s : scan D) : T := (lookup_time r s - t0) / dt.

  Definition in_window (sc : scheme) (ns : Z) (l : T) : bool :=
    match sc with
    | Nearest => (0 <=? nround N l)%Z && (nround N l <? ns)%Z
    | Linear => nleb N (n0 N) l && nltb N l (nofZ N (ns - 1))
    | Lanczos _ => nleb N (n0 N) l && nltb N l (nofZ N ns)
    end.

  Definition dsum (l : list D) : D := fold_right (dadd V) (dzero V) l.

  Definition lanczos_window (a : Z) (u : T) : T := sinc u * sinc (u / nofZ N a).

  Definition interp (sc : scheme) (ns : Z) (x : list D) (l : T) : D :=
    match sc with
    | Nearest => sample x (nround N l)
    | Linear =>
        let i := nfloor N l in let f := l - nofZ N i in
        dadd V (dscale V (n1 N - f) (sample x i)) (dscale V f (sample x (i + 1)%Z))
    | Lanczos a =>
        dsum (map (fun i => dscale V (lanczos_window a (l - nofZ N i)) (sample x (i mod ns)%Z))
                  (zrange (nfloor N l - a + 1)%Z (Z.to_nat (2 * a))))
    end.

  Definition spec_term (sc : scheme) (with_amp : bool) (ns : Z) (dt t0 : T) (fill : D)
             (r : prow T D) (sw : scan D * T) : D :=
    let l := position dt t0 r (fst sw) in
    if in_window sc ns l then
      let v := interp sc ns (s_x (fst sw)) l in
      dscale V (snd sw) (if with_amp then dmul V (amp r (fst sw)) v else v)
    else fill.

  Definition eff_weights (w : option (list T)) (n : nat) : list T :=
    match w with None => repeat (n1 N) n | Some ws => ws end.

  Definition das_spec_point sc with_amp ns dt t0 fill (w : option (list T)) (ss : list (scan D))
             (r : prow T D) : D :=
    dscale V (n1 N / nofZ N (Z.of_nat (length ss)))
           (dsum (map (spec_term sc with_amp ns dt t0 fill r) (combine ss (eff_weights w (length ss))))).

  Definition das_spec sc with_amp ns dt t0 fill w rows ss : list D :=
    map (das_spec_point sc with_amp ns dt t0 fill w ss) rows.
End Das.

(* ==========================================================================
   The two dispatch levels as a decision table.
   Level 1 `delay_and_sum`: isinstance(amplitudes, TxRxAmplitudes) / None / else.
   Level 2 `delay_and_sum_numba` (amp) and `delay_and_sum_numba_noamp`. *)
Inductive amp_kind := AmpTxRx | AmpNone | AmpOther.
(* how the caller wrote `interpolation`: a string, or a tuple (name, args...) *)
Inductive interp_arg :=
  | IStr (name : Z)            (* 0 nearest, 1 linear, 2 lanczos, 3 anything else *)
  | ITuple (name : Z) (nargs : Z).   (* nargs in 0..2 *)
Inductive aggr_arg :=
  | AStr (name : Z)            (* 0 mean, 1 median, 2 huber, 3 anything else *)
  | ATuple (name : Z) (nargs : Z).
Inductive dtype_class := DReal | DComplex64 | DComplex128.   (* dtype_data *)

Inductive kernel :=
  | KAmpNearest | KAmpLinear
  | KNoampNearest | KNoampLinear | KNoampLanczos
  | KMedianNearest | KMedianLanczos | KHuberLanczos.

Inductive err_class :=
  | ENotImplemented        (* NotImplementedError (incl. its subclass raised as such) *)
  | ENotImplementedTyping  (* NotImplementedTyping (NotImplementedError and TypeError) *)
  | EValue                 (* ValueError *)
  | EAttribute             (* .lower() on a tuple in the amplitude wrapper *)
  | EAssertion             (* assert len(interpolation_args) == ... *)
  | EUnboundLocal          (* noamp wrapper: unknown aggregation leaves das_func unbound *)
  | EArgCount.             (* kernel called with the wrong number of positional arguments (TypeError) *)

Inductive outcome := Call (k : kernel) | Raise (e : err_class).

Definition iname (i : interp_arg) : Z := match i with IStr n => n | ITuple n _ => n end.
Definition inargs (i : interp_arg) : Z := match i with IStr _ => 0%Z | ITuple _ k => k end.
Definition aname (a : aggr_arg) : Z := match a with AStr n => n | ATuple n _ => n end.
Definition anargs (a : aggr_arg) : Z := match a with AStr _ => 0%Z | ATuple _ k => k end.

(* delay_and_sum_numba *)
Definition dispatch_amp (i : interp_arg) (a : aggr_arg) : outcome :=
  match a with
  | ATuple _ _ => Raise EAttribute                     (* aggregation.lower() *)
  | AStr an =>
      if negb (an =? 0)%Z then Raise ENotImplemented
      else match i with
           | ITuple _ _ => Raise EAttribute            (* interpolation.lower() *)
           | IStr n => if (n =? 0)%Z then Call KAmpNearest
                       else if (n =? 1)%Z then Call KAmpLinear
                       else Raise EValue
           end
  end.

(* the number of extra positional arguments the chosen kernel takes (a; a, tau) *)
Definition kernel_extra (k : kernel) : Z :=
  match k with
  | KNoampLanczos | KMedianLanczos => 1%Z
  | KHuberLanczos => 2%Z
  | _ => 0%Z
  end.

(* delay_and_sum_numba_noamp *)
Definition dispatch_noamp (i : interp_arg) (a : aggr_arg) (d : dtype_class) : outcome :=
  let n := iname i in let k := inargs i in
  let chosen :=
    if (aname a =? 0)%Z then
      if (n =? 0)%Z then (if (k =? 0)%Z then Call KNoampNearest else Raise EAssertion)
      else if (n =? 1)%Z then (if (k =? 0)%Z then Call KNoampLinear else Raise EAssertion)
      else if (n =? 2)%Z then (if (k =? 1)%Z then Call KNoampLanczos else Raise EAssertion)
      else Raise EValue
    else if (aname a =? 1)%Z then
      match d with
      | DComplex128 =>
          if (n =? 2)%Z then (if (k =? 1)%Z then Call KMedianLanczos else Raise EAssertion)
          else if (n =? 0)%Z then (if (k =? 0)%Z then Call KMedianNearest else Raise EAssertion)
          else Raise ENotImplemented
      | _ => Raise ENotImplementedTyping
      end
    else if (aname a =? 2)%Z then
      match d with
      | DComplex128 =>
          if (n =? 2)%Z then (if (k =? 1)%Z then Call KHuberLanczos else Raise EAssertion)
          else Raise ENotImplemented
      | _ => Raise ENotImplementedTyping
      end
    else Raise EUnboundLocal in
  match chosen with
  | Call kn =>
      (* das_func(wt, tx, rx, lt_tx, lt_rx, invdt, t0, fill, *interp_args, *aggr_args, result) *)
      if (inargs i + anargs a =? kernel_extra kn)%Z then Call kn else Raise EArgCount
  | r => r
  end.

(* delay_and_sum *)
Definition dispatch (am : amp_kind) (i : interp_arg) (a : aggr_arg) (d : dtype_class) : outcome :=
  match am with
  | AmpTxRx => dispatch_amp i a
  | AmpNone => dispatch_noamp i a d
  | AmpOther => Raise ENotImplemented
  end.

(* ---- what the documentation promises: the accepted combinations ---------- *)
Definition spec_kernel (am : amp_kind) (iname aname : Z) (d : dtype_class) : option kernel :=
  match am, aname, iname, d with
  | AmpTxRx, 0%Z, 0%Z, _ => Some KAmpNearest
  | AmpTxRx, 0%Z, 1%Z, _ => Some KAmpLinear
  | AmpNone, 0%Z, 0%Z, _ => Some KNoampNearest
  | AmpNone, 0%Z, 1%Z, _ => Some KNoampLinear
  | AmpNone, 0%Z, 2%Z, _ => Some KNoampLanczos
  | AmpNone, 1%Z, 0%Z, DComplex128 => Some KMedianNearest
  | AmpNone, 1%Z, 2%Z, DComplex128 => Some KMedianLanczos
  | AmpNone, 2%Z, 2%Z, DComplex128 => Some KHuberLanczos
  | _, _, _, _ => None
  end.

(* canonical way of writing a request: "nearest"/"linear", ("lanczos", a); "mean"/"median", ("huber", tau) *)
Definition canonical (i : interp_arg) (a : aggr_arg) : bool :=
  (match i with
   | IStr n => (n =? 0)%Z || (n =? 1)%Z || (n =? 3)%Z
   | ITuple n k => (n =? 2)%Z && (k =? 1)%Z
   end)
  && (match a with
      | AStr n => (n =? 0)%Z || (n =? 1)%Z || (n =? 3)%Z
      | ATuple n k => (n =? 2)%Z && (k =? 1)%Z
      end).

Definition all_amp : list amp_kind := [AmpTxRx; AmpNone; AmpOther].
Definition all_interp : list interp_arg :=
  map IStr [0; 1; 2; 3]%Z ++ flat_map (fun n => map (ITuple n) [0; 1; 2]%Z) [0; 1; 2; 3]%Z.
Definition all_aggr : list aggr_arg :=
  map AStr [0; 1; 2; 3]%Z ++ flat_map (fun n => map (ATuple n) [0; 1; 2]%Z) [0; 1; 2; 3]%Z.
Definition all_dtype : list dtype_class := [DReal; DComplex64; DComplex128].

Definition outcome_is_call (o : outcome) : option kernel := match o with Call k => Some k | Raise _ => None end.

Definition kernel_eqb (a b : kernel) : bool :=
  match a, b with
  | KAmpNearest, KAmpNearest | KAmpLinear, KAmpLinear | KNoampNearest, KNoampNearest
  | KNoampLinear, KNoampLinear | KNoampLanczos, KNoampLanczos | KMedianNearest, KMedianNearest
  | KMedianLanczos, KMedianLanczos | KHuberLanczos, KHuberLanczos => true
  | _, _ => false
  end.

Definition okernel_eqb (a b : option kernel) : bool :=
  match a, b with
  | None, None => true
  | Some x, Some y => kernel_eqb x y
  | _, _ => false
  end.

(* Z-facing wrappers for the generated correspondence files *)
Definition amp_of_Z (z : Z) : amp_kind := if (z =? 0)%Z then AmpTxRx else if (z =? 1)%Z then AmpNone else AmpOther.
Definition interp_of_Z (tuple : bool) (n k : Z) : interp_arg := if tuple then ITuple n k else IStr n.
Definition aggr_of_Z (tuple : bool) (n k : Z) : aggr_arg := if tuple then ATuple n k else AStr n.
Definition dtype_of_Z (z : Z) : dtype_class := if (z =? 0)%Z then DReal else if (z =? 1)%Z then DComplex64 else DComplex128.
Definition kernel_code (k : kernel) : Z :=
  match k with
  | KAmpNearest => 0 | KAmpLinear => 1 | KNoampNearest => 2 | KNoampLinear => 3 | KNoampLanczos => 4
  | KMedianNearest => 5 | KMedianLanczos => 6 | KHuberLanczos => 7
  end%Z.
Definition err_code (e : err_class) : Z :=
  match e with
  | ENotImplemented => 100 | ENotImplementedTyping => 101 | EValue => 102 | EAttribute => 103
  | EAssertion => 104 | EUnboundLocal => 105 | EArgCount => 106
  end%Z.
Definition outcome_code (o : outcome) : Z := match o with Call k => kernel_code k | Raise e => err_code e end.

(* ==========================================================================
   Float-facing wrappers used by the generated correspondence files (the model
   evaluated on binary64 by vm_compute inside coqc).  A case = one frame + one
   focal law + the implementation's images for several (kernel, fill, weights)
   requests.  Values are pairs (re, im); for real data only `re` is used and the
   real instance DataReal is run.  No theorem mentions this part. *)
From Coq Require Import PrimFloat.
From Arim Require Import Base.NumF.

Record frun := mkFRun {
  fr_kernel : Z;              (* kernel_code *)
  fr_a : Z;                   (* lanczos a *)
  fr_fill : float * float;
  fr_use_w : bool;            (* timetrace_weights given? *)
  fr_res : list (float * float);   (* the implementation's image *)
  fr_atol : float }.          (* 0 = exact *)

Record fcase := mkFCase {
  fc_cplx : bool; fc_ns : Z; fc_dt : float; fc_t0 : float;
  fc_w : list float;
  fc_scans : list (Z * Z * list (float * float));
  fc_rows : list (list float * list float * list (float * float) * list (float * float));
  fc_runs : list frun }.

Definition fabs_diff_le (atol a b : float) : bool :=
  if (is_nan a || is_nan b)%bool then (is_nan a && is_nan b)%bool
  else (eqb a b || leb (abs (sub a b)) atol)%bool.

(* complex values: a NaN in any component makes the value "NaN" (numba's complex
   division by numtimetraces spreads a NaN real part to the imaginary part) *)
Definition cclose (atol : float) (a b : float * float) : bool :=
  let nan_a := (is_nan (fst a) || is_nan (snd a))%bool in
  let nan_b := (is_nan (fst b) || is_nan (snd b))%bool in
  if (nan_a || nan_b)%bool then (nan_a && nan_b)%bool
  else (fabs_diff_le atol (fst a) (fst b) && fabs_diff_le atol (snd a) (snd b))%bool.

Fixpoint list_all2 {A B} (f : A -> B -> bool) (l1 : list A) (l2 : list B) : bool :=
  match l1, l2 with
  | [], [] => true
  | x :: l1, y :: l2 => (f x y && list_all2 f l1 l2)%bool
  | _, _ => false
  end.

Section FExec.
  Context {D : Type} (V : Data float D) (inj : float * float -> D) (proj : D -> float * float).

  Definition f_scans (c : fcase) : list (scan D) :=
    map (fun s => mkScan (Z.to_nat (fst (fst s))) (Z.to_nat (snd (fst s))) (map inj (snd s))) (fc_scans c).
  Definition f_rows (c : fcase) : list (prow float D) :=
    map (fun r => match r with (ltx, lrx, atx, arx) => mkRow ltx lrx (map inj atx) (map inj arx) end) (fc_rows c).

  Definition f_image (c : fcase) (r : frun) : option (list D) :=
    let w := if fr_use_w r then Some (fc_w c) else None in
    let k := fr_kernel r in
    if (k =? 0)%Z then das_amp NumF V Nearest (fc_ns c) (fc_dt c) (fc_t0 c) (inj (fr_fill r)) w (f_rows c) (f_scans c)
    else if (k =? 1)%Z then das_amp NumF V Linear (fc_ns c) (fc_dt c) (fc_t0 c) (inj (fr_fill r)) w (f_rows c) (f_scans c)
    else if (k =? 2)%Z then das_noamp NumF V Nearest (fc_ns c) (fc_dt c) (fc_t0 c) (inj (fr_fill r)) w (f_rows c) (f_scans c)
    else if (k =? 3)%Z then das_noamp NumF V Linear (fc_ns c) (fc_dt c) (fc_t0 c) (inj (fr_fill r)) w (f_rows c) (f_scans c)
    else None.

  Definition f_check_run (c : fcase) (r : frun) : bool :=
    match f_image c r with
    | Some img => list_all2 (fun m i => cclose (fr_atol r) (proj m) i) img (fr_res r)
    | None => false
    end.
End FExec.

Definition f_check (c : fcase) : bool :=
  if fc_cplx c
  then forallb (f_check_run (DataCplx NumF) (fun v => v) (fun v => v) c) (fc_runs c)
  else forallb (f_check_run (DataReal NumF) fst (fun v => (v, zero)) c) (fc_runs c).

(* indices of the runs of a case that disagree (diagnostics) *)
Definition f_bad_runs (c : fcase) : list Z :=
  let chk := if fc_cplx c then f_check_run (DataCplx NumF) (fun v => v) (fun v => v) c
             else f_check_run (DataReal NumF) fst (fun v => (v, zero)) c in
  let fix go (i : Z) (l : list frun) : list Z :=
    match l with [] => [] | r :: l => if chk r then go (i + 1)%Z l else i :: go (i + 1)%Z l end in
  go 0%Z (fc_runs c).

(* the SPEC evaluated on binary64 (failing-input search: is the implementation's
   output outside das_spec on this very input?) *)
Section FSpec.
  Context {D : Type} (V : Data float D) (inj : float * float -> D) (proj : D -> float * float).
  Definition f_spec_image (c : fcase) (r : frun) : list D :=
    let w := if fr_use_w r then Some (fc_w c) else None in
    let k := fr_kernel r in
    let sc := if ((k =? 0) || (k =? 2) || (k =? 5))%Z then Nearest
              else if ((k =? 1) || (k =? 3))%Z then Linear else Lanczos (fr_a r) in
    das_spec NumF V sc (k <? 2)%Z (fc_ns c) (fc_dt c) (fc_t0 c) (inj (fr_fill r)) w
             (f_rows inj c) (f_scans inj c).
  Definition f_spec_check_run (c : fcase) (r : frun) : bool :=
    list_all2 (fun m i => cclose (fr_atol r) (proj m) i) (f_spec_image c r) (fr_res r).
End FSpec.

Definition f_spec_bad_runs (c : fcase) : list Z :=
  let chk := if fc_cplx c then f_spec_check_run (DataCplx NumF) (fun v => v) (fun v => v) c
             else f_spec_check_run (DataReal NumF) fst (fun v => (v, zero)) c in
  let fix go (i : Z) (l : list frun) : list Z :=
    match l with [] => [] | r :: l => if chk r then go (i + 1)%Z l else i :: go (i + 1)%Z l end in
  go 0%Z (fc_runs c).
