(* Model/Synthesis.v — the glue of the time-domain synthesis (C11) that Model/Signal.v
   leaves out.  Signal.v gives the toneburst SAMPLE formula, the weight formula of
   rfft_to_hilbert, the delay split and the placement of ONE response.  This file
   mirrors, statement for statement, the functions AROUND those cores:

     arim.model.make_toneburst      (model.py:32-109)   the four argument checks in their
                                    order, num_samples None / given, "time vector is too
                                    short", the array zeros(num_samples) with the pulse
                                    written at [:len_pulse], wrap=True through
                                    _rotate_array (model.py:112-120, two Python slices),
                                    analytical=True (exp(2j*pi*dt*f*(t-h)) * window)
     arim.model.make_toneburst2     (model.py:123-184)  n, m, p, toneburst_len,
                                    use_fast_len / scipy.fftpack.next_fast_len,
                                    zeros + toneburst[m:m+n] = signal (numpy slice
                                    assignment, negative bounds wrap), t0_idx, Time(...)
     scipy.fftpack.next_fast_len    smallest 5-smooth number >= target (0 -> 0)
     arim.signal.rfft_to_hilbert    (signal.py:316-361) the table h built by the
                                    assignments h[0] = h[n//2] = 1, h[1:n//2] = 2 (even n) /
                                    h[0] = 1, h[1:(n+1)//2] = 2 (odd n) on zeros(xf.shape[axis])
                                    (IndexError when the table is too short), n-dimensional
                                    input, any (negative) axis, h broadcast along that axis,
                                    scipy.fftpack.ifft(h*xf, n, axis): zero padding / truncation;
                                    0-d input (h = 1.0): ValueError for n < 1, else IndexError
     arim.signal.timeshift_spectra  (signal.py:364-425) dispatcher: one frequency in the
                                    transfer function -> broadcast, else frequency by frequency
     arim.model.transfer_func_to_timetraces / _timeshift_timedomain (model.py:1660-1748)
                                    2-D/3-D input, the two assertions, NotImplementedError,
                                    timetraces None / given, time origin, remainder, spectral
                                    shift, product with the toneburst spectrum (numpy
                                    broadcasting), analytic response, the loop over scatterers
                                    and timetraces with out[idx, q-t0 : q-t0+n] += response.

   Complex numbers are pairs (re, im) over a Num instance; over NumR they ARE
   Coquelicot's C.  The one-dimensional inverse FFT (scipy.fftpack.ifft, an oracle) is a
   function argument `ifft1 X n j`; the theorems instantiate it with Model/Dft.idft.
   Definitions only; everything except ifft1/trigonometry is executable by vm_compute. *)
From Coq Require Import ZArith List Bool.
From Arim Require Import Base.Num Model.Signal.
Import ListNotations.
Local Open Scope Z_scope.

(* ---- Python lists / numpy 1-D arrays ------------------------------------------- *)
Definition tabulate {A} (len : nat) (f : nat -> A) : list A := map f (seq 0 len).

(* x[i]: negative i counts from the end; None = IndexError *)
Definition py_index (len i : Z) : option nat :=
  if (- len <=? i) && (i <? len) then Some (Z.to_nat (if i <? 0 then i + len else i)) else None.

(* a slice bound: negative counts from the end, then clipped to [0, len] (never an error) *)
Definition py_bound (len i : Z) : Z := Z.max 0 (Z.min len (if i <? 0 then i + len else i)).

(* l[i] = v *)
Definition set_index {A} (l : list A) (i : Z) (v : A) : option (list A) :=
  match py_index (Z.of_nat (length l)) i with
  | Some k => Some (tabulate (length l) (fun j => if (j =? k)%nat then v else nth j l v))
  | None => None
  end.

(* l[a:b] = v for a scalar v *)
Definition fill_slice {A} (l : list A) (a b : Z) (v : A) : list A :=
  let L := Z.of_nat (length l) in
  let a' := py_bound L a in let b' := py_bound L b in
  tabulate (length l) (fun j => if (a' <=? Z.of_nat j) && (Z.of_nat j <? b') then v else nth j l v).

(* l[a:b] = vals for a 1-D array vals: the lengths must agree, or vals has ONE element
   (numpy broadcasting); None = ValueError "could not broadcast input array" *)
Definition set_slice {A} (d : A) (l : list A) (a b : Z) (vals : list A) : option (list A) :=
  let L := Z.of_nat (length l) in
  let a' := py_bound L a in let b' := py_bound L b in
  let s := Z.max 0 (b' - a') in
  if Z.of_nat (length vals) =? s then
    Some (tabulate (length l) (fun j => if (a' <=? Z.of_nat j) && (Z.of_nat j <? b')
                                      then nth (Z.to_nat (Z.of_nat j - a')) vals d else nth j l d))
  else if (length vals =? 1)%nat then Some (fill_slice l a b (hd d vals))
  else None.

(* l[n:] and l[:n] *)
Definition slice_from {A} (l : list A) (n : Z) : list A := skipn (Z.to_nat (py_bound (Z.of_nat (length l)) n)) l.
Definition slice_to {A} (l : list A) (n : Z) : list A := firstn (Z.to_nat (py_bound (Z.of_nat (length l)) n)) l.

(* _rotate_array(arr, n) = np.concatenate([arr[n:], arr[:n]]) *)
Definition rotate_array {A} (arr : list A) (n : Z) : list A := slice_from arr n ++ slice_to arr n.

(* ---- scipy.fftpack.next_fast_len ------------------------------------------------- *)
Fixpoint strip_factor (fuel : nat) (p n : Z) : Z :=
  match fuel with
  | O => n
  | S f => if n mod p =? 0 then strip_factor f p (n / p) else n
  end.

(* n = 2^a 3^b 5^c *)
Definition is_5smooth (n : Z) : bool :=
  (0 <? n) &&
  (let fuel := S (Z.to_nat (Z.log2 n)) in
   strip_factor fuel 5 (strip_factor fuel 3 (strip_factor fuel 2 n)) =? 1).

Fixpoint search_smooth (fuel : nat) (m : Z) : Z :=
  match fuel with
  | O => m
  | S f => if is_5smooth m then m else search_smooth f (m + 1)
  end.

(* None = ValueError("Target length must be positive") for a negative target; 0 -> 0 *)
Definition next_fast_len (target : Z) : option Z :=
  if target <? 0 then None
  else if target =? 0 then Some 0
  else Some (search_smooth (Z.to_nat target) target).

Section Synthesis.
  Context {T : Type} (N : Num T).
  Local Notation "a + b" := (nadd N a b) : num_scope.
  Local Notation "a - b" := (nsub N a b) : num_scope.
  Local Notation "a * b" := (nmul N a b) : num_scope.
  Local Notation "a / b" := (ndiv N a b) : num_scope.

  (* ---- complex numbers as pairs ---------------------------------------------------- *)
  Definition cx : Type := (T * T)%type.
  Definition c0 : cx := (n0 N, n0 N).
  Definition cadd (a b : cx) : cx := ((fst a + fst b)%num, (snd a + snd b)%num).
  Definition cmul (a b : cx) : cx :=
    ((fst a * fst b - snd a * snd b)%num, (fst a * snd b + snd a * fst b)%num).
  (* float * complex *)
  Definition cscale (r : T) (a : cx) : cx := ((r * fst a)%num, (r * snd a)%num).
  (* exp(1j*th) *)
  Definition cexpi (th : T) : cx := (ncos N th, nsin N th).

  (* ---- make_toneburst ---------------------------------------------------------------- *)
  Inductive tb_error :=
  | TbNegStep        (* ValueError("negative time step") *)
  | TbNegFreq        (* ValueError("negative centre frequency") *)
  | TbNegCycles      (* ValueError("negative number of cycles") *)
  | TbNegSamples     (* ValueError("negative number of time samples") *)
  | TbTooShort       (* ValueError("time vector is too short for this pulse") *)
  | TbBroadcast.     (* full_toneburst[:len_pulse] = toneburst would not fit: proved unreachable *)

  (* the argument of cos / exp: 2*pi*dt*centre_freq*(t - half_len_window), as in Signal.carrier *)
  Definition tb_phase (f dt : T) (h k : Z) : T :=
    (nofZ N 2 * npi N * dt * f * nofZ N (k - h))%num.

  (* sig[k] * window[k]; the real toneburst is stored with imaginary part 0 (dtype float64) *)
  Definition tb_sample (analytical : bool) (f dt : T) (M h : Z) (k : Z) : cx :=
    let w := hanning N M k in
    if analytical then cscale w (cexpi (tb_phase f dt h k))
    else ((ncos N (tb_phase f dt h k) * w)%num, n0 N).

  Definition zrange (n : Z) : list Z := map Z.of_nat (seq 0 (Z.to_nat n)).

  Definition make_toneburst (cycles f dt : T) (num_samples : option Z) (wrap analytical : bool)
    : tb_error + list cx :=
    if nleb N dt (n0 N) then inl TbNegStep else
    if nleb N f (n0 N) then inl TbNegFreq else
    if nleb N cycles (n0 N) then inl TbNegCycles else
    if (match num_samples with Some ns => ns <=? 0 | None => false end) then inl TbNegSamples else
    let len_pulse := pulse_len N cycles f dt in
    let half_len_window := len_pulse / 2 in
    let ns := match num_samples with None => len_pulse | Some ns => ns end in
    if ns <? len_pulse then inl TbTooShort else
    let toneburst := map (tb_sample analytical f dt len_pulse half_len_window) (zrange len_pulse) in
    match set_slice c0 (repeat c0 (Z.to_nat ns)) 0 len_pulse toneburst with
    | None => inl TbBroadcast
    | Some full_toneburst =>
        inr (if wrap then rotate_array full_toneburst half_len_window else full_toneburst)
    end.

  (* ---- make_toneburst2 ---------------------------------------------------------------- *)
  Record toneburst2 := mkTb2 {
    tb2_start : T;          (* toneburst_time.start = -t0_idx * dt *)
    tb2_step : T;
    tb2_samples : list cx;  (* len(toneburst_time) = len(toneburst) = length tb2_samples *)
    tb2_t0 : Z }.

  Inductive tb2_error :=
  | Tb2Toneburst (e : tb_error)   (* raised by make_toneburst *)
  | Tb2FastLen                    (* next_fast_len of a negative length *)
  | Tb2Zeros                      (* np.zeros of a negative length *)
  | Tb2Broadcast.                 (* toneburst[m:m+n] = signal does not fit *)

  (* nfl = scipy.fftpack.next_fast_len (see next_fast_len above; any function for the theorems) *)
  Definition make_toneburst2 (nfl : Z -> option Z) (cycles f dt : T) (num_before num_after : Z)
      (analytical use_fast_len : bool) : tb2_error + toneburst2 :=
    match make_toneburst cycles f dt None false analytical with
    | inl e => inl (Tb2Toneburst e)
    | inr signal =>
        let n := Z.of_nat (length signal) in
        let m := num_before * n in
        let p := num_after * n in
        let toneburst_len := m + n + p in
        match (if use_fast_len then nfl toneburst_len else Some toneburst_len) with
        | None => inl Tb2FastLen
        | Some toneburst_len =>
            if toneburst_len <? 0 then inl Tb2Zeros else
            match set_slice c0 (repeat c0 (Z.to_nat toneburst_len)) m (m + n) signal with
            | None => inl Tb2Broadcast
            | Some toneburst =>
                let t0_idx := m + n / 2 in
                inr (mkTb2 (nofZ N (- t0_idx) * dt)%num dt toneburst t0_idx)
            end
        end
    end.

  (* ---- rfft_to_hilbert ---------------------------------------------------------------- *)
  (* the table h; None = IndexError (h[0] on an empty table, h[n//2] beyond its end) *)
  Definition hilbert_table (n : Z) (numfreq : nat) : option (list Z) :=
    let h := repeat 0 numfreq in
    if n mod 2 =? 0 then
      match set_index h 0 1 with
      | None => None
      | Some h1 =>
          match set_index h1 (n / 2) 1 with
          | None => None
          | Some h2 => Some (fill_slice h2 1 (n / 2) 2)
          end
      end
    else
      match set_index h 0 1 with
      | None => None
      | Some h1 => Some (fill_slice h1 1 ((n + 1) / 2) 2)
      end.

  (* idx with coordinate ax replaced by k *)
  Definition upd_nth {A} (l : list A) (ax : nat) (v : A) : list A :=
    tabulate (length l) (fun j => if (j =? ax)%nat then v else nth j l v).

  Inductive h_error :=
  | HIndexError    (* 0-d input with n >= 1, axis out of range, table too short *)
  | HValueError.   (* scipy.fftpack.ifft: invalid number of data points (n < 1); for a 0-d input this
                      comes BEFORE the IndexError, for an n-d input after the axis and table lookups *)

  Section WithIfft.
    (* ifft1 X n j = scipy.fftpack.ifft(X[0:n], n)[j]  (an oracle; Dft.idft in the theorems) *)
    Variable ifft1 : (nat -> cx) -> nat -> Z -> cx.

    (* an n-dimensional array = its shape and its entries by multi-index *)
    Definition rfft_to_hilbert (shape : list nat) (xf : list nat -> cx) (n axis : Z)
      : h_error + (list nat * (list nat -> cx)) :=
      match shape with
      | [] =>
          (* xf.ndim == 0: h = 1.0 (no table, xf.shape[axis] is never evaluated), then
             scipy.fftpack.ifft(h * xf, n, axis) of a 0-d array: scipy checks n FIRST
             (ValueError "invalid number of data points (n) specified" for n < 1, any axis) and
             only then looks up the axis in the empty shape (IndexError "tuple index out of
             range", any axis) *)
          if n <? 1 then inl HValueError else inl HIndexError
      | _ =>
          match py_index (Z.of_nat (length shape)) axis with
          | None => inl HIndexError                 (* xf.shape[axis] *)
          | Some ax =>
              let numfreq := nth ax shape O in
              match hilbert_table n numfreq with
              | None => inl HIndexError
              | Some h =>
                  if n <? 1 then inl HValueError else
                  inr (upd_nth shape ax (Z.to_nat n),
                       fun idx =>
                         ifft1 (fun k => if (k <? numfreq)%nat
                                         then cscale (nofZ N (nth k h 0)) (xf (upd_nth idx ax k))
                                         else c0 (* zero padding *))
                               (Z.to_nat n) (Z.of_nat (nth ax idx O)))
              end
          end
      end.

    (* ---- timeshift_spectra -------------------------------------------------------------- *)
    (* cmath.exp(-2j * np.pi * freq * delay) *)
    Definition phase_factor (fr delay : T) : cx :=
      cexpi (nofZ N (-2) * npi N * fr * delay)%num.

    (* unshifted_x of shape (numscat, numtt, num_x_freq), delays of shape (numscat, numtt),
       len(freq_array) entries out per delay; num_x_freq == 1: _timeshift_spectra_singlef on
       unshifted_x[..., 0], else _timeshift_spectra_multif;
       None = ValueError (core dimension mismatch of the gufunc) *)
    Definition timeshift_spectra (num_x_freq : nat) (x : nat -> nat -> nat -> cx)
        (delays : nat -> nat -> T) (freqs : list T) : option (nat -> nat -> nat -> cx) :=
      if (num_x_freq =? 1)%nat
      then Some (fun s t k => cmul (phase_factor (nth k freqs (n0 N)) (delays s t)) (x s t O))
      else if (num_x_freq =? length freqs)%nat
      then Some (fun s t k => cmul (phase_factor (nth k freqs (n0 N)) (delays s t)) (x s t k))
      else None.

    (* ---- _timeshift_timedomain ------------------------------------------------------------ *)
    (* out[q - t0 : q - t0 + n] += resp, when the slice lies inside the row *)
    Definition placec_fn (resp : Z -> cx) (n q t0 : Z) (out : Z -> cx) : Z -> cx :=
      fun j => if (q - t0 <=? j) && (j <? q - t0 + n) then cadd (out j) (resp (j - (q - t0))) else out j.

    Definition placec (resp : Z -> cx) (n q t0 len : Z) (out : Z -> cx) : option (Z -> cx) :=
      if place_ok q t0 n len then Some (placec_fn resp n q t0 out) else None.

    (* the prange over the rows: every row gets its own delay; None = some response does not
       lie inside its row (outside the domain of the property, see Signal.place) *)
    Definition timeshift_timedomain (numtt : nat) (resp : nat -> Z -> cx) (n : Z) (delays : nat -> T)
        (dt : T) (t0 len : Z) (out : nat -> Z -> cx) : option (nat -> Z -> cx) :=
      if forallb (fun idx => place_ok (delay_idx N (delays idx) dt) t0 n len) (seq 0 numtt)
      then Some (fun idx => if (idx <? numtt)%nat
                            then placec_fn (resp idx) n (delay_idx N (delays idx) dt) t0 (out idx)
                            else out idx)
      else None.

    (* ---- transfer_func_to_timetraces ------------------------------------------------------ *)
    Record time_axis := mkTime { t_start : T; t_step : T; t_len : Z }.

    Inductive tf_input :=
    | TF2 (numtt num_x_freq : nat) (H : nat -> nat -> cx)              (* ndim == 2 *)
    | TF3 (numscat numtt num_x_freq : nat) (H : nat -> nat -> nat -> cx)
    | TFother.                                                         (* any other ndim *)

    Inductive delays_input :=
    | D1 (numtt : nat) (d : nat -> T)                                  (* ndim == 1 *)
    | D2 (numscat numtt : nat) (d : nat -> nat -> T)
    | Dother.                                                          (* any other ndim *)

    Inductive tf_error :=
    | TfUnpack          (* ValueError: numscatterers, numtimetraces, _ = shape *)
    | TfAssertShape     (* assert delays.shape == (numscatterers, numtimetraces) *)
    | TfNotImplemented  (* timetraces_time.step != toneburst_time.step *)
    | TfAssertNegative  (* assert np.all(delays >= 0.0) *)
    | TfFreqMismatch    (* timeshift_spectra: ValueError *)
    | TfBroadcast       (* frac_shifted_transfer_func * toneburst_f: ValueError *)
    | TfHilbert (e : h_error)
    | TfOutside.        (* a response does not lie inside the window: outside the property *)

    (* numpy broadcasting of the last axis: (.., a) * (b,) *)
    Definition bcast_len (a b : nat) : option nat :=
      if (a =? b)%nat then Some a else if (a =? 1)%nat then Some b else if (b =? 1)%nat then Some a else None.
    Definition bcast_idx (a k : nat) : nat := if (a =? 1)%nat then O else k.

    Fixpoint scat_loop (scats : list nat) (numtt : nat) (resp : nat -> nat -> Z -> cx) (n : Z)
        (delays : nat -> nat -> T) (dt : T) (t0 len : Z) (out : nat -> Z -> cx)
      : option (nat -> Z -> cx) :=
      match scats with
      | [] => Some out
      | s :: rest =>
          match timeshift_timedomain numtt (resp s) n (delays s) dt t0 len out with
          | None => None
          | Some out' => scat_loop rest numtt resp n delays dt t0 len out'
          end
      end.

    (* returns (numtimetraces, len(timetraces_time), timetraces) *)
    Definition transfer_func_to_timetraces (Hin : tf_input) (din : delays_input)
        (timetraces_time toneburst_time : time_axis) (toneburst_freq : list T) (toneburst_f : list cx)
        (t0_idx : Z) (timetraces : option (nat -> Z -> cx))
      : tf_error + (nat * Z * (nat -> Z -> cx)) :=
      match (match Hin with
             | TF2 nt nf H => Some (1%nat, nt, nf, fun _ : nat => H)
             | TF3 ns nt nf H => Some (ns, nt, nf, H)
             | TFother => None
             end) with
      | None => inl TfUnpack
      | Some (numscat, numtt, num_x_freq, H) =>
      match (match din with
             | D1 nt d => Some (1%nat, nt, fun _ : nat => d)
             | D2 ns nt d => Some (ns, nt, d)
             | Dother => None
             end) with
      | None => inl TfAssertShape
      | Some (dscat, dtt, d) =>
      if negb ((dscat =? numscat)%nat && (dtt =? numtt)%nat) then inl TfAssertShape else
      if negb (neqb N (t_step timetraces_time) (t_step toneburst_time)) then inl TfNotImplemented else
      let dt := t_step timetraces_time in
      let out0 := match timetraces with
                  | None => fun (_ : nat) (_ : Z) => c0
                  | Some o => o
                  end in
      let delays := fun s t => (d s t - t_start timetraces_time)%num in
      if negb (forallb (fun s => forallb (fun t => nleb N (n0 N) (delays s t)) (seq 0 numtt)) (seq 0 numscat))
      then inl TfAssertNegative else
      let delays_remainder := fun s t => delay_rem N (delays s t) dt in
      let numfreq := length toneburst_freq in
      match timeshift_spectra num_x_freq H delays_remainder toneburst_freq with
      | None => inl TfFreqMismatch
      | Some shifted =>
      match bcast_len numfreq (length toneburst_f) with
      | None => inl TfBroadcast
      | Some nprod =>
      let prod := fun idx : list nat =>
        let s := nth 0 idx O in let t := nth 1 idx O in let k := nth 2 idx O in
        cmul (shifted s t (bcast_idx numfreq k)) (nth (bcast_idx (length toneburst_f) k) toneburst_f c0) in
      match rfft_to_hilbert [numscat; numtt; nprod] prod (t_len toneburst_time) (-1) with
      | inl e => inl (TfHilbert e)
      | inr (rshape, response) =>
      let resp := fun s t j => response [s; t; Z.to_nat j] in
      let n := Z.of_nat (nth 2 rshape O) in        (* unshifted_response.shape[1] of each block *)
      match scat_loop (seq 0 numscat) numtt resp n delays dt t0_idx
                      (t_len timetraces_time) out0 with
      | None => inl TfOutside
      | Some out => inr (numtt, t_len timetraces_time, out)
      end end end end end end.
  End WithIfft.
End Synthesis.
