(* Model/Frame.v — frame / probe bookkeeping of arim (C15; fmc/hmc reused by C12).

   Mirrors (definitions only; lemmas are in Proofs/FrameProofs.v):
     arim.ut.fmc, arim.ut.hmc, arim.ut.infer_capture_method,
     arim.ut.default_timetrace_weights,
     arim.core.Frame.__init__ (duplicate check), get_timetrace, apply_filter,
       expand_frame_assuming_reciprocity, is_complete_assuming_reciprocity,
       subframe, subframe_from_probe_elements,
     arim.core.Probe.subprobe.

   A frame is the list of its timetraces (tx, rx, payload), in storage order;
   the payload stands for the row of samples.  A probe is the list of its
   per-element attributes (location, orientation, dimension, shape, dead flag —
   one abstract value per element).  Every operation that can raise in Python
   returns `option` (None = the exception).  numpy index expressions are
   normalised by the harness to the list arange(n)[idx]; `resolve_index` below
   models the wrap-around of negative integers in integer-list indices. *)
From Coq Require Import Arith List Bool.
Import ListNotations.

(* ---- element pairs --------------------------------------------------- *)
Definition pair_eqb (a b : nat * nat) : bool := (fst a =? fst b) && (snd a =? snd b).
Definition swap (p : nat * nat) : nat * nat := (snd p, fst p).
Definition memp (p : nat * nat) (l : list (nat * nat)) : bool := existsb (pair_eqb p) l.

(* Python tuple order *)
Definition pair_ltb (a b : nat * nat) : bool :=
  (fst a <? fst b) || ((fst a =? fst b) && (snd a <? snd b)).

(* ---- ut.fmc ----------------------------------------------------------
   tx = np.repeat(elements, n) ; rx = np.tile(elements, n) *)
Definition fmc_tx (n : nat) : list nat := flat_map (fun i => repeat i n) (seq 0 n).
Definition fmc_rx (n : nat) : list nat := concat (repeat (seq 0 n) n).
Definition fmc (n : nat) : list (nat * nat) := combine (fmc_tx n) (fmc_rx n).

(* ---- ut.hmc ----------------------------------------------------------
   tx = np.repeat(elements, range(n, 0, -1))
   rx : for k in arange(n, 0, -1): rx[start:start+k] = elements[-k:] *)
Definition countdown (n : nat) : list nat := rev (seq 1 n).            (* n, n-1, ..., 1 *)
Definition lastn {A} (k : nat) (l : list A) : list A := skipn (length l - k) l.   (* l[-k:], k >= 1 *)
Definition hmc_tx (n : nat) : list nat :=
  flat_map (fun ec => repeat (fst ec) (snd ec)) (combine (seq 0 n) (countdown n)).
Definition hmc_rx (n : nat) : list nat := flat_map (fun k => lastn k (seq 0 n)) (countdown n).
Definition hmc (n : nat) : list (nat * nat) := combine (hmc_tx n) (hmc_rx n).

(* ---- Python sets of pairs ------------------------------------------- *)
Definition subsetb (l1 l2 : list (nat * nat)) : bool := forallb (fun p => memp p l2) l1.
Definition set_eqb (l1 l2 : list (nat * nat)) : bool := subsetb l1 l2 && subsetb l2 l1.

(* len(set(l)) < len(l), i.e. some pair occurs twice *)
Fixpoint nodupb (l : list (nat * nat)) : bool :=
  match l with
  | [] => true
  | x :: l' => negb (memp x l') && nodupb l'
  end.

(* sorted(set(l)) : insertion into a strictly increasing list *)
Fixpoint insert_u (p : nat * nat) (l : list (nat * nat)) : list (nat * nat) :=
  match l with
  | [] => [p]
  | q :: l' => if pair_ltb p q then p :: l else if pair_eqb p q then l else q :: insert_u p l'
  end.
Definition sorted_set (l : list (nat * nat)) : list (nat * nat) := fold_right insert_u [] l.

(* ---- ut.infer_capture_method ---------------------------------------- *)
Inductive capture := Hmc | Fmc | Unsupported.
Definition capture_eqb (a b : capture) : bool :=
  match a, b with Hmc, Hmc | Fmc, Fmc | Unsupported, Unsupported => true | _, _ => false end.

Definition list_max0 (l : list nat) : nat := fold_right Nat.max 0 l.

(* None: np.max of an empty array raises ValueError.  The argument is zip(tx, rx). *)
Definition infer_capture_method (l : list (nat * nat)) : option capture :=
  match l with
  | [] => None
  | _ =>
    let n := Nat.max (list_max0 (map fst l)) (list_max0 (map snd l)) + 1 in
    let h := hmc n in
    if (length h =? length l) && (set_eqb l h || set_eqb l (map swap h)) then Some Hmc
    else
      let f := fmc n in
      if (length f =? length l) && set_eqb l f then Some Fmc else Some Unsupported
  end.

(* ---- ut.default_timetrace_weights ------------------------------------ *)
Definition default_timetrace_weights (l : list (nat * nat)) : list nat :=
  map (fun p => if memp (swap p) l then 1 else 2) l.
(* with the length check of the public function (ValueError) *)
Definition default_timetrace_weights_txrx (tx rx : list nat) : option (list nat) :=
  if length tx =? length rx then Some (default_timetrace_weights (combine tx rx)) else None.

Fixpoint mapM {A B} (g : A -> option B) (l : list A) : option (list B) :=
  match l with
  | [] => Some []
  | x :: l' => match g x, mapM g l' with
               | Some y, Some r => Some (y :: r)
               | _, _ => None
               end
  end.

(* ---- frames ----------------------------------------------------------- *)
Section FrameOps.
  Variable P : Type.                      (* payload: the row of samples *)
  Definition entry := (nat * nat * P)%type.
  Definition frame := list entry.
  Definition key (e : entry) : nat * nat := fst e.
  Definition payload (e : entry) : P := snd e.
  Definition keys (f : frame) : list (nat * nat) := map key f.

  (* Frame.__init__: ValueError("The frame contains duplicate timetraces") *)
  Definition mk_frame (f : frame) : option frame := if nodupb (keys f) then Some f else None.

  (* Frame.get_timetrace: exactly one matching row, else IndexError *)
  Definition get_timetrace (f : frame) (t r : nat) : option P :=
    match filter (fun e => pair_eqb (key e) (t, r)) f with
    | [e] => Some (payload e)
    | _ => None
    end.

  (* Frame.apply_filter: filt acts on the rows, tx/rx are passed on, constructor again *)
  Definition apply_filter (g : P -> P) (f : frame) : option frame :=
    mk_frame (map (fun e => (key e, g (payload e))) f).

  Definition is_complete (f : frame) : bool := set_eqb (keys f) (map swap (keys f)).

  (* pair_to_scan_idx = {(tx, rx): i for i, ...}: a later row overrides an earlier one *)
  Definition lookup_last (f : frame) (k : nat * nat) : option P :=
    fold_left (fun acc e => if pair_eqb (key e) k then Some (payload e) else acc) f None.

  (* try pair_to_scan_idx[tx, rx] except KeyError: pair_to_scan_idx[rx, tx] *)
  Definition expand_entry (f : frame) (k : nat * nat) : option entry :=
    match lookup_last f k with
    | Some p => Some (k, p)
    | None => match lookup_last f (swap k) with
              | Some p => Some (k, p)
              | None => None                      (* KeyError *)
              end
    end.

  Definition expand (f : frame) : option frame :=
    if is_complete f then Some f
    else match mapM (expand_entry f) (sorted_set (keys f ++ map swap (keys f))) with
         | Some g => mk_frame g
         | None => None
         end.

  (* Frame.subframe with the index normalised to arange(numtimetraces)[idx];
     an index out of range is IndexError; then the constructor *)
  Definition subframe (f : frame) (idx : list nat) : option frame :=
    match mapM (nth_error f) idx with
    | Some g => mk_frame g
    | None => None
    end.

  (* np.isin *)
  Definition isin (x : nat) (E : list nat) : bool := existsb (Nat.eqb x) E.
  Definition retained (E : list nat) (e : entry) : bool :=
    isin (fst (key e)) E && isin (snd (key e)) E.

  (* m[i] = v *)
  Fixpoint set_nth (m : list nat) (i v : nat) : list nat :=
    match m, i with
    | [], _ => []
    | _ :: m', 0 => v :: m'
    | x :: m', S i' => x :: set_nth m' i' v
    end.

  (* mapper = zeros(numelements); mapper[E] = arange(len(E))  (a repeated element: the
     last assignment wins) *)
  Definition mapper (numel : nat) (E : list nat) : list nat :=
    fold_left (fun m ke => set_nth m (snd ke) (fst ke)) (combine (seq 0 (length E)) E) (repeat 0 numel).

  Definition remap (m : list nat) (e : entry) : option entry :=
    match nth_error m (fst (key e)), nth_error m (snd (key e)) with
    | Some a, Some b => Some (a, b, payload e)
    | _, _ => None
    end.

  Section Probe.
    Variable L : Type.                    (* what is known of one element *)
    Definition probe := list L.

    (* Probe.subprobe: every per-element array indexed by elements_idx *)
    Definition subprobe (pr : probe) (E : list nat) : option probe := mapM (nth_error pr) E.

    (* Frame.subframe_from_probe_elements, E = arange(numelements)[elements_idx]
       (IndexError if out of range) *)
    Definition subframe_from_probe_elements (pr : probe) (f : frame) (E : list nat) (make_subprobe : bool)
      : option (probe * frame) :=
      if forallb (fun e => e <? length pr) E then
        let kept := filter (retained E) f in
        if make_subprobe then
          match subprobe pr E with
          | None => None
          | Some sp =>
            match mapM (remap (mapper (length pr) E)) kept with
            | Some g => option_map (pair sp) (mk_frame g)
            | None => None
            end
          end
        else option_map (pair pr) (mk_frame kept)       (* self.subframe(boolean mask) *)
      else None.

    (* ---- chains of operations ---------------------------------------- *)
    Inductive op :=
    | OpSubframe (idx : list nat)
    | OpElements (E : list nat) (make_subprobe : bool)
    | OpExpand
    | OpFilter (g : P -> P).

    Definition state := (probe * frame)%type.

    Definition step (o : op) (s : state) : option state :=
      match o with
      | OpSubframe idx => option_map (pair (fst s)) (subframe (snd s) idx)
      | OpElements E mk => subframe_from_probe_elements (fst s) (snd s) E mk
      | OpExpand => option_map (pair (fst s)) (expand (snd s))
      | OpFilter g => option_map (pair (fst s)) (apply_filter g (snd s))
      end.

    Fixpoint run (ops : list op) (s : state) : option state :=
      match ops with
      | [] => Some s
      | o :: ops' => match step o s with Some s' => run ops' s' | None => None end
      end.

    (* every state met on the way (None once an operation raised; the chain stops there) *)
    Fixpoint trace (ops : list op) (s : state) : list (option state) :=
      match ops with
      | [] => []
      | o :: ops' => match step o s with
                     | Some s' => Some s' :: trace ops' s'
                     | None => [None]
                     end
      end.
  End Probe.
End FrameOps.

Arguments key {P}. Arguments payload {P}. Arguments keys {P}. Arguments mk_frame {P}.
Arguments get_timetrace {P}. Arguments apply_filter {P}. Arguments is_complete {P}.
Arguments lookup_last {P}. Arguments expand_entry {P}. Arguments expand {P}.
Arguments subframe {P}. Arguments retained {P}. Arguments remap {P}.
Arguments subprobe {L}. Arguments subframe_from_probe_elements {P L}.
Arguments OpSubframe {P}. Arguments OpElements {P}. Arguments OpExpand {P}. Arguments OpFilter {P}.
Arguments step {P L}. Arguments run {P L}. Arguments trace {P L}.

(* ---- Z-facing wrappers for the generated correspondence files -------------
   (cases are written with binary Z literals, never unary nat literals) *)
From Coq Require Import ZArith.
From Arim Require Import Base.ListX.

(* an integer of an integer-list index on an axis of length n: negative values wrap
   once, anything still outside [0, n) is IndexError *)
Definition resolve_index (n : nat) (i : Z) : option nat :=
  let j := if (i <? 0)%Z then (i + Z.of_nat n)%Z else i in
  if (0 <=? j)%Z && (j <? Z.of_nat n)%Z then Some (Z.to_nat j) else None.

Definition zpairs (l : list (nat * nat)) : list (Z * Z) := map zpair_of_nat l.
Definition npairs (l : list (Z * Z)) : list (nat * nat) := map (fun p => (Z.to_nat (fst p), Z.to_nat (snd p))) l.
Definition fmc_z (n : Z) : list (Z * Z) := zpairs (fmc (Z.to_nat n)).
Definition hmc_z (n : Z) : list (Z * Z) := zpairs (hmc (Z.to_nat n)).
Definition capture_code (c : option capture) : Z :=
  match c with None => (-1)%Z | Some Hmc => 2%Z | Some Fmc => 1%Z | Some Unsupported => 0%Z end.
Definition infer_z (l : list (Z * Z)) : Z := capture_code (infer_capture_method (npairs l)).
Definition weights_z (l : list (Z * Z)) : list Z := map Z.of_nat (default_timetrace_weights (npairs l)).

Definition zentry := (Z * Z * Z)%type.
Definition zframe_in (f : list zentry) : frame Z :=
  map (fun e => (Z.to_nat (fst (fst e)), Z.to_nat (snd (fst e)), snd e)) f.
Definition zframe_out (f : frame Z) : list zentry :=
  map (fun e => (Z.of_nat (fst (fst e)), Z.of_nat (snd (fst e)), snd e)) f.
Definition zentry_eqb (a b : zentry) : bool :=
  Z.eqb (fst (fst a)) (fst (fst b)) && Z.eqb (snd (fst a)) (snd (fst b)) && Z.eqb (snd a) (snd b).

Definition get_timetrace_z (f : list zentry) (t r : Z) : option Z :=
  get_timetrace (zframe_in f) (Z.to_nat t) (Z.to_nat r).
Definition is_complete_z (f : list zentry) : bool := is_complete (zframe_in f).
Definition mk_frame_ok_z (f : list zentry) : bool :=
  match mk_frame (zframe_in f) with Some _ => true | None => false end.

(* operations of a chain as the harness writes them; `raw` = the index was an integer
   list given as is (negative values allowed), otherwise it is arange(n)[idx] *)
Inductive zop :=
| ZSubframe (idx : list Z)
| ZElements (E : list Z) (make_subprobe : bool)
| ZExpand
| ZFilter (c : Z).

Definition zstate := (list Z * list zentry)%type.

Definition op_of_z (s : state Z Z) (o : zop) : option (op Z) :=
  match o with
  | ZSubframe idx => option_map OpSubframe (mapM (resolve_index (length (snd s))) idx)
  | ZElements E mk => option_map (fun E' => OpElements E' mk) (mapM (resolve_index (length (fst s))) E)
  | ZExpand => Some OpExpand
  | ZFilter c => Some (OpFilter (Z.mul c))
  end.

Fixpoint trace_z (ops : list zop) (s : state Z Z) : list (option zstate) :=
  match ops with
  | [] => []
  | o :: ops' =>
    match op_of_z s o with
    | None => [None]
    | Some o' => match step o' s with
                 | Some s' => Some (fst s', zframe_out (snd s')) :: trace_z ops' s'
                 | None => [None]
                 end
    end
  end.

Definition zstate_eqb (a b : zstate) : bool :=
  list_eqb Z.eqb (fst a) (fst b) && list_eqb zentry_eqb (snd a) (snd b).

(* case = (probe labels, frame, operations, states observed on the implementation) *)
Definition chain_check (c : list Z * list zentry * list zop * list (option zstate)) : bool :=
  let '(pr, f, ops, obs) := c in
  list_eqb (option_eqb zstate_eqb) (trace_z ops (pr, zframe_in f)) obs.

(* ---- flat encoding of a chain case ---------------------------------------------
   Type-checking a nested literal (tuples, options, constructors) costs far more than
   a flat `list Z`; the harness therefore writes every case as one list of integers:
     state  := nlab lab* nrows (tx rx p)*
     op     := 0 n idx*  |  1 mk n E*  |  2  |  3 c
     obs    := 0  |  1 state
     case   := state nops op* nobs obs*
   The decoder is part of the (trusted) harness glue; a case that does not decode
   exactly (left-over or missing integers) fails the check. *)
Local Open Scope Z_scope.
Definition take_list (l : list Z) : list Z * list Z :=
  match l with
  | [] => ([], [])
  | n :: l' => (firstn (Z.to_nat n) l', skipn (Z.to_nat n) l')
  end.

Fixpoint take_rows (k : nat) (l : list Z) : list zentry * list Z :=
  match k with
  | O => ([], l)
  | S k' => match l with
            | t :: r :: p :: l' => let (rows, rest) := take_rows k' l' in ((t, r, p) :: rows, rest)
            | _ => ([], [ -1 ])
            end
  end.

Definition take_state (l : list Z) : zstate * list Z :=
  let (lab, l1) := take_list l in
  match l1 with
  | [] => ((lab, []), [ -1 ])
  | n :: l2 => let (rows, l3) := take_rows (Z.to_nat n) l2 in ((lab, rows), l3)
  end.

Definition take_op (l : list Z) : zop * list Z :=
  match l with
  | 0 :: l' => let (idx, r) := take_list l' in (ZSubframe idx, r)
  | 1 :: mk :: l' => let (E, r) := take_list l' in (ZElements E (mk =? 1), r)
  | 2 :: l' => (ZExpand, l')
  | 3 :: c :: l' => (ZFilter c, l')
  | _ => (ZExpand, [ -1 ])
  end.

Fixpoint take_ops (k : nat) (l : list Z) : list zop * list Z :=
  match k with
  | O => ([], l)
  | S k' => let (o, l1) := take_op l in let (os, l2) := take_ops k' l1 in (o :: os, l2)
  end.

Definition take_obs (l : list Z) : option zstate * list Z :=
  match l with
  | 0 :: l' => (None, l')
  | 1 :: l' => let (s, r) := take_state l' in (Some s, r)
  | _ => (None, [ -1 ])
  end.

Fixpoint take_obss (k : nat) (l : list Z) : list (option zstate) * list Z :=
  match k with
  | O => ([], l)
  | S k' => let (o, l1) := take_obs l in let (os, l2) := take_obss k' l1 in (o :: os, l2)
  end.

Definition counted {A} (take : nat -> list Z -> A * list Z) (dflt : A) (l : list Z) : A * list Z :=
  match l with
  | [] => (dflt, [ -1 ])
  | n :: l' => take (Z.to_nat n) l'
  end.

Definition chain_check_flat (l : list Z) : bool :=
  let (s, l1) := take_state l in
  let (ops, l2) := counted take_ops [] l1 in
  let (obs, l3) := counted take_obss [] l2 in
  match l3 with
  | [] => chain_check (fst s, snd s, ops, obs)
  | _ => false
  end.
