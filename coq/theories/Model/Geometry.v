(* Model/Geometry.v — arim.geometry: changes of coordinates, rotations,
   isometries, spherical coordinates, distance tables, grids, box selector
   (C17).  Definitions only, written once over a Num record.

   Conventions read from the source (src/arim/geometry.py):
   * a basis passed to to_gcs / from_gcs is a (3,3) array whose ROWS are the
     local axes i_hat, j_hat, k_hat expressed in the GCS;
       to_gcs   : einsum("...ij,...i->...j", bases, c) + origins   = B^T c + o
       from_gcs : einsum("...ji,...i->...j", bases, p - origins)   = B (p - o)
       rotate   : einsum("...ji,...i->...j", R, c [- centre]) [+ centre]
   * CoordinateSystem.basis_matrix stores i_hat, j_hat, k_hat in COLUMNS;
       convert_from_gcs p = (p + (-origin)) @ M,   convert_to_gcs c = c @ M.T + origin
   * point arrays of any shape (), (n,), (n,m) and "one frame per point" are
     element-wise maps: the model is the function of ONE point; lists are mapped.
   Sums of three terms are associated to the left. *)
From Coq Require Import List ZArith Bool.
From Arim Require Import Base.Num Model.Vec3.
Import ListNotations.

Definition vec2 (T : Type) : Type := (T * T)%type.
Definition mat2 (T : Type) : Type := (vec2 T * vec2 T)%type.

Section Geometry.
  Context {T : Type} (N : Num T).
  Local Notation "a + b" := (nadd N a b).
  Local Notation "a - b" := (nsub N a b).
  Local Notation "a * b" := (nmul N a b).
  Local Notation "a / b" := (ndiv N a b).
  Local Notation "0" := (n0 N).
  Local Notation "1" := (n1 N).

  (* ---- to_gcs / from_gcs / rotate ------------------------------------- *)
  Definition to_gcs (B : mat3 T) (o c : vec3 T) : vec3 T := vadd N (mtvec N B c) o.
  Definition from_gcs (B : mat3 T) (o p : vec3 T) : vec3 T := mvec N B (vsub N p o).
  Definition rotate (R : mat3 T) (centre : option (vec3 T)) (c : vec3 T) : vec3 T :=
    match centre with
    | None => mvec N R c
    | Some ce => vadd N (mvec N R (vsub N c ce)) ce
    end.

  (* one frame for all points / one frame (basis, origin) per point *)
  Definition to_gcs_all (B : mat3 T) (o : vec3 T) (cs : list (vec3 T)) := map (to_gcs B o) cs.
  Definition from_gcs_all (B : mat3 T) (o : vec3 T) (ps : list (vec3 T)) := map (from_gcs B o) ps.
  Definition to_gcs_each (l : list (mat3 T * vec3 T * vec3 T)) : list (vec3 T) :=
    map (fun f => to_gcs (fst (fst f)) (snd (fst f)) (snd f)) l.
  Definition from_gcs_each (l : list (mat3 T * vec3 T * vec3 T)) : list (vec3 T) :=
    map (fun f => from_gcs (fst (fst f)) (snd (fst f)) (snd f)) l.

  (* ---- CoordinateSystem ------------------------------------------------ *)
  Definition cs_k_hat (i j : vec3 T) : vec3 T := vcross N i j.
  (* rows = local axes: the convention of to_gcs/from_gcs *)
  Definition cs_axes (i j : vec3 T) : mat3 T := (i, j, cs_k_hat i j).
  (* np.stack((i_hat, j_hat, k_hat), axis=1): axes in columns *)
  Definition cs_basis_matrix (i j : vec3 T) : mat3 T := mtrans (cs_axes i j).
  (* points_gcs.translate(-origin).coords @ basis_matrix *)
  Definition cs_convert_from_gcs (o i j p : vec3 T) : vec3 T :=
    mtvec N (cs_basis_matrix i j) (vadd N p (vopp N o)).
  (* coords @ basis_matrix.T + origin *)
  Definition cs_convert_to_gcs (o i j c : vec3 T) : vec3 T :=
    vadd N (mvec N (cs_basis_matrix i j) c) o.

  (* numpy.isclose(a, b) with the default rtol = 1e-5, atol = 1e-8 *)
  Definition rtol_default : T := 1 / nofZ N 100000.
  Definition atol_default : T := 1 / nofZ N 100000000.
  Definition isclose (a b : T) : bool :=
    nleb N (nabs N (a - b)) (atol_default + rtol_default * nabs N b).

  (* norm2 / norm2_2d: out = zeros; out += x*x; out += y*y; [out += z*z;] sqrt(out) *)
  Definition norm2_3 (x y z : T) : T := nsqrt N (((0 + x * x) + y * y) + z * z).
  Definition norm2_2 (x y : T) : T := nsqrt N ((0 + x * x) + y * y).
  Definition norm2_v (v : vec3 T) : T := norm2_3 (vx v) (vy v) (vz v).

  (* the setters of i_hat and j_hat raise ValueError unless isclose(norm2(v), 1.0) *)
  Definition cs_valid (i j : vec3 T) : bool := isclose (norm2_v i) 1 && isclose (norm2_v j) 1.

  (* ---- spherical coordinates (r, theta, phi) -------------------------- *)
  Definition spherical_r (p : vec3 T) : T := norm2_v p.
  Definition spherical_theta (z r : T) : T := nacos N (z / r).
  Definition spherical_phi (x y : T) : T := natan2 N y x.
  Definition spherical_coordinates (p : vec3 T) : T * T * T :=
    let r := spherical_r p in (r, spherical_theta (vz p) r, spherical_phi (vx p) (vy p)).

  (* ---- rotation matrices, as functions of (cos, sin) and of the angle -- *)
  Definition rot_x_cs (c s : T) : mat3 T := ((1, 0, 0), (0, c, nopp N s), (0, s, c)).
  Definition rot_y_cs (c s : T) : mat3 T := ((c, 0, s), (0, 1, 0), (nopp N s, 0, c)).
  Definition rot_z_cs (c s : T) : mat3 T := ((c, nopp N s, 0), (s, c, 0), (0, 0, 1)).
  Definition rotation_matrix_x (th : T) : mat3 T := rot_x_cs (ncos N th) (nsin N th).
  Definition rotation_matrix_y (th : T) : mat3 T := rot_y_cs (ncos N th) (nsin N th).
  Definition rotation_matrix_z (th : T) : mat3 T := rot_z_cs (ncos N th) (nsin N th).
  (* rotation_matrix_z(yaw) @ rotation_matrix_y(pitch) @ rotation_matrix_x(roll) *)
  Definition rot_ypr_cs (cy sy cp sp cr sr : T) : mat3 T :=
    mmul N (mmul N (rot_z_cs cy sy) (rot_y_cs cp sp)) (rot_x_cs cr sr).
  Definition rotation_matrix_ypr (yaw pitch roll : T) : mat3 T :=
    mmul N (mmul N (rotation_matrix_z yaw) (rotation_matrix_y pitch)) (rotation_matrix_x roll).

  (* ---- direct_isometry_2d ---------------------------------------------- *)
  Definition v2sub (a b : vec2 T) : vec2 T := (fst a - fst b, snd a - snd b).
  Definition v2add (a b : vec2 T) : vec2 T := (fst a + fst b, snd a + snd b).
  Definition m2vec (m : mat2 T) (v : vec2 T) : vec2 T :=
    (fst (fst m) * fst v + snd (fst m) * snd v, fst (snd m) * fst v + snd (snd m) * snd v).
  Definition rot2_cs (c s : T) : mat2 T := ((c, nopp N s), (s, c)).
  (* None = AssertionError (|AB| and |A'B'| not close) *)
  Definition direct_isometry_2d (A B Ap Bp : vec2 T) : option (mat2 T * vec2 T) :=
    let AB := v2sub B A in
    let ApBp := v2sub Bp Ap in
    if isclose (norm2_2 (fst AB) (snd AB)) (norm2_2 (fst ApBp) (snd ApBp)) then
      let phi := natan2 N (snd AB) (fst AB) in
      let psi := natan2 N (snd ApBp) (fst ApBp) in
      let theta := psi - phi in
      let M := rot2_cs (ncos N theta) (nsin N theta) in
      Some (M, v2sub Bp (m2vec M B))
    else None.

  (* ---- direct_isometry_3d ---------------------------------------------- *)
  (* numpy.linalg.solve is an oracle: a parameter `solve` (specified in the
     theorems by A . solve A b = b).  None = AssertionError. *)
  Definition iso3d_valid (i j u v : vec3 T) : bool :=
    isclose (norm2_v u) 1 && isclose (norm2_v v) 1 && isclose (norm2_v i) 1 && isclose (norm2_v j) 1
    && isclose (vdot N i j) 0 && isclose (vdot N u v) 0.
  Definition direct_isometry_3d (solve : mat3 T -> mat3 T -> mat3 T)
             (A i j B u v : vec3 T) : option (mat3 T * vec3 T) :=
    if iso3d_valid i j u v then
      let k := vcross N i j in
      let w := vcross N u v in
      let baseDep := mtrans (i, j, k) in          (* np.stack(..., axis=1) *)
      let baseArr := mtrans (u, v, w) in
      let M := mtrans (solve (mtrans baseDep) (mtrans baseArr)) in
      Some (M, vsub N B (mvec N M A))
    else None.

  (* an executable `solve` satisfying the oracle's specification whenever
     det A <> 0 (Cramer: columns of A^-1 are the cross products of the rows / det) *)
  Definition minv (a : mat3 T) : mat3 T :=
    let d := 1 / mdet N a in
    mtrans (vscale N d (vcross N (mrow1 a) (mrow2 a)),
              vscale N d (vcross N (mrow2 a) (mrow0 a)),
              vscale N d (vcross N (mrow0 a) (mrow1 a))).
  Definition solve_cramer (a b : mat3 T) : mat3 T := mmul N (minv a) b.

  (* ---- _distance_pairwise ---------------------------------------------- *)
  (* distance[i, j] = sqrt(dx*dx + dy*dy + dz*dz) = vdist *)
  Definition distance_table (ps qs : list (vec3 T)) : list (list T) :=
    map (fun p => map (fun q => vdist N p q) qs) ps.

  (* ---- Grid ------------------------------------------------------------ *)
  Fixpoint zrange_from (start : Z) (n : nat) : list Z :=
    match n with O => [] | S n' => start :: zrange_from (start + 1)%Z n' end.

  (* numpy.linspace(lo, hi, n) (endpoint=True); None = ValueError (n < 0).
     Not modelled: numpy's special path when (hi - lo) / (n - 1) underflows to 0. *)
  Definition linspace (lo hi : T) (n : Z) : option (list T) :=
    if (n <? 0)%Z then None
    else if (n =? 1)%Z then Some [nofZ N 0 * (hi - lo) + lo]
    else
      let step := (hi - lo) / nofZ N (n - 1) in
      Some (map (fun i => if (i =? n - 1)%Z then hi else nofZ N i * step + lo)
                (zrange_from 0%Z (Z.to_nat n))).

  (* round((abs(max - min) + d) / d), Python round = half to even *)
  Definition grid_numpoints (lo hi d : T) : Z := nround N ((nabs N (hi - lo) + d) / d).

  (* one axis of Grid.__init__; None = exception (division by zero pixel size,
     or negative number of points) *)
  Definition grid_axis (lo hi d : T) : option (list T) :=
    if neqb N lo hi then Some [lo]
    else if neqb N d 0 then None
    else linspace lo hi (grid_numpoints lo hi d).

  (* np.stack(np.meshgrid(x, y, z, indexing="ij"), axis=-1): coords[ix][iy][iz] *)
  Definition meshgrid_ij (xs ys zs : list T) : list (list (list (vec3 T))) :=
    map (fun x => map (fun y => map (fun z => (x, y, z)) zs) ys) xs.
  (* Points.to_1d_points: reshape to (numpoints, 3), C order *)
  Definition flatten_c {A} (a : list (list (list A))) : list A := concat (map (@concat A) a).

  Record grid_result := mkGrid {
    g_xvect : list T; g_yvect : list T; g_zvect : list T;
    g_coords : list (list (list (vec3 T)))
  }.
  Definition grid_to_1d_points (g : grid_result) : list (vec3 T) := flatten_c (g_coords g).

  Definition grid (xmin xmax ymin ymax zmin zmax dx dy dz : T) : option grid_result :=
    match grid_axis xmin xmax dx, grid_axis ymin ymax dy, grid_axis zmin zmax dz with
    | Some xs, Some ys, Some zs => Some (mkGrid xs ys zs (meshgrid_ij xs ys zs))
    | _, _, _ => None
    end.

  (* ---- Grid.grid_centred_at_point -------------------------------------- *)
  Definition nceil (x : T) : Z := Z.opp (nfloor N (nopp N x)).     (* math.ceil *)
  (* math.ceil(size / pixel_size + 1) | 1 *)
  Definition centred_numpoints (size pixel : T) : Z := Z.lor (nceil (size / pixel + 1)) 1.
  (* size / (numpoints - 1), or size itself on ZeroDivisionError *)
  Definition centred_step (size : T) (n : Z) : T :=
    if (n - 1 =? 0)%Z then size else size / nofZ N (n - 1).
  Definition grid_centred_at_point (cx cy cz sx sy sz pixel : T) : option grid_result :=
    if nltb N sx 0 || nltb N sy 0 || nltb N sz 0 then None          (* assert size >= 0 *)
    else if neqb N pixel 0 then None                                 (* ZeroDivisionError *)
    else
      let two := nofZ N 2 in
      grid (cx - sx / two) (cx + sx / two) (cy - sy / two) (cy + sy / two)
           (cz - sz / two) (cz + sz / two)
           (centred_step sx (centred_numpoints sx pixel))
           (centred_step sy (centred_numpoints sy pixel))
           (centred_step sz (centred_numpoints sz pixel)).

  (* ---- points_in_rectbox ------------------------------------------------ *)
  Definition lower_ok (b : option T) (x : T) : bool :=
    match b with None => true | Some lo => nleb N lo x end.
  Definition upper_ok (b : option T) (x : T) : bool :=
    match b with None => true | Some hi => nleb N x hi end.
  (* out = ones; for valid in [xmin<=x, ymin<=y, zmin<=z, x<=xmax, y<=ymax, z<=zmax
     (those supplied)]: out &= valid *)
  Definition in_rectbox (xmin xmax ymin ymax zmin zmax : option T) (p : vec3 T) : bool :=
    true && lower_ok xmin (vx p) && lower_ok ymin (vy p) && lower_ok zmin (vz p)
    && upper_ok xmax (vx p) && upper_ok ymax (vy p) && upper_ok zmax (vz p).
  Definition points_in_rectbox (xmin xmax ymin ymax zmin zmax : option T) (ps : list (vec3 T)) : list bool :=
    map (in_rectbox xmin xmax ymin ymax zmin zmax) ps.
End Geometry.
