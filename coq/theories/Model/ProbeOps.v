(* Model/ProbeOps.v — C16, second part of the model: the glue of arim.core.Probe and
   arim.geometry.CoordinateSystem around the motions of Model/Probe.v.  Definitions only,
   written once over a Num record; imports Model/Probe.v (never edits it).

   Mirrors, statement by statement,
     src/arim/geometry.py  CoordinateSystem.{convert_to_gcs (534-558),
                           convert_from_gcs_pairwise (496-532), isclose (601-609),
                           copy (616-617)}
     src/arim/core.py      Probe.__init__ (494-555: dimensions / orientations / shapes /
                           dead_elements resizing and assertions, pcs and metadata
                           defaults, numelements, frequency, bandwidth),
                           Probe.make_matrix_probe (566-644, incl. the metadata dictionary),
                           Probe.subprobe (646-712), Probe.set_element_dimensions (779-804),
                           the motions of Model/Probe.v lifted to the whole object
                           (they assign locations / orientations / pcs and nothing else)
     src/arim/io/native.py probe_from_conf, `apply_probe_location` block (209-226)
     src/arim/measurement.py move_probe_over_flat_surface, the gate `pcs.isclose(GCS)` (129)
                           and step V (200-203: rotate(rotation_matrix_y(theta)) then
                           translate((0, 0, z_o)))
     Python / numpy        slice.indices (PySlice_AdjustIndices), indexing of axis 0 with a
                           list of integers, a slice, a boolean mask (of the length of the axis, or
                           empty), one integer

   A raise of the implementation is the error value None. *)
From Coq Require Import String.
From Coq Require Import List ZArith Bool.
From Arim Require Import Base.Num Model.Vec3 Model.Probe.
Import ListNotations.

(* ---- indexing of axis 0: the `elements_idx` of Probe.subprobe ----------------------- *)
Inductive np_idx : Type :=
| IdxInt (k : Z)                          (* one integer: the result loses the axis *)
| IdxList (ks : list Z)                   (* list / integer array, negative entries allowed *)
| IdxSlice (start stop step : option Z)   (* slice(start, stop, step) *)
| IdxMask (bs : list bool).               (* boolean array / list of bools *)

(* slice.indices(n) followed by range(start, stop, step): CPython's
   PySlice_AdjustIndices.  ValueError for step 0. *)
Definition slice_indices (n : Z) (start stop step : option Z) : option (list Z) :=
  let st := match step with None => 1%Z | Some s => s end in
  if (st =? 0)%Z then None
  else
    let lower := if (st <? 0)%Z then (-1)%Z else 0%Z in
    let upper := if (st <? 0)%Z then (n - 1)%Z else n in
    let s0 := match start with
              | None => if (st <? 0)%Z then upper else lower
              | Some s => if (s <? 0)%Z then Z.max (s + n) lower else Z.min s upper
              end in
    let e0 := match stop with
              | None => if (st <? 0)%Z then lower else upper
              | Some e => if (e <? 0)%Z then Z.max (e + n) lower else Z.min e upper
              end in
    let len := if (st <? 0)%Z
               then (if (e0 <? s0)%Z then ((s0 - e0 - 1) / (- st) + 1)%Z else 0%Z)
               else (if (s0 <? e0)%Z then ((e0 - s0 - 1) / st + 1)%Z else 0%Z) in
    Some (map (fun i => (s0 + Z.of_nat i * st)%Z) (seq 0 (Z.to_nat len))).

(* all-or-nothing traversal *)
Fixpoint opt_all {A} (l : list (option A)) : option (list A) :=
  match l with
  | [] => Some []
  | None :: _ => None
  | Some a :: r => match opt_all r with None => None | Some r' => Some (a :: r') end
  end.

Fixpoint mask_select {A} (bs : list bool) (l : list A) : list A :=
  match bs, l with
  | b :: bs', a :: l' => if b then a :: mask_select bs' l' else mask_select bs' l'
  | _, _ => []
  end.

(* x[elements_idx] for an array whose axis 0 has the entries l, when the result keeps an
   axis 0 (None = IndexError / ValueError, and for IdxInt: the indexed object is no longer
   a sequence of elements, Probe.__init__ fails on len()).
   Boolean mask: numpy (rule established by experiment on numpy 2.5.3, axes of length
   0..5 against masks of length 0..6, all-False and all-True, 1-d and 2-d arrays) accepts
   a mask of the length of the axis, and ALSO a mask of length 0 on an axis of any length,
   which selects nothing (`np.arange(5)[np.array([], dtype=bool)]` is empty); every other
   length is an IndexError (no broadcasting of a one-entry mask).  mask_select [] l = [], so one expression covers both accepted lengths.
   (An empty Python LIST `[]` is an integer index array, IdxList []: nothing selected.) *)
Definition mask_fits (m n : nat) : bool := Nat.eqb m n || Nat.eqb m 0.
Definition np_take {A} (idx : np_idx) (l : list A) : option (list A) :=
  match idx with
  | IdxInt _ => None
  | IdxList ks => opt_all (map (py_index l) ks)
  | IdxSlice s e st =>
      match slice_indices (Z.of_nat (length l)) s e st with
      | None => None
      | Some ks => opt_all (map (py_index l) ks)
      end
  | IdxMask bs => if mask_fits (length bs) (length l) then Some (mask_select bs l) else None
  end.

(* ---- the metadata dictionary ----------------------------------------------------------- *)
Inductive mval (T : Type) : Type :=
| MNone | MStr (s : string) | MInt (z : Z) | MNum (x : T) | MNan.
Arguments MNone {T}. Arguments MStr {T}. Arguments MInt {T}. Arguments MNum {T}. Arguments MNan {T}.

Definition dict (T : Type) : Type := list (string * mval T).

Fixpoint dict_get {T} (d : dict T) (k : string) : option (mval T) :=
  match d with
  | [] => None
  | (k', v) :: r => if String.eqb k' k then Some v else dict_get r k
  end.

(* d[k] = v : an existing key keeps its position, a new key goes last *)
Fixpoint dict_set {T} (d : dict T) (k : string) (v : mval T) : dict T :=
  match d with
  | [] => [(k, v)]
  | (k', v') :: r => if String.eqb k' k then (k', v) :: r else (k', v') :: dict_set r k v
  end.

(* `metadata.get(k, None) is None` *)
Definition dict_unset {T} (d : dict T) (k : string) : bool :=
  match dict_get d k with None | Some MNone => true | Some _ => false end.

(* `if metadata.get(k, None) is None: metadata[k] = v` *)
Definition dict_default {T} (d : dict T) (k : string) (v : mval T) : dict T :=
  if dict_unset d k then dict_set d k v else d.

(* an optional per-element argument of Probe.__init__: None, one value resized to all
   elements, or one value per element *)
Inductive arg1 (A : Type) : Type := ArgNone | ArgOne (a : A) | ArgEach (l : list A).
Arguments ArgNone {A}. Arguments ArgOne {A}. Arguments ArgEach {A}.

(* np.resize(one, (n, ...)) / assert x.shape == (n,) *)
Definition init_arg {A} (n : nat) (a : arg1 A) : option (option (list A)) :=
  match a with
  | ArgNone => Some None
  | ArgOne v => Some (Some (repeat v n))
  | ArgEach l => if Nat.eqb (length l) n then Some (Some l) else None
  end.

Section ProbeOps.
  Context {T : Type} (N : Num T).
  Local Notation "a + b" := (nadd N a b).
  Local Notation "a - b" := (nsub N a b).
  Local Notation "a * b" := (nmul N a b).
  Local Notation "a / b" := (ndiv N a b).
  Local Notation "0" := (n0 N).
  Local Notation "1" := (n1 N).

  (* ---- CoordinateSystem, the remaining methods ---------------------------------------- *)
  (* convert_to_gcs: (points_cs @ basis_matrix.T) + origin
     (row vector times B^T: out[j] = sum_i q[i] B[j, i]) *)
  Definition cs_to_gcs (c : csys (T:=T)) (q : vec3 T) : vec3 T :=
    vadd N (mvec N (cs_basis_matrix N c) q) (cs_o c).

  (* convert_from_gcs_pairwise(points_gcs, origins): points_cs = convert_from_gcs(points_gcs);
     x[i, j] = points_cs.x[i] - origins.x[j], likewise y and z; returns (x, y, z) *)
  Definition cs_from_gcs_pairwise (c : csys (T:=T)) (pts origins : list (vec3 T))
    : list (list T) * list (list T) * list (list T) :=
    let pcs := map (cs_from_gcs N c) pts in
    (map (fun p => map (fun o => vx p - vx o) origins) pcs,
     map (fun p => map (fun o => vy p - vy o) origins) pcs,
     map (fun p => map (fun o => vz p - vz o) origins) pcs).

  (* copy: CoordinateSystem(origin.copy(), i_hat.copy(), j_hat.copy()) — through the setters *)
  Definition cs_copy (c : csys (T:=T)) : option (csys (T:=T)) := cs_make N (cs_o c) (cs_i c) (cs_j c).

  (* np.allclose(a, b, rtol, atol): all(|a - b| <= atol + rtol * |b|) *)
  Definition close1 (atol rtol a b : T) : bool := nleb N (nabs N (a - b)) (atol + rtol * nabs N b).
  Definition vclose (atol rtol : T) (a b : vec3 T) : bool :=
    close1 atol rtol (vx a) (vx b) && close1 atol rtol (vy a) (vy b) && close1 atol rtol (vz a) (vz b).
  (* isclose(other, atol=1e-8, rtol=0.0): origin and i_hat and j_hat *)
  Definition cs_isclose (c other : csys (T:=T)) (atol rtol : T) : bool :=
    vclose atol rtol (cs_o c) (cs_o other) && vclose atol rtol (cs_i c) (cs_i other) &&
    vclose atol rtol (cs_j c) (cs_j other).
  Definition atol_default : T := 1 / nofZ N 100000000.

  (* ---- the whole Probe object ---------------------------------------------------------- *)
  (* x_core: locations, orientations, pcs (Model/Probe.v); the other slots *)
  Record probe_x : Type := mkPX {
    x_core : probe (T:=T);
    x_dims : option (list (vec3 T));       (* dimensions *)
    x_shapes : option (list Z);            (* shapes (ElementShape values) *)
    x_dead : list bool;                    (* dead_elements *)
    x_freq : option T;                     (* frequency *)
    x_bw : option T;                       (* bandwidth *)
    x_meta : dict T;                       (* metadata *)
    x_numel : Z                            (* numelements *)
  }.

  (* Probe.__init__(locations, frequency, dimensions, orientations, shapes, dead_elements,
     bandwidth, pcs, metadata).  AssertionError: a per-element argument of the wrong length.
     dead_elements None: all False.  pcs None: GCS.copy().  metadata None: {}. *)
  Definition init_probe (locs : list (vec3 T)) (freq : option T) (dims : arg1 (vec3 T))
      (oris : arg1 (vec3 T)) (shapes : arg1 Z) (dead : arg1 bool) (bw : option T)
      (pcs : option (csys (T:=T))) (meta : option (dict T)) : option probe_x :=
    let n := length locs in
    match init_arg n dims with
    | None => None
    | Some ds =>
      match init_arg n oris with
      | None => None
      | Some os =>
        match init_arg n shapes with
        | None => None
        | Some ss =>
          match (match dead with ArgNone => Some (Some (repeat false n)) | _ => init_arg n dead end) with
          | None | Some None => None
          | Some (Some dd) =>
            match (match pcs with None => cs_copy (gcs N) | Some c => Some c end) with
            | None => None
            | Some c =>
              Some (mkPX (mkProbe locs os c) ds ss dd freq bw
                         (match meta with None => [] | Some m => m end) (Z.of_nat n))
            end
          end
        end
      end
    end.

  (* the metadata block of make_matrix_probe (628-642), in the code's order *)
  Definition matrix_metadata (m : dict T) (numx numy : Z) (pitch_x pitch_y : mval T) : dict T :=
    let ptype := if ((numx =? 1) && (numy =? 1))%Z%bool then "single"%string
                 else if ((numx =? 1) || (numy =? 1))%Z%bool then "linear"%string
                 else "matrix"%string in
    let m1 := dict_default m "probe_type" (MStr ptype) in
    let m2 := dict_default m1 "numx" (MInt numx) in
    let m3 := dict_default m2 "numy" (MInt numy) in
    let m4 := dict_default m3 "pitch_x" pitch_x in
    dict_default m4 "pitch_y" pitch_y.

  (* Probe.make_matrix_probe(numx, pitch_x, numy, pitch_y, frequency, *args, **kwargs):
     a one-element axis replaces its pitch by nan; `pitch *= 1.0`; locations as in
     Model/Probe.v; Probe(locations, frequency, ...); metadata defaults *)
  Definition make_matrix_probe_x (numx : Z) (pitch_x : T) (numy : Z) (pitch_y : T) (freq : option T)
      (dims : arg1 (vec3 T)) (oris : arg1 (vec3 T)) (shapes : arg1 Z) (dead : arg1 bool)
      (bw : option T) (pcs : option (csys (T:=T))) (meta : option (dict T)) : option probe_x :=
    if ((numx <? 1) || (numy <? 1))%Z%bool then None
    else
      let mpx := if (numx =? 1)%Z then MNan else MNum (pitch_x * 1) in
      let mpy := if (numy =? 1)%Z then MNan else MNum (pitch_y * 1) in
      let locs := matrix_locations N numx (pitch_x * 1) numy (pitch_y * 1) in
      match init_probe locs freq dims oris shapes dead bw pcs meta with
      | None => None
      | Some p =>
          Some (mkPX (x_core p) (x_dims p) (x_shapes p) (x_dead p) (x_freq p) (x_bw p)
                     (matrix_metadata (x_meta p) numx numy mpx mpy) (x_numel p))
      end.

  (* _index(x): None stays None, else x[elements_idx] (outer option: the raise) *)
  Definition take_opt {A} (idx : np_idx) (o : option (list A)) : option (option (list A)) :=
    match o with
    | None => Some None
    | Some l => match np_take idx l with None => None | Some r => Some (Some r) end
    end.
  Definition to_arg {A} (o : option (list A)) : arg1 A :=
    match o with None => ArgNone | Some l => ArgEach l end.

  (* Probe.subprobe(elements_idx, save_metadata): every per-element slot indexed the same
     way, pcs deep-copied (slots copied, no validation), metadata copied or dropped, then
     Probe.__init__ *)
  Definition subprobe (idx : np_idx) (save_metadata : bool) (p : probe_x) : option probe_x :=
    match np_take idx (p_locs (x_core p)) with
    | None => None
    | Some locs =>
      match take_opt idx (x_dims p) with
      | None => None
      | Some ds =>
        match take_opt idx (p_oris (x_core p)) with
        | None => None
        | Some os =>
          match take_opt idx (x_shapes p) with
          | None => None
          | Some ss =>
            match np_take idx (x_dead p) with
            | None => None
            | Some dd =>
                init_probe locs (x_freq p) (to_arg ds) (to_arg os) (to_arg ss) (ArgEach dd) (x_bw p)
                           (Some (p_pcs (x_core p)))
                           (if save_metadata then Some (x_meta p) else None)
            end
          end
        end
      end
    end.

  (* Probe.set_element_dimensions(size_x, size_y, size_z): `1.0 * size`, np.repeat over
     numelements *)
  Definition set_element_dimensions (sx sy sz : T) (p : probe_x) : probe_x :=
    mkPX (x_core p) (Some (repeat (1 * sx, 1 * sy, 1 * sz) (Z.to_nat (x_numel p))))
         (x_shapes p) (x_dead p) (x_freq p) (x_bw p) (x_meta p) (x_numel p).

  (* a motion of Model/Probe.v on the whole object: only locations / orientations / pcs are
     assigned *)
  Definition with_core (p : probe_x) (c : probe (T:=T)) : probe_x :=
    mkPX c (x_dims p) (x_shapes p) (x_dead p) (x_freq p) (x_bw p) (x_meta p) (x_numel p).

  Definition apply_op_x (o : op (T:=T)) (p : probe_x) : option probe_x :=
    match apply_op N o (x_core p) with None => None | Some c => Some (with_core p c) end.

  Fixpoint run_ops_x (ops : list (op (T:=T))) (p : probe_x) : option probe_x :=
    match ops with
    | [] => Some p
    | o :: rest => match apply_op_x o p with None => None | Some q => run_ops_x rest q end
    end.

  (* ---- placing a probe: io.native.probe_from_conf / measurement ------------------------ *)
  (* np.deg2rad *)
  Definition deg2rad (x : T) : T := x * (npi N / nofZ N 180).

  (* the `apply_probe_location` block of probe_from_conf: each key of conf["probe_location"]
     is optional;
       ref_element : set_reference_element(ref); translate_to_point_O()
       angle_deg   : rotate(rotation_matrix_y(deg2rad(angle)))           (about O)
       standoff    : translate([0, 0, standoff]) *)
  Definition apply_probe_location (ref : option refelt) (angle_deg standoff : option T)
      (p : probe (T:=T)) : option (probe (T:=T)) :=
    match (match ref with
           | None => Some p
           | Some r => match p_set_ref N r p with None => None | Some q => p_to_O N q end
           end) with
    | None => None
    | Some p1 =>
      match (match angle_deg with
             | None => Some p1
             | Some a => p_rotate N (rotation_matrix_y N (deg2rad a)) None p1
             end) with
      | None => None
      | Some p2 =>
        match standoff with
        | None => Some p2
        | Some h => p_translate N (0, 0, h) p2
        end
      end
    end.

  (* move_probe_over_flat_surface: the gate `if not probe.pcs.isclose(GCS): raise ValueError`,
     then (step V) probe.rotate(rotation_matrix_y(theta)); probe.translate((0, 0, z_o)) *)
  Definition place_over_surface (theta z_o : T) (p : probe (T:=T)) : option (probe (T:=T)) :=
    if cs_isclose (p_pcs p) (gcs N) atol_default 0
    then match p_rotate N (rotation_matrix_y N theta) None p with
         | None => None
         | Some q => p_translate N (0, 0, z_o) q
         end
    else None.
End ProbeOps.

Arguments mkPX {T}. Arguments x_core {T}. Arguments x_dims {T}. Arguments x_shapes {T}.
Arguments x_dead {T}. Arguments x_freq {T}. Arguments x_bw {T}. Arguments x_meta {T}.
Arguments x_numel {T}.
