(* Model/Pipeline.v — the public multi-frequency entry points of
   arim.models.block_in_immersion (C08), on top of Model/Amplitudes.v (ray weights of ONE ray,
   model_amplitudes_factory and the two ModelAmplitudes classes) and Model/Weights.v.

   Mirrors
     ray_weights_for_views(views, frequency, probe_element_width, use_directivity,
                           use_beamspread, use_transrefl, use_attenuation)
     scat_unshifted_transfer_functions(views, tx, rx, freq_array, scat_obj, probe_element_width,
                           use_directivity, use_beamspread, use_transrefl, use_attenuation,
                           scat_angle, numangles_for_scat_precomp, first_nonzero_freq_idx)
     arim.signal.timeshift_spectra(unshifted_x, delays, freq_array)   (both gufuncs)
     singlefreq_scat_transfer_functions / multifreq_scat_transfer_functions

   Conventions
     * Path objects are hashed by identity in the code (dict keys, sets): a path is a key
       (nat) into a table `paths`.  A view is (key of tx_path, key of rx_path, scat_key()).
     * `views` is an ordered dict: a list (of (name, view) for the two wrappers).
     * The switches are taken in the order of the Python signature
       (use_directivity, use_beamspread, use_transrefl, use_attenuation); the one-ray functions
       of Model/Amplitudes.v take (use_dir, use_tr, use_bs, use_att).  The code passes them by
       keyword; Proofs/PipelineProofs.v states which switch reaches which factor.
     * Every raise is `None`.  scat_unshifted_transfer_functions and the wrappers are
       generators: the model is the fully consumed generator (an exception raised for view n
       is raised after the results of views 0..n-1 were yielded).
     * The scatterer object is known by what the function asks of it: is it a ScatFromData
       (and its numangles), as_angles_funcs(frequency)[key], as_multi_freq_matrices(freqs,
       numangles)[key] (services of arim.scat, C09/C10; here parameters).
   Not modelled: path.rays is None (ValueError), save_debug, broadcasting of arrays whose
   shapes differ (tx/rx of different lengths, tx and rx paths with different numbers of
   scatterers: error here), paths with no element (shape (0, n): a list of rows cannot carry
   n), first_nonzero_freq_idx given as a non-integer. *)
From Coq Require Import List ZArith Bool Arith.
From Arim Require Import Base.Num Model.Interface Model.Weights Model.Beamspread Model.ScatMatrix
                         Model.Chunk Model.Amplitudes.
Import ListNotations.

Definition skey := (wmode * wmode)%type.      (* view.scat_key(): LL, LT, TL, TT *)

Record view := mkView { v_tx : nat; v_rx : nat; v_scat : skey }.

(* ---- small plumbing --------------------------------------------------------------------- *)
Section Plumbing2.
  (* shape of a 2-D array held as a list of rows *)
  Definition shape2 {V} (M : list (list V)) : nat * nat :=
    (length M, match M with [] => 0 | r :: _ => length r end).

  (* a loop over two arrays that must have the same length *)
  Definition zipM {A B R} (f : A -> B -> option R) (l1 : list A) (l2 : list B) : option (list R) :=
    if length l1 =? length l2 then mapM (fun p => f (fst p) (snd p)) (combine l1 l2) else None.

  Definition get3 {V} (H : list (list (list V))) (s t b : nat) : option V :=
    bind (get2 H s t) (fun row => nth_error row b).

  (* ma[...] : every grid point *)
  Definition all_points (n : nat) : list Z := map Z.of_nat (seq 0 n).
End Plumbing2.

Section Pipeline.
  Context {T : Type} (N : Num T).
  Local Notation K := (T * T)%type.
  Let C := NumC N.

  (* ---- what the pipeline reads of a Path (after ray tracing) ----------------------------- *)
  Record path := mkPath {
    p_couplant : material K;                (* path.materials[0] *)
    p_block : material K;                   (* path.materials[1] *)
    p_rays : list (list (ray (T := T)));    (* [element][grid point]: what tx/rx_ray_weights read *)
    p_angles : list (list T);               (* RayGeometry.signed_inc_angle(-1), (ne, ng) *)
    p_times : list (list T)                 (* path.rays.times, (ne, ng) *)
  }.

  (* ---- ray_weights_for_views --------------------------------------------------------------- *)
  (* _init_ray_weights raises before any array is built *)
  Definition width_missing (use_dir : bool) (width : option T) : bool :=
    use_dir && match width with None => true | Some _ => false end.

  (* the (ne, ng) array `weights` of tx_ray_weights / rx_ray_weights: the one-ray function on
     every ray *)
  Definition weights_of_rays (f : ray (T := T) -> option (K * (T * K * T * T)))
             (rays : list (list (ray (T := T)))) : option (list (list K)) :=
    mapM (mapM (fun r => omap fst (f r))) rays.

  Definition path_tx_weights (use_dir use_tr use_bs use_att : bool) (width : option T) (frequency : T)
             (p : path) : option (list (list K)) :=
    if width_missing use_dir width then None
    else weights_of_rays (tx_ray_weights N use_dir use_tr use_bs use_att width frequency (p_couplant p))
                         (p_rays p).

  Definition path_rx_weights (use_dir use_tr use_bs use_att : bool) (width : option T) (frequency : T)
             (p : path) : option (list (list K)) :=
    if width_missing use_dir width then None
    else weights_of_rays (rx_ray_weights N use_dir use_tr use_bs use_att width frequency (p_couplant p) (p_block p))
                         (p_rays p).

  (* RayWeights: one entry per distinct path; tx_ray_weights_dict / rx_ray_weights_dict have
     a value only for the paths used on that side *)
  Record rw_entry := mkEntry {
    e_path : nat;
    e_angles : list (list T);               (* scattering_angles_dict[path] *)
    e_tx : option (list (list K));          (* tx_ray_weights_dict[path], if path in all_tx_paths *)
    e_rx : option (list (list K))           (* rx_ray_weights_dict[path], if path in all_rx_paths *)
  }.

  Definition mem (k : nat) (l : list nat) : bool := existsb (Nat.eqb k) l.

  (*  all_tx_paths = {view.tx_path ...}; all_rx_paths = {view.rx_path ...}; all_paths = union
      for path in all_paths:   (set order: any; the result is a dict, an error is an error)
          scat_angle_dict[path] = signed_inc_angle(-1)
          if path in all_tx_paths: tx_ray_weights(path, ray_geometry, **model_options)
          if path in all_rx_paths: rx_ray_weights(path, ray_geometry, **model_options)     *)
  Definition ray_weights_for_views (paths : list path) (views : list view) (frequency : T)
             (probe_element_width : option T)
             (use_directivity use_beamspread use_transrefl use_attenuation : bool)
    : option (list rw_entry) :=
    let all_tx := map v_tx views in
    let all_rx := map v_rx views in
    mapM (fun k =>
            bind (nth_error paths k) (fun p =>
            bind (if mem k all_tx
                  then omap Some (path_tx_weights use_directivity use_transrefl use_beamspread use_attenuation
                                                  probe_element_width frequency p)
                  else Some None) (fun wtx =>
            bind (if mem k all_rx
                  then omap Some (path_rx_weights use_directivity use_transrefl use_beamspread use_attenuation
                                                  probe_element_width frequency p)
                  else Some None) (fun wrx =>
            Some (mkEntry k (p_angles p) wtx wrx)))))
         (nodup Nat.eq_dec (all_tx ++ all_rx)).

  (* dict lookups: None = KeyError *)
  Definition rw_find (rw : list rw_entry) (k : nat) : option rw_entry :=
    find (fun e => e_path e =? k) rw.
  Definition rw_tx (rw : list rw_entry) (k : nat) : option (list (list K)) := bind (rw_find rw k) e_tx.
  Definition rw_rx (rw : list rw_entry) (k : nat) : option (list (list K)) := bind (rw_find rw k) e_rx.
  Definition rw_angles (rw : list rw_entry) (k : nat) : option (list (list T)) := omap e_angles (rw_find rw k).

  (* ---- model_amplitudes_factory(tx, rx, view, ray_weights, scattering, scat_angle)[...] ------- *)
  Inductive scattering :=
  | ScatFn (Sf : T -> T -> K)               (* a function of (inc_theta, out_theta) *)
  | ScatMat (M : list (list K)).            (* a matrix: has .shape *)

  Definition model_coefficients (P : T) (tx rx : list Z) (v : view) (rw : list rw_entry)
             (sc : skey -> scattering) (scat_angle : T) : option (list (list K)) :=
    bind (rw_tx rw (v_tx v)) (fun Qtx =>
    bind (rw_rx rw (v_rx v)) (fun Qrx =>
    bind (rw_angles rw (v_tx v)) (fun Ttx =>
    bind (rw_angles rw (v_rx v)) (fun Trx =>
    bind (factory tx rx (fst (shape2 Qtx)) (snd (shape2 Qtx)) Qtx Qrx Ttx Trx scat_angle) (fun o =>
    match sc (v_scat v) with
    | ScatFn Sf => getitem_fn N Sf o (all_points (ma_numpoints o))
    | ScatMat M => getitem_mat N P M o (all_points (ma_numpoints o))
    end))))).

  (* ---- scat_unshifted_transfer_functions -------------------------------------------------------- *)
  Record scat_obj := mkScat {
    so_from_data : option Z;                                  (* isinstance(scat_obj, ScatFromData): its numangles *)
    so_funcs : T -> skey -> T -> T -> K;                      (* as_angles_funcs(frequency)[key] *)
    so_matrices : list T -> Z -> skey -> list (list (list K)) (* as_multi_freq_matrices(freqs, numangles)[key]: [freq_idx] is a matrix *)
  }.

  (* if first_nonzero_freq_idx is None: 0 if numfreq == 1 else 1 *)
  Definition default_first (numfreq : nat) (first : option Z) : Z :=
    match first with
    | Some z => z
    | None => if numfreq =? 1 then 0%Z else 1%Z
    end.

  (* Where `nonzero_freq_array = freq_array[first:]` starts and, equally, the bin
     `first + 0` written for its first entry (numpy index on an axis of length numfreq).
     first >= 0: the slice clips at numfreq.  -numfreq <= first < 0: counted from the end, and
     first + k stays negative: the same bins.  first < -numfreq: the slice starts at 0 but
     the write at bin `first` raises IndexError (None); with no frequency nothing is written. *)
  Definition first_bin (numfreq : nat) (z : Z) : option nat :=
    if (0 <=? z)%Z || (numfreq =? 0) then Some (Nat.min numfreq (Z.to_nat z))
    else if (- Z.of_nat numfreq <=? z)%Z then Some (Z.to_nat (Z.of_nat numfreq + z))
    else None.

  Definition nonzero_start (numfreq : nat) (z : Z) : nat :=
    match first_bin numfreq z with Some off => off | None => 0 end.

  (* scat_matrices: precomputed when the object holds data or numangles_for_scat_precomp > 0 *)
  Definition precompute (so : scat_obj) (nonzero : list T) (numangles : Z)
    : option (skey -> list (list (list K))) :=
    match so_from_data so with
    | Some n => Some (so_matrices so nonzero n)
    | None => if (0 <? numangles)%Z then Some (so_matrices so nonzero numangles) else None
    end.

  (* scattering = {key: mat[freq_idx]} if scat_matrices else scat_obj.as_angles_funcs(frequency) *)
  Definition scattering_at (so : scat_obj) (mats : option (skey -> list (list (list K))))
             (k : nat) (frequency : T) (key : skey) : scattering :=
    match mats with
    | Some m => ScatMat (nth k (m key) [])
    | None => ScatFn (so_funcs so frequency key)
    end.

  Definition cconj (z : K) : K := (fst z, nopp N (snd z)).       (* np.conj *)

  (* delays = (np.take(tx_path.rays.times, tx, axis=0) + np.take(rx_path.rays.times, rx, axis=0)).T *)
  Definition view_delays (ptx prx : path) (tx rx : list Z) : option (list (list T)) :=
    let ns := snd (shape2 (p_times ptx)) in
    bind (take (p_times ptx) tx) (fun a =>
    bind (take (p_times prx) rx) (fun b =>
    if has_shape (length tx) ns a && has_shape (length tx) ns b
    then transpose ns (map2 (map2 (nadd N)) a b) else None)).

  (* partial_transfer_function_f = zeros((ns, nt, numfreq));
     partial_transfer_function_f[..., first + k] = conj(coefficients_k)   for every k:
     row (s, t) = `off` zeros, then the conjugated coefficients in the order of the
     non-zero frequencies *)
  Definition bins (off : nat) (coefs : list (list (list K))) (s t : nat) : option (list K) :=
    omap (fun l => repeat (n0 C) off ++ l) (mapM (fun Pk => omap cconj (get2 Pk s t)) coefs).

  Definition assemble_tf (ns nt off : nat) (coefs : list (list (list K))) : option (list (list (list K))) :=
    if forallb (has_shape ns nt) coefs        (* the assignment of a (ng, nt') array to a (ns, nt) slot *)
    then mapM (fun s => mapM (fun t => bins off coefs s t) (seq 0 nt)) (seq 0 ns)
    else None.

  (* the loop `for freq_idx, frequency in enumerate(nonzero_freq_array)` of one view *)
  Definition coefficients_allfreq (P : T) (tx rx : list Z) (v : view) (so : scat_obj)
             (mats : option (skey -> list (list (list K)))) (nonzero : list T)
             (rws : list (list rw_entry)) (scat_angle : T) : option (list (list (list K))) :=
    mapM (fun x => let k := fst (fst x) in let f := snd (fst x) in let rw := snd x in
                   model_coefficients P tx rx v rw (scattering_at so mats k f) scat_angle)
         (combine (combine (seq 0 (length nonzero)) nonzero) rws).

  Definition unshifted_for_view (P : T) (paths : list path) (tx rx : list Z) (so : scat_obj)
             (mats : option (skey -> list (list (list K)))) (nonzero : list T) (off : nat)
             (rws : list (list rw_entry)) (scat_angle : T) (v : view)
    : option (list (list (list K)) * list (list T)) :=
    bind (nth_error paths (v_tx v)) (fun ptx =>
    bind (nth_error paths (v_rx v)) (fun prx =>
    let ns := snd (shape2 (p_times ptx)) in          (* numscatterers = tx_path.rays.times.shape[1] *)
    bind (view_delays ptx prx tx rx) (fun delays =>
    bind (coefficients_allfreq P tx rx v so mats nonzero rws scat_angle) (fun coefs =>
    bind (assemble_tf ns (length tx) off coefs) (fun H => Some (H, delays)))))).

  Definition scat_unshifted_transfer_functions (P : T) (paths : list path) (views : list view)
             (tx rx : list Z) (freq_array : list T) (so : scat_obj) (probe_element_width : option T)
             (use_directivity use_beamspread use_transrefl use_attenuation : bool)
             (scat_angle : T) (numangles_for_scat_precomp : Z) (first_nonzero_freq_idx : option Z)
    : option (list (list (list (list K)) * list (list T))) :=
    let numfreq := length freq_array in
    let first := default_first numfreq first_nonzero_freq_idx in
    let nonzero := skipn (nonzero_start numfreq first) freq_array in
    (* one ray_weights_for_views call per non-zero frequency, same switches *)
    bind (mapM (fun frequency =>
                  ray_weights_for_views paths views frequency probe_element_width
                                        use_directivity use_beamspread use_transrefl use_attenuation)
               nonzero) (fun rws =>
    let mats := precompute so nonzero numangles_for_scat_precomp in
    mapM (fun v => bind (first_bin numfreq first) (fun off =>
                   unshifted_for_view P paths tx rx so mats nonzero off rws scat_angle v)) views).

  (* ---- arim.signal.timeshift_spectra -------------------------------------------------------------- *)
  (* cmath.exp(-2j * np.pi * f * delay): the products are evaluated left to right, the real
     part of the exponent is (minus) zero *)
  Definition phase (f d : T) : K :=
    let y := nmul N (nmul N (nmul N (nofZ N (-2)) (npi N)) f) d in (ncos N y, nsin N y).

  (* one (scatterer, timetrace): num_x_freq == 1 -> _timeshift_spectra_singlef (the one value for
     every frequency), else _timeshift_spectra_multif (signature (numfreq),(numfreq): equal lengths) *)
  Definition timeshift_row (freqs : list T) (x : list K) (d : T) : option (list K) :=
    match x with
    | [x0] => Some (map (fun f => nmul C (phase f d) x0) freqs)
    | _ => if length x =? length freqs
           then Some (map2 (fun f xk => nmul C (phase f d) xk) freqs x) else None
    end.

  Definition timeshift_spectra (X : list (list (list K))) (delays : list (list T)) (freqs : list T)
    : option (list (list (list K))) :=
    zipM (fun Xs ds => zipM (timeshift_row freqs) Xs ds) X delays.

  (* if tf.shape[0] == 1: tf[0]  else: tf.sum(axis=0)   (first axis: accumulated in order,
     starting from the first scatterer; no scatterer: zeros) *)
  Definition add_arrays (a b : list (list K)) : list (list K) := map2 (map2 (nadd C)) a b.

  Definition sum_scatterers (nt nf : nat) (tf : list (list (list K))) : list (list K) :=
    match tf with
    | [t0] => t0
    | [] => repeat (repeat (n0 C) nf) nt
    | t0 :: rest => fold_left add_arrays rest t0
    end.

  Definition shifted_sum (freq_array : list T) (nt : nat) (u : list (list (list K)) * list (list T))
    : option (list (list K)) :=
    omap (sum_scatterers nt (length freq_array)) (timeshift_spectra (fst u) (snd u) freq_array).

  (* ---- the two wrappers ------------------------------------------------------------------------------ *)
  Section Wrappers.
    Context {Name : Type}.

    Definition zip_names (views : list (Name * view)) (freq_array : list T) (nt : nat)
               (us : list (list (list (list K)) * list (list T))) : option (list (Name * list (list K))) :=
      mapM (fun nu => omap (pair (fst nu)) (shifted_sum freq_array nt (snd nu)))
           (combine (map fst views) us).

    (* the unshifted function is called with the scalar `frequency` (np.atleast_1d: one
       frequency, hence bin 0) and without first_nonzero_freq_idx *)
    Definition singlefreq_scat_transfer_functions (P : T) (paths : list path) (views : list (Name * view))
               (tx rx : list Z) (frequency : T) (freq_array : list T) (so : scat_obj)
               (probe_element_width : option T)
               (use_directivity use_beamspread use_transrefl use_attenuation : bool)
               (scat_angle : T) (numangles_for_scat_precomp : Z)
      : option (list (Name * list (list K))) :=
      bind (scat_unshifted_transfer_functions P paths (map snd views) tx rx [frequency] so probe_element_width
              use_directivity use_beamspread use_transrefl use_attenuation scat_angle
              numangles_for_scat_precomp None)
           (zip_names views freq_array (length tx)).

    Definition multifreq_scat_transfer_functions (P : T) (paths : list path) (views : list (Name * view))
               (tx rx : list Z) (freq_array : list T) (so : scat_obj)
               (probe_element_width : option T)
               (use_directivity use_beamspread use_transrefl use_attenuation : bool)
               (scat_angle : T) (numangles_for_scat_precomp : Z)
      : option (list (Name * list (list K))) :=
      bind (scat_unshifted_transfer_functions P paths (map snd views) tx rx freq_array so probe_element_width
              use_directivity use_beamspread use_transrefl use_attenuation scat_angle
              numangles_for_scat_precomp None)
           (zip_names views freq_array (length tx)).
  End Wrappers.
End Pipeline.

Arguments mkPath {T}. Arguments p_couplant {T}. Arguments p_block {T}. Arguments p_rays {T}.
Arguments p_angles {T}. Arguments p_times {T}.
Arguments mkEntry {T}. Arguments e_path {T}. Arguments e_angles {T}. Arguments e_tx {T}. Arguments e_rx {T}.
Arguments ScatFn {T}. Arguments ScatMat {T}.
Arguments mkScat {T}. Arguments so_from_data {T}. Arguments so_funcs {T}. Arguments so_matrices {T}.
