(* Model/Registration.v — front-wall registration (C19).

   Mirrors, operation for operation:
     arim.measurement.move_probe_over_flat_surface   (move_probe)
     arim.measurement.detect_surface_from_extrema    (detect_surface)
     arim.measurement.find_probe_loc_from_frontwall  (find_probe_loc; after
         Probe.reset_position, i.e. on the PCS coordinates with PCS = GCS)
     arim.core.Time.samples / Time.window            (time_samples, window)
     numpy.searchsorted side='left' / 'right' on a sorted vector (ss_left, ss_right)
     numpy.argmax (first maximum), numpy.min / numpy.max, numpy.isclose
     arim.geometry.rotation_matrix_y, rotate (einsum "ji,i->j"), Points.translate,
     CoordinateSystem.rotate / translate.

   numpy.polyfit(x, d, 1) is an ORACLE: `move_probe` takes the fit as a function
   argument; `fit_line` is the closed-form solution of the normal equations, used
   for the executions and proved (Proofs/RegistrationProofs.v) to be the unique
   least-squares minimiser whenever two abscissae differ.

   Every `raise` of the code is an explicit error value.  As in the code, a PCS
   within 1e-8 of the GCS is accepted; the abscissae of the fit are the PCS
   coordinates (convert_from_gcs) while the GCS coordinates are moved. *)
From Coq Require Import ZArith List Bool.
From Arim Require Import Base.Num.
Import ListNotations.

Inductive reg_error : Set :=
| E_PcsNotGcs          (* ValueError: PCS and GCS differ *)
| E_TooFewPulseEcho    (* ValueError: fewer than 2 usable pulse-echo timetraces *)
| E_Shape              (* IndexError: one distance per timetrace is required *)
| E_NegativeDistance   (* ValueError *)
| E_NotOnOx            (* NotImplementedError: an element is not on the axis Ox *)
| E_Index              (* IndexError: element index out of range *)
| E_Degenerate         (* AssertionError: isclose(xA, xB) *)
| E_NoSolution         (* RuntimeError: arcsin of a slope outside [-1, 1] *)
| E_EmptyWindow.       (* ValueError: argmax of an empty sequence *)

Definition reg_error_code (e : reg_error) : Z :=
  match e with
  | E_PcsNotGcs => 1 | E_TooFewPulseEcho => 2 | E_Shape => 3 | E_NegativeDistance => 4
  | E_NotOnOx => 5 | E_Index => 6 | E_Degenerate => 7 | E_NoSolution => 8 | E_EmptyWindow => 9
  end%Z.

Section Registration.
  Context {T : Type} (N : Num T).
  Local Notation "a + b" := (nadd N a b) : num_scope.
  Local Notation "a - b" := (nsub N a b) : num_scope.
  Local Notation "a * b" := (nmul N a b) : num_scope.
  Local Notation "a / b" := (ndiv N a b) : num_scope.
  Local Notation zero := (n0 N).
  Local Notation one := (n1 N).

  Definition V3 : Type := (T * T * T)%type.
  Definition vx (p : V3) : T := fst (fst p).
  Definition vy (p : V3) : T := snd (fst p).
  Definition vz (p : V3) : T := snd p.

  (* ---- numpy helpers ---------------------------------------------------- *)
  Definition atol8 : T := (one / nofZ N 100000000)%num.   (* 1e-8 *)
  Definition rtol5 : T := (one / nofZ N 100000)%num.      (* 1e-5 *)

  (* np.isclose(a, b): |a - b| <= atol + rtol * |b| *)
  Definition isclose (a b : T) : bool :=
    nleb N (nabs N (a - b)%num) (atol8 + rtol5 * nabs N b)%num.
  (* np.allclose(a, b, rtol=0, atol=1e-8), one component *)
  Definition isclose_abs (a b : T) : bool := nleb N (nabs N (a - b)%num) atol8.
  Definition v3_close_abs (p q : V3) : bool :=
    isclose_abs (vx p) (vx q) && isclose_abs (vy p) (vy q) && isclose_abs (vz p) (vz q).

  (* np.min / np.max of a non-empty vector *)
  Definition lmin (l : list T) : T :=
    match l with [] => zero | x :: l' => fold_left (nmin N) l' x end.
  Definition lmax (l : list T) : T :=
    match l with [] => zero | x :: l' => fold_left (nmax N) l' x end.

  (* arim.geometry.norm2 *)
  Definition norm3 (p : V3) : T := nsqrt N (vx p * vx p + vy p * vy p + vz p * vz p)%num.

  (* ---- coordinate systems ------------------------------------------------ *)
  (* (origin, i_hat, j_hat) *)
  Definition CS : Type := (V3 * V3 * V3)%type.
  Definition gcs : CS := ((zero, zero, zero), (one, zero, zero), (zero, one, zero)).
  (* CoordinateSystem.isclose(other, atol=1e-8, rtol=0) *)
  Definition cs_isclose (a b : CS) : bool :=
    v3_close_abs (fst (fst a)) (fst (fst b)) && v3_close_abs (snd (fst a)) (snd (fst b))
    && v3_close_abs (snd a) (snd b).

  Definition v3add (p q : V3) : V3 := ((vx p + vx q)%num, (vy p + vy q)%num, (vz p + vz q)%num).
  Definition v3sub (p q : V3) : V3 := ((vx p - vx q)%num, (vy p - vy q)%num, (vz p - vz q)%num).

  (* rotation_matrix_y(theta) = ((c, 0, s), (0, 1, 0), (-s, 0, c)); rotate(coords, R):
     out_j = sum_i R[j, i] * in_i *)
  Definition rot_y (theta : T) (p : V3) : V3 :=
    let s := nsin N theta in let c := ncos N theta in
    ((c * vx p + zero * vy p + s * vz p)%num,
     (zero * vx p + one * vy p + zero * vz p)%num,
     (nopp N s * vx p + zero * vy p + c * vz p)%num).

  (* CoordinateSystem.rotate(R, centre=None) then .translate(v) *)
  Definition cs_rot_y (theta : T) (cs : CS) : CS :=
    let o := fst (fst cs) in let i := snd (fst cs) in let j := snd cs in
    let o' := rot_y theta o in
    (o', v3sub (rot_y theta (v3add o i)) o', v3sub (rot_y theta (v3add o j)) o').
  Definition cs_translate (v : V3) (cs : CS) : CS :=
    (v3add (fst (fst cs)) v, snd (fst cs), snd cs).

  (* CoordinateSystem.convert_from_gcs: (p + (-origin)) @ [i_hat j_hat k_hat],
     k_hat = np.cross(i_hat, j_hat) *)
  Definition v3opp (p : V3) : V3 := (nopp N (vx p), nopp N (vy p), nopp N (vz p)).
  Definition v3dot (p q : V3) : T := (vx p * vx q + vy p * vy q + vz p * vz q)%num.
  Definition v3cross (p q : V3) : V3 :=
    ((vy p * vz q - vz p * vy q)%num, (vz p * vx q - vx p * vz q)%num, (vx p * vy q - vy p * vx q)%num).
  Definition from_gcs (cs : CS) (p : V3) : V3 :=
    let o := fst (fst cs) in let i := snd (fst cs) in let j := snd cs in
    let q := v3add p (v3opp o) in
    (v3dot q i, v3dot q j, v3dot q (v3cross i j)).

  (* ---- pulse-echo selection ---------------------------------------------- *)
  (* dead_elements = arange(n)[probe.dead_elements]; np.any(tx == dead_elements) *)
  Definition is_dead (dead : list bool) (e : Z) : bool :=
    (0 <=? e)%Z && nth (Z.to_nat e) dead false.

  Definition Trace : Type := (Z * Z * T)%type.   (* (tx, rx, distance) *)
  Definition tr_tx (t : Trace) : Z := fst (fst t).
  Definition tr_rx (t : Trace) : Z := snd (fst t).
  Definition tr_d (t : Trace) : T := snd t.

  Definition pulse_echo (dead : list bool) (tx rx : Z) : bool :=
    (tx =? rx)%Z && negb (is_dead dead tx) && negb (is_dead dead rx).

  (* numpy integer indexing of a vector of length n (negative indices wrap) *)
  Definition py_index (n : Z) (i : Z) : option nat :=
    if (0 <=? i)%Z && (i <? n)%Z then Some (Z.to_nat i)
    else if (- n <=? i)%Z && (i <? 0)%Z then Some (Z.to_nat (n + i))
    else None.

  Fixpoint lookup_all (locs : list V3) (idx : list Z) : option (list T) :=
    match idx with
    | [] => Some []
    | i :: idx' =>
        match py_index (Z.of_nat (length locs)) i, lookup_all locs idx' with
        | Some k, Some r => Some (vx (nth k locs (zero, zero, zero)) :: r)
        | _, _ => None
        end
    end.

  (* ---- closed-form least-squares line: d ~ p1 * x + p0; returns (p1, p0) ---- *)
  Definition fit_line (xs ds : list T) : T * T :=
    let n := nofZ N (Z.of_nat (length xs)) in
    let sx := nsum N xs in
    let sy := nsum N ds in
    let sxx := nsum N (map (fun x => x * x)%num xs) in
    let sxy := nsum N (map (fun p => fst p * snd p)%num (combine xs ds)) in
    let den := (n * sxx - sx * sx)%num in
    let p1 := ((n * sxy - sx * sy) / den)%num in
    let p0 := ((sy - p1 * sx) / n)%num in
    (p1, p0).

  (* ---- move_probe_over_flat_surface --------------------------------------- *)
  Record move_result : Type := mkMove {
    mr_z_o : T;            (* iso.z_o *)
    mr_theta : T;          (* iso.theta *)
    mr_locs : list V3;     (* frame.probe.locations after the call *)
    mr_pcs : CS            (* frame.probe.pcs after the call *)
  }.

  Definition selected (dead : list bool) (tx rx : list Z) (ds : list T) : list Trace :=
    filter (fun t => pulse_echo dead (tr_tx t) (tr_rx t)) (combine (combine tx rx) ds).

  Definition move_probe (fit : list T -> list T -> T * T)
             (pcs : CS) (tx rx : list Z) (dead : list bool) (locs : list V3) (ds : list T)
    : reg_error + move_result :=
    if negb (cs_isclose pcs gcs) then inl E_PcsNotGcs else
    let npe := length (filter (fun p => pulse_echo dead (fst p) (snd p)) (combine tx rx)) in
    if (npe <? 2)%nat then inl E_TooFewPulseEcho else
    if negb (length ds =? length tx)%nat then inl E_Shape else
    let sel := selected dead tx rx ds in
    let sd := map tr_d sel in
    if existsb (fun d => nltb N d zero) sd then inl E_NegativeDistance else
    let locs_pcs := map (from_gcs pcs) locs in       (* probe.locations_pcs *)
    if negb (forallb (fun p => isclose (nabs N (vx p)) (norm3 p)) locs_pcs) then inl E_NotOnOx else
    match lookup_all locs_pcs (map tr_tx sel) with
    | None => inl E_Index
    | Some sx =>
        let xA := lmin sx in let xB := lmax sx in
        if isclose xA xB then inl E_Degenerate else
        let p := fit sx sd in
        let p1 := fst p in let p0 := snd p in
        let z_o := nopp N p0 in
        if nleb N (nopp N one) p1 && nleb N p1 one then
          let theta := nasin N p1 in
          let tr := (zero, zero, z_o) in
          inr (mkMove z_o theta
                      (map (fun q => v3add (rot_y theta q) tr) locs)
                      (cs_translate tr (cs_rot_y theta pcs)))
        else inl E_NoSolution
    end.

  (* ---- Time ------------------------------------------------------------- *)
  Definition zrange (num : Z) : list Z := map Z.of_nat (seq 0 (Z.to_nat num)).

  (* ut.make_timevect: y = arange(num); if num > 1: y *= step; y += start *)
  Definition time_sample (start step : T) (num k : Z) : T :=
    let y := nofZ N k in
    let y := if (1 <? num)%Z then (y * step)%num else y in
    (y + start)%num.
  Definition time_samples (start step : T) (num : Z) : list T :=
    map (time_sample start step num) (zrange num).

  (* np.searchsorted(sorted, v, side): number of leading entries < v (left) / <= v (right) *)
  Fixpoint ss_left (l : list T) (v : T) : nat :=
    match l with [] => O | s :: l' => if nltb N s v then S (ss_left l' v) else O end.
  Fixpoint ss_right (l : list T) (v : T) : nat :=
    match l with [] => O | s :: l' => if nleb N s v then S (ss_right l' v) else O end.

  (* Time.window(tmin, tmax, endpoint_left, endpoint_right) -> slice(imin, imax) *)
  Definition window (samples : list T) (tmin tmax : option T) (endl endr : bool) : nat * nat :=
    (match tmin with
     | None => O
     | Some v => if endl then ss_left samples v else ss_right samples v
     end,
     match tmax with
     | None => length samples
     | Some v => if endr then ss_right samples v else ss_left samples v
     end).

  (* l[i:j] for 0 <= i, j <= len(l) *)
  Definition slice {A} (i j : nat) (l : list A) : list A := firstn (j - i) (skipn i l).

  (* np.argmax: index of the first maximum *)
  Fixpoint argmax_from (best : T) (bi i : nat) (l : list T) : nat :=
    match l with
    | [] => bi
    | v :: l' => if nltb N best v then argmax_from v i (S i) l' else argmax_from best bi (S i) l'
    end.
  Definition argmax_first (l : list T) : option nat :=
    match l with [] => None | v :: l' => Some (argmax_from v O 1%nat l') end.

  (* one timetrace of detect_surface_from_extrema *)
  Definition detect_trace (samples : list T) (imin imax : nat) (row : list T) : option T :=
    match argmax_first (map (nabs N) (slice imin imax row)) with
    | None => None
    | Some k => Some (nth k (slice imin imax samples) zero)
    end.

  Fixpoint all_some {A} (l : list (option A)) : option (list A) :=
    match l with
    | [] => Some []
    | None :: _ => None
    | Some a :: l' => match all_some l' with Some r => Some (a :: r) | None => None end
    end.

  Definition detect_surface (samples : list T) (rows : list (list T)) (tmin tmax : option T)
    : option (list T) :=
    let w := window samples tmin tmax true true in
    match slice (fst w) (snd w) samples with
    | [] => None        (* argmax over an empty axis raises, whatever the number of rows *)
    | _ => all_some (map (detect_trace samples (fst w) (snd w)) rows)
    end.

  (* Time.closest_index: argmin |samples - t| (first) = argmax of the negated distances *)
  Definition closest_index (samples : list T) (t : T) : option nat :=
    argmax_first (map (fun s => nopp N (nabs N (s - t)%num)) samples).

  (* ---- find_probe_loc_from_frontwall -------------------------------------- *)
  Definition find_probe_loc (fit : list T -> list T -> T * T)
             (start step : T) (num : Z) (rows : list (list T))
             (tx rx : list Z) (dead : list bool) (locs_pcs : list V3)
             (c : T) (tmin tmax : option T)
    : reg_error + (move_result * list T) :=
    match detect_surface (time_samples start step num) rows tmin tmax with
    | None => inl E_EmptyWindow
    | Some times =>
        let ds := map (fun t => (t * c / nofZ N 2)%num) times in
        match move_probe fit gcs tx rx dead locs_pcs ds with
        | inl e => inl e
        | inr r => inr (r, times)
        end
    end.
End Registration.
