(* Model/Signal.v — time-domain synthesis (C11).

   Mirrors, operation for operation:
     arim.model.make_toneburst / _rotate_array / make_toneburst2
     numpy.hanning                       (0.5 + 0.5*cos(pi*n/(M-1)), n = 1-M+2k; ones(1) for M = 1)
     arim.signal.rfft_to_hilbert         (the weight vector h; the inverse FFT is an oracle)
     arim.signal.timeshift_spectra       (phase factor exp(-2j*pi*f*delay))
     arim.model.transfer_func_to_timetraces / _timeshift_timedomain
                                         (delay split q = round(d/dt), rem = d - q*dt;
                                          slice [q - t0, q - t0 + n) accumulated with +=)
   Samples are functions of a Z index (0 outside the stored range). *)
From Coq Require Import ZArith List Bool.
From Arim Require Import Base.Num.
Import ListNotations.
Local Open Scope Z_scope.

Section Signal.
  Context {T : Type} (N : Num T).
  Local Notation "a + b" := (nadd N a b) : num_scope.
  Local Notation "a - b" := (nsub N a b) : num_scope.
  Local Notation "a * b" := (nmul N a b) : num_scope.
  Local Notation "a / b" := (ndiv N a b) : num_scope.
  Local Notation two := (nofZ N 2).
  Local Notation half := (ndiv N (n1 N) (nofZ N 2)).

  (* np.ceil *)
  Definition nceil (x : T) : Z := - nfloor N (nopp N x).

  (* len_pulse = int(np.ceil(num_cycles / centre_freq / dt)); forced odd *)
  Definition pulse_len (cycles f dt : T) : Z :=
    let l := nceil (cycles / f / dt)%num in
    if Z.even l then l + 1 else l.

  (* np.hanning(M)[k] *)
  Definition hanning (M k : Z) : T :=
    if M =? 1 then n1 N
    else (half + half * ncos N (npi N * nofZ N (1 - M + 2 * k) / nofZ N (M - 1)))%num.

  (* real carrier: cos(2*pi*dt*f*(t - h)) *)
  Definition carrier (f dt : T) (h k : Z) : T :=
    ncos N (two * npi N * dt * f * nofZ N (k - h))%num.

  (* toneburst (not wrapped) at sample k of a vector of num_samples samples *)
  Definition toneburst_at (cycles f dt : T) (num_samples k : Z) : T :=
    let M := pulse_len cycles f dt in
    if (0 <=? k) && (k <? M) && (k <? num_samples)
    then (carrier f dt (M / 2) k * hanning M k)%num
    else n0 N.

  (* wrap=True: _rotate_array(full, h) = concatenate([arr[h:], arr[:h]]) *)
  Definition toneburst_wrapped_at (cycles f dt : T) (num_samples k : Z) : T :=
    let h := pulse_len cycles f dt / 2 in
    if (0 <=? k) && (k <? num_samples)
    then toneburst_at cycles f dt num_samples ((k + h) mod num_samples)
    else n0 N.

  (* make_toneburst raises ValueError in these cases *)
  Definition toneburst_args_ok (cycles f dt : T) (num_samples : option Z) : bool :=
    nltb N (n0 N) dt && nltb N (n0 N) f && nltb N (n0 N) cycles &&
    match num_samples with
    | None => true
    | Some ns => (0 <? ns) && (pulse_len cycles f dt <=? ns)
    end.

  (* make_toneburst2: m zeros, the pulse, p zeros (then padded to total_len >= m+n+p by
     scipy.fftpack.next_fast_len, an oracle); returns (time start, t0_idx) *)
  Definition toneburst2_t0_idx (cycles f dt : T) (num_before : Z) : Z :=
    let n := pulse_len cycles f dt in num_before * n + n / 2.

  Definition toneburst2_min_len (cycles f dt : T) (num_before num_after : Z) : Z :=
    let n := pulse_len cycles f dt in num_before * n + n + num_after * n.

  Definition toneburst2_at (cycles f dt : T) (num_before k : Z) : T :=
    let n := pulse_len cycles f dt in
    toneburst_at cycles f dt n (k - num_before * n).

  (* Time(-t0_idx*dt, dt, len).samples[k] = start + k*dt *)
  Definition toneburst2_time_start (cycles f dt : T) (num_before : Z) : T :=
    (nofZ N (- toneburst2_t0_idx cycles f dt num_before) * dt)%num.
  Definition time_sample (start dt : T) (k : Z) : T := (start + nofZ N k * dt)%num.

  (* ---- rfft_to_hilbert weights: h has the length of the half spectrum
     (numfreq = n/2 + 1 for xf = rfft(x)); entries beyond numfreq do not exist and the
     inverse FFT of length n zero-pads them. *)
  Definition hilbert_weight (n numfreq k : Z) : Z :=
    if (0 <=? k) && (k <? numfreq) then
      if Z.even n then
        (if (k =? 0) || (k =? n / 2) then 1 else if (1 <=? k) && (k <? n / 2) then 2 else 0)
      else
        (if k =? 0 then 1 else if (1 <=? k) && (k <? (n + 1) / 2) then 2 else 0)
    else 0 (* zero padding by ifft(h * xf, n) *).

  (* scipy.signal.hilbert's full-length weight vector (the definition of the
     analytic signal of a length-n sequence) *)
  Definition scipy_hilbert_weight (n k : Z) : Z :=
    if Z.even n then
      (if (k =? 0) || (k =? n / 2) then 1 else if (1 <=? k) && (k <? n / 2) then 2 else 0)
    else
      (if k =? 0 then 1 else if (1 <=? k) && (k <? (n + 1) / 2) then 2 else 0).

  (* ---- delay split in transfer_func_to_timetraces (after the fixes: nearest whole
     sample, np.rint / numba round = half to even, and the signed remainder derived from
     the same quotient) *)
  Definition delay_idx (d dt : T) : Z := nround N (d / dt)%num.
  Definition delay_rem (d dt : T) : T := (d - nofZ N (delay_idx d dt) * dt)%num.

  (* _timeshift_timedomain for one timetrace: out[q - t0 : q - t0 + n] += resp.
     The property only speaks about delays for which the whole response fits in
     the output window; otherwise Python slice semantics (negative start wraps,
     length mismatch raises) apply and the model answers None. *)
  Definition place_ok (q t0 n len : Z) : bool := (0 <=? q - t0) && (q - t0 + n <=? len).

  Definition place (resp : Z -> T) (n : Z) (q t0 len : Z) (out : Z -> T) : option (Z -> T) :=
    if place_ok q t0 n len
    then Some (fun j => let i := j - (q - t0) in
                        if (q - t0 <=? j) && (j <? q - t0 + n)
                        then nadd N (out j) (resp i) else out j)
    else None.
End Signal.
