(* Model/Probe.v — model of arim.core.Probe motions and of the probe coordinate
   system (C16).  Definitions only, written once over a Num record.

   Mirrors, statement by statement,
     src/arim/geometry.py  rotate, Points.rotate / translate, norm2,
                           CoordinateSystem.{__init__ (setters), k_hat, basis_matrix,
                           convert_from_gcs, translate, rotate}, GCS,
                           rotation_matrix_x / y / z / ypr, points_from_probe
     src/arim/core.py      Probe.{__init__ (orientations argument), make_matrix_probe,
                           locations_pcs, orientations_pcs, rotate, translate,
                           flip_probe_around_axis_Oz, set_reference_element,
                           translate_to_point_O, reset_position, to_oriented_points}

   A raise of the implementation is the error value None (the state reached when
   an exception escapes in the middle of reset_position is not modelled: a
   history ends at its first error).
   Vectors/matrices: Model/Vec3.v (matrix = triple of ROWS, as a numpy (3,3)
   array; sums of three products associated to the left). *)
From Coq Require Import List ZArith.
From Arim Require Import Base.Num Model.Vec3.
Import ListNotations.

(* reference_element argument of Probe.set_reference_element *)
Inductive refelt : Type := RefFirst | RefLast | RefMean | RefIdx (k : Z).

(* numpy indexing of axis 0 with one integer: -n <= k < n, else IndexError *)
Definition py_index {A} (l : list A) (k : Z) : option A :=
  let n := Z.of_nat (length l) in
  if (0 <=? k)%Z then (if (k <? n)%Z then nth_error l (Z.to_nat k) else None)
  else if (- n <=? k)%Z then nth_error l (Z.to_nat (n + k)) else None.

Section Probe.
  Context {T : Type} (N : Num T).
  Local Notation "a + b" := (nadd N a b).
  Local Notation "a - b" := (nsub N a b).
  Local Notation "a * b" := (nmul N a b).
  Local Notation "a / b" := (ndiv N a b).
  Local Notation "0" := (n0 N).
  Local Notation "1" := (n1 N).

  (* ---- geometry.norm2 and the check of the i_hat / j_hat setters ----------- *)
  (* out = zeros; out += x*x; out += y*y; out += z*z; sqrt(out) *)
  Definition norm2v (v : vec3 T) : T :=
    nsqrt N (((0 + vx v * vx v) + vy v * vy v) + vz v * vz v).
  (* numpy.isclose(a, 1.0): |a - 1.0| <= atol + rtol * |1.0|, rtol = 1e-5, atol = 1e-8
     (false for nan) *)
  Definition isclose1 (a : T) : bool :=
    nleb N (nabs N (a - 1)) (1 / nofZ N 100000000 + (1 / nofZ N 100000) * nabs N 1).
  (* the setters: if not np.isclose(norm2(vx, vy, vz), 1.0): raise ValueError *)
  Definition unit_ok (v : vec3 T) : bool := isclose1 (norm2v v).

  (* ---- CoordinateSystem ------------------------------------------------------ *)
  Record csys : Type := mkCS { cs_o : vec3 T; cs_i : vec3 T; cs_j : vec3 T }.

  (* CoordinateSystem(origin, i_hat, j_hat): the setters validate i_hat then j_hat
     (no orthogonality check) *)
  Definition cs_make (o i j : vec3 T) : option csys :=
    if unit_ok i then (if unit_ok j then Some (mkCS o i j) else None) else None.

  (* k_hat = np.cross(i_hat, j_hat) *)
  Definition cs_k (c : csys) : vec3 T := vcross N (cs_i c) (cs_j c).
  (* the axes as rows: np.stack((i_hat, j_hat, k_hat), axis=0) *)
  Definition cs_axes (c : csys) : mat3 T := (cs_i c, cs_j c, cs_k c).
  (* basis_matrix = np.stack((i_hat, j_hat, k_hat), axis=1): axes in columns *)
  Definition cs_basis_matrix (c : csys) : mat3 T := mtrans (cs_axes c).

  (* geometry.GCS = CoordinateSystem((0,0,0), (1,0,0), (0,1,0)) *)
  Definition gcs : csys := mkCS (0, 0, 0) (1, 0, 0) (0, 1, 0).

  (* convert_from_gcs: points_gcs.translate(-origin).coords @ basis_matrix
     (row vector times matrix: out[j] = sum_i q[i] B[i, j]) *)
  Definition cs_from_gcs (c : csys) (p : vec3 T) : vec3 T :=
    mtvec N (cs_basis_matrix c) (vadd N p (vopp N (cs_o c))).

  (* geometry.rotate(coords, R, centre): einsum('ji,i->j', R, coords [- centre]) [+ centre] *)
  Definition rotate_pt (R : mat3 T) (centre : option (vec3 T)) (p : vec3 T) : vec3 T :=
    match centre with
    | None => mvec N R p
    | Some ce => vadd N (mvec N R (vsub N p ce)) ce
    end.

  (* CoordinateSystem.translate: Points(origin).translate(vector)[()], same axes,
     through the constructor *)
  Definition cs_translate (c : csys) (v : vec3 T) : option csys :=
    cs_make (vadd N (cs_o c) v) (cs_i c) (cs_j c).

  (* CoordinateSystem.rotate: the three points O, O + i_hat, O + j_hat are rotated about
     the centre; the new axes are differences of rotated points; through the constructor *)
  Definition cs_rotate (c : csys) (R : mat3 T) (centre : option (vec3 T)) : option csys :=
    let b0 := rotate_pt R centre (cs_o c) in
    let b1 := rotate_pt R centre (vadd N (cs_o c) (cs_i c)) in
    let b2 := rotate_pt R centre (vadd N (cs_o c) (cs_j c)) in
    cs_make b0 (vsub N b1 b0) (vsub N b2 b0).

  (* ---- rotation matrices ------------------------------------------------------- *)
  Definition rot_x_cs (c s : T) : mat3 T := ((1, 0, 0), (0, c, nopp N s), (0, s, c)).
  Definition rot_y_cs (c s : T) : mat3 T := ((c, 0, s), (0, 1, 0), (nopp N s, 0, c)).
  Definition rot_z_cs (c s : T) : mat3 T := ((c, nopp N s, 0), (s, c, 0), (0, 0, 1)).
  Definition rotation_matrix_x (th : T) : mat3 T := rot_x_cs (ncos N th) (nsin N th).
  Definition rotation_matrix_y (th : T) : mat3 T := rot_y_cs (ncos N th) (nsin N th).
  Definition rotation_matrix_z (th : T) : mat3 T := rot_z_cs (ncos N th) (nsin N th).
  (* rotation_matrix_z(yaw) @ rotation_matrix_y(pitch) @ rotation_matrix_x(roll) *)
  Definition rot_ypr_cs (cy sy cp sp cr sr : T) : mat3 T :=
    mmul N (mmul N (rot_z_cs cy sy) (rot_y_cs cp sp)) (rot_x_cs cr sr).
  Definition rotation_matrix_ypr (yaw pitch roll : T) : mat3 T :=
    mmul N (mmul N (rotation_matrix_z yaw) (rotation_matrix_y pitch)) (rotation_matrix_x roll).

  (* ---- Probe ------------------------------------------------------------------ *)
  (* locations (GCS), orientations (normals, GCS; None when unknown), pcs *)
  Record probe : Type := mkProbe {
    p_locs : list (vec3 T);
    p_oris : option (list (vec3 T));
    p_pcs : csys
  }.

  (* `orientations` argument of Probe.__init__: None, one (3,) vector resized to all
     elements, or one vector per element (AssertionError when the count differs) *)
  Inductive ori_arg : Type := OriNone | OriOne (v : vec3 T) | OriEach (l : list (vec3 T)).

  Definition init_oris (n : nat) (a : ori_arg) : option (option (list (vec3 T))) :=
    match a with
    | OriNone => Some None
    | OriOne v => Some (Some (repeat v n))
    | OriEach l => if Nat.eqb (length l) n then Some (Some l) else None
    end.

  (* np.arange(num) [*= pitch if num > 1]; x -= x.mean() *)
  Definition axis_coords (num : Z) (pitch : T) : list T :=
    let ks := map (fun k => nofZ N (Z.of_nat k)) (seq 0 (Z.to_nat num)) in
    let xs := if (1 <? num)%Z then map (fun x => x * pitch) ks else ks in
    let mean := nsum N xs / nofZ N num in
    map (fun x => x - mean) xs.

  (* xx = np.tile(x, numy); yy = np.repeat(y, numx); z = 0:
     element iy * numx + ix is (x[ix], y[iy], 0) *)
  Definition matrix_locations (numx : Z) (pitch_x : T) (numy : Z) (pitch_y : T) : list (vec3 T) :=
    let xs := axis_coords numx pitch_x in
    let ys := axis_coords numy pitch_y in
    flat_map (fun y => map (fun x => (x, y, 0)) xs) ys.

  (* Probe.make_matrix_probe(numx, pitch_x, numy, pitch_y, frequency, orientations=...),
     pcs = GCS.copy(); ValueError when numx < 1 or numy < 1 *)
  Definition make_matrix_probe (numx : Z) (pitch_x : T) (numy : Z) (pitch_y : T) (a : ori_arg)
    : option probe :=
    if ((numx <? 1) || (numy <? 1))%Z%bool then None
    else
      let locs := matrix_locations numx pitch_x numy pitch_y in
      match init_oris (length locs) a with
      | None => None
      | Some os => Some (mkProbe locs os gcs)
      end.

  (* locations_pcs = pcs.convert_from_gcs(locations) *)
  Definition locations_pcs (p : probe) : list (vec3 T) := map (cs_from_gcs (p_pcs p)) (p_locs p).

  (* orientations_pcs: None when orientations is None, else
     CoordinateSystem((0,0,0), pcs.i_hat, pcs.j_hat).convert_from_gcs(orientations).
     Outer option: the constructor may raise. *)
  Definition orientations_pcs (p : probe) : option (option (list (vec3 T))) :=
    match p_oris p with
    | None => Some None
    | Some os =>
        match cs_make (0, 0, 0) (cs_i (p_pcs p)) (cs_j (p_pcs p)) with
        | None => None
        | Some c => Some (Some (map (cs_from_gcs c) os))
        end
    end.

  (* Probe.rotate(rotation_matrix, centre): locations about the centre, orientations
     about O (centre None), pcs about the centre; attributes assigned afterwards *)
  Definition p_rotate (R : mat3 T) (centre : option (vec3 T)) (p : probe) : option probe :=
    let locs := map (rotate_pt R centre) (p_locs p) in
    let oris := option_map (map (rotate_pt R None)) (p_oris p) in
    match cs_rotate (p_pcs p) R centre with
    | None => None
    | Some c => Some (mkProbe locs oris c)
    end.

  (* Probe.translate(vector): locations and pcs, not the orientations *)
  Definition p_translate (v : vec3 T) (p : probe) : option probe :=
    let locs := map (fun l => vadd N l v) (p_locs p) in
    match cs_translate (p_pcs p) v with
    | None => None
    | Some c => Some (mkProbe locs (p_oris p) c)
    end.

  (* Probe.flip_probe_around_axis_Oz: rotate(rotation_matrix_z(np.pi)) about O *)
  Definition p_flip (p : probe) : option probe := p_rotate (rotation_matrix_z (npi N)) None p.

  (* coords.mean(axis=0) *)
  Definition vsum (l : list (vec3 T)) : vec3 T := fold_left (vadd N) l (0, 0, 0).
  Definition vmean (l : list (vec3 T)) : vec3 T :=
    let s := vsum l in let n := nofZ N (Z.of_nat (length l)) in (vx s / n, vy s / n, vz s / n).

  (* the point that becomes the PCS origin; None = IndexError.  ('mean' of a probe
     without elements gives nan in numpy; not modelled: None.) *)
  Definition ref_point (r : refelt) (locs : list (vec3 T)) : option (vec3 T) :=
    match r with
    | RefFirst => py_index locs 0%Z
    | RefLast => py_index locs (-1)%Z
    | RefMean => match locs with [] => None | _ => Some (vmean locs) end
    | RefIdx k => py_index locs k
    end.

  (* Probe.set_reference_element: `self.pcs.origin = new_origin` (origin setter only) *)
  Definition p_set_ref (r : refelt) (p : probe) : option probe :=
    match ref_point r (p_locs p) with
    | None => None
    | Some o => Some (mkProbe (p_locs p) (p_oris p) (mkCS o (cs_i (p_pcs p)) (cs_j (p_pcs p))))
    end.

  (* Probe.translate_to_point_O: translate(-pcs.origin) *)
  Definition p_to_O (p : probe) : option probe := p_translate (vopp N (cs_o (p_pcs p))) p.

  (* Probe.reset_position: translate_to_point_O(); then rotate by
     np.stack((i_hat, j_hat, k_hat), axis=0) of the (translated) pcs, about O *)
  Definition p_reset (p : probe) : option probe :=
    match p_to_O p with
    | None => None
    | Some q => p_rotate (cs_axes (p_pcs q)) None q
    end.

  (* geometry.points_from_probe / Probe.to_oriented_points: points = locations;
     orientations = broadcast of the (3,3) array with rows i_hat, j_hat, k_hat *)
  Definition p_oriented (p : probe) : list (vec3 T * mat3 T) :=
    map (fun l => (l, cs_axes (p_pcs p))) (p_locs p).

  (* ---- histories ------------------------------------------------------------------ *)
  Inductive op : Type :=
  | OpRotate (R : mat3 T) (centre : option (vec3 T))
  | OpTranslate (v : vec3 T)
  | OpFlip
  | OpToO
  | OpSetRef (r : refelt)
  | OpReset.

  Definition apply_op (o : op) (p : probe) : option probe :=
    match o with
    | OpRotate R ce => p_rotate R ce p
    | OpTranslate v => p_translate v p
    | OpFlip => p_flip p
    | OpToO => p_to_O p
    | OpSetRef r => p_set_ref r p
    | OpReset => p_reset p
    end.

  Fixpoint run_ops (ops : list op) (p : probe) : option probe :=
    match ops with
    | [] => Some p
    | o :: rest => match apply_op o p with None => None | Some q => run_ops rest q end
    end.

  (* the states after 0, 1, ..., all operations; stops after the first error (None) *)
  Fixpoint trace_ops (ops : list op) (p : probe) : list (option probe) :=
    Some p :: match ops with
              | [] => []
              | o :: rest => match apply_op o p with None => [None] | Some q => trace_ops rest q end
              end.
End Probe.

Arguments mkCS {T}. Arguments cs_o {T}. Arguments cs_i {T}. Arguments cs_j {T}.
Arguments mkProbe {T}. Arguments p_locs {T}. Arguments p_oris {T}. Arguments p_pcs {T}.
Arguments OriNone {T}. Arguments OriOne {T}. Arguments OriEach {T}.
Arguments OpRotate {T}. Arguments OpTranslate {T}. Arguments OpFlip {T}. Arguments OpToO {T}.
Arguments OpSetRef {T}. Arguments OpReset {T}.
