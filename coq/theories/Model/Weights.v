(* Model/Weights.v — path-level products of the immersion forward model, for ONE ray
   (C07, C03, C08), on top of Model/Interface.v (per-interface coefficients, C04) and
   Model/Beamspread.v (C06).

   Mirrors arim.model.transmission_reflection_for_path,
           arim.model.reverse_transmission_reflection_for_path,
           arim.core.Interface.reverse / Path.reverse (as far as these functions read them),
           arim.model.directivity_2d_rectangular_in_fluid(_for_path),
           arim.models.block_in_immersion.tx_ray_weights / rx_ray_weights (the four
           factors, the four switches, sqrt(wavelength of the last leg) on receive),
           the model amplitude P = Q_i * Q'_j * S(theta_i - a, theta_j - a).

   An interior interface i of a path (1 <= i <= n-1) is described by what the loops read:
   kind, transmission/reflection, materials[i-1], materials[i], reflection_against,
   modes[i-1], modes[i] and the conventional incidence angle of the ray.
   K is the coefficient type (T*T = complex when force_complex=True, the default). *)
From Coq Require Import List ZArith Bool.
From Arim Require Import Base.Num Model.Interface.
Import ListNotations.

Section PathCoeffs.
  Context {K : Type} (N : Num K).

  Record iface := mkIface {
    i_kind : ikind;
    i_trans : bool;                  (* true: transmission, false: reflection *)
    i_mprev : material K;            (* path.materials[i-1] *)
    i_mnext : material K;            (* path.materials[i]   *)
    i_against : material K;          (* interface.reflection_against (reflection only) *)
    i_modeprev : wmode;              (* path.modes[i-1] *)
    i_modenext : wmode;              (* path.modes[i]   *)
    i_theta : K                      (* ray_geometry.conventional_inc_angle(i) *)
  }.

  (* one factor of transmission_reflection_for_path *)
  Definition tr_forward (u : cunit) (x : iface) : option K :=
    if i_trans x
    then transmission_at_interface N (i_kind x) (i_mprev x) (i_mnext x) (i_modeprev x) (i_modenext x) (i_theta x) u
    else reflection_at_interface N (i_kind x) (i_mprev x) (i_against x) (i_modeprev x) (i_modenext x) (i_theta x) u.

  (* one factor of reverse_transmission_reflection_for_path:
       mode_inc = modes[i]; material_inc = materials[i]; mode_out = modes[i-1]
     transmission: material_out = materials[i-1], kind reversed,
                   angles_inc = snell_angles(theta, material_out.velocity(mode_out), material_inc.velocity(mode_inc))
     reflection:   kind unchanged, against unchanged,
                   angles_inc = snell_angles(theta, material_inc.velocity(mode_out), material_inc.velocity(mode_inc)) *)
  Definition tr_reverse (u : cunit) (x : iface) : option K :=
    if i_trans x
    then transmission_at_interface N (ikind_reverse (i_kind x)) (i_mnext x) (i_mprev x)
           (i_modenext x) (i_modeprev x)
           (snell_angles N (i_theta x) (velocity (i_mprev x) (i_modeprev x)) (velocity (i_mnext x) (i_modenext x))) u
    else reflection_at_interface N (i_kind x) (i_mnext x) (i_against x)
           (i_modenext x) (i_modeprev x)
           (snell_angles N (i_theta x) (velocity (i_mnext x) (i_modeprev x)) (velocity (i_mnext x) (i_modenext x))) u.

  (* transrefl = None; for each interior interface: transrefl = tmp  /  transrefl *= tmp.
     Outer None: some factor raised (assertion of the helpers).  Inner None: no interior
     interface, the function returns None. *)
  Definition product_of (f : iface -> option K) (l : list iface) : option (option K) :=
    fold_left (fun acc x =>
                 match acc, f x with
                 | Some None, Some t => Some (Some t)
                 | Some (Some a), Some t => Some (Some (nmul N a t))
                 | _, _ => None
                 end) l (Some None).

  Definition transrefl_for_path (u : cunit) (l : list iface) : option (option K) :=
    product_of (tr_forward u) l.
  Definition reverse_transrefl_for_path (u : cunit) (l : list iface) : option (option K) :=
    product_of (tr_reverse u) l.

  (* Path.reverse() as seen by these loops: interfaces reversed and each reversed (kind
     reversed for a transmission, kept for a reflection), materials and modes reversed.
     The incidence angle of the reversed ray at that interface is supplied (thetas', in the
     order of the reversed path). *)
  Definition iface_reverse (x : iface) (theta' : K) : iface :=
    mkIface (if i_trans x then ikind_reverse (i_kind x) else i_kind x) (i_trans x)
            (i_mnext x) (i_mprev x) (i_against x) (i_modenext x) (i_modeprev x) theta'.

  Definition path_reverse (l : list iface) (thetas' : list K) : list iface :=
    map (fun xt => iface_reverse (fst xt) (snd xt)) (combine (rev l) thetas').

  (* the angle reverse_transmission_reflection_for_path computes for itself *)
  Definition reverse_angle (x : iface) : K :=
    if i_trans x
    then snell_angles N (i_theta x) (velocity (i_mprev x) (i_modeprev x)) (velocity (i_mnext x) (i_modenext x))
    else snell_angles N (i_theta x) (velocity (i_mnext x) (i_modeprev x)) (velocity (i_mnext x) (i_modenext x)).
End PathCoeffs.

Arguments mkIface {K}. Arguments i_kind {K}. Arguments i_trans {K}. Arguments i_mprev {K}.
Arguments i_mnext {K}. Arguments i_against {K}. Arguments i_modeprev {K}. Arguments i_modenext {K}.
Arguments i_theta {K}.

(* ---- real-valued factors and the assembly of the ray weights ----------------- *)
Section RayWeights.
  Context {T : Type} (N : Num T).
  Local Notation "a * b" := (nmul N a b).
  Local Notation "a / b" := (ndiv N a b).

  (* np.sinc(x) = sin(pi x)/(pi x), 1 at 0 *)
  Definition np_sinc (x : T) : T :=
    if neqb N x (n0 N) then n1 N else nsin N (npi N * x) / (npi N * x).

  (* directivity_2d_rectangular_in_fluid(theta, element_width, wavelength)
       = np.sinc((element_width / wavelength) * np.sin(theta)) *)
  Definition directivity (theta element_width wavelength : T) : T :=
    np_sinc ((element_width / wavelength) * nsin N theta).

  (* a factor that can be switched off: `one` replaces exactly that factor *)
  Definition switch {A} (on : bool) (x one : A) : A := if on then x else one.
End RayWeights.

Section Assembly.
  Context {T : Type} (N : Num T).
  Let C := NumC N.
  Local Notation K := (T * T)%type.

  (* weights = directivity * transrefl * beamspread * attenuation, in this order
     (real arrays promoted to complex when multiplied by the complex transrefl) *)
  Definition tx_weight (use_dir use_tr use_bs use_att : bool) (dirv : T) (transrefl : K) (beamspread att : T) : K :=
    let d := switch use_dir (cre N dirv) (cre N (n1 N)) in
    let t := switch use_tr transrefl (cre N (n1 N)) in
    let b := switch use_bs (cre N beamspread) (cre N (n1 N)) in
    let a := switch use_att (cre N att) (cre N (n1 N)) in
    nmul C (nmul C (nmul C d t) b) a.

  (* rx: the same with the reverse terms, then *= sqrt(wavelength of the last leg) *)
  Definition rx_weight (use_dir use_tr use_bs use_att : bool) (dirv : T) (rev_transrefl : K)
             (rev_beamspread att : T) (wavelength_last : T) : K :=
    nmul C (tx_weight use_dir use_tr use_bs use_att dirv rev_transrefl rev_beamspread att)
           (cre N (nsqrt N wavelength_last)).

  (* P[g][k] = S(theta_tx - a, theta_rx - a) * Q[tx_k][g] * Q'[rx_k][g] *)
  Definition model_amplitude (S : T -> T -> K) (scat_angle : T)
             (q_tx q_rx : K) (theta_tx theta_rx : T) : K :=
    nmul C (nmul C (S (nsub N theta_tx scat_angle) (nsub N theta_rx scat_angle)) q_tx) q_rx.
End Assembly.
