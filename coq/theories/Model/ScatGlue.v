(* Model/ScatGlue.v — the glue of arim.scat AROUND the scalar scattering functions of
   Model/Scat.v (C09).  Definitions only; lemmas are in Proofs/ScatGlueProofs.v.

   Mirrors:
     numpy broadcasting                         shapes aligned from the right, size-1 axes stretched,
                                                ValueError when two sizes differ and none is 1
     arim.scat.sdh_2d_scat (scat.py:172-313)    AS CALLED ON ARRAYS: theta = out_theta - inc_theta
                                                (broadcast), the to_compute check, maxn, the IndexError of
                                                epsilon[0] = 1.0 when arange(0, maxn + 1) is empty,
                                                phi = theta + pi, einsum('...,j->...j'), cos / sin,
                                                einsum('...j,j->...'), the prefactor, the gated dict
     arim.scat.PointSourceScat._scat_func       np.broadcast(...).shape, np.full, gated dict, NO check
     arim.scat.crack_2d_scat (scat.py:373-462)  to_compute check, np.broadcast, ndim > 2, atleast_2d,
                                                broadcast_arrays, zeros, the IndexError of inc_theta[0]
                                                (optimised driver, empty first axis), the optimised /
                                                general drivers of _scat_crack.py (crack_2d_scat_matrix /
                                                _general) with
                                                the use_incident_L / use_incident_T flags, reshape, dict
     arim.scat._partial_one_scat_key, Scattering2d.as_freq_angles_funcs / as_angles_funcs
                                                binding of positional / keyword `frequency`, TypeError,
                                                to_compute = {scat_key}, [scat_key]
     arim.scat.make_angles / make_angles_grid   linspace(-pi, pi, n, endpoint=False), meshgrid 'xy'
     Scattering2d.as_single_freq_matrices / as_multi_freq_matrices   (base class)
     Scattering2dFromFunc.__call__, SdhScat, PointSourceScat, CrackCentreScat (the flag
       _in_matrix_calculation, the context manager _scat_matrix_calculation with its try/finally
       (the flag is reset whether or not the body raises; /repo 3989d85), the overridden
       as_single_freq_matrices / as_multi_freq_matrices)
     numpy's dtype promotion for integer-typed angles in out_theta - inc_theta + pi

   An n-dimensional array is a shape together with a function of the multi-index (list of nat of the
   length of the shape); what the function answers outside the shape is irrelevant.
   Oracles: hankel1 hankel2 : Z -> T -> cx (order, argument) — scipy.special.hankel1/2;
            the four crack kernels as functions of the frequency (instantiated in the proofs with
            crack_LL .. crack_TT of Model/Scat.v). *)
From Coq Require Import ZArith List Bool String.
From Arim Require Import Base.Num Model.Scat Model.ScatMatrix.
Import ListNotations.
Local Open Scope nat_scope.

(* ------------------------------------------------------------------------------------ *)
(* n-dimensional arrays and numpy broadcasting                                            *)
(* ------------------------------------------------------------------------------------ *)
Record nd (A : Type) : Type := mkNd { nd_shape : list nat; nd_at : list nat -> A }.
Arguments mkNd {A}. Arguments nd_shape {A}. Arguments nd_at {A}.

(* shapes from the LAST axis to the first *)
Fixpoint bshape_rev (a b : list nat) : option (list nat) :=
  match a, b with
  | [], _ => Some b
  | _, [] => Some a
  | x :: a', y :: b' =>
      match bshape_rev a' b' with
      | None => None
      | Some r =>
          if x =? y then Some (x :: r)
          else if x =? 1 then Some (y :: r)
          else if y =? 1 then Some (x :: r)
          else None                                  (* ValueError: operands could not be broadcast *)
      end
  end.
(* np.broadcast(a, b).shape *)
Definition bshape (a b : list nat) : option (list nat) :=
  match bshape_rev (rev a) (rev b) with Some r => Some (rev r) | None => None end.

(* the index at which an operand of shape s is read when the result is read at idx:
   leading axes of the result that the operand does not have are dropped, an axis of size 1 is
   read at 0 *)
Fixpoint bidx_rev (s idx : list nat) : list nat :=
  match s, idx with
  | d :: s', i :: idx' => (if d =? 1 then 0 else i) :: bidx_rev s' idx'
  | _, _ => []
  end.
Definition bidx (s idx : list nat) : list nat := rev (bidx_rev (rev s) (rev idx)).

Definition nd_read {A} (a : nd A) (idx : list nat) : A := nd_at a (bidx (nd_shape a) idx).

Definition nd_map {A B} (f : A -> B) (a : nd A) : nd B :=
  mkNd (nd_shape a) (fun idx => f (nd_at a idx)).
(* a binary ufunc *)
Definition nd_map2 {A B C} (f : A -> B -> C) (a : nd A) (b : nd B) : option (nd C) :=
  match bshape (nd_shape a) (nd_shape b) with
  | None => None
  | Some s => Some (mkNd s (fun idx => f (nd_read a idx) (nd_read b idx)))
  end.
(* np.full(shape, v) *)
Definition nd_full {A} (s : list nat) (v : A) : nd A := mkNd s (fun _ => v).
(* np.broadcast_to(a, s) (one of the outputs of np.broadcast_arrays) *)
Definition nd_broadcast_to {A} (s : list nat) (a : nd A) : nd A := mkNd s (fun idx => nd_read a idx).
(* a 0-d array / Python scalar *)
Definition nd_scalar {A} (v : A) : nd A := mkNd [] (fun _ => v).
(* a 1-d array from a list *)
Definition nd_vector {A} (d : A) (l : list A) : nd A :=
  mkNd [List.length l] (fun idx => nth (hd 0 idx) l d).

Definition prod_shape (s : list nat) : nat := fold_right Nat.mul 1 s.
(* C-order flat position of a multi-index, and back (np.ravel_multi_index / np.unravel_index) *)
Fixpoint ravel (s idx : list nat) : nat :=
  match s, idx with
  | _ :: s', i :: idx' => i * prod_shape s' + ravel s' idx'
  | _, _ => 0
  end.
Fixpoint unravel (s : list nat) (k : nat) : list nat :=
  match s with
  | [] => []
  | _ :: s' => (k / prod_shape s') :: unravel s' (k mod prod_shape s')
  end.
(* m.reshape(new_shape): same elements in C order (the memory order of m does not matter) *)
Definition nd_reshape {A} (new_shape : list nat) (m : nd A) : nd A :=
  mkNd new_shape (fun idx => nd_at m (unravel (nd_shape m) (ravel new_shape idx))).

(* np.atleast_2d *)
Definition atleast_2d {A} (a : nd A) : nd A :=
  match nd_shape a with
  | [] => mkNd [1; 1] (fun _ => nd_at a [])                 (* reshape(1, 1) *)
  | [n] => mkNd [1; n] (fun idx => nd_at a (tl idx))        (* ary[np.newaxis, :] *)
  | _ => a
  end.

(* what a call answers when it raises *)
Inductive scat_err : Type :=
| EBroadcast            (* ValueError: operands could not be broadcast together / shape mismatch *)
| EToCompute            (* ValueError: Valid 'to_compute' arguments are ... *)
| EEmptyModes           (* IndexError: index 0 is out of bounds for axis 0 with size 0
                           (epsilon[0] of sdh_2d_scat on an empty modal range; inc_theta[0] of
                           crack_2d_scat with assume_safe_for_opt on an empty first axis) *)
| ENotImplemented       (* NotImplementedError: more than two dimensions (crack) *)
| EKeyError (k : string)(* KeyError: the scatterer did not return the key *)
| ETypeError.           (* TypeError: missing / multiple values for argument 'frequency' *)

(* ------------------------------------------------------------------------------------ *)
(* sdh_2d_scat on arrays                                                                  *)
(* ------------------------------------------------------------------------------------ *)
Section SdhNd.
  Context {T : Type} (N : Num T).
  Local Notation cx := (@cx T).
  Variables hankel1 hankel2 : Z -> T -> cx.      (* scipy.special.hankel1 / hankel2 (order, x) *)

  (* n_phi = np.einsum("...,j->...j", phi, n), n = np.arange(0, maxn + 1) *)
  Definition nd_outer_arange (phi : nd T) (len : nat) : nd T :=
    mkNd (nd_shape phi ++ [len])
         (fun idx => nmul N (nd_at phi (removelast idx)) (nofZ N (Z.of_nat (last idx 0)))).
  (* np.einsum("...j,j->...", trig_n_phi, coef): real array times complex vector, j = 0, 1, .. *)
  Definition nd_contract_last (a : nd T) (coef : Z -> cx) (len : nat) : nd cx :=
    mkNd (removelast (nd_shape a))
         (fun idx => csum_upto N (fun j => rscale N (nd_at a (idx ++ [Z.to_nat j])) (coef j)) len).

  Definition sdh_2d_scat_nd (inc_theta out_theta : nd T) (frequency radius vL vT : T)
             (min_terms term_factor : Z) (tc : list string) : scat_err + dict (nd cx) :=
    (* theta = out_theta - inc_theta *)
    match nd_map2 (nsub N) out_theta inc_theta with
    | None => inl EBroadcast
    | Some theta =>
        (* if not SCAT_KEYS.issuperset(to_compute): raise ValueError *)
        if negb (valid_to_compute tc) then inl EToCompute else
        let alpha := sdh_alpha N frequency radius vL in
        let beta := sdh_beta N frequency radius vT in
        let maxn := sdh_maxn N frequency radius vL vT min_terms term_factor in
        (* n = np.arange(0, maxn + 1); epsilon = np.full(n.shape, 2.0); epsilon[0] = 1.0 *)
        if (maxn <? 0)%Z then inl EEmptyModes else
        let len := S (Z.to_nat maxn) in
        let H1a := fun n => hankel1 n alpha in
        let H2a := fun n => hankel2 n alpha in
        let H1b := fun n => hankel1 n beta in
        let H2b := fun n => hankel2 n beta in
        (* phi = theta + pi *)
        let phi := nd_map (fun t => nadd N t (npi N)) theta in
        let n_phi := nd_outer_arange phi len in
        let cos_n_phi := nd_map (ncos N) n_phi in
        let sin_n_phi := nd_map (nsin N) n_phi in
        (* (np.sqrt(1j) / pi * x) * np.einsum("...j,j->...", trig_n_phi, epsilon * coef) *)
        let term := fun (trig : nd T) (x : T) (coef : Z -> cx) =>
          nd_map (cmul N (sdh_pref N x))
                 (nd_contract_last trig (fun n => rscale N (epsilon N n) (coef n)) len) in
        inr (gated_dict tc
               (term cos_n_phi alpha (coef_LL N H1a H2a H1b frequency radius vL vT))
               (term sin_n_phi beta (coef_LT N H1a H1b frequency radius vL vT))
               (term sin_n_phi alpha (coef_TL N H1a H1b frequency radius vL vT))
               (term cos_n_phi beta (coef_TT N H1a H1b H2b frequency radius vL vT)))
    end.

  (* SdhScat: the keyword arguments stored by __init__ *)
  Record sdh_kwargs : Type := mkSdhKw {
    sk_radius : T; sk_vL : T; sk_vT : T; sk_min_terms : Z; sk_term_factor : Z }.
  (* Scattering2dFromFunc.__call__:
     self._scat_func(inc_theta, out_theta, frequency, to_compute=to_compute, **self._scat_kwargs) *)
  Definition sdh_obj_call (kw : sdh_kwargs) (inc_theta out_theta : nd T) (frequency : T)
             (tc : list string) : scat_err + dict (nd cx) :=
    sdh_2d_scat_nd inc_theta out_theta frequency (sk_radius kw) (sk_vL kw) (sk_vT kw)
                   (sk_min_terms kw) (sk_term_factor kw) tc.

  (* the oracle sequences of Model/Scat.v at one frequency *)
  Definition H_alpha (h : Z -> T -> cx) (kw : sdh_kwargs) (frequency : T) : Z -> cx :=
    fun n => h n (sdh_alpha N frequency (sk_radius kw) (sk_vL kw)).
  Definition H_beta (h : Z -> T -> cx) (kw : sdh_kwargs) (frequency : T) : Z -> cx :=
    fun n => h n (sdh_beta N frequency (sk_radius kw) (sk_vT kw)).
  Definition sdh_obj_maxn (kw : sdh_kwargs) (frequency : T) : Z :=
    sdh_maxn N frequency (sk_radius kw) (sk_vL kw) (sk_vT kw) (sk_min_terms kw) (sk_term_factor kw).

  (* ---- integer-typed angles -------------------------------------------------------------- *)
  (* an angle as numpy holds it: int64 or float64 *)
  Inductive ang : Type := AInt (z : Z) | AFloat (x : T).
  Definition ang_float (a : ang) : T := match a with AInt z => nofZ N z | AFloat x => x end.
  (* out_theta - inc_theta: int - int stays an integer, everything else is promoted to float *)
  Definition ang_sub (a b : ang) : ang :=
    match a, b with
    | AInt x, AInt y => AInt (x - y)
    | _, _ => AFloat (nsub N (ang_float a) (ang_float b))
    end.
  (* phi = theta + pi: always float *)
  Definition sdh_phi_typed (inc out : ang) : T := nadd N (ang_float (ang_sub out inc)) (npi N).
End SdhNd.
Arguments AInt {T}. Arguments AFloat {T}.
Arguments mkSdhKw {T}. Arguments sk_radius {T}. Arguments sk_vL {T}. Arguments sk_vT {T}.
Arguments sk_min_terms {T}. Arguments sk_term_factor {T}.

(* ------------------------------------------------------------------------------------ *)
(* PointSourceScat._scat_func on arrays                                                   *)
(* ------------------------------------------------------------------------------------ *)
Section PointNd.
  Context {T : Type} (N : Num T).
  (* shape = np.broadcast(phi_in, phi_out).shape; np.full(shape, value); to_compute is NOT checked *)
  Definition point_scat_nd (vL vT : T) (phi_in phi_out : nd T) (tc : list string)
    : scat_err + dict (nd T) :=
    match bshape (nd_shape phi_in) (nd_shape phi_out) with
    | None => inl EBroadcast
    | Some shape =>
        inr (gated_dict tc (nd_full shape (n1 N)) (nd_full shape (ndiv N vL vT))
                           (nd_full shape (ndiv N (nopp N vT) vL)) (nd_full shape (n1 N)))
    end.
  (* PointSourceScat.__call__ (the frequency is accepted and ignored by _scat_func) *)
  Definition point_obj_call (vL vT : T) (inc_theta out_theta : nd T) (frequency : T)
             (tc : list string) : scat_err + dict (nd T) :=
    point_scat_nd vL vT inc_theta out_theta tc.
End PointNd.

(* ------------------------------------------------------------------------------------ *)
(* crack_2d_scat on arrays                                                                *)
(* ------------------------------------------------------------------------------------ *)
Section CrackNd.
  Context {T : Type} (N : Num T).
  Local Notation cx := (@cx T).

  (* the four outputs of crack_2d_scat_kernel for one incident and one scattered angle *)
  Record crack_kernels : Type := mkKern {
    k_LL : T -> T -> cx; k_LT : T -> T -> cx; k_TL : T -> T -> cx; k_TT : T -> T -> cx }.

  (* crack_2d_scat_general: for i in range(shape[0]): for j in range(shape[1]):
       kernel(phi_in_array[i, j], phi_out_array[i, j:j+1], ..., S[i, j:j+1]);
     an entry that the loops do not write keeps its zero *)
  Definition crack_general_nd (use : bool) (kern : T -> T -> cx) (inc out : nd T) : nd cx :=
    mkNd (nd_shape inc)
         (fun idx => match idx with
                     | [i; j] => if use then kern (nd_at inc [i; j]) (nd_at out [i; j]) else c0 N
                     | _ => c0 N
                     end).
  (* crack_2d_scat_matrix: for i in range(len(inc_theta_vect)):
       kernel(inc_theta_vect[i], phi_out_array[:, i], ..., S[:, i])
     where the caller (crack_2d_scat, scat.py:420) has taken inc_theta_vect = inc_theta[0]; that
     subscript raises IndexError when the first axis is empty — the branch is in crack_2d_scat_nd,
     so this driver is only ever run on arrays with at least one row *)
  Definition crack_matrix_nd (use : bool) (kern : T -> T -> cx) (inc out : nd T) : nd cx :=
    mkNd (nd_shape inc)
         (fun idx => match idx with
                     | [j; i] => if use then kern (nd_at inc [0; i]) (nd_at out [j; i]) else c0 N
                     | _ => c0 N
                     end).

  Definition crack_2d_scat_nd (K : crack_kernels) (inc_theta out_theta : nd T)
             (assume_safe_for_opt : bool) (tc : list string) : scat_err + dict (nd cx) :=
    (* if not valid_keys.issuperset(to_compute): raise ValueError *)
    if negb (valid_to_compute tc) then inl EToCompute else
    (* final_broadcast = np.broadcast(inc_theta, out_theta) *)
    match bshape (nd_shape inc_theta) (nd_shape out_theta) with
    | None => inl EBroadcast
    | Some final_shape =>
        (* if final_broadcast.ndim > 2: raise NotImplementedError *)
        if 2 <? List.length final_shape then inl ENotImplemented else
        let inc2 := atleast_2d inc_theta in
        let out2 := atleast_2d out_theta in
        match bshape (nd_shape inc2) (nd_shape out2) with
        | None => inl EBroadcast
        | Some comp_shape =>
            let incb := nd_broadcast_to comp_shape inc2 in
            let outb := nd_broadcast_to comp_shape out2 in
            let useL := use_incident_L tc in
            let useT := use_incident_T tc in
            (* if assume_safe_for_opt: inc_theta_vect = inc_theta[0]
               IndexError: index 0 is out of bounds for axis 0 with size 0 — the (broadcast, 2-d)
               array has no row.  The general driver loops over range(shape[0]) and returns the
               empty arrays. *)
            if assume_safe_for_opt && (hd 1 comp_shape =? 0) then inl EEmptyModes else
            let driver := if assume_safe_for_opt then crack_matrix_nd else crack_general_nd in
            (* final_matrices = [m.reshape(final_broadcast.shape) for m in matrices] *)
            let fin := fun use kern => nd_reshape final_shape (driver use kern incb outb) in
            inr [("LL"%string, fin useL (k_LL K)); ("LT"%string, fin useL (k_LT K));
                 ("TL"%string, fin useT (k_TL K)); ("TT"%string, fin useT (k_TT K))]
        end
    end.
End CrackNd.
(* the kernels of Model/Scat.v for one set of parameters (one frequency) *)
Definition crack_kernels_of {T : Type} (N : Num T) (p : crack_params (T:=T)) : crack_kernels (T:=T) :=
  {| k_LL := crack_LL N p; k_LT := crack_LT N p; k_TL := crack_TL N p; k_TT := crack_TT N p |}.
Arguments mkKern {T}. Arguments k_LL {T}. Arguments k_LT {T}. Arguments k_TL {T}. Arguments k_TT {T}.

(* ------------------------------------------------------------------------------------ *)
(* the Scattering2d interface                                                             *)
(* ------------------------------------------------------------------------------------ *)
Section Interface.
  Context {T V : Type} (N : Num T).

  (* a Scattering2d object: __call__(inc_theta, out_theta, frequency, to_compute) *)
  Definition scat_obj : Type := nd T -> nd T -> T -> list string -> scat_err + dict (nd V).

  (* d[scat_key] on the result of a call *)
  Definition getitem {A} (r : scat_err + dict A) (k : string) : scat_err + A :=
    match r with
    | inl e => inl e
    | inr d => match lookup k d with Some v => inr v | None => inl (EKeyError k) end
    end.

  (* how the functions returned by as_angles_funcs / as_freq_angles_funcs are called:
       f(inc, out)  f(inc, out, frequency=g)  f(inc, out, fr)  f(inc, out, fr, frequency=g) *)
  Inductive pyargs : Type :=
  | Args2 (inc out : nd T) (kw_frequency : option T)
  | Args3 (inc out : nd T) (frequency : T) (kw_frequency : option T).

  (* _partial_one_scat_key(self, scat_key) / (self, scat_key, frequency=frequency):
       to_compute = {scat_key}
       newkeywords = kwargs.copy(); newkeywords.update(fkeywords)
       return scat_func( *fargs, to_compute=to_compute, **newkeywords)[scat_key] *)
  Definition partial_one_scat_key (self : scat_obj) (scat_key : string) (bound_frequency : option T)
             (a : pyargs) : scat_err + nd V :=
    let merged := fun kwf : option T => match kwf with Some g => Some g | None => bound_frequency end in
    match a with
    | Args2 inc out kwf =>
        match merged kwf with
        | None => inl ETypeError                          (* missing argument 'frequency' *)
        | Some f => getitem (self inc out f [scat_key]) scat_key
        end
    | Args3 inc out f kwf =>
        match merged kwf with
        | Some _ => inl ETypeError                        (* multiple values for 'frequency' *)
        | None => getitem (self inc out f [scat_key]) scat_key
        end
    end.

  (* for scat_key in SCAT_KEYS: scat_funcs[scat_key] = _partial_one_scat_key(self, scat_key) *)
  Definition as_freq_angles_funcs (self : scat_obj) : dict (pyargs -> scat_err + nd V) :=
    map (fun k => (k, partial_one_scat_key self k None)) scat_keys.
  Definition as_angles_funcs (self : scat_obj) (frequency : T) : dict (pyargs -> scat_err + nd V) :=
    map (fun k => (k, partial_one_scat_key self k (Some frequency))) scat_keys.

  (* make_angles(n) = np.linspace(-np.pi, np.pi, n, endpoint=False): arange(n) * (2 pi / n) + (-pi) *)
  Definition make_angles (n : nat) : nd T :=
    mkNd [n] (fun idx => angle N (npi N) (Z.of_nat n) (Z.of_nat (hd 0 idx))).
  (* np.meshgrid(x, y, indexing="xy"): X[j, i] = x[i], Y[j, i] = y[j], shape (len(y), len(x)) *)
  Definition meshgrid_xy {A} (x y : nd A) : nd A * nd A :=
    let s := [hd 0 (nd_shape y); hd 0 (nd_shape x)] in
    (mkNd s (fun idx => nd_at x [nth 1 idx 0]), mkNd s (fun idx => nd_at y [nth 0 idx 0])).
  Definition make_angles_grid (n : nat) : nd T * nd T :=
    let theta := make_angles n in meshgrid_xy theta theta.

  (* Scattering2d.as_single_freq_matrices *)
  Definition as_single_freq_matrices (self : scat_obj) (frequency : T) (numangles : nat)
             (tc : list string) : scat_err + dict (nd V) :=
    let '(inc_theta, out_theta) := make_angles_grid numangles in
    self inc_theta out_theta frequency tc.

  (* Scattering2d.as_multi_freq_matrices.  The arrays out[key] of shape (numfreq, n, n) are held as
     the list of their slabs written so far (slab i = out[key][i]); slabs not written are zeros and
     all are written when the loop ends.  The dtype of the late initialisation is C10's concern
     (Model/ScatData.v). *)
  (* out = {scat_key: np.zeros(...matrices[scat_key].dtype) for scat_key in to_compute} *)
  Fixpoint multi_check (tc : list string) (matrices : dict (nd V)) : option string :=
    match tc with
    | [] => None
    | k :: r => match lookup k matrices with None => Some k | Some _ => multi_check r matrices end
    end.
  (* the slab of every requested key at this frequency: [(key, matrices[key])] *)
  Definition multi_slabs (tc : list string) (matrices : dict (nd V)) : dict (nd V) :=
    flat_map (fun k => match lookup k matrices with Some m => [(k, m)] | None => [] end) tc.

  Fixpoint multi_loop (self : scat_obj) (inc_theta out_theta : nd T) (tc : list string)
           (frequencies : list T) : scat_err + list (dict (nd V)) :=
    match frequencies with
    | [] => inr []
    | frequency :: rest =>
        match self inc_theta out_theta frequency tc with
        | inl e => inl e
        | inr matrices =>
            match multi_check tc matrices with
            | Some k => inl (EKeyError k)
            | None =>
                match multi_loop self inc_theta out_theta tc rest with
                | inl e => inl e
                | inr slabs => inr (multi_slabs tc matrices :: slabs)
                end
            end
        end
    end.
  (* out[key] as a 3-d array: [kf, j, i] *)
  Definition stack_slabs (zero : V) (numangles : nat) (slabs : list (dict (nd V))) (k : string) : nd V :=
    mkNd [List.length slabs; numangles; numangles]
         (fun idx => match lookup k (nth (hd 0 idx) slabs []) with
                     | Some m => nd_at m (tl idx)
                     | None => zero
                     end).
  (* returns None (Python None) for an empty sequence of frequencies *)
  Definition as_multi_freq_matrices (zero : V) (self : scat_obj) (frequencies : list T)
             (numangles : nat) (tc : list string) : scat_err + option (dict (nd V)) :=
    let '(inc_theta, out_theta) := make_angles_grid numangles in
    match multi_loop self inc_theta out_theta tc frequencies with
    | inl e => inl e
    | inr [] => inr None
    | inr slabs => inr (Some (map (fun k => (k, stack_slabs zero numangles slabs k)) tc))
    end.
End Interface.
Arguments scat_obj : clear implicits.
Arguments pyargs : clear implicits.
Arguments Args2 {T}. Arguments Args3 {T}.

(* ------------------------------------------------------------------------------------ *)
(* CrackCentreScat: the flag _in_matrix_calculation                                       *)
(* ------------------------------------------------------------------------------------ *)
Section CrackObj.
  Context {T : Type} (N : Num T).
  Local Notation cx := (@cx T).
  (* the kernels at one frequency (crack_length, velocities, density, nodes_per_wavelength fixed) *)
  Variable K : T -> crack_kernels (T:=T).

  (* CrackCentreScat.__call__ with the flag as it is now:
     crack_2d_scat(..., assume_safe_for_opt=self._in_matrix_calculation, ...) *)
  Definition crack_obj_call (flag : bool) : scat_obj T cx :=
    fun inc out frequency tc => crack_2d_scat_nd N (K frequency) inc out flag tc.

  (* with self._scat_matrix_calculation(): <body>
       self._in_matrix_calculation = True
       try: yield
       finally: self._in_matrix_calculation = False
     The body runs with the flag True; the flag is False afterwards whether the body returned or
     raised (contextlib throws the exception into the generator at the yield, the finally clause runs,
     the exception propagates).  Result of the body, flag afterwards. *)
  Definition with_matrix_flag {R} (body : scat_obj T cx -> scat_err + R) : (scat_err + R) * bool :=
    let r := body (crack_obj_call true) in
    (r, false).

  Definition crack_as_single (frequency : T) (numangles : nat) (tc : list string) :=
    with_matrix_flag (fun self => as_single_freq_matrices N self frequency numangles tc).
  Definition crack_as_multi (frequencies : list T) (numangles : nat) (tc : list string) :=
    with_matrix_flag (fun self => as_multi_freq_matrices N (c0 N) self frequencies numangles tc).

  (* one public operation on the object *)
  Inductive crack_op : Type :=
  | OpCall (inc out : nd T) (frequency : T) (tc : list string)
  | OpSingle (frequency : T) (numangles : nat) (tc : list string)
  | OpMulti (frequencies : list T) (numangles : nat) (tc : list string).
  Inductive crack_res : Type :=
  | RDict (r : scat_err + dict (nd cx))
  | RMulti (r : scat_err + option (dict (nd cx))).

  (* the operation applied to an object whose flag is `flag`: (result, flag afterwards).  A plain call
     reads the flag and leaves it; a matrix request sets it, runs the base-class method (which calls
     the object with the flag True) and resets it, also when the method raises *)
  Definition crack_step (flag : bool) (op : crack_op) : crack_res * bool :=
    match op with
    | OpCall inc out f tc => (RDict (crack_obj_call flag inc out f tc), flag)
    | OpSingle f n tc => let '(r, fl) := crack_as_single f n tc in (RDict r, fl)
    | OpMulti fs n tc => let '(r, fl) := crack_as_multi fs n tc in (RMulti r, fl)
    end.
  Definition res_ok (r : crack_res) : bool :=
    match r with RDict (inr _) => true | RMulti (inr _) => true | _ => false end.
  (* a history of operations from a given flag: the results, and the final flag *)
  Fixpoint crack_run (flag : bool) (ops : list crack_op) : list crack_res * bool :=
    match ops with
    | [] => ([], flag)
    | op :: rest =>
        let '(r, fl) := crack_step flag op in
        let '(rs, fl') := crack_run fl rest in (r :: rs, fl')
    end.
  (* CrackCentreScat.__init__: self._in_matrix_calculation = False *)
  Definition crack_init_flag : bool := false.
End CrackObj.
