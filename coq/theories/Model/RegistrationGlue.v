(* Model/RegistrationGlue.v — the glue of front-wall registration (C19) that
   Model/Registration.v leaves out.  Definitions only.

   Mirrors, statement by statement,
     src/arim/core.py         Probe.__init__  (dead_elements argument, lines 532-538)
     src/arim/measurement.py  move_probe_over_flat_surface, lines 131-211, as the code
                              is written: the dead-element index vector
                              arange(n)[probe.dead_elements], the pulse-echo MASK built in
                              three passes (tx == rx, then the two broadcasts
                              any(tx == dead), any(rx == dead)), sum(mask) < 2, boolean-mask
                              indexing of the distances and of frame.tx, and the motion of
                              the Probe OBJECT (Probe.rotate then Probe.translate of
                              Model/Probe.v, constructor checks of CoordinateSystem included)
                              detect_surface_from_extrema, lines 231-240, with numpy's
                              argmax on floats (a NaN is the maximum: the first NaN wins)
                              and np.abs on real or complex samples (the magnitude is a
                              function argument `mag`)
                              find_probe_loc_from_frontwall, lines 62-78: reset_position
                              FIRST, detection, distances t * c / 2, the move, the returned
                              tuple (z_o, theta, time_to_surface), the probe mutated in place
                              (also when an exception escapes after the reset).

   Encodings.  Probe object: Model/Probe.v `probe` (locations, orientations, pcs);
   the dead-element flags are a separate list (the record of C16 has no such field).
   A CoordinateSystem `csys` is read as the triple `CS` of Model/Registration.v by
   `cs_of`.  Every raise is an explicit outcome. *)
From Coq Require Import ZArith List Bool.
From Arim Require Import Base.Num Model.Vec3 Model.Probe Model.Registration.
Import ListNotations.

(* ---- Probe.__init__(dead_elements=...) ------------------------------------------- *)
(* the argument: None, one scalar, or one value per element.  A value is encoded by an
   integer: False/True are 0/1, an integer is itself, a float x is any integer that is
   zero exactly when x == 0.0 (np.asarray(., dtype=bool) only asks "non zero?") *)
Inductive dead_arg : Type := DeadNone | DeadScalar (z : Z) | DeadEach (l : list Z).

(* np.asarray(v, dtype=bool) on one value *)
Definition truthy (z : Z) : bool := negb (z =? 0)%Z.

(* dead_elements is None -> np.full((n,), False); else asarray(dtype=bool), a 0-d array is
   resized to (n,); assert shape == (n,)  (None = AssertionError) *)
Definition init_dead (n : nat) (a : dead_arg) : option (list bool) :=
  match a with
  | DeadNone => Some (repeat false n)
  | DeadScalar z => Some (repeat (truthy z) n)
  | DeadEach l => if (length l =? n)%nat then Some (map truthy l) else None
  end.

(* np.asarray(range(n))[mask] for a BOOLEAN mask: the positions of True, increasing.
   numpy (rule established by experiment on numpy 2.5.3, as in Model/ProbeOps.v np_take)
   accepts a mask of length n and ALSO the mask of length 0 on a vector of any length — an
   empty boolean vector stored as probe.dead_elements after construction selects nothing:
   no dead element; any other length is an IndexError: None. *)
Fixpoint mask_positions (i : Z) (mask : list bool) : list Z :=
  match mask with
  | [] => []
  | b :: m => if b then i :: mask_positions (i + 1) m else mask_positions (i + 1) m
  end.
Definition dead_indices (n : nat) (mask : list bool) : option (list Z) :=
  if ((length mask =? n) || (length mask =? 0))%nat then Some (mask_positions 0 mask) else None.

(* what the same expression would return were the flags still INTEGERS (fancy indexing:
   arange(n)[ints] = the integers themselves, negative ones wrapped) — only used to show
   that the conversion of Probe.__init__ matters *)
Definition fancy_indices (n : nat) (ints : list Z) : option (list Z) :=
  all_some (map (fun i => option_map Z.of_nat (Registration.py_index (Z.of_nat n) i)) ints).

(* np.any(v.reshape(-1, 1) == dead.reshape(1, -1), axis=1), one entry of v *)
Definition any_eq (dead_idx : list Z) (e : Z) : bool := existsb (Z.eqb e) dead_idx.

(* pulse_echo = tx == rx
   pulse_echo[np.any(tx == dead, axis=1)] = False
   pulse_echo[np.any(rx == dead, axis=1)] = False *)
Definition mask_clear (hit : list bool) (m : list bool) : list bool :=
  map (fun p : bool * bool => if fst p then false else snd p) (combine hit m).
Definition pe_mask (dead_idx : list Z) (tx rx : list Z) : list bool :=
  let pe0 := map (fun p : Z * Z => (fst p =? snd p)%Z) (combine tx rx) in
  let pe1 := mask_clear (map (any_eq dead_idx) tx) pe0 in
  mask_clear (map (any_eq dead_idx) rx) pe1.

(* sum(mask) *)
Definition count_true (m : list bool) : nat := length (filter (fun b => b) m).

(* a[mask] for a boolean mask of the length of a *)
Definition bmask {A} (m : list bool) (l : list A) : list A :=
  map snd (filter (fun p : bool * A => fst p) (combine m l)).

(* an FMC and an HMC acquisition of n elements, canonical order *)
Definition fmc_pairs (n : nat) : list (Z * Z) :=
  flat_map (fun t => map (fun r => (Z.of_nat t, Z.of_nat r)) (seq 0 n)) (seq 0 n).
Definition hmc_pairs (n : nat) : list (Z * Z) :=
  flat_map (fun t => map (fun r => (Z.of_nat t, Z.of_nat r)) (seq t (n - t))) (seq 0 n).

Section RegistrationGlue.
  Context {T : Type} (N : Num T).
  Local Notation "a + b" := (nadd N a b) : num_scope.
  Local Notation "a - b" := (nsub N a b) : num_scope.
  Local Notation "a * b" := (nmul N a b) : num_scope.
  Local Notation "a / b" := (ndiv N a b) : num_scope.
  Local Notation zero := (n0 N).
  Local Notation one := (n1 N).

  (* a CoordinateSystem object read as the triple of Model/Registration.v *)
  Definition cs_of (c : csys (T:=T)) : CS (T:=T) := (cs_o c, cs_i c, cs_j c).

  (* ---- move_probe_over_flat_surface, steps I-IV as written (masks) --------------- *)
  (* returns (z_o, theta) = (iso.z_o, iso.theta); numelements = len(locations) *)
  Definition fit_pose (fit : list T -> list T -> T * T)
             (pcs : CS (T:=T)) (tx rx : list Z) (dead : list bool) (locs : list (V3 (T:=T))) (ds : list T)
    : reg_error + (T * T) :=
    if negb (cs_isclose N pcs (Registration.gcs N)) then inl E_PcsNotGcs else
    match dead_indices (length locs) dead with
    | None => inl E_Index           (* IndexError: boolean index did not match *)
    | Some didx =>
      let pe := pe_mask didx tx rx in
      if (count_true pe <? 2)%nat then inl E_TooFewPulseEcho else
      if negb (length ds =? length pe)%nat then inl E_Shape else
      let sd := bmask pe ds in                                   (* distance_to_surface[pulse_echo] *)
      if existsb (fun d => nltb N d zero) sd then inl E_NegativeDistance else
      let locs_pcs := map (from_gcs N pcs) locs in
      if negb (forallb (fun p => isclose N (nabs N (Registration.vx p)) (norm3 N p)) locs_pcs) then inl E_NotOnOx else
      match lookup_all N locs_pcs (bmask pe tx) with              (* all_locations.x[frame.tx[pulse_echo]] *)
      | None => inl E_Index
      | Some sx =>
          let xA := lmin N sx in let xB := lmax N sx in
          if isclose N xA xB then inl E_Degenerate else
          let p := fit sx sd in
          let p1 := fst p in let p0 := snd p in
          let z_o := nopp N p0 in
          if nleb N (nopp N one) p1 && nleb N p1 one then inr (z_o, nasin N p1)
          else inl E_NoSolution
      end
    end.

  (* ---- move_probe_over_flat_surface on the Probe object (full_output=True) -------- *)
  Inductive mv_outcome : Type :=
  | MvRaised (e : reg_error)                 (* raised before the probe is touched *)
  | MvCsRaised (p : probe (T:=T))            (* a CoordinateSystem setter raised ValueError
                                                ("Vector must be normalised") inside
                                                Probe.rotate (p: untouched) / Probe.translate
                                                (p: rotated, not translated) *)
  | MvOk (p : probe (T:=T)) (z_o theta : T).

  Definition move_probe_obj (fit : list T -> list T -> T * T)
             (p : probe (T:=T)) (dead : list bool) (tx rx : list Z) (ds : list T) : mv_outcome :=
    match fit_pose fit (cs_of (p_pcs p)) tx rx dead (p_locs p) ds with
    | inl e => MvRaised e
    | inr (z_o, theta) =>
        (* frame.probe = frame.probe.rotate(rotation_matrix_y(theta)) *)
        match p_rotate N (rotation_matrix_y N theta) None p with
        | None => MvCsRaised p
        | Some q =>
            (* frame.probe = frame.probe.translate(np.array((0.0, 0.0, z_o))) *)
            match p_translate N (zero, zero, z_o) q with
            | None => MvCsRaised q
            | Some q' => MvOk q' z_o theta
            end
        end
    end.

  (* ---- numpy argmax on floats: NaN is the maximum, first NaN wins ------------------ *)
  Definition isnan (v : T) : bool := negb (neqb N v v).
  (* mp = ip[0]; if isnan(mp) return 0;
     for i: if (!(ip[i] <= mp)) { mp = ip[i]; max_ind = i; if isnan(mp) break; } *)
  Fixpoint argmax_np_from (best : T) (bi i : nat) (l : list T) : nat :=
    match l with
    | [] => bi
    | v :: l' =>
        if negb (nleb N v best)
        then (if isnan v then i else argmax_np_from v i (S i) l')
        else argmax_np_from best bi (S i) l'
    end.
  Definition argmax_np (l : list T) : option nat :=
    match l with
    | [] => None
    | v :: l' => if isnan v then Some O else Some (argmax_np_from v O 1%nat l')
    end.

  (* ---- detect_surface_from_extrema with np.abs as a function of the sample type ----- *)
  (* np.abs of a complex sample (re, im) *)
  Definition cabs (s : T * T) : T := nsqrt N (fst s * fst s + snd s * snd s)%num.

  Definition detect_trace_np {A} (mag : A -> T) (samples : list T) (imin imax : nat) (row : list A)
    : option T :=
    match argmax_np (map mag (slice imin imax row)) with
    | None => None
    | Some k => Some (nth k (slice imin imax samples) zero)
    end.

  Definition detect_surface_np {A} (mag : A -> T) (samples : list T) (rows : list (list A))
             (tmin tmax : option T) : option (list T) :=
    let w := window N samples tmin tmax true true in
    match slice (fst w) (snd w) samples with
    | [] => None
    | _ => all_some (map (detect_trace_np mag samples (fst w) (snd w)) rows)
    end.

  (* ---- find_probe_loc_from_frontwall on the objects ----------------------------------- *)
  Inductive fw_outcome : Type :=
  | FwCsRaised (p : option (probe (T:=T)))   (* a CoordinateSystem setter raised; None: inside
                                                reset_position (state not modelled, as in
                                                Model/Probe.v), Some p: inside the final move *)
  | FwRaised (p : probe (T:=T)) (e : reg_error)   (* p = the probe as reset_position left it *)
  | FwOk (p : probe (T:=T)) (z_o theta : T) (times : list T).

  Definition frontwall_obj {A} (mag : A -> T) (fit : list T -> list T -> T * T)
             (p : probe (T:=T)) (dead : list bool)
             (start step : T) (num : Z) (rows : list (list A)) (tx rx : list Z)
             (c : T) (tmin tmax : option T) : fw_outcome :=
    (* frame.probe.reset_position() *)
    match p_reset N p with
    | None => FwCsRaised None
    | Some p1 =>
        (* time_to_surface = detect_surface_from_extrema(frame, tmin, tmax) *)
        match detect_surface_np mag (time_samples N start step num) rows tmin tmax with
        | None => FwRaised p1 E_EmptyWindow
        | Some times =>
            (* distance_to_surface = time_to_surface * couplant.longitudinal_vel / 2 *)
            let ds := map (fun t => (t * c / nofZ N 2)%num) times in
            match move_probe_obj fit p1 dead tx rx ds with
            | MvRaised e => FwRaised p1 e
            | MvCsRaised q => FwCsRaised (Some q)
            | MvOk q z_o theta => FwOk q z_o theta times
            end
        end
    end.
End RegistrationGlue.

Arguments MvRaised {T}. Arguments MvCsRaised {T}. Arguments MvOk {T}.
Arguments FwCsRaised {T}. Arguments FwRaised {T}. Arguments FwOk {T}.
