(* Model/ChunkND.v — arim.helpers.chunk_array on n-dimensional shapes (C13).

   Model/Chunk.v treats chunk_array as the partition of ONE length.  The real
   function takes a shape of any number of dimensions and an axis that may be
   negative, and yields SELECTORS (tuples of slices and one Ellipsis):

     ndim = len(array_shape)
     axis = list(range(ndim))[axis]        # IndexError outside [-ndim, ndim)
     length = array_shape[axis]
     numchunks = math.ceil(length / block_size)      # ZeroDivisionError for 0
     if axis == 0:            yield (slice(i*b, (i+1)*b), ...)
     elif axis == ndim - 1:   yield (..., slice(i*b, (i+1)*b))
     else:                    fillers = (slice(None),) repeated `axis` times
                              yield (fillers..., slice(i*b, (i+1)*b), ...)

   This file mirrors these three branches syntactically (`raw_selectors`),
   then applies numpy's basic-indexing rules (`expand`: one Ellipsis stands for
   as many ':' as needed; `clip`: slice bounds are clipped to the axis length)
   to obtain, for every yielded selector, the half-open range it selects on
   EVERY axis of the shape (`chunk_selectors`).  `None` = the code raises.
   Definitions only; everything is executable by vm_compute. *)
From Coq Require Import Arith List Bool ZArith.
From Arim Require Import Model.Chunk.
Import ListNotations.

(* list(range(ndim))[axis]: Python index resolution *)
Definition normalise_axis (ndim : nat) (axis : Z) : option nat :=
  let n := Z.of_nat ndim in
  if (axis <? - n)%Z then None                              (* IndexError *)
  else if (axis <? 0)%Z then Some (Z.to_nat (axis + n))
  else if (axis <? n)%Z then Some (Z.to_nat axis)
  else None.                                                (* IndexError *)

(* ---- selectors as the code writes them -------------------------------- *)
(* slice(start, stop); None = bound omitted, so slice(None) = (None, None) *)
Definition pslice := (option nat * option nat)%type.
Definition colon : pslice := (None, None).

Inductive item := Sl (s : pslice) | Dots.        (* a slice, or Ellipsis *)

Definition is_dots (it : item) : bool := match it with Dots => true | Sl _ => false end.

Definition slices_of (sel : list item) : list pslice :=
  flat_map (fun it => match it with Sl s => [s] | Dots => [] end) sel.

(* the three branches of the code, in the order the code tests them
   (a 1-D shape takes the first branch) *)
Definition raw_selectors (ndim ax len b : nat) : list (list item) :=
  let sl i := Sl (Some (i * b), Some ((i + 1) * b)) in
  let idx := seq 0 (numchunks len b) in
  if ax =? 0 then map (fun i => [sl i; Dots]) idx
  else if ax =? ndim - 1 then map (fun i => [Dots; sl i]) idx
  else map (fun i => repeat (Sl colon) ax ++ [sl i; Dots]) idx.

(* ---- numpy basic indexing --------------------------------------------- *)
(* one slice per axis: Ellipsis expands to the missing ':'; a selector shorter
   than ndim is completed with ':'; two Ellipsis or too many items = IndexError *)
Fixpoint expand (ndim : nat) (sel : list item) {struct sel} : option (list pslice) :=
  match sel with
  | [] => Some (repeat colon ndim)
  | Dots :: rest =>
      if existsb is_dots rest then None
      else if length rest <=? ndim
           then Some (repeat colon (ndim - length rest) ++ slices_of rest)
           else None
  | Sl s :: rest =>
      match ndim with
      | 0 => None
      | S n => option_map (cons s) (expand n rest)
      end
  end.

(* slice(start, stop) on an axis of length L selects [min start L, min stop L)
   (non-negative bounds); for the chunk slices this is Chunk.chunk *)
Definition clip (L : nat) (s : pslice) : nat * nat :=
  (match fst s with Some a => Nat.min a L | None => 0 end,
   match snd s with Some e => Nat.min e L | None => L end).

Fixpoint clip_all (shape : list nat) (ss : list pslice) : list (nat * nat) :=
  match shape, ss with
  | L :: shape, s :: ss => clip L s :: clip_all shape ss
  | _, _ => []
  end.

(* the range selected on every axis of `shape` by the selector `sel` *)
Definition resolve (shape : list nat) (sel : list item) : option (list (nat * nat)) :=
  option_map (clip_all shape) (expand (length shape) sel).

Fixpoint sequence {A} (l : list (option A)) : option (list A) :=
  match l with
  | [] => Some []
  | None :: _ => None
  | Some x :: l => option_map (cons x) (sequence l)
  end.

(* chunk_array(shape, b, axis): per-axis ranges of every yielded selector, in
   the order they are yielded *)
Definition chunk_selectors (shape : list nat) (b : nat) (axis : Z)
  : option (list (list (nat * nat))) :=
  match normalise_axis (length shape) axis with
  | None => None                                  (* IndexError *)
  | Some ax =>
      if b =? 0 then None                         (* ZeroDivisionError *)
      else sequence (map (resolve shape)
                         (raw_selectors (length shape) ax (nth ax shape 0) b))
  end.

(* ---- index sets -------------------------------------------------------- *)
(* the multi-indices selected by one range per axis (C order) *)
Fixpoint box_cells (rs : list (nat * nat)) : list (list nat) :=
  match rs with
  | [] => [[]]
  | r :: rs => flat_map (fun i => map (cons i) (box_cells rs)) (range_of r)
  end.

Definition full_ranges (shape : list nat) : list (nat * nat) := map (fun L => (0, L)) shape.

(* every multi-index of an array of this shape *)
Definition index_space (shape : list nat) : list (list nat) := box_cells (full_ranges shape).
