(* Model/Interface.v — arim.model: snell_angles, _fluid_solid_n, fluid_solid,
   solid_l_fluid, solid_t_fluid, transmission_at_interface,
   reflection_at_interface (C04; reused by C07/C03 for the path products).

   Everything is written ONCE over a record `Num K` (Base/Num.v):
     K := T           real angle dtype       (instance N)
     K := T * T       complex angle dtype    (instance NumC N, derived below:
                                              complex numbers are pairs, no
                                              complex primitive is trusted)
   Three layers, from the bottom:
     *_k    the formulas of the code, operation for operation (same
            parenthesisation, same order of the multiplications/divisions), on
            the trigonometric values the code evaluates:
            cos(a_f) cos(a_l) sin(2a_l) sin(2a_t) cos(2a_t) sin(4a_t);
     *_sc   the same with the double angles expanded from (sin, cos) of the three
            angles: THE INTERFACE FOR THEOREMS AND FOR THE PATH-LEVEL MODELS
            (material constants and (sin, cos) of the three angles in,
            coefficients out);
     *_ang  the code as it is called: angles in, numpy sin/cos of 2a, 4a,
            Snell angles computed on the fly when the caller passes None.
   Material constants are passed as elements of K (for K = T*T: `cre x`). *)
From Coq Require Import ZArith List.
From Arim Require Import Base.Num.

(* ------------------------------------------------------------------------- *)
(* Complex numbers as pairs over any Num T.                                    *)
Section Complex.
  Context {T : Type} (N : Num T).
  Local Notation "a + b" := (nadd N a b).
  Local Notation "a - b" := (nsub N a b).
  Local Notation "a * b" := (nmul N a b).
  Local Notation "a / b" := (ndiv N a b).
  Local Notation "- a" := (nopp N a).
  Local Notation zero := (n0 N).
  Local Notation one := (n1 N).
  Local Notation two := (nofZ N 2%Z).

  Definition cre (x : T) : T * T := (x, zero).
  Definition cadd (z w : T * T) : T * T := (fst z + fst w, snd z + snd w).
  Definition csub (z w : T * T) : T * T := (fst z - fst w, snd z - snd w).
  Definition copp (z : T * T) : T * T := (- fst z, - snd z).
  Definition cmul (z w : T * T) : T * T :=
    (fst z * fst w - snd z * snd w, fst z * snd w + snd z * fst w).
  (* quotient.  A real denominator (imaginary part 0) divides both parts, so that a
     quotient of two material constants is the float quotient the Python code computes
     on real scalars (this matters for the Snell sine next to a critical angle);
     otherwise the textbook formula (numpy uses Smith's scaling: same value up to
     rounding). *)
  Definition cdiv (z w : T * T) : T * T :=
    if neqb N (snd w) zero then (fst z / fst w, snd z / fst w)
    else
      let d := fst w * fst w + snd w * snd w in
      ((fst z * fst w + snd z * snd w) / d, (snd z * fst w - fst z * snd w) / d).
  Definition cnorm2 (z : T * T) : T := fst z * fst z + snd z * snd z.

  (* exp y - 1 and ln (1 + t), written so that they are exact over the reals AND
     accurate in floating point near 0 (Kahan's device; numpy/libm are accurate
     there, the naive exp y - 1 loses all relative accuracy) *)
  Definition rexpm1 (y : T) : T :=
    let u := nexp N y in if neqb N u one then y else (u - one) * y / nln N u.
  Definition rlog1p (t : T) : T :=
    let w := one + t in if neqb N w one then t else nln N w * t / (w - one).
  Definition rcosh (y : T) : T := (nexp N y + nexp N (- y)) / two.
  (* sinh y = (e + e/(e+1))/2 with e = exp y - 1 *)
  Definition rsinh (y : T) : T := let e := rexpm1 y in (e + e / (e + one)) / two.
  (* sin(a+ib) = sin a cosh b + i cos a sinh b ; cos(a+ib) = cos a cosh b - i sin a sinh b *)
  Definition csin (z : T * T) : T * T :=
    (nsin N (fst z) * rcosh (snd z), ncos N (fst z) * rsinh (snd z)).
  Definition ccos (z : T * T) : T * T :=
    (ncos N (fst z) * rcosh (snd z), - (nsin N (fst z) * rsinh (snd z))).

  (* acosh x = ln(x + sqrt((x-1)(x+1))) = log1p((x-1) + sqrt((x-1)(x+1))), x >= 1 *)
  Definition racosh (x : T) : T := rlog1p ((x - one) + nsqrt N ((x - one) * (x + one))).

  (* numpy's complex arcsin.
     On the real axis (imaginary part 0, which numpy holds as +0 for every angle
     this model produces), piecewise:
        |s| <= 1 : (asin s, 0)
        s  >  1  : ( pi/2, acosh s)          the branch numpy takes for s + 0i
        s  < -1  : (-pi/2, acosh (-s))
     Off the real axis, the principal value by the classical formula
        asin z = asin b + i sgn(y) ln(a + sqrt(a^2-1)),
        a = (|z+1| + |z-1|)/2, b = (|z+1| - |z-1|)/2      (Abramowitz-Stegun 4.4.37) *)
  Definition carcsin (z : T * T) : T * T :=
    let s := fst z in let y := snd z in
    if neqb N y zero then
      if nltb N one s then (npi N / two, racosh s)
      else if nltb N s (- one) then (- (npi N / two), racosh (- s))
      else (nasin N s, zero)
    else
      let r1 := nsqrt N ((s + one) * (s + one) + y * y) in
      let r2 := nsqrt N ((s - one) * (s - one) + y * y) in
      let a := (r1 + r2) / two in let b := (r1 - r2) / two in
      let im := racosh a in
      (nasin N b, if nltb N y zero then - im else im).

  (* The complex instance.  Fields the interface model never uses (sqrt, acos,
     atan2, exp, ln, comparisons, roundings) are filled with the real part's
     operation and are never reached. *)
  Definition NumC : Num (T * T) := {|
    n0 := cre zero; n1 := cre one;
    nadd := cadd; nsub := csub; nmul := cmul; ndiv := cdiv; nopp := copp;
    nsqrt := fun z => cre (nsqrt N (fst z));
    nsin := csin; ncos := ccos; nasin := carcsin;
    nacos := fun z => cre (nacos N (fst z));
    natan2 := fun z w => cre (natan2 N (fst z) (fst w));
    nexp := fun z => cre (nexp N (fst z)); nln := fun z => cre (nln N (fst z));
    npi := cre (npi N);
    nltb := fun z w => nltb N (fst z) (fst w); nleb := fun z w => nleb N (fst z) (fst w);
    neqb := fun z w => andb (neqb N (fst z) (fst w)) (neqb N (snd z) (snd w));
    nofZ := fun k => cre (nofZ N k);
    nfloor := fun z => nfloor N (fst z); ntrunc := fun z => ntrunc N (fst z);
    nround := fun z => nround N (fst z)
  |}.
End Complex.

(* ------------------------------------------------------------------------- *)
Inductive ikind := FluidSolid | SolidFluid.        (* InterfaceKind *)
Inductive wmode := ModeL | ModeT.                  (* Mode *)
Inductive cunit := Stress | Displacement.          (* unit= *)

Definition ikind_reverse (k : ikind) : ikind :=
  match k with FluidSolid => SolidFluid | SolidFluid => FluidSolid end.

(* arim.Material as far as these functions read it.  For a fluid the code holds
   transverse_vel = None; see `reflection_at_interface`. *)
Record material (K : Type) := mkMaterial { m_rho : K; m_vl : K; m_vt : K }.
Arguments mkMaterial {K}. Arguments m_rho {K}. Arguments m_vl {K}. Arguments m_vt {K}.

Section Kernel.
  Context {K : Type} (N : Num K).
  Local Notation "a + b" := (nadd N a b).
  Local Notation "a - b" := (nsub N a b).
  Local Notation "a * b" := (nmul N a b).
  Local Notation "a / b" := (ndiv N a b).
  Local Notation "- a" := (nopp N a).
  Local Notation two := (nofZ N 2%Z).
  Local Notation four := (nofZ N 4%Z).

  (* np.arcsin(c_refracted / c_incident * sin(incidents_angles)) *)
  Definition snell_sin (sin_inc c_incident c_refracted : K) : K :=
    c_refracted / c_incident * sin_inc.
  Definition snell_angles (alpha c_incident c_refracted : K) : K :=
    nasin N (snell_sin (nsin N alpha) c_incident c_refracted).

  (* ---- layer _k : the formulas ------------------------------------------ *)
  (* _fluid_solid_n *)
  Definition fluid_solid_n_k (cos_f cos_l sin_2l sin_2t cos_2t rho_f rho_s v_f v_l v_t : K) : K :=
    let ct_cl2 := (v_t * v_t) / (v_l * v_l) in
    ct_cl2 * sin_2l * sin_2t + cos_2t * cos_2t + rho_f * v_f / (rho_s * v_l) * cos_l / cos_f.

  (* fluid_solid: (reflection, transmission_l, transmission_t) *)
  Definition fluid_solid_k (cos_f cos_l sin_2l sin_2t cos_2t rho_f rho_s v_f v_l v_t : K) : K * K * K :=
    let n := fluid_solid_n_k cos_f cos_l sin_2l sin_2t cos_2t rho_f rho_s v_f v_l v_t in
    let ct_cl2 := (v_t * v_t) / (v_l * v_l) in
    let reflection :=
      (ct_cl2 * sin_2l * sin_2t + cos_2t * cos_2t
       - (rho_f * v_f * cos_l) / (rho_s * v_l * cos_f)) / n in
    let transmission_l := two * cos_2t / n in
    let transmission_t := - two * ct_cl2 * sin_2l / n in
    (reflection, transmission_l, transmission_t).

  (* solid_l_fluid: (reflection_l, reflection_t, transmission) *)
  Definition solid_l_fluid_k (cos_f cos_l sin_2l sin_2t cos_2t rho_f rho_s v_f v_l v_t : K) : K * K * K :=
    let n := fluid_solid_n_k cos_f cos_l sin_2l sin_2t cos_2t rho_f rho_s v_f v_l v_t in
    let ct_cl2 := (v_t * v_t) / (v_l * v_l) in
    let reflection_l :=
      (ct_cl2 * sin_2l * sin_2t - cos_2t * cos_2t
       + rho_f * v_f / (rho_s * v_l) * cos_l / cos_f) / n in
    let reflection_t := (two * ct_cl2 * sin_2l * cos_2t) / n in
    let transmission := two * rho_f * v_f * cos_l * cos_2t / (n * rho_s * v_l * cos_f) in
    (reflection_l, reflection_t, transmission).

  (* solid_t_fluid: (reflection_l, reflection_t, transmission) *)
  Definition solid_t_fluid_k (cos_f cos_l sin_2l sin_2t cos_2t sin_4t rho_f rho_s v_f v_l v_t : K) : K * K * K :=
    let n := fluid_solid_n_k cos_f cos_l sin_2l sin_2t cos_2t rho_f rho_s v_f v_l v_t in
    let reflection_l := - sin_4t / n in
    let ct_cl2 := (v_t * v_t) / (v_l * v_l) in
    let reflection_t :=
      (ct_cl2 * sin_2l * sin_2t - cos_2t * cos_2t
       - rho_f * v_f / (rho_s * v_l) * cos_l / cos_f) / n in
    let transmission := two * rho_f * v_f * cos_l * sin_2t / (n * rho_s * v_l * cos_f) in
    (reflection_l, reflection_t, transmission).

  (* ---- layer _sc : (sin, cos) of the three angles ------------------------ *)
  Definition sin2 (s c : K) : K := two * s * c.
  Definition cos2 (s c : K) : K := c * c - s * s.
  Definition sin4 (s c : K) : K := two * sin2 s c * cos2 s c.

  Definition fluid_solid_n_sc (sf cf sl cl st ct rho_f rho_s v_f v_l v_t : K) : K :=
    fluid_solid_n_k cf cl (sin2 sl cl) (sin2 st ct) (cos2 st ct) rho_f rho_s v_f v_l v_t.
  Definition fluid_solid_sc (sf cf sl cl st ct rho_f rho_s v_f v_l v_t : K) : K * K * K :=
    fluid_solid_k cf cl (sin2 sl cl) (sin2 st ct) (cos2 st ct) rho_f rho_s v_f v_l v_t.
  Definition solid_l_fluid_sc (sf cf sl cl st ct rho_f rho_s v_f v_l v_t : K) : K * K * K :=
    solid_l_fluid_k cf cl (sin2 sl cl) (sin2 st ct) (cos2 st ct) rho_f rho_s v_f v_l v_t.
  Definition solid_t_fluid_sc (sf cf sl cl st ct rho_f rho_s v_f v_l v_t : K) : K * K * K :=
    solid_t_fluid_k cf cl (sin2 sl cl) (sin2 st ct) (cos2 st ct) (sin4 st ct) rho_f rho_s v_f v_l v_t.

  (* ---- layer _ang : the functions as called ------------------------------ *)
  Definition fluid_solid_n_ang (a_f a_l a_t rho_f rho_s v_f v_l v_t : K) : K :=
    fluid_solid_n_k (ncos N a_f) (ncos N a_l) (nsin N (two * a_l)) (nsin N (two * a_t))
                    (ncos N (two * a_t)) rho_f rho_s v_f v_l v_t.
  (* with the three angles given *)
  Definition fluid_solid_ang (a_f a_l a_t rho_f rho_s v_f v_l v_t : K) : K * K * K :=
    fluid_solid_k (ncos N a_f) (ncos N a_l) (nsin N (two * a_l)) (nsin N (two * a_t))
                  (ncos N (two * a_t)) rho_f rho_s v_f v_l v_t.
  Definition solid_l_fluid_ang (a_f a_l a_t rho_f rho_s v_f v_l v_t : K) : K * K * K :=
    solid_l_fluid_k (ncos N a_f) (ncos N a_l) (nsin N (two * a_l)) (nsin N (two * a_t))
                    (ncos N (two * a_t)) rho_f rho_s v_f v_l v_t.
  Definition solid_t_fluid_ang (a_f a_l a_t rho_f rho_s v_f v_l v_t : K) : K * K * K :=
    solid_t_fluid_k (ncos N a_f) (ncos N a_l) (nsin N (two * a_l)) (nsin N (two * a_t))
                    (ncos N (two * a_t)) (nsin N (four * a_t)) rho_f rho_s v_f v_l v_t.

  (* with alpha_l = alpha_t = None (resp. alpha_fluid = alpha_t = None, ...):
     the other two angles by snell_angles, exactly the calls of the code *)
  Definition fluid_solid_auto (a_f rho_f rho_s v_f v_l v_t : K) : K * K * K :=
    fluid_solid_ang a_f (snell_angles a_f v_f v_l) (snell_angles a_f v_f v_t) rho_f rho_s v_f v_l v_t.
  Definition solid_l_fluid_auto (a_l rho_f rho_s v_f v_l v_t : K) : K * K * K :=
    solid_l_fluid_ang (snell_angles a_l v_l v_f) a_l (snell_angles a_l v_l v_t) rho_f rho_s v_f v_l v_t.
  Definition solid_t_fluid_auto (a_t rho_f rho_s v_f v_l v_t : K) : K * K * K :=
    solid_t_fluid_ang (snell_angles a_t v_t v_f) (snell_angles a_t v_t v_l) a_t rho_f rho_s v_f v_l v_t.

  (* ---- the per-interface helpers ----------------------------------------- *)
  Definition velocity (m : material K) (md : wmode) : K :=
    match md with ModeL => m_vl m | ModeT => m_vt m end.

  (* z = (material_inc.density * material_inc.velocity(mode_inc))
         / (material_out.density * material_out.velocity(mode_out)) *)
  Definition impedance_ratio (m_inc m_out : material K) (mode_inc mode_out : wmode) : K :=
    (m_rho m_inc * velocity m_inc mode_inc) / (m_rho m_out * velocity m_out mode_out).

  Definition fst3 (x : K * K * K) : K := fst (fst x).
  Definition snd3 (x : K * K * K) : K := snd (fst x).
  Definition thd3 (x : K * K * K) : K := snd x.

  (* transmission_at_interface(kind, material_inc, material_out, mode_inc, mode_out,
                               angles_inc, unit).
     None = the code raises: AssertionError "you've broken the physics"
     (fluid_solid with mode_inc = T, solid_fluid with mode_out = T).
     `alpha` is the angle after the force_complex conversion, i.e. an element of
     K = T*T when force_complex=True. *)
  Definition transmission_at_interface (kind : ikind) (m_inc m_out : material K)
      (mode_inc mode_out : wmode) (alpha : K) (u : cunit) : option K :=
    match kind with
    | FluidSolid =>
        match mode_inc with
        | ModeT => None
        | ModeL =>
            let fluid := m_inc in let solid := m_out in
            let r := fluid_solid_auto alpha (m_rho fluid) (m_rho solid) (m_vl fluid) (m_vl solid) (m_vt solid) in
            let z := impedance_ratio m_inc m_out mode_inc mode_out in
            let tl := match u with Stress => snd3 r | Displacement => snd3 r * z end in
            let tt := match u with Stress => thd3 r | Displacement => thd3 r * z end in
            Some (match mode_out with ModeL => tl | ModeT => tt end)
        end
    | SolidFluid =>
        match mode_out with
        | ModeT => None
        | ModeL =>
            let solid := m_inc in let fluid := m_out in
            let r := match mode_inc with
                     | ModeL => solid_l_fluid_auto alpha (m_rho fluid) (m_rho solid) (m_vl fluid) (m_vl solid) (m_vt solid)
                     | ModeT => solid_t_fluid_auto alpha (m_rho fluid) (m_rho solid) (m_vl fluid) (m_vl solid) (m_vt solid)
                     end in
            let z := impedance_ratio m_inc m_out mode_inc mode_out in
            Some (match u with Stress => thd3 r | Displacement => thd3 r * z end)
        end
    end.

  (* reflection_at_interface(kind, material_inc, material_against, mode_inc, mode_out,
                             angles_inc, unit).
     z = material_inc.velocity(mode_inc) / material_inc.velocity(mode_out).
     None = the code raises: for kind fluid_solid the incident material is the
     fluid, whose transverse_vel is None, so any T mode gives a TypeError in z. *)
  Definition reflection_at_interface (kind : ikind) (m_inc m_against : material K)
      (mode_inc mode_out : wmode) (alpha : K) (u : cunit) : option K :=
    match kind with
    | SolidFluid =>
        let solid := m_inc in let fluid := m_against in
        let r := match mode_inc with
                 | ModeL => solid_l_fluid_auto alpha (m_rho fluid) (m_rho solid) (m_vl fluid) (m_vl solid) (m_vt solid)
                 | ModeT => solid_t_fluid_auto alpha (m_rho fluid) (m_rho solid) (m_vl fluid) (m_vl solid) (m_vt solid)
                 end in
        let z := velocity m_inc mode_inc / velocity m_inc mode_out in
        let sel := match mode_out with ModeL => fst3 r | ModeT => snd3 r end in
        Some (match u with Stress => sel | Displacement => sel * z end)
    | FluidSolid =>
        match mode_inc, mode_out with
        | ModeL, ModeL =>
            let solid := m_against in let fluid := m_inc in
            let r := fluid_solid_auto alpha (m_rho fluid) (m_rho solid) (m_vl fluid) (m_vl solid) (m_vt solid) in
            let z := velocity m_inc mode_inc / velocity m_inc mode_out in
            Some (match u with Stress => fst3 r | Displacement => fst3 r * z end)
        | _, _ => None
        end
    end.
End Kernel.
