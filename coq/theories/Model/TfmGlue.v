(* Model/TfmGlue.v — the glue of arim.im.tfm around the cores of Model/Tfm.v (C12).

   Definitions only; lemmas are in Proofs/TfmGlueProofs.v (any numeric instance, axiom-free)
   and Proofs/TfmGlueRealProofs.v (over R).  Mirrors:

     numpy N-d arrays in logical (C index) order           ndt, nd_get, nd_flatten, nd_reshape, np_reshape,
                                                            ravel, ndindex, shape_size
     arim.geometry.Points.to_1d_points  (geometry.py:366)   nd_flatten   (coords.reshape((size, 3)))
     res.reshape(grid.shape)            (tfm.py:427, 466)   np_reshape
     arim.im.tfm.TfmResult.__init__     (tfm.py:319-322)    tfm_result   (assert res.shape == grid.shape)
     arim.im.tfm.contact_tfm            (tfm.py:381-428)    contact_tfm_nd   (grid of any shape, the shape
                                                            assertion on lookup_times, reshape, TfmResult)
     arim.im.tfm.tfm_for_view           (tfm.py:431-467)    tfm_for_view_nd (times_width_ok), tfm_for_view_mem
     FocalLaw.__init__ / weigh_timetraces on an explicit timetrace_weights argument (tfm.py:204-219, 283-304):
                                                            weights_x, bcast_weights, contact_tfm_x
     arim.ut.default_timetrace_weights  (ut.py:114-154)     default_weights_z  (any integer index values; empty = ValueError)
     memory order of Rays.times, `.T`, np.ascontiguousarray, np.asfortranarray (ray.py:452-471, tfm.py:206-208):
                                                            arr2, a_get, a_rows, a_T, a_ascontiguous, a_asfortran
     arim.geometry.points_in_rectbox    (geometry.py:1396-1446)   in_rectbox, points_in_rectbox
     TfmResult.maximum_intensity_in_area / _in_rectbox (tfm.py:324-368)   nanmax, maximum_intensity_in_area,
                                                            maximum_intensity_in_rectbox(_nd)
     the logger.warning branches of contact_tfm / tfm_for_view (tfm.py:414-419, 455-459)
                                                            contact_tfm_warns, tfm_for_view_warns
     sub-lists of grid points (block-wise imaging)          take_idx, take_cols

   A call that raises is `None` (or GRaise).  An N-d array is the nested list of its elements
   indexed logically (first index = outermost list): numpy's reshape reads and writes elements in
   C index order (last index fastest) WHATEVER the memory layout of the source, so the memory
   layout of `coords` plays no role; the memory layout of Rays.times (C or Fortran) is modelled
   explicitly by `arr2` because tfm_for_view takes `.T` of it. *)
From Coq Require Import List ZArith Bool Arith.
From Arim Require Import Base.Num Model.MinPlus Model.Fermat Model.Das Model.Frame Model.Tfm.
Import ListNotations.

(* ==========================================================================
   N-d arrays *)
Fixpoint ndt (A : Type) (d : nat) : Type :=
  match d with O => A | S d' => list (ndt A d') end.

(* prod(shape) *)
Definition shape_size (s : list nat) : nat := fold_right Nat.mul 1 s.

(* a[idx] for a full multi-index; None = IndexError (negative indices are not modelled) *)
Fixpoint nd_get {A} (d : nat) : ndt A d -> list nat -> option A :=
  match d return ndt A d -> list nat -> option A with
  | O => fun a idx => match idx with [] => Some a | _ => None end
  | S d' => fun l idx =>
      match idx with
      | [] => None
      | i :: idx' => match nth_error l i with Some t => nd_get d' t idx' | None => None end
      end
  end.

(* a.reshape(-1): the elements in C index order (np.ndindex order, last index fastest) *)
Fixpoint nd_flatten {A} (d : nat) : ndt A d -> list A :=
  match d return ndt A d -> list A with
  | O => fun a => [a]
  | S d' => fun l => flat_map (nd_flatten d') l
  end.

Fixpoint nd_map {A B} (f : A -> B) (d : nat) : ndt A d -> ndt B d :=
  match d return ndt A d -> ndt B d with
  | O => fun a => f a
  | S d' => fun l => map (nd_map f d') l
  end.

(* the nested list IS an array of shape s (numpy arrays always are; a nested list need not be) *)
Fixpoint nd_okb {A} (s : list nat) : ndt A (length s) -> bool :=
  match s return ndt A (length s) -> bool with
  | [] => fun _ => true
  | n :: s' => fun l => (length l =? n) && forallb (nd_okb s') l
  end.

(* flat.reshape(s): element k of the flat array goes to the k-th multi-index in C order;
   `dflt` is never read when len(flat) = prod(s) *)
Fixpoint nd_reshape {A} (dflt : A) (s : list nat) (flat : list A) : ndt A (length s) :=
  match s return ndt A (length s) with
  | [] => hd dflt flat
  | n :: s' =>
      map (fun i => nd_reshape dflt s' (firstn (shape_size s') (skipn (i * shape_size s') flat))) (seq 0 n)
  end.

(* ValueError: cannot reshape array of size len(flat) into shape s *)
Definition np_reshape {A} (dflt : A) (s : list nat) (flat : list A) : option (ndt A (length s)) :=
  if length flat =? shape_size s then Some (nd_reshape dflt s flat) else None.

(* np.ravel_multi_index(idx, s): position of the multi-index in C order; None = out of range *)
Fixpoint ravel (s idx : list nat) : option nat :=
  match s, idx with
  | [], [] => Some 0
  | n :: s', i :: idx' =>
      if i <? n then option_map (fun r => i * shape_size s' + r) (ravel s' idx') else None
  | _, _ => None
  end.

(* np.ndindex of the shape s: all multi-indices, last index fastest *)
Fixpoint ndindex (s : list nat) : list (list nat) :=
  match s with
  | [] => [[]]
  | n :: s' => flat_map (fun i => map (cons i) (ndindex s')) (seq 0 n)
  end.

(* ==========================================================================
   l[idx] for a list of integer indices (np.take on axis 0; None = IndexError) *)
Definition take_idx {A} (idx : list nat) (l : list A) : option (list A) := mapM (nth_error l) idx.
(* t[:, idx] *)
Definition take_cols {A} (idx : list nat) (t : list (list A)) : option (list (list A)) := mapM (take_idx idx) t.

(* ==========================================================================
   ut.default_timetrace_weights(tx, rx) on index VALUES (Python ints and numpy integers of any
   dtype hash and compare by value inside the tuples of the set `elements_pairs`), ut.py:142-154:
       if len(tx) != len(rx): raise ValueError
       numtimetraces = len(tx)
       elements_pairs = {*zip(tx, rx)}
       timetrace_weights = np.ones(numtimetraces)
       for this_tx, this_rx, w in zip(tx, rx, np.nditer(timetrace_weights, op_flags=["readwrite"])):
           if (this_rx, this_tx) not in elements_pairs: w[...] = 2.0
   np.nditer refuses a zero-sized operand ("ValueError: Iteration of zero-sized operands is not
   enabled", ut.py:150): on two EMPTY lists the call raises, it does not return an empty array. *)
Definition zpair_mem (p : Z * Z) (l : list (Z * Z)) : bool :=
  existsb (fun q => Z.eqb (fst p) (fst q) && Z.eqb (snd p) (snd q)) l.

Definition default_weights_z (tx rx : list Z) : option (list Z) :=
  if length tx =? length rx then
    let numtimetraces := length tx in
    let elements_pairs := combine tx rx in
    if numtimetraces =? 0 then None      (* np.nditer(np.ones(0)): ValueError *)
    else Some (map (fun p => if zpair_mem (snd p, fst p) elements_pairs then 1%Z else 2%Z) elements_pairs)
  else None.

(* ==========================================================================
   memory order of a 2-d array: shape (a_m, a_p), one buffer, C order (row i at offset i * a_p)
   or Fortran order (column j at offset j * a_m) *)
Record arr2 (A : Type) := mkArr2 { a_m : nat; a_p : nat; a_forder : bool; a_buf : list A }.
Arguments mkArr2 {A}. Arguments a_m {A}. Arguments a_p {A}. Arguments a_forder {A}. Arguments a_buf {A}.

Section Arr2.
  Context {A : Type} (dflt : A).
  Definition a_off (a : arr2 A) (i j : nat) : nat :=
    if a_forder a then i + j * a_m a else i * a_p a + j.
  (* a[i, j] *)
  Definition a_get (a : arr2 A) (i j : nat) : A := nth (a_off a i j) (a_buf a) dflt.
  (* the logical content, as the list of rows *)
  Definition a_rows (a : arr2 A) : list (list A) := tab (a_m a) (a_p a) (a_get a).
  (* a.T : a view on the same buffer, shape and strides exchanged *)
  Definition a_T (a : arr2 A) : arr2 A := mkArr2 (a_p a) (a_m a) (negb (a_forder a)) (a_buf a).
  (* np.ascontiguousarray(a): a itself when C-ordered, else a C-ordered copy *)
  Definition a_ascontiguous (a : arr2 A) : arr2 A :=
    if a_forder a then mkArr2 (a_m a) (a_p a) false (concat (a_rows a)) else a.
  (* np.asfortranarray(a)  (Rays.to_fortran_order) *)
  Definition a_asfortran (a : arr2 A) : arr2 A :=
    if a_forder a then a
    else mkArr2 (a_m a) (a_p a) true (concat (tab (a_p a) (a_m a) (fun j i => a_get a i j))).
  (* np.array(rows) : C order *)
  Definition a_of_rows (p : nat) (t : list (list A)) : arr2 A := mkArr2 (length t) p false (concat t).
End Arr2.

(* every row of a (numelements, w) table given as nested lists has w = p entries (a table with no
   row has any width) *)
Definition times_width_ok {A} (p : nat) (t : list (list A)) : bool := forallb (fun row => length row =? p) t.

(* ==========================================================================
   outcomes of the calls with an explicit timetrace_weights argument *)
Inductive glue_result (A : Type) :=
  | GOk (a : A)
  | GRaise                (* a Python exception *)
  | GShapeDrift.          (* no exception, but the kernel runs with numtimetraces <> len(frame.tx):
                             reads tx / rx out of bounds (observed: segmentation fault) or divides 0 by 0 *)
Arguments GOk {A}. Arguments GRaise {A}. Arguments GShapeDrift {A}.

Definition glue_of_option {A} (o : option A) : glue_result A :=
  match o with Some a => GOk a | None => GRaise end.

(* timetrace_weights as the caller may write it *)
Inductive weights_x (T : Type) :=
  | XDefault                 (* "default" *)
  | XNone                    (* None *)
  | XScalar (w : T)          (* a float: np.ascontiguousarray makes it a (1,) array *)
  | XArray (w : list T)      (* a list / 1-d array *)
  | XNd.                     (* ndim >= 2: assert timetrace_weights.ndim == 1 *)
Arguments XDefault {T}. Arguments XNone {T}. Arguments XScalar {T}. Arguments XArray {T}. Arguments XNd {T}.

Section Glue.
  Context {T D : Type} (N : Num T) (V : Data T D).
  Let pt := (T * T * T)%type.

  (* ---- contact_tfm on a grid of any shape s = grid.shape --------------------------
       lookup_times = distance_pairwise(grid.to_1d_points(), probe.locations) / velocity
       assert lookup_times.ndim == 2
       assert lookup_times.shape == (grid.numpoints, frame.probe.numelements)
       ... res = das.delay_and_sum(...); res = res.reshape(grid.shape); TfmResult(res, grid) *)
  Definition lookup_shape_ok (lt : list (list T)) (numpoints numelements : nat) : bool :=
    (length lt =? numpoints) && forallb (fun row => length row =? numelements) lt.

  (* TfmResult.__init__: assert res.shape == grid.shape; shapes are compared as tuples *)
  Definition tfm_result (res_shape grid_shape : list nat) : bool :=
    (length res_shape =? length grid_shape) && forallb (fun ab => fst ab =? snd ab) (combine res_shape grid_shape).

  Definition contact_tfm_nd (sc : scheme) (ns : Z) (dt t0 : T) (fill : D) (wa : weights_arg T)
             (s : list nat) (grid : ndt pt (length s)) (probe : list pt) (velocity : T)
             (amps : option (@amp_tables D)) (ss : list (scan D)) : option (ndt D (length s)) :=
    let grid1d := nd_flatten (length s) grid in
    let lookup_times := contact_lookup_times N grid1d probe velocity in
    if lookup_shape_ok lookup_times (shape_size s) (length probe) then
      match contact_tfm N V sc ns dt t0 fill wa grid1d probe velocity amps ss with
      | None => None
      | Some res =>
          match np_reshape (dzero V) s res with
          | None => None
          | Some img => if tfm_result s s then Some img else None
          end
      end
    else None.

  (* tfm_for_view on a grid of shape s = grid.shape.  Rays.times has shape (numelements, w); `.T`
     has w rows, and the code never looks at grid.numpoints before the final reshape:
       FocalLaw.__init__ : assert lookup_times_tx.shape[0] == lookup_times_rx.shape[0]   (tfm.py:214)
                           -> AssertionError when the two tables have different widths
       res = das.delay_and_sum(...)      one value per COLUMN of the ray times
       res.reshape(grid.shape)           (tfm.py:466) -> ValueError unless that width = prod(s)
     so the call raises as soon as a width differs from prod(s).  A nested list does not know its
     width when it has no row and MinPlus.transpose is GIVEN the number of columns (it keeps at most
     that many: it would silently drop the columns in excess), hence the widths are checked here
     before the core `tfm_for_view` is called with numgridpoints = prod(s). *)
  Definition tfm_for_view_nd (sc : scheme) (ns : Z) (dt t0 : T) (fill : D)
             (s : list nat) (tx_rays rx_rays : rays T)
             (amps : option (@amp_tables D)) (ss : list (scan D)) : option (ndt D (length s)) :=
    if times_width_ok (shape_size s) (r_times tx_rays) && times_width_ok (shape_size s) (r_times rx_rays) then
      match tfm_for_view N V sc ns dt t0 fill (shape_size s) tx_rays rx_rays amps ss with
      | None => None
      | Some res =>
          match np_reshape (dzero V) s res with
          | None => None
          | Some img => if tfm_result s s then Some img else None
          end
      end
    else None.

  (* ---- tfm_for_view on ray times with their memory order:
       lookup_times_tx = view.tx_path.rays.times.T ; FocalLaw: np.ascontiguousarray(lookup_times_tx) *)
  Definition tfm_for_view_mem (sc : scheme) (ns : Z) (dt t0 : T) (fill : D)
             (tx_times rx_times : arr2 T)
             (amps : option (@amp_tables D)) (ss : list (scan D)) : option (list D) :=
    let lookup_times_tx := a_ascontiguous (n0 N) (a_T tx_times) in
    let lookup_times_rx := a_ascontiguous (n0 N) (a_T rx_times) in
    delay_and_sum N V sc ns dt t0 fill None
                  (a_rows (n0 N) lookup_times_tx) (a_rows (n0 N) lookup_times_rx) amps ss.

  (* ---- explicit timetrace_weights: FocalLaw keeps np.ascontiguousarray(w) (ndim must be 1) and
     weigh_timetraces computes  timetraces * w[:, np.newaxis]  with numpy broadcasting of
     (n, ns) against (len w, 1):
        len w = n        row k scaled by w[k]
        len w = 1        every row scaled by w[0]
        n = 1, len w = m the product has m rows: the kernel then loops over m "timetraces" while
                         frame.tx, frame.rx have one entry
        otherwise        ValueError (operands could not be broadcast together) *)
  Definition bcast_weights (w : list T) (n : nat) : glue_result (list T) :=
    if length w =? n then GOk w
    else if length w =? 1 then GOk (repeat (hd (n0 N) w) n)
    else if n =? 1 then GShapeDrift
    else GRaise.

  Definition contact_tfm_x (sc : scheme) (ns : Z) (dt t0 : T) (fill : D) (wx : weights_x T)
             (grid probe : list pt) (velocity : T)
             (amps : option (@amp_tables D)) (ss : list (scan D)) : glue_result (list D) :=
    let run wa := glue_of_option (contact_tfm N V sc ns dt t0 fill wa grid probe velocity amps ss) in
    let run_array w :=
      match bcast_weights w (length ss) with
      | GOk w' => run (WGiven w')
      | GRaise => GRaise
      | GShapeDrift =>
          (* everything that raises before the kernel call still raises *)
          match contact_tfm N V sc ns dt t0 fill WNone grid probe velocity amps ss with
          | None => GRaise
          | Some _ => GShapeDrift
          end
      end in
    match wx with
    | XDefault => run WDefault
    | XNone => run WNone
    | XScalar w => run_array [w]
    | XArray w => run_array w
    | XNd => GRaise
    end.

  (* ---- the warning branches (logger.warning, no effect on the result) ------------ *)
  Definition frame_complete (ss : list (scan D)) : bool := is_complete (map entry_of_scan ss).
  (* contact_tfm: only with amplitudes *)
  Definition contact_tfm_warns (amps : option (@amp_tables D)) (ss : list (scan D)) : bool :=
    match amps with None => false | Some _ => negb (frame_complete ss) end.
  Definition tfm_for_view_warns (ss : list (scan D)) : bool := negb (frame_complete ss).

  (* ---- geometry.points_in_rectbox: valid_ones in the order xmin, ymin, zmin, xmax, ymax, zmax,
     each `bound <= coordinate` / `coordinate <= bound`, None = no constraint --------- *)
  Definition lower_ok (b : option T) (x : T) : bool := match b with None => true | Some m => nleb N m x end.
  Definition upper_ok (b : option T) (x : T) : bool := match b with None => true | Some m => nleb N x m end.
  Record rectbox := mkBox { b_xmin : option T; b_xmax : option T; b_ymin : option T; b_ymax : option T;
                            b_zmin : option T; b_zmax : option T }.
  Definition in_rectbox (b : rectbox) (q : pt) : bool :=
    let '(x, y, z) := q in
    lower_ok (b_xmin b) x && lower_ok (b_ymin b) y && lower_ok (b_zmin b) z
    && upper_ok (b_xmax b) x && upper_ok (b_ymax b) y && upper_ok (b_zmax b) z.
  Definition points_in_rectbox (b : rectbox) (d : nat) (grid : ndt pt d) : ndt bool d := nd_map (in_rectbox b) d grid.

  (* ---- np.nanmax: ValueError on an empty array; NaNs ignored; all NaN -> NaN (with a warning).
     `isnan` is the NaN test of the instance (constantly false over R and Q). *)
  Section MaxIntensity.
    Context (isnan : T -> bool) (dabs : D -> T).

    Definition nanmax (l : list T) : option T :=
      match l with
      | [] => None
      | x :: _ =>
          match filter (fun v => negb (isnan v)) l with
          | [] => Some x
          | y :: r => Some (fold_left (nmax N) r y)
          end
      end.

    (* res[area] for a boolean mask of the shape of res: the selected values in C order *)
    Definition mask_select {A} (l : list A) (mask : list bool) : list A := map fst (filter snd (combine l mask)).

    (* TfmResult.maximum_intensity_in_area: area None -> slice(None); np.nanmax(np.abs(res[area])) *)
    Definition maximum_intensity_in_area (res : list D) (area : option (list bool)) : option T :=
      let sel := match area with None => res | Some m => mask_select res m end in
      nanmax (map dabs sel).

    (* TfmResult.maximum_intensity_in_rectbox on the 1-d lists (C order of the grid) *)
    Definition maximum_intensity_in_rectbox (grid : list pt) (res : list D) (b : rectbox) : option T :=
      maximum_intensity_in_area res (Some (map (in_rectbox b) grid)).

    (* ... on the N-d objects of a TfmResult: res and grid have the same shape (asserted by the
       constructor); boolean-mask indexing enumerates both in C order *)
    Definition maximum_intensity_in_rectbox_nd (d : nat) (grid : ndt pt d) (res : ndt D d) (b : rectbox) : option T :=
      maximum_intensity_in_area (nd_flatten d res) (Some (nd_flatten d (points_in_rectbox b d grid))).
  End MaxIntensity.
End Glue.

(* np.abs of a real and of a complex sample *)
Definition abs_real {T} (N : Num T) (x : T) : T := nabs N x.
Definition abs_cplx {T} (N : Num T) (z : T * T) : T :=
  nsqrt N (nadd N (nmul N (fst z) (fst z)) (nmul N (snd z) (snd z))).
