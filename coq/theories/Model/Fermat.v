(* Model/Fermat.v — the discrete Fermat solver of arim.ray (C01).

   Mirrors (src/arim/ray.py, src/arim/geometry.py):
     FermatPath                   a path (P0, v0, P1, ..., v(n-1), Pn) is the snoc
                                  structure  Leg (Leg (Start P0) v0 P1) v1 P2 ...
                                  because the solver peels the LAST leg
                                  (FermatPath.split_queue: head = path[:-2],
                                  tail = path[-3:]); FermatPath.reverse
     find_minimum_times           = the kernel of Model/MinPlus.v (the tiling is C13);
                                  math.ceil(block_size / m) raises ZeroDivisionError
                                  when the middle set is empty: value None
     Rays.expand_rays/_expand_rays, Rays.make_indices, Rays.reverse,
     Rays.make_rays_two_interfaces
     FermatSolver._solve          recursion res_head = _solve(head), res_tail =
                                  _solve(tail), times = min-plus(res_head.times,
                                  res_tail.times): the accumulated time is the
                                  LEFT-NESTED sum ((t01 + t12) + t23) + ...
     FermatSolver.cached_result / cached_distance   association lists (Python dicts)
                                  keyed by the path / by the pair of point sets;
                                  Points objects hash and compare by identity
                                  (ps_eqb), velocities by float == (v_eqb)
     FermatSolver.consecutive_times   distance / speed, with the slip
                                  `rkey = (points1, points2)` (== key) copied
     FermatSolver.solve_no_clean  for path in paths: res[path] = _solve(path)
     geometry._distance_pairwise  sqrt(dx*dx + dy*dy + dz*dz)

   The solver is written once over Section variables (cost type T with ltb/add,
   distance type D, velocity type V, point-set type PS); Section Concrete gives the
   instance over a `Num` record used for executions (NumF, NumQ, OCaml floats).
   Definitions only. *)
From Coq Require Import Arith List Bool ZArith.
From Arim Require Import Base.ListX Base.Num Model.MinPlus.
Import ListNotations.

Section Solver.
  Variables T D V PS : Type.
  Variable ltb : T -> T -> bool.
  Variable add : T -> T -> T.
  Variable ps_eqb : PS -> PS -> bool.          (* identity of Points objects *)
  Variable v_eqb : V -> V -> bool.             (* == on velocities *)
  Variable size : PS -> nat.                   (* len(points) *)
  Variable dtab : PS -> PS -> list (list D).   (* g.distance_pairwise(points1, points2) *)
  Variable divv : D -> V -> T.                 (* distance / speed *)

  Inductive fpath : Type :=
  | Start (P : PS)
  | Leg (head : fpath) (v : V) (P : PS).

  Fixpoint startp (p : fpath) : PS := match p with Start P => P | Leg h _ _ => startp h end.
  Definition endp (p : fpath) : PS := match p with Start P => P | Leg _ _ P => P end.
  Fixpoint nlegs (p : fpath) : nat := match p with Start _ => 0 | Leg h _ _ => S (nlegs h) end.

  (* FermatPath((P0, v0, P1, ...)) from the forward list of (velocity, points) *)
  Definition mk_path (P0 : PS) (legs : list (V * PS)) : fpath :=
    fold_left (fun h vp => Leg h (fst vp) (snd vp)) legs (Start P0).

  (* the path (P0, v, *p) *)
  Fixpoint prepend (P0 : PS) (v : V) (p : fpath) : fpath :=
    match p with
    | Start P => Leg (Start P0) v P
    | Leg h v' P => Leg (prepend P0 v h) v' P
    end.

  (* FermatPath.reverse *)
  Fixpoint path_reverse (p : fpath) : fpath :=
    match p with
    | Start P => Start P
    | Leg h v P => prepend P v (path_reverse h)
    end.

  (* equality of dict keys *)
  Fixpoint fpath_eqb (a b : fpath) : bool :=
    match a, b with
    | Start P, Start Q => ps_eqb P Q
    | Leg h v P, Leg h' v' P' => fpath_eqb h h' && v_eqb v v' && ps_eqb P P'
    | _, _ => false
    end.

  (* Rays: times (n, p) and interior_indices (d, n, p) *)
  Record rays := mkRays { r_times : list (list T); r_int : list (list (list nat)) }.

  (* distance / speed on a whole array *)
  Definition leg_times (d : list (list D)) (v : V) : list (list T) :=
    map (map (fun x => divv x v)) d.

  (* Rays.make_rays_two_interfaces: no interior interface *)
  Definition two_interfaces (t : list (list T)) : rays := mkRays t [].

  (* find_minimum_times: m = time_1.shape[1] *)
  Definition find_minimum_times (m : nat) (t1 t2c : list (list T))
    : option (list (list T) * list (list nat)) :=
    if m =? 0 then None      (* block_size / m : ZeroDivisionError *)
    else match all_some2 (minplus ltb add t1 t2c) with
         | Some cells => Some (map (map fst) cells, map (map snd) cells)
         | None => None      (* a cell left at (inf, -1): impossible when m >= 1 *)
         end.

  (* Rays.expand_rays / _expand_rays:
       expanded[k, i, j] = interior[k, i, idx[i, j]]  (k < d),  expanded[d, i, j] = idx[i, j];
     for d = 0 the code returns idx reshaped to (1, n, p) — the same value *)
  Definition expand_layer (lay : list (list nat)) (inew : list (list nat)) : list (list nat) :=
    map (fun rr => map (fun idx => nth idx (fst rr) 0) (snd rr)) (combine lay inew).

  Definition expand_rays (interior : list (list (list nat))) (inew : list (list nat))
    : list (list (list nat)) :=
    map (fun lay => expand_layer lay inew) interior ++ [inew].

  (* Rays.make_indices for a (n, p) ray table *)
  Definition make_indices (n p : nat) (r : rays) : list (list (list nat)) :=
    [tab n p (fun i _ => i)] ++ r_int r ++ [tab n p (fun _ j => j)].

  (* indices[:, i, j] *)
  Definition ray_of (r : rays) (i j : nat) : list nat :=
    i :: map (fun lay => nth j (nth i lay []) 0) (r_int r) ++ [j].

  (* Rays.reverse (values only; p = number of columns of times) *)
  Definition rays_reverse (p : nat) (r : rays) : rays :=
    mkRays (transpose p (r_times r)) (rev (map (transpose p) (r_int r))).

  (* ---------------- stand-alone solver (no cache) ---------------------- *)
  Fixpoint solve_pure (p : fpath) : option rays :=
    match p with
    | Start _ => None                       (* FermatPath.__new__: ValueError *)
    | Leg h v P =>
        match h with
        | Start P0 => Some (two_interfaces (leg_times (dtab P0 P) v))
        | Leg _ _ Pm =>
            match solve_pure h with
            | None => None
            | Some rh =>
                match find_minimum_times (size Pm) (r_times rh)
                        (transpose (size P) (leg_times (dtab Pm P) v)) with
                | None => None
                | Some ti => Some (mkRays (fst ti) (expand_rays (r_int rh) (snd ti)))
                end
            end
        end
    end.

  (* ---------------- the solver with its two caches --------------------- *)
  Definition rcache := list (fpath * rays).
  Definition dcache := list ((PS * PS) * list (list D)).
  Definition state := (rcache * dcache)%type.

  Fixpoint lookup_r (k : fpath) (c : rcache) : option rays :=
    match c with
    | [] => None
    | (k', r) :: c' => if fpath_eqb k k' then Some r else lookup_r k c'
    end.

  Definition dkey_eqb (a b : PS * PS) : bool := ps_eqb (fst a) (fst b) && ps_eqb (snd a) (snd b).

  Fixpoint lookup_d (k : PS * PS) (c : dcache) : option (list (list D)) :=
    match c with
    | [] => None
    | (k', d) :: c' => if dkey_eqb k k' then Some d else lookup_d k c'
    end.

  (* FermatSolver.consecutive_times *)
  Definition consecutive_times (p1 : PS) (v : V) (p2 : PS) (dc : dcache) : rays * dcache :=
    let key := (p1, p2) in
    match lookup_d key dc with
    | Some d => (two_interfaces (leg_times d v), dc)
    | None =>
        let d := dtab p1 p2 in
        let rkey := (p1, p2) in                 (* sic: not (points2, points1) *)
        let dc1 := (key, d) :: dc in
        let dc2 := if negb (dkey_eqb key rkey)
                   then (rkey, transpose (size p2) d) :: dc1 else dc1 in
        (two_interfaces (leg_times d v), dc2)
    end.

  (* _solve on a path with exactly one leg: cache lookup, then consecutive_times
     (such paths are never stored in cached_result) *)
  Definition solve_one (P0 : PS) (v : V) (P : PS) (st : state) : rays * state :=
    match lookup_r (Leg (Start P0) v P) (fst st) with
    | Some r => (r, st)
    | None => let rd := consecutive_times P0 v P (snd st) in (fst rd, (fst st, snd rd))
    end.

  Fixpoint solve_st (p : fpath) (st : state) : option (rays * state) :=
    match p with
    | Start _ => None
    | Leg h v P =>
        match h with
        | Start P0 => Some (solve_one P0 v P st)
        | Leg _ _ Pm =>
            match lookup_r p (fst st) with
            | Some r => Some (r, st)                       (* cache hit *)
            | None =>
                match solve_st h st with                   (* res_head *)
                | None => None
                | Some (rh, st1) =>
                    let rt := solve_one Pm v P st1 in      (* res_tail *)
                    let st2 := snd rt in
                    match find_minimum_times (size Pm) (r_times rh)
                            (transpose (size P) (r_times (fst rt))) with
                    | None => None
                    | Some ti =>
                        let res := mkRays (fst ti) (expand_rays (r_int rh) (snd ti)) in
                        Some (res, ((p, res) :: fst st2, snd st2))
                    end
                end
            end
        end
    end.

  (* solve_no_clean: the dict `res` as the list of (path, rays) in iteration order *)
  Fixpoint solve_all (ps : list fpath) (st : state) : option (list (fpath * rays)) :=
    match ps with
    | [] => Some []
    | p :: ps' =>
        match solve_st p st with
        | None => None
        | Some (r, st') =>
            match solve_all ps' st' with
            | None => None
            | Some res => Some ((p, r) :: res)
            end
        end
    end.

  Definition solver_solve (ps : list fpath) : option (list (fpath * rays)) := solve_all ps ([], []).

  (* ---------------- specification side --------------------------------- *)
  (* entry function of one leg: time from point i of P to point j of Q at velocity v *)
  Variable wf : PS -> V -> PS -> nat -> nat -> T.

  (* cost of the ray through the indices ridx = [i_n; ...; i_1; i_0] (LAST point first),
     None when ridx is not a valid tuple for p (wrong length or an index out of range);
     the sum is left-nested: ((w0 + w1) + w2) + ... *)
  Fixpoint cost (p : fpath) (ridx : list nat) : option T :=
    match p with
    | Start _ => None
    | Leg h v P =>
        match ridx with
        | j :: ((k :: more) as ridx') =>
            if j <? size P then
              match h with
              | Start P0 =>
                  match more with
                  | [] => if k <? size P0 then Some (wf P0 v P k j) else None
                  | _ => None
                  end
              | Leg _ _ Pm =>
                  match cost h ridx' with
                  | Some c => Some (add c (wf Pm v P k j))
                  | None => None
                  end
              end
            else None
        | _ => None
        end
    end.

  (* brute force: minimum of cost over all tuples with first index i and last index j,
     enumerated in lexicographic order of (i_1, ..., i_(n-1)) *)
  Fixpoint tuples (p : fpath) (j : nat) : list (list nat) :=   (* all ridx ending (head) at j *)
    match p with
    | Start _ => [[j]]
    | Leg h _ _ =>
        map (cons j) (flat_map (tuples h) (seq 0 (size (endp h))))
    end.

  Definition min_opt (a b : option T) : option T :=
    match a, b with
    | None, _ => b
    | _, None => a
    | Some x, Some y => if ltb y x then b else a
    end.

  Definition brute (p : fpath) (i j : nat) : option T :=
    fold_left (fun acc ridx => if last ridx 0 =? i then min_opt acc (cost p ridx) else acc)
              (tuples p j) None.
End Solver.

Arguments Start {V PS}. Arguments Leg {V PS}. Arguments startp {V PS}. Arguments endp {V PS}.
Arguments nlegs {V PS}. Arguments mk_path {V PS}. Arguments prepend {V PS}.
Arguments path_reverse {V PS}. Arguments fpath_eqb {V PS}.
Arguments mkRays {T}. Arguments r_times {T}. Arguments r_int {T}.
Arguments leg_times {T D V}. Arguments two_interfaces {T}.
Arguments find_minimum_times {T}. Arguments make_indices {T}. Arguments ray_of {T}.
Arguments rays_reverse {T}.
Arguments solve_pure {T D V PS}. Arguments lookup_r {T V PS}. Arguments lookup_d {D PS}.
Arguments dkey_eqb {PS}. Arguments consecutive_times {T D V PS}. Arguments solve_one {T D V PS}.
Arguments solve_st {T D V PS}. Arguments solve_all {T D V PS}. Arguments solver_solve {T D V PS}.
Arguments cost {T V PS}. Arguments tuples {V PS}. Arguments min_opt {T}. Arguments brute {T V PS}.

(* ---------------- instance over a Num record (executions) ---------------- *)
Section Concrete.
  Context {T : Type} (N : Num T).

  Definition pt := (T * T * T)%type.
  Definition pset := (Z * list pt)%type.          (* (identity, points) *)
  Definition pts (P : pset) : list pt := snd P.
  Definition psize (P : pset) : nat := length (pts P).
  Definition pset_eqb (P Q : pset) : bool := Z.eqb (fst P) (fst Q).

  (* geometry._distance_pairwise: sqrt(dx*dx + dy*dy + dz*dz) *)
  Definition dist (a b : pt) : T :=
    let '(x1, y1, z1) := a in let '(x2, y2, z2) := b in
    let dx := nsub N x1 x2 in let dy := nsub N y1 y2 in let dz := nsub N z1 z2 in
    nsqrt N (nadd N (nadd N (nmul N dx dx) (nmul N dy dy)) (nmul N dz dz)).

  Definition distance_pairwise (P Q : pset) : list (list T) :=
    map (fun a => map (fun b => dist a b) (pts Q)) (pts P).

  Definition origin : pt := (n0 N, n0 N, n0 N).
  Definition leg_entry (P : pset) (v : T) (Q : pset) (i j : nat) : T :=
    ndiv N (dist (nth i (pts P) origin) (nth j (pts Q) origin)) v.

  Definition cpath := @fpath T pset.

  Definition c_solve_pure (p : cpath) : option (rays T) :=
    solve_pure (nltb N) (nadd N) psize distance_pairwise (ndiv N) p.

  Definition c_solver (ps : list cpath) : option (list (cpath * rays T)) :=
    solver_solve (nltb N) (nadd N) pset_eqb (neqb N) psize distance_pairwise (ndiv N) ps.

  Definition c_cost (p : cpath) (ridx : list nat) : option T :=
    cost (nadd N) psize leg_entry p ridx.

  Definition c_brute (p : cpath) (i j : nat) : option T :=
    brute (nltb N) (nadd N) psize leg_entry p i j.
End Concrete.

(* ---- float-facing wrappers used by the generated correspondence files
   (cases are written with binary Z and hex float literals, never nat literals) ---- *)
From Coq Require Import PrimFloat.
From Arim Require Import Base.NumF.

Definition fpt := (float * float * float)%type.
Definition fsets := list (Z * list fpt).

Definition find_ps (sets : fsets) (id : Z) : pset (T:=float) :=
  match find (fun s => Z.eqb (fst s) id) sets with Some s => s | None => (id, []) end.

(* a path literal: (id of P0, [(v0, id of P1); ...]) *)
Definition path_lit := (Z * list (float * Z))%type.
Definition build_path (sets : fsets) (p : path_lit) : cpath (T:=float) :=
  mk_path (find_ps sets (fst p)) (map (fun vl => (fst vl, find_ps sets (snd vl))) (snd p)).

(* |a - b| <= rtol * max(|a|, |b|); rtol = 0 means exact equality; nan never agrees *)
Definition fclose (rtol a b : float) : bool :=
  let m := if ltb (abs a) (abs b) then abs b else abs a in
  leb (abs (sub a b)) (mul rtol m).

(* one path of a group as the implementation answered it:
   (path, times (n, p), indices (d+2, n, p)) *)
Definition path_case := (path_lit * list (list float) * list (list (list Z)))%type.

Definition znth2 (lay : list (list Z)) (i j : nat) : Z := nth j (nth i lay []) (-1)%Z.

(* solve_realised evaluated on the implementation's own output *)
Definition realised_ok (rtol : float) (p : cpath (T:=float)) (times : list (list float))
           (indices : list (list (list Z))) : bool :=
  let n := psize (startp p) in let q := psize (endp p) in
  Nat.eqb (length indices) (S (nlegs p)) &&
  forallb (fun i => forallb (fun j =>
    let ray := map (fun lay => znth2 lay i j) indices in
    forallb (fun z => (0 <=? z)%Z) ray &&
    Z.eqb (hd (-1)%Z ray) (Z.of_nat i) && Z.eqb (last ray (-1)%Z) (Z.of_nat j) &&
    match c_cost NumF p (rev (map Z.to_nat ray)), get2 times i j with
    | Some c, Some t => fclose rtol c t
    | _, _ => false
    end) (seq 0 q)) (seq 0 n).

(* the spec itself (Fermat.brute: minimum of cost over ALL index tuples) evaluated on the
   implementation's times, for search spaces of at most 400 tuples *)
Fixpoint all_sizes (p : cpath (T:=float)) : list Z :=
  match p with Start P => [Z.of_nat (psize P)] | Leg h _ P => all_sizes h ++ [Z.of_nat (psize P)] end.

Definition brute_ok (rtol : float) (p : cpath (T:=float)) (times : list (list float)) : bool :=
  if (400 <? fold_right Z.mul 1%Z (all_sizes p))%Z then true
  else
    forallb (fun i => forallb (fun j =>
      match c_brute NumF p i j, get2 times i j with
      | Some b, Some t => fclose rtol b t
      | _, _ => false
      end) (seq 0 (psize (endp p)))) (seq 0 (psize (startp p))).

Definition times_ok (rtol : float) (model impl : list (list float)) : bool :=
  list_eqb (list_eqb (fclose rtol)) model impl.

(* a group of paths handed to ONE solver: model (with its caches) vs implementation *)
Definition check_group (c : fsets * float * list path_case) : bool :=
  let '(sets, rtol, pcs) := c in
  let paths := map (fun pc => build_path sets (fst (fst pc))) pcs in
  match c_solver NumF paths with
  | None => false
  | Some res =>
      Nat.eqb (length res) (length pcs) &&
      forallb (fun x =>
        let '(pr, pc) := x in
        times_ok rtol (r_times (snd pr)) (snd (fst pc))
        && realised_ok rtol (fst pr) (snd (fst pc)) (snd pc)
        && brute_ok rtol (fst pr) (snd (fst pc))
        (* the stand-alone solver gives the same times as the grouped one *)
        && match c_solve_pure NumF (fst pr) with
           | Some r1 => list_eqb (list_eqb PrimFloat.eqb) (r_times r1) (r_times (snd pr))
           | None => false
           end)
        (combine res pcs)
  end.

(* model says: error (ZeroDivisionError for an empty interior set / ValueError) *)
Definition check_error (c : fsets * path_lit) : bool :=
  match c_solve_pure NumF (build_path (fst c) (snd c)) with None => true | Some _ => false end.
