(* Model/Dft.v — the (inverse) discrete Fourier transform as a finite sum over
   Coquelicot's complex numbers: the mathematical definition that numpy.fft /
   scipy.fftpack implement (those libraries are oracles; the harness compares them with
   this definition on small sizes).  Used by C11 (spectral time shift) and C10. *)
From Coq Require Import Reals List ZArith.
From Coquelicot Require Import Complex.
Import ListNotations.
Local Open Scope R_scope.

Definition cis (t : R) : C := (cos t, sin t).

Definition csum (f : nat -> C) (n : nat) : C :=
  fold_right (fun k acc => Cplus (f k) acc) (RtoC 0) (seq 0 n).

(* x[j] = (1/n) sum_k X[k] exp(+2 pi i j k / n), for every integer j (periodic extension) *)
Definition idft (X : nat -> C) (n : nat) (j : Z) : C :=
  Cmult (RtoC (/ INR n)) (csum (fun k => Cmult (X k) (cis (2 * PI * IZR j * INR k / INR n))) n).

(* timeshift_spectra: X[k] exp(-2j pi f_k delay) with f_k = k / (n dt) *)
Definition shift_spectrum (X : nat -> C) (n : nat) (dt delay : R) : nat -> C :=
  fun k => Cmult (cis (- 2 * PI * (INR k / (INR n * dt)) * delay)) (X k).

(* ---- two-dimensional transform (rotate_matrix, C10) ----------------------- *)
Definition idft2 (X : nat -> nat -> C) (n : nat) (j1 j2 : Z) : C :=
  Cmult (RtoC (/ INR n * / INR n))
    (csum (fun k1 => csum (fun k2 =>
       Cmult (X k1 k2) (Cmult (cis (2 * PI * IZR j1 * INR k1 / INR n)) (cis (2 * PI * IZR j2 * INR k2 / INR n)))) n) n).

(* np.fft.fftfreq(n, d)[k] * n * d : the signed frequency index *)
Definition fftfreq_idx (n k : nat) : Z :=
  if (2 * k <? n + 1)%nat then Z.of_nat k else (Z.of_nat k - Z.of_nat n)%Z.
(* note: for even n numpy puts k = n/2 at -n/2; 2k < n+1 <-> k <= n/2 puts it at +n/2; for an
   integer number of grid steps both give the same phase (see rotate_phase_index) *)

(* rotate_matrix: freqshift = exp(-2j*pi*(freq_x + freq_y)*phi), freq = fftfreq(n, 2*pi/n),
   i.e. freq = idx / (2 pi);  phi = m * (2 pi / n) for a rotation by m grid steps *)
Definition rotate_spectrum (X : nat -> nat -> C) (n : nat) (phi : R) : nat -> nat -> C :=
  fun k1 k2 => Cmult (cis (- 2 * PI * ((IZR (fftfreq_idx n k1) / (2 * PI)) + (IZR (fftfreq_idx n k2) / (2 * PI))) * phi))
                     (X k1 k2).
