(* Model/Dft.v — the (inverse) discrete Fourier transform as a finite sum over
   Coquelicot's complex numbers: the mathematical definition that numpy.fft /
   scipy.fftpack implement (those libraries are oracles; the harness compares them with
   this definition on small sizes).  Used by C11 (spectral time shift) and C10. *)
From Coq Require Import Reals List ZArith.
From Coquelicot Require Import Complex.
Import ListNotations.
Local Open Scope R_scope.

Definition cis (t : R) : C := (cos t, sin t).

Definition csum (f : nat -> C) (n : nat) : C :=
  fold_right (fun k acc => Cplus (f k) acc) (RtoC 0) (seq 0 n).

(* x[j] = (1/n) sum_k X[k] exp(+2 pi i j k / n), for every integer j (periodic extension) *)
Definition idft (X : nat -> C) (n : nat) (j : Z) : C :=
  Cmult (RtoC (/ INR n)) (csum (fun k => Cmult (X k) (cis (2 * PI * IZR j * INR k / INR n))) n).

(* timeshift_spectra: X[k] exp(-2j pi f_k delay) with f_k = k / (n dt) *)
Definition shift_spectrum (X : nat -> C) (n : nat) (dt delay : R) : nat -> C :=
  fun k => Cmult (cis (- 2 * PI * (INR k / (INR n * dt)) * delay)) (X k).
