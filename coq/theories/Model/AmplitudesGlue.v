(* Model/AmplitudesGlue.v — the glue around the model coefficients P_ij = Q_i Q'_j S (C08), on top of
   Model/Amplitudes.v (factory on four arrays, the two classes on a LIST of grid indices) and
   Model/Pipeline.v (ray_weights_for_views as one loop over the distinct paths).

   Mirrors (src/arim/model.py, src/arim/models/block_in_immersion.py)
     the index forms accepted by ModelAmplitudes.__getitem__ (model.py:1490-1513, 1571-1583):
         int / slice / Ellipsis / index list / boolean mask / None (np.newaxis) and tuples of
         them, as numpy prepares them for a 1-d array (the guard
         `np.empty(self.numpoints)[grid_slice].ndim > 1` of the function class) and for the four
         stored 2-d arrays of shape (numpoints, numelements);
     Python's slice.indices (PySlice_AdjustIndices), boolean masks (np.nonzero);
     _ModelAmplitudesWithScatFunction.__getitem__ with the guard, the two np.take, the
         broadcasting of tx / rx of lengths (n, 1) or (1, n), the index dtype accepted by np.take;
     _ModelAmplitudesWithScatMatrix.__getitem__ = the gufunc `(n),(n),(s,s),(e),(e),(e),(e),()->(n)`
         over the loop dimensions of the indexed arrays, the index dtypes accepted by `int_[:]`;
     model_amplitudes_factory (model.py:1310-1401): scattering[view.scat_key()], the three dict
         lookups of RayWeights by path, the shape assertion, the great transposition, the dispatch
         on `.shape`, .shape / numpoints / numelements / numtimetraces of the object;
     RayWeights (model.py:1263-1307) as the namedtuple of five dictionaries;
     ray_weights_for_views (block_in_immersion.py:257-345) with save_debug and with paths whose
         rays were not traced.

   Conventions
     * a raise is `GRaise kind`; `EUnmodelled` is NOT an exception: the model declines to describe
       the outcome (numba reading out of bounds, selectors that reach the second axis of the
       matrix class, (None, k) selectors).  No theorem concludes from it.
     * a selector is the list of the items of the index tuple; an index that is not a tuple is
       the one-item list ( a[x] = a[(x,)] ), `()` is the empty list.
     * dictionaries keyed by Path objects (hashed by identity) are association lists keyed by
       the path's number, in insertion order; a lookup takes the first match.
   Not modelled: index arrays of two or more dimensions, boolean scalars and floats as grid
   selectors, the `.dtype` attribute, paths with zero elements (a list of rows cannot carry the
   number of columns of a (0, n) array). *)
From Coq Require Import List ZArith Bool Arith.
From Arim Require Import Base.Num Model.Interface Model.Weights Model.Beamspread Model.ScatMatrix
                         Model.Chunk Model.Amplitudes Model.Pipeline.
Import ListNotations.

(* ---- outcomes ----------------------------------------------------------------------------- *)
Inductive gerr := EIndex | EValue | EKey | EAssertion | EType | EUnmodelled.

Inductive gres (A : Type) : Type := GOk (a : A) | GRaise (e : gerr).
Arguments GOk {A}. Arguments GRaise {A}.

Definition rbind {A B} (x : gres A) (f : A -> gres B) : gres B :=
  match x with GOk a => f a | GRaise e => GRaise e end.

Definition of_option {A} (e : gerr) (x : option A) : gres A :=
  match x with Some a => GOk a | None => GRaise e end.

(* ---- Python slices and boolean masks ---------------------------------------------------------- *)
(* PySlice_AdjustIndices, one bound `v` of a slice with step `step` on an axis of length n *)
Definition slice_adjust (n step v : Z) : Z :=
  if (v <? 0)%Z then
    (if (v + n <? 0)%Z then (if (step <? 0)%Z then -1 else 0) else v + n)%Z
  else if (n <=? v)%Z then (if (step <? 0)%Z then n - 1 else n)%Z
  else v.

(* ... its return value: the number of selected indices *)
Definition slice_len (start stop step : Z) : Z :=
  if (step <? 0)%Z
  then (if (stop <? start)%Z then (start - stop - 1) / (- step) + 1 else 0)%Z
  else (if (start <? stop)%Z then (stop - start - 1) / step + 1 else 0)%Z.

(* list(range(n))[start:stop:step], i.e. slice.indices(n) enumerated: the indices, all in 0..n-1, in the order of the
   slice.  A missing bound is the end of the axis in the direction of the step; step 0:
   ValueError("slice step cannot be zero") *)
Definition slice_indices (n : nat) (start stop step : option Z) : gres (list Z) :=
  let st := match step with None => 1%Z | Some s => s end in
  if (st =? 0)%Z then GRaise EValue else
  let nz := Z.of_nat n in
  let a := match start with
           | None => if (st <? 0)%Z then (nz - 1)%Z else 0%Z
           | Some v => slice_adjust nz st v end in
  let b := match stop with
           | None => if (st <? 0)%Z then (-1)%Z else nz
           | Some v => slice_adjust nz st v end in
  GOk (map (fun k => (a + Z.of_nat k * st)%Z) (seq 0 (Z.to_nat (slice_len a b st)))).

(* np.nonzero of a 1-d boolean array *)
Fixpoint mask_positions (from : Z) (m : list bool) : list Z :=
  match m with
  | [] => []
  | b :: m' => if b then from :: mask_positions (from + 1) m' else mask_positions (from + 1) m'
  end.

(* a boolean index on an axis of length n: IndexError unless the lengths agree — or the mask is
   empty: numpy accepts a boolean index of size 0 on an axis of ANY length and selects nothing
   (np.arange(4)[np.array([], dtype=bool)] = [], np.empty((4, 3))[np.array([], dtype=bool)].shape
   = (0, 3); the length check of numpy's index preparation is skipped for a size-0 boolean array) *)
Definition mask_indices (n : nat) (m : list bool) : gres (list Z) :=
  match m with
  | [] => GOk []
  | _ :: _ => if length m =? n then GOk (mask_positions 0 m) else GRaise EIndex
  end.

(* ---- selectors ------------------------------------------------------------------------------- *)
Inductive gitem :=
| GInt (z : Z)                               (* a Python / numpy integer *)
| GSlice (start stop step : option Z)        (* slice(start, stop, step) *)
| GList (l : list Z)                         (* a list / 1-d integer array *)
| GMask (m : list bool)                      (* a list / 1-d array of booleans *)
| GDots                                      (* Ellipsis *)
| GNone.                                     (* None = np.newaxis *)

Definition selector := list gitem.

Definition consumes (it : gitem) : bool :=
  match it with GDots | GNone => false | _ => true end.
Definition is_dots (it : gitem) : bool := match it with GDots => true | _ => false end.
Definition is_none (it : gitem) : bool := match it with GNone => true | _ => false end.

Definition consumers (sel : selector) : list gitem := filter consumes sel.
Definition count_dots (sel : selector) : nat := length (filter is_dots sel).
Definition count_none (sel : selector) : nat := length (filter is_none sel).
Definition has_none (sel : selector) : bool := existsb is_none sel.

(* an Ellipsis stands before the first item that consumes an axis: that item then addresses
   the LAST axis of the indexed array *)
Fixpoint dots_before (sel : selector) : bool :=
  match sel with
  | [] => false
  | GDots :: _ => true
  | GNone :: rest => dots_before rest
  | _ :: _ => false
  end.

Definition zvalid (n : nat) (z : Z) : bool :=
  match norm_index n z with Some _ => true | None => false end.

(* the indices designated on an axis of length n by an item that keeps the axis *)
Definition expand_multi (n : nat) (it : gitem) : gres (list Z) :=
  match it with
  | GSlice a b s => slice_indices n a b s
  | GList l => if forallb (zvalid n) l then GOk l else GRaise EIndex
  | GMask m => mask_indices n m
  | _ => GRaise EUnmodelled                  (* not reached: called on the other three forms *)
  end.

(* np.empty(n)[sel].ndim, or what numpy raises while evaluating it (index preparation: more
   than one Ellipsis, more consuming items than axes; then the item itself against n) *)
Definition guard_ndim (n : nat) (sel : selector) : gres nat :=
  if 1 <? count_dots sel then GRaise EIndex else
  match consumers sel with
  | [] => GOk (1 + count_none sel)
  | [GInt z] => if zvalid n z then GOk (count_none sel) else GRaise EIndex
  | [it] => rbind (expand_multi n it) (fun _ => GOk (1 + count_none sel))
  | _ => GRaise EIndex
  end.

(* the grid points a selector designates, and whether the first axis is dropped (spec level:
   what the docstring of ModelAmplitudes promises for an index of the first dimension) *)
Definition expand_sel (ng : nat) (sel : selector) : gres (list Z * bool) :=
  if 1 <? count_dots sel then GRaise EIndex else
  match consumers sel with
  | [] => GOk (all_points ng, false)
  | [GInt z] => if zvalid ng z then GOk ([z], true) else GRaise EIndex
  | [it] => rbind (expand_multi ng it) (fun idx => GOk (idx, false))
  | _ => GRaise EIndex
  end.

(* the selectors that address the first dimension only *)
Definition grid_selector (sel : selector) : bool :=
  negb (has_none sel) && (length (consumers sel) <=? 1) &&
  negb (dots_before sel && (1 <=? length (consumers sel))).

(* ---- arrays of one or two dimensions ---------------------------------------------------------- *)
Inductive arr (V : Type) : Type := A1 (row : list V) | A2 (rows : list (list V)).
Arguments A1 {V}. Arguments A2 {V}.

Definition arr_map {V W} (f : V -> W) (a : arr V) : arr W :=
  match a with A1 r => A1 (map f r) | A2 rs => A2 (map (map f) rs) end.

(* np.take(a, idx, axis=-1) *)
Definition arr_take {V} (a : arr V) (idx : list Z) : option (arr V) :=
  match a with
  | A1 r => omap A1 (take r idx)
  | A2 rs => omap A2 (mapM (fun r => take r idx) rs)
  end.

(* elementwise operation on the last axis with numpy's broadcasting of a length-1 axis (the
   caller has checked that the lengths are broadcastable) *)
Definition bzip {A B C} (f : A -> B -> C) (r1 : list A) (r2 : list B) : list C :=
  if length r1 =? length r2 then map2 f r1 r2
  else match r1, r2 with
       | [x], _ => map (f x) r2
       | _, [y] => map (fun x => f x y) r1
       | _, _ => []
       end.

Definition arr_zip {A B C} (f : A -> B -> C) (a : arr A) (b : arr B) : arr C :=
  match a, b with
  | A1 r1, A1 r2 => A1 (bzip f r1 r2)
  | A2 m1, A2 m2 => A2 (map2 (bzip f) m1 m2)
  | _, _ => A1 []                            (* not reached: both come from the same selector *)
  end.

Definition broadcastable (n m : nat) : bool := (n =? m) || (n =? 1) || (m =? 1).

(* the result of a grid selector from the rows of the selected grid points *)
Definition shape_result {V} (drop : bool) (P : list (list V)) : arr V :=
  if drop then A1 (hd [] P) else A2 P.

(* A[sel] for a stored array A of shape (ng, ne) given as its ng rows *)
Definition index2 {V} (ng ne : nat) (A : list (list V)) (sel : selector) : gres (arr V) :=
  if 1 <? count_dots sel then GRaise EIndex else
  match consumers sel with
  | [] => GOk (A2 A)
  | [it] =>
      if dots_before sel then
        (* the item addresses the element axis *)
        match it with
        | GInt z => if zvalid ne z
                    then of_option EIndex (omap A1 (mapM (fun row => lookup row z) A))
                    else GRaise EIndex
        | _ => rbind (expand_multi ne it) (fun idx =>
               of_option EIndex (omap A2 (mapM (fun row => take row idx) A)))
        end
      else
        match it with
        | GInt z => of_option EIndex (omap A1 (lookup A z))
        | _ => rbind (expand_multi ng it) (fun idx => of_option EIndex (omap A2 (take A idx)))
        end
  | [_; _] => GRaise EUnmodelled             (* both axes indexed: see the header *)
  | _ => GRaise EIndex                       (* too many indices for a 2-dimensional array *)
  end.

(* ---- the dtype of the tx / rx index arrays ---------------------------------------------------- *)
Inductive idx_dtype :=
| DtInt        (* int8 .. int64 *)
| DtUInt       (* uint8 .. uint32 *)
| DtUInt64
| DtBool       (* False = 0, True = 1 *)
| DtFloat.

(* np.take casts the indices to intp under the rule 'same_kind' *)
Definition idx_ok_fn (d : idx_dtype) : bool := match d with DtFloat => false | _ => true end.
(* the gufunc is compiled for int_[:]: ufunc type resolution, casting 'safe' *)
Definition idx_ok_mat (d : idx_dtype) : bool :=
  match d with DtFloat | DtUInt64 => false | _ => true end.

Record idx_array := mkIdx { ix_dtype : idx_dtype; ix_vals : list Z }.

Section Classes.
  Context {T : Type} (N : Num T).
  Local Notation K := (T * T)%type.
  Let C := NumC N.

  (* np.take(A[grid_slice], idx, axis=-1) *)
  Definition gather {V} (ng ne : nat) (A : list (list V)) (sel : selector) (dt : idx_dtype)
             (idx : list Z) : gres (arr V) :=
    rbind (index2 ng ne A sel) (fun a =>
    if idx_ok_fn dt then of_option EIndex (arr_take a idx) else GRaise EType).

  (* _ModelAmplitudesWithScatFunction.__getitem__(grid_slice) *)
  Definition getitem_fn_sel (S : T -> T -> K) (o : amplitudes (T := T)) (dtx drx : idx_dtype)
             (sel : selector) : gres (arr K) :=
    let ng := ma_numpoints o in
    let ne := ma_numelements o in
    rbind (guard_ndim ng sel) (fun d =>
    if 1 <? d then GRaise EIndex             (* "Only the first dimension of the object is indexable." *)
    else if has_none sel then GRaise EUnmodelled
    else
    rbind (gather ng ne (ma_ttx o) sel dtx (ma_tx o)) (fun t1 =>
    rbind (gather ng ne (ma_trx o) sel drx (ma_rx o)) (fun t2 =>
    if negb (broadcastable (length (ma_tx o)) (length (ma_rx o))) then GRaise EValue else
    let sc := arr_zip S (arr_map (fun x => nsub N x (ma_angle o)) t1)
                        (arr_map (fun x => nsub N x (ma_angle o)) t2) in
    rbind (gather ng ne (ma_qtx o) sel dtx (ma_tx o)) (fun q1 =>
    rbind (gather ng ne (ma_qrx o) sel drx (ma_rx o)) (fun q2 =>
    GOk (arr_zip (nmul C) (arr_zip (nmul C) sc q1) q2)))))).

  (* the gufunc over the loop dimensions of the four indexed arrays; None: an element index
     outside the core dimension (numba reads out of bounds) *)
  Definition gufunc (Sm : T -> T -> K) (tx rx : list Z) (a : T) (qt qr : arr K) (tht thr : arr T)
    : option (arr K) :=
    match qt, qr, tht, thr with
    | A1 q1, A1 q2, A1 t1, A1 t2 => omap A1 (kernel_point N Sm tx rx a q1 q2 t1 t2)
    | A2 q1, A2 q2, A2 t1, A2 t2 =>
        omap A2 (mapM (fun x => kernel_point N Sm tx rx a (fst (fst x)) (snd (fst x))
                                             (fst (snd x)) (snd (snd x)))
                      (zip4 q1 q2 t1 t2))
    | _, _, _, _ => None
    end.

  (* _ModelAmplitudesWithScatMatrix.__getitem__(grid_slice): the four indexings are evaluated
     first (arguments of the call), then the gufunc resolves the types, checks the core
     dimensions (n),(n) and (s,s), and loops *)
  Definition getitem_mat_sel (P : T) (M : list (list K)) (o : amplitudes (T := T)) (dtx drx : idx_dtype)
             (sel : selector) : gres (arr K) :=
    let ng := ma_numpoints o in
    let ne := ma_numelements o in
    if has_none sel then GRaise EUnmodelled else
    rbind (index2 ng ne (ma_qtx o) sel) (fun qt =>
    rbind (index2 ng ne (ma_qrx o) sel) (fun qr =>
    rbind (index2 ng ne (ma_ttx o) sel) (fun tht =>
    rbind (index2 ng ne (ma_trx o) sel) (fun thr =>
    if negb (idx_ok_mat dtx && idx_ok_mat drx) then GRaise EType
    else if negb (length (ma_tx o) =? length (ma_rx o)) then GRaise EValue
    else if negb (has_shape (length M) (length M) M) then GRaise EValue
    else if length M =? 0 then GRaise EUnmodelled      (* dtheta = 2 pi / 0 *)
    else of_option EUnmodelled
           (gufunc (interp_c N P M) (ma_tx o) (ma_rx o) (ma_angle o) qt qr tht thr))))).
End Classes.

(* ---- RayWeights and model_amplitudes_factory -------------------------------------------------- *)
Definition wmode_eqb (a b : wmode) : bool :=
  match a, b with ModeL, ModeL | ModeT, ModeT => true | _, _ => false end.
Definition skey_eqb (a b : skey) : bool := wmode_eqb (fst a) (fst b) && wmode_eqb (snd a) (snd b).

(* d[k] of a dictionary keyed by paths; None = KeyError *)
Definition dget {V} (d : list (nat * V)) (k : nat) : option V :=
  omap snd (find (fun e => fst e =? k) d).

Section Factory.
  Context {T : Type} (N : Num T).
  Local Notation K := (T * T)%type.

  (* weights_dict of one ray: (directivity, transrefl, beamspread, attenuation) *)
  Definition dbg := (T * K * T * T)%type.

  Record ray_weights_nt := mkRW {
    rw_txd : list (nat * list (list K));                 (* tx_ray_weights_dict *)
    rw_rxd : list (nat * list (list K));                 (* rx_ray_weights_dict *)
    rw_txdbg : option (list (nat * list (list dbg)));    (* tx_ray_weights_debug_dict (None: save_debug=False) *)
    rw_rxdbg : option (list (nat * list (list dbg)));    (* rx_ray_weights_debug_dict *)
    rw_angd : list (nat * list (list T))                 (* scattering_angles_dict *)
  }.

  (* scattering[key]; None = KeyError *)
  Definition sget (scat : list (skey * scattering (T := T))) (k : skey) : option (scattering (T := T)) :=
    omap snd (find (fun e => skey_eqb (fst e) k) scat).

  Definition shape_eqb (s1 s2 : nat * nat) : bool := (fst s1 =? fst s2) && (snd s1 =? snd s2).

  (* a list of rows that is a numpy array of its shape2 *)
  Definition is_array {V} (A : list (list V)) : bool := has_shape (fst (shape2 A)) (snd (shape2 A)) A.

  (* the object: which class (scattering given as a function or as a matrix), the transposed
     arrays, the dtypes of the index arrays it keeps *)
  Record ma_object := mkObj {
    mo_scat : scattering (T := T);
    mo_amp : amplitudes (T := T);
    mo_txdt : idx_dtype;
    mo_rxdt : idx_dtype
  }.

  Definition model_amplitudes_factory (tx rx : idx_array) (v : view) (rw : ray_weights_nt)
             (scat : list (skey * scattering (T := T))) (scat_angle : T) : gres ma_object :=
    match sget scat (v_scat v) with
    | None => GRaise EKey
    | Some sobj =>
    match dget (rw_txd rw) (v_tx v) with
    | None => GRaise EKey
    | Some Qtx =>
    match dget (rw_rxd rw) (v_rx v) with
    | None => GRaise EKey
    | Some Qrx =>
    match dget (rw_angd rw) (v_tx v) with
    | None => GRaise EKey
    | Some Ttx =>
    match dget (rw_angd rw) (v_rx v) with
    | None => GRaise EKey
    | Some Trx =>
        if shape_eqb (shape2 Qtx) (shape2 Qrx) && shape_eqb (shape2 Qrx) (shape2 Ttx)
           && shape_eqb (shape2 Ttx) (shape2 Trx)
        then match factory (ix_vals tx) (ix_vals rx) (fst (shape2 Qtx)) (snd (shape2 Qtx))
                           Qtx Qrx Ttx Trx scat_angle with
             | Some o => GOk (mkObj sobj o (ix_dtype tx) (ix_dtype rx))
             | None => GRaise EUnmodelled    (* ragged lists of rows: not arrays *)
             end
        else GRaise EAssertion
    end end end end end.

  (* ModelAmplitudes.shape = (numpoints, numtimetraces); numtimetraces = tx.shape[0] *)
  Definition mo_shape (ob : ma_object) : nat * nat :=
    (ma_numpoints (mo_amp ob), ma_numtimetraces (mo_amp ob)).

  Definition mo_getitem (P : T) (ob : ma_object) (sel : selector) : gres (arr K) :=
    match mo_scat ob with
    | ScatFn Sf => getitem_fn_sel N Sf (mo_amp ob) (mo_txdt ob) (mo_rxdt ob) sel
    | ScatMat M => getitem_mat_sel N P M (mo_amp ob) (mo_txdt ob) (mo_rxdt ob) sel
    end.

  (* ---- ray_weights_for_views with save_debug, on paths that may not have been traced ----------- *)
  Record gpath := mkGPath {
    gp_path : path (T := T);
    gp_traced : bool                          (* path.rays is not None *)
  }.

  (* (weights, weights_dict) of tx_ray_weights / rx_ray_weights, ray by ray *)
  Definition weights_and_debug (f : ray (T := T) -> option (K * dbg))
             (rays : list (list (ray (T := T)))) : option (list (list (K * dbg))) :=
    mapM (mapM f) rays.

  Definition path_tx_full (use_dir use_tr use_bs use_att : bool) (width : option T) (frequency : T)
             (p : path (T := T)) : option (list (list (K * dbg))) :=
    if width_missing use_dir width then None
    else weights_and_debug (tx_ray_weights N use_dir use_tr use_bs use_att width frequency (p_couplant p))
                           (p_rays p).

  Definition path_rx_full (use_dir use_tr use_bs use_att : bool) (width : option T) (frequency : T)
             (p : path (T := T)) : option (list (list (K * dbg))) :=
    if width_missing use_dir width then None
    else weights_and_debug (rx_ray_weights N use_dir use_tr use_bs use_att width frequency
                                           (p_couplant p) (p_block p))
                           (p_rays p).

  (* what one iteration of `for path in all_paths` adds to the dictionaries *)
  Record path_result := mkPR {
    pr_key : nat;
    pr_angles : list (list T);
    pr_tx : option (list (list (K * dbg)));
    pr_rx : option (list (list (K * dbg)))
  }.

  Definition path_iteration (paths : list gpath) (all_tx all_rx : list nat) (frequency : T)
             (width : option T) (use_directivity use_beamspread use_transrefl use_attenuation : bool)
             (k : nat) : option path_result :=
    bind (nth_error paths k) (fun gp =>
    if negb (gp_traced gp) then None         (* RayGeometry: ValueError("Rays must be computed first.") *)
    else
    let p := gp_path gp in
    bind (if mem k all_tx
          then omap Some (path_tx_full use_directivity use_transrefl use_beamspread use_attenuation
                                       width frequency p)
          else Some None) (fun wtx =>
    bind (if mem k all_rx
          then omap Some (path_rx_full use_directivity use_transrefl use_beamspread use_attenuation
                                       width frequency p)
          else Some None) (fun wrx =>
    Some (mkPR k (p_angles p) wtx wrx)))).

  Definition dict_of {V} (sel : path_result -> option V) (prs : list path_result) : list (nat * V) :=
    flat_map (fun pr => match sel pr with Some x => [(pr_key pr, x)] | None => [] end) prs.

  Definition assemble_rw (save_debug : bool) (prs : list path_result) : ray_weights_nt :=
    mkRW (dict_of (fun pr => omap (map (map fst)) (pr_tx pr)) prs)
         (dict_of (fun pr => omap (map (map fst)) (pr_rx pr)) prs)
         (if save_debug then Some (dict_of (fun pr => omap (map (map snd)) (pr_tx pr)) prs) else None)
         (if save_debug then Some (dict_of (fun pr => omap (map (map snd)) (pr_rx pr)) prs) else None)
         (map (fun pr => (pr_key pr, pr_angles pr)) prs).

  Definition ray_weights_for_views_full (paths : list gpath) (views : list view) (frequency : T)
             (probe_element_width : option T)
             (use_directivity use_beamspread use_transrefl use_attenuation save_debug : bool)
    : option ray_weights_nt :=
    let all_tx := map v_tx views in
    let all_rx := map v_rx views in
    omap (assemble_rw save_debug)
         (mapM (path_iteration paths all_tx all_rx frequency probe_element_width
                               use_directivity use_beamspread use_transrefl use_attenuation)
               (nodup Nat.eq_dec (all_tx ++ all_rx))).

  (* the RayWeights of the reduced model of Model/Pipeline.v as a namedtuple without debug *)
  Definition nt_of_entries (rw : list (rw_entry (T := T))) : ray_weights_nt :=
    mkRW (flat_map (fun e => match e_tx e with Some A => [(e_path e, A)] | None => [] end) rw)
         (flat_map (fun e => match e_rx e with Some A => [(e_path e, A)] | None => [] end) rw)
         None None
         (map (fun e => (e_path e, e_angles e)) rw).
End Factory.

Arguments mkRW {T}. Arguments rw_txd {T}. Arguments rw_rxd {T}. Arguments rw_txdbg {T}.
Arguments rw_rxdbg {T}. Arguments rw_angd {T}.
Arguments mkObj {T}. Arguments mo_scat {T}. Arguments mo_amp {T}. Arguments mo_txdt {T}. Arguments mo_rxdt {T}.
Arguments mkGPath {T}. Arguments gp_path {T}. Arguments gp_traced {T}.
Arguments mkPR {T}. Arguments pr_key {T}. Arguments pr_angles {T}. Arguments pr_tx {T}. Arguments pr_rx {T}.
