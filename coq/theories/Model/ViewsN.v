(* Model/ViewsN.v — the glue around Model/Views.v (C18): names as Python strings,
   the views dictionary, the examination objects accepted by the two make_views,
   and make_paths for any number of wall reflections.  Definitions only; lemmas are
   in Proofs/ViewsNProofs.v.

   Mirrors
     arim.ut.reciprocal_viewname            (str.split("-"), [::-1], ValueError of the
                                             tuple unpacking)
     arim.ut.default_viewname_order          (the key tuple on the real strings, compared
                                             the way Python compares tuples / str)
     arim.core.Mode.key, helpers.parse_enum_constant(key[i], Mode), mode_dict[key[i]]
     arim.models.helpers.make_views_from_paths   (view_name = f"{tx}-{rx}", the
                                             OrderedDict `views[view_name] = View(...)`)
     arim.models.block_in_immersion.make_views / make_interfaces  (attribute reads of the
                                             examination object, ValueError, *frontwall)
     arim.models.block_in_contact.make_views (the four try/except AttributeError blocks)
     arim.core.ExaminationObject / BlockInImmersion / BlockInContact constructors
   and GENERALISES make_paths beyond the `> 2: raise NotImplementedError` of the code
   (make_paths_gen: same wiring rule for every max_number_of_reflection; it is proved
   equal to the code's make_paths on 0..2, the only values the code accepts). *)
From Coq Require Import Arith List Bool ZArith Lia.
From Coq Require Strings.Ascii.
From Arim Require Import Base.ListX Model.Views.
Import ListNotations.

(* ================================================================== *)
(* 1. Python strings                                                   *)
(* ================================================================== *)
(* a str is the list of its characters (code points < 256 are enough here) *)
Definition pychar := Ascii.ascii.
Definition pystr := list pychar.

Definition ch (n : nat) : pychar := Ascii.ascii_of_nat n.
Definition char_L : pychar := ch 76.        (* 'L' *)
Definition char_T : pychar := ch 84.        (* 'T' *)
Definition char_dash : pychar := ch 45.     (* '-' *)

Definition pystr_eqb : pystr -> pystr -> bool := list_eqb Ascii.eqb.

(* Mode.key() *)
Definition mode_char (m : Mode) : pychar := match m with L => char_L | T => char_T end.

(* the name of a path: one letter per leg in the block *)
Definition word_str (w : word) : pystr := map mode_char w.

(* view_name = f"{tx_name}-{rx_name}" *)
Definition join_dash (tx rx : pystr) : pystr := tx ++ char_dash :: rx.
Definition view_str (v : viewname) : pystr := join_dash (word_str (fst v)) (word_str (snd v)).

(* helpers.parse_enum_constant(c, Mode) for a one-character string c (Mode["L"],
   Mode["T"]; anything else is a ValueError); block_in_contact's mode_dict[c] accepts
   the same two characters *)
Definition parse_mode (c : pychar) : res Mode :=
  if Ascii.eqb c char_L then inl L else if Ascii.eqb c char_T then inl T else inr ErrValue.
Definition parse_word (s : pystr) : res word := mapM parse_mode s.

(* str.split("-"): never empty; "" -> [""]; "a-" -> ["a"; ""] *)
Fixpoint split_dash (s : pystr) : list pystr :=
  match s with
  | [] => [[]]
  | c :: s' =>
      if Ascii.eqb c char_dash then [] :: split_dash s'
      else match split_dash s' with
           | [] => [[c]]
           | p :: ps => (c :: p) :: ps
           end
  end.

(* reciprocal_viewname on the real string:
     tx_path, rx_path = viewname.split("-")          (ValueError unless two pieces)
     return rx_path[::-1] + "-" + tx_path[::-1] *)
Definition reciprocal_viewname_str (s : pystr) : res pystr :=
  match split_dash s with
  | [tx; rx] => inl (join_dash (rev rx) (rev tx))
  | _ => inr ErrValue
  end.

Definition count_dash (s : pystr) : nat := length (filter (fun c => Ascii.eqb c char_dash) s).

(* Python's comparison of str: by code point, lexicographic, a proper prefix is smaller *)
Definition char_cmp (a b : pychar) : comparison :=
  Nat.compare (Ascii.nat_of_ascii a) (Ascii.nat_of_ascii b).
Definition str_cmp : pystr -> pystr -> comparison := list_cmp char_cmp.

(* default_viewname_order on a tuple of two str *)
Definition skeyT := (nat * nat * nat * nat * pystr * pystr)%type.
Definition default_viewname_order_str (v : pystr * pystr) : skeyT :=
  let '(tx, rx) := v in
  (length tx + length rx, Nat.max (length tx) (length rx), length rx, length tx, tx, rx).
Definition skey_cmp : skeyT -> skeyT -> comparison :=
  pair_cmp (pair_cmp (pair_cmp (pair_cmp (pair_cmp Nat.compare Nat.compare) Nat.compare)
                                 Nat.compare) str_cmp) str_cmp.

(* View.scat_key() as the str it returns *)
Definition scat_key_str (v : View) : option pystr :=
  match scat_key v with Some (a, b) => Some [mode_char a; mode_char b] | None => None end.

(* ================================================================== *)
(* 2. the views dictionary                                             *)
(* ================================================================== *)
(* d[k] = v on an insertion-ordered dict: an existing key keeps its position and
   takes the new value; a new key goes to the end *)
Fixpoint od_set {V} (k : pystr) (v : V) (d : list (pystr * V)) : list (pystr * V) :=
  match d with
  | [] => [(k, v)]
  | (k', v') :: d' => if pystr_eqb k k' then (k, v) :: d' else (k', v') :: od_set k v d'
  end.

Definition vdict := list (pystr * View).

(* the loop of make_views_from_paths with its dictionary:
     for (tx_name, rx_name) in viewnames:
         view_name = f"{tx_name}-{rx_name}"
         tx_path = paths_dict[tx_name]; rx_path = paths_dict[rx_name[::-1]]
         views[view_name] = View(tx_path, rx_path, view_name) *)
Fixpoint views_loop (paths : pdict) (vns : list viewname) (views : vdict) : res vdict :=
  match vns with
  | [] => inl views
  | (tx, rx) :: t =>
      match plookup tx paths with
      | None => inr ErrKey
      | Some ptx =>
          match plookup (rev rx) paths with
          | None => inr ErrKey
          | Some prx => views_loop paths t (od_set (view_str (tx, rx)) (mkView ptx prx (tx, rx)) views)
          end
      end
  end.

Definition make_views_from_paths_dict (paths : pdict) (unique_only : bool) : res vdict :=
  views_loop paths (make_viewnames (map fst paths) unique_only) [].

(* what the dictionary is expected to be: one entry per view name, in order *)
Definition keyed (vs : list (viewname * View)) : vdict :=
  map (fun e => (view_str (fst e), snd e)) vs.

(* ================================================================== *)
(* 3. examination objects and the public make_views                    *)
(* ================================================================== *)
(* an attribute of a Python object: absent (reading it raises AttributeError) or
   present with a value *)
Inductive attr (A : Type) := NoAttr | Attr (a : A).
Arguments NoAttr {A}. Arguments Attr {A}.

(* materials are opaque: a material attribute records only whether its value is an
   object (true) or None (false); the same for the walls (OrientedPoints or None) *)
Record ExamObj := mkExam {
  eo_block_material : attr bool;
  eo_material : attr bool;
  eo_couplant_material : attr bool;
  eo_frontwall : attr bool;
  eo_backwall : attr bool;
  eo_under_material : attr bool }.

(* core.ExaminationObject(material) *)
Definition examination_object : ExamObj :=
  mkExam NoAttr (Attr true) NoAttr NoAttr NoAttr NoAttr.
(* core.BlockInImmersion(block_material, couplant_material, frontwall, backwall=None) *)
Definition block_in_immersion (couplant frontwall backwall : bool) : ExamObj :=
  mkExam (Attr true) (Attr true) (Attr couplant) (Attr frontwall) (Attr backwall) NoAttr.
(* core.BlockInContact(block_material, frontwall=None, backwall=None, under_material=None);
   block_material is a property aliasing material *)
Definition block_in_contact (frontwall backwall under : bool) : ExamObj :=
  mkExam (Attr true) (Attr true) NoAttr (Attr frontwall) (Attr backwall) (Attr under).

Inductive ErrX := XBase (e : Err) | XAttribute | XType.
Definition resX (A : Type) := (A + ErrX)%type.
Definition liftX {A} (x : res A) : resX A :=
  match x with inl a => inl a | inr e => inr (XBase e) end.

(* block_in_immersion.make_interfaces with the couplant as given (an object or None):
   reflection_against=couplant_material *)
Definition make_interfaces_imm_c (couplant has_backwall : bool) : res idict :=
  let ag := if couplant then Some Couplant else None in
  bind (new_iface PProbe None None None None (Some true)) (fun probe =>
  bind (new_iface PFront (Some FluidSolid) (Some Transmission) None (Some false) (Some true)) (fun ft =>
  bind (if has_backwall
        then bind (new_iface PBack (Some SolidFluid) (Some Reflection) ag
                             (Some false) (Some false)) (fun b => inl [(KBackRefl, b)])
        else inl []) (fun bw =>
  bind (new_iface PGrid None None None (Some true) None) (fun grid =>
  bind (new_iface PFront (Some SolidFluid) (Some Reflection) ag (Some true) (Some true))
       (fun fr =>
  inl ([(KProbe, probe); (KFrontTrans, ft)] ++ bw ++ [(KGrid, grid); (KFrontRefl, fr)])))))).

(* block_in_immersion.make_views(examination_object, ..., max_number_of_reflection,
   tfm_unique_only): the try block reads couplant_material, block_material, frontwall,
   backwall; any AttributeError becomes a ValueError; `*frontwall` of None is a TypeError
   (raised after the probe interface is built, before anything else) *)
Definition make_views_imm_obj (o : ExamObj) (r : Z) (unique_only : bool)
  : resX (list (viewname * View)) :=
  match eo_couplant_material o, eo_block_material o, eo_frontwall o, eo_backwall o with
  | Attr couplant, Attr _, Attr fw, Attr bw =>
      if negb fw then inr XType else
      liftX (bind (make_interfaces_imm_c couplant bw) (fun d =>
             bind (make_paths_imm d r) (fun paths =>
             make_views_from_paths paths unique_only)))
  | _, _, _, _ => inr (XBase ErrValue)
  end.

(* block_in_contact.make_views: block_material, else ("plan B") material, else the
   AttributeError escapes; frontwall / backwall / under_material default to None when
   the attribute is missing *)
Definition attr_or_none (a : attr bool) : bool := match a with Attr b => b | NoAttr => false end.

Definition make_views_contact_obj (o : ExamObj) (r : Z) (unique_only : bool)
  : resX (list (viewname * View)) :=
  match (match eo_block_material o with
         | Attr m => Some m
         | NoAttr => match eo_material o with Attr m => Some m | NoAttr => None end
         end) with
  | None => inr XAttribute
  | Some _ =>
      let frontwall := attr_or_none (eo_frontwall o) in
      let backwall := attr_or_none (eo_backwall o) in
      let under := attr_or_none (eo_under_material o) in
      liftX (bind (make_interfaces_contact frontwall backwall under) (fun d =>
             bind (make_paths_contact d r) (fun paths =>
             make_views_from_paths paths unique_only)))
  end.

(* ================================================================== *)
(* 4. make_paths for any number of reflections                         *)
(* ================================================================== *)
(* the walls hit between the legs in the block: back wall, front wall, back wall, ...
   (the k-th internal reflection, k = 1, 2, ..., uses the interface object
   "backwall_refl" for odd k and "frontwall_refl" for even k) *)
Definition wall_seq (backwall frontwall_refl : Iface) (n : nat) : list Iface :=
  map (fun k => if Nat.odd k then backwall else frontwall_refl) (seq 1 n).

(* block_in_immersion.make_paths without the `> 2` limit: for every key of 1 .. r+1
   letters, in the order L, T, LL, LT, ...,
     Path(interfaces=(probe, frontwall, backwall, frontwall_refl, backwall, ..., grid),
          materials=(couplant, block, ..., block), modes=(L, key[0], key[1], ...), name=key) *)
Definition make_paths_imm_gen (d : idict) (r : Z) : res pdict :=
  if (r <? 0)%Z then inr ErrValue else
  bind (get ErrKey KProbe d) (fun probe =>
  bind (get ErrKey KFrontTrans d) (fun frontwall =>
  bind (get ErrKey KGrid d) (fun grid =>
  bind (if (r >=? 1)%Z then get ErrKey KBackRefl d else inl unbound) (fun backwall =>
  bind (if (r >=? 2)%Z then get ErrKey KFrontRefl d else inl unbound) (fun frontwall_refl =>
  mapM (fun key => named key
          (new_path ([probe; frontwall] ++ wall_seq backwall frontwall_refl (length key - 1) ++ [grid])
                    (Couplant :: repeat Block (length key)) (L :: key) key))
       (spec_names (Z.to_nat r))))))).

(* block_in_contact.make_paths without the limit *)
Definition make_paths_contact_gen (d : idict) (r : Z) : res pdict :=
  if (r <? 0)%Z then inr ErrValue else
  bind (get ErrKey KProbe d) (fun probe =>
  bind (get ErrKey KGrid d) (fun grid =>
  bind (if (r >=? 1)%Z then get ErrValue KBackRefl d else inl unbound) (fun backwall =>
  bind (if (r >=? 2)%Z then get ErrValue KFrontRefl d else inl unbound) (fun frontwall_refl =>
  mapM (fun key => named key
          (new_path ([probe] ++ wall_seq backwall frontwall_refl (length key - 1) ++ [grid])
                    (repeat Block (length key)) key key))
       (spec_names (Z.to_nat r)))))).

Definition make_paths_gen (s : Setup) (r : Z) : res pdict :=
  match s with
  | Immersion bw => bind (make_interfaces_imm bw) (fun d => make_paths_imm_gen d r)
  | Contact fw bw um => bind (make_interfaces_contact fw bw um) (fun d => make_paths_contact_gen d r)
  end.

Definition make_views_gen (s : Setup) (r : Z) (unique_only : bool) : res (list (viewname * View)) :=
  bind (make_paths_gen s r) (fun paths => make_views_from_paths paths unique_only).

(* SPEC: the documented paths for any r (spec_paths of Model/Views.v without the limit) *)
Definition spec_paths_gen (s : Setup) (r : Z) : res pdict :=
  if (r <? 0)%Z then inr ErrValue else
  let ok := inl (map (fun w => (w, spec_path s w)) (spec_names (Z.to_nat r))) in
  match s with
  | Immersion bw => if (r >=? 1)%Z && negb bw then inr ErrKey else ok
  | Contact fw bw _ =>
      if ((r >=? 1)%Z && negb bw) || ((r >=? 2)%Z && negb fw) then inr ErrValue else ok
  end.

(* SPEC: shortest first, then alphabetical with L before T ("L, T, LL, LT, TL, TT, LLL, ...") *)
Definition shortlex (a b : word) : Prop :=
  length a < length b \/ (length a = length b /\ word_lt a b).

(* position of the first wall reflection in the interface tuple of a path *)
Definition iface_offset (s : Setup) : nat :=
  match s with Immersion _ => 1 | Contact _ _ _ => 0 end.

(* number of paths with up to r reflections *)
Definition num_paths (r : nat) : nat := 2 ^ (r + 2) - 2.

(* SPEC: the interfaces dictionary: keys in the documented order, each entry the
   documented object.  The front wall appears TWICE in immersion, as two different
   Interface objects on the same points: "frontwall_trans" (entering the block) and
   "frontwall_refl" (second internal reflection). *)
Definition spec_interfaces (s : Setup) : idict :=
  match s with
  | Immersion bw =>
      [(KProbe, spec_probe); (KFrontTrans, spec_front_trans)]
      ++ (if bw then [(KBackRefl, spec_wall s 1)] else [])
      ++ [(KGrid, spec_grid); (KFrontRefl, spec_wall s 2)]
  | Contact fw bw um =>
      [(KProbe, spec_probe); (KGrid, spec_grid)]
      ++ (if bw then [(KBackRefl, spec_wall s 1)] else [])
      ++ (if fw then [(KFrontRefl, spec_wall s 2)] else [])
  end.

Definition make_interfaces (s : Setup) : res idict :=
  match s with
  | Immersion bw => make_interfaces_imm bw
  | Contact fw bw um => make_interfaces_contact fw bw um
  end.

(* SPEC: the path named w travelled backwards (what Path.reverse() of it must be): from
   the scatterer, the walls in the opposite order - a wall reflection seen backwards is
   the same reflection -, out of the block through the front wall as a solid-to-fluid
   transmission (immersion), to the probe *)
Definition spec_grid_rev : Iface := mkIface PGrid None None None None (Some true).
Definition spec_probe_rev : Iface := mkIface PProbe None None None (Some true) None.
Definition spec_front_trans_rev : Iface :=
  mkIface PFront (Some SolidFluid) (Some Transmission) None (Some true) (Some false).

Definition spec_path_reversed (s : Setup) (w : word) : Path :=
  let walls := map (spec_wall s) (rev (seq 1 (length w - 1))) in
  match s with
  | Immersion _ =>
      mkPath ([spec_grid_rev] ++ walls ++ [spec_front_trans_rev; spec_probe_rev])
             (repeat Block (length w) ++ [Couplant]) (rev w ++ [L]) w None
  | Contact _ _ _ =>
      mkPath ([spec_grid_rev] ++ walls ++ [spec_probe_rev]) (repeat Block (length w)) (rev w) w None
  end.

(* ================================================================== *)
(* 5. encodings for the correspondence (strings as lists of code points) *)
(* ================================================================== *)
Definition str_of_z (l : list Z) : pystr := map (fun z => ch (Z.to_nat z)) l.
Definition z_of_str (s : pystr) : list Z := map (fun c => Z.of_nat (Ascii.nat_of_ascii c)) s.

(* -- reciprocal_viewname(s): (error code, code points of the result) -- *)
Definition check_reciprocal_str (c : list Z * (Z * list Z)) : bool :=
  let '(s, (ecode, got)) := c in
  let '(ec, t) := zres z_of_str [] (reciprocal_viewname_str (str_of_z s)) in
  (ec =? ecode)%Z && zl_eqb t got.

(* -- sorted(pairs, key=default_viewname_order)[0] is the smaller: sign of the comparison
      of two key tuples (-1, 0, 1) -- *)
Definition z_of_cmp (c : comparison) : Z := match c with Lt => (-1)%Z | Eq => 0%Z | Gt => 1%Z end.
Definition check_key_cmp (c : (list Z * list Z) * (list Z * list Z) * Z) : bool :=
  let '((t1, r1), (t2, r2), got) := c in
  (z_of_cmp (skey_cmp (default_viewname_order_str (str_of_z t1, str_of_z r1))
                      (default_viewname_order_str (str_of_z t2, str_of_z r2))) =? got)%Z.

(* -- list(make_views_from_paths(...).keys()) as code points, for a setup -- *)
Definition check_view_keys (c : list Z * Z * bool * (Z * list (list Z))) : bool :=
  let '(s, r, uo, (ecode, got)) := c in
  let '(ec, ks) :=
    zres (map (fun e : pystr * View => z_of_str (fst e))) []
         (bind (make_paths (setup_of_z s) r) (fun p => make_views_from_paths_dict p uo)) in
  (ec =? ecode)%Z && list_eqb zl_eqb ks got.
