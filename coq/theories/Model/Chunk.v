(* Model/Chunk.v — how arim splits work into tasks (C13, used by C08).

   Mirrors:
     arim.helpers.chunk_array            (slices clipped the way numpy clips them)
     arim.ray.find_minimum_times         (tiles = row chunks x column chunks,
                                          block_size_adj = ceil(block_size / m))
     arim.geometry.distance_pairwise     (tiles, chunk_size = ceil(block_size / 6))
     numba prange loops                  (iteration p owns result[p])
   and the abstract execution of a list of tasks on an output array, in any
   order (a schedule is a permutation of the task list; tasks are atomic —
   what a theorem cannot see is listed in DESIGN §5 C13). *)
From Coq Require Import Arith List Bool.
Import ListNotations.

(* math.ceil(a / b) for positive b (Python computes it in floating point; for the
   array sizes that fit in memory, far below 2^53, both agree). *)
Definition ceil_div (a b : nat) : nat := (a + b - 1) / b.

Definition numchunks (len b : nat) : nat := ceil_div len b.

(* the i-th selector slice(i*b, (i+1)*b) applied to an axis of length len:
   half-open range [start, stop) after numpy's clipping *)
Definition chunk (len b i : nat) : nat * nat :=
  (Nat.min (i * b) len, Nat.min ((i + 1) * b) len).

Definition chunks (len b : nat) : list (nat * nat) :=
  map (chunk len b) (seq 0 (numchunks len b)).

Definition range_of (r : nat * nat) : list nat := seq (fst r) (snd r - fst r).

(* a tile: (row range, column range) *)
Definition tile := ((nat * nat) * (nat * nat))%type.

Definition tile_cells (t : tile) : list (nat * nat) :=
  list_prod (range_of (fst t)) (range_of (snd t)).

(* task list in the order the code submits it: for chunk1: for chunk2 *)
Definition tiles (n p b1 b2 : nat) : list tile :=
  list_prod (chunks n b1) (chunks p b2).

(* find_minimum_times: time_1 is (n, m), time_2 is (m, p) *)
Definition fmt_tiles (n m p block_size : nat) : list tile :=
  let b := ceil_div block_size m in tiles n p b b.

(* distance_pairwise: (num1, num2) *)
Definition dist_tiles (num1 num2 block_size : nat) : list tile :=
  let b := ceil_div block_size 6 in tiles num1 num2 b b.

(* prange over numpoints: task p owns cell (p, 0) *)
Definition prange_tiles (numpoints : nat) : list tile :=
  map (fun p => ((p, p + 1), (0, 1))) (seq 0 numpoints).

(* ---- abstract execution of tasks ------------------------------------ *)
Section Exec.
  Variable V : Type.
  Definition arr := nat -> nat -> V.

  (* a task writes, on each of its cells, a value that depends only on the
     (read-only) inputs and on the cell *)
  Record task := mkTask { t_cells : list (nat * nat); t_val : nat -> nat -> V }.

  Definition upd (a : arr) (c : nat * nat) (v : V) : arr :=
    fun i j => if (i =? fst c) && (j =? snd c) then v else a i j.

  Definition run_task (a : arr) (t : task) : arr :=
    fold_left (fun a c => upd a c (t_val t (fst c) (snd c))) (t_cells t) a.

  Definition run (ts : list task) (a : arr) : arr := fold_left run_task ts a.

  (* the tasks of one call: every tile evaluates the same cell function f *)
  Definition tasks_of (f : nat -> nat -> V) (tl : list tile) : list task :=
    map (fun t => mkTask (tile_cells t) f) tl.
End Exec.

Arguments mkTask {V}. Arguments t_cells {V}. Arguments t_val {V}.
Arguments upd {V}. Arguments run_task {V}. Arguments run {V}. Arguments tasks_of {V}.

(* ---- Z-facing wrappers used by the generated correspondence files
   (cases are written with binary Z literals, never unary nat literals) ---- *)
From Coq Require Import ZArith.
From Arim Require Import Base.ListX.
Definition chunks_z (len b : Z) : list (Z * Z) :=
  map zpair_of_nat (chunks (Z.to_nat len) (Z.to_nat b)).
Definition nonempty_z (l : list (Z * Z)) : list (Z * Z) := filter (fun r => (fst r <? snd r)%Z) l.
Definition tile_z (t : tile) : (Z * Z) * (Z * Z) := (zpair_of_nat (fst t), zpair_of_nat (snd t)).
Definition tilez_eqb : (Z * Z) * (Z * Z) -> (Z * Z) * (Z * Z) -> bool := pair_eqb zpair_eqb zpair_eqb.
Definition fmt_tiles_z (n m p bs : Z) : list ((Z * Z) * (Z * Z)) :=
  map tile_z (fmt_tiles (Z.to_nat n) (Z.to_nat m) (Z.to_nat p) (Z.to_nat bs)).
Definition dist_tiles_z (n1 n2 bs : Z) : list ((Z * Z) * (Z * Z)) :=
  map tile_z (dist_tiles (Z.to_nat n1) (Z.to_nat n2) (Z.to_nat bs)).
